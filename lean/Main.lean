import LogosModel.Driver
def main : IO Unit := do
  Logos.run (← IO.getStdin) (← IO.getStdout) {}
