import LogosModel.SkipTransparent
/-!
# C03: "the gaps between them are exactly the skipped regions"

`graphLex_tiles_bump` says that the items of an ordinary lexer are non-empty, in order, inside the input, and that lexing
ends at the input length; it allows gaps (`Tiles`).  This file says what the gaps are.

* `Contig p items e`: the items lie end to end from `p` to `e` - each starts where the one before stopped.
* **`noSkip_contiguous`**: for a well-formed graph and a callback table that never answers `Skip`, the items of the
  ordinary lexer lie end to end from 0 to the input length: every byte belongs to exactly one item.
* **`C03_gaps_are_skipped_matches`**: for any table `cb` (bumping inside the remainder), the stream is the stream of the
  marked table (`markSkips`: every skipped match reported as an item) with the markers deleted (`C13_skip_transparent`),
  and the marked stream is contiguous from 0 to the input length - so a gap between two items of the real stream is
  exactly a run of skipped matches, and the last item or skipped match ends at the input length.
-/
namespace Logos

def Contig : Nat → List Item → Nat → Prop
  | p, [], e => p = e
  | p, it :: r, e => it.start = p ∧ it.start < it.stop ∧ Contig it.stop r e

def NoSkip (cb : Callbacks) : Prop := ∀ l s r, (cb l s r).act ≠ .skip

theorem markSkips_noSkip (mark : Nat) (cb : Callbacks) : NoSkip (markSkips mark cb) := by
  intro l s r
  unfold markSkips
  cases h : (cb l s r).act <;> simp [h]

/-- with a table that never skips, what one call of `next` yields starts where the call started -/
theorem nextLoop_noSkip_start (att : Nat → Attempt) (cb : Callbacks) (hns : NoSkip cb) (utf8 : Bool) (inp : List Nat)
    (n start : Nat) :
    (∀ it, nextLoop att cb utf8 inp (n + 1) start = .item it → it.start = start) ∧
    (∀ s e, nextLoop att cb utf8 inp (n + 1) start = .none s e → s = start ∧ e = start) := by
  simp only [nextLoop]
  cases att start with
  | eoi =>
    constructor
    · intro it h; cases h
    · intro s e h; injection h with h1 h2; exact ⟨h1.symm, h2.symm⟩
  | needMore =>
    constructor
    · intro it h; cases h
    · intro s e h; injection h with h1 h2; exact ⟨h1.symm, h2.symm⟩
  | diverge =>
    constructor
    · intro it h; cases h
    · intro s e h; cases h
  | «nomatch» off =>
    simp only
    cases utf8 with
    | false =>
      constructor
      · intro it h
        simp only [Bool.false_eq_true, if_false] at h
        injection h with h
        subst h
        rfl
      · intro s e h; simp at h
    | true =>
      simp only [if_true]
      cases findBoundary inp (max off (start + 1)) with
      | none =>
        constructor
        · intro it h; cases h
        · intro s e h; cases h
      | some e0 =>
        constructor
        · intro it h
          injection h with h
          subst h
          rfl
        · intro s e h; cases h
  | matched l te =>
    simp only
    have hn := hns l (slice inp start te) (inp.drop te)
    cases hact : (cb l (slice inp start te) (inp.drop te)).act with
    | skip => exact absurd hact hn
    | emit =>
      constructor
      · intro it h; injection h with h; subst h; rfl
      · intro s e h; cases h
    | errDefault =>
      constructor
      · intro it h; injection h with h; subst h; rfl
      · intro s e h; cases h
    | errCustom t =>
      constructor
      · intro it h; injection h with h; subst h; rfl
      · intro s e h; cases h

theorem lexFrom_noSkip_contig {G : Graph} (hwf : WF G) (cb : Callbacks) (hcb : BumpOK cb) (hns : NoSkip cb) (utf8 : Bool)
    (inp : List Nat) (hb : ∀ b ∈ inp, b < 256) :
    ∀ (fuel pos : Nat), pos ≤ inp.length → inp.length - pos + 1 ≤ fuel →
      ∃ items q, lexFrom (walkAttempt G false inp) cb utf8 inp fuel pos = (items, .done q q) ∧ Contig pos items q := by
  intro fuel
  induction fuel with
  | zero => intro pos _ h; omega
  | succ n ih =>
    intro pos hp hf
    unfold lexFrom
    obtain ⟨hstart, hnone⟩ := nextLoop_noSkip_start (walkAttempt G false inp) cb hns utf8 inp (inp.length + 1) pos
    rcases nextLoop_ok_any hwf cb hcb utf8 false inp hb (inp.length + 2) pos hp (by omega) with
      ⟨q, h, _, _⟩ | ⟨it, h, _, h2, h3⟩
    · rw [h]
      obtain ⟨e1, _⟩ := hnone q q h
      exact ⟨[], q, rfl, e1.symm⟩
    · rw [h]
      have hs := hstart it h
      obtain ⟨items, q, e, hc⟩ := ih it.stop h3 (by omega)
      exact ⟨it :: items, q, by simp [e], hs, h2, hc⟩

/-- **a lexer that never skips covers every byte with exactly one item** -/
theorem noSkip_contiguous {G : Graph} (hwf : WF G) (cb : Callbacks) (hcb : BumpOK cb) (hns : NoSkip cb) (utf8 : Bool)
    (inp : List Nat) (hb : ∀ b ∈ inp, b < 256) :
    ∃ items, graphLex G false cb utf8 inp = (items, .done inp.length inp.length) ∧ Contig 0 items inp.length := by
  obtain ⟨items', e', _, _⟩ := graphLex_tiles_bump hwf cb hcb utf8 inp hb
  unfold graphLex lexAll at *
  obtain ⟨items, q, e, hc⟩ := lexFrom_noSkip_contig hwf cb hcb hns utf8 inp hb (inp.length + 2) 0 (Nat.zero_le _) (by omega)
  rw [e] at e'
  injection e' with h1 h2
  injection h2 with h3 _
  subst h3
  exact ⟨items, e, hc⟩

/-- **C03 (the gaps are exactly the skipped regions).**  The stream of an ordinary lexer is a contiguous cover of the
input by items - from 0 to the input length, each starting where the one before stopped - from which the skipped matches
(the marker items) have been deleted. -/
theorem C03_gaps_are_skipped_matches {G : Graph} (hwf : WF G) (mark : Nat) (cb : Callbacks) (hcb : BumpOK cb)
    (hfresh : ∀ l s r, (cb l s r).act ≠ .errCustom mark) (utf8 : Bool) (inp : List Nat) (hb : ∀ b ∈ inp, b < 256) :
    ∃ cover, graphLex G false (markSkips mark cb) utf8 inp = (cover, .done inp.length inp.length) ∧
      Contig 0 cover inp.length ∧
      graphLex G false cb utf8 inp = (cover.filter fun it => !it.isMark mark, .done inp.length inp.length) := by
  obtain ⟨cover, e, hc⟩ := noSkip_contiguous hwf (markSkips mark cb) (markSkips_bumpOK hcb) (markSkips_noSkip mark cb)
    utf8 inp hb
  refine ⟨cover, e, hc, ?_⟩
  rw [C13_skip_transparent hwf false mark cb hcb hfresh utf8 inp hb, e]
  rfl

end Logos
