import LogosModel.Hir
import LogosModel.NormProof
/-!
# Default priorities (logos-codegen/src/pattern.rs `Pattern::complexity`), C09
-/
namespace Logos

mutual
/-- every class of the tree has at least one alternative and no empty byte sequence (true of every
dump: a scalar value is 1–4 bytes) -/
def Hir.clsOK : Hir → Bool
  | .cls _ _ seqs => seqs.all fun s => !s.isEmpty
  | .rep _ _ _ s => s.clsOK
  | .cap s => s.clsOK
  | .cat ss => Hir.clsOKL ss
  | .alt ss => Hir.clsOKL ss
  | _ => true
def Hir.clsOKL : List Hir → Bool
  | [] => true
  | h :: t => h.clsOK && Hir.clsOKL t
end

theorem inRanges_single (b c : Nat) : inRanges [(b, b)] c = true ↔ c = b := by
  simp [inRanges]
  omega

theorem matches_set_length {rs : List (Nat × Nat)} {w : List Nat} (h : Matches (.set rs) w) :
    w.length = 1 := by
  cases h; rfl

theorem matches_litRe (bs v : List Nat) : Matches (litRe bs) v ↔ v = bs := by
  induction bs generalizing v with
  | nil =>
    show Matches .eps v ↔ v = []
    constructor
    · intro h; cases h; rfl
    · rintro rfl; exact .eps
  | cons b bs ih =>
    show Matches (mkCat (.set [(b, b)]) (litRe bs)) v ↔ v = b :: bs
    rw [matches_mkCat, matches_cat_iff]
    constructor
    · rintro ⟨u, v', rfl, h1, h2⟩
      rw [ih] at h2
      subst h2
      cases h1 with
      | set hb => rw [inRanges_single] at hb; subst hb; rfl
    · rintro rfl
      exact ⟨[b], bs, rfl, .set ((inRanges_single b b).2 rfl), (ih bs).2 rfl⟩

theorem matches_seqRe_length (s : List (Nat × Nat)) (w : List Nat) (h : Matches (seqRe s) w) :
    w.length = s.length := by
  induction s generalizing w with
  | nil =>
    change Matches .eps w at h
    cases h; rfl
  | cons r s ih =>
    change Matches (mkCat (.set [r]) (seqRe s)) w at h
    rw [matches_mkCat, matches_cat_iff] at h
    obtain ⟨u, v, rfl, h1, h2⟩ := h
    have := matches_set_length h1
    have := ih v h2
    simp [List.length_append]; omega

theorem matches_seqsRe_length (ss : List (List (Nat × Nat))) (w : List Nat)
    (h : Matches (seqsRe ss) w) : ∃ s, s ∈ ss ∧ w.length = s.length := by
  induction ss with
  | nil =>
    change Matches .empty w at h
    cases h
  | cons s ss ih =>
    change Matches (mkAlt (seqRe s) (seqsRe ss)) w at h
    rw [matches_mkAlt] at h
    rcases h with h | h
    · exact ⟨s, List.mem_cons_self, matches_seqRe_length s w h⟩
    · obtain ⟨s', hs', hl⟩ := ih h
      exact ⟨s', List.mem_cons_of_mem _ hs', hl⟩

theorem matches_powRe_bound (r : Re) (c : Nat) (hr : ∀ x, Matches r x → c ≤ 2 * x.length)
    (n : Nat) (w : List Nat) (h : Matches (powRe r n) w) : n * c ≤ 2 * w.length := by
  induction n generalizing w with
  | zero => simp
  | succ n ih =>
    change Matches (mkCat r (powRe r n)) w at h
    rw [matches_mkCat, matches_cat_iff] at h
    obtain ⟨u, v, rfl, h1, h2⟩ := h
    have := hr u h1
    have := ih v h2
    rw [Nat.succ_mul, List.length_append]; omega

theorem charCount_le (bs : List Nat) : charCount bs ≤ bs.length := by
  unfold charCount; exact List.length_filter_le _ _

mutual
theorem complexity_bound (h : Hir) (hc : h.clsOK = true) (w : List Nat)
    (hm : Matches h.lower w) : h.complexity ≤ 2 * w.length := by
  match h with
  | .empty => simp [Hir.complexity]
  | .look _ => simp [Hir.complexity]
  | .lit bs =>
    simp only [Hir.lower] at hm
    rw [matches_litRe] at hm
    subst hm
    simp only [Hir.complexity]
    have := charCount_le w
    split <;> omega
  | .cls _ _ seqs =>
    simp only [Hir.lower] at hm
    simp only [Hir.clsOK, List.all_eq_true] at hc
    obtain ⟨s, hs, hl⟩ := matches_seqsRe_length seqs w hm
    have := hc s hs
    have : 0 < s.length := by
      cases s with
      | nil => simp at this
      | cons _ _ => simp
    simp only [Hir.complexity]; omega
  | .rep mn mx g s =>
    simp only [Hir.clsOK] at hc
    simp only [Hir.complexity]
    have ih := complexity_bound s hc
    simp only [Hir.lower] at hm
    have key : ∀ tail, Matches (mkCat (powRe s.lower mn) tail) w → mn * s.complexity ≤ 2 * w.length := by
      intro tail hm
      rw [matches_mkCat, matches_cat_iff] at hm
      obtain ⟨u, v, rfl, h1, _⟩ := hm
      have := matches_powRe_bound s.lower s.complexity ih mn u h1
      rw [List.length_append]; omega
    cases mx with
    | none => exact key _ hm
    | some m => exact key _ hm
  | .cap s =>
    simp only [Hir.clsOK] at hc
    simp only [Hir.lower] at hm
    simp only [Hir.complexity]
    exact complexity_bound s hc w hm
  | .cat ss =>
    simp only [Hir.clsOK] at hc
    simp only [Hir.lower] at hm
    simp only [Hir.complexity]
    exact complexitySum_bound ss hc w hm
  | .alt ss =>
    simp only [Hir.clsOK] at hc
    simp only [Hir.lower] at hm
    simp only [Hir.complexity]
    obtain ⟨m, hm1, hm2⟩ := complexityMin_bound ss hc w hm
    rw [hm1]; exact hm2
theorem complexitySum_bound (ss : List Hir) (hc : Hir.clsOKL ss = true) (w : List Nat)
    (hm : Matches (Hir.lowerCat ss) w) : Hir.complexitySum ss ≤ 2 * w.length := by
  match ss with
  | [] => simp [Hir.complexitySum]
  | h :: t =>
    simp only [Hir.clsOKL, Bool.and_eq_true] at hc
    simp only [Hir.lowerCat] at hm
    rw [matches_mkCat, matches_cat_iff] at hm
    obtain ⟨u, v, rfl, h1, h2⟩ := hm
    have := complexity_bound h hc.1 u h1
    have := complexitySum_bound t hc.2 v h2
    simp only [Hir.complexitySum, List.length_append]; omega
theorem complexityMin_bound (ss : List Hir) (hc : Hir.clsOKL ss = true) (w : List Nat)
    (hm : Matches (Hir.lowerAlt ss) w) :
    ∃ m, Hir.complexityMin ss = some m ∧ m ≤ 2 * w.length := by
  match ss with
  | [] =>
    simp only [Hir.lowerAlt] at hm
    cases hm
  | h :: t =>
    simp only [Hir.clsOKL, Bool.and_eq_true] at hc
    simp only [Hir.lowerAlt] at hm
    rw [matches_mkAlt] at hm
    simp only [Hir.complexityMin]
    rcases hm with hm | hm
    · have := complexity_bound h hc.1 w hm
      cases hmin : Hir.complexityMin t with
      | none => exact ⟨_, rfl, this⟩
      | some m => exact ⟨_, rfl, Nat.le_trans (Nat.min_le_left _ _) this⟩
    · obtain ⟨m, hm1, hm2⟩ := complexityMin_bound t hc.2 w hm
      rw [hm1]
      exact ⟨_, rfl, Nat.le_trans (Nat.min_le_right _ _) hm2⟩
end

/-- **C09, specificity bound.** Any string matched by a pattern is at least half its default priority
long: the default priority never exceeds twice the length of a match. -/
theorem complexity_le_twice_len (h : Hir) (hc : h.clsOK = true) (w : List Nat)
    (hm : Matches h.lower w) : h.complexity ≤ 2 * w.length :=
  complexity_bound h hc w hm

/-- **C09, literal tokens are never beaten on their own text**: a `#[token]` has default priority
`2 * byte length`; a regex with default priority matching the literal's text has priority at most
that, so the token wins or ties (and a tie is an ambiguity error, C08). -/
theorem literal_never_beaten (h : Hir) (hc : h.clsOK = true) (lit : List Nat)
    (hm : Matches h.lower lit) : h.complexity ≤ 2 * lit.length :=
  complexity_le_twice_len h hc lit hm

/-- A literal's language is exactly its byte string (C10, first clause). -/
theorem lit_language (bs v : List Nat) : Matches (litRe bs) v ↔ v = bs :=
  matches_litRe bs v

end Logos
