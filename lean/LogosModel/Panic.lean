import LogosModel.BumpTiles
/-!
# A call of `next` whose callback panics (C14 / C15: use of the lexer after a caught panic)

A callback is user code: it may panic (an out-of-range `bump` inside it does), the caller may catch the unwind and go
on using the lexer.  The generated code calls the callback of the winning match after `lex.end(token_end)` and after
every skipped match before it has been made trivia, and nothing runs during the unwind: the lexer is left with the span
the callback saw, `token_start .. token_end` of the match.

`nextLoopP` is `nextLoop` with a predicate saying which callback invocations panic; `nextLoopP_never`: without panics
it is `nextLoop`; `nextLoopP_ok`: for a well-formed graph, ordinary or partial lexer, bumping callbacks, a call that
ends in a panic leaves a non-empty span inside the source that starts at or after the old end - the same guarantee an
item has (`lexerNextP_ok`: on the pool model of the API).
-/
namespace Logos

/-- leaf → matched slice → remainder → does this invocation panic -/
abbrev Panics := Nat → List Nat → List Nat → Bool

inductive PRes where
  | res (r : NextRes)
  | panic (spanStart spanEnd : Nat)     -- the unwind left `span() = spanStart..spanEnd`
deriving Repr, DecidableEq

def nextLoopP (att : Nat → Attempt) (cb : Callbacks) (pn : Panics) (utf8 : Bool) (inp : List Nat) :
    (fuel : Nat) → (start : Nat) → PRes
  | 0, _ => .res .diverge
  | fuel+1, start =>
    match att start with
    | .eoi => .res (.none start start)
    | .needMore => .res (.none start start)
    | .diverge => .res .diverge
    | .nomatch off =>
      let e0 := max off (start + 1)
      if utf8 then
        match findBoundary inp e0 with
        | some e => .res (.item (.err none start e))
        | none => .res .diverge
      else .res (.item (.err none start e0))
    | .matched l te =>
      if pn l (slice inp start te) (inp.drop te) then .panic start te else
      let out := cb l (slice inp start te) (inp.drop te)
      let te' := te + out.bump
      match out.act with
      | .emit => .res (.item (.ok l start te'))
      | .skip => nextLoopP att cb pn utf8 inp fuel te'
      | .errDefault => .res (.item (.err none start te'))
      | .errCustom t => .res (.item (.err (some t) start te'))

/-- no callback panics: the loop is `nextLoop` -/
theorem nextLoopP_never (att : Nat → Attempt) (cb : Callbacks) (pn : Panics) (hpn : ∀ l s r, pn l s r = false)
    (utf8 : Bool) (inp : List Nat) : ∀ (fuel start : Nat),
    nextLoopP att cb pn utf8 inp fuel start = .res (nextLoop att cb utf8 inp fuel start) := by
  intro fuel
  induction fuel with
  | zero => intro start; rfl
  | succ n ih =>
    intro start
    unfold nextLoopP nextLoop
    cases att start with
    | eoi => rfl
    | needMore => rfl
    | diverge => rfl
    | «nomatch» off =>
      cases utf8 with
      | false => rfl
      | true =>
        simp only [if_true]
        cases findBoundary inp (max off (start + 1)) <;> rfl
    | matched l te =>
      simp only [hpn, Bool.false_eq_true, if_false]
      cases (cb l (slice inp start te) (List.drop te inp)).act with
      | emit => rfl
      | skip => exact ih _
      | errDefault => rfl
      | errCustom t => rfl

/-- the loop around an abstract attempt function (the hypotheses of `nextLoop_ok_gen`): a panic leaves a non-empty
span inside the input, at or after the position the call started from -/
theorem nextLoopP_ok_gen (att : Nat → Attempt) (cb : Callbacks) (hcb : BumpOK cb) (pn : Panics) (utf8 : Bool)
    (inp : List Nat)
    (hdiv : ∀ start, att start ≠ .diverge)
    (hno : ∀ start off, start ≤ inp.length → att start = .nomatch off →
      start ≤ off ∧ off ≤ inp.length ∧ start < inp.length)
    (hm : ∀ start l e, start ≤ inp.length → att start = .matched l e → start < e ∧ e ≤ inp.length) :
    ∀ (fuel start : Nat), start ≤ inp.length → inp.length - start + 1 ≤ fuel →
      (∃ q, nextLoopP att cb pn utf8 inp fuel start = .res (.none q q) ∧ start ≤ q ∧ q ≤ inp.length) ∨
      (∃ it, nextLoopP att cb pn utf8 inp fuel start = .res (.item it) ∧
        start ≤ it.start ∧ it.start < it.stop ∧ it.stop ≤ inp.length) ∨
      ∃ s e, nextLoopP att cb pn utf8 inp fuel start = .panic s e ∧ start ≤ s ∧ s < e ∧ e ≤ inp.length := by
  intro fuel
  induction fuel with
  | zero => intro start _ h; omega
  | succ n ih =>
    intro start hs hf
    unfold nextLoopP
    cases hatt : att start with
    | eoi => left; exact ⟨start, rfl, Nat.le_refl _, hs⟩
    | needMore => left; exact ⟨start, rfl, Nat.le_refl _, hs⟩
    | diverge => exact absurd hatt (hdiv start)
    | «nomatch» off =>
      obtain ⟨h1, h2, h3⟩ := hno start off hs hatt
      have he0 : max off (start + 1) ≤ inp.length := by omega
      right; left
      cases utf8 with
      | false =>
        refine ⟨.err none start (max off (start + 1)), by simp, ?_⟩
        simp only [Item.start, Item.stop]; omega
      | true =>
        obtain ⟨j, hj1, hj2, hj3, _⟩ := findBoundary_spec inp _ he0
        refine ⟨.err none start j, by simp [hj1], ?_⟩
        simp only [Item.start, Item.stop]; omega
    | matched l te =>
      obtain ⟨h1, h2⟩ := hm start l te hs hatt
      simp only
      by_cases hp : pn l (slice inp start te) (List.drop te inp) = true
      · right; right
        exact ⟨start, te, by simp [hp], Nat.le_refl _, h1, h2⟩
      · have hp' : pn l (slice inp start te) (List.drop te inp) = false := by simpa using hp
        simp only [hp', Bool.false_eq_true, if_false]
        have hbump : (cb l (slice inp start te) (List.drop te inp)).bump ≤ inp.length - te := by
          have := hcb l (slice inp start te) (List.drop te inp)
          rwa [List.length_drop] at this
        generalize (cb l (slice inp start te) (List.drop te inp)).bump = k at hbump
        cases hact : (cb l (slice inp start te) (List.drop te inp)).act with
        | emit =>
          right; left
          exact ⟨.ok l start (te + k), rfl, by simp only [Item.start, Item.stop]; omega⟩
        | skip =>
          simp only
          rcases ih (te + k) (by omega) (by omega) with ⟨q, h, h3, h4⟩ | ⟨it, h, h3, h4, h5⟩ | ⟨s, e, h, h3, h4, h5⟩
          · left; exact ⟨q, h, by omega, h4⟩
          · right; left; exact ⟨it, h, by omega, h4, h5⟩
          · right; right; exact ⟨s, e, h, by omega, h4, h5⟩
        | errDefault =>
          right; left
          exact ⟨.err none start (te + k), rfl, by simp only [Item.start, Item.stop]; omega⟩
        | errCustom t =>
          right; left
          exact ⟨.err (some t) start (te + k), rfl, by simp only [Item.start, Item.stop]; omega⟩

/-- **After a caught panic the span is valid**: well-formed graph, ordinary or partial lexer, bumping callbacks -/
theorem nextLoopP_ok {G : Graph} (hwf : WF G) (cb : Callbacks) (hcb : BumpOK cb) (pn : Panics) (utf8 : Bool)
    (isPrefix : Bool) (inp : List Nat) (hb : ∀ b ∈ inp, b < 256) (fuel start : Nat) (hs : start ≤ inp.length)
    (hf : inp.length - start + 1 ≤ fuel) (s e : Nat)
    (h : nextLoopP (walkAttempt G isPrefix inp) cb pn utf8 inp fuel start = .panic s e) :
    start ≤ s ∧ s < e ∧ e ≤ inp.length := by
  have key : ∀ att : Nat → Attempt, att = walkAttempt G isPrefix inp →
      (∀ start, att start ≠ .diverge) →
      (∀ start off, start ≤ inp.length → att start = .nomatch off → start ≤ off ∧ off ≤ inp.length ∧ start < inp.length) →
      (∀ start l e, start ≤ inp.length → att start = .matched l e → start < e ∧ e ≤ inp.length) →
      start ≤ s ∧ s < e ∧ e ≤ inp.length := by
    intro att hatt h1 h2 h3
    subst hatt
    rcases nextLoopP_ok_gen _ cb hcb pn utf8 inp h1 h2 h3 fuel start hs hf with ⟨q, hq, _⟩ | ⟨it, hi, _⟩ | ⟨s', e', hp, a, b, c⟩
    · rw [hq] at h; cases h
    · rw [hi] at h; cases h
    · rw [hp] at h; cases h; exact ⟨a, b, c⟩
  cases isPrefix with
  | false =>
    exact key _ rfl (fun st => walkAttempt_not_diverge hwf inp st)
      (fun st off _ h => walkAttempt_nomatch_bounds hwf inp hb st off h)
      (fun st l e _ h => walkAttempt_matched_bounds hwf inp hb st l e h)
  | true =>
    exact key _ rfl (fun st => ps_attempt_true_not_diverge G inp st)
      (fun st off hs h => ps_nomatch_bounds hwf inp hb st off hs h)
      (fun st l e hs h => ps_matched_bounds hwf inp hb st l e hs h)

/-- `Iterator::next` on the pool model when callbacks may panic: the lexer afterwards, and what the call did -/
def lexerNextP (env : ApiEnv) (pn : Panics) (st : LexSt) : LexSt × PRes :=
  let r := nextLoopP (walkAttempt (env.graph st.ty) st.pfx (env.srcOf st)) (env.cb st.ty) pn env.utf8 (env.srcOf st)
    ((env.srcOf st).length + 2) st.stop
  match r with
  | .res (.item it) => ({ st with start := it.start, stop := it.stop }, r)
  | .res (.none s e) => ({ st with start := s, stop := e }, r)
  | .res .diverge => (st, r)
  | .panic s e => ({ st with start := s, stop := e }, r)

/-- **C14 / C15 after a caught panic**: whatever a call of `next` did - returned an item, returned `None`, or unwound
out of a panicking callback - the lexer's span is a range of its own source -/
theorem lexerNextP_ok (env : ApiEnv) (hA : WF env.gA) (hB : WF env.gB)
    (hcbA : BumpOK env.cbA) (hcbB : BumpOK env.cbB) (hb : env.bytesOK) (pn : Panics)
    (st : LexSt) (h : st.ok env) : (lexerNextP env pn st).1.ok env := by
  have hG : WF (env.graph st.ty) := by unfold ApiEnv.graph; split <;> assumption
  have hC : BumpOK (env.cb st.ty) := by unfold ApiEnv.cb; split <;> assumption
  have hbytes := env.srcOf_bytes hb st
  have hsrc : ∀ st' : LexSt, st'.srcId = st.srcId → env.srcOf st' = env.srcOf st := fun st' h' => srcOf_congr env h'
  unfold LexSt.ok LexSt.inRange at h ⊢
  unfold lexerNextP
  simp only
  cases hr : nextLoopP (walkAttempt (env.graph st.ty) st.pfx (env.srcOf st)) (env.cb st.ty) pn env.utf8 (env.srcOf st)
      ((env.srcOf st).length + 2) st.stop with
  | panic s e =>
    have := nextLoopP_ok hG (env.cb st.ty) hC pn env.utf8 st.pfx (env.srcOf st) hbytes _ st.stop h.2 (by omega) s e hr
    simp only [hsrc { st with start := s, stop := e } rfl]
    omega
  | res r =>
    have key : ∀ att : Nat → Attempt, att = walkAttempt (env.graph st.ty) st.pfx (env.srcOf st) →
        (∀ start, att start ≠ .diverge) →
        (∀ start off, start ≤ (env.srcOf st).length → att start = .nomatch off →
          start ≤ off ∧ off ≤ (env.srcOf st).length ∧ start < (env.srcOf st).length) →
        (∀ start l e, start ≤ (env.srcOf st).length → att start = .matched l e → start < e ∧ e ≤ (env.srcOf st).length) →
        (∃ q, r = .none q q ∧ q ≤ (env.srcOf st).length) ∨
          (∃ it, r = .item it ∧ it.start < it.stop ∧ it.stop ≤ (env.srcOf st).length) := by
      intro att hatt h1 h2 h3
      subst hatt
      rcases nextLoopP_ok_gen _ (env.cb st.ty) hC pn env.utf8 (env.srcOf st) h1 h2 h3 ((env.srcOf st).length + 2) st.stop h.2 (by omega) with
        ⟨q, hq, _, hq2⟩ | ⟨it, hi, _, hi2, hi3⟩ | ⟨s', e', hp, _⟩
      · rw [hq] at hr; cases hr; exact .inl ⟨q, rfl, hq2⟩
      · rw [hi] at hr; cases hr; exact .inr ⟨it, rfl, hi2, hi3⟩
      · rw [hp] at hr; cases hr
    have := by
      cases hpf : st.pfx with
      | false =>
        exact key _ (by rw [hpf]) (fun s0 => walkAttempt_not_diverge hG _ s0)
          (fun s0 off _ h' => walkAttempt_nomatch_bounds hG _ hbytes s0 off h')
          (fun s0 l e _ h' => walkAttempt_matched_bounds hG _ hbytes s0 l e h')
      | true =>
        exact key _ (by rw [hpf]) (fun s0 => ps_attempt_true_not_diverge _ _ s0)
          (fun s0 off hs h' => ps_nomatch_bounds hG _ hbytes s0 off hs h')
          (fun s0 l e hs h' => ps_matched_bounds hG _ hbytes s0 l e hs h')
    rcases this with ⟨q, rfl, hq⟩ | ⟨it, rfl, hi1, hi2⟩
    · simp only [hsrc { st with start := q, stop := q } rfl]
      omega
    · simp only [hsrc { st with start := it.start, stop := it.stop } rfl]
      omega

end Logos
