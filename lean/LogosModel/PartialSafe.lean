import LogosModel.WfProof
/-!
# C07, safety half, for every well-formed graph (no certificate needed, look-around included)

The partial lexer (`is_prefix = true`) differs from the one-shot lexer only at the end of the buffer:
a state that still has an outgoing byte or end-of-input edge answers "need more input" instead of
finishing the attempt.  Hence every attempt it *does* finish is finished identically by the one-shot
lexer on any extension of the buffer, and the items it yields before `None` are a leading run of the
one-shot items; the position it reports at `None` is the start of the first item it did not commit.

Assumptions on the callbacks: they do not bump and their decision does not depend on the remainder of
the input (a callback that peeks at the remainder sees a different remainder in the two runs).
-/
namespace Logos

/-! ## walk level -/

theorem ps_next_nil {sd : StateData} (h : sd.normal = []) (b : Nat) : sd.next b = none := by
  simp [StateData.next, h]

/-- in prefix mode the end-of-input handler never recurses -/
theorem ps_atEoi_true (G : Graph) (start n st pos : Nat) (ctx : Option Nat) (te : Nat) :
    atEoi G true start (n+1) st pos ctx te = .needMore ∨
    atEoi G true start (n+1) st pos ctx te = .endOfInput ∨
    (atEoi G true start (n+1) st pos ctx te = .action pos ctx te ∧
      (G.get st).normal = [] ∧ (G.get st).eoi = none ∧ (st == G.root && start == pos) = false) := by
  unfold atEoi
  cases hn : (G.get st).normal with
  | cons a l => left; simp [hn]
  | nil =>
    cases he : (G.get st).eoi with
    | some t => left; simp [hn, he]
    | none =>
      cases hr : (st == G.root && start == pos) with
      | true => right; left; simp [hn, he]
      | false => right; right; simp [hn, he]

theorem ps_walk_ext (G : Graph) (start : Nat) (ext : List Nat) :
    ∀ (rest : List Nat) (st pos : Nat) (ctx : Option Nat) (te off : Nat) (c : Option Nat) (e : Nat),
      walk G true start st rest pos ctx te = .action off c e →
      walk G false start st (rest ++ ext) pos ctx te = .action off c e := by
  intro rest
  induction rest with
  | nil =>
    intro st pos ctx te off c e h
    simp only [walk] at h
    rcases ps_atEoi_true G start G.states.size st pos (record (G.get st) pos ctx te).1
      (record (G.get st) pos ctx te).2 with h1 | h1 | ⟨h1, hn, he, hr⟩
    · rw [h1] at h; cases h
    · rw [h1] at h; cases h
    · rw [h1] at h
      cases ext with
      | nil =>
        simp only [List.append_nil, walk]
        unfold atEoi
        simp [hn, he, hr]
        simpa using h
      | cons b ext' =>
        simp only [List.nil_append, walk, ps_next_nil hn b]
        exact h
  | cons b w ih =>
    intro st pos ctx te off c e h
    cases hnx : (G.get st).next b with
    | none => simp only [List.cons_append, walk, hnx] at h ⊢; exact h
    | some t => simp only [List.cons_append, walk, hnx] at h ⊢; exact ih _ _ _ _ _ _ _ h

theorem ps_walk_true_not_diverge (G : Graph) (start : Nat) :
    ∀ (rest : List Nat) (st pos : Nat) (ctx : Option Nat) (te : Nat),
      walk G true start st rest pos ctx te ≠ .diverge := by
  intro rest
  induction rest with
  | nil =>
    intro st pos ctx te
    simp only [walk]
    rcases ps_atEoi_true G start G.states.size st pos (record (G.get st) pos ctx te).1
      (record (G.get st) pos ctx te).2 with h1 | h1 | ⟨h1, _⟩ <;> rw [h1] <;> simp
  | cons b w ih =>
    intro st pos ctx te
    cases hnx : (G.get st).next b with
    | none => simp [walk, hnx]
    | some t => simp only [walk, hnx]; exact ih _ _ _ _

theorem ps_attempt_matched {s : Stop} {l e : Nat} (h : attemptOfStop s = .matched l e) :
    ∃ off, s = .action off (some l) e := by
  cases s with
  | action off c e' =>
    cases c with
    | none => simp [attemptOfStop] at h
    | some l' =>
      simp [attemptOfStop] at h
      obtain ⟨rfl, rfl⟩ := h
      exact ⟨off, rfl⟩
  | _ => simp [attemptOfStop] at h

theorem ps_attempt_nomatch {s : Stop} {off : Nat} (h : attemptOfStop s = .nomatch off) :
    ∃ e, s = .action off none e := by
  cases s with
  | action off' c e' =>
    cases c with
    | none =>
      simp [attemptOfStop] at h
      subst h
      exact ⟨e', rfl⟩
    | some l' => simp [attemptOfStop] at h
  | _ => simp [attemptOfStop] at h

/-- one attempt: a match found by the partial lexer is the match of the one-shot lexer on any extension -/
theorem partial_attempt_matched (G : Graph) (pre ext : List Nat) (start : Nat) (hs : start ≤ pre.length)
    (l e : Nat) (h : walkAttempt G true pre start = .matched l e) :
    walkAttempt G false (pre ++ ext) start = .matched l e := by
  unfold walkAttempt at h ⊢
  obtain ⟨off, h'⟩ := ps_attempt_matched h
  rw [List.drop_append_of_le_length hs, ps_walk_ext G start ext _ _ _ _ _ _ _ _ h']
  rfl

/-- one attempt: an error decided by the partial lexer is the same error in the one-shot lexer -/
theorem partial_attempt_nomatch (G : Graph) (pre ext : List Nat) (start : Nat) (hs : start ≤ pre.length)
    (off : Nat) (h : walkAttempt G true pre start = .nomatch off) :
    walkAttempt G false (pre ++ ext) start = .nomatch off := by
  unfold walkAttempt at h ⊢
  obtain ⟨e, h'⟩ := ps_attempt_nomatch h
  rw [List.drop_append_of_le_length hs, ps_walk_ext G start ext _ _ _ _ _ _ _ _ h']
  rfl


/-! ## stream level -/

theorem ps_matched_bounds {G : Graph} (hwf : WF G) (pre : List Nat) (hb : ∀ b ∈ pre, b < 256)
    (start l e : Nat) (hs : start ≤ pre.length) (h : walkAttempt G true pre start = .matched l e) :
    start < e ∧ e ≤ pre.length := by
  have := partial_attempt_matched G pre [] start hs l e h
  rw [List.append_nil] at this
  exact walkAttempt_matched_bounds hwf pre hb start l e this

theorem ps_nomatch_bounds {G : Graph} (hwf : WF G) (pre : List Nat) (hb : ∀ b ∈ pre, b < 256)
    (start off : Nat) (hs : start ≤ pre.length) (h : walkAttempt G true pre start = .nomatch off) :
    start ≤ off ∧ off ≤ pre.length ∧ start < pre.length := by
  have := partial_attempt_nomatch G pre [] start hs off h
  rw [List.append_nil] at this
  exact walkAttempt_nomatch_bounds hwf pre hb start off this

theorem ps_attempt_true_not_diverge (G : Graph) (pre : List Nat) (start : Nat) :
    walkAttempt G true pre start ≠ .diverge := by
  unfold walkAttempt
  have := ps_walk_true_not_diverge G start (pre.drop start) G.root start none start
  generalize walk G true start G.root (pre.drop start) start none start = r at this
  cases r with
  | action off c e => cases c <;> simp [attemptOfStop]
  | _ => simp_all [attemptOfStop]

theorem ps_slice_append (pre ext : List Nat) (a b : Nat) (hb : b ≤ pre.length) :
    slice (pre ++ ext) a b = slice pre a b := by
  unfold slice
  by_cases ha : a ≤ pre.length
  · rw [List.drop_append_of_le_length ha, List.take_append_of_le_length]
    simp only [List.length_drop]; omega
  · have : b - a = 0 := by omega
    simp [this]

theorem ps_isBoundary_append (pre ext : List Nat) (k : Nat) (hk : k < pre.length) :
    isBoundary (pre ++ ext) k = isBoundary pre k := by
  unfold isBoundary
  by_cases h0 : k = 0
  · simp [h0]
  · have h1 : k ≠ pre.length := by omega
    have h2 : k ≠ (pre ++ ext).length := by simp only [List.length_append]; omega
    simp only [h0, h1, h2, if_false]
    rw [List.getElem?_append_left hk]

theorem ps_findBoundary_append (pre ext : List Nat) (e0 : Nat) (he : e0 ≤ pre.length)
    (hbnd : isBoundary (pre ++ ext) pre.length = true) :
    findBoundary (pre ++ ext) e0 = findBoundary pre e0 := by
  obtain ⟨j1, a1, a2, a3, a4, a5⟩ := findBoundary_spec pre e0 he
  obtain ⟨j2, b1, b2, b3, b4, b5⟩ := findBoundary_spec (pre ++ ext) e0
    (by simp only [List.length_append]; omega)
  rw [a1, b1]
  have hS1 : isBoundary (pre ++ ext) j1 = true := by
    by_cases h : j1 < pre.length
    · rw [ps_isBoundary_append _ _ _ h]; exact a4
    · have : j1 = pre.length := by omega
      rw [this]; exact hbnd
  have h21 : j2 ≤ j1 := by
    apply Nat.le_of_not_lt; intro h
    have := b5 j1 a2 h
    rw [hS1] at this; cases this
  have h12 : j1 ≤ j2 := by
    apply Nat.le_of_not_lt; intro h
    have := a5 j2 b2 h
    rw [← ps_isBoundary_append pre ext j2 (by omega), b4] at this; cases this
  congr 1; omega

/-- the one-shot `next` does not depend on its fuel once there is enough of it -/
theorem ps_nextLoop_fuel {G : Graph} (hwf : WF G) (cb : Callbacks) (hnb : NoBump cb) (utf8 : Bool)
    (inp : List Nat) (hb : ∀ b ∈ inp, b < 256) :
    ∀ (f1 f2 start : Nat), start ≤ inp.length → inp.length - start + 1 ≤ f1 →
      inp.length - start + 1 ≤ f2 →
      nextLoop (walkAttempt G false inp) cb utf8 inp f1 start =
        nextLoop (walkAttempt G false inp) cb utf8 inp f2 start := by
  intro f1
  induction f1 with
  | zero => intro f2 start _ h; omega
  | succ n ih =>
    intro f2 start hs h1 h2
    cases f2 with
    | zero => omega
    | succ m =>
      simp only [nextLoop]
      cases hatt : walkAttempt G false inp start with
      | matched l te =>
        obtain ⟨b1, b2⟩ := walkAttempt_matched_bounds hwf inp hb start l te hatt
        have hbump := hnb l (slice inp start te) (inp.drop te)
        simp only [hbump, Nat.add_zero]
        cases hact : (cb l (slice inp start te) (List.drop te inp)).act with
        | skip => simp only; exact ih m te b2 (by omega) (by omega)
        | _ => rfl
      | _ => rfl


/-- one call of `next`: whatever the partial lexer decides, the one-shot lexer on the extension decides
the same; the skips before a `None` are performed identically. -/
theorem ps_nextLoop_sim {G : Graph} (hwf : WF G) (cb : Callbacks) (hnb : NoBump cb)
    (hcb : ∀ l s r r', cb l s r = cb l s r') (utf8 : Bool) (pre ext : List Nat)
    (hb : ∀ b ∈ pre ++ ext, b < 256)
    (hbnd : utf8 = true → isBoundary (pre ++ ext) pre.length = true) :
    ∀ (f start f' : Nat), start ≤ pre.length → (pre ++ ext).length - start + 1 ≤ f' →
      (∀ it, nextLoop (walkAttempt G true pre) cb utf8 pre f start = .item it →
          nextLoop (walkAttempt G false (pre ++ ext)) cb utf8 (pre ++ ext) f' start = .item it ∧
          start < it.stop ∧ it.stop ≤ pre.length) ∧
      (∀ a b, nextLoop (walkAttempt G true pre) cb utf8 pre f start = .none a b →
          a = b ∧ start ≤ a ∧ a ≤ pre.length ∧
          ∀ f'', (pre ++ ext).length - a + 1 ≤ f'' →
            nextLoop (walkAttempt G false (pre ++ ext)) cb utf8 (pre ++ ext) f' start =
            nextLoop (walkAttempt G false (pre ++ ext)) cb utf8 (pre ++ ext) f'' a) := by
  have hbp : ∀ b ∈ pre, b < 256 := fun b h => hb b (List.mem_append_left _ h)
  have hlen : (pre ++ ext).length = pre.length + ext.length := List.length_append
  intro f
  induction f with
  | zero => intro start f' _ _; simp [nextLoop]
  | succ n ih =>
    intro start f' hs hf'
    cases f' with
    | zero => omega
    | succ m =>
      cases hatt : walkAttempt G true pre start with
      | eoi =>
        simp only [nextLoop, hatt]
        refine ⟨fun it h => (by cases h), ?_⟩
        intro a b h
        injection h with h1 h2
        subst h1; subst h2
        refine ⟨rfl, Nat.le_refl _, hs, ?_⟩
        intro f'' hf''
        have := ps_nextLoop_fuel hwf cb hnb utf8 (pre ++ ext) hb (m+1) f'' start (by omega) hf' hf''
        simpa only [nextLoop] using this
      | needMore =>
        simp only [nextLoop, hatt]
        refine ⟨fun it h => (by cases h), ?_⟩
        intro a b h
        injection h with h1 h2
        subst h1; subst h2
        refine ⟨rfl, Nat.le_refl _, hs, ?_⟩
        intro f'' hf''
        have := ps_nextLoop_fuel hwf cb hnb utf8 (pre ++ ext) hb (m+1) f'' start (by omega) hf' hf''
        simpa only [nextLoop] using this
      | diverge =>
        simp only [nextLoop, hatt]
        exact ⟨fun it h => (by cases h), fun a b h => (by cases h)⟩
      | «nomatch» off =>
        have hF := partial_attempt_nomatch G pre ext start hs off hatt
        obtain ⟨h1, h2, h3⟩ := ps_nomatch_bounds hwf pre hbp start off hs hatt
        have he0 : max off (start + 1) ≤ pre.length := by omega
        simp only [nextLoop, hatt, hF]
        cases utf8 with
        | false =>
          simp only [Bool.false_eq_true, if_false]
          refine ⟨?_, fun a b h => (by cases h)⟩
          intro it h
          injection h with h
          subst h
          refine ⟨rfl, ?_⟩
          simp only [Item.stop]; omega
        | true =>
          simp only [if_true]
          rw [ps_findBoundary_append pre ext _ he0 (hbnd rfl)]
          obtain ⟨j, hj1, hj2, hj3, _⟩ := findBoundary_spec pre _ he0
          rw [hj1]
          refine ⟨?_, fun a b h => (by cases h)⟩
          intro it h
          injection h with h
          subst h
          refine ⟨rfl, ?_⟩
          simp only [Item.stop]; omega
      | matched l te =>
        have hF := partial_attempt_matched G pre ext start hs l te hatt
        obtain ⟨h1, h2⟩ := ps_matched_bounds hwf pre hbp start l te hs hatt
        have hcbeq : cb l (slice (pre ++ ext) start te) (List.drop te (pre ++ ext)) =
            cb l (slice pre start te) (List.drop te pre) := by
          rw [ps_slice_append pre ext start te h2]; exact hcb _ _ _ _
        have hbump : (cb l (slice pre start te) (List.drop te pre)).bump = 0 := hnb _ _ _
        simp only [nextLoop, hatt, hF, hcbeq, hbump, Nat.add_zero]
        cases hact : (cb l (slice pre start te) (List.drop te pre)).act with
        | emit =>
          simp only
          refine ⟨?_, fun a b h => (by cases h)⟩
          intro it h
          injection h with h
          subst h
          exact ⟨rfl, by simp only [Item.stop]; omega⟩
        | errDefault =>
          simp only
          refine ⟨?_, fun a b h => (by cases h)⟩
          intro it h
          injection h with h
          subst h
          exact ⟨rfl, by simp only [Item.stop]; omega⟩
        | errCustom t =>
          simp only
          refine ⟨?_, fun a b h => (by cases h)⟩
          intro it h
          injection h with h
          subst h
          exact ⟨rfl, by simp only [Item.stop]; omega⟩
        | skip =>
          simp only
          obtain ⟨i1, i2⟩ := ih te m h2 (by omega)
          refine ⟨?_, ?_⟩
          · intro it h
            obtain ⟨j1, j2, j3⟩ := i1 it h
            exact ⟨j1, by omega, j3⟩
          · intro a b h
            obtain ⟨j1, j2, j3, j4⟩ := i2 a b h
            exact ⟨j1, by omega, j3, j4⟩

/-- the one-shot lexing loop does not depend on its fuel once there is enough of it -/
theorem ps_lexFrom_fuel {G : Graph} (hwf : WF G) (cb : Callbacks) (hnb : NoBump cb) (utf8 : Bool)
    (inp : List Nat) (hb : ∀ b ∈ inp, b < 256) :
    ∀ (f1 f2 pos : Nat), pos ≤ inp.length → inp.length - pos + 1 ≤ f1 → inp.length - pos + 1 ≤ f2 →
      lexFrom (walkAttempt G false inp) cb utf8 inp f1 pos =
        lexFrom (walkAttempt G false inp) cb utf8 inp f2 pos := by
  intro f1
  induction f1 with
  | zero => intro f2 pos _ h; omega
  | succ n ih =>
    intro f2 pos hp h1 h2
    cases f2 with
    | zero => omega
    | succ m =>
      simp only [lexFrom]
      rcases nextLoop_ok hwf cb hnb utf8 inp hb (inp.length + 2) pos hp (by omega) with
        h | ⟨it, h, k1, k2, k3⟩
      · rw [h]
      · rw [h]
        simp only
        rw [ih m it.stop k3 (by omega) (by omega)]

theorem ps_lexFrom_sim {G : Graph} (hwf : WF G) (cb : Callbacks) (hnb : NoBump cb)
    (hcb : ∀ l s r r', cb l s r = cb l s r') (utf8 : Bool) (pre ext : List Nat)
    (hb : ∀ b ∈ pre ++ ext, b < 256)
    (hbnd : utf8 = true → isBoundary (pre ++ ext) pre.length = true) :
    ∀ (fp pos : Nat) (items : List Item) (q q' : Nat), pos ≤ pre.length →
      lexFrom (walkAttempt G true pre) cb utf8 pre fp pos = (items, .done q q') →
      q = q' ∧ q ≤ pre.length ∧
      ∀ ff, (pre ++ ext).length - pos + 1 ≤ ff →
        lexFrom (walkAttempt G false (pre ++ ext)) cb utf8 (pre ++ ext) ff pos =
          (items ++ (lexFrom (walkAttempt G false (pre ++ ext)) cb utf8 (pre ++ ext)
              ((pre ++ ext).length + 2) q).1,
            (lexFrom (walkAttempt G false (pre ++ ext)) cb utf8 (pre ++ ext)
              ((pre ++ ext).length + 2) q).2) := by
  have hlen : (pre ++ ext).length = pre.length + ext.length := List.length_append
  intro fp
  induction fp with
  | zero => intro pos items q q' _ h; simp [lexFrom] at h
  | succ n ih =>
    intro pos items q q' hp h
    simp only [lexFrom] at h
    obtain ⟨s1, s2⟩ := ps_nextLoop_sim hwf cb hnb hcb utf8 pre ext hb hbnd (pre.length + 2) pos
      ((pre ++ ext).length + 2) hp (by omega)
    cases hnl : nextLoop (walkAttempt G true pre) cb utf8 pre (pre.length + 2) pos with
    | diverge => rw [hnl] at h; simp at h
    | item it =>
      rw [hnl] at h
      simp only [Prod.mk.injEq] at h
      obtain ⟨hi, hf⟩ := h
      obtain ⟨t1, t2, t3⟩ := s1 it hnl
      obtain ⟨u1, u2, u3⟩ := ih it.stop
        (lexFrom (walkAttempt G true pre) cb utf8 pre n it.stop).1 q q' t3
        (by rw [← hf])
      refine ⟨u1, u2, ?_⟩
      intro ff hff
      cases ff with
      | zero => omega
      | succ m =>
        have u3' := u3 m (by omega)
        generalize lexFrom (walkAttempt G false (pre ++ ext)) cb utf8 (pre ++ ext)
          ((pre ++ ext).length + 2) q = R at u3' ⊢
        simp only [lexFrom, t1]
        rw [u3', ← hi]
        rfl
    | none a b =>
      rw [hnl] at h
      simp only [Prod.mk.injEq, Final.done.injEq] at h
      obtain ⟨hi, hq, hq'⟩ := h
      obtain ⟨t1, t2, t3, t4⟩ := s2 a b hnl
      subst hq; subst hq'
      refine ⟨t1, t3, ?_⟩
      intro ff hff
      cases ff with
      | zero => omega
      | succ m =>
        rw [← hi, List.nil_append, ps_lexFrom_fuel hwf cb hnb utf8 (pre ++ ext) hb
          ((pre ++ ext).length + 2) (m+1) a (by omega) (by omega) (by omega)]
        simp only [lexFrom]
        rw [t4 ((pre ++ ext).length + 2) (by omega)]

/-- **C07 (safety).** The items a partial lexer over `pre` yields before `None` are a leading run of the
items of the one-shot lexer over `pre ++ ext`; at `None` its span is empty, at a position `q` inside the
buffer, and one-shot lexing from `q` produces exactly the remaining items. -/
theorem C07_partial_safe {G : Graph} (hwf : WF G) (cb : Callbacks) (hnb : NoBump cb)
    (hcb : ∀ l s r r', cb l s r = cb l s r') (utf8 : Bool) (pre ext : List Nat)
    (hb : ∀ b ∈ pre ++ ext, b < 256)
    (hbnd : utf8 = true → isBoundary (pre ++ ext) pre.length = true)
    (items : List Item) (q q' : Nat) (h : graphLex G true cb utf8 pre = (items, .done q q')) :
    q = q' ∧ q ≤ pre.length ∧
    ∃ rest, graphLex G false cb utf8 (pre ++ ext) = (items ++ rest, .done (pre ++ ext).length (pre ++ ext).length) ∧
      lexFrom (walkAttempt G false (pre ++ ext)) cb utf8 (pre ++ ext) ((pre ++ ext).length + 2) q =
        (rest, .done (pre ++ ext).length (pre ++ ext).length) := by
  unfold graphLex lexAll at h ⊢
  have hlen : (pre ++ ext).length = pre.length + ext.length := List.length_append
  obtain ⟨e1, e2, e3⟩ := ps_lexFrom_sim hwf cb hnb hcb utf8 pre ext hb hbnd (pre.length + 2) 0
    items q q' (Nat.zero_le _) h
  obtain ⟨rest, r1, _, _⟩ := lexFrom_ok hwf cb hnb utf8 (pre ++ ext) hb ((pre ++ ext).length + 2) q
    (by omega) (by omega)
  refine ⟨e1, e2, rest, ?_, r1⟩
  rw [e3 _ (by omega), r1]


/-- one call of the partial `next` terminates: `None` with an empty span inside the buffer, or a
non-empty item inside the buffer -/
theorem ps_nextLoop_ok_true {G : Graph} (hwf : WF G) (cb : Callbacks) (hnb : NoBump cb) (utf8 : Bool)
    (pre : List Nat) (hb : ∀ b ∈ pre, b < 256) :
    ∀ (fuel start : Nat), start ≤ pre.length → pre.length - start + 1 ≤ fuel →
      (∃ q, nextLoop (walkAttempt G true pre) cb utf8 pre fuel start = .none q q ∧ q ≤ pre.length) ∨
      ∃ it, nextLoop (walkAttempt G true pre) cb utf8 pre fuel start = .item it ∧
        start < it.stop ∧ it.stop ≤ pre.length := by
  intro fuel
  induction fuel with
  | zero => intro start _ h; omega
  | succ n ih =>
    intro start hs hf
    unfold nextLoop
    cases hatt : walkAttempt G true pre start with
    | eoi => left; exact ⟨start, rfl, hs⟩
    | needMore => left; exact ⟨start, rfl, hs⟩
    | diverge => exact absurd hatt (ps_attempt_true_not_diverge G pre start)
    | «nomatch» off =>
      obtain ⟨h1, h2, h3⟩ := ps_nomatch_bounds hwf pre hb start off hs hatt
      have he0 : max off (start + 1) ≤ pre.length := by omega
      right
      cases utf8 with
      | false =>
        refine ⟨.err none start (max off (start + 1)), by simp, ?_⟩
        simp only [Item.stop]; omega
      | true =>
        obtain ⟨j, hj1, hj2, hj3, _⟩ := findBoundary_spec pre _ he0
        refine ⟨.err none start j, by simp [hj1], ?_⟩
        simp only [Item.stop]; omega
    | matched l te =>
      obtain ⟨h1, h2⟩ := ps_matched_bounds hwf pre hb start l te hs hatt
      have hbump : (cb l (slice pre start te) (List.drop te pre)).bump = 0 := hnb _ _ _
      simp only [hbump, Nat.add_zero]
      cases hact : (cb l (slice pre start te) (List.drop te pre)).act with
      | emit =>
        right
        exact ⟨.ok l start te, rfl, by simp only [Item.stop]; omega⟩
      | skip =>
        simp only
        rcases ih te h2 (by omega) with h | ⟨it, h, h4, h5⟩
        · left; exact h
        · right; exact ⟨it, h, by omega, h5⟩
      | errDefault =>
        right
        exact ⟨.err none start te, rfl, by simp only [Item.stop]; omega⟩
      | errCustom t =>
        right
        exact ⟨.err (some t) start te, rfl, by simp only [Item.stop]; omega⟩

theorem ps_lexFrom_ok_true {G : Graph} (hwf : WF G) (cb : Callbacks) (hnb : NoBump cb) (utf8 : Bool)
    (pre : List Nat) (hb : ∀ b ∈ pre, b < 256) :
    ∀ (fuel pos : Nat), pos ≤ pre.length → pre.length - pos + 1 ≤ fuel →
      ∃ items q, lexFrom (walkAttempt G true pre) cb utf8 pre fuel pos = (items, .done q q) := by
  intro fuel
  induction fuel with
  | zero => intro pos _ h; omega
  | succ n ih =>
    intro pos hp hf
    unfold lexFrom
    rcases ps_nextLoop_ok_true hwf cb hnb utf8 pre hb (pre.length + 2) pos hp (by omega) with
      ⟨q, h, _⟩ | ⟨it, h, h1, h2⟩
    · rw [h]
      exact ⟨[], q, rfl⟩
    · rw [h]
      obtain ⟨items, q, e⟩ := ih it.stop h2 (by omega)
      exact ⟨it :: items, q, by simp [e]⟩

/-- the partial lexer itself always terminates with `None` (never diverges) on a well-formed graph -/
theorem partial_terminates {G : Graph} (hwf : WF G) (cb : Callbacks) (hnb : NoBump cb) (utf8 : Bool)
    (pre : List Nat) (hb : ∀ b ∈ pre, b < 256) :
    ∃ items q, graphLex G true cb utf8 pre = (items, .done q q) := by
  unfold graphLex lexAll
  exact ps_lexFrom_ok_true hwf cb hnb utf8 pre hb (pre.length + 2) 0 (Nat.zero_le _) (by omega)

end Logos
