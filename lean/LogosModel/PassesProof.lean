import LogosModel.Passes
import LogosModel.Lex
/-!
# What the first two passes of `Graph::new` preserve

`earlyPass` and `lateRemoval` change no edge: they only move *where a match is recorded* (a state all of
whose successors — every byte and the end of input — would record leaf `l` one byte late records it at
once; a late record that every predecessor has already made is dropped).  Under three decidable side
conditions on the raw graph the lexer's behaviour is unchanged, for every input, in ordinary and in
partial mode.
-/
namespace Logos.Passes
open Logos

/-- the raw graph has no early marks yet -/
def rawNoEarly (g : Graph) : Bool := (List.range g.states.size).all fun s => (g.get s).early.isNone

/-- the root records nothing and no state entered from the root by one step records (no empty match) -/
def rawRootOK (g : Graph) : Bool :=
  (g.get g.root).accept.isNone && (children (g.get g.root)).all fun c => (g.get c).accept.isNone

/-- a state whose 256 byte successors all record leaf `l` also has an end-of-input successor recording `l`
(regex-automata's one-byte-delayed match states: a match that is pending whatever byte follows is also
pending at the end of the input); checked on every raw graph -/
def earlyEoiOK (g : Graph) : Bool :=
  (List.range g.states.size).all fun s =>
    match (earlyPass g).get s |>.early with
    | some l => match (g.get s).eoi with
      | some t => (g.get t).accept == some l
      | none => false
    | none => true

/-- all references stay inside the graph, and end-of-input targets have no further end-of-input edge -/
def rawClosed (g : Graph) : Bool :=
  decide (g.root < g.states.size) &&
  (List.range g.states.size).all fun s =>
    (children (g.get s)).all (fun c => decide (c < g.states.size)) &&
    match (g.get s).eoi with
    | some t => (g.get t).eoi.isNone
    | none => true

theorem get_ge (g : Graph) (s : Nat) (h : g.states.size ≤ s) : g.get s = {} := by
  simp [Graph.get, Array.getD, Nat.not_lt.mpr h]

theorem mapStates_size (g : Graph) (f : Nat → StateData → StateData) :
    (mapStates g f).states.size = g.states.size := by
  simp [mapStates]

theorem mapStates_root (g : Graph) (f : Nat → StateData → StateData) :
    (mapStates g f).root = g.root := rfl

theorem mapStates_get_lt (g : Graph) (f : Nat → StateData → StateData) (s : Nat)
    (h : s < g.states.size) : (mapStates g f).get s = f s (g.get s) := by
  simp [mapStates, Graph.get, Array.getD, h]

theorem mapStates_get_ge (g : Graph) (f : Nat → StateData → StateData) (s : Nat)
    (h : g.states.size ≤ s) : (mapStates g f).get s = {} :=
  get_ge _ _ (by rw [mapStates_size]; exact h)


theorem next_mem_children {sd : StateData} {b t : Nat} (h : sd.next b = some t) : t ∈ children sd := by
  unfold StateData.next at h
  cases hf : sd.normal.find? (fun e => inRanges e.ranges b) with
  | none => simp [hf] at h
  | some e =>
    simp [hf] at h
    have := List.mem_of_find?_eq_some hf
    simp only [children, List.mem_append, List.mem_map]
    exact Or.inl ⟨e, this, h⟩

theorem eoi_mem_children {sd : StateData} {t : Nat} (h : sd.eoi = some t) : t ∈ children sd := by
  simp [children, h]

theorem next_some_of_not_canError {sd : StateData} (h : canError sd = false) {b : Nat} (hb : b < 256) :
    ∃ t, sd.next b = some t := by
  simp only [canError, Bool.not_eq_false', List.all_eq_true, List.mem_range] at h
  have := h b hb
  rw [List.any_eq_true] at this
  obtain ⟨e, he, hr⟩ := this
  have hs : (sd.normal.find? fun e => inRanges e.ranges b).isSome = true :=
    List.find?_isSome.mpr ⟨e, he, hr⟩
  unfold StateData.next
  cases hf : sd.normal.find? (fun e => inRanges e.ranges b) with
  | none => simp [hf] at hs
  | some e' => exact ⟨e'.target, rfl⟩

theorem eraseDups_singleton {α} [BEq α] [LawfulBEq α] {l : List α} {x : α} (h : l.eraseDups = [x]) :
    ∀ y ∈ l, y = x := by
  intro y hy
  have : y ∈ l.eraseDups := List.mem_eraseDups.mpr hy
  rw [h] at this
  simpa using this

theorem early_cases (g : Graph) (s : Nat) :
    (earlyPass g).get s = g.get s ∨
    ∃ l, (earlyPass g).get s = { g.get s with early := some l } ∧ s < g.states.size ∧
      canError (g.get s) = false ∧ ∀ c ∈ children (g.get s), (g.get c).accept = some l := by
  by_cases hs : s < g.states.size
  · unfold earlyPass
    rw [mapStates_get_lt _ _ _ hs]
    split
    · exact Or.inl rfl
    · rename_i hc
      split
      · rename_i l heq
        refine Or.inr ⟨l, rfl, hs, by simpa using hc, ?_⟩
        intro c hc
        have := eraseDups_singleton heq ((g.get c).accept) (List.mem_map.mpr ⟨c, hc, rfl⟩)
        exact this
      · exact Or.inl rfl
  · left
    have hs' : g.states.size ≤ s := Nat.le_of_not_lt hs
    unfold earlyPass
    rw [mapStates_get_ge _ _ _ hs', get_ge _ _ hs']

theorem late_cases (g : Graph) (s : Nat) :
    (lateRemoval g).get s = g.get s ∨
    ∃ l, (g.get s).accept = some l ∧ (lateRemoval g).get s = { g.get s with accept := none } ∧
      ∀ p, p < g.states.size → s ∈ children (g.get p) → (g.get p).early = some l := by
  by_cases hs : s < g.states.size
  · unfold lateRemoval
    rw [mapStates_get_lt _ _ _ hs]
    split
    · rename_i l hl
      split
      · rename_i hall
        refine Or.inr ⟨l, hl, rfl, ?_⟩
        intro p hp hc
        rw [List.all_eq_true] at hall
        have := hall p (by simp [parents, hp, hc])
        simpa using this
      · exact Or.inl rfl
    · exact Or.inl rfl
  · left
    have hs' : g.states.size ≤ s := Nat.le_of_not_lt hs
    unfold lateRemoval
    rw [mapStates_get_ge _ _ _ hs', get_ge _ _ hs']


/-! ### the side conditions, pointwise -/


theorem noEarly_get {g : Graph} (h1 : rawNoEarly g = true) (s : Nat) : (g.get s).early = none := by
  by_cases hs : s < g.states.size
  · simp only [rawNoEarly, List.all_eq_true, List.mem_range] at h1
    simpa using h1 s hs
  · rw [get_ge _ _ (Nat.le_of_not_lt hs)]

theorem earlyEoi_get {g : Graph} (h3 : earlyEoiOK g = true) {s l : Nat} (hs : s < g.states.size)
    (he : ((earlyPass g).get s).early = some l) : ∃ t, (g.get s).eoi = some t := by
  simp only [earlyEoiOK, List.all_eq_true, List.mem_range] at h3
  have := h3 s hs
  rw [he] at this
  cases h : (g.get s).eoi with
  | none => simp [h] at this
  | some t => exact ⟨t, rfl⟩

theorem closed_root {g : Graph} (h4 : rawClosed g = true) : g.root < g.states.size := by
  simp only [rawClosed, Bool.and_eq_true, decide_eq_true_eq] at h4
  exact h4.1

theorem closed_child {g : Graph} (h4 : rawClosed g = true) {s c : Nat} (hs : s < g.states.size)
    (hc : c ∈ children (g.get s)) : c < g.states.size := by
  simp only [rawClosed, Bool.and_eq_true, decide_eq_true_eq, List.all_eq_true, List.mem_range] at h4
  exact (h4.2 s hs).1 c hc

theorem closed_eoi {g : Graph} (h4 : rawClosed g = true) {s t : Nat}
    (he : (g.get s).eoi = some t) : (g.get t).eoi = none := by
  by_cases hs : s < g.states.size
  · simp only [rawClosed, Bool.and_eq_true, decide_eq_true_eq, List.all_eq_true, List.mem_range] at h4
    have := (h4.2 s hs).2
    rw [he] at this
    simpa using this
  · rw [get_ge _ _ (Nat.le_of_not_lt hs)] at he
    simp at he

/-! ### what the two passes leave alone -/

theorem early_normal (g : Graph) (s : Nat) : ((earlyPass g).get s).normal = (g.get s).normal := by
  rcases early_cases g s with h | ⟨l, h, _⟩ <;> simp [h]
theorem early_eoi (g : Graph) (s : Nat) : ((earlyPass g).get s).eoi = (g.get s).eoi := by
  rcases early_cases g s with h | ⟨l, h, _⟩ <;> simp [h]
theorem early_accept (g : Graph) (s : Nat) : ((earlyPass g).get s).accept = (g.get s).accept := by
  rcases early_cases g s with h | ⟨l, h, _⟩ <;> simp [h]
theorem early_children (g : Graph) (s : Nat) : children ((earlyPass g).get s) = children (g.get s) := by
  simp [children, early_normal, early_eoi]
theorem early_size (g : Graph) : (earlyPass g).states.size = g.states.size := mapStates_size _ _

theorem late_normal (g : Graph) (s : Nat) : ((lateRemoval g).get s).normal = (g.get s).normal := by
  rcases late_cases g s with h | ⟨l, _, h, _⟩ <;> simp [h]
theorem late_eoi (g : Graph) (s : Nat) : ((lateRemoval g).get s).eoi = (g.get s).eoi := by
  rcases late_cases g s with h | ⟨l, _, h, _⟩ <;> simp [h]
theorem late_early (g : Graph) (s : Nat) : ((lateRemoval g).get s).early = (g.get s).early := by
  rcases late_cases g s with h | ⟨l, _, h, _⟩ <;> simp [h]
theorem late_size (g : Graph) : (lateRemoval g).states.size = g.states.size := mapStates_size _ _

theorem next_congr {sd sd' : StateData} (h : sd'.normal = sd.normal) (b : Nat) : sd'.next b = sd.next b := by
  simp [StateData.next, h]

/-- (E) -/
theorem early_some {g : Graph} {s l : Nat} (he : ((earlyPass g).get s).early = some l)
    (h1 : (g.get s).early = none) :
    s < g.states.size ∧ canError (g.get s) = false ∧ ∀ c ∈ children (g.get s), (g.get c).accept = some l := by
  rcases early_cases g s with h | ⟨l', h, hs, hc, hch⟩
  · rw [h, h1] at he; simp at he
  · rw [h] at he
    simp at he
    subst he
    exact ⟨hs, hc, hch⟩

/-- the accept of the late-removal graph, relative to the raw graph -/
theorem late_accept (g : Graph) (t : Nat) :
    ((lateRemoval (earlyPass g)).get t).accept = (g.get t).accept ∨
    ∃ l, (g.get t).accept = some l ∧ ((lateRemoval (earlyPass g)).get t).accept = none ∧
      ∀ p, p < g.states.size → t ∈ children (g.get p) → ((earlyPass g).get p).early = some l := by
  rcases late_cases (earlyPass g) t with h | ⟨l, ha, h, hp⟩
  · left; rw [h, early_accept]
  · right
    refine ⟨l, by rw [← early_accept]; exact ha, by simp [h], ?_⟩
    intro p hp' hc
    exact hp p (by rw [early_size]; exact hp') (by rw [early_children]; exact hc)


/-! ### the lock-step simulation -/

/-- invariant between the recorded pairs of the two walks after the setup block of state `s` -/
def Inv (g : Graph) (s pos : Nat) (r r2 : Option Nat × Nat) : Prop :=
  (∀ l, ((earlyPass g).get s).early = some l → r2 = (some l, pos)) ∧
  (((earlyPass g).get s).early = none → r2 = r)

theorem inv_step {g : Graph} (h1 : rawNoEarly g = true) {s t pos : Nat} (hs : s < g.states.size)
    (ht : t ∈ children (g.get s)) {r r2 : Option Nat × Nat} (H : Inv g s pos r r2) :
    Inv g t (pos+1) (record (g.get t) (pos+1) r.1 r.2)
      (record ((lateRemoval (earlyPass g)).get t) (pos+1) r2.1 r2.2) := by
  constructor
  · intro l' hl'
    have : ((lateRemoval (earlyPass g)).get t).early = some l' := by rw [late_early]; exact hl'
    simp [record, this]
  · intro hne
    have e2 : ((lateRemoval (earlyPass g)).get t).early = none := by rw [late_early]; exact hne
    have e0 : (g.get t).early = none := noEarly_get h1 t
    cases hse : ((earlyPass g).get s).early with
    | some l =>
      have hr2 := H.1 l hse
      obtain ⟨_, _, hch⟩ := early_some hse (noEarly_get h1 s)
      have ha : (g.get t).accept = some l := hch t ht
      rcases late_accept g t with h | ⟨l', _, h, _⟩
      · rw [ha] at h
        simp [record, e2, e0, h, ha]
      · simp [record, e2, e0, h, ha, hr2]
    | none =>
      have hr2 := H.2 hse
      subst hr2
      rcases late_accept g t with h | ⟨l', ha, h, hp⟩
      · simp [record, e2, e0, h]
      · have := hp s hs ht
        rw [hse] at this
        simp at this

theorem atEoi_leaf (g g' : Graph) (ip : Bool) (start m t p : Nat) (c : Option Nat) (e : Nat)
    (hn : (g'.get t).normal = (g.get t).normal) (he : (g.get t).eoi = none)
    (he' : (g'.get t).eoi = none) (hr : g'.root = g.root) :
    atEoi g' ip start (m+1) t p c e = atEoi g ip start (m+1) t p c e := by
  simp [atEoi, hn, he, he', hr]

theorem atEoi_sim {g : Graph} (h1 : rawNoEarly g = true) (h3 : earlyEoiOK g = true)
    (h4 : rawClosed g = true) (ip : Bool) (start m s pos : Nat) (hs : s < g.states.size)
    {r r2 : Option Nat × Nat} (H : Inv g s pos r r2) :
    atEoi (lateRemoval (earlyPass g)) ip start (m+2) s pos r2.1 r2.2
      = atEoi g ip start (m+2) s pos r.1 r.2 := by
  have hn : ((lateRemoval (earlyPass g)).get s).normal = (g.get s).normal := by
    rw [late_normal, early_normal]
  have he : ((lateRemoval (earlyPass g)).get s).eoi = (g.get s).eoi := by
    rw [late_eoi, early_eoi]
  have hr : (lateRemoval (earlyPass g)).root = g.root := rfl
  rw [atEoi, atEoi]
  simp only [hn, he, hr]
  split
  · rfl
  · split
    · rfl
    · cases hse : (g.get s).eoi with
      | some t =>
        simp only
        have ht : t ∈ children (g.get s) := eoi_mem_children hse
        have hte : (g.get t).eoi = none := closed_eoi h4 hse
        have htn : t < g.states.size := closed_child h4 hs ht
        have H' := inv_step h1 hs ht H (pos := pos)
        have hnot : ((earlyPass g).get t).early = none := by
          cases hh : ((earlyPass g).get t).early with
          | none => rfl
          | some l' =>
            obtain ⟨t', ht'⟩ := earlyEoi_get h3 htn hh
            rw [hte] at ht'; simp at ht'
        rw [H'.2 hnot]
        apply atEoi_leaf
        · rw [late_normal, early_normal]
        · exact hte
        · rw [late_eoi, early_eoi]; exact hte
        · rfl
      | none =>
        simp only
        have hnot : ((earlyPass g).get s).early = none := by
          cases hh : ((earlyPass g).get s).early with
          | none => rfl
          | some l' =>
            obtain ⟨t', ht'⟩ := earlyEoi_get h3 hs hh
            rw [hse] at ht'; simp at ht'
        rw [H.2 hnot]

theorem walk_sim {g : Graph} (h1 : rawNoEarly g = true) (h3 : earlyEoiOK g = true)
    (h4 : rawClosed g = true) (ip : Bool) (start : Nat) :
    ∀ (rest : List Nat) (s pos : Nat) (ctx : Option Nat) (te : Nat) (ctx2 : Option Nat) (te2 : Nat),
      s < g.states.size → (∀ b ∈ rest, b < 256) →
      Inv g s pos (record (g.get s) pos ctx te) (record ((lateRemoval (earlyPass g)).get s) pos ctx2 te2) →
      walk (lateRemoval (earlyPass g)) ip start s rest pos ctx2 te2 = walk g ip start s rest pos ctx te := by
  intro rest
  induction rest with
  | nil =>
    intro s pos ctx te ctx2 te2 hs _ H
    simp only [walk]
    rw [late_size, early_size]
    obtain ⟨m, hm⟩ : ∃ m, g.states.size = m + 1 := ⟨g.states.size - 1, by omega⟩
    rw [hm]
    exact atEoi_sim h1 h3 h4 ip start m s pos hs H
  | cons b rest ih =>
    intro s pos ctx te ctx2 te2 hs hb H
    simp only [walk]
    have hnx : ((lateRemoval (earlyPass g)).get s).next b = (g.get s).next b :=
      next_congr (by rw [late_normal, early_normal]) b
    rw [hnx]
    cases hn : (g.get s).next b with
    | none =>
      simp only
      have hnot : ((earlyPass g).get s).early = none := by
        cases hh : ((earlyPass g).get s).early with
        | none => rfl
        | some l' =>
          obtain ⟨_, hc, _⟩ := early_some hh (noEarly_get h1 s)
          obtain ⟨t, ht⟩ := next_some_of_not_canError hc (hb b (by simp))
          rw [hn] at ht; simp at ht
      rw [H.2 hnot]
    | some t =>
      simp only
      have ht : t ∈ children (g.get s) := next_mem_children hn
      exact ih t (pos+1) _ _ _ _ (closed_child h4 hs ht) (fun b' hb' => hb b' (by simp [hb']))
        (inv_step h1 hs ht H)

/-- **Early-accept detection and late-accept removal do not change one match attempt.** -/
theorem earlyLate_walkAttempt (g : Graph) (h1 : rawNoEarly g = true) (h2 : rawRootOK g = true)
    (h3 : earlyEoiOK g = true) (h4 : rawClosed g = true) (isPrefix : Bool) (inp : List Nat)
    (hb : ∀ b ∈ inp, b < 256) (start : Nat) :
    walkAttempt (lateRemoval (earlyPass g)) isPrefix inp start = walkAttempt g isPrefix inp start := by
  have hroot : g.root < g.states.size := closed_root h4
  unfold walkAttempt
  have hr : (lateRemoval (earlyPass g)).root = g.root := rfl
  rw [hr]
  congr 1
  apply walk_sim h1 h3 h4 isPrefix start _ g.root start none start none start hroot
  · intro b hb'
    exact hb b (List.mem_of_mem_drop hb')
  · have ha : (g.get g.root).accept = none := by
      simp only [rawRootOK, Bool.and_eq_true] at h2
      simpa using h2.1
    have he : (g.get g.root).early = none := noEarly_get h1 _
    constructor
    · intro l hl
      have : ((lateRemoval (earlyPass g)).get g.root).early = some l := by rw [late_early]; exact hl
      simp [record, this]
    · intro hne
      have e2 : ((lateRemoval (earlyPass g)).get g.root).early = none := by rw [late_early]; exact hne
      rcases late_accept g g.root with h | ⟨l', ha', _, _⟩
      · rw [ha] at h
        simp [record, e2, he, h, ha]
      · rw [ha] at ha'; simp at ha'

/-- … hence not the token stream either. -/
theorem earlyLate_graphLex (g : Graph) (h1 : rawNoEarly g = true) (h2 : rawRootOK g = true)
    (h3 : earlyEoiOK g = true) (h4 : rawClosed g = true) (isPrefix : Bool) (cb : Callbacks) (utf8 : Bool)
    (inp : List Nat) (hb : ∀ b ∈ inp, b < 256) :
    graphLex (lateRemoval (earlyPass g)) isPrefix cb utf8 inp = graphLex g isPrefix cb utf8 inp := by
  have : walkAttempt (lateRemoval (earlyPass g)) isPrefix inp = walkAttempt g isPrefix inp :=
    funext fun s => earlyLate_walkAttempt g h1 h2 h3 h4 isPrefix inp hb s
  unfold graphLex
  rw [this]

end Logos.Passes
