/-!
# `strip_attributes`: rewriting the derive list, and the logos-cli write/check logic (C17)

Tokens of a `#[derive(...)]` list are abstract: identifiers, punctuation, anything else.
`stripFound` is the loop as found in logos-codegen/src/lib.rs; `stripFixed` is the repaired rewrite
(split at top-level commas, drop the entries whose last token is the identifier `Logos`).
-/
namespace Logos.Strip

inductive Tok where
  | ident (s : String)
  | comma
  | punct (c : Char)          -- any other punctuation (`:`), as `TokenTree::Punct`
  | other (n : Nat)           -- literal or group
deriving Repr, DecidableEq

/-- the loop as found: `while let Some(Ident(ident)) = tokens.next() { let punct = tokens.next(); if ident == "Logos" { continue }
out.push(ident); out.extend(punct) }` -/
def stripFound : List Tok → List Tok
  | .ident s :: rest =>
    match rest with
    | [] => if s == "Logos" then [] else [.ident s]
    | p :: rest' =>
      if s == "Logos" then stripFound rest' else .ident s :: p :: stripFound rest'
  | _ => []

/-- split a token list at top-level commas -/
def entries : List Tok → List (List Tok)
  | [] => [[]]
  | .comma :: rest => [] :: entries rest
  | t :: rest =>
    match entries rest with
    | [] => [[t]]
    | e :: es => (t :: e) :: es

def isLogosEntry (e : List Tok) : Bool := e.getLast? == some (.ident "Logos")

/-- the repaired rewrite: walk the list, buffer the current entry, emit it (with its separator)
unless its last token is `Logos` -/
def stripFixedGo : List Tok → List Tok → List Tok
  | [], cur => if isLogosEntry cur then [] else cur
  | .comma :: rest, cur =>
    (if isLogosEntry cur then [] else cur ++ [.comma]) ++ stripFixedGo rest []
  | t :: rest, cur => stripFixedGo rest (cur ++ [t])

def stripFixed (ts : List Tok) : List Tok := stripFixedGo ts []

/-! ### Spacing of punctuation

A `TokenTree::Punct` carries a spacing: `Joint` when another punctuation character follows it directly, as the comma of
`Debug,::logos::Logos` does.  `util::is_punct` used to accept a character only with spacing `Alone`; the rewrite above,
which asks it for the separators, then took `Debug,::logos::Logos` for one entry ending in `Logos` and dropped `Debug`
with it (defect D11).  `stripAlone` is that behaviour; the repaired test ignores the spacing of a comma, which is
`stripSpaced`. -/

structure STok where
  tok : Tok
  joint : Bool := false
deriving Repr, DecidableEq

/-- the rewrite with `is_punct` as found: a comma separates only when its spacing is `Alone` -/
def stripAloneGo : List STok → List Tok → List Tok
  | [], cur => if isLogosEntry cur then [] else cur
  | ⟨.comma, false⟩ :: rest, cur =>
    (if isLogosEntry cur then [] else cur ++ [.comma]) ++ stripAloneGo rest []
  | t :: rest, cur => stripAloneGo rest (cur ++ [t.tok])

def stripAlone (ts : List STok) : List Tok := stripAloneGo ts []

/-- the repaired rewrite: the spacing of a comma is not looked at -/
def stripSpaced (ts : List STok) : List Tok := stripFixed (ts.map (·.tok))

/-! ## logos-cli: `--output` / `--check` (logos-cli/src/main.rs) -/

/-- `str::lines`: split at `\n`, drop one trailing `\r` per line, no empty last line -/
def lines (s : List Char) : List (List Char) :=
  let rec go : List Char → List Char → List (List Char)
    | [], cur => if cur.isEmpty then [] else [cur]
    | '\n' :: rest, cur => (if cur.getLast? == some '\r' then cur.dropLast else cur) :: go rest []
    | c :: rest, cur => go rest (cur ++ [c])
  go s []

def eqIgnoreNewlines (a b : List Char) : Bool := lines a == lines b

inductive Outcome where
  | ok | failed
deriving Repr, DecidableEq

/-- one invocation with `--output`: file content before (if the file exists), generated output,
`--check` flag; returns the exit status and the file content afterwards -/
def cliRun (file : Option (List Char)) (output : List Char) (check : Bool) : Outcome × Option (List Char) :=
  let changed := match file with
    | some existing => !eqIgnoreNewlines existing output
    | none => true
  if !changed then (.ok, file)
  else if check then (.failed, file)
  else (.ok, some output)

theorem check_never_writes (file : Option (List Char)) (output : List Char) :
    (cliRun file output true).2 = file := by
  unfold cliRun; split <;> simp_all <;> split <;> simp_all

theorem check_ok_iff (file : Option (List Char)) (output : List Char) :
    (cliRun file output true).1 = .ok ↔ ∃ existing, file = some existing ∧ lines existing = lines output := by
  unfold cliRun eqIgnoreNewlines
  cases file with
  | none => simp
  | some e => by_cases h : lines e = lines output <;> simp [h]

theorem write_then_check_ok (file : Option (List Char)) (output : List Char) :
    (cliRun (cliRun file output false).2 output true).1 = .ok := by
  unfold cliRun eqIgnoreNewlines
  cases file with
  | none => simp
  | some e => by_cases h : lines e = lines output <;> simp [h]

/-! ### the file as it is on disk: bytes that may not be UTF-8 (`fs::read_to_string` then fails with `InvalidData`,
the tool reports the error and stops: nothing is compared, nothing is written) -/

inductive FileSt where
  | missing
  | unreadable (bytes : List Nat)      -- not valid UTF-8
  | text (content : List Char)
deriving Repr, DecidableEq

def FileSt.ofOpt : Option (List Char) → FileSt
  | none => .missing
  | some c => .text c

def cliRunFile (file : FileSt) (output : List Char) (check : Bool) : Outcome × FileSt :=
  match file with
  | .unreadable b => (.failed, .unreadable b)
  | .missing => let r := cliRun none output check; (r.1, FileSt.ofOpt r.2)
  | .text c => let r := cliRun (some c) output check; (r.1, FileSt.ofOpt r.2)

theorem checkFile_never_writes (file : FileSt) (output : List Char) : (cliRunFile file output true).2 = file := by
  cases file with
  | unreadable b => rfl
  | missing => simp [cliRunFile, check_never_writes, FileSt.ofOpt]
  | text c => simp [cliRunFile, check_never_writes, FileSt.ofOpt]

/-- `--check` succeeds exactly on a readable file holding the output up to line endings -/
theorem checkFile_ok_iff (file : FileSt) (output : List Char) :
    (cliRunFile file output true).1 = .ok ↔ ∃ existing, file = .text existing ∧ lines existing = lines output := by
  cases file with
  | unreadable b => simp [cliRunFile]
  | missing =>
    have := check_ok_iff none output
    simp only [cliRunFile]
    rw [this]; simp
  | text c =>
    have := check_ok_iff (some c) output
    simp only [cliRunFile]
    rw [this]; simp


end Logos.Strip
