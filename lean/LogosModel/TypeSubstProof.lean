import LogosModel.TypeSubst
/-!
# After `reject_recursive_types`, rewriting a field type always ends (C19)

`getType_total`: for every list of `type` items, once the recursive ones have been rejected, `get_type` ends on
every type within `env.length` nested substitutions.  The proof follows the run of the code:

* if the rewrite runs out of fuel `k` at a parameter, there is a walk of `k` substitution steps from it through
  parameters that still have a concrete type (`substAt_none_walk`);
* a walk of `env.length` steps visits some parameter twice (pigeonhole), so that parameter reaches itself;
* every substitution step is an edge of the `mentions` table that `reject_recursive_types` computed from the items
  as written (`edge_ment`);
* the depth-first search of `reject_recursive_types` reports a parameter that reaches itself in that table
  (`dfs_complete`: the classical invariant - every successor of a seen node is seen or on the stack), within its
  fuel (`dfs_fuel`), and the type of a reported parameter is forgotten: contradiction.
-/
namespace Logos.TypeSubst

/-! ## walks and reachability -/

/-- `Walk E a l`: `l` lists the nodes visited after `a`, each step an edge -/
inductive Walk (E : Nat → Nat → Prop) : Nat → List Nat → Prop
  | nil (a : Nat) : Walk E a []
  | cons {a b : Nat} {l : List Nat} : E a b → Walk E b l → Walk E a (b :: l)

/-- reachable in at least one step -/
inductive RP (E : Nat → Nat → Prop) : Nat → Nat → Prop
  | single {a b : Nat} : E a b → RP E a b
  | tail {a b c : Nat} : RP E a b → E b c → RP E a c

theorem RP.head {E : Nat → Nat → Prop} {a b c : Nat} (h : E a b) (r : RP E b c) : RP E a c := by
  induction r with
  | single e => exact .tail (.single h) e
  | tail _ e ih => exact .tail ih e

theorem RP.mono {E F : Nat → Nat → Prop} (hEF : ∀ a b, E a b → F a b) {a b : Nat} (r : RP E a b) : RP F a b := by
  induction r with
  | single e => exact .single (hEF _ _ e)
  | tail _ e ih => exact .tail ih (hEF _ _ e)

theorem Walk.reach {E : Nat → Nat → Prop} {a : Nat} {l : List Nat} (w : Walk E a l) : ∀ b ∈ l, RP E a b := by
  induction w with
  | nil a => intro b hb; cases hb
  | cons e _ ih =>
    intro c hc
    rcases List.mem_cons.1 hc with rfl | hc
    · exact .single e
    · exact RP.head e (ih c hc)

theorem Walk.suffix {E : Nat → Nat → Prop} {a : Nat} {p : List Nat} {b : Nat} {q : List Nat}
    (w : Walk E a (p ++ b :: q)) : Walk E b q := by
  induction p generalizing a with
  | nil => cases w with | cons _ w' => exact w'
  | cons x p ih => cases w with | cons _ w' => exact ih w'

/-- a list with a repeated element splits around the two occurrences -/
theorem dup_split {l : List Nat} (h : ¬ l.Nodup) : ∃ xs v ys zs, l = xs ++ v :: ys ++ v :: zs := by
  induction l with
  | nil => exact absurd List.nodup_nil h
  | cons a t ih =>
    by_cases ha : a ∈ t
    · obtain ⟨s, t', rfl⟩ := List.append_of_mem ha
      exact ⟨[], a, s, t', by simp⟩
    · have : ¬ t.Nodup := fun hn => h (List.nodup_cons.2 ⟨ha, hn⟩)
      obtain ⟨xs, v, ys, zs, rfl⟩ := ih this
      exact ⟨a :: xs, v, ys, zs, by simp⟩

/-- pigeonhole: more than `n` nodes below `n` on a walk: one of them reaches itself -/
theorem walk_cycle {E : Nat → Nat → Prop} {a : Nat} {l : List Nat} {n : Nat} (w : Walk E a l)
    (hlt : ∀ v ∈ a :: l, v < n) (hlen : n < (a :: l).length) : ∃ v, v ∈ a :: l ∧ RP E v v := by
  have hnd : ¬ (a :: l).Nodup := by
    intro hn
    have hsub : (a :: l) ⊆ List.range n := fun v hv => List.mem_range.2 (hlt v hv)
    have := List.Nodup.length_le_of_subset hn hsub
    simp at this hlen
    omega
  obtain ⟨xs, v, ys, zs, hsplit⟩ := dup_split hnd
  refine ⟨v, by simp [hsplit], ?_⟩
  cases xs with
  | nil =>
    simp at hsplit
    obtain ⟨rfl, hl⟩ := hsplit
    exact w.reach a (by rw [hl]; simp)
  | cons x xs =>
    simp at hsplit
    obtain ⟨rfl, hl⟩ := hsplit
    have w' : Walk E v (ys ++ v :: zs) := by
      have : l = xs ++ v :: (ys ++ v :: zs) := by rw [hl]
      rw [this] at w
      exact w.suffix
    exact w'.reach v (by simp)

/-! ## running out of fuel means a long walk -/

mutual
theorem mapP_none (f : Nat → Option RTy) : ∀ t, mapP f t = none → ∃ j, j ∈ mentions t ∧ f j = none
  | .param i, h => ⟨i, by simp [mentions], by simpa [mapP] using h⟩
  | .con n ks, h => by
    have h' : mapPL f ks = none := by
      cases hk : mapPL f ks with
      | none => rfl
      | some v => simp [mapP, hk] at h
    obtain ⟨j, hj, hf⟩ := mapPL_none f ks h'
    exact ⟨j, by simpa [mentions] using hj, hf⟩
theorem mapPL_none (f : Nat → Option RTy) : ∀ ts, mapPL f ts = none → ∃ j, j ∈ mentionsL ts ∧ f j = none
  | .nil, h => by simp [mapPL] at h
  | .cons t ts, h => by
    cases ht : mapP f t with
    | none =>
      obtain ⟨j, hj, hf⟩ := mapP_none f t ht
      exact ⟨j, by simp [mentionsL, hj], hf⟩
    | some t' =>
      cases hts : mapPL f ts with
      | none =>
        obtain ⟨j, hj, hf⟩ := mapPL_none f ts hts
        exact ⟨j, by simp [mentionsL, hj], hf⟩
      | some ts' => simp [mapPL, ht, hts] at h
end

theorem mapKids_none (f : Nat → Option RTy) (c : RTy) (h : mapKids f c = none) : ∃ j, j ∈ kidParams c ∧ f j = none := by
  cases c with
  | param j => exact ⟨j, by simp [kidParams], by simpa [mapKids] using h⟩
  | con n ks =>
    have h' : mapPL f ks = none := by
      cases hk : mapPL f ks with
      | none => rfl
      | some v => simp [mapKids, hk] at h
    obtain ⟨j, hj, hf⟩ := mapPL_none f ks h'
    exact ⟨j, by simpa [kidParams] using hj, hf⟩

/-- one substitution step: `b` occurs below the root of the concrete type of `a` -/
def Edge (env : Env) (a b : Nat) : Prop := ∃ c, find env a = some c ∧ b ∈ kidParams c

theorem substAt_none_walk (env : Env) : ∀ (fuel i : Nat), substAt env fuel i = none →
    ∃ l, Walk (Edge env) i l ∧ l.length = fuel ∧ ∀ v ∈ i :: l, (find env v).isSome
  | 0, i, h => by
    refine ⟨[], .nil i, rfl, ?_⟩
    intro v hv
    simp at hv
    subst hv
    cases hf : find env v with
    | none => simp [substAt, hf] at h
    | some c => simp
  | fuel + 1, i, h => by
    cases hf : find env i with
    | none => simp [substAt, hf] at h
    | some c =>
      have hk : mapKids (substAt env fuel) c = none := by simpa [substAt, hf] using h
      obtain ⟨j, hj, hjn⟩ := mapKids_none _ c hk
      obtain ⟨l, hw, hl, hs⟩ := substAt_none_walk env fuel j hjn
      refine ⟨j :: l, .cons ⟨c, hf, hj⟩ hw, by simp [hl], ?_⟩
      intro v hv
      rcases List.mem_cons.1 hv with rfl | hv
      · simp [hf]
      · exact hs v hv

theorem find_lt {env : Env} {i : Nat} (h : (find env i).isSome) : i < env.length := by
  unfold find at h
  cases hi : env[i]? with
  | none => simp [hi] at h
  | some v => exact (List.getElem?_eq_some_iff.1 hi).1

/-! ## the depth-first search of `reject_recursive_types` -/

/-- an edge of the `mentions` table -/
def MEdge (m : List (List Nat)) (a b : Nat) : Prop := b ∈ row m a

/-- every successor of a seen node (and of `start`) is seen or still on the stack; `start` has not been seen -/
structure DfsInv (m : List (List Nat)) (start : Nat) (stack seen : List Nat) : Prop where
  first : ∀ b ∈ row m start, b ∈ seen ∨ b ∈ stack
  closed : ∀ v ∈ seen, ∀ b ∈ row m v, b ∈ seen ∨ b ∈ stack
  fresh : start ∉ seen

theorem dfs_complete (m : List (List Nat)) (start : Nat) : ∀ (fuel : Nat) (stack seen : List Nat),
    DfsInv m start stack seen → dfs m start fuel stack seen = some false → ¬ RP (MEdge m) start start
  | 0, _, _, _, h => by simp [dfs] at h
  | _ + 1, [], seen, inv, _ => by
    intro hr
    have hall : ∀ b, RP (MEdge m) start b → b ∈ seen := by
      intro b r
      induction r with
      | single e => rcases inv.first _ e with h | h; exact h; cases h
      | tail _ e ih => rcases inv.closed _ ih _ e with h | h; exact h; cases h
    exact inv.fresh (hall start hr)
  | fuel + 1, next :: stack, seen, inv, h => by
    by_cases hn : next = start
    · simp [dfs, hn] at h
    · by_cases hs : seen.contains next = true
      · have hmem : next ∈ seen := by simpa using hs
        have h' : dfs m start fuel stack seen = some false := by simpa [dfs, hn, hmem] using h
        refine dfs_complete m start fuel stack seen ⟨?_, ?_, inv.fresh⟩ h'
        · intro b hb
          rcases inv.first b hb with h1 | h1
          · exact .inl h1
          · rcases List.mem_cons.1 h1 with rfl | h1
            · exact .inl hmem
            · exact .inr h1
        · intro v hv b hb
          rcases inv.closed v hv b hb with h1 | h1
          · exact .inl h1
          · rcases List.mem_cons.1 h1 with rfl | h1
            · exact .inl hmem
            · exact .inr h1
      · have hnm : next ∉ seen := by simpa using hs
        have h' : dfs m start fuel ((row m next).reverse ++ stack) (next :: seen) = some false := by
          simpa [dfs, hn, hnm] using h
        refine dfs_complete m start fuel _ _ ⟨?_, ?_, ?_⟩ h'
        · intro b hb
          rcases inv.first b hb with h1 | h1
          · exact .inl (List.mem_cons_of_mem _ h1)
          · rcases List.mem_cons.1 h1 with rfl | h1
            · exact .inl (by simp)
            · exact .inr (by simp [h1])
        · intro v hv b hb
          rcases List.mem_cons.1 hv with rfl | hv
          · exact .inr (by simp [hb])
          · rcases inv.closed v hv b hb with h1 | h1
            · exact .inl (List.mem_cons_of_mem _ h1)
            · rcases List.mem_cons.1 h1 with rfl | h1
              · exact .inl (by simp)
              · exact .inr (by simp [h1])
        · intro hmem
          rcases List.mem_cons.1 hmem with h1 | h1
          · exact hn h1.symm
          · exact inv.fresh h1

/-- a parameter that reaches itself in the `mentions` table is not answered "no cycle" -/
theorem cyclic_of_reach (m : List (List Nat)) (start : Nat) (h : RP (MEdge m) start start) : cyclic m start = true := by
  unfold cyclic
  cases hd : dfs m start (fuelFor m start) (row m start).reverse [] with
  | none => simp
  | some b =>
    cases b with
    | true => simp
    | false =>
      have inv : DfsInv m start (row m start).reverse [] :=
        { first := fun b hb => .inr (by simp [hb])
          closed := fun v hv => by cases hv
          fresh := by simp }
      exact absurd h (dfs_complete m start _ _ _ inv hd)

/-- every node on the stack is reachable from `start`: a reported `start` reaches itself -/
theorem dfs_sound (m : List (List Nat)) (start : Nat) : ∀ (fuel : Nat) (stack seen : List Nat),
    (∀ b ∈ stack, RP (MEdge m) start b) → dfs m start fuel stack seen = some true → RP (MEdge m) start start
  | 0, _, _, _, h => by simp [dfs] at h
  | _ + 1, [], _, _, h => by simp [dfs] at h
  | fuel + 1, next :: stack, seen, hst, h => by
    by_cases hn : next = start
    · subst hn; exact hst next (by simp)
    · by_cases hmem : next ∈ seen
      · have h' : dfs m start fuel stack seen = some true := by simpa [dfs, hn, hmem] using h
        exact dfs_sound m start fuel stack seen (fun b hb => hst b (List.mem_cons_of_mem _ hb)) h'
      · have h' : dfs m start fuel ((row m next).reverse ++ stack) (next :: seen) = some true := by
          simpa [dfs, hn, hmem] using h
        refine dfs_sound m start fuel _ _ ?_ h'
        intro b hb
        rcases List.mem_append.1 hb with hb | hb
        · exact .tail (hst next (by simp)) (by simpa [MEdge] using hb)
        · exact hst b (List.mem_cons_of_mem _ hb)

/-! ### the fuel of the model is enough: the loop ends by itself -/

/-- the rows of the nodes not yet seen (what can still be pushed) -/
def unseenSum (seen : List Nat) : Nat → List (List Nat) → Nat
  | _, [] => 0
  | k, l :: rest => (if k ∈ seen then 0 else l.length) + unseenSum seen (k + 1) rest

theorem unseenSum_nil : ∀ (k : Nat) (m : List (List Nat)), unseenSum [] k m = total m
  | _, [] => by simp [unseenSum, total]
  | k, l :: rest => by
    have := unseenSum_nil (k + 1) rest
    simp [unseenSum, total] at this ⊢
    omega

theorem row_cons_succ (l : List Nat) (rest : List (List Nat)) (i : Nat) : row (l :: rest) (i + 1) = row rest i := by
  simp [row]

theorem unseen_step (next : Nat) (seen : List Nat) (hn : next ∉ seen) : ∀ (m : List (List Nat)) (k : Nat),
    unseenSum (next :: seen) k m + (if k ≤ next then (row m (next - k)).length else 0) = unseenSum seen k m
  | [], k => by simp [unseenSum, row]
  | l :: rest, k => by
    have ih := unseen_step next seen hn rest (k + 1)
    by_cases h1 : k = next
    · subst h1
      have h2 : ¬ (k + 1 ≤ k) := by omega
      simp only [h2, if_false, Nat.add_zero] at ih
      simp [unseenSum, hn, ih, row]
      omega
    · by_cases h2 : k < next
      · have h3 : k + 1 ≤ next := by omega
        have h4 : k ≤ next := by omega
        have h5 : next - k = (next - (k + 1)) + 1 := by omega
        simp only [h3, if_true] at ih
        simp only [unseenSum, h4, if_true, h5, row_cons_succ, List.mem_cons, h1, false_or]
        omega
      · have h3 : ¬ (k + 1 ≤ next) := by omega
        have h4 : ¬ (k ≤ next) := by omega
        simp only [h3, if_false, Nat.add_zero] at ih
        simp only [unseenSum, h4, if_false, Nat.add_zero, List.mem_cons, h1, false_or]
        omega

theorem dfs_fuel (m : List (List Nat)) (start : Nat) : ∀ (fuel : Nat) (stack seen : List Nat),
    stack.length + unseenSum seen 0 m < fuel → dfs m start fuel stack seen ≠ none
  | 0, _, _, h => by omega
  | _ + 1, [], _, _ => by simp [dfs]
  | fuel + 1, next :: stack, seen, h => by
    by_cases hn : next = start
    · simp [dfs, hn]
    · by_cases hmem : next ∈ seen
      · have := dfs_fuel m start fuel stack seen (by simp at h; omega)
        simpa [dfs, hn, hmem] using this
      · have hstep := unseen_step next seen hmem m 0
        simp only [Nat.zero_le, if_true, Nat.sub_zero] at hstep
        have := dfs_fuel m start fuel ((row m next).reverse ++ stack) (next :: seen) (by simp at h ⊢; omega)
        simpa [dfs, hn, hmem] using this

/-- **The search of `reject_recursive_types` is exact**: the item of a parameter is reported if and only if the
parameter reaches itself through the `mentions` table (and the loop ends by itself, within the model's fuel). -/
theorem cyclic_iff (m : List (List Nat)) (start : Nat) : cyclic m start = true ↔ RP (MEdge m) start start := by
  constructor
  · intro h
    unfold cyclic at h
    cases hd : dfs m start (fuelFor m start) (row m start).reverse [] with
    | none =>
      exact absurd hd (dfs_fuel m start _ _ _ (by simp [fuelFor, unseenSum_nil]))
    | some b =>
      cases b with
      | false => simp [hd] at h
      | true =>
        refine dfs_sound m start _ _ _ ?_ hd
        intro b hb
        exact .single (by simpa [MEdge] using hb)
  · exact cyclic_of_reach m start

/-! ## `reject` -/

theorem rejectFrom_getElem? (m : List (List Nat)) : ∀ (env : Env) (k i : Nat),
    (rejectFrom m k env)[i]? = (env[i]?).map fun t => if cyclic m (k + i) then none else t
  | [], k, i => by simp [rejectFrom]
  | t :: rest, k, 0 => by simp [rejectFrom]
  | t :: rest, k, i + 1 => by
    simp only [rejectFrom, List.getElem?_cons_succ]
    rw [rejectFrom_getElem? m rest (k + 1) i]
    have : k + 1 + i = k + (i + 1) := by omega
    rw [this]

theorem rejectFrom_length (m : List (List Nat)) : ∀ (env : Env) (k : Nat), (rejectFrom m k env).length = env.length
  | [], _ => by simp [rejectFrom]
  | _ :: rest, k => by simp [rejectFrom, rejectFrom_length m rest (k + 1)]

theorem reject_length (env : Env) : (reject env).length = env.length := rejectFrom_length _ _ _

/-- a type that survives `reject` is the type as written, and its parameter was not reported -/
theorem find_reject {env : Env} {i : Nat} {c : RTy} (h : find (reject env) i = some c) :
    find env i = some c ∧ cyclic (ment env) i = false := by
  unfold find reject at h
  rw [rejectFrom_getElem?] at h
  unfold find
  cases hi : env[i]? with
  | none => simp [hi] at h
  | some t =>
    simp only [hi, Option.map_some, Nat.zero_add] at h
    by_cases hc : cyclic (ment env) i = true
    · simp [hc] at h
    · have hc' : cyclic (ment env) i = false := by simpa using hc
      simp only [hc'] at h
      cases t with
      | none => simp at h
      | some c' =>
        simp at h
        subst h
        exact ⟨rfl, hc'⟩

mutual
theorem kidParams_sub_mentions : ∀ (c : RTy) (b : Nat), b ∈ kidParams c → b ∈ mentions c
  | .param _, _, h => by simpa [kidParams, mentions] using h
  | .con _ _, _, h => by simpa [kidParams, mentions] using h
end

theorem row_ment {env : Env} {i : Nat} {c : RTy} (h : find env i = some c) : row (ment env) i = mentions c := by
  unfold find at h
  unfold row ment
  cases hi : env[i]? with
  | none => simp [hi] at h
  | some t =>
    cases t with
    | none => simp [hi] at h
    | some c' =>
      simp [hi] at h
      subst h
      simp [hi]

/-- a substitution step after `reject` is an edge of the table built from the items as written -/
theorem edge_ment (env : Env) (a b : Nat) (h : Edge (reject env) a b) : MEdge (ment env) a b := by
  obtain ⟨c, hf, hb⟩ := h
  have := (find_reject hf).1
  unfold MEdge
  rw [row_ment this]
  exact kidParams_sub_mentions c b hb

/-- **After `reject_recursive_types` the rewrite of a field type ends** (within `env.length` nested substitutions),
whatever the `type` items are and whatever the type is. -/
theorem getType_total (env : Env) (t : RTy) : (getType (reject env) t).isSome = true := by
  cases hg : getType (reject env) t with
  | some v => rfl
  | none =>
    exfalso
    unfold getType getTypeF at hg
    obtain ⟨j, _, hj⟩ := mapP_none _ t hg
    obtain ⟨l, hw, hl, hs⟩ := substAt_none_walk (reject env) _ j hj
    have hlt : ∀ v ∈ j :: l, v < (reject env).length := fun v hv => find_lt (hs v hv)
    obtain ⟨v, hv, hr⟩ := walk_cycle hw hlt (by simp [hl])
    have hr' : RP (MEdge (ment env)) v v := hr.mono (edge_ment env)
    have hc := cyclic_of_reach _ _ hr'
    have hsome := hs v hv
    cases hf : find (reject env) v with
    | none => simp [hf] at hsome
    | some c => have := (find_reject hf).2; simp [hc] at this

/-- the items as found (defect D9): `type T = Vec<T>` without `reject` runs out of any fuel -/
theorem getType_found_diverges (fuel : Nat) :
    getTypeF [some (.con "Vec" (.cons (.param 0) .nil))] fuel (.param 0) = none := by
  unfold getTypeF
  simp only [mapP]
  induction fuel with
  | zero => simp [substAt, find]
  | succ k ih => simp [substAt, find, mapKids, mapPL, mapP, ih]

/-- ... and with `reject` the item is forgotten and the parameter stays as written -/
theorem getType_fixed_example :
    getType (reject [some (.con "Vec" (.cons (.param 0) .nil))]) (.param 0) = some (.param 0) := by
  rfl


/-! ## D18: nothing that has a concrete type survives the rewrite -/

mutual
theorem mapP_mentions (f : Nat → Option RTy) : ∀ (t v : RTy), mapP f t = some v →
    ∀ j ∈ mentions v, ∃ i ∈ mentions t, ∃ r, f i = some r ∧ j ∈ mentions r
  | .param i, v, h, j, hj => ⟨i, by simp [mentions], v, by simpa [mapP] using h, hj⟩
  | .con n ks, v, h, j, hj => by
    simp only [mapP] at h
    cases hk : mapPL f ks with
    | none => simp [hk] at h
    | some ks' =>
      simp [hk] at h
      subst h
      obtain ⟨i, hi, r, hr, hjr⟩ := mapPL_mentions f ks ks' hk j (by simpa [mentions] using hj)
      exact ⟨i, by simpa [mentions] using hi, r, hr, hjr⟩
theorem mapPL_mentions (f : Nat → Option RTy) : ∀ (ts vs : RTys), mapPL f ts = some vs →
    ∀ j ∈ mentionsL vs, ∃ i ∈ mentionsL ts, ∃ r, f i = some r ∧ j ∈ mentions r
  | .nil, vs, h, j, hj => by
    simp [mapPL] at h
    subst h
    simp [mentionsL] at hj
  | .cons t ts, vs, h, j, hj => by
    simp only [mapPL] at h
    cases h1 : mapP f t with
    | none => simp [h1] at h
    | some t' =>
      cases h2 : mapPL f ts with
      | none => simp [h1, h2] at h
      | some ts' =>
        simp [h1, h2] at h
        subst h
        simp only [mentionsL, List.mem_append] at hj
        rcases hj with hj | hj
        · obtain ⟨i, hi, r, hr, hjr⟩ := mapP_mentions f t t' h1 j hj
          exact ⟨i, by simp [mentionsL, hi], r, hr, hjr⟩
        · obtain ⟨i, hi, r, hr, hjr⟩ := mapPL_mentions f ts ts' h2 j hj
          exact ⟨i, by simp [mentionsL, hi], r, hr, hjr⟩
end

theorem mapKids_mentions (f : Nat → Option RTy) (c v : RTy) (h : mapKids f c = some v) :
    ∀ j ∈ mentions v, ∃ i ∈ kidParams c, ∃ r, f i = some r ∧ j ∈ mentions r := by
  intro j hj
  cases c with
  | param k => exact ⟨k, by simp [kidParams], v, by simpa [mapKids] using h, hj⟩
  | con n ks =>
    have h' : mapP f (.con n ks) = some v := by simpa [mapKids, mapP] using h
    obtain ⟨i, hi, r, hr, hjr⟩ := mapP_mentions f _ v h' j hj
    exact ⟨i, by simpa [kidParams, mentions] using hi, r, hr, hjr⟩

/-- what the visitor leaves at a parameter path names only parameters without a concrete type -/
theorem substAt_closed (env : Env) : ∀ (fuel i : Nat) (r : RTy), substAt env fuel i = some r →
    ∀ j ∈ mentions r, find env j = none
  | 0, i, r, h, j, hj => by
    cases hf : find env i with
    | none =>
      simp [substAt, hf] at h
      subst h
      simp [mentions] at hj
      subst hj
      exact hf
    | some c => simp [substAt, hf] at h
  | fuel + 1, i, r, h, j, hj => by
    cases hf : find env i with
    | none =>
      simp [substAt, hf] at h
      subst h
      simp [mentions] at hj
      subst hj
      exact hf
    | some c =>
      have hk : mapKids (substAt env fuel) c = some r := by simpa [substAt, hf] using h
      obtain ⟨k, _, r', hr', hjr'⟩ := mapKids_mentions _ c r hk j hj
      exact substAt_closed env fuel k r' hr' j hjr'

/-- **D18, the failure mode excluded**: a type that comes out of the rewrite names no parameter that has a concrete type
(such a name is not declared where the type is pasted: E0425) - field types and, with `headerArgs`, the generic arguments
of the impl header. -/
theorem getType_closed (env : Env) (t v : RTy) (h : getType env t = some v) : ∀ j ∈ mentions v, find env j = none := by
  intro j hj
  unfold getType getTypeF at h
  obtain ⟨i, _, r, hr, hjr⟩ := mapP_mentions _ t v h j hj
  exact substAt_closed env _ i r hr j hjr

theorem headerArgs_closed (env : Env) (v : RTy) (h : some v ∈ headerArgs env) : ∀ j ∈ mentions v, find env j = none := by
  unfold headerArgs at h
  obtain ⟨o, _, ho⟩ := List.mem_map.mp h
  cases o with
  | none => simp at ho
  | some c => exact getType_closed env c v (by simpa using ho)

/-- the code as found: `type A = B, type B = u8` leaves `B` in a field of type `A` and `Vec<B>` in the header -/
theorem getTypeFound_leaves_alias :
    getTypeFound [some (.param 1), some (.con "u8" .nil)] (.param 0) = some (.param 1) ∧
    getType [some (.param 1), some (.con "u8" .nil)] (.param 0) = some (.con "u8" .nil) := by
  constructor <;> rfl

theorem headerArgsFound_open :
    headerArgsFound [some (.con "Vec" (.cons (.param 1) .nil)), some (.con "u8" .nil)]
      = [some (.con "Vec" (.cons (.param 1) .nil)), some (.con "u8" .nil)] ∧
    headerArgs [some (.con "Vec" (.cons (.param 1) .nil)), some (.con "u8" .nil)]
      = [some (.con "Vec" (.cons (.con "u8" .nil) .nil)), some (.con "u8" .nil)] := by
  constructor <;> rfl

end Logos.TypeSubst
