import LogosModel.CertP
import LogosModel.Sound
import LogosModel.LexProof
/-!
# C07: the partial lexer equals the reference partial lexer (look-free fragment)
-/
namespace Logos

theorem extendable_of_not_viable {Δ : Vec} (h : viableV Δ = false) : extendable Δ = false := by
  unfold extendable
  rw [List.any_eq_false]
  intro b _
  simp [viableV_deriv_false h]

theorem waits_false {sd : StateData} (h : waits sd = false) : sd.normal = [] ∧ sd.eoi = none := by
  unfold waits at h
  cases hn : sd.normal with
  | nil =>
    cases he : sd.eoi with
    | none => exact ⟨rfl, rfl⟩
    | some t => simp [hn, he] at h
  | cons a l => simp [hn] at h

theorem next_of_normal_nil {sd : StateData} (h : sd.normal = []) (b : Nat) : sd.next b = none := by
  simp [StateData.next, h]

/-- prefix-mode `dead_stops`. -/
theorem dead_stopsP {G : Graph} {prios D C} (hv : ValidP G prios D C) {t : Nat} {Δ : Vec}
    (hC : C t Δ) (hd : viableV Δ = false) (start : Nat) (w : List Nat) (k : Nat) (hk : start < k)
    (ctx : Option Nat) (tokEnd : Nat) :
    (G.get t).early = none ∧
    walk G true start t w k ctx tokEnd =
      .action k (record (G.get t) k ctx tokEnd).1 (record (G.get t) k ctx tokEnd).2 := by
  have hl := hv.valid.loc t Δ hC
  have nowin : ∀ l, win prios Δ ≠ some l := by
    intro l h; have := win_viable h; rw [hd] at this; cases this
  have hearly : (G.get t).early = none := by
    cases h : (G.get t).early with
    | none => rfl
    | some l => exact absurd (hl.early_ok l h) (nowin l)
  refine ⟨hearly, ?_⟩
  have hwt : waits (G.get t) = false := by
    rw [hv.prefixOK t Δ hC]; exact extendable_of_not_viable hd
  obtain ⟨hnorm, heoi⟩ := waits_false hwt
  cases w with
  | nil =>
    simp only [walk]
    rw [atEoi]
    have hroot : (t == G.root && start == k) = false := by
      have : (start == k) = false := by simp; omega
      simp [this]
    simp [hnorm, heoi, hroot]
  | cons b w' =>
    simp only [walk]
    rw [next_of_normal_nil hnorm b]

/-- prefix-mode version of `walk_eq_scan`: from a certified pair, the walk over the rest of a prefix
buffer either asks for more input exactly when the reference scan does, or ends with the reference
scan's record and stop offset. -/
theorem walk_eq_scanP {G : Graph} {prios : List Nat} {D : Vec} {C : Nat → Vec → Prop}
    (hv : ValidP G prios D C) (start : Nat) :
    ∀ (w : List Nat) (st : Nat) (Δ : Vec) (k : Nat) (ctx : Option Nat) (tokEnd : Nat) (bestPrev : Rec),
      (∀ b ∈ w, b < 256) → start < k → C st Δ → EntryInv G st k ctx tokEnd bestPrev →
      match scanP prios Δ w k (upd prios Δ k bestPrev) with
      | none => walk G true start st w k ctx tokEnd = .needMore
      | some (r, off) =>
        ∃ off' c e, walk G true start st w k ctx tokEnd = .action off' c e ∧ recOf c e = r ∧
          (r = none → off' = off) := by
  intro w
  induction w with
  | nil =>
    intro st Δ k ctx tokEnd bestPrev _ hk hC he
    have hl := hv.valid.loc st Δ hC
    have hpost := record_post hl he
    have hpre := hv.prefixOK st Δ hC
    simp only [walk, scanP]
    generalize hr : record (G.get st) k ctx tokEnd = r at hpost
    obtain ⟨c1, e1⟩ := r
    simp only at hpost ⊢
    rw [atEoi]
    cases hx : extendable Δ with
    | true =>
      rw [hx] at hpre
      unfold waits at hpre
      simp only [if_true, hpre, Bool.and_true]
    | false =>
      rw [hx] at hpre
      obtain ⟨hnorm, heoi⟩ := waits_false hpre
      have hroot : (st == G.root && start == k) = false := by
        have : (start == k) = false := by simp; omega
        simp [this]
      simp only [hnorm, heoi, hroot]
      refine ⟨k, c1, e1, by simp, ?_, fun _ => rfl⟩
      rcases hpost with h | ⟨l, hwn, hne⟩
      · exact h
      · obtain ⟨t, ht, _⟩ := hl.pend_eoi l hwn hne
        rw [heoi] at ht; cases ht
  | cons b w' ih =>
    intro st Δ k ctx tokEnd bestPrev hw hk hC he
    have hb : b < 256 := hw b (by simp)
    have hw' : ∀ x ∈ w', x < 256 := fun x hx => hw x (by simp [hx])
    have hl := hv.valid.loc st Δ hC
    have hpost := record_post hl he
    simp only [walk]
    generalize hr : record (G.get st) k ctx tokEnd = r at hpost
    obtain ⟨c1, e1⟩ := r
    simp only at hpost ⊢
    cases hn : (G.get st).next b with
    | none =>
      have hdead := hl.noedge b hb hn
      simp only [scanP, hdead]
      refine ⟨k, c1, e1, rfl, ?_, fun _ => rfl⟩
      rcases hpost with h | ⟨l, hwn, hne⟩
      · exact h
      · obtain ⟨t, ht, _⟩ := hl.pend_byte l hwn hne b hb
        rw [hn] at ht; cases ht
    | some t =>
      obtain ⟨h1, h2, h3⟩ := hl.edge b hb t hn
      have he' : EntryInv G t (k+1) c1 e1 (upd prios Δ k bestPrev) := by
        unfold EntryInv
        cases ha : (G.get t).accept with
        | some l => simp [upd, h1 l ha]
        | none =>
          simp only
          rcases hpost with h | ⟨l, hwn, hne⟩
          · exact h
          · obtain ⟨t2, ht2, ha2⟩ := hl.pend_byte l hwn hne b hb
            rw [hn] at ht2; cases ht2; rw [ha] at ha2; cases ha2
      simp only
      cases hvd : viableV (derivV b Δ) with
      | true =>
        have := ih t (derivV b Δ) (k+1) c1 e1 (upd prios Δ k bestPrev) hw' (by omega) h3 he'
        simpa only [scanP, hvd, if_true] using this
      | false =>
        simp only [scanP, hvd]
        obtain ⟨htE, hwalk⟩ := dead_stopsP hv h3 hvd start w' (k+1) (by omega) c1 e1
        rw [hwalk]
        have hacc : (G.get t).accept.isSome = true := by
          rcases h2 with h2 | h2
          · rw [hvd] at h2; cases h2
          · exact h2
        cases ha : (G.get t).accept with
        | none => rw [ha] at hacc; cases hacc
        | some l =>
          have hwin := h1 l ha
          have hrec : record (G.get t) (k+1) c1 e1 = (some l, k) := by simp [record, htE, ha]
          rw [hrec]
          refine ⟨k+1, some l, k, rfl, ?_, ?_⟩
          · simp [recOf, upd, hwin]
          · intro h; simp [upd, hwin] at h

theorem attemptP_eq {G : Graph} {prios : List Nat} {D : Vec} {C : Nat → Vec → Prop}
    (hv : ValidP G prios D C) (inp : List Nat) (hb : ∀ b ∈ inp, b < 256) (start : Nat) :
    walkAttempt G true inp start = scanAttemptP prios D inp start := by
  obtain ⟨hre, hra⟩ := hv.valid.wf.rootNoRec
  have hrec : ∀ ctx te, record (G.get G.root) start ctx te = (ctx, te) := by
    intro ctx te; simp [record, hre, hra]
  have hbd : ∀ x ∈ inp.drop start, x < 256 := fun x hx => hb x (List.mem_of_mem_drop hx)
  unfold walkAttempt scanAttemptP
  cases hd : inp.drop start with
  | nil =>
    have hlen : inp.length ≤ start := List.drop_eq_nil_iff.1 hd
    have hpre := hv.prefixOK G.root D hv.valid.root
    simp only [walk, hrec, scanP]
    rw [atEoi]
    cases hx : extendable D with
    | true =>
      rw [hx] at hpre
      unfold waits at hpre
      simp [hpre, attemptOfStop]
    | false =>
      rw [hx] at hpre
      obtain ⟨hnorm, heoi⟩ := waits_false hpre
      simp [hnorm, heoi, attemptOfStop, hlen]
  | cons b w =>
    have hlen : ¬ inp.length ≤ start := by
      intro h
      have := List.drop_eq_nil_iff.2 h
      rw [hd] at this; cases this
    rw [hd] at hbd
    have hb' : b < 256 := hbd b (by simp)
    have hw : ∀ x ∈ w, x < 256 := fun x hx => hbd x (by simp [hx])
    have hl := hv.valid.loc _ _ hv.valid.root
    simp only [walk, hrec]
    cases hn : (G.get G.root).next b with
    | none =>
      have hdead := hl.noedge b hb' hn
      simp [scanP, hdead, attemptOfStop, hlen]
    | some t =>
      obtain ⟨h1, h2, h3⟩ := hl.edge b hb' t hn
      have hacc : (G.get t).accept = none := by
        cases ha : (G.get t).accept with
        | none => rfl
        | some l => have := h1 l ha; rw [hv.valid.noEmpty] at this; cases this
      have hvd : viableV (derivV b D) = true := by
        rcases h2 with h2 | h2
        · exact h2
        · rw [hacc] at h2; cases h2
      have he : EntryInv G t (start+1) none start none := by
        unfold EntryInv; simp [hacc, recOf]
      have key :=
        walk_eq_scanP hv start w t (derivV b D) (start+1) none start none hw (by omega) h3 he
      simp only [scanP, hvd, if_true]
      generalize scanP prios (derivV b D) w (start+1) (upd prios (derivV b D) (start+1) none) = r at key
      cases r with
      | none =>
        simp only at key
        rw [key]
        simp [attemptOfStop]
      | some p =>
        obtain ⟨r1, r2⟩ := p
        obtain ⟨off, c, e, hwalk, hr, hoff⟩ := key
        rw [hwalk]
        cases c with
        | none =>
          simp [recOf] at hr
          subst hr
          have := hoff rfl
          subst this
          simp [attemptOfStop, hlen]
        | some l =>
          simp [recOf] at hr
          subst hr
          simp [attemptOfStop]

/-- **C07 (look-free fragment).** If the certificate validates, the partial lexer logos generates
yields over every prefix buffer exactly the items of the reference partial lexer, which commits an item
only when no continuation of the buffer can change it and waits exactly as long as some byte keeps a
pattern viable. -/
theorem partial_eq_spec {G : Graph} {prios : List Nat} {D : Vec} {C : Nat → Vec → Prop}
    (hv : ValidP G prios D C) (cb : Callbacks) (utf8 : Bool) (inp : List Nat) (hb : ∀ b ∈ inp, b < 256) :
    graphLex G true cb utf8 inp = specLexP prios D cb utf8 inp := by
  have : walkAttempt G true inp = scanAttemptP prios D inp :=
    funext fun s => attemptP_eq hv inp hb s
  unfold graphLex specLexP
  rw [this]

end Logos
