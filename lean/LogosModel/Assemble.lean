/-!
# Leaf assembly in `generate` (logos-codegen/src/lib.rs): skips first, then the attributes of every variant in order

Per variant: the shape decides the leaf kind (unit / value / `Skip` for named fields, with a diagnostic for every shape
but unit and one-field tuples; an empty tuple variant is passed over altogether), then every `#[token]` / `#[regex]`
attribute becomes a leaf carrying that kind, the explicit priority or the default rule, and the callback.
The pattern itself (escape / substitution / regex compilation) is `Subst.lean`; a definition whose pattern does not
compile contributes no leaf and is outside this model (`compiles = false`).
-/
namespace Logos.Assemble

inductive Shape where
  | unit
  | tuple (n : Nat)
  | named
deriving Repr, DecidableEq

inductive AKind where
  | token
  | regex
deriving Repr, DecidableEq

structure Attr where
  kind : AKind
  prio : Option Nat
  cb : Bool
  litLen : Nat              -- byte length of the literal (the default priority of a token is twice that)
  compiles : Bool := true
deriving Repr, DecidableEq

structure Variant where
  name : String
  shape : Shape
  attrs : List Attr
deriving Repr, DecidableEq

structure Skip where
  prio : Option Nat
  cb : Bool
  compiles : Bool := true
deriving Repr, DecidableEq

inductive LeafKind where
  | skip
  | unit (name : String)
  | value (name : String)
deriving Repr, DecidableEq

inductive Prio where
  | explicit (n : Nat)
  | token (n : Nat)         -- 2 * byte length
  | complexity              -- `Pattern::priority` of the compiled regex (Hir.complexity)
deriving Repr, DecidableEq

structure Leaf where
  kind : LeafKind
  prio : Prio
  cb : Bool
deriving Repr, DecidableEq

/-- leaf kind of a variant, the number of diagnostics its shape raises, and whether its attributes are read at all -/
def variantKind (v : Variant) : LeafKind × Nat × Bool :=
  match v.shape with
  | .unit => (.unit v.name, 0, true)
  | .tuple 0 => (.skip, 1, false)
  | .tuple 1 => (.value v.name, 0, true)
  | .tuple _ => (.value v.name, 1, true)
  | .named => (.skip, 1, true)

def attrLeaf (k : LeafKind) (a : Attr) : Option Leaf :=
  if !a.compiles then none else
  some { kind := k, cb := a.cb,
         prio := match a.prio, a.kind with
           | some n, _ => .explicit n
           | none, .token => .token (2 * a.litLen)
           | none, .regex => .complexity }

def skipLeaf (s : Skip) : Option Leaf :=
  if !s.compiles then none else
  some { kind := .skip, cb := s.cb, prio := match s.prio with | some n => .explicit n | none => .complexity }

def variantLeaves (v : Variant) : List Leaf :=
  let (k, _, reads) := variantKind v
  if reads then v.attrs.filterMap (attrLeaf k) else []

/-- the leaves in the order `Graph::new` receives them, and the number of shape diagnostics -/
def assemble (skips : List Skip) (vars : List Variant) : List Leaf × Nat :=
  (skips.filterMap skipLeaf ++ vars.flatMap variantLeaves, (vars.map fun v => (variantKind v).2.1).sum)

/-- a definition is refused for its shapes exactly when some variant is neither a unit nor a one-field tuple variant -/
theorem shape_errors_iff (skips : List Skip) (vars : List Variant) :
    (assemble skips vars).2 = 0 ↔ ∀ v ∈ vars, v.shape = .unit ∨ v.shape = .tuple 1 := by
  simp only [assemble]
  induction vars with
  | nil => simp
  | cons v vs ih =>
    simp only [List.map_cons, List.sum_cons, Nat.add_eq_zero_iff, List.mem_cons, forall_eq_or_imp, ih]
    constructor
    · rintro ⟨h, hr⟩
      refine ⟨?_, hr⟩
      unfold variantKind at h
      cases hs : v.shape with
      | unit => left; rfl
      | named => simp [hs] at h
      | tuple n =>
        match n with
        | 0 => simp [hs] at h
        | 1 => right; rfl
        | n + 2 => simp [hs] at h
    · rintro ⟨h, hr⟩
      refine ⟨?_, hr⟩
      unfold variantKind
      rcases h with h | h <;> simp [h]

/-- with well-shaped variants and patterns that compile, every skip and every attribute becomes exactly one leaf, skips
first, then the attributes in source order, each with its variant's kind -/
theorem assemble_wellformed (skips : List Skip) (vars : List Variant)
    (hs : ∀ s ∈ skips, s.compiles = true) (hv : ∀ v ∈ vars, (v.shape = .unit ∨ v.shape = .tuple 1) ∧ ∀ a ∈ v.attrs, a.compiles = true) :
    ((assemble skips vars).1.length = skips.length + (vars.map fun v => v.attrs.length).sum) ∧
    ((assemble skips vars).1.take skips.length).all (fun l => l.kind == .skip) = true := by
  have h1 : (skips.filterMap skipLeaf).length = skips.length := by
    induction skips with
    | nil => simp
    | cons s ss ih =>
      have hc : s.compiles = true := hs s (by simp)
      have := ih (fun x hx => hs x (by simp [hx]))
      simp [skipLeaf, hc, this]
  have h2 : (vars.flatMap variantLeaves).length = (vars.map fun v => v.attrs.length).sum := by
    induction vars with
    | nil => simp
    | cons v vs ih =>
      have hvv := hv v (by simp)
      have := ih (fun x hx => hv x (by simp [hx]))
      have hl : (variantLeaves v).length = v.attrs.length := by
        have hreads : (variantKind v).2.2 = true := by
          unfold variantKind; rcases hvv.1 with h | h <;> simp [h]
        unfold variantLeaves
        simp only [hreads, if_true]
        have hall := hvv.2
        generalize v.attrs = as at hall
        induction as with
        | nil => simp
        | cons a as iha =>
          have hc : a.compiles = true := hall a (by simp)
          have := iha (fun x hx => hall x (by simp [hx]))
          simp [attrLeaf, hc, this]
      simp [List.flatMap_cons, hl, this]
  constructor
  · simp [assemble, h1, h2]
  · simp only [assemble]
    rw [← h1, List.take_left']
    · simp only [List.all_eq_true, List.mem_filterMap]
      rintro l ⟨s, _, hl⟩
      unfold skipLeaf at hl
      split at hl
      · cases hl
      · cases hl; simp
    · rfl

end Logos.Assemble
