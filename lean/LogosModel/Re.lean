namespace Logos


inductive Re where
  | empty
  | eps
  | set (rs : List (Nat × Nat))
  | cat (a b : Re)
  | alt (a b : Re)
  | star (a : Re)
deriving DecidableEq, Repr, Hashable

def inRanges (rs : List (Nat × Nat)) (b : Nat) : Bool :=
  rs.any fun (lo, hi) => decide (lo ≤ b) && decide (b ≤ hi)

inductive Matches : Re → List Nat → Prop
  | eps : Matches .eps []
  | set {rs b} : inRanges rs b = true → Matches (.set rs) [b]
  | cat {a b u v} : Matches a u → Matches b v → Matches (.cat a b) (u ++ v)
  | altL {a b w} : Matches a w → Matches (.alt a b) w
  | altR {a b w} : Matches b w → Matches (.alt a b) w
  | starNil {a} : Matches (.star a) []
  | starCons {a u v} : Matches a u → u ≠ [] → Matches (.star a) v → Matches (.star a) (u ++ v)

def nullable : Re → Bool
  | .empty => false
  | .eps => true
  | .set _ => false
  | .cat a b => nullable a && nullable b
  | .alt a b => nullable a || nullable b
  | .star _ => true

def mkCat (a b : Re) : Re :=
  match a, b with
  | .empty, _ => .empty
  | _, .empty => .empty
  | .eps, b => b
  | a, .eps => a
  | a, b => .cat a b

def mkAlt (a b : Re) : Re :=
  match a, b with
  | .empty, b => b
  | a, .empty => a
  | a, b => if a = b then a else .alt a b

def deriv (c : Nat) : Re → Re
  | .empty => .empty
  | .eps => .empty
  | .set rs => if inRanges rs c then .eps else .empty
  | .cat a b => if nullable a then mkAlt (mkCat (deriv c a) b) (deriv c b) else mkCat (deriv c a) b
  | .alt a b => mkAlt (deriv c a) (deriv c b)
  | .star a => mkCat (deriv c a) (.star a)

theorem nullable_iff (r : Re) : nullable r = true ↔ Matches r [] := by
  induction r with
  | empty => simp [nullable]; intro h; cases h
  | eps => simp [nullable]; exact .eps
  | set rs => simp [nullable]; intro h; cases h
  | cat a b iha ihb =>
    simp [nullable, iha, ihb]
    constructor
    · rintro ⟨h1, h2⟩; exact .cat (u := []) (v := []) h1 h2
    · intro h
      generalize hw : ([] : List Nat) = w at h
      cases h with
      | cat h1 h2 =>
        rename_i u v
        have : u = [] ∧ v = [] := by simpa using hw.symm
        obtain ⟨rfl, rfl⟩ := this
        exact ⟨h1, h2⟩
  | alt a b iha ihb =>
    simp [nullable, iha, ihb]
    constructor
    · rintro (h | h); exact .altL h; exact .altR h
    · intro h; cases h with
      | altL h => exact .inl h
      | altR h => exact .inr h
  | star a _ => simp [nullable]; exact .starNil

theorem matches_mkCat {a b w} : Matches (mkCat a b) w ↔ Matches (.cat a b) w := by
  unfold mkCat
  split
  · constructor
    · intro h; cases h
    · intro h; cases h with | cat h1 _ => cases h1
  · constructor
    · intro h; cases h
    · intro h; cases h with | cat _ h2 => cases h2
  · constructor
    · intro h; exact .cat (u := []) .eps h
    · intro h; cases h with | cat h1 h2 => cases h1; simpa using h2
  · constructor
    · intro h; simpa using Matches.cat h .eps
    · intro h; cases h with | cat h1 h2 => cases h2; simpa using h1
  · rfl

theorem matches_mkAlt {a b w} : Matches (mkAlt a b) w ↔ Matches a w ∨ Matches b w := by
  unfold mkAlt
  split
  · constructor
    · intro h; exact .inr h
    · rintro (h | h); cases h; exact h
  · constructor
    · intro h; exact .inl h
    · rintro (h | h); exact h; cases h
  · split
    · next h => subst h; simp
    · constructor
      · intro h; cases h with
        | altL h => exact .inl h
        | altR h => exact .inr h
      · rintro (h | h); exact .altL h; exact .altR h

theorem matches_cat_iff {a b w} : Matches (.cat a b) w ↔ ∃ u v, w = u ++ v ∧ Matches a u ∧ Matches b v := by
  constructor
  · intro h; cases h with | cat h1 h2 => exact ⟨_, _, rfl, h1, h2⟩
  · rintro ⟨u, v, rfl, h1, h2⟩; exact .cat h1 h2

theorem matches_star_cons {a : Re} {c : Nat} {w : List Nat} :
    Matches (.star a) (c :: w) ↔ ∃ u v, w = u ++ v ∧ Matches a (c :: u) ∧ Matches (.star a) v := by
  constructor
  · intro h
    generalize hx : c :: w = x at h
    generalize hr : Re.star a = r at h
    induction h with
    | @starCons a' u v h1 hne h2 _ ih2 =>
      cases hr
      cases u with
      | nil => exact absurd rfl hne
      | cons d u' =>
        simp at hx
        obtain ⟨rfl, rfl⟩ := hx
        exact ⟨u', v, rfl, h1, h2⟩
    | starNil => cases hx
    | eps => cases hr
    | set _ => cases hr
    | cat _ _ => cases hr
    | altL _ => cases hr
    | altR _ => cases hr
  · rintro ⟨u, v, rfl, h1, h2⟩
    exact Matches.starCons (u := c :: u) h1 (by simp) h2

theorem deriv_correct (c : Nat) (r : Re) (w : List Nat) :
    Matches (deriv c r) w ↔ Matches r (c :: w) := by
  induction r generalizing w with
  | empty => simp [deriv]; constructor <;> (intro h; cases h)
  | eps => simp [deriv]; constructor <;> (intro h; cases h)
  | set rs =>
    simp only [deriv]
    split
    · next h =>
      constructor
      · intro hm; cases hm; exact .set h
      · intro hm; cases hm; exact .eps
    · next h =>
      constructor
      · intro hm; cases hm
      · intro hm; cases hm with | set h' => exact absurd h' h
  | cat a b iha ihb =>
    have key : ∀ w, Matches (mkCat (deriv c a) b) w ↔ ∃ u v, w = u ++ v ∧ Matches a (c :: u) ∧ Matches b v := by
      intro w
      rw [matches_mkCat, matches_cat_iff]
      constructor
      · rintro ⟨u, v, rfl, h1, h2⟩; exact ⟨u, v, rfl, (iha u).1 h1, h2⟩
      · rintro ⟨u, v, rfl, h1, h2⟩; exact ⟨u, v, rfl, (iha u).2 h1, h2⟩
    simp only [deriv]
    split
    · next hn =>
      rw [matches_mkAlt, key, ihb, matches_cat_iff]
      constructor
      · rintro (⟨u, v, rfl, h1, h2⟩ | h)
        · exact ⟨c :: u, v, rfl, h1, h2⟩
        · exact ⟨[], c :: w, rfl, (nullable_iff a).1 hn, h⟩
      · rintro ⟨u, v, huv, h1, h2⟩
        cases u with
        | nil => simp at huv; subst huv; exact .inr h2
        | cons d u' =>
          simp at huv; obtain ⟨rfl, rfl⟩ := huv
          exact .inl ⟨u', v, rfl, h1, h2⟩
    · next hn =>
      rw [key, matches_cat_iff]
      constructor
      · rintro ⟨u, v, rfl, h1, h2⟩; exact ⟨c :: u, v, rfl, h1, h2⟩
      · rintro ⟨u, v, huv, h1, h2⟩
        cases u with
        | nil => exact absurd ((nullable_iff a).2 h1) hn
        | cons d u' =>
          simp at huv; obtain ⟨rfl, rfl⟩ := huv
          exact ⟨u', v, rfl, h1, h2⟩
  | alt a b iha ihb =>
    simp only [deriv]
    rw [matches_mkAlt, iha, ihb]
    constructor
    · rintro (h | h); exact .altL h; exact .altR h
    · intro h; cases h with
      | altL h => exact .inl h
      | altR h => exact .inr h
  | star a iha =>
    simp only [deriv]
    rw [matches_mkCat, matches_cat_iff, matches_star_cons]
    constructor
    · rintro ⟨u, v, rfl, h1, h2⟩; exact ⟨u, v, rfl, (iha u).1 h1, h2⟩
    · rintro ⟨u, v, rfl, h1, h2⟩; exact ⟨u, v, rfl, (iha u).2 h1, h2⟩

end Logos

namespace Logos

def viable : Re → Bool
  | .empty => false
  | .eps => true
  | .set rs => rs.any fun (lo, hi) => decide (lo ≤ hi)
  | .cat a b => viable a && viable b
  | .alt a b => viable a || viable b
  | .star _ => true

theorem viable_iff (r : Re) : viable r = true ↔ ∃ w, Matches r w := by
  induction r with
  | empty => simp [viable]; intro w h; cases h
  | eps => simp [viable]; exact ⟨[], .eps⟩
  | set rs =>
    simp only [viable, List.any_eq_true]
    constructor
    · rintro ⟨⟨lo, hi⟩, hm, hle⟩
      refine ⟨[lo], .set ?_⟩
      simp only [inRanges, List.any_eq_true]
      exact ⟨(lo, hi), hm, by simpa using hle⟩
    · rintro ⟨w, h⟩
      cases h with
      | set hb =>
        simp only [inRanges, List.any_eq_true] at hb
        obtain ⟨⟨lo, hi⟩, hm, hle⟩ := hb
        refine ⟨(lo, hi), hm, ?_⟩
        simp at hle ⊢; exact Nat.le_trans hle.1 hle.2
  | cat a b iha ihb =>
    simp only [viable, Bool.and_eq_true, iha, ihb]
    constructor
    · rintro ⟨⟨u, hu⟩, ⟨v, hv⟩⟩; exact ⟨u ++ v, .cat hu hv⟩
    · rintro ⟨w, h⟩; cases h with | cat h1 h2 => exact ⟨⟨_, h1⟩, ⟨_, h2⟩⟩
  | alt a b iha ihb =>
    simp only [viable, Bool.or_eq_true, iha, ihb]
    constructor
    · rintro (⟨w, h⟩ | ⟨w, h⟩); exact ⟨w, .altL h⟩; exact ⟨w, .altR h⟩
    · rintro ⟨w, h⟩; cases h with
      | altL h => exact .inl ⟨w, h⟩
      | altR h => exact .inr ⟨w, h⟩
  | star a _ => simp [viable]; exact ⟨[], .starNil⟩

theorem nullable_viable {r : Re} (h : nullable r = true) : viable r = true :=
  (viable_iff r).2 ⟨[], (nullable_iff r).1 h⟩

theorem deriv_not_viable {r : Re} {c : Nat} (h : viable r = false) : viable (deriv c r) = false := by
  cases hv : viable (deriv c r) with
  | false => rfl
  | true =>
    obtain ⟨w, hw⟩ := (viable_iff _).1 hv
    have : viable r = true := (viable_iff r).2 ⟨c :: w, (deriv_correct c r w).1 hw⟩
    rw [h] at this; cases this

end Logos
