import LogosModel.PartialSafe
/-!
# C07, last clause: feeding the input in arbitrary chunks reproduces the one-shot token stream

"... so feeding the input in arbitrary chunks and finishing with an ordinary lexer reproduces the one-shot token stream."

A *schedule* is a list of buffer lengths `k₁, k₂, ..` (the buffer grows from one entry to the next; nothing is said about
how much).  `feed` lexes `S.take k₁` with a partial lexer from the current position until it answers `None`, takes the
position it reports (`span().start` at `None`: `book/src/partial.md`, `examples/json_reader.rs`), goes on over
`S.take k₂` from there, .. and finishes with an ordinary lexer over the whole of `S`.

`C07_chunked_feeding`: for every well-formed graph, every input, **every schedule** and every start position inside the
first buffer, the concatenation of what the partial lexers yielded and what the final ordinary lexer yields is the
one-shot lexing of `S` from that position (for `pos = 0`: `graphLex G false cb utf8 S`).  For str lexers every cut has to
be on a char boundary (a `&str` buffer cannot end anywhere else).
-/
namespace Logos

/-- chunked feeding: partial lexers over growing prefixes, then an ordinary lexer over everything -/
def feed (G : Graph) (cb : Callbacks) (utf8 : Bool) (S : List Nat) : List Nat → Nat → List Item × Final
  | [], pos => lexFrom (walkAttempt G false S) cb utf8 S (S.length + 2) pos
  | k :: ks, pos =>
    match lexFrom (walkAttempt G true (S.take k)) cb utf8 (S.take k) ((S.take k).length + 2) pos with
    | (items, .done q _) =>
      let r := feed G cb utf8 S ks q
      (items ++ r.1, r.2)
    | (items, f) => (items, f)

/-- a schedule the buffer lengths of which do not shrink, stay inside the input and are char boundaries of a str -/
def ScheduleOK (utf8 : Bool) (S : List Nat) : Nat → List Nat → Prop
  | _, [] => True
  | lo, k :: ks => lo ≤ k ∧ k ≤ S.length ∧ (utf8 = true → isBoundary S k = true) ∧ ScheduleOK utf8 S k ks

theorem take_append_drop_len (S : List Nat) (k : Nat) (hk : k ≤ S.length) :
    S.take k ++ S.drop k = S ∧ (S.take k).length = k := by
  refine ⟨List.take_append_drop k S, ?_⟩
  simp [List.length_take, Nat.min_eq_left hk]

theorem feed_eq_oneshot {G : Graph} (hwf : WF G) (cb : Callbacks) (hnb : NoBump cb)
    (hcb : ∀ l s r r', cb l s r = cb l s r') (utf8 : Bool) (S : List Nat) (hb : ∀ b ∈ S, b < 256) :
    ∀ (ks : List Nat) (pos lo : Nat), pos ≤ lo → lo ≤ S.length → ScheduleOK utf8 S lo ks →
      feed G cb utf8 S ks pos = lexFrom (walkAttempt G false S) cb utf8 S (S.length + 2) pos := by
  intro ks
  induction ks with
  | nil => intro pos lo _ _ _; rfl
  | cons k ks ih =>
    intro pos lo hpos hlo hs
    obtain ⟨h1, h2, h3, h4⟩ := hs
    obtain ⟨hcat, hlen⟩ := take_append_drop_len S k h2
    have hbpre : ∀ b ∈ S.take k, b < 256 := fun b hbm => hb b (List.mem_of_mem_take hbm)
    have hposk : pos ≤ (S.take k).length := by omega
    obtain ⟨items, q, hrun⟩ := ps_lexFrom_ok_true hwf cb hnb utf8 (S.take k) hbpre
      ((S.take k).length + 2) pos hposk (by omega)
    have hb' : ∀ b ∈ S.take k ++ S.drop k, b < 256 := by rw [hcat]; exact hb
    have hbnd : utf8 = true → isBoundary (S.take k ++ S.drop k) (S.take k).length = true := by
      rw [hcat, hlen]; exact h3
    obtain ⟨_, hq, hsim⟩ := ps_lexFrom_sim hwf cb hnb hcb utf8 (S.take k) (S.drop k) hb' hbnd
      ((S.take k).length + 2) pos items q q hposk hrun
    rw [hcat] at hsim
    rw [hlen] at hq
    have hone := hsim (S.length + 2) (by omega)
    unfold feed
    rw [hrun]
    simp only
    rw [ih q k hq h2 h4, hone]

/-- **C07 (chunked feeding).** Partial lexers over any schedule of growing buffers, finished by an ordinary lexer,
yield together exactly the one-shot token stream. -/
theorem C07_chunked_feeding {G : Graph} (hwf : WF G) (cb : Callbacks) (hnb : NoBump cb)
    (hcb : ∀ l s r r', cb l s r = cb l s r') (utf8 : Bool) (S : List Nat) (hb : ∀ b ∈ S, b < 256)
    (ks : List Nat) (hs : ScheduleOK utf8 S 0 ks) :
    feed G cb utf8 S ks 0 = graphLex G false cb utf8 S := by
  unfold graphLex lexAll
  exact feed_eq_oneshot hwf cb hnb hcb utf8 S hb ks 0 0 (Nat.le_refl _) (Nat.zero_le _) hs

end Logos
