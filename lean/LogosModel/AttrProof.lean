import LogosModel.Attr
/-!
# C18: named arguments may be given in any order
-/
namespace Logos.Attr

/-- generic well-formed attribute items, as they appear in `#[token]`, `#[regex]`, `skip(...)` and
`#[logos(...)]` -/
inductive AItem where
  | assign (name : String) (v : List Tok)            -- `name = tokens`
  | group (name : String) (g : Nat)                  -- `name(...)`
  | lit (name : String) (p : Nat)                    -- `name "literal"`
  | keyword (kw name : String) (v : List Tok)        -- `kw name = tokens`
deriving Repr, DecidableEq

def AItem.ok : AItem → Bool
  | .assign _ v => valueOK v
  | .group _ _ => true
  | .lit _ _ => true
  | .keyword _ _ v => valueOK v

def AItem.render : AItem → List Tok
  | .assign n v => [.ident n, eqTok] ++ v
  | .group n g => [.ident n, .group g]
  | .lit n p => [.ident n, .lit p]
  | .keyword kw n v => [.ident kw, .ident n, eqTok] ++ v

def AItem.toNested : AItem → Nested
  | .assign n v => .named n (.assign v)
  | .group n g => .named n (.group g)
  | .lit n p => .named n (.literal (.lit p))
  | .keyword kw n v => .named kw (.keywordAssign n v)

def renderItems : List AItem → List Tok
  | [] => []
  | [a] => a.render
  | a :: rest => a.render ++ [comma] ++ renderItems rest


/-! ### helper lemmas -/

theorem allNested_unfold (c : Bool) (ts : List Tok) :
    allNested c ts = match nextNested c ts with
      | none => []
      | some (n, rest) => n :: allNested c rest := by
  rw [allNested]
  split <;> simp_all

@[simp] theorem isComma_comma : isComma comma = true := by decide
@[simp] theorem isComma_eqTok : isComma eqTok = false := by decide
@[simp] theorem isEq_eqTok : isEq eqTok = true := by decide
@[simp] theorem isComma_ident (s : String) : isComma (.ident s) = false := rfl
@[simp] theorem isComma_lit (p : Nat) : isComma (.lit p) = false := rfl
@[simp] theorem isComma_group (p : Nat) : isComma (.group p) = false := rfl
@[simp] theorem isAssign_eqTok (n : Option Tok) : isAssign eqTok n = true := by simp [isAssign, eqTok]
@[simp] theorem isAssign_ident (s : String) (n : Option Tok) : isAssign (.ident s) n = false := rfl
@[simp] theorem isAssign_lit (p : Nat) (n : Option Tok) : isAssign (.lit p) n = false := rfl
@[simp] theorem isAssign_group (p : Nat) (n : Option Tok) : isAssign (.group p) n = false := rfl
@[simp] theorem isEq_ident (s : String) : isEq (.ident s) = false := rfl
@[simp] theorem isEq_lit (p : Nat) : isEq (.lit p) = false := rfl
@[simp] theorem isEq_group (p : Nat) : isEq (.group p) = false := rfl
@[simp] theorem collectTail_comma (rest : List Tok) : collectTail (comma :: rest) = ([], rest) := by
  simp [collectTail]
@[simp] theorem collectTail_nil : collectTail [] = ([], []) := rfl

theorem collectTail_append (v rest : List Tok) (hv : v.all (fun t => !isComma t) = true) :
    collectTail (v ++ comma :: rest) = (v, rest) := by
  induction v with
  | nil => simp
  | cons t v ih =>
    simp only [List.all_cons, Bool.and_eq_true, Bool.not_eq_true'] at hv
    simp [collectTail, hv.1, ih hv.2]

theorem collectTail_end (v : List Tok) (hv : v.all (fun t => !isComma t) = true) :
    collectTail v = (v, []) := by
  induction v with
  | nil => simp [collectTail]
  | cons t v ih =>
    simp only [List.all_cons, Bool.and_eq_true, Bool.not_eq_true'] at hv
    simp [collectTail, hv.1, ih hv.2]

theorem valueOK_all {v : List Tok} (h : valueOK v = true) : v.all (fun t => !isComma t) = true := by
  simp only [valueOK, Bool.and_eq_true] at h
  exact h.2

theorem nextNested_step (a : AItem) (ha : a.ok = true) (rest : List Tok) :
    nextNested true (a.render ++ comma :: rest) = some (a.toNested, rest) := by
  cases a with
  | assign n v =>
    have hv := valueOK_all ha
    simp [AItem.render, AItem.toNested, nextNested, nextTt, collectTail_append v rest hv]
  | group n g =>
    simp [AItem.render, AItem.toNested, nextNested, nextTt]
  | lit n p =>
    simp [AItem.render, AItem.toNested, nextNested, nextTt]
  | keyword kw n v =>
    have hv := valueOK_all ha
    simp [AItem.render, AItem.toNested, nextNested, nextTt, collectTail_append v rest hv]

theorem nextNested_step_end (a : AItem) (ha : a.ok = true) :
    nextNested true a.render = some (a.toNested, []) := by
  cases a with
  | assign n v =>
    have hv := valueOK_all ha
    simp [AItem.render, AItem.toNested, nextNested, nextTt, collectTail_end v hv]
  | group n g =>
    simp [AItem.render, AItem.toNested, nextNested, nextTt]
  | lit n p =>
    simp [AItem.render, AItem.toNested, nextNested, nextTt]
  | keyword kw n v =>
    have hv := valueOK_all ha
    simp [AItem.render, AItem.toNested, nextNested, nextTt, collectTail_end v hv]

theorem allNested_nil (c : Bool) : allNested c [] = [] := by
  rw [allNested_unfold]; simp [nextNested]

/-- **The repaired tokenizer reads back exactly the items that were written**, whatever their order
(in particular a `name(...)` item may be followed by further items). -/
theorem allNested_render (items : List AItem) (hok : ∀ a ∈ items, a.ok = true) :
    allNested true (renderItems items) = items.map AItem.toNested := by
  induction items with
  | nil => simp [renderItems, allNested_nil]
  | cons a items ih =>
    have ha : a.ok = true := hok a (by simp)
    have ih' := ih (fun b hb => hok b (by simp [hb]))
    cases items with
    | nil =>
      rw [allNested_unfold]
      simp [renderItems, nextNested_step_end a ha, allNested_nil]
    | cons b rest =>
      rw [allNested_unfold]
      have : renderItems (a :: b :: rest) = a.render ++ comma :: renderItems (b :: rest) := by
        simp [renderItems]
      rw [this, nextNested_step a ha]
      simp [ih']

/-- the same with a trailing comma -/
theorem allNested_render_trailing (items : List AItem) (hok : ∀ a ∈ items, a.ok = true) (hne : items ≠ []) :
    allNested true (renderItems items ++ [comma]) = items.map AItem.toNested := by
  induction items with
  | nil => exact absurd rfl hne
  | cons a items ih =>
    have ha : a.ok = true := hok a (by simp)
    cases items with
    | nil =>
      rw [allNested_unfold]
      have : renderItems [a] ++ [comma] = a.render ++ comma :: [] := by simp [renderItems]
      rw [this, nextNested_step a ha]
      simp [allNested_nil]
    | cons b rest =>
      have ih' := ih (fun b hb => hok b (by simp [hb])) (by simp)
      rw [allNested_unfold]
      have : renderItems (a :: b :: rest) ++ [comma]
          = a.render ++ comma :: (renderItems (b :: rest) ++ [comma]) := by
        simp [renderItems]
      rw [this, nextNested_step a ha]
      simp [ih']


/-! ### from `Arg` to `AItem`, and the fold of `namedAttr` -/

def Arg.toItem : Arg → AItem
  | .priority v => .assign "priority" v
  | .callback v => .assign "callback" v
  | .ignore g => .group "ignore" g
  | .allowGreedy v => .assign "allow_greedy" v

theorem Arg.toItem_render (a : Arg) : a.toItem.render = a.render := by
  cases a <;> rfl

theorem Arg.toItem_ok (a : Arg) (h : a.ok = true) : a.toItem.ok = true := by
  cases a <;> simp_all [Arg.toItem, AItem.ok, Arg.ok]

theorem renderArgs_eq (args : List Arg) : renderArgs args = renderItems (args.map Arg.toItem) := by
  induction args with
  | nil => rfl
  | cons a args ih =>
    cases args with
    | nil => simp [renderArgs, renderItems, Arg.toItem_render]
    | cons b rest =>
      have h1 : renderArgs (a :: b :: rest) = a.render ++ [comma] ++ renderArgs (b :: rest) := by
        simp [renderArgs]
      have h2 : renderItems ((a :: b :: rest).map Arg.toItem)
          = a.toItem.render ++ [comma] ++ renderItems ((b :: rest).map Arg.toItem) := by
        simp [renderItems]
      rw [h1, h2, ih, Arg.toItem_render]

/-- the effect of one well-formed named argument on the definition -/
def Arg.apply (d : Definition) : Arg → Definition
  | .priority v =>
    { d with priority := some v, errors := if d.priority.isSome then d.errors ++ [.dupPriority] else d.errors }
  | .callback v =>
    { d with callback := some v, errors := if d.callback.isSome then d.errors ++ [.dupCallback] else d.errors }
  | .ignore g => { d with ignoreGroups := d.ignoreGroups ++ [g] }
  | .allowGreedy v =>
    { d with allowGreedy := some v,
             errors := if d.allowGreedy.isSome then d.errors ++ [.dupAllowGreedy] else d.errors }

theorem applyNested_toItem (d : Definition) (pos : Nat) (a : Arg) :
    applyNested d pos a.toItem.toNested = Arg.apply d a := by
  cases a <;> simp [Arg.toItem, AItem.toNested, applyNested, namedAttr, Arg.apply]

theorem applyAll_toItem (args : List Arg) (d : Definition) (pos : Nat) :
    applyAll d pos ((args.map Arg.toItem).map AItem.toNested) = args.foldl Arg.apply d := by
  induction args generalizing d pos with
  | nil => rfl
  | cons a args ih =>
    simp only [List.map_cons, applyAll, applyNested_toItem, List.foldl_cons]
    exact ih _ _

theorem parseArgs_render (args : List Arg) (hok : ∀ a ∈ args, a.ok = true) :
    parseArgs true (renderArgs args) = args.foldl Arg.apply {} := by
  unfold parseArgs
  rw [renderArgs_eq, allNested_render, applyAll_toItem]
  intro a ha
  obtain ⟨b, hb, rfl⟩ := List.mem_map.1 ha
  exact Arg.toItem_ok b (hok b hb)

def countName (args : List Arg) (n : String) : Nat := (args.filter fun a => a.name == n).length

/-- arguments given at most once each (`ignore(...)` may repeat: its flags are OR-ed) -/
def DupFree (args : List Arg) : Prop :=
  countName args "priority" ≤ 1 ∧ countName args "callback" ≤ 1 ∧ countName args "allow_greedy" ≤ 1


theorem countName_cons (a : Arg) (args : List Arg) (n : String) :
    countName (a :: args) n = (if a.name == n then 1 else 0) + countName args n := by
  unfold countName
  rw [List.filter_cons]
  split <;> simp <;> omega

theorem fold_errors (args : List Arg) (d : Definition) :
    (args.foldl Arg.apply d).errors = [] ↔
      d.errors = [] ∧
      d.priority.isSome.toNat + countName args "priority" ≤ 1 ∧
      d.callback.isSome.toNat + countName args "callback" ≤ 1 ∧
      d.allowGreedy.isSome.toNat + countName args "allow_greedy" ≤ 1 := by
  induction args generalizing d with
  | nil => simp [countName]; cases d.priority <;> cases d.callback <;> cases d.allowGreedy <;> simp
  | cons a args ih =>
    rw [List.foldl_cons, ih]
    simp only [countName_cons]
    cases a <;> simp [Arg.apply, Arg.name]
    · cases d.priority <;> simp <;> omega
    · cases d.callback <;> simp <;> omega
    · cases d.allowGreedy <;> simp <;> omega

/-- **Acceptance does not depend on the order**: the parse reports an error iff some argument is
given twice — a condition on the multiset of arguments. -/
theorem parseArgs_errors_iff (args : List Arg) (hok : ∀ a ∈ args, a.ok = true) :
    (parseArgs true (renderArgs args)).errors = [] ↔ DupFree args := by
  rw [parseArgs_render args hok, fold_errors]
  simp [DupFree]

theorem countName_perm {a b : List Arg} (h : a.Perm b) (n : String) : countName a n = countName b n :=
  (h.filter _).length_eq

theorem dupFree_perm {a b : List Arg} (h : a.Perm b) : DupFree a ↔ DupFree b := by
  simp only [DupFree, countName_perm h]


/-! ### the canonical definition -/

theorem fold_canonical (args : List Arg) (d : Definition)
    (hnd : (args.map Arg.name).Nodup) (he : d.errors = [])
    (hp : d.priority.isSome = true → "priority" ∉ args.map Arg.name)
    (hc : d.callback.isSome = true → "callback" ∉ args.map Arg.name)
    (hg : d.allowGreedy.isSome = true → "allow_greedy" ∉ args.map Arg.name) :
    args.foldl Arg.apply d =
      { priority := d.priority.or (canonical args).priority
        callback := d.callback.or (canonical args).callback
        allowGreedy := d.allowGreedy.or (canonical args).allowGreedy
        ignoreGroups := d.ignoreGroups ++ (canonical args).ignoreGroups
        errors := [] } := by
  induction args generalizing d with
  | nil =>
    obtain ⟨p, c, g, i, e⟩ := d
    simp_all [canonical]
  | cons a args ih =>
    rw [List.map_cons, List.nodup_cons] at hnd
    obtain ⟨hna, hnd⟩ := hnd
    rw [List.foldl_cons]
    obtain ⟨p, c, g, i, e⟩ := d
    simp only at he hp hc hg
    subst he
    cases a with
    | priority v =>
      have hpn : p = none := by
        cases p with
        | none => rfl
        | some x => exact absurd (by simp [Arg.name]) (hp rfl)
      subst hpn
      rw [ih _ hnd] <;> simp_all [Arg.apply, canonical, Arg.name]
    | callback v =>
      have hpn : c = none := by
        cases c with
        | none => rfl
        | some x => exact absurd (by simp [Arg.name]) (hc rfl)
      subst hpn
      rw [ih _ hnd] <;> simp_all [Arg.apply, canonical, Arg.name]
    | ignore v =>
      rw [ih _ hnd] <;> simp_all [Arg.apply, canonical, Arg.name]
    | allowGreedy v =>
      have hpn : g = none := by
        cases g with
        | none => rfl
        | some x => exact absurd (by simp [Arg.name]) (hg rfl)
      subst hpn
      rw [ih _ hnd] <;> simp_all [Arg.apply, canonical, Arg.name]

theorem parseArgs_canonical (args : List Arg) (hok : ∀ a ∈ args, a.ok = true)
    (hnd : (args.map Arg.name).Nodup) : parseArgs true (renderArgs args) = canonical args := by
  rw [parseArgs_render args hok, fold_canonical args {} hnd rfl] <;> simp [canonical]

theorem findSome?_perm_of_names {β : Type} (f : Arg → Option β)
    (hf : ∀ x y, (f x).isSome = true → (f y).isSome = true → x.name = y.name)
    {l l' : List Arg} (h : l.Perm l') (hnd : (l.map Arg.name).Nodup) :
    l.findSome? f = l'.findSome? f := by
  induction h with
  | nil => rfl
  | cons x _ ih =>
    rw [List.map_cons, List.nodup_cons] at hnd
    simp [List.findSome?_cons, ih hnd.2]
  | swap x y l =>
    have hxy : y.name ≠ x.name := by
      intro h; simp [h] at hnd
    have hf' := hf y x
    simp only [List.findSome?_cons]
    cases hx : f x <;> cases hy : f y <;> simp_all
  | trans h1 _ ih1 ih2 =>
    rw [ih1 hnd, ih2 ((h1.map _).nodup_iff.1 hnd)]

theorem filterMap_perm_of_names {β : Type} (f : Arg → Option β)
    (hf : ∀ x y, (f x).isSome = true → (f y).isSome = true → x.name = y.name)
    {l l' : List Arg} (h : l.Perm l') (hnd : (l.map Arg.name).Nodup) :
    l.filterMap f = l'.filterMap f := by
  induction h with
  | nil => rfl
  | cons x _ ih =>
    rw [List.map_cons, List.nodup_cons] at hnd
    simp [List.filterMap_cons, ih hnd.2]
  | swap x y l =>
    have hxy : y.name ≠ x.name := by
      intro h; simp [h] at hnd
    have hf' := hf y x
    simp only [List.filterMap_cons]
    cases hx : f x <;> cases hy : f y <;> simp_all
  | trans h1 _ ih1 ih2 =>
    rw [ih1 hnd, ih2 ((h1.map _).nodup_iff.1 hnd)]

theorem canonical_perm {l l' : List Arg} (h : l.Perm l') (hnd : (l.map Arg.name).Nodup) :
    canonical l = canonical l' := by
  unfold canonical
  congr 1
  · apply findSome?_perm_of_names _ _ h hnd
    intro x y; cases x <;> cases y <;> simp [Arg.name]
  · apply findSome?_perm_of_names _ _ h hnd
    intro x y; cases x <;> cases y <;> simp [Arg.name]
  · apply findSome?_perm_of_names _ _ h hnd
    intro x y; cases x <;> cases y <;> simp [Arg.name]
  · apply filterMap_perm_of_names _ _ h hnd
    intro x y; cases x <;> cases y <;> simp [Arg.name]

/-- **C18, named arguments in any order.** For well-formed arguments, each of `priority`, `callback`,
`allow_greedy` given at most once and `ignore(...)` at most once, every permutation parses to the
same `Definition` (which is the order-independent `canonical` one, without errors). -/
theorem named_args_perm (args args' : List Arg) (hok : ∀ a ∈ args, a.ok = true)
    (hnd : (args.map Arg.name).Nodup) (hp : args.Perm args') :
    parseArgs true (renderArgs args') = parseArgs true (renderArgs args) ∧
    parseArgs true (renderArgs args) = canonical args := by
  have hok' : ∀ a ∈ args', a.ok = true := fun a ha => hok a (hp.mem_iff.2 ha)
  have hnd' : (args'.map Arg.name).Nodup := (hp.map _).nodup_iff.1 hnd
  rw [parseArgs_canonical args hok hnd, parseArgs_canonical args' hok' hnd',
    canonical_perm hp hnd]
  exact ⟨rfl, rfl⟩

/-- **The code as found violates C18** (defect D5: `parse_group` left the separator behind): `ignore(case), priority = 3`
and `priority = 3, ignore(case)` parse differently - the first reports the comma as an unexpected token (with the empty
argument check of D12 in place; before it, the comma and everything behind it became a positional callback and the
priority was lost), the second reports nothing. -/
theorem group_then_assign_counterexample :
    parseArgs false (renderArgs [.ignore 0, .priority [.lit 3]]) ≠
      parseArgs false (renderArgs [.priority [.lit 3], .ignore 0]) := by
  have step : ∀ {c ts n rest}, nextNested c ts = some (n, rest) →
      allNested c ts = n :: allNested c rest := by
    intro c ts n rest h
    rw [allNested_unfold, h]
  have e1 : allNested false (renderArgs [.ignore 0, .priority [.lit 3]]) =
      [.named "ignore" (.group 0), .unexpected [comma], .named "priority" (.assign [.lit 3])] := by
    rw [step (n := .named "ignore" (.group 0)) (rest := [comma, .ident "priority", eqTok, .lit 3])
          (by simp [renderArgs, Arg.render, nextNested, nextTt]),
        step (n := .unexpected [comma]) (rest := [.ident "priority", eqTok, .lit 3])
          (by simp [nextNested, comma, isComma]),
        step (n := .named "priority" (.assign [.lit 3])) (rest := [])
          (by simp [nextNested, nextTt, collectTail]),
        allNested_nil]
  have e2 : allNested false (renderArgs [.priority [.lit 3], .ignore 0]) =
      [.named "priority" (.assign [.lit 3]), .named "ignore" (.group 0)] := by
    rw [step (n := .named "priority" (.assign [.lit 3])) (rest := [.ident "ignore", .group 0])
          (by simp [renderArgs, Arg.render, nextNested, nextTt, collectTail]),
        step (n := .named "ignore" (.group 0)) (rest := [])
          (by simp [nextNested, nextTt]),
        allNested_nil]
  intro h
  have h2 := congrArg Definition.errors h
  simp [parseArgs, e1, e2, applyAll, applyNested, namedAttr] at h2

/-! ### blanks between tokens (defects D12, D13) -/

/-- `name=<punctuation>..` written without blanks: the `=` is `Joint`, and still assigns -/
theorem tight_assign_example :
    allNested true [.ident "callback", .punct '=' false, .punct '|' true, .ident "lex", .punct '|' true, .ident "f"]
      = [.named "callback" (.assign [.punct '|' true, .ident "lex", .punct '|' true, .ident "f"])] := by
  rw [allNested_unfold]
  simp [nextNested, nextTt, isAssign, isComma, collectTail, allNested_nil]

/-- `==` and `=>` do not assign -/
theorem eqeq_does_not_assign :
    isAssign (.punct '=' false) (some (.punct '=' true)) = false ∧ isAssign (.punct '=' false) (some (.punct '>' true)) = false := by
  simp [isAssign]

/-- an argument left empty is reported, and what follows it is read as the next argument -/
theorem empty_argument_example :
    allNested true [comma, .ident "priority", eqTok, .lit 3]
      = [.unexpected [comma], .named "priority" (.assign [.lit 3])] := by
  rw [allNested_unfold]
  simp [nextNested, isComma, comma]
  rw [allNested_unfold]
  simp [nextNested, nextTt, collectTail, allNested_nil]

/-- the spacing of a comma means nothing: a `Joint` comma ends a value like an `Alone` one -/
theorem joint_comma_separates (v rest : List Tok) :
    collectTail (.punct ',' false :: rest) = ([], rest) := by
  simp [collectTail, isComma]

end Logos.Attr
