import LogosModel.LexProof
import LogosModel.SpecProof
import LogosModel.WfProof
/-!
# C04: spans never split a UTF-8 code point
-/
namespace Logos


theorem take_drop_slice (inp : List Nat) (start e : Nat) :
    (inp.drop start).take (e - start) = (inp.take e).drop start := by
  rw [List.drop_take]

/-- a match found at a boundary of a valid input ends on a boundary -/
theorem matched_boundary {G : Graph} {prios : List Nat} {D : Vec} {C : Nat → Vec → Prop}
    (hv : Valid G prios D C) (hlen : prios.length = D.length)
    (hutf : ∀ r ∈ D, ∀ w, Matches r w → validUtf8 w = true)
    (inp : List Nat) (hb : ∀ b ∈ inp, b < 256) (hvalid : validUtf8 inp = true)
    (start l e : Nat) (hs : isBoundary inp start = true)
    (h : walkAttempt G false inp start = .matched l e) :
    start < e ∧ e ≤ inp.length ∧ isBoundary inp e = true := by
  obtain ⟨h1, h2⟩ := walkAttempt_matched_bounds hv.wf inp hb start l e h
  refine ⟨h1, h2, ?_⟩
  rw [attempt_eq hv inp hb start] at h
  have hne : ¬ AnyMatch D [] := (win_none hlen).1 hv.noEmpty
  unfold scanAttempt at h
  split at h
  · cases h
  · next rest hrest =>
    split at h
    · next e' l' off hscan =>
      simp only [Attempt.matched.injEq] at h
      obtain ⟨rfl, rfl⟩ := h
      obtain ⟨_, _, ⟨⟨r, hr, hm⟩, _⟩, _⟩ := scan_some hlen hne _ start e' l' off hscan
      have hmem : r ∈ D := List.mem_iff_getElem?.2 ⟨_, hr⟩
      have hval := hutf r hmem _ hm
      rw [take_drop_slice] at hval
      exact match_end_is_boundary inp hvalid start e' (by omega) h2 hs hval
    · cases h

theorem nextLoop_boundary {G : Graph} {prios : List Nat} {D : Vec} {C : Nat → Vec → Prop}
    (hv : Valid G prios D C) (hlen : prios.length = D.length)
    (hutf : ∀ r ∈ D, ∀ w, Matches r w → validUtf8 w = true)
    (cb : Callbacks) (hcb : NoBump cb) (inp : List Nat) (hb : ∀ b ∈ inp, b < 256)
    (hvalid : validUtf8 inp = true) :
    ∀ (fuel start : Nat), start ≤ inp.length → isBoundary inp start = true →
      ∀ it, nextLoop (walkAttempt G false inp) cb true inp fuel start = .item it →
        isBoundary inp it.start = true ∧ isBoundary inp it.stop = true ∧ it.stop ≤ inp.length := by
  intro fuel
  induction fuel with
  | zero => intro start _ _ it h; simp [nextLoop] at h
  | succ n ih =>
    intro start hs hbd it h
    unfold nextLoop at h
    cases hatt : walkAttempt G false inp start with
    | eoi => rw [hatt] at h; simp at h
    | needMore => rw [hatt] at h; simp at h
    | diverge => rw [hatt] at h; simp at h
    | «nomatch» off =>
      rw [hatt] at h
      obtain ⟨h1, h2, h3⟩ := walkAttempt_nomatch_bounds hv.wf inp hb start off hatt
      have he0 : max off (start + 1) ≤ inp.length := by omega
      obtain ⟨j, hj1, hj2, hj3, hj4, _⟩ := findBoundary_spec inp _ he0
      simp [hj1] at h
      subst h
      exact ⟨hbd, hj4, hj3⟩
    | matched l te =>
      rw [hatt] at h
      obtain ⟨h1, h2, h3⟩ := matched_boundary hv hlen hutf inp hb hvalid start l te hbd hatt
      have hbump : (cb l (slice inp start te) (List.drop te inp)).bump = 0 := hcb _ _ _
      simp only [hbump, Nat.add_zero] at h
      cases hact : (cb l (slice inp start te) (List.drop te inp)).act with
      | emit =>
        rw [hact] at h; simp at h; subst h
        exact ⟨hbd, h3, h2⟩
      | skip =>
        rw [hact] at h
        exact ih te h2 h3 it h
      | errDefault =>
        rw [hact] at h; simp at h; subst h
        exact ⟨hbd, h3, h2⟩
      | errCustom t =>
        rw [hact] at h; simp at h; subst h
        exact ⟨hbd, h3, h2⟩

theorem lexFrom_boundary {G : Graph} {prios : List Nat} {D : Vec} {C : Nat → Vec → Prop}
    (hv : Valid G prios D C) (hlen : prios.length = D.length)
    (hutf : ∀ r ∈ D, ∀ w, Matches r w → validUtf8 w = true)
    (cb : Callbacks) (hcb : NoBump cb) (inp : List Nat) (hb : ∀ b ∈ inp, b < 256)
    (hvalid : validUtf8 inp = true) :
    ∀ (fuel pos : Nat), pos ≤ inp.length → isBoundary inp pos = true →
      ∀ it ∈ (lexFrom (walkAttempt G false inp) cb true inp fuel pos).1,
        isBoundary inp it.start = true ∧ isBoundary inp it.stop = true := by
  intro fuel
  induction fuel with
  | zero => intro pos _ _ it h; simp [lexFrom] at h
  | succ n ih =>
    intro pos hp hbd it h
    unfold lexFrom at h
    cases hnl : nextLoop (walkAttempt G false inp) cb true inp (inp.length + 2) pos with
    | item it0 =>
      rw [hnl] at h
      obtain ⟨k1, k2, k3⟩ := nextLoop_boundary hv hlen hutf cb hcb inp hb hvalid _ pos hp hbd it0 hnl
      simp only [List.mem_cons] at h
      rcases h with rfl | h
      · exact ⟨k1, k2⟩
      · exact ih it0.stop k3 k2 it h
    | none s e => rw [hnl] at h; simp at h
    | diverge => rw [hnl] at h; simp at h

/-- **C04.** For a definition validated against its graph, whose patterns can only match valid UTF-8,
and a valid UTF-8 input: every item boundary produced by the str-mode lexer (tokens, errors, and the
positions reached after skips) is a char boundary of the input, so `slice()`/`remainder()` are
defined. -/
theorem spans_on_boundaries {G : Graph} {prios : List Nat} {D : Vec} {C : Nat → Vec → Prop}
    (hv : Valid G prios D C) (hlen : prios.length = D.length)
    (hutf : ∀ r ∈ D, ∀ w, Matches r w → validUtf8 w = true)
    (cb : Callbacks) (hcb : NoBump cb) (inp : List Nat) (hb : ∀ b ∈ inp, b < 256)
    (hvalid : validUtf8 inp = true) :
    ∀ it ∈ (graphLex G false cb true inp).1,
      isBoundary inp it.start = true ∧ isBoundary inp it.stop = true := by
  unfold graphLex lexAll
  exact lexFrom_boundary hv hlen hutf cb hcb inp hb hvalid (inp.length + 2) 0 (Nat.zero_le _)
    (by simp [isBoundary])

end Logos
