import LogosModel.Equiv
import LogosModel.Utf8Closed
import Std.Data.HashSet
/-!
# Hash-set versions of the closure checkers

The proved checkers `equivB`, `tieFreeB`, `utf8ClosedB` test membership in the candidate closure with
`List.contains`, which is quadratic in the size of the closure.  The versions below build a
`Std.HashSet` from the list once and are proved *equal* to the list versions, so every soundness
theorem transfers verbatim.
-/
namespace Logos

def equivBFast (S : List (Re × Re)) (r s : Re) : Bool :=
  let H := Std.HashSet.ofList S
  bytesOK r && bytesOK s && H.contains (norm r, norm s) &&
  S.all fun p =>
    (nullable p.1 == nullable p.2) &&
    (List.range 256).all fun c => H.contains (derivN c p.1, derivN c p.2)

theorem equivBFast_eq (S : List (Re × Re)) (r s : Re) : equivBFast S r s = equivB S r s := by
  simp only [equivBFast, equivB, Std.HashSet.contains_ofList]

theorem equivBFast_sound {S : List (Re × Re)} {r s : Re} (h : equivBFast S r s = true) :
    ∀ w, Matches r w ↔ Matches s w :=
  equivB_sound (by rw [← equivBFast_eq]; exact h)

def tieFreeBFast (S : List Vec) (prios : List Nat) (D : Vec) : Bool :=
  let H := Std.HashSet.ofList S
  D.all bytesOK && H.contains D &&
  S.all fun Δ =>
    !tieAt prios Δ &&
    (List.range 256).all fun b => !viableV (derivV b Δ) || H.contains (derivV b Δ)

theorem tieFreeBFast_eq (S : List Vec) (prios : List Nat) (D : Vec) : tieFreeBFast S prios D = tieFreeB S prios D := by
  simp only [tieFreeBFast, tieFreeB, Std.HashSet.contains_ofList]

theorem tieFreeBFast_sound {S : List Vec} {prios : List Nat} {D : Vec} (h : tieFreeBFast S prios D = true) :
    ∀ w, ¬ Tie prios D w :=
  tieFreeB_sound (by rw [← tieFreeBFast_eq]; exact h)

instance : Hashable U where
  hash u := match u with
    | .s0 => 0 | .c1 => 1 | .c2 => 2 | .c3 => 3 | .e0 => 4 | .ed => 5 | .f0 => 6 | .f4 => 7 | .dead => 8

def utf8ClosedBFast (S : List (U × Re)) (r : Re) : Bool :=
  let H := Std.HashSet.ofList S
  bytesOK r && H.contains (.s0, norm r) && S.all fun p =>
    (!nullable p.2 || p.1 == .s0) &&
    (List.range 256).all fun b => !viable (derivN b p.2) || H.contains (ustep p.1 b, derivN b p.2)

theorem utf8ClosedBFast_eq (S : List (U × Re)) (r : Re) : utf8ClosedBFast S r = utf8ClosedB S r := by
  simp only [utf8ClosedBFast, utf8ClosedB, stepOK, Std.HashSet.contains_ofList]

theorem utf8ClosedBFast_sound {S : List (U × Re)} {r : Re} (h : utf8ClosedBFast S r = true) :
    ∀ w, Matches r w → validUtf8 w = true :=
  utf8ClosedB_sound (by rw [← utf8ClosedBFast_eq]; exact h)

end Logos
