import LogosModel.NormProof
/-!
# Reference lexer for one match attempt, by derivatives

`Vec` is the vector of the leaves' (derivative) regexes; `prios` their priorities.  `scan` reads the
input left to right, keeps the best record `(end, leaf)` and stops as soon as no leaf can match any
extension of what was read.  Its meaning in terms of `Matches` is proved in `SpecProof.lean`.
-/
namespace Logos

abbrev Vec := List Re
def derivV (b : Nat) (Δ : Vec) : Vec := Δ.map (derivN b)
def viableV (Δ : Vec) : Bool := Δ.any viable

def winGo (i : Nat) : List Nat → Vec → Option (Nat × Nat) → Option (Nat × Nat)
  | p :: ps, r :: rs, acc =>
    let acc' := if nullable r then
        match acc with
        | some (_, q) => if q < p then some (i, p) else acc
        | none => some (i, p)
      else acc
    winGo (i+1) ps rs acc'
  | _, _, acc => acc

/-- index of the first nullable component of maximal priority -/
def win (prios : List Nat) (Δ : Vec) : Option Nat := (winGo 0 prios Δ none).map (·.1)

abbrev Rec := Option (Nat × Nat)   -- (end, leaf)
def recOf (ctx : Option Nat) (tokEnd : Nat) : Rec := ctx.map fun l => (tokEnd, l)

def upd (prios : List Nat) (Δ : Vec) (k : Nat) (prev : Rec) : Rec :=
  match win prios Δ with
  | some l => some (k, l)
  | none => prev

/-- `scan prios Δ w k best`: `Δ` = derivatives after `k` bytes, `best` already includes position `k`.
Returns the best record and the offset at which the scan stopped. -/
def scan (prios : List Nat) : Vec → List Nat → Nat → Rec → Rec × Nat
  | _, [], k, best => (best, k)
  | Δ, b :: w, k, best =>
    let Δ' := derivV b Δ
    if viableV Δ' then scan prios Δ' w (k+1) (upd prios Δ' (k+1) best)
    else (best, k)

theorem derivN_not_viable {r : Re} {c : Nat} (h : viable r = false) : viable (derivN c r) = false := by
  cases hv : viable (derivN c r) with
  | false => rfl
  | true =>
    obtain ⟨w, hw⟩ := (viable_iff _).1 hv
    have : viable r = true := (viable_iff r).2 ⟨c :: w, (derivN_correct c r w).1 hw⟩
    rw [h] at this; cases this

theorem win_viable {prios Δ l} (h : win prios Δ = some l) : viableV Δ = true := by
  unfold win at h
  have key : ∀ (i : Nat) (ps : List Nat) (rs : Vec) (acc : Option (Nat × Nat)),
      winGo i ps rs acc ≠ acc → rs.any viable = true := by
    intro i ps rs
    induction rs generalizing i ps with
    | nil => intro acc h; cases ps <;> simp [winGo] at h
    | cons r rs ih =>
      intro acc h
      cases ps with
      | nil => simp [winGo] at h
      | cons p ps =>
        simp only [winGo] at h
        by_cases hn : nullable r = true
        · simp [List.any_cons, nullable_viable hn]
        · simp only [hn] at h
          simp only [List.any_cons]
          have := ih (i+1) ps acc (by simpa using h)
          simp [this]
  have : winGo 0 prios Δ none ≠ none := by
    intro hh; rw [hh] at h; cases h
  exact key 0 prios Δ none this

theorem viableV_deriv_false {Δ : Vec} {b : Nat} (h : viableV Δ = false) : viableV (derivV b Δ) = false := by
  unfold viableV derivV at *
  rw [List.any_eq_false] at h ⊢
  intro r hr
  rw [List.mem_map] at hr
  obtain ⟨r0, hr0, rfl⟩ := hr
  have := h r0 hr0
  simp at this
  simp [derivN_not_viable this]

end Logos
