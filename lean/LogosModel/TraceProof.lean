import LogosModel.Interp
/-!
# Read-trace theorems (C20, C05): hold for every graph, no well-formedness needed
-/
namespace Logos

def readOffs : List Ev → List Nat
  | [] => []
  | .read o _ _ :: t => o :: readOffs t
  | _ :: t => readOffs t

def numReads (tr : List Ev) : Nat := (readOffs tr).length

def Monotone : List Nat → Prop
  | [] => True
  | [_] => True
  | a :: b :: t => a ≤ b ∧ Monotone (b :: t)

/-- every successful read lies inside the source, every failed one would not -/
def ReadsInBounds (src : List Nat) : List Ev → Prop
  | [] => True
  | .read o n hit :: t => (hit = true ↔ (o + n ≤ usizeMax ∧ o + n ≤ src.length)) ∧ ReadsInBounds src t
  | _ :: t => ReadsInBounds src t


/-! ## helper lemmas -/

/-- early copy of `lastD` (which is defined further down) -/
def lastD' (d : Nat) : List Nat → Nat
  | [] => d
  | a :: t => lastD' a t

theorem readOffs_append (a b : List Ev) : readOffs (a ++ b) = readOffs a ++ readOffs b := by
  induction a with
  | nil => rfl
  | cons e t ih => cases e <;> simp [readOffs, ih]

theorem numReads_append (a b : List Ev) : numReads (a ++ b) = numReads a + numReads b := by
  simp [numReads, readOffs_append]

theorem readsInBounds_append (src : List Nat) (a b : List Ev) :
    ReadsInBounds src (a ++ b) ↔ ReadsInBounds src a ∧ ReadsInBounds src b := by
  induction a with
  | nil => simp [ReadsInBounds]
  | cons e t ih => cases e <;> simp [ReadsInBounds, ih, and_assoc]

theorem lastD'_append (d : Nat) (l1 l2 : List Nat) :
    lastD' d (l1 ++ l2) = lastD' (lastD' d l1) l2 := by
  induction l1 generalizing d with
  | nil => rfl
  | cons x t ih => simp [lastD', ih]

theorem lastD'_mono {a b : Nat} (h : a ≤ b) (l : List Nat) : lastD' a l ≤ lastD' b l := by
  cases l with
  | nil => simpa [lastD'] using h
  | cons x t => simp [lastD']

theorem lastD'_ne_nil {l : List Nat} (h : l ≠ []) (a b : Nat) : lastD' a l = lastD' b l := by
  cases l with
  | nil => exact absurd rfl h
  | cons x t => simp [lastD']

theorem mono_weaken {a b : Nat} {l : List Nat} (h : a ≤ b) (hm : Monotone (b :: l)) :
    Monotone (a :: l) := by
  cases l with
  | nil => trivial
  | cons x t =>
    simp only [Monotone] at *
    exact ⟨by omega, hm.2⟩

theorem mono_le_lastD' {a : Nat} {l : List Nat} (hm : Monotone (a :: l)) : a ≤ lastD' a l := by
  induction l generalizing a with
  | nil => simp [lastD']
  | cons x t ih =>
    simp only [Monotone] at hm
    simp only [lastD']
    have := ih hm.2
    omega

theorem mono_append {a : Nat} {l1 l2 : List Nat} (h1 : Monotone (a :: l1))
    (h2 : Monotone (lastD' a l1 :: l2)) : Monotone (a :: (l1 ++ l2)) := by
  induction l1 generalizing a with
  | nil => simpa [lastD'] using h2
  | cons x t ih =>
    simp only [Monotone] at h1
    simp only [lastD'] at h2
    simp only [List.cons_append, Monotone]
    exact ⟨h1.1, ih h1.2 h2⟩

theorem readByte_some {src : List Nat} {o b : Nat} (h : readByte src o = some b) :
    o + 1 ≤ usizeMax ∧ o + 1 ≤ src.length := by
  unfold readByte readChunk at h
  split at h
  · next hc =>
    split at hc
    · assumption
    · cases hc
  · cases h

theorem readByte_none {src : List Nat} {o : Nat} (h : readByte src o = none) :
    ¬ (o + 1 ≤ usizeMax ∧ o + 1 ≤ src.length) := by
  intro hb
  unfold readByte readChunk at h
  rw [if_pos hb] at h
  cases hd : src.drop o with
  | nil =>
    have := congrArg List.length hd
    simp at this
    omega
  | cons x t =>
    rw [hd] at h
    simp at h

/-- combined specification of a fast loop result -/
def LoopSpec (src : List Nat) (off k : Nat) (r : Nat × List Ev) : Prop :=
  Monotone (off :: readOffs r.2) ∧ lastD' off (readOffs r.2) ≤ r.1 ∧
    numReads r.2 + off ≤ r.1 + k ∧ ReadsInBounds src r.2

theorem fastLoop1_trace (p : Nat → Bool) (src : List Nat) (fuel off : Nat) :
    LoopSpec src off 1 (fastLoop1 p src fuel off) := by
  induction fuel generalizing off with
  | zero => simp [fastLoop1, LoopSpec, readOffs, numReads, Monotone, lastD', ReadsInBounds]
  | succ fuel ih =>
    unfold fastLoop1
    split
    · next b hb =>
      have hbd := readByte_some hb
      split
      · obtain ⟨h1, h2, h3, h4⟩ := ih (off + 1)
        refine ⟨?_, ?_, ?_, ?_⟩
        · simp only [readOffs]
          have := mono_weaken (Nat.le_succ off) h1
          cases hl : readOffs (fastLoop1 p src fuel (off + 1)).2 with
          | nil => simp [Monotone]
          | cons x t =>
            rw [hl] at this
            simp only [Monotone] at this ⊢
            exact ⟨Nat.le_refl _, this⟩
        · simp only [readOffs, lastD']
          exact Nat.le_trans (lastD'_mono (Nat.le_succ off) _) h2
        · simp only [numReads, readOffs, List.length_cons] at h3 ⊢
          omega
        · simp only [ReadsInBounds]
          exact ⟨by simpa using hbd, h4⟩
      · simp [LoopSpec, readOffs, numReads, Monotone, lastD', ReadsInBounds]
        exact ⟨by omega, by simpa using hbd⟩
    · next hn =>
      have hbd := readByte_none hn
      simp [LoopSpec, readOffs, numReads, Monotone, lastD', ReadsInBounds]
      exact ⟨by omega, by simpa using hbd⟩

theorem loopSpec_cons {src : List Nat} {off o2 k k' n : Nat} {hit : Bool} {r : Nat × List Ev}
    (hle : off ≤ o2) (hk : off + 1 + k ≤ o2 + k') (h : LoopSpec src o2 k r)
    (hb : hit = true ↔ (off + n ≤ usizeMax ∧ off + n ≤ src.length)) :
    LoopSpec src off k' (r.1, .read off n hit :: r.2) := by
  obtain ⟨h1, h2, h3, h4⟩ := h
  refine ⟨?_, ?_, ?_, ?_⟩
  · simp only [readOffs]
    have := mono_weaken hle h1
    cases hl : readOffs r.2 with
    | nil => simp [Monotone]
    | cons x t =>
      rw [hl] at this
      simp only [Monotone] at this ⊢
      exact ⟨Nat.le_refl _, this⟩
  · simp only [readOffs, lastD']
    exact Nat.le_trans (lastD'_mono hle _) h2
  · simp only [numReads, readOffs, List.length_cons] at h3 ⊢
    omega
  · simp only [ReadsInBounds]
    exact ⟨hb, h4⟩

theorem readChunk_some {src : List Nat} {o n : Nat} {l : List Nat} (h : readChunk src o n = some l) :
    o + n ≤ usizeMax ∧ o + n ≤ src.length := by
  unfold readChunk at h
  split at h
  · assumption
  · cases h

theorem readChunk_none {src : List Nat} {o n : Nat} (h : readChunk src o n = none) :
    ¬ (o + n ≤ usizeMax ∧ o + n ≤ src.length) := by
  unfold readChunk at h
  split at h
  · cases h
  · assumption

theorem fastLoop8_trace (p : Nat → Bool) (src : List Nat) (fuel off : Nat) :
    LoopSpec src off 2 (fastLoop8 p src fuel off) := by
  induction fuel generalizing off with
  | zero => simp [fastLoop8, LoopSpec, readOffs, numReads, Monotone, lastD', ReadsInBounds]
  | succ fuel ih =>
    unfold fastLoop8
    split
    · next arr ha =>
      have hbd := readChunk_some ha
      split
      · next i hi =>
        simp [LoopSpec, readOffs, numReads, Monotone, lastD', ReadsInBounds]
        exact ⟨by omega, by simpa using hbd⟩
      · exact loopSpec_cons (by omega) (by omega) (ih (off + 8)) (by simpa using hbd)
    · next hn =>
      have hbd := readChunk_none hn
      exact loopSpec_cons (Nat.le_refl _) (by omega) (fastLoop1_trace p src _ off) (by simpa using hbd)

theorem setupEv_readOffs (sd : StateData) (off : Nat) (ctx : Option Nat) (tokEnd : Nat) :
    readOffs (setupEv sd off ctx tokEnd).2 = [] := by
  unfold setupEv
  split <;> simp [readOffs]

theorem setupEv_inBounds (src : List Nat) (sd : StateData) (off : Nat) (ctx : Option Nat) (tokEnd : Nat) :
    ReadsInBounds src (setupEv sd off ctx tokEnd).2 := by
  unfold setupEv
  split <;> simp [ReadsInBounds]

/-- specification of one visit -/
def VisitSpec (src : List Nat) (off : Nat) (r : Visit × List Ev) : Prop :=
  Monotone (off :: readOffs r.2) ∧ numReads r.2 + off ≤ lastD' off (readOffs r.2) + 3 ∧
    ReadsInBounds src r.2 ∧ readOffs r.2 ≠ [] ∧
    (∀ t o2 c te, r.1 = .goto t o2 c te → o2 = lastD' off (readOffs r.2) + 1)

/-- the trace shape of a visit: loop trace, read-free middle, final read, read-free tail -/
theorem visitSpec_of {src : List Nat} {off : Nat} {fl : Nat × List Ev} (hfl : LoopSpec src off 2 fl)
    {mid tail : List Ev} (hmid : readOffs mid = []) (hmid' : ReadsInBounds src mid)
    (htail : readOffs tail = []) (htail' : ReadsInBounds src tail)
    {hit : Bool} (hb : hit = true ↔ (fl.1 + 1 ≤ usizeMax ∧ fl.1 + 1 ≤ src.length))
    (v : Visit) (hv : ∀ t o2 c te, v = .goto t o2 c te → o2 = fl.1 + 1) :
    VisitSpec src off (v, fl.2 ++ mid ++ [.read fl.1 1 hit] ++ tail) := by
  obtain ⟨h1, h2, h3, h4⟩ := hfl
  have hro : readOffs (fl.2 ++ mid ++ [.read fl.1 1 hit] ++ tail) = readOffs fl.2 ++ [fl.1] := by
    simp [readOffs_append, hmid, htail, readOffs]
  have hl : lastD' off (readOffs fl.2 ++ [fl.1]) = fl.1 := by
    simp [lastD'_append, lastD']
  refine ⟨?_, ?_, ?_, ?_, ?_⟩
  · simp only [hro]
    apply mono_append h1
    simp [Monotone, h2]
  · simp only [hro, hl]
    simp only [numReads, hro, List.length_append, List.length_cons, List.length_nil] at h3 ⊢
    omega
  · simp only [readsInBounds_append, ReadsInBounds]
    exact ⟨⟨⟨h4, hmid'⟩, hb, trivial⟩, htail'⟩
  · show readOffs (fl.2 ++ mid ++ [.read fl.1 1 hit] ++ tail) ≠ []
    rw [hro]; simp
  · simp only [hro, hl]
    exact hv

/-- the part of `visit` after the fast loop, parameterised by the fast loop result -/
def visitK (g : Graph) (src : List Nat) (isPrefix : Bool) (start : Nat)
    (st : Nat) (fl : Nat × List Ev) (su : (Option Nat × Nat) × List Ev) : Visit × List Ev :=
  let sd := g.get st
  let off := fl.1
  let ctx := su.1.1
  let tokEnd := su.1.2
  let tr := fl.2 ++ su.2
  match readByte src off with
  | some b =>
    let tr := tr ++ [.read off 1 true]
    match fork sd st b with
    | some t => (.goto t (off+1) ctx tokEnd, tr)
    | none => (.stop (.action off ctx tokEnd), tr)
  | none =>
    let tr := tr ++ [.read off 1 false]
    if (!sd.normal.isEmpty || sd.eoi.isSome) && isPrefix then (.stop .needMore, tr ++ [.end start])
    else if st == g.root && start == off then (.stop .endOfInput, tr)
    else match sd.eoi with
      | some t => (.goto t (off+1) ctx tokEnd, tr)
      | none => (.stop (.action off ctx tokEnd), tr)

theorem visit_eq (g : Graph) (src : List Nat) (isPrefix : Bool) (start st off : Nat)
    (ctx : Option Nat) (tokEnd : Nat) :
    visit g src isPrefix start st off ctx tokEnd =
      visitK g src isPrefix start st
        (match selfEdge (g.get st) st with
          | some e => fastLoop8 (fun b => inRanges e.ranges b) src (src.length + 1) off
          | none => (off, []))
        (setupEv (g.get st)
          (match selfEdge (g.get st) st with
          | some e => fastLoop8 (fun b => inRanges e.ranges b) src (src.length + 1) off
          | none => (off, [])).1 ctx tokEnd) := rfl

theorem visitK_spec (g : Graph) (src : List Nat) (isPrefix : Bool) (start st off : Nat)
    (fl : Nat × List Ev) (su : (Option Nat × Nat) × List Ev)
    (hfl : LoopSpec src off 2 fl) (hs1 : readOffs su.2 = []) (hs2 : ReadsInBounds src su.2) :
    VisitSpec src off (visitK g src isPrefix start st fl su) := by
  have hnil : readOffs ([] : List Ev) = [] := rfl
  have hnil' : ReadsInBounds src ([] : List Ev) := trivial
  unfold visitK
  simp only []
  split
  · next b hb =>
    have hbd := readByte_some hb
    split
    · next t _ =>
      have := visitSpec_of hfl hs1 hs2 hnil hnil' (hit := true) (by simpa using hbd)
        (.goto t (fl.1 + 1) su.1.1 su.1.2) (by intro t o2 c te h; cases h; rfl)
      simpa using this
    · have := visitSpec_of hfl hs1 hs2 hnil hnil' (hit := true) (by simpa using hbd)
        (.stop (.action fl.1 su.1.1 su.1.2)) (by intro t o2 c te h; cases h)
      simpa using this
  · next hn =>
    have hbd := readByte_none hn
    split
    · have := visitSpec_of hfl hs1 hs2 (tail := [.end start]) rfl trivial (hit := false)
        (by simpa using hbd) (.stop .needMore) (by intro t o2 c te h; cases h)
      simpa using this
    · split
      · have := visitSpec_of hfl hs1 hs2 hnil hnil' (hit := false) (by simpa using hbd)
          (.stop .endOfInput) (by intro t o2 c te h; cases h)
        simpa using this
      · split
        · next t _ =>
          have := visitSpec_of hfl hs1 hs2 hnil hnil' (hit := false) (by simpa using hbd)
            (.goto t (fl.1 + 1) su.1.1 su.1.2) (by intro t o2 c te h; cases h; rfl)
          simpa using this
        · have := visitSpec_of hfl hs1 hs2 hnil hnil' (hit := false) (by simpa using hbd)
            (.stop (.action fl.1 su.1.1 su.1.2)) (by intro t o2 c te h; cases h)
          simpa using this

theorem visit_spec (g : Graph) (src : List Nat) (isPrefix : Bool) (start st off : Nat)
    (ctx : Option Nat) (tokEnd : Nat) :
    VisitSpec src off (visit g src isPrefix start st off ctx tokEnd) := by
  rw [visit_eq]
  apply visitK_spec
  · split
    · exact fastLoop8_trace _ _ _ _
    · simp [LoopSpec, readOffs, numReads, Monotone, lastD', ReadsInBounds]
  · exact setupEv_readOffs _ _ _ _
  · exact setupEv_inBounds _ _ _ _ _

/-- invariant of an attempt's trace -/
def AttSpec (src : List Nat) (off : Nat) (tr : List Ev) : Prop :=
  Monotone (off :: readOffs tr) ∧
    numReads tr + 4 * off ≤ 4 * lastD' off (readOffs tr) + 4 ∧ ReadsInBounds src tr

theorem attemptI_spec (g : Graph) (src : List Nat) (isPrefix : Bool) (start fuel st off : Nat)
    (ctx : Option Nat) (tokEnd : Nat) :
    AttSpec src off (attemptI g src isPrefix start fuel st off ctx tokEnd).2 := by
  induction fuel generalizing st off ctx tokEnd with
  | zero => simp [attemptI, AttSpec, readOffs, numReads, Monotone, lastD', ReadsInBounds]
  | succ fuel ih =>
    unfold attemptI
    have hv := visit_spec g src isPrefix start st off ctx tokEnd
    split
    · next t off' ctx' te' tr heq =>
      rw [heq] at hv
      obtain ⟨v1, v2, v3, v4, v5⟩ := hv
      simp only at v1 v2 v3 v4 v5
      have ho := v5 t off' ctx' te' rfl
      subst ho
      obtain ⟨r1, r2, r3⟩ := ih t (lastD' off (readOffs tr) + 1) ctx' te'
      have hle := mono_le_lastD' v1
      refine ⟨?_, ?_, ?_⟩
      · simp only [readOffs_append]
        exact mono_append v1 (mono_weaken (Nat.le_succ _) r1)
      · simp only [readOffs_append, numReads_append, lastD'_append]
        cases hr : readOffs (attemptI g src isPrefix start fuel t (lastD' off (readOffs tr) + 1) ctx' te').2 with
        | nil =>
          simp only [numReads, hr, lastD', List.length_nil] at r2 v2 ⊢
          omega
        | cons x l =>
          have hne : x :: l ≠ [] := by simp
          have := lastD'_ne_nil hne (lastD' off (readOffs tr)) (lastD' off (readOffs tr) + 1)
          rw [hr] at r2
          rw [this]
          simp only [numReads, hr] at r2 v2 ⊢
          omega
      · simp only [readsInBounds_append]
        exact ⟨v3, r3⟩
    · next s tr heq =>
      rw [heq] at hv
      obtain ⟨v1, v2, v3, v4, v5⟩ := hv
      simp only at v1 v2 v3
      have hle := mono_le_lastD' v1
      show AttSpec src off tr
      exact ⟨v1, by omega, v3⟩

/-- **C05**: in every attempt, on every graph, a read hits iff it lies inside the source. -/
theorem attemptI_reads_in_bounds (g : Graph) (src : List Nat) (isPrefix : Bool) (start fuel st off : Nat)
    (ctx : Option Nat) (tokEnd : Nat) :
    ReadsInBounds src (attemptI g src isPrefix start fuel st off ctx tokEnd).2 := by
  exact (attemptI_spec g src isPrefix start fuel st off ctx tokEnd).2.2

/-- **C20, no backtracking**: within one attempt the offsets at which the source is read never
decrease, and all are at or after the offset the attempt was entered with. -/
theorem attemptI_reads_monotone (g : Graph) (src : List Nat) (isPrefix : Bool) (start fuel st off : Nat)
    (ctx : Option Nat) (tokEnd : Nat) :
    Monotone (off :: readOffs (attemptI g src isPrefix start fuel st off ctx tokEnd).2) := by
  exact (attemptI_spec g src isPrefix start fuel st off ctx tokEnd).1

/-- last element of a list of offsets, default `d` -/
def lastD (d : Nat) : List Nat → Nat
  | [] => d
  | a :: t => lastD a t

theorem lastD_eq (d : Nat) (l : List Nat) : lastD d l = lastD' d l := by
  induction l generalizing d with
  | nil => rfl
  | cons x t ih => simp [lastD, lastD', ih]

/-- **C20, linear work**: the number of reads of one attempt is at most four times the number of
bytes examined (distance from the entry offset to the last offset read, plus one) plus a constant,
whatever the graph (hence whatever the patterns). -/
theorem attemptI_reads_linear (g : Graph) (src : List Nat) (isPrefix : Bool) (start fuel st off : Nat)
    (ctx : Option Nat) (tokEnd : Nat) :
    numReads (attemptI g src isPrefix start fuel st off ctx tokEnd).2
      ≤ 4 * (lastD off (readOffs (attemptI g src isPrefix start fuel st off ctx tokEnd).2) + 1 - off) + 8 := by
  obtain ⟨h1, h2, _⟩ := attemptI_spec g src isPrefix start fuel st off ctx tokEnd
  have hle := mono_le_lastD' h1
  rw [lastD_eq]
  omega

end Logos
