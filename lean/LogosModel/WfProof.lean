import LogosModel.Lex
import LogosModel.Cert
/-!
# Graph-level guarantees from well-formedness alone (no regex semantics)

For every graph satisfying the decidable structural predicate `WF` and every input: an attempt of an
ordinary (non-partial) lexer terminates, records only positions strictly after the token start and
within the input, and the lexing loop tiles the input.
-/
namespace Logos

/-- a callback table that never bumps (bumping is covered separately) -/
def NoBump (cb : Callbacks) : Prop := ∀ l s r, (cb l s r).bump = 0


/-! ## helper lemmas about `record`, `atEoi`, `walk` -/

theorem record_inv (sd : StateData) (start len pos : Nat) (ctx : Option Nat) (te : Nat)
    (h1 : start < pos) (h2 : pos ≤ len) (ha : sd.accept = none ∨ start + 1 < pos)
    (hi : ctx = none ∨ (start < te ∧ te ≤ len)) :
    (record sd pos ctx te).1 = none ∨
      (start < (record sd pos ctx te).2 ∧ (record sd pos ctx te).2 ≤ len) := by
  unfold record
  split <;> simp_all <;> omega

/-- end of input reached after at least one byte -/
theorem atEoi_ok {G : Graph} (hwf : WF G) (start st pos : Nat) (ctx : Option Nat) (te : Nat)
    (h1 : start < pos) :
    ∃ off c e, atEoi G false start (G.states.size + 1) st pos ctx te = .action off c e ∧
      ((ctx = none ∨ (start < te ∧ te ≤ pos)) →
        (start ≤ off ∧ (c = none → off ≤ pos) ∧ (c ≠ none → start < e ∧ e ≤ pos))) := by
  have hsz := hwf.size
  obtain ⟨n, hn⟩ : ∃ n, G.states.size = n + 1 := ⟨G.states.size - 1, by omega⟩
  have hne : (start == pos) = false := by simp; omega
  have hne' : (start == pos + 1) = false := by simp; omega
  rw [hn]
  unfold atEoi
  simp only [Bool.and_false, Bool.false_eq_true, if_false, hne]
  cases heoi : (G.get st).eoi with
  | none =>
    refine ⟨pos, ctx, te, rfl, ?_⟩
    intro hi
    refine ⟨by omega, fun _ => Nat.le_refl _, ?_⟩
    intro hc
    rcases hi with hi | hi
    · exact absurd hi hc
    · exact hi
  | some t =>
    obtain ⟨e1, e2, e3, e4⟩ := hwf.eoiT st t heoi
    obtain ⟨l, hl⟩ := Option.isSome_iff_exists.mp e3
    have hr : record (G.get t) (pos + 1) ctx te = (some l, pos) := by
      simp [record, e2, hl]
    simp only [hr]
    unfold atEoi
    simp only [Bool.and_false, Bool.false_eq_true, if_false, hne', e1]
    refine ⟨pos + 1, some l, pos, rfl, ?_⟩
    intro _
    refine ⟨by omega, by simp, fun _ => ⟨h1, Nat.le_refl _⟩⟩

theorem walk_ok {G : Graph} (hwf : WF G) (start len : Nat) :
    ∀ (rest : List Nat) (st pos : Nat) (ctx : Option Nat) (te : Nat),
      start < pos → pos + rest.length = len →
      ∃ off c e, walk G false start st rest pos ctx te = .action off c e ∧
        (((G.get st).accept = none ∨ start + 1 < pos) → (ctx = none ∨ (start < te ∧ te ≤ len)) →
          (start ≤ off ∧ (c = none → off ≤ len) ∧ (c ≠ none → start < e ∧ e ≤ len))) := by
  intro rest
  induction rest with
  | nil =>
    intro st pos ctx te h1 h2
    simp at h2
    subst h2
    unfold walk
    obtain ⟨off, c, e, h, hh⟩ := atEoi_ok hwf start st pos
      (record (G.get st) pos ctx te).1 (record (G.get st) pos ctx te).2 h1
    refine ⟨off, c, e, h, ?_⟩
    intro ha hi
    exact hh (record_inv _ start pos pos ctx te h1 (Nat.le_refl _) ha hi)
  | cons b w ih =>
    intro st pos ctx te h1 h2
    simp at h2
    cases hnx : (G.get st).next b with
    | none =>
      simp only [walk, hnx]
      refine ⟨pos, _, _, rfl, ?_⟩
      intro ha hi
      have := record_inv (G.get st) start len pos ctx te h1 (by omega) ha hi
      refine ⟨by omega, fun _ => by omega, ?_⟩
      intro hc
      rcases this with h | h
      · exact absurd h hc
      · exact h
    | some t =>
      simp only [walk, hnx]
      obtain ⟨off, c, e, h, hh⟩ := ih t (pos + 1) (record (G.get st) pos ctx te).1
        (record (G.get st) pos ctx te).2 (by omega) (by omega)
      refine ⟨off, c, e, h, ?_⟩
      intro ha hi
      exact hh (Or.inr (by omega)) (record_inv _ start len pos ctx te h1 (by omega) ha hi)

theorem atEoi_not_needMore (G : Graph) (start : Nat) :
    ∀ (fuel st pos : Nat) (ctx : Option Nat) (te : Nat),
      atEoi G false start fuel st pos ctx te ≠ .needMore := by
  intro fuel
  induction fuel with
  | zero => intro st pos ctx te; simp [atEoi]
  | succ n ih =>
    intro st pos ctx te
    unfold atEoi
    simp only [Bool.and_false, Bool.false_eq_true, if_false]
    split
    · simp
    · split
      · exact ih _ _ _ _
      · simp

theorem walk_not_needMore (G : Graph) (start : Nat) :
    ∀ (rest : List Nat) (st pos : Nat) (ctx : Option Nat) (te : Nat),
      walk G false start st rest pos ctx te ≠ .needMore := by
  intro rest
  induction rest with
  | nil => intro st pos ctx te; unfold walk; exact atEoi_not_needMore _ _ _ _ _ _ _
  | cons b w ih =>
    intro st pos ctx te
    cases hnx : (G.get st).next b with
    | none => simp [walk, hnx]
    | some t => simp only [walk, hnx]; exact ih _ _ _ _

theorem walkAttempt_first {G : Graph} (hwf : WF G) (inp : List Nat) (start : Nat) :
    (inp.length ≤ start ∧ walkAttempt G false inp start = .eoi) ∨
    (start < inp.length ∧ ∃ off c e,
      walkAttempt G false inp start = attemptOfStop (.action off c e) ∧
      ((∀ b ∈ inp, b < 256) →
        (start ≤ off ∧ (c = none → off ≤ inp.length) ∧ (c ≠ none → start < e ∧ e ≤ inp.length)))) := by
  obtain ⟨r1, r2⟩ := hwf.rootNoRec
  have hrec : record (G.get G.root) start none start = (none, start) := by
    simp [record, r1, r2]
  unfold walkAttempt
  cases hd : inp.drop start with
  | nil =>
    left
    refine ⟨List.drop_eq_nil_iff.mp hd, ?_⟩
    simp [walk, atEoi, attemptOfStop]
  | cons b w =>
    right
    have hlen : (inp.drop start).length = w.length + 1 := by rw [hd]; rfl
    rw [List.length_drop] at hlen
    have hmem : b ∈ inp := List.mem_of_mem_drop (by rw [hd]; exact List.mem_cons_self)
    refine ⟨by omega, ?_⟩
    cases hnx : (G.get G.root).next b with
    | none =>
      simp only [walk, hnx, hrec]
      refine ⟨start, none, start, rfl, ?_⟩
      intro _
      refine ⟨Nat.le_refl _, fun _ => by omega, fun h => absurd rfl h⟩
    | some t =>
      simp only [walk, hnx, hrec]
      obtain ⟨off, c, e, h, hh⟩ := walk_ok hwf start inp.length w t (start + 1) none start
        (by omega) (by omega)
      refine ⟨off, c, e, by rw [h], ?_⟩
      intro hb
      exact hh (Or.inl (hwf.rootKid b (hb b hmem) t hnx)) (Or.inl rfl)

theorem walkAttempt_not_needMore (G : Graph) (inp : List Nat) (start : Nat) :
    walkAttempt G false inp start ≠ .needMore := by
  unfold walkAttempt
  have := walk_not_needMore G start (inp.drop start) G.root start none start
  generalize walk G false start G.root (inp.drop start) start none start = r at this
  cases r with
  | action off c e => cases c <;> simp [attemptOfStop]
  | _ => simp_all [attemptOfStop]

theorem walkAttempt_not_diverge {G : Graph} (hwf : WF G) (inp : List Nat) (start : Nat) :
    walkAttempt G false inp start ≠ .diverge := by
  rcases walkAttempt_first hwf inp start with ⟨_, h⟩ | ⟨_, off, c, e, h, _⟩
  · simp [h]
  · rw [h]; cases c <;> simp [attemptOfStop]

theorem walkAttempt_eoi_iff {G : Graph} (hwf : WF G) (inp : List Nat) (start : Nat) :
    walkAttempt G false inp start = .eoi ↔ inp.length ≤ start := by
  rcases walkAttempt_first hwf inp start with ⟨h1, h⟩ | ⟨h1, off, c, e, h, _⟩
  · simp [h, h1]
  · rw [h]
    constructor
    · cases c <;> simp [attemptOfStop]
    · omega

/-- a recorded match is non-empty and inside the input -/
theorem walkAttempt_matched_bounds {G : Graph} (hwf : WF G) (inp : List Nat) (hb : ∀ b ∈ inp, b < 256)
    (start l e : Nat) (h : walkAttempt G false inp start = .matched l e) :
    start < e ∧ e ≤ inp.length := by
  rcases walkAttempt_first hwf inp start with ⟨_, h'⟩ | ⟨_, off, c, e', h', hh⟩
  · rw [h'] at h; cases h
  · rw [h'] at h
    obtain ⟨_, _, h3⟩ := hh hb
    cases c with
    | none => simp [attemptOfStop] at h
    | some l' =>
      simp [attemptOfStop] at h
      obtain ⟨_, rfl⟩ := h
      exact h3 (by simp)

/-- without a match the attempt stops inside the input -/
theorem walkAttempt_nomatch_bounds {G : Graph} (hwf : WF G) (inp : List Nat) (hb : ∀ b ∈ inp, b < 256)
    (start off : Nat) (h : walkAttempt G false inp start = .nomatch off) :
    start ≤ off ∧ off ≤ inp.length ∧ start < inp.length := by
  rcases walkAttempt_first hwf inp start with ⟨_, h'⟩ | ⟨hlt, off', c, e', h', hh⟩
  · rw [h'] at h; cases h
  · rw [h'] at h
    obtain ⟨h1, h2, _⟩ := hh hb
    cases c with
    | none =>
      simp [attemptOfStop] at h
      subst h
      exact ⟨h1, h2 rfl, hlt⟩
    | some l' => simp [attemptOfStop] at h

theorem isBoundary_length (s : List Nat) : isBoundary s s.length = true := by
  unfold isBoundary; simp

theorem findBoundaryFuel_spec (s : List Nat) :
    ∀ (fuel i : Nat), i ≤ s.length → s.length - i + 1 ≤ fuel →
      ∃ j, findBoundaryFuel s fuel i = some j ∧ i ≤ j ∧ j ≤ s.length ∧ isBoundary s j = true ∧
        ∀ k, i ≤ k → k < j → isBoundary s k = false := by
  intro fuel
  induction fuel with
  | zero => intro i _ h; omega
  | succ n ih =>
    intro i hi hf
    unfold findBoundaryFuel
    cases hbi : isBoundary s i with
    | true =>
      refine ⟨i, by simp, Nat.le_refl _, hi, hbi, ?_⟩
      intro k h1 h2; omega
    | false =>
      have hne : i ≠ s.length := by
        intro h; rw [h, isBoundary_length] at hbi; cases hbi
      obtain ⟨j, h1, h2, h3, h4, h5⟩ := ih (i + 1) (by omega) (by omega)
      refine ⟨j, by simpa using h1, by omega, h3, h4, ?_⟩
      intro k hk1 hk2
      by_cases hk : k = i
      · subst hk; exact hbi
      · exact h5 k (by omega) hk2

/-- `find_boundary` terminates inside the source and returns the least boundary ≥ its argument -/
theorem findBoundary_spec (s : List Nat) (i : Nat) (hi : i ≤ s.length) :
    ∃ j, findBoundary s i = some j ∧ i ≤ j ∧ j ≤ s.length ∧ isBoundary s j = true ∧
      ∀ k, i ≤ k → k < j → isBoundary s k = false := by
  unfold findBoundary
  rw [if_pos hi]
  exact findBoundaryFuel_spec s _ i hi (Nat.le_refl _)

/-- The items of a lexing run: every item is non-empty, starts where the previous item or skipped
region ended, and everything stays inside the input. `Tiles pos items` = items are strictly
increasing, start at or after `pos`. -/
def Tiles : Nat → List Item → Prop
  | _, [] => True
  | pos, it :: rest => pos ≤ it.start ∧ it.start < it.stop ∧ Tiles it.stop rest

theorem nextLoop_ok {G : Graph} (hwf : WF G) (cb : Callbacks) (hcb : NoBump cb) (utf8 : Bool)
    (inp : List Nat) (hb : ∀ b ∈ inp, b < 256) :
    ∀ (fuel start : Nat), start ≤ inp.length → inp.length - start + 1 ≤ fuel →
      nextLoop (walkAttempt G false inp) cb utf8 inp fuel start = .none inp.length inp.length ∨
      ∃ it, nextLoop (walkAttempt G false inp) cb utf8 inp fuel start = .item it ∧
        start ≤ it.start ∧ it.start < it.stop ∧ it.stop ≤ inp.length := by
  intro fuel
  induction fuel with
  | zero => intro start _ h; omega
  | succ n ih =>
    intro start hs hf
    unfold nextLoop
    cases hatt : walkAttempt G false inp start with
    | eoi =>
      have := (walkAttempt_eoi_iff hwf inp start).mp hatt
      have : start = inp.length := by omega
      left; simp [this]
    | needMore => exact absurd hatt (walkAttempt_not_needMore G inp start)
    | diverge => exact absurd hatt (walkAttempt_not_diverge hwf inp start)
    | «nomatch» off =>
      obtain ⟨h1, h2, h3⟩ := walkAttempt_nomatch_bounds hwf inp hb start off hatt
      have he0 : max off (start + 1) ≤ inp.length := by omega
      right
      cases utf8 with
      | false =>
        refine ⟨.err none start (max off (start + 1)), by simp, ?_⟩
        simp only [Item.start, Item.stop]; omega
      | true =>
        obtain ⟨j, hj1, hj2, hj3, _⟩ := findBoundary_spec inp _ he0
        refine ⟨.err none start j, by simp [hj1], ?_⟩
        simp only [Item.start, Item.stop]; omega
    | matched l te =>
      obtain ⟨h1, h2⟩ := walkAttempt_matched_bounds hwf inp hb start l te hatt
      have hbump : (cb l (slice inp start te) (List.drop te inp)).bump = 0 := hcb _ _ _
      simp only [hbump, Nat.add_zero]
      cases hact : (cb l (slice inp start te) (List.drop te inp)).act with
      | emit =>
        right
        exact ⟨.ok l start te, rfl, by simp only [Item.start, Item.stop]; omega⟩
      | skip =>
        simp only
        rcases ih te h2 (by omega) with h | ⟨it, h, h3, h4, h5⟩
        · left; exact h
        · right; exact ⟨it, h, by omega, h4, h5⟩
      | errDefault =>
        right
        exact ⟨.err none start te, rfl, by simp only [Item.start, Item.stop]; omega⟩
      | errCustom t =>
        right
        exact ⟨.err (some t) start te, rfl, by simp only [Item.start, Item.stop]; omega⟩

theorem lexFrom_ok {G : Graph} (hwf : WF G) (cb : Callbacks) (hcb : NoBump cb) (utf8 : Bool)
    (inp : List Nat) (hb : ∀ b ∈ inp, b < 256) :
    ∀ (fuel pos : Nat), pos ≤ inp.length → inp.length - pos + 1 ≤ fuel →
      ∃ items, lexFrom (walkAttempt G false inp) cb utf8 inp fuel pos =
          (items, .done inp.length inp.length) ∧
        Tiles pos items ∧ ∀ it ∈ items, it.stop ≤ inp.length := by
  intro fuel
  induction fuel with
  | zero => intro pos _ h; omega
  | succ n ih =>
    intro pos hp hf
    unfold lexFrom
    rcases nextLoop_ok hwf cb hcb utf8 inp hb (inp.length + 2) pos hp (by omega) with
      h | ⟨it, h, h1, h2, h3⟩
    · rw [h]
      exact ⟨[], rfl, trivial, by simp⟩
    · rw [h]
      obtain ⟨items, e, ht, hall⟩ := ih it.stop h3 (by omega)
      refine ⟨it :: items, by simp [e], ⟨h1, h2, ht⟩, ?_⟩
      intro x hx
      rcases List.mem_cons.mp hx with rfl | hx
      · exact h3
      · exact hall x hx

/-- **C03 (graph level).** For a well-formed graph, an ordinary lexer over any input terminates
(`Final.done`), its items tile the input in order, and the final position is the input length. -/
theorem graphLex_tiles {G : Graph} (hwf : WF G) (cb : Callbacks) (hcb : NoBump cb) (utf8 : Bool)
    (inp : List Nat) (hb : ∀ b ∈ inp, b < 256) :
    ∃ items, graphLex G false cb utf8 inp = (items, .done inp.length inp.length) ∧
      Tiles 0 items ∧ ∀ it ∈ items, it.stop ≤ inp.length := by
  unfold graphLex lexAll
  exact lexFrom_ok hwf cb hcb utf8 inp hb (inp.length + 2) 0 (Nat.zero_le _) (by omega)

end Logos
