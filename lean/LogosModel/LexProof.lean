import LogosModel.Lex
import LogosModel.Sound
/-!
# The generated lexer equals the reference lexer (for every input)

From the certificate (`Valid`) to equality of whole token streams.
-/
namespace Logos

/-- One attempt of the graph lexer equals one attempt of the reference lexer. -/
theorem attempt_eq {G : Graph} {prios : List Nat} {D : Vec} {C : Nat → Vec → Prop}
    (hv : Valid G prios D C) (inp : List Nat) (hb : ∀ b ∈ inp, b < 256) (start : Nat) :
    walkAttempt G false inp start = scanAttempt prios D inp start := by
  obtain ⟨hre, hra⟩ := hv.wf.rootNoRec
  have hrec : ∀ ctx te, record (G.get G.root) start ctx te = (ctx, te) := by
    intro ctx te; simp [record, hre, hra]
  have hbd : ∀ x ∈ inp.drop start, x < 256 := fun x hx => hb x (List.mem_of_mem_drop hx)
  unfold walkAttempt scanAttempt
  cases hd : inp.drop start with
  | nil =>
    simp only [walk, hrec]
    rw [atEoi]
    simp [attemptOfStop]
  | cons b w =>
    rw [hd] at hbd
    have hb' : b < 256 := hbd b (by simp)
    have hw : ∀ x ∈ w, x < 256 := fun x hx => hbd x (by simp [hx])
    have hl := hv.loc _ _ hv.root
    simp only [walk, hrec]
    cases hn : (G.get G.root).next b with
    | none =>
      have hdead := hl.noedge b hb' hn
      simp [scan, hdead, attemptOfStop]
    | some t =>
      obtain ⟨h1, h2, h3⟩ := hl.edge b hb' t hn
      have hacc : (G.get t).accept = none := by
        cases ha : (G.get t).accept with
        | none => rfl
        | some l => have := h1 l ha; rw [hv.noEmpty] at this; cases this
      have hvd : viableV (derivV b D) = true := by
        rcases h2 with h2 | h2
        · exact h2
        · rw [hacc] at h2; cases h2
      have he : EntryInv G t (start+1) none start none := by
        unfold EntryInv; simp [hacc, recOf]
      obtain ⟨off, c, e, hwalk, hr, hoff⟩ :=
        walk_eq_scan hv start w t (derivV b D) (start+1) none start none hw (by omega) h3 he
      simp only [scan, hvd, if_true]
      rw [hwalk]
      generalize scan prios (derivV b D) w (start+1) (upd prios (derivV b D) (start+1) none) = r at hr hoff
      obtain ⟨r1, r2⟩ := r
      simp only at hr hoff
      cases c with
      | none =>
        simp [recOf] at hr
        subst hr
        have := hoff rfl
        subst this
        simp [attemptOfStop]
      | some l =>
        simp [recOf] at hr
        subst hr
        simp [attemptOfStop]

/-- **C01/C02 main theorem (look-free fragment).** If the certificate validates, the lexer logos
generates yields, for every input, callback table and source mode, exactly the item sequence (and
final state) of the reference lexer. -/
theorem lex_eq_spec {G : Graph} {prios : List Nat} {D : Vec} {C : Nat → Vec → Prop}
    (hv : Valid G prios D C) (cb : Callbacks) (utf8 : Bool) (inp : List Nat) (hb : ∀ b ∈ inp, b < 256) :
    graphLex G false cb utf8 inp = specLex prios D cb utf8 inp := by
  have : walkAttempt G false inp = scanAttempt prios D inp :=
    funext fun s => attempt_eq hv inp hb s
  unfold graphLex specLex
  rw [this]

end Logos
