import LogosModel.Spec
/-!
# Meaning of the reference scan in terms of `Matches`

The executable `scan` is characterised by the declarative notions the properties use:
"longest non-empty prefix fully matched by at least one pattern", "highest priority among the
patterns matching that prefix", and "can still be extended to a match".
-/
namespace Logos

/-- leaf `i` of definition `D` fully matches `w` -/
def MatchesAt (D : Vec) (i : Nat) (w : List Nat) : Prop := ∃ r, D[i]? = some r ∧ Matches r w

/-- some leaf fully matches `w` -/
def AnyMatch (D : Vec) (w : List Nat) : Prop := ∃ i, MatchesAt D i w

/-- what was read (`u`) can still be extended to a full match of some leaf -/
def ViableW (D : Vec) (u : List Nat) : Prop := ∃ ext, AnyMatch D (u ++ ext)

def prioOf (prios : List Nat) (i : Nat) : Nat := prios.getD i 0

/-- `l` matches `w` and no leaf matching `w` has a higher priority -/
def TopMatch (prios : List Nat) (D : Vec) (l : Nat) (w : List Nat) : Prop :=
  MatchesAt D l w ∧ ∀ j, MatchesAt D j w → prioOf prios j ≤ prioOf prios l

/-- derivative vector after reading `u` -/
def derivsV (u : List Nat) (Δ : Vec) : Vec := u.foldl (fun Δ b => derivV b Δ) Δ

theorem matchesAt_derivsV (D : Vec) (u v : List Nat) (i : Nat) :
    MatchesAt (derivsV u D) i v ↔ MatchesAt D i (u ++ v) := by
  induction u generalizing D with
  | nil => simp [derivsV]
  | cons b u ih =>
    have h1 : derivsV (b :: u) D = derivsV u (derivV b D) := by simp [derivsV]
    rw [h1, ih]
    unfold MatchesAt derivV
    rw [List.getElem?_map]
    constructor
    · rintro ⟨r, hr, hm⟩
      cases hD : D[i]? with
      | none => simp [hD] at hr
      | some r0 =>
        simp [hD] at hr
        subst hr
        exact ⟨r0, rfl, (derivN_correct b r0 _).1 hm⟩
    · rintro ⟨r, hr, hm⟩
      exact ⟨derivN b r, by simp [hr], (derivN_correct b r _).2 hm⟩

theorem viableV_iff (Δ : Vec) : viableV Δ = true ↔ ∃ w, AnyMatch Δ w := by
  unfold viableV AnyMatch MatchesAt
  rw [List.any_eq_true]
  constructor
  · rintro ⟨r, hr, hv⟩
    obtain ⟨w, hw⟩ := (viable_iff r).1 hv
    obtain ⟨i, hi⟩ := List.mem_iff_getElem?.1 hr
    exact ⟨w, i, r, hi, hw⟩
  · rintro ⟨w, i, r, hi, hw⟩
    exact ⟨r, List.mem_iff_getElem?.2 ⟨i, hi⟩, (viable_iff r).2 ⟨w, hw⟩⟩

/-- invariant of the `winGo` accumulator after the first `i` components were inspected -/
def WInv (P : List Nat) (R : Vec) (i : Nat) : Option (Nat × Nat) → Prop
  | none => ∀ k r, k < i → R[k]? = some r → nullable r = false
  | some (j, q) => q = P.getD j 0 ∧ (∃ r, R[j]? = some r ∧ nullable r = true) ∧
      ∀ k r, k < i → R[k]? = some r → nullable r = true → P.getD k 0 ≤ q

theorem WInv_mono {P : List Nat} {R : Vec} {i i' : Nat} {acc} (h : WInv P R i acc) (hi : i' ≤ i) :
    WInv P R i' acc := by
  cases acc with
  | none => intro k r hk; exact h k r (by omega)
  | some jq =>
    obtain ⟨j, q⟩ := jq
    obtain ⟨h1, h2, h3⟩ := h
    exact ⟨h1, h2, fun k r hk => h3 k r (by omega)⟩

theorem drop_cons_getElem? {α} {l : List α} {i : Nat} {a : α} {t : List α} (h : a :: t = l.drop i) :
    l[i]? = some a ∧ t = l.drop (i+1) ∧ i < l.length := by
  have h0 : (l.drop i)[0]? = some a := by rw [← h]; rfl
  rw [List.getElem?_drop] at h0
  have h1 : (l.drop i).drop 1 = t := by rw [← h]; rfl
  rw [List.drop_drop] at h1
  refine ⟨by simpa using h0, h1.symm, ?_⟩
  have : (l.drop i).length = t.length + 1 := by rw [← h]; rfl
  rw [List.length_drop] at this
  omega

theorem winGo_inv (P : List Nat) (R : Vec) (hlen : P.length = R.length) :
    ∀ (rs : Vec) (ps : List Nat) (i : Nat) (acc : Option (Nat × Nat)),
      ps = P.drop i → rs = R.drop i → WInv P R i acc →
      WInv P R R.length (winGo i ps rs acc) := by
  intro rs
  induction rs with
  | nil =>
    intro ps i acc _ hrs h
    have hle : R.length ≤ i := by
      have := congrArg List.length hrs
      simp at this; omega
    have : winGo i ps [] acc = acc := by cases ps <;> simp [winGo]
    rw [this]
    exact WInv_mono h hle
  | cons r rs ih =>
    intro ps i acc hps hrs h
    obtain ⟨hRi, hrs', hiR⟩ := drop_cons_getElem? hrs
    cases ps with
    | nil =>
      have := congrArg List.length hps
      simp at this; omega
    | cons p ps =>
      obtain ⟨hPi, hps', hiP⟩ := drop_cons_getElem? hps
      have hPd : P.getD i 0 = p := by simp [List.getD, hPi]
      simp only [winGo]
      apply ih ps (i+1) _ hps' hrs'
      by_cases hn : nullable r = true
      · simp only [hn, if_true]
        cases acc with
        | none =>
          refine ⟨hPd.symm, ⟨r, hRi, hn⟩, ?_⟩
          intro k r' hk hr' hn'
          by_cases hki : k < i
          · have := h k r' hki hr'; rw [this] at hn'; cases hn'
          · have : k = i := by omega
            subst this; omega
        | some jq =>
          obtain ⟨j, q⟩ := jq
          obtain ⟨h1, h2, h3⟩ := h
          by_cases hq : q < p
          · simp only [hq, if_true]
            refine ⟨hPd.symm, ⟨r, hRi, hn⟩, ?_⟩
            intro k r' hk hr' hn'
            by_cases hki : k < i
            · have := h3 k r' hki hr' hn'; omega
            · have : k = i := by omega
              subst this; omega
          · simp only [hq, if_false]
            refine ⟨h1, h2, ?_⟩
            intro k r' hk hr' hn'
            by_cases hki : k < i
            · exact h3 k r' hki hr' hn'
            · have : k = i := by omega
              subst this; omega
      · simp only [hn]
        have hn0 : nullable r = false := by simpa using hn
        cases acc with
        | none =>
          intro k r' hk hr'
          by_cases hki : k < i
          · exact h k r' hki hr'
          · have : k = i := by omega
            subst this; rw [hRi] at hr'; cases hr'; exact hn0
        | some jq =>
          obtain ⟨j, q⟩ := jq
          obtain ⟨h1, h2, h3⟩ := h
          refine ⟨h1, h2, ?_⟩
          intro k r' hk hr' hn'
          by_cases hki : k < i
          · exact h3 k r' hki hr' hn'
          · have : k = i := by omega
            subst this; rw [hRi] at hr'; cases hr'; rw [hn0] at hn'; cases hn'

theorem winGo_final (prios : List Nat) (Δ : Vec) (hlen : prios.length = Δ.length) :
    WInv prios Δ Δ.length (winGo 0 prios Δ none) :=
  winGo_inv prios Δ hlen Δ prios 0 none (by simp) (by simp) (by intro k r hk; omega)

theorem matchesAt_nil_iff {Δ : Vec} {i : Nat} :
    MatchesAt Δ i [] ↔ ∃ r, Δ[i]? = some r ∧ nullable r = true := by
  unfold MatchesAt
  constructor
  · rintro ⟨r, h1, h2⟩; exact ⟨r, h1, (nullable_iff r).2 h2⟩
  · rintro ⟨r, h1, h2⟩; exact ⟨r, h1, (nullable_iff r).1 h2⟩

theorem win_some {prios : List Nat} {Δ : Vec} {l : Nat} (hlen : prios.length = Δ.length)
    (h : win prios Δ = some l) : TopMatch prios Δ l [] := by
  have hinv := winGo_final prios Δ hlen
  unfold win at h
  cases hw : winGo 0 prios Δ none with
  | none => rw [hw] at h; cases h
  | some jq =>
    obtain ⟨j, q⟩ := jq
    rw [hw] at h hinv
    simp at h
    subst h
    obtain ⟨h1, h2, h3⟩ := hinv
    refine ⟨matchesAt_nil_iff.2 h2, ?_⟩
    intro k hk
    obtain ⟨r, hr, hn⟩ := matchesAt_nil_iff.1 hk
    have hkl : k < Δ.length := by
      have := (List.getElem?_eq_some_iff.1 hr).1; exact this
    have := h3 k r hkl hr hn
    unfold prioOf
    omega

theorem win_none {prios : List Nat} {Δ : Vec} (hlen : prios.length = Δ.length) :
    win prios Δ = none ↔ ¬ AnyMatch Δ [] := by
  constructor
  · intro h
    have hinv := winGo_final prios Δ hlen
    unfold win at h
    cases hw : winGo 0 prios Δ none with
    | some jq => rw [hw] at h; cases h
    | none =>
      rw [hw] at hinv
      rintro ⟨k, hk⟩
      obtain ⟨r, hr, hn⟩ := matchesAt_nil_iff.1 hk
      have hkl : k < Δ.length := (List.getElem?_eq_some_iff.1 hr).1
      have := hinv k r hkl hr
      rw [this] at hn; cases hn
  · intro h
    cases hw : win prios Δ with
    | none => rfl
    | some l => exact absurd ⟨l, (win_some hlen hw).1⟩ h

theorem derivsV_snoc (u : List Nat) (b : Nat) (D : Vec) :
    derivsV (u ++ [b]) D = derivV b (derivsV u D) := by
  simp [derivsV, List.foldl_append]

theorem derivsV_length (u : List Nat) (D : Vec) : (derivsV u D).length = D.length := by
  induction u generalizing D with
  | nil => rfl
  | cons b u ih =>
    have h1 : derivsV (b :: u) D = derivsV u (derivV b D) := by simp [derivsV]
    rw [h1, ih]; simp [derivV]

theorem anyMatch_derivsV (D : Vec) (u v : List Nat) :
    AnyMatch (derivsV u D) v ↔ AnyMatch D (u ++ v) := by
  unfold AnyMatch
  constructor
  · rintro ⟨i, hi⟩; exact ⟨i, (matchesAt_derivsV D u v i).1 hi⟩
  · rintro ⟨i, hi⟩; exact ⟨i, (matchesAt_derivsV D u v i).2 hi⟩

theorem topMatch_derivsV (prios : List Nat) (D : Vec) (u : List Nat) (l : Nat) :
    TopMatch prios (derivsV u D) l [] ↔ TopMatch prios D l u := by
  unfold TopMatch
  simp only [matchesAt_derivsV, List.append_nil]

theorem viableV_derivsV (D : Vec) (u : List Nat) :
    viableV (derivsV u D) = true ↔ ViableW D u := by
  rw [viableV_iff]
  unfold ViableW
  simp only [anyMatch_derivsV]

theorem viableW_prefix {D : Vec} {u v : List Nat} (h : ViableW D (u ++ v)) : ViableW D u := by
  obtain ⟨ext, hext⟩ := h
  exact ⟨v ++ ext, by simpa [List.append_assoc] using hext⟩

theorem viableW_take {D : Vec} {w : List Nat} {m n : Nat} (hmn : m ≤ n)
    (h : ViableW D (w.take n)) : ViableW D (w.take m) := by
  have : w.take n = w.take m ++ (w.take n).drop m := by
    have := (List.take_append_drop m (w.take n)).symm
    rwa [List.take_take, Nat.min_eq_left hmn] at this
  rw [this] at h
  exact viableW_prefix h

theorem anyMatch_viableW {D : Vec} {u : List Nat} (h : AnyMatch D u) : ViableW D u :=
  ⟨[], by simpa using h⟩

/-- meaning of the `best` accumulator after `n` bytes of `w` were consumed -/
def Best (prios : List Nat) (D : Vec) (w : List Nat) (p n : Nat) : Rec → Prop
  | none => ∀ m, 0 < m → m ≤ n → ¬ AnyMatch D (w.take m)
  | some (e, l) => p < e ∧ e ≤ p + n ∧ TopMatch prios D l (w.take (e - p)) ∧
      ∀ m, e - p < m → m ≤ n → ¬ AnyMatch D (w.take m)

theorem Best_step {prios : List Nat} {D : Vec} (hlen : prios.length = D.length)
    (w : List Nat) (p n : Nat) (best : Rec) (hb : Best prios D w p n best) :
    Best prios D w p (n+1) (upd prios (derivsV (w.take (n+1)) D) (p+n+1) best) := by
  have hlen' : prios.length = (derivsV (w.take (n+1)) D).length := by
    rw [derivsV_length]; exact hlen
  unfold upd
  cases hw : win prios (derivsV (w.take (n+1)) D) with
  | none =>
    have hno := (win_none hlen').1 hw
    rw [anyMatch_derivsV, List.append_nil] at hno
    cases best with
    | none =>
      intro m hm hmn
      by_cases h : m ≤ n
      · exact hb m hm h
      · have : m = n+1 := by omega
        subst this; exact hno
    | some el =>
      obtain ⟨e, l⟩ := el
      obtain ⟨h1, h2, h3, h4⟩ := hb
      refine ⟨h1, by omega, h3, ?_⟩
      intro m hm hmn
      by_cases h : m ≤ n
      · exact h4 m hm h
      · have : m = n+1 := by omega
        subst this; exact hno
  | some l =>
    have htop := win_some hlen' hw
    rw [topMatch_derivsV] at htop
    refine ⟨by omega, by omega, ?_, ?_⟩
    · have : p + n + 1 - p = n + 1 := by omega
      rw [this]; exact htop
    · intro m hm hmn; omega

theorem scan_gen {prios : List Nat} {D : Vec} (hlen : prios.length = D.length)
    (w : List Nat) (p : Nat) :
    ∀ (v : List Nat) (n : Nat) (best res : Rec) (off : Nat), n ≤ w.length → v = w.drop n →
      Best prios D w p n best →
      scan prios (derivsV (w.take n) D) v (p+n) best = (res, off) →
      ∃ n', n ≤ n' ∧ n' ≤ w.length ∧ off = p + n' ∧ Best prios D w p n' res ∧
        (n < n' → ViableW D (w.take n')) ∧
        (n' < w.length → ¬ ViableW D (w.take (n'+1))) := by
  intro v
  induction v with
  | nil =>
    intro n best res off hn hv hb hs
    simp only [scan] at hs
    have hle : w.length ≤ n := by
      have := congrArg List.length hv
      simp at this; omega
    cases hs
    exact ⟨n, Nat.le_refl _, hn, rfl, hb, fun h => absurd h (Nat.lt_irrefl _), fun h => by omega⟩
  | cons b v ih =>
    intro n best res off _ hv hb hs
    obtain ⟨hwn, hv', hnlt⟩ := drop_cons_getElem? hv
    have htake : w.take (n+1) = w.take n ++ [b] := by
      rw [List.take_add_one, hwn]; rfl
    have hΔ : derivV b (derivsV (w.take n) D) = derivsV (w.take (n+1)) D := by
      rw [htake, derivsV_snoc]
    simp only [scan] at hs
    rw [hΔ] at hs
    by_cases hvi : viableV (derivsV (w.take (n+1)) D) = true
    · simp only [hvi, if_true] at hs
      have hV : ViableW D (w.take (n+1)) := (viableV_derivsV D _).1 hvi
      obtain ⟨n', h1, h2, h3, h4, h5, h6⟩ :=
        ih (n+1) _ res off hnlt hv' (Best_step hlen w p n best hb) hs
      refine ⟨n', by omega, h2, h3, h4, ?_, h6⟩
      intro _
      by_cases hlt : n + 1 < n'
      · exact h5 hlt
      · have : n' = n + 1 := by omega
        subst this; exact hV
    · simp only [hvi] at hs
      cases hs
      refine ⟨n, Nat.le_refl _, by omega, rfl, hb, fun h => absurd h (Nat.lt_irrefl _), ?_⟩
      intro _ hV
      exact hvi ((viableV_derivsV D _).2 hV)

theorem scan_gen0 {prios : List Nat} {D : Vec} (hlen : prios.length = D.length)
    (w : List Nat) (p : Nat) (res : Rec) (off : Nat)
    (h : scan prios D w p none = (res, off)) :
    ∃ n', n' ≤ w.length ∧ off = p + n' ∧ Best prios D w p n' res ∧
      (0 < n' → ViableW D (w.take n')) ∧
      (n' < w.length → ¬ ViableW D (w.take (n'+1))) := by
  obtain ⟨n', _, h2, h3, h4, h5, h6⟩ :=
    scan_gen hlen w p w 0 none res off (Nat.zero_le _) (by simp) (by intro m hm hm'; omega)
      (by simpa [derivsV] using h)
  exact ⟨n', h2, h3, h4, h5, h6⟩

theorem not_anyMatch_beyond {D : Vec} {w : List Nat} {n m : Nat}
    (hstop : n < w.length → ¬ ViableW D (w.take (n+1))) (hnm : n < m) (hm : m ≤ w.length) :
    ¬ AnyMatch D (w.take m) := by
  intro h
  exact hstop (by omega) (viableW_take (by omega) (anyMatch_viableW h))

/-- **Longest match, top priority.** If the scan of `w` (from offset `p`, nothing recorded yet)
reports the record `(e, l)` then `w.take (e - p)` is non-empty, fully matched by leaf `l`, no leaf
matching it has a higher priority than `l`, and no longer prefix of `w` is fully matched by any leaf. -/
theorem scan_some {prios : List Nat} {D : Vec} (hlen : prios.length = D.length)
    (hne : ¬ AnyMatch D []) (w : List Nat) (p e l off : Nat)
    (h : scan prios D w p none = (some (e, l), off)) :
    p < e ∧ e ≤ p + w.length ∧ TopMatch prios D l (w.take (e - p)) ∧
    ∀ m, e - p < m → m ≤ w.length → ¬ AnyMatch D (w.take m) := by
  have _ := hne
  obtain ⟨n, hn, hoff, hb, hv, hstop⟩ := scan_gen0 hlen w p _ off h
  obtain ⟨h1, h2, h3, h4⟩ := hb
  refine ⟨h1, by omega, h3, ?_⟩
  intro m hm hml
  by_cases hmn : m ≤ n
  · exact h4 m hm hmn
  · exact not_anyMatch_beyond hstop (by omega) hml

/-- **No match: where the attempt stops.** If the scan reports no record then no non-empty prefix of
`w` is fully matched; it stopped after `off - p` bytes, every prefix up to that length could still be
extended to a match (when any pattern is satisfiable at all), and — unless the input ended — the
next byte makes every extension impossible. -/
theorem scan_none {prios : List Nat} {D : Vec} (hlen : prios.length = D.length)
    (hne : ¬ AnyMatch D []) (w : List Nat) (p off : Nat)
    (h : scan prios D w p none = (none, off)) :
    (∀ m, 0 < m → m ≤ w.length → ¬ AnyMatch D (w.take m)) ∧
    p ≤ off ∧ off ≤ p + w.length ∧
    (∀ m, 0 < m → m ≤ off - p → ViableW D (w.take m)) ∧
    (off - p < w.length → ¬ ViableW D (w.take (off - p + 1))) := by
  have _ := hne
  obtain ⟨n, hn, hoff, hb, hv, hstop⟩ := scan_gen0 hlen w p _ off h
  have hop : off - p = n := by omega
  rw [hop]
  refine ⟨?_, by omega, by omega, ?_, hstop⟩
  · intro m hm hml
    by_cases hmn : m ≤ n
    · exact hb m hm hmn
    · exact not_anyMatch_beyond hstop (by omega) hml
  · intro m hm hmn
    exact viableW_take hmn (hv (by omega))

/-- Converse direction: the two cases are exhaustive, so the scan *finds* the longest match whenever
one exists. -/
theorem scan_finds {prios : List Nat} {D : Vec} (hlen : prios.length = D.length)
    (hne : ¬ AnyMatch D []) (w : List Nat) (p m : Nat) (hm : 0 < m) (hml : m ≤ w.length)
    (hmatch : AnyMatch D (w.take m)) :
    ∃ e l off, scan prios D w p none = (some (e, l), off) ∧ p + m ≤ e := by
  cases hs : scan prios D w p none with
  | mk res off =>
    cases res with
    | none =>
      exact absurd hmatch ((scan_none hlen hne w p off hs).1 m hm hml)
    | some el =>
      obtain ⟨e, l⟩ := el
      obtain ⟨h1, h2, _, h4⟩ := scan_some hlen hne w p e l off hs
      refine ⟨e, l, off, rfl, ?_⟩
      by_cases hlt : e - p < m
      · exact absurd hmatch (h4 m hlt hml)
      · omega

end Logos
