import LogosModel.Hir
import LogosModel.Priority
/-!
# A denotational semantics for the dumped HIR, and correctness of the lowering

`HMatches h w` says in the plainest possible way when the pattern `h` matches the byte string `w`
(literal = exactly its bytes; class = one of its byte-range sequences; repetition = between `min` and
`max` copies; concatenation; alternation; capture groups are transparent; greedy and lazy
repetitions denote the same language).  `lower_correct` states that the regex the reference lexer,
the certificate and all validators work on (`Hir.lower`) has exactly this language, for look-free
patterns.
-/
namespace Logos

/-- `w` is matched by the sequence of byte ranges `s` (same length, each byte in its range) -/
def SeqMatches : List (Nat × Nat) → List Nat → Prop
  | [], [] => True
  | (lo, hi) :: s, b :: w => lo ≤ b ∧ b ≤ hi ∧ SeqMatches s w
  | _, _ => False

mutual
inductive HMatches : Hir → List Nat → Prop
  | empty : HMatches .empty []
  | lit {bs : List Nat} : HMatches (.lit bs) bs
  | cls {u : Bool} {rs : List (Nat × Nat)} {seqs : List (List (Nat × Nat))} {s : List (Nat × Nat)} {w : List Nat} :
      s ∈ seqs → SeqMatches s w → HMatches (.cls u rs seqs) w
  | rep {mn : Nat} {mx : Option Nat} {g : Bool} {s : Hir} {ws : List (List Nat)} :
      HMatchesAll s ws → mn ≤ ws.length → (∀ m, mx = some m → ws.length ≤ m) →
      HMatches (.rep mn mx g s) ws.flatten
  | cap {s : Hir} {w : List Nat} : HMatches s w → HMatches (.cap s) w
  | cat {ss : List Hir} {w : List Nat} : HMatchesCat ss w → HMatches (.cat ss) w
  | alt {ss : List Hir} {s : Hir} {w : List Nat} : s ∈ ss → HMatches s w → HMatches (.alt ss) w
/-- every string of the list is matched by `s` -/
inductive HMatchesAll : Hir → List (List Nat) → Prop
  | nil {s : Hir} : HMatchesAll s []
  | cons {s : Hir} {w : List Nat} {ws : List (List Nat)} : HMatches s w → HMatchesAll s ws → HMatchesAll s (w :: ws)
/-- `w` splits into consecutive pieces matched by the patterns of the list in order -/
inductive HMatchesCat : List Hir → List Nat → Prop
  | nil : HMatchesCat [] []
  | cons {s : Hir} {ss : List Hir} {u v : List Nat} : HMatches s u → HMatchesCat ss v → HMatchesCat (s :: ss) (u ++ v)
end

/-! ## Building blocks -/

theorem matches_set_single {lo hi : Nat} {w : List Nat} :
    Matches (.set [(lo, hi)]) w ↔ ∃ b, w = [b] ∧ lo ≤ b ∧ b ≤ hi := by
  constructor
  · intro h
    cases h with
    | set hb =>
      simp [inRanges] at hb
      exact ⟨_, rfl, hb⟩
  · rintro ⟨b, rfl, h1, h2⟩
    exact .set (by simp [inRanges, h1, h2])

theorem matches_seqRe (s : List (Nat × Nat)) (w : List Nat) :
    Matches (seqRe s) w ↔ SeqMatches s w := by
  induction s generalizing w with
  | nil =>
    show Matches .eps w ↔ _
    cases w with
    | nil => simp [SeqMatches]; exact .eps
    | cons b w => simp [SeqMatches]; intro h; cases h
  | cons r s ih =>
    obtain ⟨lo, hi⟩ := r
    show Matches (mkCat (.set [(lo, hi)]) (seqRe s)) w ↔ _
    rw [matches_mkCat, matches_cat_iff]
    constructor
    · rintro ⟨u, v, rfl, h1, h2⟩
      obtain ⟨b, rfl, hlo, hhi⟩ := matches_set_single.1 h1
      show SeqMatches ((lo, hi) :: s) (b :: v)
      simp only [SeqMatches]
      exact ⟨hlo, hhi, (ih v).1 h2⟩
    · intro h
      cases w with
      | nil => simp [SeqMatches] at h
      | cons b w =>
        simp only [SeqMatches] at h
        exact ⟨[b], w, rfl, matches_set_single.2 ⟨b, rfl, h.1, h.2.1⟩, (ih w).2 h.2.2⟩

theorem matches_seqsRe (ss : List (List (Nat × Nat))) (w : List Nat) :
    Matches (seqsRe ss) w ↔ ∃ s, s ∈ ss ∧ SeqMatches s w := by
  induction ss with
  | nil =>
    show Matches .empty w ↔ _
    constructor
    · intro h; cases h
    · rintro ⟨s, hs, _⟩; cases hs
  | cons s ss ih =>
    show Matches (mkAlt (seqRe s) (seqsRe ss)) w ↔ _
    rw [matches_mkAlt, ih, matches_seqRe]
    constructor
    · rintro (h | ⟨s', hs', h⟩)
      · exact ⟨s, List.mem_cons_self, h⟩
      · exact ⟨s', List.mem_cons_of_mem _ hs', h⟩
    · rintro ⟨s', hs', h⟩
      rcases List.mem_cons.1 hs' with rfl | hs'
      · exact .inl h
      · exact .inr ⟨s', hs', h⟩

theorem matches_powRe (r : Re) (n : Nat) (w : List Nat) :
    Matches (powRe r n) w ↔
      ∃ ws : List (List Nat), ws.length = n ∧ (∀ x ∈ ws, Matches r x) ∧ w = ws.flatten := by
  induction n generalizing w with
  | zero =>
    show Matches .eps w ↔ _
    constructor
    · intro h; cases h; exact ⟨[], rfl, by simp, rfl⟩
    · rintro ⟨ws, hl, _, rfl⟩
      have : ws = [] := List.eq_nil_of_length_eq_zero hl
      subst this; exact .eps
  | succ n ih =>
    show Matches (mkCat r (powRe r n)) w ↔ _
    rw [matches_mkCat, matches_cat_iff]
    constructor
    · rintro ⟨u, v, rfl, h1, h2⟩
      obtain ⟨ws, hl, hall, rfl⟩ := (ih v).1 h2
      refine ⟨u :: ws, by simp [hl], ?_, by simp⟩
      intro x hx
      rcases List.mem_cons.1 hx with rfl | hx
      · exact h1
      · exact hall x hx
    · rintro ⟨ws, hl, hall, rfl⟩
      cases ws with
      | nil => simp at hl
      | cons u ws =>
        simp at hl
        exact ⟨u, ws.flatten, by simp, hall u List.mem_cons_self,
          (ih _).2 ⟨ws, hl, fun x hx => hall x (List.mem_cons_of_mem _ hx), rfl⟩⟩

theorem matches_powOpt (r : Re) (k : Nat) (w : List Nat) :
    Matches (powRe (mkAlt .eps r) k) w ↔
      ∃ ws : List (List Nat), ws.length ≤ k ∧ (∀ x ∈ ws, Matches r x) ∧ w = ws.flatten := by
  induction k generalizing w with
  | zero =>
    show Matches .eps w ↔ _
    constructor
    · intro h; cases h; exact ⟨[], Nat.le_refl _, by simp, rfl⟩
    · rintro ⟨ws, hl, _, rfl⟩
      have : ws = [] := List.eq_nil_of_length_eq_zero (Nat.le_zero.1 hl)
      subst this; exact .eps
  | succ k ih =>
    show Matches (mkCat (mkAlt .eps r) (powRe (mkAlt .eps r) k)) w ↔ _
    rw [matches_mkCat, matches_cat_iff]
    constructor
    · rintro ⟨u, v, rfl, h1, h2⟩
      obtain ⟨ws, hl, hall, rfl⟩ := (ih v).1 h2
      rcases matches_mkAlt.1 h1 with h1 | h1
      · cases h1
        exact ⟨ws, Nat.le_succ_of_le hl, hall, by simp⟩
      · refine ⟨u :: ws, by simp; omega, ?_, by simp⟩
        intro x hx
        rcases List.mem_cons.1 hx with rfl | hx
        · exact h1
        · exact hall x hx
    · rintro ⟨ws, hl, hall, rfl⟩
      cases ws with
      | nil =>
        exact ⟨[], [], rfl, matches_mkAlt.2 (.inl .eps), (ih _).2 ⟨[], Nat.zero_le _, by simp, rfl⟩⟩
      | cons u ws =>
        simp at hl
        exact ⟨u, ws.flatten, by simp, matches_mkAlt.2 (.inr (hall u List.mem_cons_self)),
          (ih _).2 ⟨ws, hl, fun x hx => hall x (List.mem_cons_of_mem _ hx), rfl⟩⟩

theorem matches_star (r : Re) (w : List Nat) :
    Matches (.star r) w ↔ ∃ ws : List (List Nat), (∀ x ∈ ws, Matches r x) ∧ w = ws.flatten := by
  constructor
  · intro h
    generalize hr : Re.star r = q at h
    induction h with
    | starNil => exact ⟨[], by simp, rfl⟩
    | @starCons a' u v h1 hne h2 _ ih2 =>
      cases hr
      obtain ⟨ws, hall, rfl⟩ := ih2 rfl
      refine ⟨u :: ws, ?_, by simp⟩
      intro x hx
      rcases List.mem_cons.1 hx with rfl | hx
      · exact h1
      · exact hall x hx
    | eps => cases hr
    | set _ => cases hr
    | cat _ _ => cases hr
    | altL _ => cases hr
    | altR _ => cases hr
  · rintro ⟨ws, hall, rfl⟩
    induction ws with
    | nil => exact .starNil
    | cons u ws ih =>
      have ih' := ih (fun x hx => hall x (List.mem_cons_of_mem _ hx))
      by_cases hu : u = []
      · subst hu; simpa using ih'
      · rw [List.flatten_cons]
        exact .starCons (hall u List.mem_cons_self) hu ih'

/-- language of the lowering of a bounded / unbounded repetition, for well-formed bounds -/
theorem matches_repRe (r : Re) (mn : Nat) (mx : Option Nat) (hb : ∀ m, mx = some m → mn ≤ m)
    (w : List Nat) :
    Matches (match (generalizing := false) mx with
      | some m => mkCat (powRe r mn) (powRe (mkAlt .eps r) (m - mn))
      | none => mkCat (powRe r mn) (.star r)) w ↔
      ∃ ws : List (List Nat), (∀ x ∈ ws, Matches r x) ∧ mn ≤ ws.length ∧
        (∀ m, mx = some m → ws.length ≤ m) ∧ w = ws.flatten := by
  cases mx with
  | none =>
    show Matches (mkCat (powRe r mn) (.star r)) w ↔ _
    rw [matches_mkCat, matches_cat_iff]
    constructor
    · rintro ⟨u, v, rfl, h1, h2⟩
      obtain ⟨us, hl, hu, rfl⟩ := (matches_powRe r mn u).1 h1
      obtain ⟨vs, hv, rfl⟩ := (matches_star r v).1 h2
      refine ⟨us ++ vs, ?_, by simp; omega, by simp, by simp⟩
      intro x hx
      rcases List.mem_append.1 hx with hx | hx
      · exact hu x hx
      · exact hv x hx
    · rintro ⟨ws, hall, hmn, _, rfl⟩
      refine ⟨(ws.take mn).flatten, (ws.drop mn).flatten, ?_, ?_, ?_⟩
      · rw [← List.flatten_append, List.take_append_drop]
      · exact (matches_powRe r mn _).2 ⟨ws.take mn, by simp; omega,
          fun x hx => hall x (List.mem_of_mem_take hx), rfl⟩
      · exact (matches_star r _).2 ⟨ws.drop mn, fun x hx => hall x (List.mem_of_mem_drop hx), rfl⟩
  | some m =>
    have hmn : mn ≤ m := hb m rfl
    show Matches (mkCat (powRe r mn) (powRe (mkAlt .eps r) (m - mn))) w ↔ _
    rw [matches_mkCat, matches_cat_iff]
    constructor
    · rintro ⟨u, v, rfl, h1, h2⟩
      obtain ⟨us, hl, hu, rfl⟩ := (matches_powRe r mn u).1 h1
      obtain ⟨vs, hlv, hv, rfl⟩ := (matches_powOpt r (m - mn) v).1 h2
      refine ⟨us ++ vs, ?_, by simp; omega, ?_, by simp⟩
      · intro x hx
        rcases List.mem_append.1 hx with hx | hx
        · exact hu x hx
        · exact hv x hx
      · intro m' hm'
        cases hm'
        simp; omega
    · rintro ⟨ws, hall, hmn', hmx, rfl⟩
      have hmx' := hmx m rfl
      refine ⟨(ws.take mn).flatten, (ws.drop mn).flatten, ?_, ?_, ?_⟩
      · rw [← List.flatten_append, List.take_append_drop]
      · exact (matches_powRe r mn _).2 ⟨ws.take mn, by simp; omega,
          fun x hx => hall x (List.mem_of_mem_take hx), rfl⟩
      · exact (matches_powOpt r (m - mn) _).2 ⟨ws.drop mn, by simp; omega,
          fun x hx => hall x (List.mem_of_mem_drop hx), rfl⟩

/-! ## Inversion lemmas for the declarative semantics -/

theorem hmatchesAll_iff (s : Hir) (ws : List (List Nat)) :
    HMatchesAll s ws ↔ ∀ x ∈ ws, HMatches s x := by
  induction ws with
  | nil => simp; exact .nil
  | cons w ws ih =>
    constructor
    · intro h
      cases h with
      | cons h1 h2 =>
        intro x hx
        rcases List.mem_cons.1 hx with rfl | hx
        · exact h1
        · exact ih.1 h2 x hx
    · intro h
      exact .cons (h w List.mem_cons_self) (ih.2 fun x hx => h x (List.mem_cons_of_mem _ hx))

theorem hmatches_empty_iff {w : List Nat} : HMatches .empty w ↔ w = [] := by
  constructor
  · intro h; cases h; rfl
  · rintro rfl; exact .empty

theorem hmatches_lit_iff {bs w : List Nat} : HMatches (.lit bs) w ↔ w = bs := by
  constructor
  · intro h; cases h; rfl
  · rintro rfl; exact .lit

theorem hmatches_cls_iff {u : Bool} {rs : List (Nat × Nat)} {seqs : List (List (Nat × Nat))}
    {w : List Nat} : HMatches (.cls u rs seqs) w ↔ ∃ s, s ∈ seqs ∧ SeqMatches s w := by
  constructor
  · intro h; cases h with | cls h1 h2 => exact ⟨_, h1, h2⟩
  · rintro ⟨s, h1, h2⟩; exact .cls h1 h2

theorem not_hmatches_look {c : Nat} {w : List Nat} : ¬ HMatches (.look c) w := by
  intro h; cases h

theorem hmatches_rep_iff {mn : Nat} {mx : Option Nat} {g : Bool} {s : Hir} {w : List Nat} :
    HMatches (.rep mn mx g s) w ↔
      ∃ ws : List (List Nat), (∀ x ∈ ws, HMatches s x) ∧ mn ≤ ws.length ∧
        (∀ m, mx = some m → ws.length ≤ m) ∧ w = ws.flatten := by
  constructor
  · intro h
    cases h with
    | rep h1 h2 h3 => exact ⟨_, (hmatchesAll_iff _ _).1 h1, h2, h3, rfl⟩
  · rintro ⟨ws, h1, h2, h3, rfl⟩
    exact .rep ((hmatchesAll_iff _ _).2 h1) h2 h3

theorem hmatches_cap_iff {s : Hir} {w : List Nat} : HMatches (.cap s) w ↔ HMatches s w := by
  constructor
  · intro h; cases h with | cap h => exact h
  · exact .cap

theorem hmatches_cat_iff {ss : List Hir} {w : List Nat} : HMatches (.cat ss) w ↔ HMatchesCat ss w := by
  constructor
  · intro h; cases h with | cat h => exact h
  · exact .cat

theorem hmatches_alt_iff {ss : List Hir} {w : List Nat} :
    HMatches (.alt ss) w ↔ ∃ s, s ∈ ss ∧ HMatches s w := by
  constructor
  · intro h; cases h with | alt h1 h2 => exact ⟨_, h1, h2⟩
  · rintro ⟨s, h1, h2⟩; exact .alt h1 h2

theorem hmatchesCat_nil_iff {w : List Nat} : HMatchesCat [] w ↔ w = [] := by
  constructor
  · intro h; cases h; rfl
  · rintro rfl; exact .nil

theorem hmatchesCat_cons_iff {s : Hir} {ss : List Hir} {w : List Nat} :
    HMatchesCat (s :: ss) w ↔ ∃ u v, w = u ++ v ∧ HMatches s u ∧ HMatchesCat ss v := by
  constructor
  · intro h; cases h with | cons h1 h2 => exact ⟨_, _, rfl, h1, h2⟩
  · rintro ⟨u, v, rfl, h1, h2⟩; exact .cons h1 h2

/-! ## Well-formed repetition bounds -/

mutual
/-- every bounded repetition `{mn,m}` of the tree has `mn ≤ m` -/
def Hir.repOK : Hir → Bool
  | .rep mn mx _ s => (match mx with | some m => decide (mn ≤ m) | none => true) && s.repOK
  | .cap s => s.repOK
  | .cat ss => Hir.repOKL ss
  | .alt ss => Hir.repOKL ss
  | _ => true
def Hir.repOKL : List Hir → Bool
  | [] => true
  | h :: t => h.repOK && Hir.repOKL t
end

/-! ## The main theorem -/

mutual
/-- **The lowering is correct**: for a look-free pattern with well-formed repetition bounds, the core
regex it is lowered to matches exactly the strings of the declarative semantics. -/
theorem lower_correct_wf (h : Hir) (hl : h.hasLook = false) (hr : h.repOK = true) (w : List Nat) :
    Matches h.lower w ↔ HMatches h w := by
  match h with
  | .empty =>
    simp only [Hir.lower]
    rw [hmatches_empty_iff]
    constructor
    · intro h; cases h; rfl
    · rintro rfl; exact .eps
  | .lit bs =>
    simp only [Hir.lower]
    rw [hmatches_lit_iff, matches_litRe]
  | .cls _ _ seqs =>
    simp only [Hir.lower]
    rw [hmatches_cls_iff, matches_seqsRe]
  | .look _ =>
    simp [Hir.hasLook] at hl
  | .rep mn mx g s =>
    simp only [Hir.hasLook] at hl
    simp only [Hir.repOK, Bool.and_eq_true] at hr
    have ih := lower_correct_wf s hl hr.2
    have hb : ∀ m, mx = some m → mn ≤ m := by
      intro m hm; subst hm; simpa using hr.1
    simp only [Hir.lower]
    refine Iff.trans (matches_repRe s.lower mn mx hb w) ?_
    rw [hmatches_rep_iff]
    constructor
    · rintro ⟨ws, h1, h2⟩; exact ⟨ws, fun x hx => (ih x).1 (h1 x hx), h2⟩
    · rintro ⟨ws, h1, h2⟩; exact ⟨ws, fun x hx => (ih x).2 (h1 x hx), h2⟩
  | .cap s =>
    simp only [Hir.hasLook] at hl
    simp only [Hir.repOK] at hr
    simp only [Hir.lower]
    rw [hmatches_cap_iff]
    exact lower_correct_wf s hl hr w
  | .cat ss =>
    simp only [Hir.hasLook] at hl
    simp only [Hir.repOK] at hr
    simp only [Hir.lower]
    rw [hmatches_cat_iff]
    exact lowerCat_correct_wf ss hl hr w
  | .alt ss =>
    simp only [Hir.hasLook] at hl
    simp only [Hir.repOK] at hr
    simp only [Hir.lower]
    rw [hmatches_alt_iff]
    exact lowerAlt_correct_wf ss hl hr w
theorem lowerCat_correct_wf (ss : List Hir) (hl : Hir.hasLookL ss = false)
    (hr : Hir.repOKL ss = true) (w : List Nat) :
    Matches (Hir.lowerCat ss) w ↔ HMatchesCat ss w := by
  match ss with
  | [] =>
    simp only [Hir.lowerCat]
    rw [hmatchesCat_nil_iff]
    constructor
    · intro h; cases h; rfl
    · rintro rfl; exact .eps
  | h :: t =>
    simp only [Hir.hasLookL, Bool.or_eq_false_iff] at hl
    simp only [Hir.repOKL, Bool.and_eq_true] at hr
    simp only [Hir.lowerCat]
    rw [matches_mkCat, matches_cat_iff, hmatchesCat_cons_iff]
    constructor
    · rintro ⟨u, v, rfl, h1, h2⟩
      exact ⟨u, v, rfl, (lower_correct_wf h hl.1 hr.1 u).1 h1, (lowerCat_correct_wf t hl.2 hr.2 v).1 h2⟩
    · rintro ⟨u, v, rfl, h1, h2⟩
      exact ⟨u, v, rfl, (lower_correct_wf h hl.1 hr.1 u).2 h1, (lowerCat_correct_wf t hl.2 hr.2 v).2 h2⟩
theorem lowerAlt_correct_wf (ss : List Hir) (hl : Hir.hasLookL ss = false)
    (hr : Hir.repOKL ss = true) (w : List Nat) :
    Matches (Hir.lowerAlt ss) w ↔ ∃ s, s ∈ ss ∧ HMatches s w := by
  match ss with
  | [] =>
    simp only [Hir.lowerAlt]
    constructor
    · intro h; cases h
    · rintro ⟨s, hs, _⟩; cases hs
  | h :: t =>
    simp only [Hir.hasLookL, Bool.or_eq_false_iff] at hl
    simp only [Hir.repOKL, Bool.and_eq_true] at hr
    simp only [Hir.lowerAlt]
    rw [matches_mkAlt, lower_correct_wf h hl.1 hr.1 w, lowerAlt_correct_wf t hl.2 hr.2 w]
    constructor
    · rintro (h1 | ⟨s, hs, h1⟩)
      · exact ⟨h, List.mem_cons_self, h1⟩
      · exact ⟨s, List.mem_cons_of_mem _ hs, h1⟩
    · rintro ⟨s, hs, h1⟩
      rcases List.mem_cons.1 hs with rfl | hs
      · exact .inl h1
      · exact .inr ⟨s, hs, h1⟩
end

/-
UNPROVABLE-AS-STATED.  The original statement

theorem lower_correct (h : Hir) (hl : h.hasLook = false) (w : List Nat) :
    Matches h.lower w ↔ HMatches h w

is FALSE for a repetition whose upper bound is smaller than its lower bound (`m - mn` truncates to
`0`, so the lowering denotes exactly `mn` copies, whereas `HMatches` demands
`mn ≤ ws.length ≤ m < mn`).  Counterexample: `h = .rep 1 (some 0) true .empty`, `w = []`;
see `lower_correct_counterexample` below.  `lower_correct_wf` above proves the statement under the
additional hypothesis `h.repOK = true`.
-/

/-- the original `lower_correct` fails on `x{1,0}` -/
theorem lower_correct_counterexample :
    ¬ (∀ (h : Hir) (_ : h.hasLook = false) (w : List Nat), Matches h.lower w ↔ HMatches h w) := by
  intro H
  have h1 : Matches (Hir.rep 1 (some 0) true .empty).lower [] := by
    simp [Hir.lower, powRe, mkCat]
    exact .eps
  have h2 := (H (.rep 1 (some 0) true .empty) (by simp [Hir.hasLook]) []).1 h1
  obtain ⟨ws, _, hmn, hmx, _⟩ := hmatches_rep_iff.1 h2
  have := hmx 0 rfl
  omega

end Logos
