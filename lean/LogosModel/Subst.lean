/-!
# The text pipeline in front of the regex parser (C10, C11, C18)

`Literal::escape` (logos-codegen/src/parser/definition.rs), `Subpattern::new`, `Subpatterns::new` and
`Subpatterns::subst_subpatterns` (parser/subpattern.rs), and the order in which `generate` (lib.rs) hands
regex sources to `Pattern::compile`.

Strings are their UTF-8 bytes (`List Nat`); every construct the code looks at is ASCII, so scanning bytes
and scanning chars agree.  `regex_syntax::escape` is transcribed (`isMeta` is `is_meta_character`).
The test compile of a subpattern (regex-syntax's parser plus the UTF-8 check) is the parameter `ok`.
-/
namespace Logos.Subst

abbrev Str := List Nat

/-- `[0-9a-zA-Z_]` -/
def isIdent (b : Nat) : Bool :=
  (48 ≤ b && b ≤ 57) || (65 ≤ b && b ≤ 90) || (97 ≤ b && b ≤ 122) || b == 95

/-- `regex_syntax::is_meta_character`: `\ . + * ? ( ) | [ ] { } ^ $ # & - ~` -/
def isMeta (b : Nat) : Bool :=
  b == 92 || b == 46 || b == 43 || b == 42 || b == 63 || b == 40 || b == 41 || b == 124 || b == 91 ||
  b == 93 || b == 123 || b == 125 || b == 94 || b == 36 || b == 35 || b == 38 || b == 45 || b == 126

/-! ## `Literal::escape` -/

inductive Lit where
  | str (utf8 : Str)        -- `Literal::Utf8`: the UTF-8 bytes of the string value
  | bytes (bs : Str)        -- `Literal::Bytes`
deriving Repr, DecidableEq

def Lit.value : Lit → Str
  | .str s => s
  | .bytes s => s

def Lit.unicode : Lit → Bool
  | .str _ => true
  | .bytes _ => false

def hexDigit (n : Nat) : Nat := if n < 10 then 48 + n else 55 + n     -- upper case, `{byte:02X}`

/-- one byte of a string literal: `regex_syntax::escape` puts a backslash in front of a meta character
(all meta characters are ASCII, so the bytes of a multi-byte character pass through) -/
def escStrByte (literal : Bool) (b : Nat) : Str :=
  if literal && isMeta b then [92, b] else [b]

/-- one byte of a byte-string literal: ASCII as for strings, anything else as `\xNN` -/
def escBytesByte (literal : Bool) (b : Nat) : Str :=
  if b ≤ 127 then escStrByte literal b else [92, 120, hexDigit (b / 16), hexDigit (b % 16)]

def escape (literal : Bool) : Lit → Str
  | .str s => s.flatMap (escStrByte literal)
  | .bytes s => s.flatMap (escBytesByte literal)

def hexVal (c : Nat) : Option Nat :=
  if 48 ≤ c && c ≤ 57 then some (c - 48) else if 65 ≤ c && c ≤ 70 then some (c - 55) else none

/-- The fragment of the regex syntax an escaped literal is written in, read back: `\m` for a meta
character `m` is `m`; `\xHH` is the byte `HH`; any byte that is not a meta character is itself; a bare
meta character is not part of the fragment. -/
def unescape : Str → Option Str
  | [] => some []
  | 92 :: 120 :: h :: l :: rest =>
    match hexVal h, hexVal l, unescape rest with
    | some a, some b, some r => some ((a * 16 + b) :: r)
    | _, _, _ => none
  | 92 :: m :: rest =>
    if isMeta m then (unescape rest).map (m :: ·) else none
  | b :: rest =>
    if isMeta b then none else (unescape rest).map (b :: ·)

/-! ## `(?&name)` references -/

/-- the longest prefix of identifier bytes, and what follows -/
def spanIdent : Str → Str × Str
  | [] => ([], [])
  | b :: t => if isIdent b then let (n, r) := spanIdent t; (b :: n, r) else ([], b :: t)

/-- `\(\?\&[0-9a-zA-Z_]+\)` anchored at the head: the name and the rest -/
def matchRef : Str → Option (Str × Str)
  | 40 :: 63 :: 38 :: t =>
    match spanIdent t with
    | (n, 41 :: r) => if n.isEmpty then none else some (n, r)
    | _ => none
  | _ => none

inductive Tok where
  | ch (b : Nat)
  | ref (name : Str)
deriving Repr, DecidableEq

/-- `SUBPATTERN_GROUP.find_iter`: leftmost, non-overlapping references; everything else byte by byte -/
def toksF : Nat → Str → List Tok
  | 0, _ => []
  | _, [] => []
  | fuel + 1, b :: t =>
    match matchRef (b :: t) with
    | some (n, r) => .ref n :: toksF fuel r
    | none => .ch b :: toksF fuel t

def toks (s : Str) : List Tok := toksF s.length s

def Tok.render : Tok → Str
  | .ch b => [b]
  | .ref n => [40, 63, 38] ++ n ++ [41]

def refs (s : Str) : List Str := (toks s).filterMap fun | .ref n => some n | .ch _ => none

abbrev Map := List (Str × Str)          -- newest binding first

def Map.get (m : Map) (n : Str) : Option Str := (m.find? (·.1 == n)).map (·.2)

def expandTok (m : Map) : Tok → Option Str
  | .ch b => some [b]
  | .ref n => m.get n

/-- `subst_subpatterns`: `none` when some referenced name is missing -/
def substToks (m : Map) : List Tok → Option Str
  | [] => some []
  | t :: ts =>
    match expandTok m t, substToks m ts with
    | some a, some r => some (a ++ r)
    | _, _ => none

def subst (m : Map) (p : Str) : Option Str := substToks m (toks p)

/-- the number of "Subpattern not found" diagnostics -/
def missing (m : Map) (p : Str) : Nat := ((refs p).filter fun n => (m.get n).isNone).length

/-- `Subpattern::new`: `(?u:src)` / `(?-u:src)` -/
def wrap (unicode : Bool) (src : Str) : Str :=
  (if unicode then [40, 63, 117, 58] else [40, 63, 45, 117, 58]) ++ src ++ [41]

structure SubDef where
  name : Str
  lit : Lit
deriving Repr, DecidableEq

def SubDef.wrapped (d : SubDef) : Str := wrap d.lit.unicode (escape false d.lit)

structure Build where
  map : Map := []
  errs : Nat := 0
  compiles : List Str := []        -- regex sources handed to `Pattern::compile`, oldest first
deriving Repr

/-- one iteration of the loop of `Subpatterns::new` -/
def buildStep (ok : Str → Bool) (b : Build) (d : SubDef) : Build :=
  if !d.name.any isIdent then { b with errs := b.errs + 1 } else
  match subst b.map d.wrapped with
  | none => { b with errs := b.errs + missing b.map d.wrapped }
  | some p =>
    let b := { b with compiles := b.compiles ++ [p] }
    if !ok p then { b with errs := b.errs + 1 } else
    if (b.map.get d.name).isSome then
      { b with map := (d.name, p) :: b.map, errs := b.errs + 1 }     -- `HashMap::insert` replaces
    else { b with map := (d.name, p) :: b.map }

def build (ok : Str → Bool) (ds : List SubDef) : Build := ds.foldl (buildStep ok) {}

/-! ## Recursive inlining: the reference -/

def lookupDef (ds : List SubDef) (n : Str) : Option SubDef := ds.find? (·.name == n)

/-- one level of inlining over a token list; `rec` inlines the wrapped source of a referenced subpattern -/
def inlineToks (ds : List SubDef) (rec : Str → Option Str) : List Tok → Option Str
  | [] => some []
  | .ch b :: ts => (inlineToks ds rec ts).map (b :: ·)
  | .ref n :: ts =>
    match lookupDef ds n with
    | none => none
    | some d =>
      match rec d.wrapped, inlineToks ds rec ts with
      | some a, some r => some (a ++ r)
      | _, _ => none

/-- every reference replaced by the wrapped source of the subpattern of that name, recursively;
`none` when a name is not defined (or the nesting is deeper than `fuel`).  Nothing here depends on the
order of `ds` beyond "the first definition of a name". -/
def inlineF (ds : List SubDef) : Nat → Str → Option Str
  | 0, _ => none
  | fuel + 1, p => inlineToks ds (inlineF ds fuel) (toks p)

/-! ## The calls of `Pattern::compile` made by `generate`, in order -/

inductive Item where
  | regex (lit : Lit) (icase : Bool)        -- `#[regex]`, `#[logos(skip ...)]`
  | token (lit : Lit) (icase : Bool)        -- `#[token]`
deriving Repr, DecidableEq

structure Call where
  unicode : Bool
  icase : Bool
  src : Str
deriving Repr, DecidableEq

def itemCall (m : Map) : Item → Option Call
  | .regex lit ic => (subst m (escape false lit)).map fun p => ⟨lit.unicode, ic, p⟩
  | .token lit true => some ⟨lit.unicode, true, escape true lit⟩
  | .token _ false => none                  -- `Pattern::compile_lit`: no regex source at all

/-- subpattern test compiles (Unicode on, case-sensitive), then the items (skips first, as `generate`
orders them) -/
def compileCalls (ok : Str → Bool) (subs : List SubDef) (items : List Item) : List Call :=
  let b := build ok subs
  b.compiles.map (fun p => ⟨true, false, p⟩) ++ items.filterMap (itemCall b.map)

end Logos.Subst
