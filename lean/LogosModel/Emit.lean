import LogosModel.Interp
/-!
# The rendering decisions of the code generator (generator/fork.rs, fast_loop.rs, mod.rs; graph/mod.rs `ByteClass`)

For every state the generator decides: a fast loop on the self edge (always a look-up table test);
a jump table when the state has more than two edges, otherwise an if-chain whose conditions are either
a look-up-table bit test (when the comparison chain would cost more than two operations) or the chain of
comparisons produced by `ByteClass::impl_with_cmp` (adjacent ranges separated by a single missing byte
are fused into one range test with exceptions).  Look-up tables are allocated in emission order, one
bit per distinct byte set, eight per 256-byte table.

`planGraph` computes these decisions for a whole graph; the driver prints them and the check compares
them with the text of the code logos generates (so the text is *predicted* by the model, not only
evaluated).  The theorems say that the predicted code computes the transition function the
interpreter model uses (`Interp.fork`, the fast-loop predicate).
-/
namespace Logos.Emit
open Logos

/-- `Comparisons { range, except }` -/
structure Cmp where
  lo : Nat
  hi : Nat
  except : List Nat := []
deriving Repr, DecidableEq

/-- `(matches!(byte, lo ..= hi) && byte != e1 && …)` / `(byte == lo)` -/
def Cmp.eval (c : Cmp) (b : Nat) : Bool :=
  decide (c.lo ≤ b) && decide (b ≤ c.hi) && !(c.except.contains b)

/-- `Comparisons::count_ops` -/
def Cmp.countOps (c : Cmp) : Nat :=
  (if c.lo = c.hi then 1 else (if 0 < c.lo then 1 else 0) + (if c.hi < 255 then 1 else 0)) + c.except.length

/-- `ByteClass::impl_with_cmp`; the accumulator holds the comparisons built so far, last one first -/
def implGo : List (Nat × Nat) → List Cmp → List Cmp
  | [], acc => acc.reverse
  | (lo, hi) :: rest, [] => implGo rest [{ lo := lo, hi := hi }]
  | (lo, hi) :: rest, c :: acc =>
    if lo = c.hi + 2 then implGo rest ({ lo := c.lo, hi := hi, except := c.except ++ [lo - 1] } :: acc)
    else implGo rest ({ lo := lo, hi := hi } :: c :: acc)

def implWithCmp (rs : List (Nat × Nat)) : List Cmp := implGo rs []

def cmpCount (rs : List (Nat × Nat)) : Nat := ((implWithCmp rs).map Cmp.countOps).sum

/-- the invariant `ByteClass` documents: ranges sorted, inside `0..=255`, separated by at least one
missing byte -/
def NormalRanges : List (Nat × Nat) → Prop
  | [] => True
  | [(lo, hi)] => lo ≤ hi ∧ hi ≤ 255
  | (lo, hi) :: (lo', hi') :: rest => lo ≤ hi ∧ hi + 1 < lo' ∧ NormalRanges ((lo', hi') :: rest)

def normalRangesB : List (Nat × Nat) → Bool
  | [] => true
  | [(lo, hi)] => decide (lo ≤ hi) && decide (hi ≤ 255)
  | (lo, hi) :: (lo', hi') :: rest => decide (lo ≤ hi) && decide (hi + 1 < lo') && normalRangesB ((lo', hi') :: rest)

theorem normalRangesB_iff (rs : List (Nat × Nat)) : normalRangesB rs = true ↔ NormalRanges rs := by
  fun_induction normalRangesB rs <;> simp_all [NormalRanges, and_assoc]

theorem NormalRanges.cons_inv {lo hi : Nat} {rest : List (Nat × Nat)} (h : NormalRanges ((lo, hi) :: rest)) :
    lo ≤ hi ∧ NormalRanges rest ∧ (∀ r ∈ rest.head?, hi + 1 < r.1) := by
  match rest, h with
  | [], h => exact ⟨h.1, trivial, by simp⟩
  | (lo', hi') :: rest', h =>
    refine ⟨h.1, h.2.2, ?_⟩
    simpa using h.2.1

theorem inRanges_cons (lo hi : Nat) (rs : List (Nat × Nat)) (b : Nat) :
    inRanges ((lo, hi) :: rs) b = ((decide (lo ≤ b) && decide (b ≤ hi)) || inRanges rs b) := by
  simp [inRanges]

theorem implGo_sem (b : Nat) (rs : List (Nat × Nat)) (acc : List Cmp)
    (hn : NormalRanges rs)
    (hacc : ∀ c ∈ acc.head?, c.lo ≤ c.hi ∧ (∀ e ∈ c.except, e < c.hi) ∧
      (∀ r ∈ rs.head?, c.hi + 1 < r.1)) :
    (implGo rs acc).any (·.eval b) = (acc.any (·.eval b) || inRanges rs b) := by
  fun_induction implGo rs acc with
  | case1 acc => simp [inRanges]
  | case2 lo hi rest ih =>
    obtain ⟨h1, h2, h3⟩ := hn.cons_inv
    rw [ih h2, inRanges_cons]
    · simp [Cmp.eval]
    · simp; exact ⟨h1, by simpa using h3⟩
  | case3 hi rest c acc ih =>
    obtain ⟨h1, h2, h3⟩ := hn.cons_inv
    obtain ⟨a1, a2, a3⟩ := hacc c (by simp)
    rw [ih h2, inRanges_cons]
    · simp only [List.any_cons, Cmp.eval, List.contains_append]
      generalize (acc.any _) = X
      generalize inRanges rest b = Y
      have hP : c.except.contains b = true → b < c.hi := by
        intro h; exact a2 b (by simpa using h)
      have key : (decide (c.lo ≤ b) && decide (b ≤ hi) && !(c.except.contains b || [c.hi + 2 - 1].contains b)) =
          (decide (c.lo ≤ b) && decide (b ≤ c.hi) && !c.except.contains b || decide (c.hi + 2 ≤ b) && decide (b ≤ hi)) := by
        rcases Bool.eq_false_or_eq_true (c.except.contains b) with hp | hp
        · have := hP hp
          simp only [hp]
          simp; omega
        · simp only [hp]
          rw [Bool.eq_iff_iff]; simp; omega
      rw [key]
      simp [Bool.or_assoc, Bool.or_comm, Bool.or_left_comm]
    · simp
      refine ⟨by omega, ?_, by simpa using h3⟩
      intro e he
      rcases he with he | he
      · have := a2 e he; omega
      · omega
  | case4 lo hi rest c acc hlo ih =>
    obtain ⟨h1, h2, h3⟩ := hn.cons_inv
    rw [ih h2, inRanges_cons]
    · simp only [List.any_cons, Cmp.eval]
      generalize (acc.any _) = X
      generalize inRanges rest b = Y
      simp [Bool.or_assoc, Bool.or_comm, Bool.or_left_comm]
    · simp; exact ⟨h1, by simpa using h3⟩


/-- **The comparison chain tests membership in the byte class.** -/
theorem implWithCmp_sem (rs : List (Nat × Nat)) (h : NormalRanges rs) (b : Nat) :
    (implWithCmp rs).any (·.eval b) = inRanges rs b := by
  rw [implWithCmp, implGo_sem b rs [] h (by simp)]; simp

/-! ## `ByteClass::add_byte` / `merge` (used when de-duplication fuses edges) -/

/-- `add_byte`, on a list kept in reverse (last range first) -/
def addByteRev (acc : List (Nat × Nat)) (b : Nat) : List (Nat × Nat) :=
  match acc with
  | (lo, hi) :: t => if hi + 1 = b then (lo, b) :: t else (b, b) :: (lo, hi) :: t
  | [] => [(b, b)]

/-- `ByteClass::merge`: rebuild the class from the union of the two 256-entry tables -/
def mergeRanges (a b : List (Nat × Nat)) : List (Nat × Nat) :=
  ((List.range 256).foldl (fun acc x => if inRanges a x || inRanges b x then addByteRev acc x else acc) []).reverse

def RevOK : Nat → List (Nat × Nat) → Prop
  | _, [] => True
  | n, (lo, hi) :: t => lo ≤ hi ∧ hi + 1 < n ∧ RevOK lo t

theorem RevOK.mono {n m : Nat} {acc : List (Nat × Nat)} (h : RevOK n acc) (hnm : n ≤ m) : RevOK m acc := by
  cases acc with
  | nil => trivial
  | cons r t => exact ⟨h.1, by have := h.2.1; omega, h.2.2⟩

theorem NormalRanges.mk_cons {lo hi : Nat} {rest : List (Nat × Nat)} (h1 : lo ≤ hi)
    (h2 : ∀ r ∈ rest.head?, hi + 1 < r.1) (h3 : rest = [] → hi ≤ 255) (h4 : NormalRanges rest) :
    NormalRanges ((lo, hi) :: rest) := by
  match rest, h2, h3, h4 with
  | [], _, h3, _ => exact ⟨h1, h3 rfl⟩
  | (lo', hi') :: rest', h2, _, h4 => exact ⟨h1, by simpa using h2, h4⟩

theorem RevOK.normal_append {m : Nat} {acc suffix : List (Nat × Nat)} (h : RevOK m acc)
    (hs : NormalRanges suffix) (hh : ∀ r ∈ suffix.head?, m ≤ r.1) (he : suffix = [] → m ≤ 257) :
    NormalRanges (acc.reverse ++ suffix) := by
  induction acc generalizing m suffix with
  | nil => simpa using hs
  | cons r t ih =>
    obtain ⟨lo, hi⟩ := r
    obtain ⟨h1, h2, h3⟩ := h
    rw [List.reverse_cons, List.append_assoc]
    apply ih h3
    · apply NormalRanges.mk_cons h1 _ _ hs
      · intro r hr; have := hh r hr; omega
      · intro e; have := he e; omega
    · simp
    · simp

theorem addByteRev_ok {n : Nat} {acc : List (Nat × Nat)} (h : RevOK (n + 1) acc) :
    RevOK (n + 2) (addByteRev acc n) ∧ ∀ x, inRanges (addByteRev acc n) x = (inRanges acc x || decide (x = n)) := by
  unfold addByteRev
  split
  · next lo hi t =>
    obtain ⟨h1, h2, h3⟩ := h
    split
    · next e =>
      refine ⟨⟨by omega, by omega, h3⟩, ?_⟩
      intro x
      rw [inRanges_cons, inRanges_cons]
      generalize inRanges t x = Y
      have : (decide (lo ≤ x) && decide (x ≤ n)) = (decide (lo ≤ x) && decide (x ≤ hi) || decide (x = n)) := by
        rw [Bool.eq_iff_iff]; simp; omega
      rw [this]
      simp [Bool.or_comm, Bool.or_left_comm]
    · next e =>
      refine ⟨⟨by omega, by omega, h1, by omega, h3⟩, ?_⟩
      intro x
      rw [inRanges_cons]
      have : (decide (n ≤ x) && decide (x ≤ n)) = decide (x = n) := by
        rw [Bool.eq_iff_iff]; simp; omega
      rw [this, Bool.or_comm]
  · refine ⟨⟨by omega, by omega, trivial⟩, ?_⟩
    intro x
    rw [inRanges_cons]
    have : (decide (n ≤ x) && decide (x ≤ n)) = decide (x = n) := by
      rw [Bool.eq_iff_iff]; simp; omega
    rw [this, Bool.or_comm]

theorem fold_inv (p : Nat → Bool) (n : Nat) :
    RevOK (n + 1) ((List.range n).foldl (fun acc x => if p x then addByteRev acc x else acc) []) ∧
    ∀ x, inRanges ((List.range n).foldl (fun acc x => if p x then addByteRev acc x else acc) []) x
      = (decide (x < n) && p x) := by
  induction n with
  | zero => simp [RevOK, inRanges]
  | succ n ih =>
    rw [List.range_succ, List.foldl_append]
    simp only [List.foldl_cons, List.foldl_nil]
    generalize (List.range n).foldl _ [] = acc at ih ⊢
    obtain ⟨i1, i2⟩ := ih
    by_cases hp : p n
    · rw [if_pos hp]
      obtain ⟨o1, o2⟩ := addByteRev_ok i1
      refine ⟨o1, ?_⟩
      intro x
      rw [o2, i2]
      by_cases hx : x = n
      · subst hx; simp [hp]
      · have : decide (x < n + 1) = decide (x < n) := by simp; omega
        simp [hx, this]
    · rw [if_neg hp]
      refine ⟨i1.mono (by omega), ?_⟩
      intro x
      rw [i2]
      by_cases hx : x = n
      · subst hx; simp [hp]
      · have : decide (x < n + 1) = decide (x < n) := by simp; omega
        simp [this]

theorem mergeRanges_sem (a b : List (Nat × Nat)) (x : Nat) (hx : x < 256) :
    inRanges (mergeRanges a b) x = (inRanges a x || inRanges b x) := by
  unfold mergeRanges
  have := (fold_inv (fun x => inRanges a x || inRanges b x) 256).2 x
  simp only [hx, decide_true, Bool.true_and] at this
  rw [← this]
  simp only [inRanges, List.any_reverse]

theorem mergeRanges_normal (a b : List (Nat × Nat)) : NormalRanges (mergeRanges a b) := by
  unfold mergeRanges
  have := (fold_inv (fun x => inRanges a x || inRanges b x) 256).1
  have := this.normal_append (suffix := []) trivial (by simp) (by simp)
  simpa using this

/-! ## look-up tables and per-state plans -/

/-- `ByteClass::to_table` -/
def tableBits (rs : List (Nat × Nat)) : List Bool := (List.range 256).map (inRanges rs)

/-- `add_test_to_lut`: the id of the byte set (existing or fresh) -/
def addTest (luts : List (List Bool)) (rs : List (Nat × Nat)) : List (List Bool) × Nat :=
  let bits := tableBits rs
  match luts.idxOf? bits with
  | some i => (luts, i)
  | none => (luts ++ [bits], luts.length)

inductive Cond where
  | lut (id : Nat)                 -- `_TABLE_{id / 8}[byte] & (1 << id % 8) != 0`
  | chain (cs : List Cmp)          -- `c1 || c2 || …`
deriving Repr, DecidableEq

inductive Fork where
  | table (t : List (Option Nat))          -- 256 entries
  | chain (cs : List (Cond × Nat))         -- `if cond { offset += 1; goto target }` in order
deriving Repr

structure SPlan where
  loop : Option Nat := none        -- look-up-table id of the fast-loop test
  fork : Fork
deriving Repr

def evalCond (luts : List (List Bool)) : Cond → Nat → Bool
  | .lut id, b => (luts.getD id []).getD b false
  | .chain cs, b => cs.any (·.eval b)

def evalFork (luts : List (List Bool)) : Fork → Nat → Option Nat
  | .table t, b => (t.getD b none)
  | .chain cs, b => (cs.find? fun c => evalCond luts c.1 b).map (·.2)

/-- table of the jump-table fork: later edges overwrite earlier entries -/
def forkTableOf (es : List Edge) : List (Option Nat) :=
  (List.range 256).map fun b => (es.reverse.find? fun e => inRanges e.ranges b).map (·.target)

def planConds (luts : List (List Bool)) : List Edge → List (List Bool) × List (Cond × Nat)
  | [] => (luts, [])
  | e :: es =>
    if cmpCount e.ranges > 2 then
      let r := addTest luts e.ranges
      let r2 := planConds r.1 es
      (r2.1, (.lut r.2, e.target) :: r2.2)
    else
      let r2 := planConds luts es
      (r2.1, (.chain (implWithCmp e.ranges), e.target) :: r2.2)

/-- `generate_state`: fast loop first (it allocates its table bit first), then the fork with the self
edge ignored -/
def planState (luts : List (List Bool)) (st : Nat) (sd : StateData) : List (List Bool) × SPlan :=
  let r := match selfEdge sd st with
    | some e => let a := addTest luts e.ranges; (a.1, some a.2)
    | none => (luts, none)
  let es := sd.normal.filter (·.target != st)
  if sd.normal.length > 2 then (r.1, { loop := r.2, fork := .table (forkTableOf es) })
  else
    let c := planConds r.1 es
    (c.1, { loop := r.2, fork := .chain c.2 })

/-- states are generated in index order, threading the table allocator -/
def planStates (luts : List (List Bool)) (st : Nat) : List StateData → List (List Bool) × List SPlan
  | [] => (luts, [])
  | sd :: rest =>
    let r := planState luts st sd
    let r2 := planStates r.1 (st + 1) rest
    (r2.1, r.2 :: r2.2)

def planGraph (g : Graph) : List (List Bool) × List SPlan := planStates [] 0 g.states.toList

/-- every edge of the state has a well-formed byte class -/
def edgesNormal (sd : StateData) : Prop := ∀ e ∈ sd.normal, NormalRanges e.ranges

/-- allocating more tables later never changes the bits already allocated -/
def LutExt (l1 l2 : List (List Bool)) : Prop := ∃ t, l2 = l1 ++ t

theorem idxOf?_getElem? {α} [BEq α] [LawfulBEq α] (l : List α) (a : α) (i : Nat)
    (h : l.idxOf? a = some i) : l[i]? = some a := by
  simp [List.idxOf?, List.findIdx?_eq_some_iff_getElem] at h
  obtain ⟨h1, h2, _⟩ := h
  simp [h1, h2]

theorem LutExt.refl (l : List (List Bool)) : LutExt l l := ⟨[], by simp⟩

theorem LutExt.trans {a b c : List (List Bool)} (h1 : LutExt a b) (h2 : LutExt b c) : LutExt a c := by
  obtain ⟨t, rfl⟩ := h1
  obtain ⟨u, rfl⟩ := h2
  exact ⟨t ++ u, by simp⟩

theorem LutExt.getElem? {a b : List (List Bool)} (h : LutExt a b) {i : Nat} {x : List Bool}
    (hi : a[i]? = some x) : b[i]? = some x := by
  obtain ⟨t, rfl⟩ := h
  have : i < a.length := by
    rcases Nat.lt_or_ge i a.length with h | h
    · exact h
    · simp [List.getElem?_eq_none h] at hi
  rw [List.getElem?_append_left this]; exact hi

theorem addTest_getElem? (luts : List (List Bool)) (rs : List (Nat × Nat)) :
    (addTest luts rs).1[(addTest luts rs).2]? = some (tableBits rs) := by
  unfold addTest
  simp only
  split
  · next i h => exact idxOf?_getElem? _ _ _ h
  · simp

theorem tableBits_getD (rs : List (Nat × Nat)) (b : Nat) (hb : b < 256) :
    (tableBits rs).getD b false = inRanges rs b := by
  simp [tableBits, List.getD_eq_getElem?_getD, hb]

theorem addTest_ext (luts : List (List Bool)) (rs : List (Nat × Nat)) : LutExt luts (addTest luts rs).1 := by
  unfold addTest
  simp only
  split
  · exact LutExt.refl _
  · exact ⟨_, rfl⟩

theorem addTest_sem (luts : List (List Bool)) (rs : List (Nat × Nat)) (b : Nat) (hb : b < 256)
    (luts' : List (List Bool)) (hext : LutExt (addTest luts rs).1 luts') :
    evalCond luts' (.lut (addTest luts rs).2) b = inRanges rs b := by
  have := hext.getElem? (addTest_getElem? luts rs)
  simp [evalCond, List.getD_eq_getElem?_getD, this]
  simpa [List.getD_eq_getElem?_getD] using tableBits_getD rs b hb

theorem planConds_ext (luts : List (List Bool)) (es : List Edge) : LutExt luts (planConds luts es).1 := by
  induction es generalizing luts with
  | nil => exact LutExt.refl _
  | cons e es ih =>
    unfold planConds
    split
    · exact (addTest_ext luts e.ranges).trans (ih _)
    · exact ih _

theorem planConds_sem (luts : List (List Bool)) (es : List Edge) (hn : ∀ e ∈ es, NormalRanges e.ranges)
    (b : Nat) (hb : b < 256) (luts' : List (List Bool)) (hext : LutExt (planConds luts es).1 luts') :
    ((planConds luts es).2.find? fun c => evalCond luts' c.1 b).map (·.2)
      = (es.find? fun e => inRanges e.ranges b).map (·.target) := by
  induction es generalizing luts with
  | nil => simp [planConds]
  | cons e es ih =>
    have hn' : ∀ e ∈ es, NormalRanges e.ranges := fun x hx => hn x (List.mem_cons_of_mem _ hx)
    unfold planConds at hext ⊢
    split at hext
    · next hc =>
      rw [if_pos hc]
      simp only at hext ⊢
      have h1 := addTest_sem luts e.ranges b hb luts' ((planConds_ext _ es).trans hext)
      rw [List.find?_cons, List.find?_cons]
      simp only [h1]
      cases inRanges e.ranges b
      · exact ih _ hn' hext
      · simp
    · next hc =>
      rw [if_neg hc]
      simp only at hext ⊢
      have h1 : evalCond luts' (.chain (implWithCmp e.ranges)) b = inRanges e.ranges b := by
        simp only [evalCond]; exact implWithCmp_sem _ (hn e (by simp)) b
      rw [List.find?_cons, List.find?_cons]
      simp only [h1]
      cases inRanges e.ranges b
      · exact ih _ hn' hext
      · simp

theorem forkTableOf_getD (es : List Edge) (b : Nat) (hb : b < 256) :
    (forkTableOf es).getD b none = (es.reverse.find? fun e => inRanges e.ranges b).map (·.target) := by
  simp [forkTableOf, List.getD_eq_getElem?_getD, hb]

theorem planState_ext (luts : List (List Bool)) (st : Nat) (sd : StateData) :
    LutExt luts (planState luts st sd).1 := by
  unfold planState
  have hr : LutExt luts (match selfEdge sd st with
    | some e => ((addTest luts e.ranges).1, some (addTest luts e.ranges).2)
    | none => (luts, none)).1 := by
    split
    · exact addTest_ext _ _
    · exact LutExt.refl _
  simp only
  split
  · exact hr
  · exact hr.trans (planConds_ext _ _)

/-- **The planned fork is the interpreter's fork**, whatever tables are allocated afterwards. -/
theorem planState_fork_sem (luts : List (List Bool)) (st : Nat) (sd : StateData) (hn : edgesNormal sd)
    (b : Nat) (hb : b < 256) (luts' : List (List Bool)) (hext : LutExt (planState luts st sd).1 luts') :
    evalFork luts' (planState luts st sd).2.fork b = fork sd st b := by
  unfold planState at hext ⊢
  unfold fork
  simp only at hext ⊢
  split
  · next h =>
    simp only [evalFork, forkTable]
    exact forkTableOf_getD _ b hb
  · next h =>
    rw [if_neg h] at hext
    simp only [evalFork, forkMatch]
    apply planConds_sem _ _ _ b hb luts' hext
    intro e he
    exact hn e (List.mem_filter.mp he).1

/-- **The planned fast-loop test is membership in the self edge's class.** -/
theorem planState_loop_sem (luts : List (List Bool)) (st : Nat) (sd : StateData)
    (b : Nat) (hb : b < 256) (luts' : List (List Bool)) (hext : LutExt (planState luts st sd).1 luts') :
    match (planState luts st sd).2.loop, selfEdge sd st with
    | some id, some e => evalCond luts' (.lut id) b = inRanges e.ranges b
    | none, none => True
    | _, _ => False := by
  unfold planState at hext ⊢
  simp only at hext ⊢
  cases hs : selfEdge sd st with
  | none =>
    simp only [hs] at hext ⊢
    by_cases h : sd.normal.length > 2
    · rw [if_pos h]; trivial
    · rw [if_neg h]; trivial
  | some e =>
    simp only [hs] at hext ⊢
    have hext' : LutExt (addTest luts e.ranges).1 luts' := by
      split at hext
      · exact hext
      · exact (planConds_ext _ _).trans hext
    have := addTest_sem luts e.ranges b hb luts' hext'
    by_cases h : sd.normal.length > 2
    · rw [if_pos h]; exact this
    · rw [if_neg h]; exact this

end Logos.Emit
