import LogosModel.Re
namespace Logos

def cmpPairs : List (Nat × Nat) → List (Nat × Nat) → Ordering
  | [], [] => .eq
  | [], _ => .lt
  | _, [] => .gt
  | (a, b) :: xs, (c, d) :: ys =>
    match compare a c with
    | .eq => match compare b d with
      | .eq => cmpPairs xs ys
      | o => o
    | o => o

def Re.tag : Re → Nat
  | .empty => 0 | .eps => 1 | .set _ => 2 | .cat _ _ => 3 | .alt _ _ => 4 | .star _ => 5

def Re.cmp : Re → Re → Ordering
  | .set a, .set b => cmpPairs a b
  | .cat a b, .cat c d => match Re.cmp a c with | .eq => Re.cmp b d | o => o
  | .alt a b, .alt c d => match Re.cmp a c with | .eq => Re.cmp b d | o => o
  | .star a, .star b => Re.cmp a b
  | x, y => compare x.tag y.tag

def altList : Re → List Re
  | .alt a b => altList a ++ altList b
  | .empty => []
  | r => [r]

def insertU (r : Re) : List Re → List Re
  | [] => [r]
  | x :: xs => match Re.cmp r x with
    | .lt => r :: x :: xs
    | .eq => if r = x then x :: xs else x :: insertU r xs
    | .gt => x :: insertU r xs

def fromList : List Re → Re
  | [] => .empty
  | [r] => r
  | r :: rs => .alt r (fromList rs)

def mkAltN (a b : Re) : Re :=
  fromList ((altList a ++ altList b).foldl (fun acc r => insertU r acc) [])

def mkCatN : Re → Re → Re
  | .empty, _ => .empty
  | .eps, b => b
  | .cat x y, b => mkCatN x (mkCatN y b)
  | a, b => match b with
    | .empty => .empty
    | .eps => a
    | _ => .cat a b

def derivN (c : Nat) : Re → Re
  | .empty => .empty
  | .eps => .empty
  | .set rs => if inRanges rs c then .eps else .empty
  | .cat a b => if nullable a then mkAltN (mkCatN (derivN c a) b) (derivN c b) else mkCatN (derivN c a) b
  | .alt a b => mkAltN (derivN c a) (derivN c b)
  | .star a => mkCatN (derivN c a) (.star a)

/-- renormalise an arbitrary regex -/
def norm : Re → Re
  | .cat a b => mkCatN (norm a) (norm b)
  | .alt a b => mkAltN (norm a) (norm b)
  | .star a => .star (norm a)
  | r => r

end Logos
