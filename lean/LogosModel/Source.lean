import LogosModel.Interp
/-!
# `Source::read` in its two builds (src/source.rs), C05

* default build: `offset.checked_add(SIZE).is_some_and(|end| end <= len)` then a raw pointer read;
* `forbid_unsafe`: `Chunk::from_slice(bytes.slice(offset..offset.checked_add(SIZE)?)?)`, where
  `slice` is `<[u8]>::get(range)` and `from_slice` is `first().copied()` for `u8` and
  `s.slice(0..SIZE).and_then(try_into)` for `&[u8; N]`.
-/
namespace Logos

def checkedAdd (a b : Nat) : Option Nat := if a + b ≤ usizeMax then some (a + b) else none

/-- `<[u8]>::get(a..b)` -/
def getRange (src : List Nat) (a b : Nat) : Option (List Nat) :=
  if a ≤ b ∧ b ≤ src.length then some ((src.drop a).take (b - a)) else none

/-- `Chunk::from_slice` for a chunk of `n` bytes -/
def fromSlice (n : Nat) (s : List Nat) : Option (List Nat) :=
  match getRange s 0 n with
  | some c => if c.length = n then some c else none
  | none => none

/-- the `forbid_unsafe` read -/
def readSafe (src : List Nat) (off n : Nat) : Option (List Nat) :=
  match checkedAdd off n with
  | none => none
  | some e =>
    match getRange src off e with
    | none => none
    | some s => fromSlice n s

/-- **C05**: `read` returns a chunk exactly when `offset + SIZE <= len` without overflow, and then it
holds the `SIZE` bytes at that offset. -/
theorem readChunk_some_iff (src : List Nat) (off n : Nat) (c : List Nat) :
    readChunk src off n = some c ↔
      (off + n ≤ usizeMax ∧ off + n ≤ src.length ∧ c = (src.drop off).take n) := by
  unfold readChunk
  split <;> simp_all <;> grind

theorem readChunk_length {src : List Nat} {off n : Nat} {c : List Nat}
    (h : readChunk src off n = some c) : c.length = n := by
  obtain ⟨_, h2, rfl⟩ := (readChunk_some_iff src off n c).1 h
  simp; omega

/-- **C05**: the default (raw pointer) read and the `forbid_unsafe` read are the same function. -/
theorem readSafe_eq_readChunk (src : List Nat) (off n : Nat) : readSafe src off n = readChunk src off n := by
  unfold readSafe readChunk checkedAdd getRange fromSlice getRange
  by_cases h1 : off + n ≤ usizeMax
  · by_cases h2 : off + n ≤ src.length
    · have h3 : off ≤ off + n ∧ off + n ≤ src.length := ⟨by omega, h2⟩
      simp [h1, h2]
      have : min n (src.length - off) = n := by omega
      simp [this, List.take_take]
    · simp [h1, h2]
  · simp [h1]

end Logos
