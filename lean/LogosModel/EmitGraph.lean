import LogosModel.Emit
/-!
# The rendering plan of a whole graph

`planGraph g` threads the look-up-table allocator through all states in index order.  The per-state
theorems of `Emit.lean` hold "whatever is allocated afterwards"; here they are assembled: with the
*final* tables, the plan of every state computes the interpreter's fork and fast-loop test.  Together
with `interpLex_eq_graphLex` (the interpreter is the graph walk) and `lex_eq_spec` / `lex_eq_specC`
(the graph walk is the reference lexer, under the certificate) this closes the chain from the text the
generator is predicted to emit to the meaning of the definition.
-/
namespace Logos.Emit
open Logos

/-- every edge of every state has a well-formed byte class -/
def graphEdgesNormalB (g : Graph) : Bool :=
  (List.range g.states.size).all fun s => (g.get s).normal.all fun e => normalRangesB e.ranges

theorem planStates_spec (sds : List StateData) : ∀ (luts : List (List Bool)) (st : Nat),
    LutExt luts (planStates luts st sds).1 ∧
    ∀ (i : Nat) (hi : i < sds.length), ∃ lutsI,
      (planStates luts st sds).2[i]? = some (planState lutsI (st + i) sds[i]).2 ∧
      LutExt (planState lutsI (st + i) sds[i]).1 (planStates luts st sds).1 := by
  induction sds with
  | nil =>
    intro luts st
    exact ⟨LutExt.refl _, fun i hi => absurd hi (Nat.not_lt_zero _)⟩
  | cons sd rest ih =>
    intro luts st
    have ih' := ih (planState luts st sd).1 (st + 1)
    refine ⟨?_, ?_⟩
    · show LutExt luts (planStates (planState luts st sd).1 (st + 1) rest).1
      exact (planState_ext luts st sd).trans ih'.1
    · intro i hi
      cases i with
      | zero =>
        exact ⟨luts, rfl, ih'.1⟩
      | succ j =>
        have hj : j < rest.length := by simpa using hi
        obtain ⟨lutsI, h1, h2⟩ := ih'.2 j hj
        refine ⟨lutsI, ?_, ?_⟩
        · show (planStates (planState luts st sd).1 (st + 1) rest).2[j]? = _
          rw [h1]
          simp only [List.getElem_cons_succ]
          rw [show st + 1 + j = st + (j + 1) by omega]
        · show LutExt _ (planStates (planState luts st sd).1 (st + 1) rest).1
          simp only [List.getElem_cons_succ]
          rw [show st + (j + 1) = st + 1 + j by omega]
          exact h2

/-- **The plan of every state, evaluated with the final tables, is the interpreter's transition function
and fast-loop test.** -/
theorem planGraph_sem (g : Graph) (hn : graphEdgesNormalB g = true) (s : Nat) (hs : s < g.states.size)
    (b : Nat) (hb : b < 256) :
    ∃ sp, (planGraph g).2[s]? = some sp ∧
      evalFork (planGraph g).1 sp.fork b = fork (g.get s) s b ∧
      (match sp.loop, selfEdge (g.get s) s with
       | some id, some e => evalCond (planGraph g).1 (.lut id) b = inRanges e.ranges b
       | none, none => True
       | _, _ => False) := by
  have hlen : s < g.states.toList.length := by simpa using hs
  have hget : g.states.toList[s] = g.get s := by
    simp [Graph.get, Array.getD, hs]
  obtain ⟨lutsI, h1, h2⟩ := (planStates_spec g.states.toList [] 0).2 s hlen
  rw [hget, Nat.zero_add] at h1 h2
  have hen : edgesNormal (g.get s) := by
    intro e he
    unfold graphEdgesNormalB at hn
    rw [List.all_eq_true] at hn
    have := hn s (List.mem_range.mpr hs)
    rw [List.all_eq_true] at this
    exact (normalRangesB_iff _).mp (this e he)
  refine ⟨(planState lutsI s (g.get s)).2, h1, ?_, ?_⟩
  · exact planState_fork_sem lutsI s (g.get s) hen b hb _ h2
  · exact planState_loop_sem lutsI s (g.get s) b hb _ h2

end Logos.Emit
