import LogosModel.HirSem
/-!
# UTF-8 encodings of scalar ranges: validating `regex_syntax::utf8::Utf8Sequences`

The hook dumps a Unicode class twice: as scalar ranges and as the byte-range sequences `Utf8Sequences` turns
them into (what the pattern means at the byte level, `Hir.lower` uses them).  `classExactB ranges seqs`
checks that the two say the same: every sequence is a contiguous block of encodings of one length
(`seqInterval`: a product of byte ranges in which, once a range is not a single byte, all later ranges
are the full continuation range `80..BF`; no overlong forms, no surrogates, nothing above U+10FFFF), and the
blocks, glued where they touch, are exactly the scalar ranges without the surrogates.
`classExactB_sound`: then a byte string is in the sequences' language iff it is `enc c` for a scalar value
`c` of the class.  So the meaning of a class no longer rests on `Utf8Sequences` but on `enc` (the UTF-8
encoding written out) - checked by the driver for every class of every captured leaf (`UTF8SEQ`).
-/
namespace Logos.Utf8Enc

def enc (c : Nat) : List Nat :=
  if c < 0x80 then [c]
  else if c < 0x800 then [0xC0 + c / 64, 0x80 + c % 64]
  else if c < 0x10000 then [0xE0 + c / 4096, 0x80 + c / 64 % 64, 0x80 + c % 64]
  else [0xF0 + c / 262144, 0x80 + c / 4096 % 64, 0x80 + c / 64 % 64, 0x80 + c % 64]

def full (r : Nat × Nat) : Bool := r.1 == 0x80 && r.2 == 0xBF
def cont (r : Nat × Nat) : Bool := decide (0x80 ≤ r.1) && decide (r.1 ≤ r.2) && decide (r.2 ≤ 0xBF)

/-- the scalar interval a byte-range sequence denotes, when it is a contiguous block of encodings of one length -/
def seqInterval : List (Nat × Nat) → Option (Nat × Nat)
  | [(a, b)] => if a ≤ b ∧ b < 0x80 then some (a, b) else none
  | [(a, b), r2] =>
    if 0xC2 ≤ a ∧ a ≤ b ∧ b ≤ 0xDF ∧ cont r2 ∧ (a = b ∨ full r2) then
      some ((a - 0xC0) * 64 + (r2.1 - 0x80), (b - 0xC0) * 64 + (r2.2 - 0x80))
    else none
  | [(a, b), r2, r3] =>
    let lo := (a - 0xE0) * 4096 + (r2.1 - 0x80) * 64 + (r3.1 - 0x80)
    let hi := (b - 0xE0) * 4096 + (r2.2 - 0x80) * 64 + (r3.2 - 0x80)
    if 0xE0 ≤ a ∧ a ≤ b ∧ b ≤ 0xEF ∧ cont r2 ∧ cont r3 ∧ (a = b ∨ (full r2 ∧ full r3)) ∧ (r2.1 = r2.2 ∨ full r3) ∧
        0x800 ≤ lo ∧ (hi < 0xD800 ∨ 0xDFFF < lo) then some (lo, hi) else none
  | [(a, b), r2, r3, r4] =>
    let lo := (a - 0xF0) * 262144 + (r2.1 - 0x80) * 4096 + (r3.1 - 0x80) * 64 + (r4.1 - 0x80)
    let hi := (b - 0xF0) * 262144 + (r2.2 - 0x80) * 4096 + (r3.2 - 0x80) * 64 + (r4.2 - 0x80)
    if 0xF0 ≤ a ∧ a ≤ b ∧ b ≤ 0xF4 ∧ cont r2 ∧ cont r3 ∧ cont r4 ∧ (a = b ∨ (full r2 ∧ full r3 ∧ full r4)) ∧
        (r2.1 = r2.2 ∨ (full r3 ∧ full r4)) ∧ (r3.1 = r3.2 ∨ full r4) ∧ 0x10000 ≤ lo ∧ hi ≤ 0x10FFFF then some (lo, hi) else none
  | _ => none

/-- `w` is in the product of the byte ranges -/
def inSeq : List (Nat × Nat) → List Nat → Prop
  | [], [] => True
  | r :: rs, x :: xs => r.1 ≤ x ∧ x ≤ r.2 ∧ inSeq rs xs
  | _, _ => False

theorem seq2_sound (a b : Nat) (r2 : Nat × Nat) (lo hi : Nat) (h : seqInterval [(a, b), r2] = some (lo, hi)) (w : List Nat) :
    inSeq [(a, b), r2] w ↔ ∃ c, lo ≤ c ∧ c ≤ hi ∧ w = enc c := by
  obtain ⟨c1, d1⟩ := r2
  simp only [seqInterval] at h
  by_cases hc : 0xC2 ≤ a ∧ a ≤ b ∧ b ≤ 0xDF ∧ cont (c1, d1) ∧ (a = b ∨ full (c1, d1))
  · rw [if_pos hc] at h
    simp only [cont, full, Bool.and_eq_true, decide_eq_true_eq, beq_iff_eq] at hc
    simp only [Option.some.injEq, Prod.mk.injEq] at h
    obtain ⟨rfl, rfl⟩ := h
    constructor
    · intro hw
      match w, hw with
      | [x, y], hw =>
        simp only [inSeq, and_true] at hw
        refine ⟨(x - 0xC0) * 64 + (y - 0x80), ?_, ?_, ?_⟩
        · omega
        · omega
        · generalize hs : (x - 0xC0) * 64 + (y - 0x80) = s
          have h1 : ¬ (s < 0x80) := by omega
          have h2 : s < 0x800 := by omega
          have e1 : 0xC0 + s / 64 = x := by omega
          have e2 : 0x80 + s % 64 = y := by omega
          unfold enc
          rewrite [if_neg h1, if_pos h2, e1, e2]
          rfl
    · rintro ⟨c, h1, h2, rfl⟩
      have g1 : ¬ (c < 0x80) := by omega
      have g2 : c < 0x800 := by omega
      unfold enc
      rewrite [if_neg g1, if_pos g2]
      simp only [inSeq, and_true]
      omega
  · rw [if_neg hc] at h; cases h

theorem seq3_sound (a b : Nat) (r2 r3 : Nat × Nat) (lo hi : Nat) (h : seqInterval [(a, b), r2, r3] = some (lo, hi)) (w : List Nat) :
    inSeq [(a, b), r2, r3] w ↔ ∃ c, lo ≤ c ∧ c ≤ hi ∧ w = enc c := by
  obtain ⟨c1, d1⟩ := r2
  obtain ⟨c2, d2⟩ := r3
  simp only [seqInterval] at h
  split at h
  · rename_i hc
    simp only [cont, full, Bool.and_eq_true, decide_eq_true_eq, beq_iff_eq] at hc
    simp only [Option.some.injEq, Prod.mk.injEq] at h
    obtain ⟨rfl, rfl⟩ := h
    constructor
    · intro hw
      match w, hw with
      | [x, y, z], hw =>
        simp only [inSeq, and_true] at hw
        refine ⟨(x - 0xE0) * 4096 + (y - 0x80) * 64 + (z - 0x80), ?_, ?_, ?_⟩
        · omega
        · omega
        · generalize hs : (x - 0xE0) * 4096 + (y - 0x80) * 64 + (z - 0x80) = s
          have h1 : ¬ (s < 0x80) := by omega
          have h2 : ¬ (s < 0x800) := by omega
          have h3 : s < 0x10000 := by omega
          have e1 : 0xE0 + s / 4096 = x := by omega
          have e2 : 0x80 + s / 64 % 64 = y := by omega
          have e3 : 0x80 + s % 64 = z := by omega
          unfold enc
          rewrite [if_neg h1, if_neg h2, if_pos h3, e1, e2, e3]
          rfl
    · rintro ⟨c, h1, h2, rfl⟩
      have g1 : ¬ (c < 0x80) := by omega
      have g2 : ¬ (c < 0x800) := by omega
      have g3 : c < 0x10000 := by omega
      unfold enc
      rewrite [if_neg g1, if_neg g2, if_pos g3]
      simp only [inSeq, and_true]
      omega
  · cases h

theorem seq1_sound (a b lo hi : Nat) (h : seqInterval [(a, b)] = some (lo, hi)) (w : List Nat) :
    inSeq [(a, b)] w ↔ ∃ c, lo ≤ c ∧ c ≤ hi ∧ w = enc c := by
  simp only [seqInterval] at h
  split at h
  · rename_i hc
    simp only [Option.some.injEq, Prod.mk.injEq] at h
    obtain ⟨rfl, rfl⟩ := h
    constructor
    · intro hw
      match w, hw with
      | [x], hw =>
        simp only [inSeq, and_true] at hw
        refine ⟨x, hw.1, hw.2, ?_⟩
        have : x < 0x80 := by omega
        unfold enc
        rewrite [if_pos this]
        rfl
    · rintro ⟨c, h1, h2, rfl⟩
      have : c < 0x80 := by omega
      unfold enc
      rewrite [if_pos this]
      simp only [inSeq, and_true]
      omega
  · cases h

theorem seq4_sound (a b : Nat) (r2 r3 r4 : Nat × Nat) (lo hi : Nat) (h : seqInterval [(a, b), r2, r3, r4] = some (lo, hi))
    (w : List Nat) : inSeq [(a, b), r2, r3, r4] w ↔ ∃ c, lo ≤ c ∧ c ≤ hi ∧ w = enc c := by
  obtain ⟨c1, d1⟩ := r2
  obtain ⟨c2, d2⟩ := r3
  obtain ⟨c3, d3⟩ := r4
  simp only [seqInterval] at h
  split at h
  · rename_i hc
    simp only [cont, full, Bool.and_eq_true, decide_eq_true_eq, beq_iff_eq] at hc
    simp only [Option.some.injEq, Prod.mk.injEq] at h
    obtain ⟨rfl, rfl⟩ := h
    constructor
    · intro hw
      match w, hw with
      | [x, y, z, v], hw =>
        simp only [inSeq, and_true] at hw
        refine ⟨(x - 0xF0) * 262144 + (y - 0x80) * 4096 + (z - 0x80) * 64 + (v - 0x80), ?_, ?_, ?_⟩
        · omega
        · omega
        · generalize hs : (x - 0xF0) * 262144 + (y - 0x80) * 4096 + (z - 0x80) * 64 + (v - 0x80) = s
          have h1 : ¬ (s < 0x80) := by omega
          have h2 : ¬ (s < 0x800) := by omega
          have h3 : ¬ (s < 0x10000) := by omega
          have e1 : 0xF0 + s / 262144 = x := by omega
          have e2 : 0x80 + s / 4096 % 64 = y := by omega
          have e3 : 0x80 + s / 64 % 64 = z := by omega
          have e4 : 0x80 + s % 64 = v := by omega
          unfold enc
          rewrite [if_neg h1, if_neg h2, if_neg h3, e1, e2, e3, e4]
          rfl
    · rintro ⟨c, h1, h2, rfl⟩
      have g1 : ¬ (c < 0x80) := by omega
      have g2 : ¬ (c < 0x800) := by omega
      have g3 : ¬ (c < 0x10000) := by omega
      unfold enc
      rewrite [if_neg g1, if_neg g2, if_neg g3]
      simp only [inSeq, and_true]
      omega
  · cases h

/-- **a sequence accepted by `seqInterval` is exactly the encodings of its scalar interval** -/
theorem seqInterval_sound (s : List (Nat × Nat)) (lo hi : Nat) (h : seqInterval s = some (lo, hi)) (w : List Nat) :
    inSeq s w ↔ ∃ c, lo ≤ c ∧ c ≤ hi ∧ w = enc c := by
  match s, h with
  | [(a, b)], h => exact seq1_sound a b lo hi h w
  | [(a, b), r2], h => exact seq2_sound a b r2 lo hi h w
  | [(a, b), r2, r3], h => exact seq3_sound a b r2 r3 lo hi h w
  | [(a, b), r2, r3, r4], h => exact seq4_sound a b r2 r3 r4 lo hi h w
  | [], h => simp [seqInterval] at h
  | _ :: _ :: _ :: _ :: _ :: _, h => simp [seqInterval] at h

theorem inSeq_iff (s : List (Nat × Nat)) (w : List Nat) : inSeq s w ↔ SeqMatches s w := by
  induction s generalizing w with
  | nil => cases w <;> simp [inSeq, SeqMatches]
  | cons r s ih =>
    obtain ⟨lo, hi⟩ := r
    cases w with
    | nil => simp [inSeq, SeqMatches]
    | cons b w => simp [inSeq, SeqMatches, ih]

/-! ## a class: the blocks, glued where they touch, are the scalar ranges without the surrogates -/

def memI (l : List (Nat × Nat)) (c : Nat) : Prop := ∃ r ∈ l, r.1 ≤ c ∧ c ≤ r.2

/-- glue an interval to its successor when they overlap or touch -/
def mergeAdj : List (Nat × Nat) → List (Nat × Nat)
  | [] => []
  | [x] => [x]
  | (a, b) :: (c, d) :: rest =>
    if a ≤ c ∧ c ≤ b + 1 then mergeAdj ((a, max b d) :: rest) else (a, b) :: mergeAdj ((c, d) :: rest)
termination_by l => l.length

theorem memI_cons (r : Nat × Nat) (l : List (Nat × Nat)) (c : Nat) :
    memI (r :: l) c ↔ (r.1 ≤ c ∧ c ≤ r.2) ∨ memI l c := by
  simp [memI]

theorem mem_mergeAdj (l : List (Nat × Nat)) (x : Nat) : memI (mergeAdj l) x ↔ memI l x := by
  fun_induction mergeAdj l with
  | case1 => rfl
  | case2 r => rfl
  | case3 a b c d rest h ih =>
    rw [ih, memI_cons, memI_cons, memI_cons]
    simp only
    constructor
    · rintro (h1 | h1)
      · by_cases hx : x ≤ b
        · left; omega
        · right; left; omega
      · right; right; exact h1
    · rintro (h1 | h1 | h1)
      · left; omega
      · left; omega
      · right; exact h1
  | case4 a b c d rest h ih =>
    rw [memI_cons (a, b) (mergeAdj ((c, d) :: rest)), ih, memI_cons (a, b) ((c, d) :: rest)]

/-- a scalar range without the surrogates (`char` ranges step over them) -/
def dropSurr (r : Nat × Nat) : List (Nat × Nat) :=
  (if r.1 < 0xD800 then [(r.1, min r.2 0xD7FF)] else []) ++ (if 0xDFFF < r.2 then [(max r.1 0xE000, r.2)] else [])

def isScalar (c : Nat) : Prop := (c < 0xD800 ∨ 0xDFFF < c) ∧ c ≤ 0x10FFFF

/-- `c` is a character of the class -/
def inClass (ranges : List (Nat × Nat)) (c : Nat) : Prop := isScalar c ∧ ∃ r ∈ ranges, r.1 ≤ c ∧ c ≤ r.2

theorem mem_dropSurr (ranges : List (Nat × Nat)) (hmax : ∀ r ∈ ranges, r.2 ≤ 0x10FFFF) (c : Nat) :
    memI (ranges.flatMap dropSurr) c ↔ inClass ranges c := by
  simp only [memI, List.mem_flatMap, inClass, isScalar]
  constructor
  · rintro ⟨i, ⟨r, hr, hi⟩, h1, h2⟩
    have := hmax r hr
    simp only [dropSurr, List.mem_append] at hi
    rcases hi with hi | hi
    · split at hi
      · simp only [List.mem_singleton] at hi; subst hi
        simp only at h1 h2
        exact ⟨⟨by omega, by omega⟩, r, hr, h1, by omega⟩
      · cases hi
    · split at hi
      · simp only [List.mem_singleton] at hi; subst hi
        simp only at h1 h2
        exact ⟨⟨by omega, by omega⟩, r, hr, by omega, h2⟩
      · cases hi
  · rintro ⟨⟨hs, _⟩, r, hr, h1, h2⟩
    rcases hs with hs | hs
    · refine ⟨(r.1, min r.2 0xD7FF), ⟨r, hr, ?_⟩, h1, by simp only; omega⟩
      simp only [dropSurr, List.mem_append]
      left
      rw [if_pos (by omega)]
      simp
    · refine ⟨(max r.1 0xE000, r.2), ⟨r, hr, ?_⟩, by simp only; omega, h2⟩
      simp only [dropSurr, List.mem_append]
      right
      rw [if_pos (by omega)]
      simp

/-- every sequence is a block, and the blocks are the class -/
def classExactB (ranges : List (Nat × Nat)) (seqs : List (List (Nat × Nat))) : Bool :=
  ranges.all (fun r => decide (r.2 ≤ 0x10FFFF)) &&
  seqs.all (fun s => (seqInterval s).isSome) &&
  mergeAdj (seqs.filterMap seqInterval) == mergeAdj (ranges.flatMap dropSurr)

/-- **the dumped byte sequences of a class denote exactly the UTF-8 encodings of its characters** -/
theorem classExactB_sound (ranges : List (Nat × Nat)) (seqs : List (List (Nat × Nat)))
    (h : classExactB ranges seqs = true) (w : List Nat) :
    (∃ s ∈ seqs, SeqMatches s w) ↔ ∃ c, inClass ranges c ∧ w = enc c := by
  simp only [classExactB, Bool.and_eq_true, List.all_eq_true, decide_eq_true_eq, beq_iff_eq] at h
  obtain ⟨⟨hmax, hall⟩, heq⟩ := h
  have key : ∀ c, memI (seqs.filterMap seqInterval) c ↔ inClass ranges c := by
    intro c
    rw [← mem_mergeAdj, heq, mem_mergeAdj, mem_dropSurr ranges hmax]
  constructor
  · rintro ⟨s, hs, hw⟩
    have hsome := hall s hs
    cases hi : seqInterval s with
    | none => rw [hi] at hsome; cases hsome
    | some p =>
      obtain ⟨lo, hi'⟩ := p
      obtain ⟨c, h1, h2, rfl⟩ := (seqInterval_sound s lo hi' hi w).1 ((inSeq_iff s w).2 hw)
      refine ⟨c, (key c).1 ⟨(lo, hi'), ?_, h1, h2⟩, rfl⟩
      exact List.mem_filterMap.2 ⟨s, hs, hi⟩
  · rintro ⟨c, hc, rfl⟩
    obtain ⟨p, hp, h1, h2⟩ := (key c).2 hc
    obtain ⟨s, hs, hi⟩ := List.mem_filterMap.1 hp
    obtain ⟨lo, hi'⟩ := p
    exact ⟨s, hs, (inSeq_iff s _).1 ((seqInterval_sound s lo hi' hi _).2 ⟨c, h1, h2, rfl⟩)⟩

/-- ... stated for the declarative meaning of a captured class -/
theorem hmatches_cls_exact (u : Bool) (ranges : List (Nat × Nat)) (seqs : List (List (Nat × Nat)))
    (h : classExactB ranges seqs = true) (w : List Nat) :
    HMatches (.cls u ranges seqs) w ↔ ∃ c, inClass ranges c ∧ w = enc c := by
  rw [hmatches_cls_iff]
  exact classExactB_sound ranges seqs h w

/-- non-vacuity: `[é-ü€]` as regex-syntax lowers it (U+00E9..U+00FC, U+20AC) -/
example : classExactB [(0xE9, 0xFC), (0x20AC, 0x20AC)] [[(0xC3, 0xC3), (0xA9, 0xBC)], [(0xE2, 0xE2), (0x82, 0x82), (0xAC, 0xAC)]] = true := by
  decide +kernel
/-- a range across the surrogate gap and into the supplementary planes, as `Utf8Sequences` splits it -/
example : classExactB [(0xD000, 0x10400)]
    [[(0xED, 0xED), (0x80, 0x9F), (0x80, 0xBF)], [(0xEE, 0xEF), (0x80, 0xBF), (0x80, 0xBF)],
     [(0xF0, 0xF0), (0x90, 0x90), (0x80, 0x8F), (0x80, 0xBF)], [(0xF0, 0xF0), (0x90, 0x90), (0x90, 0x90), (0x80, 0x80)]] = true := by
  decide +kernel

/-- a byte class is dumped as one single-byte sequence per range -/
def bytesExactB (ranges : List (Nat × Nat)) (seqs : List (List (Nat × Nat))) : Bool :=
  seqs == ranges.map fun r => [r]

/-- every class of the pattern passes its check (`Hir.cls true` is a Unicode class) -/
def hirClassesExact : Hir → Bool
  | .cls true ranges seqs => classExactB ranges seqs
  | .cls false ranges seqs => bytesExactB ranges seqs
  | .rep _ _ _ s => hirClassesExact s
  | .cap s => hirClassesExact s
  | .cat ss => hirClassesExactL ss
  | .alt ss => hirClassesExactL ss
  | _ => true
where hirClassesExactL : List Hir → Bool
  | [] => true
  | h :: t => hirClassesExact h && hirClassesExactL t

end Logos.Utf8Enc
