import LogosModel.Interp
import LogosModel.WfProof
/-!
# The faithful interpreter (fast loops, LUT-free forks, chunked reads) equals the byte-by-byte walk
-/
namespace Logos

/-- The fork emitted for a state agrees with the graph's transition function on every byte that the
fast loop leaves to it, and the self edge is the transition on the bytes the fast loop consumes. -/
def ForkOK (g : Graph) : Prop :=
  ∀ st b, b < 256 →
    match selfEdge (g.get st) st with
    | some e =>
      if inRanges e.ranges b then (g.get st).next b = some st
      else fork (g.get st) st b = (g.get st).next b
    | none => fork (g.get st) st b = (g.get st).next b

def forkOkB (g : Graph) : Bool :=
  (List.range g.states.size).all fun st =>
    (List.range 256).all fun b =>
      match selfEdge (g.get st) st with
      | some e =>
        if inRanges e.ranges b then (g.get st).next b == some st
        else fork (g.get st) st b == (g.get st).next b
      | none => fork (g.get st) st b == (g.get st).next b

theorem forkOkB_sound {g : Graph} (h : forkOkB g = true) : ForkOK g := by
  intro st b hb
  by_cases hst : st < g.states.size
  · unfold forkOkB at h
    rw [List.all_eq_true] at h
    have h1 := h st (List.mem_range.mpr hst)
    rw [List.all_eq_true] at h1
    have h2 := h1 b (List.mem_range.mpr hb)
    cases hse : selfEdge (g.get st) st with
    | none => simp only [hse] at h2 ⊢; simpa using h2
    | some e =>
      simp only [hse] at h2 ⊢
      split
      · rename_i hin; simpa [hin] using h2
      · rename_i hin; simpa [hin] using h2
  · have hg : g.get st = {} := by
      unfold Graph.get
      simp [Array.getD, hst]
    rw [hg]
    simp [selfEdge, fork, forkMatch, StateData.next]

theorem firstMiss_some (p : Nat → Bool) : ∀ (a : List Nat) (i : Nat), firstMiss p a = some i →
    ∀ b, ((a ++ b).takeWhile p).length = i := by
  intro a
  induction a with
  | nil => intro i h; simp [firstMiss] at h
  | cons x t ih =>
    intro i h b
    unfold firstMiss at h
    cases hp : p x with
    | false =>
      simp [hp] at h
      simp [hp, h]
    | true =>
      simp only [hp, if_true] at h
      cases hm : firstMiss p t with
      | none => simp [hm] at h
      | some j =>
        simp [hm] at h
        simp [hp, ih j hm b, h]

theorem firstMiss_none (p : Nat → Bool) : ∀ (a : List Nat), firstMiss p a = none →
    ∀ b, (a ++ b).takeWhile p = a ++ b.takeWhile p := by
  intro a
  induction a with
  | nil => intro _ b; simp
  | cons x t ih =>
    intro h b
    unfold firstMiss at h
    cases hp : p x with
    | false => simp [hp] at h
    | true =>
      simp only [hp, if_true] at h
      cases hm : firstMiss p t with
      | none => simp [hp, ih hm b]
      | some j => simp [hm] at h

theorem drop_next {l : List Nat} {n b r} (h : l.drop n = b :: r) : l.drop (n+1) = r := by
  rw [← List.tail_drop, h]; rfl

theorem drop_lt {l : List Nat} {n b r} (h : l.drop n = b :: r) : n < l.length := by
  have := congrArg List.length h
  simp at this; omega

theorem readByte_cons {src : List Nat} {off b r} (h : src.drop off = b :: r)
    (hlen : src.length + 8 ≤ usizeMax) : readByte src off = some b := by
  have := drop_lt h
  unfold readByte readChunk
  rw [if_pos ⟨by omega, by omega⟩, h]
  simp

theorem readByte_nil {src : List Nat} {off} (h : src.length ≤ off) : readByte src off = none := by
  unfold readByte readChunk
  rw [if_neg (by omega)]

theorem fastLoop1_off_spec (p : Nat → Bool) (src : List Nat) (hlen : src.length + 8 ≤ usizeMax) :
    ∀ fuel off, off ≤ src.length → src.length - off + 1 ≤ fuel →
    (fastLoop1 p src fuel off).1 = off + ((src.drop off).takeWhile p).length := by
  intro fuel
  induction fuel with
  | zero => intro off _ h; omega
  | succ n ih =>
    intro off hoff hf
    unfold fastLoop1
    cases hd : src.drop off with
    | nil =>
      rw [readByte_nil (List.drop_eq_nil_iff.mp hd)]
      simp
    | cons b r =>
      have hlt := drop_lt hd
      rw [readByte_cons hd hlen]
      cases hp : p b with
      | false => simp [hp]
      | true =>
        simp only [hp, if_true, List.takeWhile_cons]
        rw [ih (off+1) (by omega) (by omega), drop_next hd]
        simp; omega

theorem fastLoop8_gen (p : Nat → Bool) (src : List Nat) (hlen : src.length + 8 ≤ usizeMax) :
    ∀ fuel off, off ≤ src.length → src.length - off + 1 ≤ fuel →
    (fastLoop8 p src fuel off).1 = off + ((src.drop off).takeWhile p).length := by
  intro fuel
  induction fuel with
  | zero => intro off _ h; omega
  | succ n ih =>
    intro off hoff hf
    unfold fastLoop8
    by_cases hc : off + 8 ≤ src.length
    · have hr : readChunk src off 8 = some ((src.drop off).take 8) := by
        unfold readChunk; rw [if_pos ⟨by omega, hc⟩]
      rw [hr]
      have hsplit : src.drop off = (src.drop off).take 8 ++ src.drop (off + 8) := by
        rw [← List.drop_drop, List.take_append_drop]
      cases hm : firstMiss p ((src.drop off).take 8) with
      | some i =>
        simp only [hm]
        have := firstMiss_some p _ i hm (src.drop (off+8))
        rw [← hsplit] at this
        rw [this]
      | none =>
        simp only [hm]
        have := firstMiss_none p _ hm (src.drop (off+8))
        rw [← hsplit] at this
        rw [this, ih (off+8) hc (by omega)]
        simp
        omega
    · have hr : readChunk src off 8 = none := by
        unfold readChunk; rw [if_neg (by omega)]
      rw [hr]
      simp only
      exact fastLoop1_off_spec p src hlen _ off hoff (by omega)

/-- The fast loop stops at the first byte outside the class, or at the end of the source. -/
theorem fastLoop8_spec (p : Nat → Bool) (src : List Nat) (off : Nat) (hoff : off ≤ src.length)
    (hlen : src.length + 8 ≤ usizeMax) :
    (fastLoop8 p src (src.length + 1) off).1 = off + ((src.drop off).takeWhile p).length :=
  fastLoop8_gen p src hlen _ off hoff (by omega)

theorem setupEv_fst (sd : StateData) (off : Nat) (ctx : Option Nat) (te : Nat) :
    (setupEv sd off ctx te).1 = record sd off ctx te := by
  cases h1 : sd.early <;> cases h2 : sd.accept <;> simp [setupEv, record, h1, h2]

theorem record_record (sd : StateData) (p1 p2 : Nat) (c : Option Nat) (t : Nat) :
    record sd p2 (record sd p1 c t).1 (record sd p1 c t).2 = record sd p2 c t := by
  cases h1 : sd.early <;> cases h2 : sd.accept <;> simp [record, h1, h2]

theorem walk_congr {g : Graph} {pfx : Bool} {start st : Nat} (rest : List Nat) (pos : Nat)
    (c1 : Option Nat) (t1 : Nat) (c2 : Option Nat) (t2 : Nat)
    (h : record (g.get st) pos c1 t1 = record (g.get st) pos c2 t2) :
    walk g pfx start st rest pos c1 t1 = walk g pfx start st rest pos c2 t2 := by
  cases rest <;> simp only [walk, h]

theorem walk_self {g : Graph} {pfx : Bool} {start st : Nat} (rest : List Nat) :
    ∀ (u : List Nat), (∀ b ∈ u, (g.get st).next b = some st) → ∀ (pos : Nat) (c : Option Nat) (t : Nat),
      walk g pfx start st (u ++ rest) pos c t = walk g pfx start st rest (pos + u.length) c t := by
  intro u
  induction u with
  | nil => intro _ pos c t; simp
  | cons b u ih =>
    intro h pos c t
    have hb := h b List.mem_cons_self
    simp only [List.cons_append, walk, hb]
    rw [ih (fun x hx => h x (List.mem_cons_of_mem _ hx))]
    have : pos + 1 + u.length = pos + (b :: u).length := by simp; omega
    rw [this]
    exact walk_congr _ _ _ _ _ _ (record_record _ _ _ _ _)

theorem takeWhile_split (p : Nat → Bool) : ∀ l : List Nat,
    l = l.takeWhile p ++ l.drop (l.takeWhile p).length ∧
    ∀ b r, l.drop (l.takeWhile p).length = b :: r → p b = false := by
  intro l
  induction l with
  | nil => simp
  | cons x t ih =>
    cases hp : p x with
    | false =>
      simp only [List.takeWhile_cons, hp]
      refine ⟨by simp, ?_⟩
      intro b r h
      simp at h
      rw [← h.1]; exact hp
    | true =>
      simp only [List.takeWhile_cons, hp, if_true, List.length_cons, List.drop_succ_cons, List.cons_append]
      exact ⟨by rw [← ih.1], ih.2⟩

theorem takeWhile_all (p : Nat → Bool) : ∀ l : List Nat, ∀ x ∈ l.takeWhile p, p x = true := by
  intro l
  induction l with
  | nil => simp
  | cons y t ih =>
    intro x hx
    cases hp : p y with
    | false => simp [hp] at hx
    | true =>
      simp only [List.takeWhile_cons, hp, if_true, List.mem_cons] at hx
      rcases hx with rfl | hx
      · exact hp
      · exact ih x hx

def flOff (g : Graph) (src : List Nat) (st off : Nat) : Nat :=
  match selfEdge (g.get st) st with
  | some e => (fastLoop8 (fun b => inRanges e.ranges b) src (src.length + 1) off).1
  | none => off

def visitCore (g : Graph) (src : List Nat) (isPrefix : Bool) (start st off : Nat) (ctx : Option Nat)
    (tokEnd : Nat) : Visit :=
  let sd := g.get st
  let su := record sd off ctx tokEnd
  match readByte src off with
  | some b =>
    match fork sd st b with
    | some t => .goto t (off+1) su.1 su.2
    | none => .stop (.action off su.1 su.2)
  | none =>
    if (!sd.normal.isEmpty || sd.eoi.isSome) && isPrefix then .stop .needMore
    else if st == g.root && start == off then .stop .endOfInput
    else match sd.eoi with
      | some t => .goto t (off+1) su.1 su.2
      | none => .stop (.action off su.1 su.2)

theorem visit_fst (g : Graph) (src : List Nat) (pfx : Bool) (start st off : Nat) (ctx : Option Nat)
    (te : Nat) :
    (visit g src pfx start st off ctx te).1
      = visitCore g src pfx start st (flOff g src st off) ctx te := by
  unfold visit visitCore flOff
  simp only [setupEv_fst]
  cases selfEdge (g.get st) st <;> simp only <;>
  · split
    · rename_i h1; simp only [h1]; split <;> (rename_i h2; simp only [h2])
    · rename_i h1; simp only [h1]
      split
      · rfl
      · split
        · rfl
        · split <;> (rename_i h2; simp only [h2])

theorem attemptI_step (g : Graph) (src : List Nat) (pfx : Bool) (start n st off : Nat)
    (ctx : Option Nat) (te : Nat) :
    (attemptI g src pfx start (n+1) st off ctx te).1 =
      match (visit g src pfx start st off ctx te).1 with
      | .goto t off' c' t' => (attemptI g src pfx start n t off' c' t').1
      | .stop s => s := by
  rw [attemptI]
  rcases visit g src pfx start st off ctx te with ⟨v, tr⟩
  cases v <;> rfl

theorem flOff_spec {g : Graph} (hf : ForkOK g) (src : List Nat) (hb : ∀ b ∈ src, b < 256)
    (hlen : src.length + 8 ≤ usizeMax) (pfx : Bool) (start st off : Nat) (ctx : Option Nat) (te : Nat)
    (hoff : off ≤ src.length) :
    off ≤ flOff g src st off ∧ flOff g src st off ≤ src.length ∧
    walk g pfx start st (src.drop off) off ctx te
      = walk g pfx start st (src.drop (flOff g src st off)) (flOff g src st off) ctx te ∧
    ∀ b r, src.drop (flOff g src st off) = b :: r → fork (g.get st) st b = (g.get st).next b := by
  unfold flOff
  cases hse : selfEdge (g.get st) st with
  | none =>
    refine ⟨Nat.le_refl _, hoff, rfl, ?_⟩
    intro b r h
    have hmem : b ∈ src := List.mem_of_mem_drop (by rw [h]; exact List.mem_cons_self)
    have := hf st b (hb b hmem)
    simpa only [hse] using this
  | some e =>
    simp only
    rw [fastLoop8_spec _ src off hoff hlen]
    obtain ⟨s1, s2⟩ := takeWhile_split (fun b => inRanges e.ranges b) (src.drop off)
    generalize hu : List.takeWhile (fun b => inRanges e.ranges b) (src.drop off) = u at s1 s2
    rw [List.drop_drop] at s1 s2
    have hk : off + u.length ≤ src.length := by
      have := congrArg List.length s1
      simp at this; omega
    refine ⟨by omega, hk, ?_, ?_⟩
    · have hall : ∀ b ∈ u, (g.get st).next b = some st := by
        intro b hbu
        have hp : inRanges e.ranges b = true := by
          rw [← hu] at hbu; exact takeWhile_all _ _ b hbu
        have hmem : b ∈ src := List.mem_of_mem_drop (by rw [s1]; exact List.mem_append_left _ hbu)
        have := hf st b (hb b hmem)
        simpa only [hse, hp, if_true] using this
      have := walk_self (g := g) (pfx := pfx) (start := start) (st := st) (src.drop (off + u.length)) u hall off ctx te
      rw [← this, ← s1]
    · intro b r h
      have hp := s2 b r h
      have hmem : b ∈ src := List.mem_of_mem_drop (by rw [h]; exact List.mem_cons_self)
      have := hf st b (hb b hmem)
      simp only [hse] at this
      simpa [hp] using this

theorem attemptI_gen {g : Graph} (hwf : WF g) (hf : ForkOK g) (src : List Nat)
    (hb : ∀ b ∈ src, b < 256) (hlen : src.length + 8 ≤ usizeMax) (pfx : Bool) (start : Nat) :
    ∀ (fuel st off : Nat) (ctx : Option Nat) (te : Nat), off ≤ src.length →
      src.length - off + 2 ≤ fuel →
      (attemptI g src pfx start fuel st off ctx te).1
        = walk g pfx start st (src.drop off) off ctx te := by
  intro fuel
  induction fuel with
  | zero => intro st off ctx te _ h; omega
  | succ n ih =>
    intro st off ctx te hoff hfuel
    obtain ⟨h1, h2, h3, h4⟩ := flOff_spec hf src hb hlen pfx start st off ctx te hoff
    rw [attemptI_step, visit_fst, h3]
    generalize flOff g src st off = o at *
    cases hd : src.drop o with
    | cons b r =>
      have hlt := drop_lt hd
      simp only [visitCore, readByte_cons hd hlen, h4 b r hd, walk]
      cases hn : (g.get st).next b with
      | none => simp only
      | some t =>
        simp only
        rw [ih t (o+1) _ _ hlt (by omega), drop_next hd]
    | nil =>
      have ho : src.length ≤ o := List.drop_eq_nil_iff.mp hd
      obtain ⟨m, hm⟩ : ∃ m, g.states.size = m + 1 := ⟨g.states.size - 1, by have := hwf.size; omega⟩
      simp only [visitCore, readByte_nil ho, walk, hm]
      rw [atEoi]
      simp only
      cases c1 : ((!(g.get st).normal.isEmpty || (g.get st).eoi.isSome) && pfx) with
      | true => simp only [if_true]
      | false =>
        simp only [Bool.false_eq_true, if_false]
        cases c2 : (st == g.root && start == o) with
        | true => simp only [if_true]
        | false =>
          simp only [Bool.false_eq_true, if_false]
          cases he : (g.get st).eoi with
          | none => simp only
          | some t =>
            simp only
            obtain ⟨e1, e2, e3, e4⟩ := hwf.eoiT st t he
            obtain ⟨n', rfl⟩ : ∃ n', n = n' + 1 := ⟨n - 1, by omega⟩
            have hfl : flOff g src t (o+1) = o + 1 := by
              simp [flOff, selfEdge, e4]
            rw [attemptI_step, visit_fst, hfl]
            simp only [visitCore, readByte_nil (show src.length ≤ o + 1 by omega)]
            rw [atEoi]
            simp [e4, e1]
            by_cases c3 : t = g.root ∧ start = o + 1
            · simp only [c3, and_self, if_true]
            · simp only [c3, if_false]

/-- One attempt of the faithful interpreter yields the result of the byte-by-byte walk. -/
theorem attemptI_eq_walk {g : Graph} (hwf : WF g) (hf : ForkOK g) (src : List Nat)
    (hb : ∀ b ∈ src, b < 256) (hlen : src.length + 8 ≤ usizeMax) (isPrefix : Bool) (start : Nat)
    (hs : start ≤ src.length) :
    (attemptI g src isPrefix start (attemptFuel g src) g.root start none start).1
      = walk g isPrefix start g.root (src.drop start) start none start :=
  attemptI_gen hwf hf src hb hlen isPrefix start _ _ _ _ _ hs (by unfold attemptFuel; omega)

theorem nextLoopI_eq {g : Graph} (hwf : WF g) (hf : ForkOK g) (cb : Callbacks) (hcb : NoBump cb)
    (utf8 : Bool) (src : List Nat) (hb : ∀ b ∈ src, b < 256) (hlen : src.length + 8 ≤ usizeMax) :
    ∀ (fuel start : Nat), start ≤ src.length →
      (nextLoopI g false cb utf8 src fuel start).1
        = nextLoop (walkAttempt g false src) cb utf8 src fuel start := by
  intro fuel
  induction fuel with
  | zero => intro start _; rfl
  | succ n ih =>
    intro start hs
    have ha : attemptOfStop (attemptI g src false start (attemptFuel g src) g.root start none start).1
        = walkAttempt g false src start := by
      rw [attemptI_eq_walk hwf hf src hb hlen false start hs]; rfl
    unfold nextLoopI nextLoop
    simp only [ha]
    cases hatt : walkAttempt g false src start with
    | eoi => rfl
    | needMore => rfl
    | diverge => rfl
    | «nomatch» off =>
      simp only
      cases utf8 with
      | false => rfl
      | true =>
        simp only [if_true]
        cases findBoundary src (max off (start + 1)) <;> rfl
    | matched l te =>
      obtain ⟨_, h2⟩ := walkAttempt_matched_bounds hwf src hb start l te hatt
      have hbump : (cb l (slice src start te) (List.drop te src)).bump = 0 := hcb _ _ _
      simp only [hbump, Nat.add_zero]
      cases hact : (cb l (slice src start te) (List.drop te src)).act with
      | emit => rfl
      | skip => simp only; exact ih te h2
      | errDefault => rfl
      | errCustom t => rfl

theorem lexFromI_eq {g : Graph} (hwf : WF g) (hf : ForkOK g) (cb : Callbacks) (hcb : NoBump cb)
    (utf8 : Bool) (src : List Nat) (hb : ∀ b ∈ src, b < 256) (hlen : src.length + 8 ≤ usizeMax) :
    ∀ (fuel pos : Nat), pos ≤ src.length →
      (lexFromI g false cb utf8 src fuel pos).1
        = lexFrom (walkAttempt g false src) cb utf8 src fuel pos := by
  intro fuel
  induction fuel with
  | zero => intro pos _; rfl
  | succ n ih =>
    intro pos hp
    have hn := nextLoopI_eq hwf hf cb hcb utf8 src hb hlen (src.length + 2) pos hp
    unfold lexFromI lexFrom
    rw [← hn]
    rcases hr : nextLoopI g false cb utf8 src (src.length + 2) pos with ⟨r, tr⟩
    cases r with
    | none s e => rfl
    | diverge => rfl
    | item it =>
      simp only
      have hstop : it.stop ≤ src.length := by
        rcases nextLoop_ok hwf cb hcb utf8 src hb (src.length + 2) pos hp (by omega) with
          h | ⟨it', h, _, _, h3⟩
        · rw [← hn, hr] at h; cases h
        · rw [← hn, hr] at h; cases h; exact h3
      rw [ih it.stop hstop]

/-- **The whole lexer**: items and final state of the faithful interpreter equal those of the
walk-based lexer (to which `lex_eq_spec` and `graphLex_tiles` apply). -/
theorem interpLex_eq_graphLex {g : Graph} (hwf : WF g) (hf : ForkOK g) (cb : Callbacks) (hcb : NoBump cb)
    (utf8 : Bool) (src : List Nat) (hb : ∀ b ∈ src, b < 256) (hlen : src.length + 8 ≤ usizeMax) :
    (interpLex g false cb utf8 src).1 = graphLex g false cb utf8 src :=
  lexFromI_eq hwf hf cb hcb utf8 src hb hlen _ 0 (Nat.zero_le _)
end Logos
