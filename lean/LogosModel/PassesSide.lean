import LogosModel.PassesAll
/-!
# The side conditions of the pass theorems follow from conditions on the raw graph alone

`sideOK` (PassesAll.lean) checks properties of the raw graph *and* of the intermediate graphs.  The
intermediate ones are consequences: the first two passes change no edge, pruning only removes edges and
renumbers injectively, and the live set is a fixed point.  `rawSideOK` is the part that has to be checked.
-/
namespace Logos.Passes
open Logos

def rawSideOK (g : Graph) : Bool :=
  rawNoEarly g && rawRootOK g && earlyEoiOK g && rawClosed g && edgesDisjoint g

/-! ### pointwise forms of the checks -/

theorem refsClosed_iff (g : Graph) : refsClosed g = true ↔
    g.root < g.states.size ∧ ∀ s, s < g.states.size →
      (∀ c ∈ children (g.get s), c < g.states.size) ∧
      ∀ t, (g.get s).eoi = some t → (g.get t).eoi = none := by
  simp only [refsClosed, Bool.and_eq_true, decide_eq_true_eq, List.all_eq_true, List.mem_range]
  constructor
  · rintro ⟨h, h'⟩
    refine ⟨h, fun s hs => ⟨(h' s hs).1, ?_⟩⟩
    intro t ht
    have := (h' s hs).2
    rw [ht] at this
    simpa using this
  · rintro ⟨h, h'⟩
    refine ⟨h, fun s hs => ⟨(h' s hs).1, ?_⟩⟩
    cases he : (g.get s).eoi with
    | none => rfl
    | some t => simp [(h' s hs).2 t he]

theorem edgesDisjoint_iff (g : Graph) : edgesDisjoint g = true ↔
    ∀ s, s < g.states.size → ∀ b, b < 256 →
      ((g.get s).normal.filter fun e => inRanges e.ranges b).length ≤ 1 := by
  simp only [edgesDisjoint, List.all_eq_true, List.mem_range, decide_eq_true_eq]

theorem refsInside_iff (g : Graph) : refsInside g = true ↔
    g.root < g.states.size ∧ ∀ s, s < g.states.size → ∀ c ∈ children (g.get s), c < g.states.size := by
  simp only [refsInside, Bool.and_eq_true, decide_eq_true_eq, List.all_eq_true, List.mem_range]

/-- the two checks only look at size, root, byte edges and end-of-input edges -/
theorem keeps_of_same_edges {g g' : Graph} (hsz : g'.states.size = g.states.size) (hr : g'.root = g.root)
    (hn : ∀ s, (g'.get s).normal = (g.get s).normal) (he : ∀ s, (g'.get s).eoi = (g.get s).eoi)
    (h1 : refsClosed g = true) (h2 : edgesDisjoint g = true) :
    refsClosed g' = true ∧ edgesDisjoint g' = true := by
  have hc : ∀ s, children (g'.get s) = children (g.get s) := by
    intro s; simp [children, hn, he]
  rw [refsClosed_iff] at h1 ⊢
  rw [edgesDisjoint_iff] at h2 ⊢
  refine ⟨⟨by rw [hsz, hr]; exact h1.1, ?_⟩, ?_⟩
  · intro s hs
    rw [hsz] at hs ⊢
    rw [hc, he]
    refine ⟨(h1.2 s hs).1, ?_⟩
    intro t ht
    rw [he]
    exact (h1.2 s hs).2 t ht
  · intro s hs b hb
    rw [hsz] at hs
    rw [hn]
    exact h2 s hs b hb

/-- early-accept detection and late-accept removal keep references and edge classes as they are -/
theorem earlyLate_keeps (g : Graph) (h1 : rawClosed g = true) (h2 : edgesDisjoint g = true) :
    refsClosed (lateRemoval (earlyPass g)) = true ∧ edgesDisjoint (lateRemoval (earlyPass g)) = true := by
  apply keeps_of_same_edges (g := g) (g' := lateRemoval (earlyPass g)) _ rfl _ _ h1 h2
  · rw [late_size, early_size]
  · intro s; rw [late_normal, early_normal]
  · intro s; rw [late_eoi, early_eoi]

/-! ### `reachBack` reaches its fixed point within `size` rounds -/

theorem filter_length_le_of_imp {α} (p q : α → Bool) (l : List α)
    (himp : ∀ x ∈ l, p x = true → q x = true) : (l.filter p).length ≤ (l.filter q).length := by
  induction l with
  | nil => simp
  | cons a l ih =>
    have ih' := ih (fun x hx => himp x (List.mem_cons_of_mem _ hx))
    have ha := himp a (List.mem_cons_self)
    cases hp : p a <;> cases hq : q a <;> simp [hp, hq] <;> first | omega | (simp [hp, hq] at ha)

theorem filter_length_lt_of_imp {α} (p q : α → Bool) (l : List α)
    (himp : ∀ x ∈ l, p x = true → q x = true) (x : α) (hx : x ∈ l) (hqx : q x = true)
    (hpx : p x = false) : (l.filter p).length < (l.filter q).length := by
  induction l with
  | nil => simp at hx
  | cons a l ih =>
    have himp' : ∀ x ∈ l, p x = true → q x = true := fun x hx => himp x (List.mem_cons_of_mem _ hx)
    have hle := filter_length_le_of_imp p q l himp'
    rcases List.mem_cons.mp hx with rfl | hxl
    · simp [hpx, hqx]
      omega
    · have ih' := ih himp' hxl
      have ha := himp a (List.mem_cons_self)
      cases hp : p a <;> cases hq : q a <;> simp [hp, hq] <;> first | omega | (simp [hp, hq] at ha)

/-- number of states not yet in `seen` -/
def rbMeasure (g : Graph) (seen : List Nat) : Nat :=
  ((List.range g.states.size).filter fun s => !seen.contains s).length

theorem rbMeasure_le (g : Graph) (seen : List Nat) : rbMeasure g seen ≤ g.states.size := by
  have := List.length_filter_le (fun s => !seen.contains s) (List.range g.states.size)
  simpa [rbMeasure] using this

theorem reachBack_closed (g : Graph) :
    ∀ (fuel : Nat) (seen : List Nat), rbMeasure g seen ≤ fuel →
      ∀ p, p < g.states.size → p ∉ reachBack g fuel seen →
        ∀ c ∈ children (g.get p), c ∉ reachBack g fuel seen := by
  intro fuel
  induction fuel with
  | zero =>
    intro seen hm p hp hnot c _
    exfalso
    have h0 : ((List.range g.states.size).filter fun s => !seen.contains s) = [] :=
      List.eq_nil_of_length_eq_zero (Nat.le_zero.mp hm)
    rw [List.filter_eq_nil_iff] at h0
    have := h0 p (List.mem_range.mpr hp)
    simp only [reachBack] at hnot
    simp at this
    exact hnot this
  | succ k ih =>
    intro seen hm p hp hnot c hc
    simp only [reachBack] at hnot ⊢
    split at hnot
    · rename_i hemp
      rw [if_pos hemp]
      intro hcs
      have hmem : p ∈ (List.range g.states.size).filter fun p =>
          !seen.contains p && (children (g.get p)).any fun c => seen.contains c := by
        rw [List.mem_filter]
        refine ⟨List.mem_range.mpr hp, ?_⟩
        simp only [Bool.and_eq_true, Bool.not_eq_true', List.any_eq_true]
        exact ⟨by simpa using hnot, c, hc, by simpa using hcs⟩
      rw [List.isEmpty_iff] at hemp
      rw [hemp] at hmem
      simp at hmem
    · rename_i hemp
      rw [if_neg hemp]
      refine ih _ ?_ p hp hnot c hc
      -- the measure drops
      generalize hmore : ((List.range g.states.size).filter fun p =>
          !seen.contains p && (children (g.get p)).any fun c => seen.contains c) = more at hemp
      obtain ⟨x, hx⟩ : ∃ x, x ∈ more := by
        cases more with
        | nil => simp at hemp
        | cons a _ => exact ⟨a, List.mem_cons_self⟩
      have hx' := hx
      rw [← hmore, List.mem_filter] at hx'
      obtain ⟨hxr, hxp⟩ := hx'
      simp only [Bool.and_eq_true, Bool.not_eq_true'] at hxp
      have hlt : rbMeasure g (seen ++ more) < rbMeasure g seen := by
        unfold rbMeasure
        apply filter_length_lt_of_imp _ _ _ _ x hxr
        · have := hxp.1
          simpa using this
        · have : x ∈ seen ++ more := List.mem_append_right _ hx
          simp [hx]
        · intro y _ hy
          simp only [Bool.not_eq_true', List.contains_eq_mem, List.mem_append, decide_eq_false_iff_not,
            not_or] at hy ⊢
          exact hy.1
      omega

/-- the live set computed by `reachBack` is closed under predecessors -/
theorem liveClosed_of_refs (g : Graph) (h1 : refsClosed g = true) : liveClosed g = true := by
  have _ := h1
  simp only [liveClosed, List.all_eq_true, List.mem_range, Bool.or_eq_true, Bool.not_eq_true']
  intro s hs
  by_cases hin : (liveSet g).contains s = true
  · exact Or.inl hin
  · right
    intro c hc
    have hnot : s ∉ liveSet g := by simpa using hin
    have : c ∉ liveSet g := reachBack_closed g g.states.size _ (rbMeasure_le g _) s hs hnot c hc
    simpa using this

/-! ### the states of the pruned graph, by index -/

theorem retain_get_idx (g : Graph) (keep : List Nat) (f : Nat → Nat) {i : Nat} (hi : i < keep.length) :
    (retain g keep f).get i =
      { g.get keep[i] with
          normal := (g.get keep[i]).normal.map (fun e => { e with target := f e.target }),
          eoi := (g.get keep[i]).eoi.map f } := by
  simp [retain, Graph.get, Array.getD, hi]

theorem prune_get_idx {g : Graph} {i : Nat} (hi : i < (pr_keepOf g).length) :
    Live g (pr_keepOf g)[i] ∧
    (prune g).get i =
      { early := (g.get (pr_keepOf g)[i]).early, accept := (g.get (pr_keepOf g)[i]).accept,
        normal := ((g.get (pr_keepOf g)[i]).normal.filter (fun e => (liveSet g).contains e.target)).map
          (fun e => { e with target := pr_fOf g e.target }),
        eoi := ((g.get (pr_keepOf g)[i]).eoi.filter (fun t => (liveSet g).contains t)).map (pr_fOf g) } := by
  have hl : Live g (pr_keepOf g)[i] := mem_keepOf.mp (List.getElem_mem hi)
  refine ⟨hl, ?_⟩
  rw [prune_eq, retain_get_idx _ _ _ hi, pr_g1Of, mapStates_get_lt _ _ _ hl.1]

theorem pr_fOf_lt {g : Graph} {s : Nat} (h : Live g s) : pr_fOf g s < (pr_keepOf g).length := by
  obtain ⟨i, hi, hr, _⟩ := pr_renumber_spec (mem_keepOf.mpr h)
  unfold pr_fOf
  rw [hr]
  exact hi

/-- pruning keeps references inside the graph and edge classes disjoint -/
theorem prune_keeps (g : Graph) (h1 : refsClosed g = true) (h2 : edgesDisjoint g = true) :
    refsInside (prune g) = true ∧ edgesDisjoint (prune g) = true := by
  rw [refsInside_iff, edgesDisjoint_iff, prune_size]
  refine ⟨⟨?_, ?_⟩, ?_⟩
  · rw [prune_root]
    exact pr_fOf_lt (root_live h1)
  · intro i hi c hc
    obtain ⟨hl, hg⟩ := prune_get_idx hi
    rw [hg] at hc
    simp only [children, List.mem_append, List.mem_map, List.mem_filter, Option.mem_toList] at hc
    rcases hc with ⟨e, ⟨e0, ⟨he0, hlive⟩, rfl⟩, rfl⟩ | hc
    · apply pr_fOf_lt
      refine live_child h1 hl ?_ hlive
      simp only [children, List.mem_append, List.mem_map]
      exact Or.inl ⟨e0, he0, rfl⟩
    · cases he : (g.get (pr_keepOf g)[i]).eoi with
      | none => rw [he] at hc; simp at hc
      | some t =>
        rw [he] at hc
        by_cases hlive : (liveSet g).contains t = true
        · simp only [Option.filter_some, hlive, if_true, Option.map_some] at hc
          cases hc
          exact pr_fOf_lt (live_child h1 hl (eoi_mem_children he) hlive)
        · have hlive' : (liveSet g).contains t = false := by simpa using hlive
          simp only [Option.filter_some, hlive', Bool.false_eq_true, if_false, Option.map_none] at hc
          cases hc
  · intro i hi b hb
    obtain ⟨hl, hg⟩ := prune_get_idx hi
    rw [hg]
    simp only
    rw [List.filter_map, List.length_map]
    have hsub : List.Sublist
        (((g.get (pr_keepOf g)[i]).normal.filter (fun e => (liveSet g).contains e.target)).filter
          (fun e => inRanges e.ranges b))
        ((g.get (pr_keepOf g)[i]).normal.filter (fun e => inRanges e.ranges b)) :=
      List.Sublist.filter _ List.filter_sublist
    have := hsub.length_le
    have h0 := (edgesDisjoint_iff g).mp h2 _ hl.1 b hb
    exact Nat.le_trans this h0

theorem sideOK_of_raw (g : Graph) (h : rawSideOK g = true) : sideOK g = true := by
  simp only [rawSideOK, Bool.and_eq_true] at h
  obtain ⟨⟨⟨⟨a, b⟩, c⟩, d⟩, e⟩ := h
  obtain ⟨r2, d2⟩ := earlyLate_keeps g d e
  have l2 := liveClosed_of_refs _ r2
  obtain ⟨r3, d3⟩ := prune_keeps _ r2 d2
  simp only [sideOK, Bool.and_eq_true]
  exact ⟨⟨⟨⟨⟨⟨⟨⟨a, b⟩, c⟩, d⟩, r2⟩, l2⟩, d2⟩, r3⟩, d3⟩

end Logos.Passes
