import LogosModel.Hir
/-!
# Decision logic of the derive that guards what gets implemented (C19)

* `greedy*`: `Pattern::has_greedy_all` (logos-codegen/src/pattern.rs) — is there an unbounded greedy
  repetition of a dot anywhere in the pattern?
* `variant*`: what `generate` does with the shape of a variant's fields (logos-codegen/src/lib.rs).
-/
namespace Logos

def maxScalar : Nat := 1114111

/-- the six `Hir::dot` classes, by their ranges (unicode flag, ranges) -/
def dotClasses : List (Bool × List (Nat × Nat)) :=
  [ (true, [(0, maxScalar)]), (false, [(0, 255)]),
    (false, [(0, 9), (11, 255)]), (true, [(0, 9), (11, maxScalar)]),
    (false, [(0, 9), (11, 12), (14, 255)]), (true, [(0, 9), (11, 12), (14, maxScalar)]) ]

def Hir.isDotClass : Hir → Bool
  | .cls u rs _ => dotClasses.contains (u, rs)
  | _ => false

/-- look through capture groups -/
def Hir.peel : Hir → Hir
  | .cap s => s.peel
  | h => h

mutual
/-- the check as found: a repetition is examined only for being itself `dot*`; its body is not searched -/
def Hir.greedyFound : Hir → Bool
  | .rep _ mx greedy s => s.isDotClass && mx.isNone && greedy
  | .cap s => s.greedyFound
  | .cat ss => Hir.greedyFoundL ss
  | .alt ss => Hir.greedyFoundL ss
  | _ => false
def Hir.greedyFoundL : List Hir → Bool
  | [] => false
  | h :: t => h.greedyFound || Hir.greedyFoundL t
end

mutual
/-- the repaired check: also search the body of every repetition, and see a dot through capture groups -/
def Hir.greedyFixed : Hir → Bool
  | .rep _ mx greedy s => (s.peel.isDotClass && mx.isNone && greedy) || s.greedyFixed
  | .cap s => s.greedyFixed
  | .cat ss => Hir.greedyFixedL ss
  | .alt ss => Hir.greedyFixedL ss
  | _ => false
def Hir.greedyFixedL : List Hir → Bool
  | [] => false
  | h :: t => h.greedyFixed || Hir.greedyFixedL t
end

/-- declarative: somewhere in the tree there is an unbounded greedy repetition whose body is a dot
(possibly wrapped in capture groups) -/
inductive HasGreedyDot : Hir → Prop
  | here {mn s} : s.peel.isDotClass = true → HasGreedyDot (.rep mn none true s)
  | inRep {mn mx g s} : HasGreedyDot s → HasGreedyDot (.rep mn mx g s)
  | inCap {s} : HasGreedyDot s → HasGreedyDot (.cap s)
  | inCat {ss s} : s ∈ ss → HasGreedyDot s → HasGreedyDot (.cat ss)
  | inAlt {ss s} : s ∈ ss → HasGreedyDot s → HasGreedyDot (.alt ss)

/-! ## variant shapes -/

inductive Fields where
  | unit | unnamed (n : Nat) | named
deriving Repr, DecidableEq

inductive VariantOut where
  | kindUnit
  | kindValue
  | kindSkip (withError : Bool)
  | error                 -- an error was recorded, processing of the variant stops
  | panic
deriving Repr, DecidableEq

/-- as found: a wrong number of unnamed fields records an error and then takes
`fields.unnamed.first_mut().expect("Already checked len; qed")` -/
def variantFound : Fields → VariantOut × Bool
  | .unit => (.kindUnit, false)
  | .unnamed n => if n = 0 then (.panic, true) else (.kindValue, n != 1)
  | .named => (.kindSkip true, true)

/-- repaired: no field to take a type from → stop after recording the error -/
def variantFixed : Fields → VariantOut × Bool
  | .unit => (.kindUnit, false)
  | .unnamed n => if n = 0 then (.error, true) else (.kindValue, n != 1)
  | .named => (.kindSkip true, true)

theorem variantFixed_never_panics (f : Fields) : (variantFixed f).1 ≠ .panic := by
  cases f <;> simp [variantFixed] <;> split <;> simp

theorem variantFound_panics : (variantFound (.unnamed 0)).1 = .panic := by decide

/-- a variant is implemented without a diagnostic only if it is a unit variant or has exactly one
unnamed field -/
theorem variantFixed_accepts_only (f : Fields) (h : (variantFixed f).2 = false) :
    f = .unit ∨ f = .unnamed 1 := by
  cases f with
  | unit => simp
  | named => simp [variantFixed] at h
  | unnamed n =>
    simp only [variantFixed] at h
    split at h
    · simp at h
    · simp at h; simp [h]

end Logos
