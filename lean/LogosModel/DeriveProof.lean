import LogosModel.Derive
namespace Logos

mutual
theorem greedyFixed_sound (h : Hir) : h.greedyFixed = true → HasGreedyDot h :=
  match h with
  | .empty => by simp [Hir.greedyFixed]
  | .lit _ => by simp [Hir.greedyFixed]
  | .cls _ _ _ => by simp [Hir.greedyFixed]
  | .look _ => by simp [Hir.greedyFixed]
  | .rep mn mx g s => by
    intro hf
    simp only [Hir.greedyFixed, Bool.or_eq_true, Bool.and_eq_true] at hf
    rcases hf with ⟨⟨h1, h2⟩, h3⟩ | h4
    · cases mx with
      | none => subst h3; exact HasGreedyDot.here h1
      | some m => simp at h2
    · exact HasGreedyDot.inRep (greedyFixed_sound s h4)
  | .cap s => by
    intro hf
    simp only [Hir.greedyFixed] at hf
    exact HasGreedyDot.inCap (greedyFixed_sound s hf)
  | .cat ss => by
    intro hf
    simp only [Hir.greedyFixed] at hf
    obtain ⟨s, hm, hs⟩ := greedyFixedL_sound ss hf
    exact HasGreedyDot.inCat hm hs
  | .alt ss => by
    intro hf
    simp only [Hir.greedyFixed] at hf
    obtain ⟨s, hm, hs⟩ := greedyFixedL_sound ss hf
    exact HasGreedyDot.inAlt hm hs
theorem greedyFixedL_sound (ss : List Hir) :
    Hir.greedyFixedL ss = true → ∃ s, s ∈ ss ∧ HasGreedyDot s :=
  match ss with
  | [] => by simp [Hir.greedyFixedL]
  | h :: t => by
    intro hf
    simp only [Hir.greedyFixedL, Bool.or_eq_true] at hf
    rcases hf with h1 | h2
    · exact ⟨h, List.mem_cons_self, greedyFixed_sound h h1⟩
    · obtain ⟨s, hm, hs⟩ := greedyFixedL_sound t h2
      exact ⟨s, List.mem_cons_of_mem _ hm, hs⟩
end

theorem greedyFixedL_of_mem {ss : List Hir} {s : Hir} (hm : s ∈ ss)
    (hs : s.greedyFixed = true) : Hir.greedyFixedL ss = true := by
  induction ss with
  | nil => cases hm
  | cons h t ih =>
    simp only [Hir.greedyFixedL, Bool.or_eq_true]
    rcases List.mem_cons.mp hm with rfl | hm'
    · exact Or.inl hs
    · exact Or.inr (ih hm')

theorem greedyFixed_complete {h : Hir} (hg : HasGreedyDot h) : h.greedyFixed = true := by
  induction hg with
  | here hd => simp [Hir.greedyFixed, hd]
  | inRep _ ih => simp [Hir.greedyFixed, ih]
  | inCap _ ih => simpa [Hir.greedyFixed] using ih
  | inCat hm _ ih => simpa [Hir.greedyFixed] using greedyFixedL_of_mem hm ih
  | inAlt hm _ ih => simpa [Hir.greedyFixed] using greedyFixedL_of_mem hm ih

/-- **C19, greedy dots.** The repaired check finds an unbounded greedy dot repetition at any depth. -/
theorem greedyFixed_iff (h : Hir) : h.greedyFixed = true ↔ HasGreedyDot h := by
  exact ⟨greedyFixed_sound h, greedyFixed_complete⟩

/-- a dot class, for examples -/
def dotLF : Hir := .cls true [(0, 9), (11, maxScalar)] []

theorem dotLF_isDot : dotLF.isDotClass = true := by
  simp [Hir.isDotClass, dotLF, dotClasses]

theorem dotLF_peel : dotLF.peel = dotLF := by
  simp [Hir.peel, dotLF]

/-- **The check as found misses nested repetitions**: `a(.*b)?` (the book's own example). -/
theorem greedyFound_misses_nested :
    let h : Hir := .cat [.lit [97], .rep 0 (some 1) true (.cap (.cat [.rep 0 none true dotLF, .lit [98]]))]
    HasGreedyDot h ∧ h.greedyFound = false ∧ h.greedyFixed = true := by
  intro h
  have hg : HasGreedyDot h :=
    HasGreedyDot.inCat
      (s := .rep 0 (some 1) true (.cap (.cat [.rep 0 none true dotLF, .lit [98]]))) (by simp)
      (HasGreedyDot.inRep (HasGreedyDot.inCap
        (HasGreedyDot.inCat (s := .rep 0 none true dotLF) (by simp)
          (HasGreedyDot.here (by rw [dotLF_peel]; exact dotLF_isDot)))))
  refine ⟨hg, ?_, greedyFixed_complete hg⟩
  simp [h, Hir.greedyFound, Hir.greedyFoundL, Hir.isDotClass]

/-- **… and dots inside a capture group**: `(.)*x`. -/
theorem greedyFound_misses_captured :
    let h : Hir := .cat [.rep 0 none true (.cap dotLF), .lit [120]]
    HasGreedyDot h ∧ h.greedyFound = false ∧ h.greedyFixed = true := by
  intro h
  have hg : HasGreedyDot h :=
    HasGreedyDot.inCat (s := .rep 0 none true (.cap dotLF)) (by simp)
      (HasGreedyDot.here (by rw [Hir.peel, dotLF_peel]; exact dotLF_isDot))
  refine ⟨hg, ?_, greedyFixed_complete hg⟩
  simp [h, Hir.greedyFound, Hir.greedyFoundL, Hir.isDotClass]

theorem isDotClass_peel {s : Hir} (hd : s.isDotClass = true) : s.peel.isDotClass = true := by
  cases s <;> simp_all [Hir.isDotClass, Hir.peel]

mutual
theorem greedyFound_le_fixed_aux (h : Hir) : h.greedyFound = true → h.greedyFixed = true :=
  match h with
  | .empty => by simp [Hir.greedyFound]
  | .lit _ => by simp [Hir.greedyFound]
  | .cls _ _ _ => by simp [Hir.greedyFound]
  | .look _ => by simp [Hir.greedyFound]
  | .rep mn mx g s => by
    intro hf
    simp only [Hir.greedyFound, Bool.and_eq_true] at hf
    obtain ⟨⟨h1, h2⟩, h3⟩ := hf
    simp [Hir.greedyFixed, isDotClass_peel h1, h2, h3]
  | .cap s => by
    intro hf
    simp only [Hir.greedyFound] at hf
    simpa [Hir.greedyFixed] using greedyFound_le_fixed_aux s hf
  | .cat ss => by
    intro hf
    simp only [Hir.greedyFound] at hf
    simpa [Hir.greedyFixed] using greedyFoundL_le_fixedL ss hf
  | .alt ss => by
    intro hf
    simp only [Hir.greedyFound] at hf
    simpa [Hir.greedyFixed] using greedyFoundL_le_fixedL ss hf
theorem greedyFoundL_le_fixedL (ss : List Hir) :
    Hir.greedyFoundL ss = true → Hir.greedyFixedL ss = true :=
  match ss with
  | [] => by simp [Hir.greedyFoundL]
  | h :: t => by
    intro hf
    simp only [Hir.greedyFoundL, Bool.or_eq_true] at hf
    simp only [Hir.greedyFixedL, Bool.or_eq_true]
    rcases hf with h1 | h2
    · exact Or.inl (greedyFound_le_fixed_aux h h1)
    · exact Or.inr (greedyFoundL_le_fixedL t h2)
end

/-- whatever the found check reports, the repaired one reports too -/
theorem greedyFound_le_fixed (h : Hir) : h.greedyFound = true → h.greedyFixed = true := by
  exact greedyFound_le_fixed_aux h

end Logos
