import LogosModel.Chunked
import LogosModel.BumpTiles
/-!
# Lexing a slice is lexing inside the longer buffer (C07: feeding by re-slicing)

`examples/json_reader.rs` and `book/src/partial.md` do not resume a lexer inside the buffer: they drop the bytes already
lexed and build a new lexer over the *remaining slice* (`Lexer::new_partial(&buffer[start..end])`), whose spans count
from the start of the slice.  `Chunked.feed` models lexers resumed with `bump(q)` over `S[..k]`.  This file closes the
gap (DESIGN section 8 listed it as a coincidence that was not a theorem):

* a match attempt of a generated lexer reads only the bytes from the token start on (`walk` is handed `inp.drop start`),
  so `walkAttempt_shift`: an attempt at `q + s` in `S` is the attempt at `s` in `S.drop q`, offsets moved by `q`
  (the root records nothing: `WF.rootNoRec`; a late accept at offset 0 would be the only place where `pos - 1`
  is not translation invariant);
* `findBoundary`, `slice`, the remainder handed to a callback are translation invariant (`findBoundary_shift`,
  `slice_shift`);
* `nextLoop_shift`, `lexFrom_shift`: so are `Lexer::next` and the lexing loop, for **every** callback table (bumping
  ones included) and both lexer modes;
* `reslice_graphLex`: lexing `S.drop q` from 0 is lexing `S` from `q`, items and final span moved by `q`;
* `feedR` is the feeding loop of the example (partial lexers over `S[q..k]`, the next one starting at `q + span().start`,
  an ordinary lexer over `S[q..]` at the end); **`C07_chunked_feeding_resliced`**: for every well-formed graph, input and
  schedule it yields the one-shot stream.
-/
namespace Logos

def Item.shift (q : Nat) : Item → Item
  | .ok l s e => .ok l (q + s) (q + e)
  | .err c s e => .err c (q + s) (q + e)

def Stop.shift (q : Nat) : Stop → Stop
  | .needMore => .needMore
  | .endOfInput => .endOfInput
  | .diverge => .diverge
  | .action off ctx te => .action (q + off) ctx (q + te)

def Attempt.shift (q : Nat) : Attempt → Attempt
  | .eoi => .eoi
  | .needMore => .needMore
  | .diverge => .diverge
  | .matched l te => .matched l (q + te)
  | .nomatch off => .nomatch (q + off)

def NextRes.shift (q : Nat) : NextRes → NextRes
  | .item it => .item (it.shift q)
  | .none s e => .none (q + s) (q + e)
  | .diverge => .diverge

def Final.shift (q : Nat) : Final → Final
  | .done s e => .done (q + s) (q + e)
  | .diverge => .diverge

def shiftRun (q : Nat) (r : List Item × Final) : List Item × Final := (r.1.map (Item.shift q), r.2.shift q)

@[simp] theorem Item.shift_stop (q : Nat) (it : Item) : (it.shift q).stop = q + it.stop := by
  cases it <;> rfl

@[simp] theorem Item.shift_start (q : Nat) (it : Item) : (it.shift q).start = q + it.start := by
  cases it <;> rfl

theorem attemptOfStop_shift (q : Nat) (s : Stop) : attemptOfStop (s.shift q) = (attemptOfStop s).shift q := by
  cases s with
  | action off ctx te => cases ctx <;> rfl
  | _ => rfl

/-! ## one match attempt -/

theorem record_shift (sd : StateData) (q pos : Nat) (ctx : Option Nat) (te : Nat)
    (h : 0 < pos ∨ sd.accept = none) :
    record sd (q + pos) ctx (q + te) = ((record sd pos ctx te).1, q + (record sd pos ctx te).2) := by
  unfold record
  cases he : sd.early with
  | some l => rfl
  | none =>
    cases ha : sd.accept with
    | none => rfl
    | some l =>
      rcases h with h | h
      · show (some l, q + pos - 1) = (some l, q + (pos - 1))
        congr 1
        omega
      · rw [ha] at h; cases h

theorem atEoi_shift (g : Graph) (p : Bool) (q start : Nat) :
    ∀ (fuel st pos : Nat) (ctx : Option Nat) (te : Nat),
      atEoi g p (q + start) fuel st (q + pos) ctx (q + te) = (atEoi g p start fuel st pos ctx te).shift q := by
  intro fuel
  induction fuel with
  | zero => intro st pos ctx te; rfl
  | succ n ih =>
    intro st pos ctx te
    simp only [atEoi]
    have hcmp : (q + start == q + pos) = (start == pos) := by
      rw [Bool.eq_iff_iff]
      simp only [beq_iff_eq]
      omega
    rw [hcmp]
    split
    · rfl
    · split
      · rfl
      · cases he : (g.get st).eoi with
        | none => rfl
        | some t =>
          simp only
          have hr := record_shift (g.get t) q (pos + 1) ctx te (Or.inl (Nat.succ_pos _))
          rw [show q + pos + 1 = q + (pos + 1) from by omega, hr]
          exact ih t (pos + 1) _ _

theorem walk_shift (g : Graph) (p : Bool) (q start : Nat) :
    ∀ (rest : List Nat) (st pos : Nat) (ctx : Option Nat) (te : Nat),
      (0 < pos ∨ (g.get st).accept = none) →
      walk g p (q + start) st rest (q + pos) ctx (q + te) = (walk g p start st rest pos ctx te).shift q := by
  intro rest
  induction rest with
  | nil =>
    intro st pos ctx te h
    simp only [walk]
    rw [record_shift (g.get st) q pos ctx te h]
    exact atEoi_shift g p q start _ st pos _ _
  | cons b rest ih =>
    intro st pos ctx te h
    simp only [walk]
    rw [record_shift (g.get st) q pos ctx te h]
    cases hn : (g.get st).next b with
    | none => rfl
    | some t =>
      simp only
      rw [show q + pos + 1 = q + (pos + 1) from by omega]
      exact ih t (pos + 1) _ _ (Or.inl (Nat.succ_pos _))

/-- **a match attempt does not look behind the token start**: the attempt at `q + s` in `S` is the attempt at `s` in the
slice `S.drop q`, every offset moved by `q` -/
theorem walkAttempt_shift {G : Graph} (hroot : (G.get G.root).accept = none) (p : Bool) (S : List Nat) (q s : Nat) :
    walkAttempt G p S (q + s) = (walkAttempt G p (S.drop q) s).shift q := by
  unfold walkAttempt
  rw [List.drop_drop, ← attemptOfStop_shift]
  congr 1
  exact walk_shift G p q s (S.drop (q + s)) G.root s none s (Or.inr hroot)

/-! ## `find_boundary`, `slice` -/

theorem isBoundary_shift (S : List Nat) (q i : Nat) (hq : q ≤ S.length) (hi : 0 < i) :
    isBoundary (S.drop q) i = isBoundary S (q + i) := by
  unfold isBoundary
  have h0 : i ≠ 0 := by omega
  have h0' : q + i ≠ 0 := by omega
  simp only [h0, h0', if_false, List.length_drop, List.getElem?_drop]
  by_cases h : i = S.length - q
  · have : q + i = S.length := by omega
    rw [if_pos h, if_pos this]
  · have : q + i ≠ S.length := by omega
    rw [if_neg h, if_neg this]

theorem findBoundaryFuel_shift (S : List Nat) (q : Nat) (hq : q ≤ S.length) :
    ∀ (fuel i : Nat), 0 < i →
      findBoundaryFuel S fuel (q + i) = (findBoundaryFuel (S.drop q) fuel i).map (q + ·) := by
  intro fuel
  induction fuel with
  | zero => intro i _; rfl
  | succ n ih =>
    intro i hi
    simp only [findBoundaryFuel]
    rw [isBoundary_shift S q i hq hi]
    split
    · rfl
    · rw [show q + i + 1 = q + (i + 1) from by omega]
      exact ih (i + 1) (by omega)

theorem findBoundary_shift (S : List Nat) (q i : Nat) (hq : q ≤ S.length) (hi : 0 < i) :
    findBoundary S (q + i) = (findBoundary (S.drop q) i).map (q + ·) := by
  unfold findBoundary
  simp only [List.length_drop]
  by_cases h : i ≤ S.length - q
  · have h' : q + i ≤ S.length := by omega
    simp only [h, h', if_true]
    rw [show S.length - (q + i) + 1 = S.length - q - i + 1 from by omega]
    exact findBoundaryFuel_shift S q hq _ i hi
  · have h' : ¬ q + i ≤ S.length := by omega
    simp [h, h']

theorem slice_shift (S : List Nat) (q a b : Nat) : slice S (q + a) (q + b) = slice (S.drop q) a b := by
  unfold slice
  rw [List.drop_drop, show q + b - (q + a) = b - a from by omega]

/-! ## `Lexer::next` and the lexing loop -/

theorem nextLoop_shift {G : Graph} (hroot : (G.get G.root).accept = none) (p : Bool) (cb : Callbacks) (utf8 : Bool)
    (S : List Nat) (q : Nat) (hq : q ≤ S.length) :
    ∀ (fuel start : Nat),
      nextLoop (walkAttempt G p S) cb utf8 S fuel (q + start) =
        (nextLoop (walkAttempt G p (S.drop q)) cb utf8 (S.drop q) fuel start).shift q := by
  intro fuel
  induction fuel with
  | zero => intro start; rfl
  | succ n ih =>
    intro start
    simp only [nextLoop]
    rw [walkAttempt_shift hroot p S q start]
    cases hatt : walkAttempt G p (S.drop q) start with
    | eoi => rfl
    | needMore => rfl
    | diverge => rfl
    | «nomatch» off =>
      simp only [Attempt.shift]
      have hmax : max (q + off) (q + start + 1) = q + max off (start + 1) := by omega
      rw [hmax]
      cases utf8 with
      | false => rfl
      | true =>
        simp only [if_true]
        rw [findBoundary_shift S q _ hq (by omega)]
        cases findBoundary (S.drop q) (max off (start + 1)) <;> rfl
    | matched l te =>
      simp only [Attempt.shift]
      rw [slice_shift, ← List.drop_drop]
      cases hact : (cb l (slice (S.drop q) start te) ((S.drop q).drop te)).act with
      | skip =>
        simp only
        rw [show q + te + (cb l (slice (S.drop q) start te) ((S.drop q).drop te)).bump =
          q + (te + (cb l (slice (S.drop q) start te) ((S.drop q).drop te)).bump) from by omega]
        exact ih _
      | emit => simp only [NextRes.shift, Item.shift]; congr 2; omega
      | errDefault => simp only [NextRes.shift, Item.shift]; congr 2; omega
      | errCustom t => simp only [NextRes.shift, Item.shift]; congr 2; omega

/-- more fuel changes nothing once a call of `next` has come to an end -/
theorem nextLoop_fuel_mono (att : Nat → Attempt) (cb : Callbacks) (utf8 : Bool) (inp : List Nat) :
    ∀ (f1 f2 start : Nat), f1 ≤ f2 → nextLoop att cb utf8 inp f1 start ≠ .diverge →
      nextLoop att cb utf8 inp f2 start = nextLoop att cb utf8 inp f1 start := by
  intro f1
  induction f1 with
  | zero => intro f2 start _ h; exact absurd rfl h
  | succ n ih =>
    intro f2 start hle h
    cases f2 with
    | zero => omega
    | succ m =>
      simp only [nextLoop] at h ⊢
      cases hatt : att start with
      | matched l te =>
        rw [hatt] at h
        simp only at h ⊢
        cases hact : (cb l (slice inp start te) (inp.drop te)).act with
        | skip =>
          rw [hact] at h
          simp only at h ⊢
          exact ih m _ (by omega) h
        | _ => rfl
      | _ => rfl

theorem lexFrom_shift {G : Graph} (hroot : (G.get G.root).accept = none) (p : Bool) (cb : Callbacks) (utf8 : Bool)
    (S : List Nat) (q : Nat) (hq : q ≤ S.length) :
    ∀ (f1 f2 pos : Nat), f1 ≤ f2 →
      (lexFrom (walkAttempt G p (S.drop q)) cb utf8 (S.drop q) f1 pos).2 ≠ .diverge →
      lexFrom (walkAttempt G p S) cb utf8 S f2 (q + pos) =
        shiftRun q (lexFrom (walkAttempt G p (S.drop q)) cb utf8 (S.drop q) f1 pos) := by
  intro f1
  induction f1 with
  | zero => intro f2 pos _ h; exact absurd rfl h
  | succ n ih =>
    intro f2 pos hle h
    cases f2 with
    | zero => omega
    | succ m =>
      simp only [lexFrom] at h ⊢
      have hlen : (S.drop q).length + 2 ≤ S.length + 2 := by simp only [List.length_drop]; omega
      have hnd : nextLoop (walkAttempt G p (S.drop q)) cb utf8 (S.drop q) ((S.drop q).length + 2) pos ≠ .diverge := by
        intro hd; rw [hd] at h; exact h rfl
      have hbig := nextLoop_shift hroot p cb utf8 S q hq (S.length + 2) pos
      rw [nextLoop_fuel_mono _ cb utf8 (S.drop q) _ _ pos hlen hnd] at hbig
      rw [hbig]
      cases hres : nextLoop (walkAttempt G p (S.drop q)) cb utf8 (S.drop q) ((S.drop q).length + 2) pos with
      | diverge => exact absurd hres hnd
      | none s e => rfl
      | item it =>
        rw [hres] at h
        simp only [NextRes.shift, Item.shift_stop] at h ⊢
        rw [ih m it.stop (by omega) h]
        rfl

/-- **lexing the remaining slice is lexing inside the buffer.**  For every graph whose root records nothing (every
well-formed graph), either mode, every callback table: a lexer over `S[q..]` that comes to an end yields what a lexer over
`S` positioned at `q` yields, every span moved by `q`. -/
theorem reslice_graphLex {G : Graph} (hwf : WF G) (p : Bool) (cb : Callbacks) (utf8 : Bool) (S : List Nat) (q : Nat)
    (hq : q ≤ S.length) (hnd : (graphLex G p cb utf8 (S.drop q)).2 ≠ .diverge) :
    lexFrom (walkAttempt G p S) cb utf8 S (S.length + 2) q = shiftRun q (graphLex G p cb utf8 (S.drop q)) := by
  unfold graphLex lexAll at *
  have := lexFrom_shift hwf.rootNoRec.2 p cb utf8 S q hq ((S.drop q).length + 2) (S.length + 2) 0
    (by simp only [List.length_drop]; omega) hnd
  rwa [Nat.add_zero] at this

/-! ## feeding by re-slicing -/

/-- the feeding loop of `examples/json_reader.rs`: a partial lexer over `S[q..k]` until `None`, the bytes before the
position it reports are dropped (`q` moves on by `span().start`), .., an ordinary lexer over `S[q..]` at the end.  Spans
are reported in file offsets (`offset_of_buffer_in_file + ..`), i.e. moved by `q`. -/
def feedR (G : Graph) (cb : Callbacks) (utf8 : Bool) (S : List Nat) : List Nat → Nat → List Item × Final
  | [], q => shiftRun q (graphLex G false cb utf8 (S.drop q))
  | k :: ks, q =>
    match graphLex G true cb utf8 ((S.take k).drop q) with
    | (items, .done r _) =>
      let rest := feedR G cb utf8 S ks (q + r)
      (items.map (Item.shift q) ++ rest.1, rest.2)
    | (items, f) => (items.map (Item.shift q), f.shift q)

theorem feedR_eq_feed {G : Graph} (hwf : WF G) (cb : Callbacks) (hnb : NoBump cb) (utf8 : Bool) (S : List Nat)
    (hb : ∀ b ∈ S, b < 256) :
    ∀ (ks : List Nat) (q lo : Nat), q ≤ lo → lo ≤ S.length → ScheduleOK utf8 S lo ks →
      feedR G cb utf8 S ks q = feed G cb utf8 S ks q := by
  intro ks
  induction ks with
  | nil =>
    intro q lo hq hlo _
    simp only [feedR, feed]
    obtain ⟨items, e, _, _⟩ := graphLex_tiles_bump hwf cb hnb.bumpOK utf8 (S.drop q)
      (fun b hbm => hb b (List.mem_of_mem_drop hbm))
    exact (reslice_graphLex hwf false cb utf8 S q (by omega) (by rw [e]; simp)).symm
  | cons k ks ih =>
    intro q lo hq hlo hs
    obtain ⟨h1, h2, _, h4⟩ := hs
    have hlen : (S.take k).length = k := by simp [List.length_take, Nat.min_eq_left h2]
    have hbpre : ∀ b ∈ S.take k, b < 256 := fun b hbm => hb b (List.mem_of_mem_take hbm)
    obtain ⟨items, r, e, hr, _, _⟩ := partial_tiles_bump hwf cb hnb.bumpOK utf8 ((S.take k).drop q)
      (fun b hbm => hbpre b (List.mem_of_mem_drop hbm))
    have hre := reslice_graphLex hwf true cb utf8 (S.take k) q (by omega) (by rw [e]; simp)
    rw [e] at hre
    simp only [feedR, feed, e, hre, shiftRun, Final.shift]
    have hr' : q + r ≤ k := by
      simp only [List.length_drop, hlen] at hr
      omega
    rw [ih (q + r) k hr' h2 h4]

/-- **C07 (chunked feeding by re-slicing).**  Partial lexers over the not yet lexed part of any schedule of growing
buffers, finished by an ordinary lexer over the rest, yield together - in offsets of the whole input - exactly the
one-shot token stream. -/
theorem C07_chunked_feeding_resliced {G : Graph} (hwf : WF G) (cb : Callbacks) (hnb : NoBump cb)
    (hcb : ∀ l s r r', cb l s r = cb l s r') (utf8 : Bool) (S : List Nat) (hb : ∀ b ∈ S, b < 256)
    (ks : List Nat) (hs : ScheduleOK utf8 S 0 ks) :
    feedR G cb utf8 S ks 0 = graphLex G false cb utf8 S := by
  rw [feedR_eq_feed hwf cb hnb utf8 S hb ks 0 0 (Nat.le_refl _) (Nat.zero_le _) hs]
  exact C07_chunked_feeding hwf cb hnb hcb utf8 S hb ks hs

end Logos
