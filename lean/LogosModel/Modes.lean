import LogosModel.WfProof
import LogosModel.Utf8
/-!
# C12: the same graph lexed as `str` and as `[u8]` on valid UTF-8 input

The two modes differ only in `find_boundary`: identity for `[u8]`, next char boundary for `str`.
-/
namespace Logos

def Item.isOk : Item → Bool
  | .ok _ _ _ => true
  | .err _ _ _ => false

def okItems (items : List Item) : List Item := items.filter Item.isOk

/-- the input positions covered by error items, in order -/
def errBytes : List Item → List Nat
  | [] => []
  | .ok _ _ _ :: rest => errBytes rest
  | .err _ s e :: rest => List.range' s (e - s) ++ errBytes rest

/-! ## helper lemmas for C12 -/

theorem okItems_append (a b : List Item) : okItems (a ++ b) = okItems a ++ okItems b := by
  simp [okItems, List.filter_append]

theorem errBytes_append (a b : List Item) : errBytes (a ++ b) = errBytes a ++ errBytes b := by
  induction a with
  | nil => simp [errBytes]
  | cons it a ih =>
    cases it with
    | ok l s e => simpa [errBytes] using ih
    | err c s e => simp [errBytes, ih, List.append_assoc]

/-- the one-byte error items byte mode reports for positions `s, s+1, …, s+d-1` -/
def unitErrs (s d : Nat) : List Item := (List.range' s d).map fun k => Item.err none k (k + 1)

theorem okItems_unitErrs (s d : Nat) : okItems (unitErrs s d) = [] := by
  simp only [okItems, unitErrs, List.filter_eq_nil_iff, List.mem_map]
  rintro a ⟨x, _, rfl⟩
  simp [Item.isOk]

theorem errBytes_unitErrs : ∀ (d s : Nat), errBytes (unitErrs s d) = List.range' s d := by
  intro d
  induction d with
  | zero => intro s; simp [unitErrs, errBytes]
  | succ d ih =>
    intro s
    have := ih (s + 1)
    simp only [unitErrs] at this
    simp only [unitErrs, List.range'_succ, List.map_cons, errBytes, this]
    have : s + 1 - s = 1 := by omega
    simp [this]

/-- a non-boundary position strictly inside the input holds a continuation byte -/
theorem cont_of_not_boundary (inp : List Nat) (k : Nat) (hk : k < inp.length)
    (h : isBoundary inp k = false) : isCont inp[k] = true := by
  unfold isBoundary at h
  have hget : inp[k]? = some inp[k] := List.getElem?_eq_getElem hk
  rw [hget] at h
  by_cases h0 : k = 0
  · simp [h0] at h
  · have hl : k ≠ inp.length := by omega
    simpa [h0, hl] using h

/-- an attempt started on a continuation byte fails immediately -/
theorem walkAttempt_cont {G : Graph} (hwf : WF G) (inp : List Nat)
    (hroot : ∀ b, isCont b = true → (G.get G.root).next b = none)
    (k : Nat) (hk : k < inp.length) (h : isBoundary inp k = false) :
    walkAttempt G false inp k = .nomatch k := by
  obtain ⟨r1, r2⟩ := hwf.rootNoRec
  have hrec : record (G.get G.root) k none k = (none, k) := by
    simp [record, r1, r2]
  have hnx := hroot _ (cont_of_not_boundary inp k hk h)
  unfold walkAttempt
  rw [List.drop_eq_getElem_cons hk]
  simp only [walk, hnx, hrec, attemptOfStop]

theorem nextLoop_cont {G : Graph} (hwf : WF G) (cb : Callbacks) (inp : List Nat)
    (hroot : ∀ b, isCont b = true → (G.get G.root).next b = none)
    (k : Nat) (hk : k < inp.length) (h : isBoundary inp k = false) (fuel : Nat) :
    nextLoop (walkAttempt G false inp) cb false inp (fuel + 1) k = .item (.err none k (k + 1)) := by
  unfold nextLoop
  rw [walkAttempt_cont hwf inp hroot k hk h]
  have : max k (k + 1) = k + 1 := by omega
  simp [this]

theorem lexFrom_item (att : Nat → Attempt) (cb : Callbacks) (utf8 : Bool) (inp : List Nat)
    (f pos : Nat) (it : Item) (h : nextLoop att cb utf8 inp (inp.length + 2) pos = .item it) :
    lexFrom att cb utf8 inp (f + 1) pos =
      (it :: (lexFrom att cb utf8 inp f it.stop).1, (lexFrom att cb utf8 inp f it.stop).2) := by
  rw [lexFrom, h]

theorem lexFrom_none (att : Nat → Attempt) (cb : Callbacks) (utf8 : Bool) (inp : List Nat)
    (f pos s e : Nat) (h : nextLoop att cb utf8 inp (inp.length + 2) pos = .none s e) :
    lexFrom att cb utf8 inp (f + 1) pos = ([], .done s e) := by
  rw [lexFrom, h]

/-- byte mode walks through a run of non-boundary positions one byte at a time -/
theorem lexFrom_resync {G : Graph} (hwf : WF G) (cb : Callbacks) (inp : List Nat)
    (hroot : ∀ b, isCont b = true → (G.get G.root).next b = none) :
    ∀ (d e0 f : Nat), e0 + d ≤ inp.length →
      (∀ k, e0 ≤ k → k < e0 + d → isBoundary inp k = false) →
      (lexFrom (walkAttempt G false inp) cb false inp (f + d) e0).1 =
        unitErrs e0 d ++ (lexFrom (walkAttempt G false inp) cb false inp f (e0 + d)).1 := by
  intro d
  induction d with
  | zero => intro e0 f _ _; simp [unitErrs]
  | succ d ih =>
    intro e0 f hle hnb
    have hstep := nextLoop_cont hwf cb inp hroot e0 (by omega) (hnb e0 (Nat.le_refl _) (by omega))
      (inp.length + 1)
    have hfd : f + (d + 1) = (f + d) + 1 := by omega
    rw [hfd, lexFrom_item _ _ _ _ _ _ _ hstep]
    simp only [Item.stop]
    rw [ih (e0 + 1) f (by omega) (fun k h1 h2 => hnb k (by omega) (by omega))]
    have : e0 + 1 + d = e0 + (d + 1) := by omega
    rw [this]
    simp [unitErrs, List.range'_succ]

/-- One `next` call from a boundary: both modes skip the same tokens, then either both stop, both
yield the same item ending on a boundary, or both yield a default error from the same start where
byte mode ends at `e0` and str mode at the next boundary `e ≥ e0`. -/
theorem nextLoop_modes {G : Graph} (hwf : WF G) (cb : Callbacks) (hcb : NoBump cb) (inp : List Nat)
    (hb : ∀ b ∈ inp, b < 256)
    (hends : ∀ start l e, isBoundary inp start = true →
      walkAttempt G false inp start = .matched l e → isBoundary inp e = true) :
    ∀ (fuel start : Nat), start ≤ inp.length → isBoundary inp start = true →
      inp.length - start + 1 ≤ fuel →
      (∃ s e, nextLoop (walkAttempt G false inp) cb true inp fuel start = .none s e ∧
              nextLoop (walkAttempt G false inp) cb false inp fuel start = .none s e) ∨
      (∃ it, nextLoop (walkAttempt G false inp) cb true inp fuel start = .item it ∧
             nextLoop (walkAttempt G false inp) cb false inp fuel start = .item it ∧
             start < it.stop ∧ it.stop ≤ inp.length ∧ isBoundary inp it.stop = true) ∨
      (∃ s e0 e, nextLoop (walkAttempt G false inp) cb true inp fuel start = .item (.err none s e) ∧
             nextLoop (walkAttempt G false inp) cb false inp fuel start = .item (.err none s e0) ∧
             start < e0 ∧ s ≤ e0 ∧ e0 ≤ e ∧ e ≤ inp.length ∧ isBoundary inp e = true ∧
             ∀ k, e0 ≤ k → k < e → isBoundary inp k = false) := by
  intro fuel
  induction fuel with
  | zero => intro start _ _ h; omega
  | succ n ih =>
    intro start hs hbd hf
    unfold nextLoop
    cases hatt : walkAttempt G false inp start with
    | eoi => left; exact ⟨start, start, rfl, rfl⟩
    | needMore => exact absurd hatt (walkAttempt_not_needMore G inp start)
    | diverge => exact absurd hatt (walkAttempt_not_diverge hwf inp start)
    | «nomatch» off =>
      obtain ⟨h1, h2, h3⟩ := walkAttempt_nomatch_bounds hwf inp hb start off hatt
      have he0 : max off (start + 1) ≤ inp.length := by omega
      obtain ⟨j, hj1, hj2, hj3, hj4, hj5⟩ := findBoundary_spec inp _ he0
      right; right
      refine ⟨start, max off (start + 1), j, by simp [hj1], by simp, by omega, by omega, hj2, hj3,
        hj4, hj5⟩
    | matched l te =>
      obtain ⟨h1, h2⟩ := walkAttempt_matched_bounds hwf inp hb start l te hatt
      have hte : isBoundary inp te = true := hends start l te hbd hatt
      have hbump : (cb l (slice inp start te) (List.drop te inp)).bump = 0 := hcb _ _ _
      simp only [hbump, Nat.add_zero]
      cases hact : (cb l (slice inp start te) (List.drop te inp)).act with
      | emit =>
        right; left
        exact ⟨.ok l start te, rfl, rfl, h1, h2, hte⟩
      | skip =>
        simp only
        rcases ih te h2 hte (by omega) with ⟨s, e, ha, hb'⟩ | ⟨it, ha, hb', h3, h4, h5⟩ |
          ⟨s, e0, e, ha, hb', h3, h4, h5, h6, h7, h8⟩
        · left; exact ⟨s, e, ha, hb'⟩
        · right; left; exact ⟨it, ha, hb', by omega, h4, h5⟩
        · right; right; exact ⟨s, e0, e, ha, hb', by omega, h4, h5, h6, h7, h8⟩
      | errDefault =>
        right; left
        exact ⟨.err none start te, rfl, rfl, h1, h2, hte⟩
      | errCustom t =>
        right; left
        exact ⟨.err (some t) start te, rfl, rfl, h1, h2, hte⟩

theorem okItems_cons_congr (it : Item) (a b : List Item) (h : okItems a = okItems b) :
    okItems (it :: a) = okItems (it :: b) := by
  simp only [okItems, List.filter_cons] at *
  split <;> simp [h]

theorem errBytes_cons_congr (it : Item) (a b : List Item) (h : errBytes a = errBytes b) :
    errBytes (it :: a) = errBytes (it :: b) := by
  cases it <;> simp [errBytes, h]

/-- From any char boundary, with enough fuel on both sides, the two modes agree. -/
theorem lexFrom_modes {G : Graph} (hwf : WF G) (cb : Callbacks) (hcb : NoBump cb) (inp : List Nat)
    (hb : ∀ b ∈ inp, b < 256)
    (hroot : ∀ b, isCont b = true → (G.get G.root).next b = none)
    (hends : ∀ start l e, isBoundary inp start = true →
      walkAttempt G false inp start = .matched l e → isBoundary inp e = true) :
    ∀ (n pos f1 f2 : Nat), inp.length - pos ≤ n → pos ≤ inp.length → isBoundary inp pos = true →
      inp.length - pos + 1 ≤ f1 → inp.length - pos + 1 ≤ f2 →
      okItems (lexFrom (walkAttempt G false inp) cb true inp f1 pos).1 =
        okItems (lexFrom (walkAttempt G false inp) cb false inp f2 pos).1 ∧
      errBytes (lexFrom (walkAttempt G false inp) cb true inp f1 pos).1 =
        errBytes (lexFrom (walkAttempt G false inp) cb false inp f2 pos).1 := by
  intro n
  induction n with
  | zero =>
    intro pos f1 f2 hn hp hbd hf1 hf2
    obtain ⟨g1, rfl⟩ : ∃ g, f1 = g + 1 := ⟨f1 - 1, by omega⟩
    obtain ⟨g2, rfl⟩ : ∃ g, f2 = g + 1 := ⟨f2 - 1, by omega⟩
    rcases nextLoop_modes hwf cb hcb inp hb hends (inp.length + 2) pos hp hbd (by omega) with
      ⟨s, e, ha, hb'⟩ | ⟨it, ha, hb', h3, h4, h5⟩ | ⟨s, e0, e, ha, hb', h3, h4, h5, h6, h7, h8⟩
    · rw [lexFrom_none _ _ _ _ _ _ _ _ ha, lexFrom_none _ _ _ _ _ _ _ _ hb']; exact ⟨rfl, rfl⟩
    · omega
    · omega
  | succ n ih =>
    intro pos f1 f2 hn hp hbd hf1 hf2
    obtain ⟨g1, rfl⟩ : ∃ g, f1 = g + 1 := ⟨f1 - 1, by omega⟩
    obtain ⟨g2, rfl⟩ : ∃ g, f2 = g + 1 := ⟨f2 - 1, by omega⟩
    rcases nextLoop_modes hwf cb hcb inp hb hends (inp.length + 2) pos hp hbd (by omega) with
      ⟨s, e, ha, hb'⟩ | ⟨it, ha, hb', h3, h4, h5⟩ | ⟨s, e0, e, ha, hb', h3, h4, h5, h6, h7, h8⟩
    · rw [lexFrom_none _ _ _ _ _ _ _ _ ha, lexFrom_none _ _ _ _ _ _ _ _ hb']; exact ⟨rfl, rfl⟩
    · rw [lexFrom_item _ _ _ _ _ _ _ ha, lexFrom_item _ _ _ _ _ _ _ hb']
      obtain ⟨i1, i2⟩ := ih it.stop g1 g2 (by omega) h4 h5 (by omega) (by omega)
      exact ⟨okItems_cons_congr _ _ _ i1, errBytes_cons_congr _ _ _ i2⟩
    · rw [lexFrom_item _ _ _ _ _ _ _ ha, lexFrom_item _ _ _ _ _ _ _ hb']
      simp only [Item.stop]
      obtain ⟨g, hg⟩ : ∃ g, g2 = g + (e - e0) := ⟨g2 - (e - e0), by omega⟩
      have hres := lexFrom_resync hwf cb inp hroot (e - e0) e0 g (by omega)
        (fun k h1 h2 => h8 k h1 (by omega))
      have hee : e0 + (e - e0) = e := by omega
      rw [hee] at hres
      rw [hg, hres]
      obtain ⟨i1, i2⟩ := ih e g1 g (by omega) h6 h7 (by omega) (by omega)
      constructor
      · simp only [okItems, List.filter_cons, Item.isOk]
        simp only [Bool.false_eq_true, if_false]
        have := okItems_append (unitErrs e0 (e - e0))
          (lexFrom (walkAttempt G false inp) cb false inp g e).1
        simp only [okItems] at this i1
        rw [this, i1]
        have h0 := okItems_unitErrs e0 (e - e0)
        simp only [okItems] at h0
        rw [h0]; rfl
      · simp only [errBytes]
        rw [errBytes_append, errBytes_unitErrs, i2, ← List.append_assoc]
        congr 1
        have : s + (e0 - s) = e0 := by omega
        have h := @List.range'_append_1 s (e0 - s) (e - e0)
        rw [this] at h
        rw [h]
        congr 1
        omega

/-- **C12.** One well-formed graph, a valid UTF-8 input, no pattern starting with a continuation byte,
and matches ending on char boundaries (C04): lexing the input as `str` and as `[u8]` yields the same
`Ok` items with the same spans and the same set of bytes covered by errors (byte mode reports a
rounded-up error as several one-byte errors). -/
theorem modes_agree {G : Graph} (hwf : WF G) (cb : Callbacks) (hcb : NoBump cb) (inp : List Nat)
    (hb : ∀ b ∈ inp, b < 256) (hvalid : validUtf8 inp = true)
    (hroot : ∀ b, isCont b = true → (G.get G.root).next b = none)
    (hends : ∀ start l e, isBoundary inp start = true →
      walkAttempt G false inp start = .matched l e → isBoundary inp e = true) :
    okItems (graphLex G false cb true inp).1 = okItems (graphLex G false cb false inp).1 ∧
    errBytes (graphLex G false cb true inp).1 = errBytes (graphLex G false cb false inp).1 := by
  have _ := hvalid
  unfold graphLex lexAll
  exact lexFrom_modes hwf cb hcb inp hb hroot hends inp.length 0 _ _ (by omega) (Nat.zero_le _)
    (by simp [isBoundary]) (by omega) (by omega)

end Logos
