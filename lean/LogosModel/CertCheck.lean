import LogosModel.Cert
/-!
# Executable validators for the certificate, with soundness proofs

`validB G prios D C = true → Valid G prios D C.mem`.  The set `C` (an array, indexed by graph state,
of lists of derivative vectors) is produced by an untrusted search; only these checkers are trusted,
and they are proved here.
-/
namespace Logos

abbrev CSet := Array (List Vec)

def CSet.mem (C : CSet) (s : Nat) (Δ : Vec) : Prop := Δ ∈ C.getD s []
def CSet.has (C : CSet) (s : Nat) (Δ : Vec) : Bool := (C.getD s []).contains Δ

theorem CSet.has_iff {C : CSet} {s : Nat} {Δ : Vec} : C.has s Δ = true ↔ C.mem s Δ := by
  simp [CSet.has, CSet.mem]

def allBytes : List Nat := List.range 256

theorem mem_allBytes {b : Nat} : b ∈ allBytes ↔ b < 256 := by simp [allBytes]

def okAcc (G : Graph) (t : Nat) (w : Option Nat) : Bool :=
  match (G.get t).accept with
  | some l => w == some l
  | none => true

def localB (G : Graph) (prios : List Nat) (C : CSet) (s : Nat) (Δ : Vec) : Bool :=
  let sd := G.get s
  let w := win prios Δ
  (match sd.early with | some l => w == some l | none => true) &&
  (match w with
   | some l =>
     if sd.early = some l then true else
       allBytes.all (fun b => match sd.next b with
         | some t => (G.get t).accept == some l
         | none => false) &&
       (match sd.eoi with | some t => (G.get t).accept == some l | none => false)
   | none => true) &&
  allBytes.all (fun b =>
    match sd.next b with
    | some t => okAcc G t w && (viableV (derivV b Δ) || (G.get t).accept.isSome) && C.has t (derivV b Δ)
    | none => !viableV (derivV b Δ)) &&
  (match sd.eoi with | some t => okAcc G t w | none => true)

theorem okAcc_iff {G : Graph} {t : Nat} {w : Option Nat} :
    okAcc G t w = true ↔ ∀ l, (G.get t).accept = some l → w = some l := by
  unfold okAcc
  cases h : (G.get t).accept with
  | none => simp
  | some l => simp

theorem localB_sound {G : Graph} {prios : List Nat} {C : CSet} {s : Nat} {Δ : Vec}
    (h : localB G prios C s Δ = true) : Local G prios C.mem s Δ := by
  unfold localB at h
  simp only [Bool.and_eq_true] at h
  obtain ⟨⟨⟨h1, h2⟩, h3⟩, h4⟩ := h
  rw [List.all_eq_true] at h3
  refine ⟨?_, ?_, ?_, ?_, ?_, ?_⟩
  · intro l hl
    rw [hl] at h1
    simpa using h1
  · intro l hw hne b hb
    rw [hw] at h2
    simp only [hne, if_false, Bool.and_eq_true] at h2
    have := (List.all_eq_true.1 h2.1) b (mem_allBytes.2 hb)
    cases hn : (G.get s).next b with
    | none => rw [hn] at this; cases this
    | some t => rw [hn] at this; exact ⟨t, rfl, by simpa using this⟩
  · intro l hw hne
    rw [hw] at h2
    simp only [hne, if_false, Bool.and_eq_true] at h2
    cases he : (G.get s).eoi with
    | none => rw [he] at h2; cases h2.2
    | some t => rw [he] at h2; exact ⟨t, rfl, by simpa using h2.2⟩
  · intro b hb t ht
    have := h3 b (mem_allBytes.2 hb)
    rw [ht] at this
    simp only [Bool.and_eq_true, Bool.or_eq_true] at this
    obtain ⟨⟨ha, hv⟩, hc⟩ := this
    exact ⟨okAcc_iff.1 ha, hv, CSet.has_iff.1 hc⟩
  · intro b hb hn
    have := h3 b (mem_allBytes.2 hb)
    rw [hn] at this
    simpa using this
  · intro t ht
    rw [ht] at h4
    exact okAcc_iff.1 h4

def wfB (G : Graph) : Bool :=
  decide (0 < G.states.size) &&
  (G.get G.root).early.isNone && (G.get G.root).accept.isNone &&
  allBytes.all (fun b => match (G.get G.root).next b with
    | some t => (G.get t).accept.isNone
    | none => true) &&
  (List.range G.states.size).all (fun s => match (G.get s).eoi with
    | some t =>
      (G.get t).eoi.isNone && (G.get t).early.isNone && (G.get t).accept.isSome &&
        (G.get t).normal.isEmpty
    | none => true)

theorem Graph.get_of_ge {G : Graph} {s : Nat} (h : G.states.size ≤ s) : G.get s = {} := by
  simp [Graph.get, Array.getD]
  omega

theorem wfB_sound {G : Graph} (h : wfB G = true) : WF G := by
  unfold wfB at h
  simp only [Bool.and_eq_true, decide_eq_true_eq] at h
  obtain ⟨⟨⟨⟨h0, h1⟩, h2⟩, h3⟩, h4⟩ := h
  rw [List.all_eq_true] at h3 h4
  refine ⟨h0, ⟨by simpa using h1, by simpa using h2⟩, ?_, ?_⟩
  · intro b hb t ht
    have := h3 b (mem_allBytes.2 hb)
    rw [ht] at this
    simpa using this
  · intro s t hst
    by_cases hs : s < G.states.size
    · have := h4 s (List.mem_range.2 hs)
      rw [hst] at this
      simp only [Bool.and_eq_true] at this
      obtain ⟨⟨⟨a, b⟩, c⟩, d⟩ := this
      exact ⟨by simpa using a, by simpa using b, c, by simpa using d⟩
    · rw [Graph.get_of_ge (by omega)] at hst
      cases hst

def validB (G : Graph) (prios : List Nat) (D : Vec) (C : CSet) : Bool :=
  wfB G && C.has G.root D && (win prios D).isNone &&
  (List.range C.size).all (fun s => (C.getD s []).all (fun Δ => localB G prios C s Δ))

theorem validB_sound {G : Graph} {prios : List Nat} {D : Vec} {C : CSet}
    (h : validB G prios D C = true) : Valid G prios D C.mem := by
  unfold validB at h
  simp only [Bool.and_eq_true] at h
  obtain ⟨⟨⟨h1, h2⟩, h3⟩, h4⟩ := h
  rw [List.all_eq_true] at h4
  refine ⟨wfB_sound h1, CSet.has_iff.1 h2, by simpa using h3, ?_⟩
  intro s Δ hm
  by_cases hs : s < C.size
  · have := h4 s (List.mem_range.2 hs)
    rw [List.all_eq_true] at this
    exact localB_sound (this Δ hm)
  · have : C.getD s [] = [] := by
      simp [Array.getD]; omega
    simp [CSet.mem, this] at hm

end Logos
