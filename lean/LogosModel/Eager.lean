import LogosModel.SpecProof
import LogosModel.Lex
/-!
# C07: the reference partial lexer waits exactly when it has to

`partial_eq_spec` / `partial_eq_specC` say that the generated partial lexer *is* the reference partial lexer `specLexP`
(under the waiting-condition certificate).  This file says what the reference's waiting rule means, in terms of the
one-shot scan `scan` whose meaning is `scan_some` / `scan_none` (longest match, top priority, stop offset):

* **`scanP_some_stable` (safe)**: what `scanP` answers over a buffer is what the one-shot scan answers over *every*
  extension of the buffer by bytes - record and stop offset.
* **`scanP_none_extends` (eager)**: when `scanP` answers "need more" there *is* a continuation on which the one-shot
  scan reports a match that ends at the very end of the longer input - an item no lexer that had only seen the buffer
  could have produced (`scan_end_le`: over the buffer alone every record ends inside the buffer).  So the reference
  never waits without a reason: it "yields an item as soon as that item is determined by the prefix".
* `C07_commit_is_final`, `C07_wait_is_necessary`: the same for one attempt of the lexers (`scanAttemptP` / `scanAttempt`).
-/
namespace Logos

theorem extendable_false_deriv {Δ : Vec} (h : extendable Δ = false) (b : Nat) (hb : b < 256) :
    viableV (derivV b Δ) = false := by
  unfold extendable at h
  rw [List.any_eq_false] at h
  have := h b (List.mem_range.2 hb)
  simpa using this

theorem extendable_true {Δ : Vec} (h : extendable Δ = true) : ∃ b, b < 256 ∧ viableV (derivV b Δ) = true := by
  unfold extendable at h
  rw [List.any_eq_true] at h
  obtain ⟨b, hb, hv⟩ := h
  exact ⟨b, List.mem_range.1 hb, hv⟩

/-- **safe**: an answer of the reference partial scan is the answer of the one-shot scan on every extension -/
theorem scanP_some_stable (prios : List Nat) :
    ∀ (w : List Nat) (Δ : Vec) (k : Nat) (best : Rec) (r : Rec × Nat), scanP prios Δ w k best = some r →
      ∀ ext, (∀ b ∈ ext, b < 256) → scan prios Δ (w ++ ext) k best = r := by
  intro w
  induction w with
  | nil =>
    intro Δ k best r h ext hext
    simp only [scanP] at h
    split at h
    · cases h
    · next hx =>
      injection h with h
      subst h
      cases ext with
      | nil => rfl
      | cons b e =>
        have hb := hext b (List.mem_cons_self)
        have hnv := extendable_false_deriv (by simpa using hx) b hb
        simp [scan, hnv]
  | cons b w ih =>
    intro Δ k best r h ext hext
    simp only [scanP] at h
    simp only [List.cons_append, scan]
    split at h
    · next hv =>
      simp only [hv, if_true]
      exact ih _ _ _ _ h ext hext
    · next hv =>
      injection h with h
      subst h
      simp [hv]

theorem anyMatch_deriv {Δ : Vec} {b : Nat} {u : List Nat} (h : AnyMatch Δ (b :: u)) : AnyMatch (derivV b Δ) u := by
  have := (anyMatch_derivsV Δ [b] u).2 (by simpa using h)
  simpa [derivsV] using this

theorem anyMatch_of_deriv {Δ : Vec} {b : Nat} {u : List Nat} (h : AnyMatch (derivV b Δ) u) : AnyMatch Δ (b :: u) := by
  have := (anyMatch_derivsV Δ [b] u).1 (by simpa [derivsV] using h)
  simpa using this

theorem derivV_length (b : Nat) (Δ : Vec) : (derivV b Δ).length = Δ.length := by
  simp [derivV]

/-- the one-shot scan over a string that some pattern fully matches reports a record ending at its very end -/
theorem scan_full_match (prios : List Nat) :
    ∀ (u : List Nat) (Δ : Vec) (k : Nat) (best : Rec), prios.length = Δ.length → AnyMatch Δ u → u ≠ [] →
      ∃ l, scan prios Δ u k best = (some (k + u.length, l), k + u.length) := by
  intro u
  induction u with
  | nil => intro Δ k best _ _ h; exact absurd rfl h
  | cons b u ih =>
    intro Δ k best hlen hm _
    have hm' := anyMatch_deriv hm
    have hv : viableV (derivV b Δ) = true := (viableV_iff _).2 ⟨u, hm'⟩
    have hlen' : prios.length = (derivV b Δ).length := by rw [derivV_length]; exact hlen
    simp only [scan, hv, if_true]
    cases u with
    | nil =>
      have hw : win prios (derivV b Δ) ≠ none := fun hn => (win_none hlen').1 hn hm'
      cases hwl : win prios (derivV b Δ) with
      | none => exact absurd hwl hw
      | some l => exact ⟨l, by simp [scan, upd, hwl]⟩
    | cons c u' =>
      obtain ⟨l, hl⟩ := ih (derivV b Δ) (k + 1) (upd prios (derivV b Δ) (k + 1) best) hlen' hm' (by simp)
      refine ⟨l, ?_⟩
      rw [hl]
      have : k + 1 + (c :: u').length = k + (b :: c :: u').length := by simp only [List.length_cons]; omega
      rw [this]

/-- **eager**: when the reference partial scan waits, some continuation turns the buffer into the beginning of a match
that ends at the end of the longer input -/
theorem scanP_none_extends (prios : List Nat) :
    ∀ (w : List Nat) (Δ : Vec) (k : Nat) (best : Rec), prios.length = Δ.length → scanP prios Δ w k best = none →
      ∃ ext l, ext ≠ [] ∧
        scan prios Δ (w ++ ext) k best = (some (k + (w ++ ext).length, l), k + (w ++ ext).length) := by
  intro w
  induction w with
  | nil =>
    intro Δ k best hlen h
    simp only [scanP] at h
    split at h
    · next hx =>
      obtain ⟨b, _, hv⟩ := extendable_true hx
      obtain ⟨u, hu⟩ := (viableV_iff _).1 hv
      obtain ⟨l, hl⟩ := scan_full_match prios (b :: u) Δ k best hlen (anyMatch_of_deriv hu) (by simp)
      exact ⟨b :: u, l, by simp, by simpa using hl⟩
    · cases h
  | cons b w ih =>
    intro Δ k best hlen h
    simp only [scanP] at h
    split at h
    · next hv =>
      have hlen' : prios.length = (derivV b Δ).length := by rw [derivV_length]; exact hlen
      obtain ⟨ext, l, hne, hl⟩ := ih _ _ _ hlen' h
      refine ⟨ext, l, hne, ?_⟩
      simp only [List.cons_append, scan, hv, if_true]
      rw [hl]
      have : k + 1 + (w ++ ext).length = k + (b :: (w ++ ext)).length := by simp only [List.length_cons]; omega
      rw [this]
    · cases h

/-- over the buffer alone every record the scan can report ends inside the buffer -/
theorem scan_end_le (prios : List Nat) :
    ∀ (w : List Nat) (Δ : Vec) (k : Nat) (best : Rec) (e l off : Nat),
      (∀ e' l', best = some (e', l') → e' ≤ k) → scan prios Δ w k best = (some (e, l), off) → e ≤ k + w.length := by
  intro w
  induction w with
  | nil =>
    intro Δ k best e l off hb h
    simp only [scan] at h
    injection h with h1 _
    have := hb e l h1
    simpa using this
  | cons b w ih =>
    intro Δ k best e l off hb h
    simp only [scan] at h
    split at h
    · have := ih _ (k + 1) _ e l off (by
        intro e' l' hu
        unfold upd at hu
        split at hu
        · injection hu with hu; injection hu with h1 _; omega
        · have := hb e' l' hu; omega) h
      simp only [List.length_cons]
      omega
    · injection h with h1 _
      have := hb e l h1
      simp only [List.length_cons]
      omega

/-! ## one attempt of the lexers -/

theorem scanAttempt_of_ne_nil (prios : List Nat) (D : Vec) (inp rest : List Nat) (start : Nat)
    (h : inp.drop start = rest) (hne : rest ≠ []) :
    scanAttempt prios D inp start =
      match scan prios D rest start none with
      | (some (e, l), _) => .matched l e
      | (none, off) => .nomatch off := by
  unfold scanAttempt
  rw [h]
  cases rest with
  | nil => exact absurd rfl hne
  | cons c r => rfl

/-- **C07 (a commit is final).**  When the reference partial lexer decides an attempt inside the buffer (a match or an
error, not "need more"), the one-shot reference lexer over every extension of the buffer by bytes decides the same. -/
theorem C07_commit_is_final (prios : List Nat) (D : Vec) (pre ext : List Nat) (start : Nat) (hs : start < pre.length)
    (hext : ∀ b ∈ ext, b < 256) (hw : scanAttemptP prios D pre start ≠ .needMore) :
    scanAttempt prios D (pre ++ ext) start = scanAttemptP prios D pre start := by
  have hdrop : (pre ++ ext).drop start = pre.drop start ++ ext := List.drop_append_of_le_length (by omega)
  have hne : pre.drop start ++ ext ≠ [] := by
    intro h
    have := congrArg List.length h
    simp at this
    omega
  rw [scanAttempt_of_ne_nil prios D _ _ start hdrop hne]
  unfold scanAttemptP at hw ⊢
  cases hp : scanP prios D (pre.drop start) start none with
  | none => rw [hp] at hw; exact absurd rfl hw
  | some r =>
    rw [scanP_some_stable prios _ D start none r hp ext hext]
    obtain ⟨rec, off⟩ := r
    cases rec with
    | none =>
      have : ¬ pre.length ≤ start := by omega
      simp [this]
    | some el => rfl

/-- **C07 (waiting is necessary).**  When the reference partial lexer answers "need more", some continuation makes the
one-shot reference lexer report a match that ends at the end of the longer input - beyond anything a lexer that saw only
the buffer could report. -/
theorem C07_wait_is_necessary (prios : List Nat) (D : Vec) (hlen : prios.length = D.length) (pre : List Nat) (start : Nat)
    (hs : start ≤ pre.length) (hw : scanAttemptP prios D pre start = .needMore) :
    ∃ ext l, ext ≠ [] ∧ scanAttempt prios D (pre ++ ext) start = .matched l (pre ++ ext).length := by
  unfold scanAttemptP at hw
  cases hp : scanP prios D (pre.drop start) start none with
  | some r =>
    rw [hp] at hw
    obtain ⟨rec, off⟩ := r
    cases rec with
    | none => simp only at hw; split at hw <;> cases hw
    | some el => cases hw
  | none =>
    obtain ⟨ext, l, hne, hl⟩ := scanP_none_extends prios _ D start none hlen hp
    refine ⟨ext, l, hne, ?_⟩
    have hdrop : (pre ++ ext).drop start = pre.drop start ++ ext := List.drop_append_of_le_length hs
    have hne' : pre.drop start ++ ext ≠ [] := by
      intro h
      exact hne (List.append_eq_nil_iff.1 h).2
    rw [scanAttempt_of_ne_nil prios D _ _ start hdrop hne', hl]
    simp only [List.length_append, List.length_drop]
    congr 1
    omega

end Logos
