import LogosModel.InterpProof
import LogosModel.BumpTiles
/-!
# The faithful interpreter and the walk-based lexer agree with bumping callbacks and for partial lexers

`interpLex_eq_graphLex` (InterpProof) was proved for ordinary lexers and callbacks that do not bump.  Here: the lexer
may be partial (`isPrefix`) and a callback may bump by any amount inside the remainder it is handed (`BumpOK`, what
`Lexer::bump` accepts as far as the range goes) - C13 "bytes bumped inside a callback extend the current item and are
excluded from the next", C06 / C07 for the interpreter that is tied to the compiled lexers.
-/
namespace Logos

theorem matched_bounds_any {g : Graph} (hwf : WF g) (src : List Nat) (hb : ∀ b ∈ src, b < 256) (isPrefix : Bool)
    (start l e : Nat) (hs : start ≤ src.length) (h : walkAttempt g isPrefix src start = .matched l e) :
    start < e ∧ e ≤ src.length := by
  cases isPrefix with
  | false => exact walkAttempt_matched_bounds hwf src hb start l e h
  | true => exact ps_matched_bounds hwf src hb start l e hs h

theorem nextLoopI_eq_bump {g : Graph} (hwf : WF g) (hf : ForkOK g) (cb : Callbacks) (hcb : BumpOK cb)
    (utf8 : Bool) (isPrefix : Bool) (src : List Nat) (hb : ∀ b ∈ src, b < 256) (hlen : src.length + 8 ≤ usizeMax) :
    ∀ (fuel start : Nat), start ≤ src.length →
      (nextLoopI g isPrefix cb utf8 src fuel start).1
        = nextLoop (walkAttempt g isPrefix src) cb utf8 src fuel start := by
  intro fuel
  induction fuel with
  | zero => intro start _; rfl
  | succ n ih =>
    intro start hs
    have ha : attemptOfStop (attemptI g src isPrefix start (attemptFuel g src) g.root start none start).1
        = walkAttempt g isPrefix src start := by
      rw [attemptI_eq_walk hwf hf src hb hlen isPrefix start hs]; rfl
    unfold nextLoopI nextLoop
    simp only [ha]
    cases hatt : walkAttempt g isPrefix src start with
    | eoi => rfl
    | needMore => rfl
    | diverge => rfl
    | «nomatch» off =>
      simp only
      cases utf8 with
      | false => rfl
      | true =>
        simp only [if_true]
        cases findBoundary src (max off (start + 1)) <;> rfl
    | matched l te =>
      obtain ⟨_, h2⟩ := matched_bounds_any hwf src hb isPrefix start l te hs hatt
      have hbump : (cb l (slice src start te) (List.drop te src)).bump ≤ src.length - te := by
        have := hcb l (slice src start te) (List.drop te src)
        simpa using this
      simp only
      cases hact : (cb l (slice src start te) (List.drop te src)).act with
      | emit => rfl
      | skip => simp only; exact ih _ (by omega)
      | errDefault => rfl
      | errCustom t => rfl

theorem lexFromI_eq_bump {g : Graph} (hwf : WF g) (hf : ForkOK g) (cb : Callbacks) (hcb : BumpOK cb)
    (utf8 : Bool) (isPrefix : Bool) (src : List Nat) (hb : ∀ b ∈ src, b < 256) (hlen : src.length + 8 ≤ usizeMax) :
    ∀ (fuel pos : Nat), pos ≤ src.length →
      (lexFromI g isPrefix cb utf8 src fuel pos).1
        = lexFrom (walkAttempt g isPrefix src) cb utf8 src fuel pos := by
  intro fuel
  induction fuel with
  | zero => intro pos _; rfl
  | succ n ih =>
    intro pos hp
    have hn := nextLoopI_eq_bump hwf hf cb hcb utf8 isPrefix src hb hlen (src.length + 2) pos hp
    unfold lexFromI lexFrom
    rw [← hn]
    rcases hr : nextLoopI g isPrefix cb utf8 src (src.length + 2) pos with ⟨r, tr⟩
    cases r with
    | none s e => rfl
    | diverge => rfl
    | item it =>
      simp only
      have hstop : it.stop ≤ src.length := by
        rcases nextLoop_ok_any hwf cb hcb utf8 isPrefix src hb (src.length + 2) pos hp (by omega) with
          ⟨q, h, _, _⟩ | ⟨it', h, _, _, h3⟩
        · rw [← hn, hr] at h; cases h
        · rw [← hn, hr] at h; cases h; exact h3
      rw [ih it.stop hstop]

/-- **The whole lexer, bumping callbacks, ordinary or partial**: items and final state of the faithful interpreter
equal those of the walk-based lexer (to which `graphLex_tiles_bump`, `partial_tiles_bump`, `C07_partial_safe` apply). -/
theorem interpLex_eq_graphLex_bump {g : Graph} (hwf : WF g) (hf : ForkOK g) (cb : Callbacks) (hcb : BumpOK cb)
    (utf8 : Bool) (isPrefix : Bool) (src : List Nat) (hb : ∀ b ∈ src, b < 256) (hlen : src.length + 8 ≤ usizeMax) :
    (interpLex g isPrefix cb utf8 src).1 = graphLex g isPrefix cb utf8 src :=
  lexFromI_eq_bump hwf hf cb hcb utf8 isPrefix src hb hlen _ 0 (Nat.zero_le _)

end Logos
