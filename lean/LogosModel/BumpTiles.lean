import LogosModel.ApiProof
import LogosModel.PartialSafe
/-!
# C03 / C14 with bumping callbacks and partial lexers

`graphLex_tiles` and `api_in_range` were proved for callbacks that do not bump (`NoBump`) and, for the
API, for ordinary lexers only.  Here: callbacks may bump by any amount that stays inside the remainder
they are handed (`BumpOK`: what `Lexer::bump` accepts without panicking, as far as the range goes), and
the lexer may be partial.
-/
namespace Logos

/-- a callback never bumps past the end of the remainder it sees (a larger bump panics in `Lexer::bump`) -/
def BumpOK (cb : Callbacks) : Prop := ∀ l s r, (cb l s r).bump ≤ r.length

theorem NoBump.bumpOK {cb : Callbacks} (h : NoBump cb) : BumpOK cb := by
  intro l s r
  rw [h l s r]
  exact Nat.zero_le _

/-- the `next` loop around an abstract attempt function that never diverges and whose matches and
errors stay inside the input; `P` is whatever is known about the positions where it answers `None` -/
theorem nextLoop_ok_gen (att : Nat → Attempt) (cb : Callbacks) (hcb : BumpOK cb) (utf8 : Bool)
    (inp : List Nat) (P : Nat → Prop)
    (hnone : ∀ start, start ≤ inp.length → (att start = .eoi ∨ att start = .needMore) → P start)
    (hdiv : ∀ start, att start ≠ .diverge)
    (hno : ∀ start off, start ≤ inp.length → att start = .nomatch off →
      start ≤ off ∧ off ≤ inp.length ∧ start < inp.length)
    (hm : ∀ start l e, start ≤ inp.length → att start = .matched l e → start < e ∧ e ≤ inp.length) :
    ∀ (fuel start : Nat), start ≤ inp.length → inp.length - start + 1 ≤ fuel →
      (∃ q, nextLoop att cb utf8 inp fuel start = .none q q ∧ start ≤ q ∧ q ≤ inp.length ∧ P q) ∨
      ∃ it, nextLoop att cb utf8 inp fuel start = .item it ∧
        start ≤ it.start ∧ it.start < it.stop ∧ it.stop ≤ inp.length := by
  intro fuel
  induction fuel with
  | zero => intro start _ h; omega
  | succ n ih =>
    intro start hs hf
    unfold nextLoop
    cases hatt : att start with
    | eoi => left; exact ⟨start, rfl, Nat.le_refl _, hs, hnone start hs (Or.inl hatt)⟩
    | needMore => left; exact ⟨start, rfl, Nat.le_refl _, hs, hnone start hs (Or.inr hatt)⟩
    | diverge => exact absurd hatt (hdiv start)
    | «nomatch» off =>
      obtain ⟨h1, h2, h3⟩ := hno start off hs hatt
      have he0 : max off (start + 1) ≤ inp.length := by omega
      right
      cases utf8 with
      | false =>
        refine ⟨.err none start (max off (start + 1)), by simp, ?_⟩
        simp only [Item.start, Item.stop]; omega
      | true =>
        obtain ⟨j, hj1, hj2, hj3, _⟩ := findBoundary_spec inp _ he0
        refine ⟨.err none start j, by simp [hj1], ?_⟩
        simp only [Item.start, Item.stop]; omega
    | matched l te =>
      obtain ⟨h1, h2⟩ := hm start l te hs hatt
      have hbump : (cb l (slice inp start te) (List.drop te inp)).bump ≤ inp.length - te := by
        have := hcb l (slice inp start te) (List.drop te inp)
        rwa [List.length_drop] at this
      simp only
      generalize (cb l (slice inp start te) (List.drop te inp)).bump = k at hbump
      cases hact : (cb l (slice inp start te) (List.drop te inp)).act with
      | emit =>
        right
        exact ⟨.ok l start (te + k), rfl, by simp only [Item.start, Item.stop]; omega⟩
      | skip =>
        simp only
        rcases ih (te + k) (by omega) (by omega) with ⟨q, h, h3, h4, h5⟩ | ⟨it, h, h3, h4, h5⟩
        · left; exact ⟨q, h, by omega, h4, h5⟩
        · right; exact ⟨it, h, by omega, h4, h5⟩
      | errDefault =>
        right
        exact ⟨.err none start (te + k), rfl, by simp only [Item.start, Item.stop]; omega⟩
      | errCustom t =>
        right
        exact ⟨.err (some t) start (te + k), rfl, by simp only [Item.start, Item.stop]; omega⟩

/-- ordinary lexer: `None` only at the end of the input -/
theorem nextLoop_ok_false_bump {G : Graph} (hwf : WF G) (cb : Callbacks) (hcb : BumpOK cb) (utf8 : Bool)
    (inp : List Nat) (hb : ∀ b ∈ inp, b < 256) :
    ∀ (fuel start : Nat), start ≤ inp.length → inp.length - start + 1 ≤ fuel →
      (∃ q, nextLoop (walkAttempt G false inp) cb utf8 inp fuel start = .none q q ∧ start ≤ q ∧
        q ≤ inp.length ∧ q = inp.length) ∨
      ∃ it, nextLoop (walkAttempt G false inp) cb utf8 inp fuel start = .item it ∧
        start ≤ it.start ∧ it.start < it.stop ∧ it.stop ≤ inp.length := by
  apply nextLoop_ok_gen (walkAttempt G false inp) cb hcb utf8 inp (fun q => q = inp.length)
  · intro start hs h
    rcases h with h | h
    · have := (walkAttempt_eoi_iff hwf inp start).mp h
      omega
    · exact absurd h (walkAttempt_not_needMore G inp start)
  · exact fun start => walkAttempt_not_diverge hwf inp start
  · exact fun start off _ h => walkAttempt_nomatch_bounds hwf inp hb start off h
  · exact fun start l e _ h => walkAttempt_matched_bounds hwf inp hb start l e h

/-- partial lexer -/
theorem nextLoop_ok_true_bump {G : Graph} (hwf : WF G) (cb : Callbacks) (hcb : BumpOK cb) (utf8 : Bool)
    (inp : List Nat) (hb : ∀ b ∈ inp, b < 256) :
    ∀ (fuel start : Nat), start ≤ inp.length → inp.length - start + 1 ≤ fuel →
      (∃ q, nextLoop (walkAttempt G true inp) cb utf8 inp fuel start = .none q q ∧ start ≤ q ∧
        q ≤ inp.length ∧ True) ∨
      ∃ it, nextLoop (walkAttempt G true inp) cb utf8 inp fuel start = .item it ∧
        start ≤ it.start ∧ it.start < it.stop ∧ it.stop ≤ inp.length := by
  apply nextLoop_ok_gen (walkAttempt G true inp) cb hcb utf8 inp (fun _ => True)
  · intros; trivial
  · exact fun start => ps_attempt_true_not_diverge G inp start
  · exact fun start off hs h => ps_nomatch_bounds hwf inp hb start off hs h
  · exact fun start l e hs h => ps_matched_bounds hwf inp hb start l e hs h

/-- one call of `next` (ordinary or partial lexer, bumping callbacks): `None` with an empty span inside
the source, or a non-empty item inside the source that starts at or after the old end -/
theorem nextLoop_ok_any {G : Graph} (hwf : WF G) (cb : Callbacks) (hcb : BumpOK cb) (utf8 : Bool) (isPrefix : Bool)
    (inp : List Nat) (hb : ∀ b ∈ inp, b < 256) :
    ∀ (fuel start : Nat), start ≤ inp.length → inp.length - start + 1 ≤ fuel →
      (∃ q, nextLoop (walkAttempt G isPrefix inp) cb utf8 inp fuel start = .none q q ∧ start ≤ q ∧ q ≤ inp.length) ∨
      ∃ it, nextLoop (walkAttempt G isPrefix inp) cb utf8 inp fuel start = .item it ∧
        start ≤ it.start ∧ it.start < it.stop ∧ it.stop ≤ inp.length := by
  intro fuel start hs hf
  cases isPrefix with
  | false =>
    rcases nextLoop_ok_false_bump hwf cb hcb utf8 inp hb fuel start hs hf with
      ⟨q, h, h1, h2, _⟩ | h
    · left; exact ⟨q, h, h1, h2⟩
    · right; exact h
  | true =>
    rcases nextLoop_ok_true_bump hwf cb hcb utf8 inp hb fuel start hs hf with
      ⟨q, h, h1, h2, _⟩ | h
    · left; exact ⟨q, h, h1, h2⟩
    · right; exact h

/-- iterating a `next` that behaves as in `nextLoop_ok_gen` -/
theorem lexFrom_ok_gen (att : Nat → Attempt) (cb : Callbacks) (utf8 : Bool) (inp : List Nat) (P : Nat → Prop)
    (hnext : ∀ (start : Nat), start ≤ inp.length →
      (∃ q, nextLoop att cb utf8 inp (inp.length + 2) start = .none q q ∧ start ≤ q ∧ q ≤ inp.length ∧ P q) ∨
      ∃ it, nextLoop att cb utf8 inp (inp.length + 2) start = .item it ∧
        start ≤ it.start ∧ it.start < it.stop ∧ it.stop ≤ inp.length) :
    ∀ (fuel pos : Nat), pos ≤ inp.length → inp.length - pos + 1 ≤ fuel →
      ∃ items q, lexFrom att cb utf8 inp fuel pos = (items, .done q q) ∧ pos ≤ q ∧ q ≤ inp.length ∧ P q ∧
        Tiles pos items ∧ ∀ it ∈ items, it.stop ≤ q := by
  intro fuel
  induction fuel with
  | zero => intro pos _ h; omega
  | succ n ih =>
    intro pos hp hf
    unfold lexFrom
    rcases hnext pos hp with ⟨q, h, h1, h2, h3⟩ | ⟨it, h, h1, h2, h3⟩
    · rw [h]
      exact ⟨[], q, rfl, h1, h2, h3, trivial, by simp⟩
    · rw [h]
      obtain ⟨items, q, e, hq1, hq2, hq3, ht, hall⟩ := ih it.stop h3 (by omega)
      refine ⟨it :: items, q, by simp [e], by omega, hq2, hq3, ⟨h1, h2, ht⟩, ?_⟩
      intro x hx
      rcases List.mem_cons.mp hx with rfl | hx
      · exact hq1
      · exact hall x hx

/-- **C03 with bumping callbacks.** For a well-formed graph and callbacks that bump within the remainder,
an ordinary lexer terminates, its items are non-empty, in order, inside the input, and lexing ends at the
input length. -/
theorem graphLex_tiles_bump {G : Graph} (hwf : WF G) (cb : Callbacks) (hcb : BumpOK cb) (utf8 : Bool)
    (inp : List Nat) (hb : ∀ b ∈ inp, b < 256) :
    ∃ items, graphLex G false cb utf8 inp = (items, .done inp.length inp.length) ∧
      Tiles 0 items ∧ ∀ it ∈ items, it.stop ≤ inp.length := by
  unfold graphLex lexAll
  obtain ⟨items, q, e, _, _, hq, ht, hall⟩ :=
    lexFrom_ok_gen (walkAttempt G false inp) cb utf8 inp (fun q => q = inp.length)
      (fun start hs => nextLoop_ok_false_bump hwf cb hcb utf8 inp hb (inp.length + 2) start hs (by omega))
      (inp.length + 2) 0 (Nat.zero_le _) (by omega)
  subst hq
  exact ⟨items, e, ht, hall⟩

/-- the partial lexer with bumping callbacks terminates with `None` and an empty span inside the buffer;
its items are non-empty, in order and inside the buffer -/
theorem partial_tiles_bump {G : Graph} (hwf : WF G) (cb : Callbacks) (hcb : BumpOK cb) (utf8 : Bool)
    (pre : List Nat) (hb : ∀ b ∈ pre, b < 256) :
    ∃ items q, graphLex G true cb utf8 pre = (items, .done q q) ∧ q ≤ pre.length ∧
      Tiles 0 items ∧ ∀ it ∈ items, it.stop ≤ q := by
  unfold graphLex lexAll
  obtain ⟨items, q, e, _, hq, _, ht, hall⟩ :=
    lexFrom_ok_gen (walkAttempt G true pre) cb utf8 pre (fun _ => True)
      (fun start hs => nextLoop_ok_true_bump hwf cb hcb utf8 pre hb (pre.length + 2) start hs (by omega))
      (pre.length + 2) 0 (Nat.zero_le _) (by omega)
  exact ⟨items, q, e, hq, ht, hall⟩

theorem lexerNext_inRange_any (env : ApiEnv) (hA : WF env.gA) (hB : WF env.gB)
    (hcbA : BumpOK env.cbA) (hcbB : BumpOK env.cbB) (hb : env.bytesOK)
    (st : LexSt) (h : st.ok env) :
    (lexerNext env st).1.ok env := by
  have hG : WF (env.graph st.ty) := by unfold ApiEnv.graph; split <;> assumption
  have hC : BumpOK (env.cb st.ty) := by unfold ApiEnv.cb; split <;> assumption
  have := nextLoop_ok_any hG (env.cb st.ty) hC env.utf8 st.pfx (env.srcOf st) (env.srcOf_bytes hb st) ((env.srcOf st).length + 2)
    st.stop h.2 (by omega)
  unfold LexSt.ok
  rw [srcOf_congr env (lexerNext_srcId env st)]
  unfold lexerNext
  rcases this with ⟨q, h1, h2, h3⟩ | ⟨it, h1, h2, h3, h4⟩
  · rw [h1]; simp only [LexSt.inRange]; omega
  · rw [h1]; simp only [LexSt.inRange]; omega

theorem apiStep_inRange_any (env : ApiEnv) (hA : WF env.gA) (hB : WF env.gB)
    (hcbA : BumpOK env.cbA) (hcbB : BumpOK env.cbB) (hb : env.bytesOK)
    (op : ApiOp) (pool : List LexSt) (h : ∀ st ∈ pool, st.ok env) :
    ∀ st ∈ (apiStep env pool op).1, st.ok env := by
  unfold apiStep
  split
  · exact h
  · rename_i hne
    have hlen : 0 < pool.length := by
      cases pool with
      | nil => simp at hne
      | cons a l => simp
    have hpick : ∀ i, (pool.getD (i % pool.length) ⟨0, 0, 0, 0, false, 0⟩).ok env := by
      intro i
      have hj : i % pool.length < pool.length := Nat.mod_lt _ hlen
      rw [getD_lt _ _ _ hj]
      exact h _ (List.getElem_mem hj)
    have hset : ∀ j x, x.ok env → ∀ st ∈ setAt pool j x, st.ok env := by
      intro j x hx st hst
      rcases List.mem_or_eq_of_mem_set hst with h1 | h1
      · exact h _ h1
      · rw [h1]; exact hx
    cases op with
    | next i => exact hset _ _ (lexerNext_inRange_any env hA hB hcbA hcbB hb _ (hpick i))
    | snext i => exact hset _ _ (lexerNext_inRange_any env hA hB hcbA hcbB hb _ (hpick i))
    | bump i n => exact hset _ _ (lexerBump_inRange env _ n (hpick i))
    | clone i =>
      intro st hst
      simp only [List.mem_append, List.mem_singleton] at hst
      rcases hst with h1 | h1
      · exact h _ h1
      · rw [h1]; exact hpick i
    | morph i => exact hset _ _ (hpick i)
    | fresh p k =>
      intro st hst
      simp only [List.mem_append, List.mem_singleton] at hst
      rcases hst with h1 | h1
      · exact h _ h1
      · rw [h1]; simp [LexSt.ok, LexSt.inRange]
    | cloneFrom i j =>
      simp only
      split
      · exact hset _ _ (hpick j)
      · exact h

/-- **C14 for partial lexers and bumping callbacks.** `api_in_range` without the restriction to ordinary
lexers and to callbacks that do not bump. -/
theorem api_in_range_any (env : ApiEnv) (hA : WF env.gA) (hB : WF env.gB)
    (hcbA : BumpOK env.cbA) (hcbB : BumpOK env.cbB) (hb : env.bytesOK)
    (ops : List ApiOp) (pool : List LexSt) (h : ∀ st ∈ pool, st.ok env) :
    ∀ st ∈ apiRun env pool ops, st.ok env := by
  induction ops generalizing pool with
  | nil => exact h
  | cons op ops ih =>
    unfold apiRun
    exact ih _ (apiStep_inRange_any env hA hB hcbA hcbB hb op pool h)

end Logos

namespace Logos

/-- non-vacuity: every callback of the zoo's menu (the callbacks the compiled lexers of the correspondence run
carry, bumping ones included) satisfies `BumpOK`, whatever the leaf and callback kinds -/
theorem zooCallback_bumpOK (leafKind cbKind : Nat → Nat) :
    BumpOK (fun l s r => zooCallback (leafKind l) (cbKind l) s r) := by
  intro l s r
  have hb : bumpAmt r ≤ r.length := by
    unfold bumpAmt
    cases r with
    | nil => simp
    | cons b t => by_cases h : b < 128 <;> simp [h]
  have hc : bumpChar r ≤ r.length := by
    unfold bumpChar
    cases r with
    | nil => simp
    | cons b t => exact Nat.min_le_right _ _
  have hz : ∀ k, (zooRet k s r).2 ≤ r.length := by
    intro k
    unfold zooRet
    split <;> first | exact hb | exact hc | simp
  unfold zooCallback
  by_cases h0 : (cbKind l == 0) = true
  · simp [h0]
  · simp only [h0]
    exact hz _

end Logos
