import LogosModel.LexProof
import LogosModel.Look.SoundC
/-!
# Callback invocations (C13 "a callback runs once for each match that wins selection", C06 "the same callback
invocations")

`nextLoopN` / `lexFromN` are `nextLoop` / `lexFrom` with a counter: one invocation for every matched attempt whose
leaf carries a callback (`hasCb`), whatever the callback returns (emit, skip, error).  The item streams are those of
the uncounted functions (`lexFromN_items`), and for a validated definition the count of the generated lexer is the
count of the reference lexer (`calls_eq_spec`, `calls_eq_specC`).
-/
namespace Logos

def nextLoopN (att : Nat → Attempt) (cb : Callbacks) (hasCb : Nat → Bool) (utf8 : Bool) (inp : List Nat) :
    (fuel : Nat) → (start : Nat) → NextRes × Nat
  | 0, _ => (.diverge, 0)
  | fuel+1, start =>
    match att start with
    | .eoi => (.none start start, 0)
    | .needMore => (.none start start, 0)
    | .diverge => (.diverge, 0)
    | .nomatch off =>
      let e0 := max off (start + 1)
      if utf8 then
        match findBoundary inp e0 with
        | some e => (.item (.err none start e), 0)
        | none => (.diverge, 0)
      else (.item (.err none start e0), 0)
    | .matched l te =>
      let out := cb l (slice inp start te) (inp.drop te)
      let te' := te + out.bump
      let k := if hasCb l then 1 else 0
      match out.act with
      | .emit => (.item (.ok l start te'), k)
      | .skip =>
        let r := nextLoopN att cb hasCb utf8 inp fuel te'
        (r.1, r.2 + k)
      | .errDefault => (.item (.err none start te'), k)
      | .errCustom t => (.item (.err (some t) start te'), k)

def lexFromN (att : Nat → Attempt) (cb : Callbacks) (hasCb : Nat → Bool) (utf8 : Bool) (inp : List Nat) :
    (fuel : Nat) → (pos : Nat) → (List Item × Final) × Nat
  | 0, _ => (([], .diverge), 0)
  | fuel+1, pos =>
    match nextLoopN att cb hasCb utf8 inp (inp.length + 2) pos with
    | (.item it, k) =>
      let r := lexFromN att cb hasCb utf8 inp fuel it.stop
      ((it :: r.1.1, r.1.2), r.2 + k)
    | (.none s e, k) => (([], .done s e), k)
    | (.diverge, k) => (([], .diverge), k)

def lexAllN (att : Nat → Attempt) (cb : Callbacks) (hasCb : Nat → Bool) (utf8 : Bool) (inp : List Nat) :=
  lexFromN att cb hasCb utf8 inp (inp.length + 2) 0

/-- callback invocations of the generated lexer -/
def graphCalls (g : Graph) (isPrefix : Bool) (cb : Callbacks) (hasCb : Nat → Bool) (utf8 : Bool) (inp : List Nat) : Nat :=
  (lexAllN (walkAttempt g isPrefix inp) cb hasCb utf8 inp).2

/-- callback invocations of the reference lexer (look-free) -/
def specCalls (prios : List Nat) (D : Vec) (cb : Callbacks) (hasCb : Nat → Bool) (utf8 : Bool) (inp : List Nat) : Nat :=
  (lexAllN (scanAttempt prios D inp) cb hasCb utf8 inp).2

theorem nextLoopN_fst (att : Nat → Attempt) (cb : Callbacks) (hasCb : Nat → Bool) (utf8 : Bool) (inp : List Nat)
    (fuel start : Nat) : (nextLoopN att cb hasCb utf8 inp fuel start).1 = nextLoop att cb utf8 inp fuel start := by
  induction fuel generalizing start with
  | zero => simp [nextLoopN, nextLoop]
  | succ fuel ih =>
    unfold nextLoopN nextLoop
    cases hatt : att start with
    | eoi => rfl
    | needMore => rfl
    | diverge => rfl
    | «nomatch» off =>
      dsimp only
      cases utf8 with
      | false => rfl
      | true =>
        simp only [if_true]
        cases findBoundary inp (max off (start + 1)) <;> rfl
    | matched l te =>
      dsimp only
      cases (cb l (slice inp start te) (List.drop te inp)).act with
      | emit => rfl
      | skip => exact ih _
      | errDefault => rfl
      | errCustom t => rfl

/-- counting changes nothing: the items are those of `lexFrom` -/
theorem lexFromN_items (att : Nat → Attempt) (cb : Callbacks) (hasCb : Nat → Bool) (utf8 : Bool) (inp : List Nat)
    (fuel pos : Nat) : (lexFromN att cb hasCb utf8 inp fuel pos).1 = lexFrom att cb utf8 inp fuel pos := by
  induction fuel generalizing pos with
  | zero => simp [lexFromN, lexFrom]
  | succ fuel ih =>
    unfold lexFromN lexFrom
    have h1 := nextLoopN_fst att cb hasCb utf8 inp (inp.length + 2) pos
    cases h : nextLoopN att cb hasCb utf8 inp (inp.length + 2) pos with
    | mk r k =>
      rw [h] at h1
      dsimp only at h1
      rw [← h1]
      cases r with
      | item it => dsimp only; rw [ih]
      | none s e => rfl
      | diverge => rfl

/-- no callback, no invocation -/
theorem lexFromN_no_callbacks (att : Nat → Attempt) (cb : Callbacks) (utf8 : Bool) (inp : List Nat) (fuel pos : Nat) :
    (lexFromN att cb (fun _ => false) utf8 inp fuel pos).2 = 0 := by
  have hN : ∀ fuel start, (nextLoopN att cb (fun _ => false) utf8 inp fuel start).2 = 0 := by
    intro fuel
    induction fuel with
    | zero => intro start; simp [nextLoopN]
    | succ fuel ih =>
      intro start
      unfold nextLoopN
      cases hatt : att start with
      | eoi => rfl
      | needMore => rfl
      | diverge => rfl
      | «nomatch» off =>
        dsimp only
        cases utf8 with
        | false => rfl
        | true =>
          simp only [if_true]
          cases findBoundary inp (max off (start + 1)) <;> rfl
      | matched l te =>
        dsimp only
        cases (cb l (slice inp start te) (List.drop te inp)).act with
        | emit => rfl
        | skip => simp [ih]
        | errDefault => rfl
        | errCustom t => rfl
  induction fuel generalizing pos with
  | zero => simp [lexFromN]
  | succ fuel ih =>
    unfold lexFromN
    have h1 := hN (inp.length + 2) pos
    cases h : nextLoopN att cb (fun _ => false) utf8 inp (inp.length + 2) pos with
    | mk r k =>
      rw [h] at h1
      dsimp only at h1
      subst h1
      cases r with
      | item it => simp [ih]
      | none s e => rfl
      | diverge => rfl

/-- for a validated definition the generated lexer invokes callbacks exactly as often as the reference lexer -/
theorem calls_eq_spec {G : Graph} {prios : List Nat} {D : Vec} {C : Nat → Vec → Prop}
    (hv : Valid G prios D C) (cb : Callbacks) (hasCb : Nat → Bool) (utf8 : Bool)
    (inp : List Nat) (hb : ∀ b ∈ inp, b < 256) :
    graphCalls G false cb hasCb utf8 inp = specCalls prios D cb hasCb utf8 inp := by
  have : walkAttempt G false inp = scanAttempt prios D inp := funext fun s => attempt_eq hv inp hb s
  unfold graphCalls specCalls
  rw [this]

namespace LK

def specCallsC (V : VecL → Cls → Bool) (prios : List Nat) (D : VecL) (cb : Callbacks) (hasCb : Nat → Bool) (utf8 : Bool)
    (inp : List Nat) : Nat :=
  (lexAllN (scanAttemptC V prios D inp) cb hasCb utf8 inp).2

theorem calls_eq_specC {G : Graph} {prios : List Nat} {D : VecL} {V : VecL → Cls → Bool}
    {C : Nat → VecL → Cls → Prop} (hv : ValidC G prios D V C) (cb : Callbacks) (hasCb : Nat → Bool) (utf8 : Bool)
    (inp : List Nat) (hb : ∀ b ∈ inp, b < 256) :
    graphCalls G false cb hasCb utf8 inp = specCallsC V prios D cb hasCb utf8 inp := by
  have : walkAttempt G false inp = scanAttemptC V prios D inp := funext fun s => attempt_eqC hv inp hb s
  unfold graphCalls specCallsC
  rw [this]

end LK
end Logos
