import LogosModel.Look.SpecC
import LogosModel.SpecProof
/-!
# The look-around model is a conservative extension of the look-free model

For a look-free definition `D`, embedded as `D.map ofRe`, every notion the look-around theorems speak
about coincides with its look-free counterpart, in every context.  Hence `C01_look_*` / `C02_look_*`
specialise to exactly the statements of `C01_*` / `C02_*`.
-/
namespace Logos.LK
open Logos

theorem matchesAtC_ofRe (D : Vec) (i : Nat) (p n : Cls) (w : List Nat) :
    MatchesAtC (D.map ofRe) i p w n ↔ MatchesAt D i w := by
  unfold MatchesAtC MatchesAt
  rw [List.getElem?_map]
  constructor
  · rintro ⟨r, hr, hm⟩
    cases hD : D[i]? with
    | none => simp [hD] at hr
    | some r0 =>
      simp [hD] at hr
      subst hr
      exact ⟨r0, rfl, (matchesC_ofRe r0 p n w).1 hm⟩
  · rintro ⟨r, hr, hm⟩
    exact ⟨ofRe r, by simp [hr], (matchesC_ofRe r p n w).2 hm⟩

theorem anyMatchC_ofRe (D : Vec) (p n : Cls) (w : List Nat) :
    AnyMatchC (D.map ofRe) p w n ↔ AnyMatch D w := by
  unfold AnyMatchC AnyMatch
  constructor
  · rintro ⟨i, hi⟩; exact ⟨i, (matchesAtC_ofRe D i p n w).1 hi⟩
  · rintro ⟨i, hi⟩; exact ⟨i, (matchesAtC_ofRe D i p n w).2 hi⟩

theorem topMatchC_ofRe (prios : List Nat) (D : Vec) (l : Nat) (p n : Cls) (w : List Nat) :
    TopMatchC prios (D.map ofRe) l p w n ↔ TopMatch prios D l w := by
  unfold TopMatchC TopMatch TopMatchC.prioOfC prioOf
  simp only [matchesAtC_ofRe]

theorem viableC_ofRe (D : Vec) (p : Cls) (u : List Nat) :
    ViableC (D.map ofRe) p u ↔ ViableW D u := by
  unfold ViableC ViableW
  constructor
  · rintro ⟨ext, n, h⟩; exact ⟨ext, (anyMatchC_ofRe D p n (u ++ ext)).1 h⟩
  · rintro ⟨ext, h⟩; exact ⟨ext, .none, (anyMatchC_ofRe D p .none (u ++ ext)).2 h⟩

end Logos.LK
