import LogosModel.Look.SpecC
/-!
# Certifying the viability oracle

With look-around, "some extension of what was read matches some pattern" is not a structural property
of the derivative vector.  It is decided by exploring the (finite, thanks to normalisation) set of
reachable pairs (vector, class of the last byte) and computing which of them can reach a match.  The
exploration is untrusted; its result is a table whose entries are checked here:

* a *live* entry carries a witness `(w, n)`: some leaf matches `w` followed by a byte of class `n`
  (re-computed by derivatives), and all its 256 successors are in the table;
* a *dead* entry has no leaf matching the empty string in any following context, and all its 256
  successors are dead entries of the table.

`liveCertB_sound`: then the table's verdict is exact on every pair reachable from the definition.
-/
namespace Logos.LK

def bytesOKL : ReL → Bool
  | .set rs => rs.all fun (_, hi) => decide (hi < 256)
  | .cat a b => bytesOKL a && bytesOKL b
  | .alt a b => bytesOKL a && bytesOKL b
  | .star a => bytesOKL a
  | _ => true

structure LEntry where
  vec : VecL
  p : Cls
  live : Bool
  wit : List Nat := []
  witN : Cls := .none
deriving Repr, DecidableEq

/-- some leaf of `Δ` (standing after a byte of class `p`) matches `w` followed by class `n` -/
def matchesAnyB (Δ : VecL) (p : Cls) (w : List Nat) (n : Cls) : Bool :=
  (derivsVC p w Δ).any (nullableC (prevOf p w) n)

def lookupL (T : List LEntry) (Δ : VecL) (p : Cls) : Option Bool :=
  (T.find? fun e => e.vec == Δ && e.p == p).map (·.live)

/-- the oracle read off a table: live iff the table says so -/
def oracleOf (T : List LEntry) : VecL → Cls → Bool := fun Δ p => lookupL T Δ p == some true

def entryOK (T : List LEntry) (e : LEntry) : Bool :=
  if e.live then
    matchesAnyB e.vec e.p e.wit e.witN &&
    (List.range 256).all fun b => (lookupL T (derivVC e.p b e.vec) (clsB b)).isSome
  else
    allCls.all (fun n => !(e.vec.any (nullableC e.p n))) &&
    (List.range 256).all fun b => lookupL T (derivVC e.p b e.vec) (clsB b) == some false

def liveCertB (T : List LEntry) (D : VecL) : Bool :=
  D.all bytesOKL && allCls.all (fun p0 => (lookupL T D p0).isSome) && T.all (entryOK T)

theorem bytesOKL_matches {r : ReL} {p n : Cls} {w : List Nat} (hm : MatchesC r p w n)
    (h : bytesOKL r = true) : ∀ b ∈ w, b < 256 := by
  induction hm with
  | eps => simp
  | @set rs b _ _ hb =>
    simp only [inRanges, List.any_eq_true] at hb
    obtain ⟨⟨lo, hi⟩, hmem, hle⟩ := hb
    simp only [bytesOKL, List.all_eq_true] at h
    have := h _ hmem
    simp at this hle
    intro c hc
    simp at hc
    omega
  | look _ => simp
  | cat _ _ ih1 ih2 =>
    simp only [bytesOKL, Bool.and_eq_true] at h
    intro c hc
    rcases List.mem_append.1 hc with hc | hc
    · exact ih1 h.1 c hc
    · exact ih2 h.2 c hc
  | altL _ ih =>
    simp only [bytesOKL, Bool.and_eq_true] at h
    exact ih h.1
  | altR _ ih =>
    simp only [bytesOKL, Bool.and_eq_true] at h
    exact ih h.2
  | starNil => simp
  | starCons _ _ _ ih1 ih2 =>
    intro c hc
    rcases List.mem_append.1 hc with hc | hc
    · exact ih1 (by simpa [bytesOKL] using h) c hc
    · exact ih2 h c hc

theorem matchesAtC_derivVC (Δ : VecL) (p : Cls) (b : Nat) (w : List Nat) (n : Cls) (i : Nat) :
    MatchesAtC (derivVC p b Δ) i (clsB b) w n ↔ MatchesAtC Δ i p (b :: w) n := by
  unfold MatchesAtC derivVC
  rw [List.getElem?_map]
  constructor
  · rintro ⟨r, hr, hm⟩
    cases hi : Δ[i]? with
    | none => simp [hi] at hr
    | some r0 =>
      simp [hi] at hr
      subst hr
      exact ⟨r0, rfl, (derivCN_correct p b r0 w n).1 hm⟩
  · rintro ⟨r, hr, hm⟩
    exact ⟨derivCN p b r, by simp [hr], (derivCN_correct p b r w n).2 hm⟩

theorem anyMatchC_derivVC (Δ : VecL) (p : Cls) (b : Nat) (w : List Nat) (n : Cls) :
    AnyMatchC (derivVC p b Δ) (clsB b) w n ↔ AnyMatchC Δ p (b :: w) n := by
  unfold AnyMatchC
  constructor
  · rintro ⟨i, h⟩; exact ⟨i, (matchesAtC_derivVC Δ p b w n i).1 h⟩
  · rintro ⟨i, h⟩; exact ⟨i, (matchesAtC_derivVC Δ p b w n i).2 h⟩

/-- local self-contained version of `matchesAtC_derivsVC` (proved here by induction on `u`) -/
theorem matchesAtC_derivsVC' (D : VecL) (p : Cls) (u v : List Nat) (n : Cls) (i : Nat) :
    MatchesAtC (derivsVC p u D) i (prevOf p u) v n ↔ MatchesAtC D i p (u ++ v) n := by
  induction u generalizing D p with
  | nil => simp [derivsVC]
  | cons b u' ih =>
    rw [prevOf_cons]
    show MatchesAtC (derivsVC (clsB b) u' (derivVC p b D)) i (prevOf (clsB b) u') v n ↔ _
    rw [ih, matchesAtC_derivVC]
    rfl

theorem anyMatchC_nil_iff (Δ : VecL) (p n : Cls) :
    AnyMatchC Δ p [] n ↔ Δ.any (nullableC p n) = true := by
  simp only [AnyMatchC, MatchesAtC, List.any_eq_true]
  constructor
  · rintro ⟨i, r, hr, hm⟩
    exact ⟨r, List.mem_of_getElem? hr, (nullableC_iff r p n).2 hm⟩
  · rintro ⟨r, hr, hn⟩
    obtain ⟨i, hi⟩ := List.getElem?_of_mem hr
    exact ⟨i, r, hi, (nullableC_iff r p n).1 hn⟩

theorem matchesAnyB_iff (Δ : VecL) (p : Cls) (w : List Nat) (n : Cls) :
    matchesAnyB Δ p w n = true ↔ AnyMatchC Δ p w n := by
  unfold matchesAnyB
  rw [← anyMatchC_nil_iff, anyMatchC_derivsVC, List.append_nil]

theorem lookupL_some {T : List LEntry} {Δ : VecL} {p : Cls} {b : Bool}
    (h : lookupL T Δ p = some b) : ∃ e ∈ T, e.vec = Δ ∧ e.p = p ∧ e.live = b := by
  unfold lookupL at h
  cases hf : T.find? (fun e => e.vec == Δ && e.p == p) with
  | none => simp [hf] at h
  | some e =>
    simp [hf] at h
    have hmem := List.mem_of_find?_eq_some hf
    have hp := List.find?_some hf
    simp only [Bool.and_eq_true, beq_iff_eq] at hp
    exact ⟨e, hmem, hp.1, hp.2, h⟩

theorem dead_no_match {T : List LEntry} (hall : T.all (entryOK T) = true) :
    ∀ (w : List Nat) (Δ : VecL) (p : Cls), lookupL T Δ p = some false → (∀ b ∈ w, b < 256) →
      ∀ n, ¬ AnyMatchC Δ p w n := by
  intro w
  induction w with
  | nil =>
    intro Δ p hl _ n hm
    obtain ⟨e, he, rfl, rfl, hlive⟩ := lookupL_some hl
    have hok := List.all_eq_true.1 hall e he
    simp only [entryOK, hlive, Bool.false_eq_true, if_false, Bool.and_eq_true,
      List.all_eq_true] at hok
    have := hok.1 n (mem_allCls n)
    rw [(anyMatchC_nil_iff _ _ _).1 hm] at this
    simp at this
  | cons c w ih =>
    intro Δ p hl hb n hm
    obtain ⟨e, he, rfl, rfl, hlive⟩ := lookupL_some hl
    have hok := List.all_eq_true.1 hall e he
    simp only [entryOK, hlive, Bool.false_eq_true, if_false, Bool.and_eq_true,
      List.all_eq_true] at hok
    have hc : c < 256 := hb c (by simp)
    have := hok.2 c (List.mem_range.2 hc)
    simp only [beq_iff_eq] at this
    exact ih _ _ this (fun b hbm => hb b (by simp [hbm])) n
      ((anyMatchC_derivVC _ _ _ _ _).2 hm)

theorem succ_isSome {T : List LEntry} (hall : T.all (entryOK T) = true) {Δ : VecL} {p : Cls}
    (hs : (lookupL T Δ p).isSome = true) {c : Nat} (hc : c < 256) :
    (lookupL T (derivVC p c Δ) (clsB c)).isSome = true := by
  cases hl : lookupL T Δ p with
  | none => simp [hl] at hs
  | some b =>
    obtain ⟨e, he, rfl, rfl, hlive⟩ := lookupL_some hl
    have hok := List.all_eq_true.1 hall e he
    cases b with
    | true =>
      simp only [entryOK, hlive, if_true, Bool.and_eq_true, List.all_eq_true] at hok
      exact hok.2 c (List.mem_range.2 hc)
    | false =>
      simp only [entryOK, hlive, Bool.false_eq_true, if_false, Bool.and_eq_true,
        List.all_eq_true] at hok
      have := hok.2 c (List.mem_range.2 hc)
      simp only [beq_iff_eq] at this
      simp [this]

theorem reach {T : List LEntry} (hall : T.all (entryOK T) = true) :
    ∀ (u : List Nat) (Δ : VecL) (p : Cls), (lookupL T Δ p).isSome = true →
      (∀ w n, AnyMatchC Δ p w n → ∀ b ∈ w, b < 256) → ViableC Δ p u →
      lookupL T (derivsVC p u Δ) (prevOf p u) = some true := by
  intro u
  induction u with
  | nil =>
    intro Δ p hs hb hv
    obtain ⟨ext, n, hm⟩ := hv
    simp only [List.nil_append] at hm
    simp only [derivsVC, prevOf_nil]
    cases hl : lookupL T Δ p with
    | none => simp [hl] at hs
    | some b =>
      cases b with
      | true => rfl
      | false => exact absurd hm (dead_no_match hall ext Δ p hl (hb _ _ hm) n)
  | cons c u ih =>
    intro Δ p hs hb hv
    obtain ⟨ext, n, hm⟩ := hv
    have hm' : AnyMatchC Δ p (c :: (u ++ ext)) n := by simpa using hm
    have hc : c < 256 := hb _ _ hm' c (by simp)
    rw [prevOf_cons]
    show lookupL T (derivsVC (clsB c) u (derivVC p c Δ)) (prevOf (clsB c) u) = some true
    refine ih _ _ (succ_isSome hall hs hc) ?_ ⟨ext, n, (anyMatchC_derivVC _ _ _ _ _).2 hm'⟩
    intro w n' hw b hbm
    exact hb _ _ ((anyMatchC_derivVC _ _ _ _ _).1 hw) b (by simp [hbm])

/-- **Soundness of the oracle table.** -/
theorem liveCertB_sound {T : List LEntry} {D : VecL} (h : liveCertB T D = true) (p0 : Cls) :
    VExact (oracleOf T) D p0 := by
  simp only [liveCertB, Bool.and_eq_true] at h
  obtain ⟨⟨hbytes, hstart⟩, hall⟩ := h
  intro u
  simp only [oracleOf, beq_iff_eq]
  constructor
  · intro hl
    obtain ⟨e, he, hvec, hp, hlive⟩ := lookupL_some hl
    have hok := List.all_eq_true.1 hall e he
    simp only [entryOK, hlive, if_true, Bool.and_eq_true] at hok
    have hm := (matchesAnyB_iff _ _ _ _).1 hok.1
    rw [hvec, hp, anyMatchC_derivsVC] at hm
    exact ⟨e.wit, e.witN, hm⟩
  · intro hv
    refine reach hall u D p0 (List.all_eq_true.1 hstart p0 (mem_allCls p0)) ?_ hv
    rintro w n ⟨i, r, hr, hm⟩
    exact bytesOKL_matches hm (List.all_eq_true.1 hbytes r (List.mem_of_getElem? hr))

end Logos.LK
