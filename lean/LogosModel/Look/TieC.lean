import LogosModel.Look.LiveCert
import Std.Data.HashSet
/-!
# Equal-priority overlaps for patterns with look-around (C08)

`TieC prios D p w n`: two different leaves match `w` (standing between a byte of class `p` and a byte
of class `n`) and both have the highest priority among the leaves matching it there.

* `tieC_witness`: a derivative vector with a tie is a genuine tie (used to confirm a witness found by
  the untrusted search);
* `tieFreeCB_sound`: the Boolean closure check implies that no string in no context is a tie.
-/
namespace Logos.LK

def TieC (prios : List Nat) (D : VecL) (p : Cls) (w : List Nat) (n : Cls) : Prop :=
  ∃ i j, i ≠ j ∧ TopMatchC prios D i p w n ∧ TopMatchC prios D j p w n

/-- indices of the components nullable between `p` and `n`, with their priorities -/
def nullIdxC (prios : List Nat) (p n : Cls) (Δ : VecL) : List (Nat × Nat) :=
  ((List.range Δ.length).filter fun i => match Δ[i]? with | some r => nullableC p n r | none => false).map
    fun i => (i, prios.getD i 0)

/-- some two nullable components share the maximal priority among the nullable ones -/
def tieAtC (prios : List Nat) (p n : Cls) (Δ : VecL) : Bool :=
  let ns := nullIdxC prios p n Δ
  ns.any fun x => ns.any fun y => x.1 != y.1 && x.2 == y.2 && ns.all fun z => z.2 ≤ x.2

theorem mem_nullIdxC (prios : List Nat) (p n : Cls) (Δ : VecL) (i q : Nat) :
    (i, q) ∈ nullIdxC prios p n Δ ↔ MatchesAtC Δ i p [] n ∧ q = TopMatchC.prioOfC prios i := by
  unfold nullIdxC TopMatchC.prioOfC MatchesAtC
  simp only [List.mem_map, List.mem_filter, List.mem_range, Prod.mk.injEq]
  constructor
  · rintro ⟨k, ⟨hk, hn⟩, rfl, rfl⟩
    refine ⟨?_, rfl⟩
    cases hD : Δ[k]? with
    | none => simp [hD] at hn
    | some r => simp [hD] at hn; exact ⟨r, rfl, (nullableC_iff r p n).1 hn⟩
  · rintro ⟨⟨r, hr, hn⟩, rfl⟩
    refine ⟨i, ⟨(List.getElem?_eq_some_iff.1 hr).1, ?_⟩, rfl, rfl⟩
    simp [hr, (nullableC_iff r p n).2 hn]

theorem tieAtC_iff (prios : List Nat) (p n : Cls) (Δ : VecL) :
    tieAtC prios p n Δ = true ↔ TieC prios Δ p [] n := by
  unfold tieAtC TieC TopMatchC
  simp only [List.any_eq_true, List.all_eq_true, Bool.and_eq_true, bne_iff_ne, beq_iff_eq,
    decide_eq_true_eq, ne_eq]
  constructor
  · rintro ⟨⟨i, a⟩, hp, ⟨j, q⟩, hq, ⟨hne, heq⟩, hmax⟩
    simp only at hne heq hmax
    obtain ⟨hmi, rfl⟩ := (mem_nullIdxC _ _ _ _ _ _).1 hp
    obtain ⟨hmj, rfl⟩ := (mem_nullIdxC _ _ _ _ _ _).1 hq
    refine ⟨i, j, hne, ⟨hmi, ?_⟩, ⟨hmj, ?_⟩⟩
    · intro k hk
      exact hmax (k, TopMatchC.prioOfC prios k) ((mem_nullIdxC _ _ _ _ _ _).2 ⟨hk, rfl⟩)
    · intro k hk
      rw [← heq]
      exact hmax (k, TopMatchC.prioOfC prios k) ((mem_nullIdxC _ _ _ _ _ _).2 ⟨hk, rfl⟩)
  · rintro ⟨i, j, hne, ⟨hmi, hti⟩, ⟨hmj, htj⟩⟩
    refine ⟨(i, TopMatchC.prioOfC prios i), (mem_nullIdxC _ _ _ _ _ _).2 ⟨hmi, rfl⟩,
      (j, TopMatchC.prioOfC prios j), (mem_nullIdxC _ _ _ _ _ _).2 ⟨hmj, rfl⟩, ⟨hne, ?_⟩, ?_⟩
    · exact Nat.le_antisymm (htj i hmi) (hti j hmj)
    · rintro ⟨k, q⟩ hk
      obtain ⟨hmk, rfl⟩ := (mem_nullIdxC _ _ _ _ _ _).1 hk
      exact hti k hmk

/-- a tie found after reading `w` is a tie on `w` -/
theorem tieC_witness (prios : List Nat) (D : VecL) (p0 : Cls) (w : List Nat) (n : Cls)
    (h : tieAtC prios (prevOf p0 w) n (derivsVC p0 w D) = true) : TieC prios D p0 w n := by
  obtain ⟨i, j, hne, hi, hj⟩ := (tieAtC_iff _ _ _ _).1 h
  exact ⟨i, j, hne, (topMatchC_derivsVC _ _ _ _ _ _).1 hi, (topMatchC_derivsVC _ _ _ _ _ _).1 hj⟩

/-- `S` contains `(D, p0)` for every start context, is closed under byte steps, and no pair in it has a
tie in any following context. -/
def tieFreeCB (S : List (VecL × Cls)) (prios : List Nat) (D : VecL) : Bool :=
  D.all bytesOKL && allCls.all (fun p0 => S.contains (D, p0)) &&
  S.all fun x =>
    allCls.all (fun n => !tieAtC prios x.2 n x.1) &&
    (List.range 256).all fun b => S.contains (derivVC x.2 b x.1, clsB b)

theorem tieFreeC_run {S : List (VecL × Cls)}
    (hall : ∀ x ∈ S, ∀ b, b < 256 → (derivVC x.2 b x.1, clsB b) ∈ S) :
    ∀ (w : List Nat) {Δ : VecL} {p : Cls}, (Δ, p) ∈ S → (∀ b ∈ w, b < 256) →
      (derivsVC p w Δ, prevOf p w) ∈ S := by
  intro w
  induction w with
  | nil => intro Δ p h _; simpa [derivsVC, prevOf] using h
  | cons b w ih =>
    intro Δ p h hlt
    have h1 : derivsVC p (b :: w) Δ = derivsVC (clsB b) w (derivVC p b Δ) := rfl
    rw [h1, prevOf_cons]
    exact ih (hall (Δ, p) h b (hlt b (by simp))) (fun c hc => hlt c (by simp [hc]))

theorem tieFreeCB_sound {S : List (VecL × Cls)} {prios : List Nat} {D : VecL}
    (h : tieFreeCB S prios D = true) : ∀ p0 w n, ¬ TieC prios D p0 w n := by
  simp only [tieFreeCB, Bool.and_eq_true, List.all_eq_true] at h
  obtain ⟨⟨hbytes, hstart⟩, hall⟩ := h
  have hstart' : ∀ p0, (D, p0) ∈ S := by
    intro p0
    have := hstart p0 (mem_allCls p0)
    simpa using this
  have hall' : ∀ x ∈ S, (∀ n, tieAtC prios x.2 n x.1 = false) ∧
      ∀ b, b < 256 → (derivVC x.2 b x.1, clsB b) ∈ S := by
    intro x hx
    obtain ⟨h1, h2⟩ := hall x hx
    refine ⟨?_, ?_⟩
    · intro n
      have := h1 n (mem_allCls n)
      simpa using this
    · intro b hb
      have := h2 b (List.mem_range.2 hb)
      simpa using this
  intro p0 w n htie
  obtain ⟨i, j, hne, hi, hj⟩ := htie
  have hlt : ∀ b ∈ w, b < 256 := by
    obtain ⟨r, hr, hm⟩ := hi.1
    have hmem : r ∈ D := List.mem_iff_getElem?.2 ⟨i, hr⟩
    exact bytesOKL_matches hm (hbytes r hmem)
  have hS := tieFreeC_run (fun x hx => (hall' x hx).2) w (hstart' p0) hlt
  have : tieAtC prios (prevOf p0 w) n (derivsVC p0 w D) = true :=
    (tieAtC_iff _ _ _ _).2 ⟨i, j, hne, (topMatchC_derivsVC _ _ _ _ _ _).2 hi,
      (topMatchC_derivsVC _ _ _ _ _ _).2 hj⟩
  rw [(hall' _ hS).1 n] at this
  cases this

/-- hash-set version of the same check -/
def tieFreeCBFast (S : List (VecL × Cls)) (prios : List Nat) (D : VecL) : Bool :=
  let H := Std.HashSet.ofList S
  D.all bytesOKL && allCls.all (fun p0 => H.contains (D, p0)) &&
  S.all fun x =>
    allCls.all (fun n => !tieAtC prios x.2 n x.1) &&
    (List.range 256).all fun b => H.contains (derivVC x.2 b x.1, clsB b)

theorem tieFreeCBFast_eq (S : List (VecL × Cls)) (prios : List Nat) (D : VecL) :
    tieFreeCBFast S prios D = tieFreeCB S prios D := by
  simp only [tieFreeCBFast, tieFreeCB, Std.HashSet.contains_ofList]

theorem tieFreeCBFast_sound {S : List (VecL × Cls)} {prios : List Nat} {D : VecL}
    (h : tieFreeCBFast S prios D = true) : ∀ p0 w n, ¬ TieC prios D p0 w n :=
  tieFreeCB_sound (by rw [← tieFreeCBFast_eq]; exact h)

end Logos.LK
