import LogosModel.Look.SoundC
import LogosModel.CertP
import LogosModel.PartialProof
/-!
# Partial lexing with look-around (C07, eagerness)

At the end of a prefix buffer the reference partial lexer waits iff the outcome can still change:
some byte keeps a pattern viable, or the winner at the current position depends on what follows (a
pattern matches here for some following context but not for all of them with the same leaf).  When it
does not wait, every following context gives the same winner (or none), so the record made with the
context "end of input" is the right one.
-/
namespace Logos.LK
open Logos

/-- the same leaf wins at the current position whatever follows -/
def uniformWin (prios : List Nat) (Δ : VecL) (p : Cls) (l : Nat) : Bool :=
  allCls.all fun n => winC prios p n Δ == some l

/-- the outcome of the attempt can still change when more input arrives -/
def waitsC (V : VecL → Cls → Bool) (prios : List Nat) (Δ : VecL) (p : Cls) : Bool :=
  (List.range 256).any (fun b => V (derivVC p b Δ) (clsB b)) ||
  allCls.any fun n => match winC prios p n Δ with
    | some l => !uniformWin prios Δ p l
    | none => false

/-- reference scan over a prefix buffer -/
def scanPC (V : VecL → Cls → Bool) (prios : List Nat) : VecL → Cls → List Nat → Nat → Rec → Option (Rec × Nat)
  | Δ, p, [], k, best => if waitsC V prios Δ p then none else some (best, k)
  | Δ, p, b :: w, k, best =>
    let Δ' := derivVC p b Δ
    if V Δ' (clsB b) then
      scanPC V prios Δ' (clsB b) w (k+1) (updC prios Δ' (clsB b) (nextOf w .none) (k+1) best)
    else some (best, k)

def scanAttemptPC (V : VecL → Cls → Bool) (prios : List Nat) (D : VecL) (inp : List Nat) (start : Nat) : Attempt :=
  match scanPC V prios D (prevOf .none (inp.take start)) (inp.drop start) start none with
  | none => .needMore
  | some (some (e, l), _) => .matched l e
  | some (none, off) => if inp.length ≤ start then .eoi else .nomatch off

def specLexPC (V : VecL → Cls → Bool) (prios : List Nat) (D : VecL) (cb : Callbacks) (utf8 : Bool) (inp : List Nat) :=
  lexAll (scanAttemptPC V prios D inp) cb utf8 inp

/-- state by state: the generated code waits exactly when the reference does -/
def prefixOKCB (G : Graph) (prios : List Nat) (V : VecL → Cls → Bool) (C : CSetC) : Bool :=
  (List.range C.size).all fun s => (C.getD s []).all fun e => waits (G.get s) == waitsC V prios e.1 e.2

end Logos.LK

namespace Logos.LK
open Logos

structure ValidPC (G : Graph) (prios : List Nat) (D : VecL) (V : VecL → Cls → Bool)
    (C : Nat → VecL → Cls → Prop) : Prop where
  valid : ValidC G prios D V C
  prefixOK : ∀ s Δ p, C s Δ p → waits (G.get s) = waitsC V prios Δ p

def validPCB (G : Graph) (prios : List Nat) (D : VecL) (V : VecL → Cls → Bool) (C : CSetC) : Bool :=
  validCB G prios D V C && prefixOKCB G prios V C

theorem validPCB_sound {G : Graph} {prios : List Nat} {D : VecL} {V : VecL → Cls → Bool} {C : CSetC}
    (h : validPCB G prios D V C = true) : ValidPC G prios D V C.mem := by
  unfold validPCB at h
  simp only [Bool.and_eq_true] at h
  refine ⟨validCB_sound h.1, ?_⟩
  intro s Δ p hm
  have h2 := h.2
  unfold prefixOKCB at h2
  rw [List.all_eq_true] at h2
  by_cases hs : s < C.size
  · have := h2 s (List.mem_range.2 hs)
    rw [List.all_eq_true] at this
    simpa using this (Δ, p) hm
  · have : C.getD s [] = [] := by
      simp [Array.getD]; omega
    simp [CSetC.mem, this] at hm

/-- a vector the oracle calls dead does not wait -/
theorem waitsC_dead {G : Graph} {prios : List Nat} {V : VecL → Cls → Bool} {C : Nat → VecL → Cls → Prop}
    {t : Nat} {Δ : VecL} {q : Cls} (hl : LocalC G prios V C t Δ q) (hd : V Δ q = false) :
    waitsC V prios Δ q = false := by
  unfold waitsC
  rw [Bool.or_eq_false_iff]
  constructor
  · rw [List.any_eq_false]
    intro b hb
    rw [hl.dead_closed hd b (List.mem_range.1 hb)]
    simp
  · rw [List.any_eq_false]
    intro n hn
    rw [hl.dead_nowin hd n hn]
    simp

/-- prefix-mode `dead_stopsC`. -/
theorem dead_stopsPC {G : Graph} {prios : List Nat} {D : VecL} {V : VecL → Cls → Bool}
    {C : Nat → VecL → Cls → Prop} (hv : ValidPC G prios D V C) {t : Nat} {Δ : VecL} {q : Cls}
    (hC : C t Δ q) (hd : V Δ q = false) (start : Nat) (w : List Nat) (k : Nat)
    (hk : start < k) (ctx : Option Nat) (tokEnd : Nat) :
    (G.get t).early = none ∧
    walk G true start t w k ctx tokEnd =
      .action k (record (G.get t) k ctx tokEnd).1 (record (G.get t) k ctx tokEnd).2 := by
  have hl := hv.valid.loc t Δ q hC
  have nowin : ∀ n l, winC prios q n Δ ≠ some l := by
    intro n l h; rw [hl.dead_nowin hd n (mem_allCls n)] at h; cases h
  have hearly : (G.get t).early = none := by
    cases h : (G.get t).early with
    | none => rfl
    | some l => exact absurd (hl.early_ok l h .none (mem_allCls _)) (nowin _ l)
  refine ⟨hearly, ?_⟩
  have hwt : waits (G.get t) = false := by
    rw [hv.prefixOK t Δ q hC]; exact waitsC_dead hl hd
  obtain ⟨hnorm, heoi⟩ := waits_false hwt
  cases w with
  | nil =>
    simp only [walk]
    rw [atEoi]
    have hroot : (t == G.root && start == k) = false := by
      have : (start == k) = false := by simp; omega
      simp [this]
    simp [hnorm, heoi, hroot]
  | cons b w' =>
    simp only [walk]
    rw [next_of_normal_nil hnorm b]

theorem walk_eq_scanPC {G : Graph} {prios : List Nat} {D : VecL} {V : VecL → Cls → Bool}
    {C : Nat → VecL → Cls → Prop} (hv : ValidPC G prios D V C) (start : Nat) :
    ∀ (w : List Nat) (st : Nat) (Δ : VecL) (p : Cls) (k : Nat) (ctx : Option Nat) (tokEnd : Nat) (bestPrev : Rec),
      (∀ b ∈ w, b < 256) → start < k → C st Δ p → EntryInv G st k ctx tokEnd bestPrev →
      match scanPC V prios Δ p w k (updC prios Δ p (nextOf w .none) k bestPrev) with
      | none => walk G true start st w k ctx tokEnd = .needMore
      | some (r, off) =>
        ∃ off' c e, walk G true start st w k ctx tokEnd = .action off' c e ∧ recOf c e = r ∧
          (r = none → off' = off) := by
  intro w
  induction w with
  | nil =>
    intro st Δ p k ctx tokEnd bestPrev _ hk hC he
    have hl := hv.valid.loc st Δ p hC
    have hpost := record_postC hl he .none
    have hpre := hv.prefixOK st Δ p hC
    simp only [walk, scanPC, nextOf_nil]
    generalize hr : record (G.get st) k ctx tokEnd = r at hpost
    obtain ⟨c1, e1⟩ := r
    simp only at hpost ⊢
    rw [atEoi]
    cases hx : waitsC V prios Δ p with
    | true =>
      rw [hx] at hpre
      unfold waits at hpre
      simp only [if_true, hpre, Bool.and_true]
    | false =>
      rw [hx] at hpre
      obtain ⟨hnorm, heoi⟩ := waits_false hpre
      have hroot : (st == G.root && start == k) = false := by
        have : (start == k) = false := by simp; omega
        simp [this]
      simp only [hnorm, heoi, hroot]
      refine ⟨k, c1, e1, by simp, ?_, fun _ => rfl⟩
      rcases hpost with h | ⟨l, hwn, hne⟩
      · exact h
      · rcases hl.win_eoi l hwn with h | ⟨t, ht, _⟩
        · exact absurd h hne
        · rw [heoi] at ht; cases ht
  | cons b w' ih =>
    intro st Δ p k ctx tokEnd bestPrev hw hk hC he
    have hb : b < 256 := hw b (by simp)
    have hw' : ∀ x ∈ w', x < 256 := fun x hx => hw x (by simp [hx])
    have hl := hv.valid.loc st Δ p hC
    have hpost := record_postC hl he (clsB b)
    simp only [walk, nextOf_cons]
    generalize hr : record (G.get st) k ctx tokEnd = r at hpost
    obtain ⟨c1, e1⟩ := r
    simp only at hpost ⊢
    cases hn : (G.get st).next b with
    | none =>
      have hdead := hl.noedge b hb hn
      simp only [scanPC, hdead]
      refine ⟨k, c1, e1, rfl, ?_, fun _ => rfl⟩
      rcases hpost with h | ⟨l, hwn, hne⟩
      · exact h
      · rcases hl.win_byte b hb l hwn with h | ⟨t, ht, _⟩
        · exact absurd h hne
        · rw [hn] at ht; cases ht
    | some t =>
      obtain ⟨h1, h2, h3⟩ := hl.edge b hb t hn
      have he' : EntryInv G t (k+1) c1 e1 (updC prios Δ p (clsB b) k bestPrev) := by
        unfold EntryInv
        cases ha : (G.get t).accept with
        | some l => simp [updC, h1 l ha]
        | none =>
          simp only
          rcases hpost with h | ⟨l, hwn, hne⟩
          · exact h
          · rcases hl.win_byte b hb l hwn with h | ⟨t2, ht2, ha2⟩
            · exact absurd h hne
            · rw [hn] at ht2; cases ht2; rw [ha] at ha2; cases ha2
      simp only
      cases hvd : V (derivVC p b Δ) (clsB b) with
      | true =>
        have := ih t (derivVC p b Δ) (clsB b) (k+1) c1 e1 (updC prios Δ p (clsB b) k bestPrev)
          hw' (by omega) h3 he'
        simpa only [scanPC, hvd, if_true] using this
      | false =>
        simp only [scanPC, hvd]
        obtain ⟨htE, hwalk⟩ := dead_stopsPC hv h3 hvd start w' (k+1) (by omega) c1 e1
        rw [hwalk]
        have hacc : (G.get t).accept.isSome = true := by
          rcases h2 with h2 | h2
          · rw [hvd] at h2; cases h2
          · exact h2
        cases ha : (G.get t).accept with
        | none => rw [ha] at hacc; cases hacc
        | some l =>
          have hwin := h1 l ha
          have hrec : record (G.get t) (k+1) c1 e1 = (some l, k) := by simp [record, htE, ha]
          rw [hrec]
          refine ⟨k+1, some l, k, rfl, ?_, ?_⟩
          · simp [recOf, updC, hwin]
          · intro h; simp [updC, hwin] at h

/-- one attempt of the partial lexer = one attempt of the reference partial lexer -/
theorem attemptPC_eq {G : Graph} {prios : List Nat} {D : VecL} {V : VecL → Cls → Bool}
    {C : Nat → VecL → Cls → Prop} (hv : ValidPC G prios D V C) (inp : List Nat)
    (hb : ∀ b ∈ inp, b < 256) (start : Nat) :
    walkAttempt G true inp start = scanAttemptPC V prios D inp start := by
  obtain ⟨hre, hra⟩ := hv.valid.wf.rootNoRec
  have hrec : ∀ ctx te, record (G.get G.root) start ctx te = (ctx, te) := by
    intro ctx te; simp [record, hre, hra]
  have hbd : ∀ x ∈ inp.drop start, x < 256 := fun x hx => hb x (List.mem_of_mem_drop hx)
  unfold walkAttempt scanAttemptPC
  generalize hp0 : prevOf .none (inp.take start) = p0
  have hroot := hv.valid.root p0 (mem_allCls p0)
  cases hd : inp.drop start with
  | nil =>
    have hlen : inp.length ≤ start := List.drop_eq_nil_iff.1 hd
    have hpre := hv.prefixOK G.root D p0 hroot
    simp only [walk, hrec, scanPC]
    rw [atEoi]
    cases hx : waitsC V prios D p0 with
    | true =>
      rw [hx] at hpre
      unfold waits at hpre
      simp [hpre, attemptOfStop]
    | false =>
      rw [hx] at hpre
      obtain ⟨hnorm, heoi⟩ := waits_false hpre
      simp [hnorm, heoi, attemptOfStop, hlen]
  | cons b w =>
    have hlen : ¬ inp.length ≤ start := by
      intro h
      have := List.drop_eq_nil_iff.2 h
      rw [hd] at this; cases this
    rw [hd] at hbd
    have hb' : b < 256 := hbd b (by simp)
    have hw : ∀ x ∈ w, x < 256 := fun x hx => hbd x (by simp [hx])
    have hl := hv.valid.loc _ _ _ hroot
    simp only [walk, hrec]
    cases hn : (G.get G.root).next b with
    | none =>
      have hdead := hl.noedge b hb' hn
      simp [scanPC, hdead, attemptOfStop, hlen]
    | some t =>
      obtain ⟨h1, h2, h3⟩ := hl.edge b hb' t hn
      have hacc : (G.get t).accept = none := by
        cases ha : (G.get t).accept with
        | none => rfl
        | some l =>
          have := h1 l ha
          rw [hv.valid.noEmpty p0 (mem_allCls _) (clsB b) (mem_allCls _)] at this; cases this
      have hvd : V (derivVC p0 b D) (clsB b) = true := by
        rcases h2 with h2 | h2
        · exact h2
        · rw [hacc] at h2; cases h2
      have he : EntryInv G t (start+1) none start none := by
        unfold EntryInv; simp [hacc, recOf]
      have key :=
        walk_eq_scanPC hv start w t (derivVC p0 b D) (clsB b) (start+1) none start none hw (by omega) h3 he
      simp only [scanPC, hvd, if_true]
      generalize scanPC V prios (derivVC p0 b D) (clsB b) w (start+1)
        (updC prios (derivVC p0 b D) (clsB b) (nextOf w .none) (start+1) none) = r at key
      cases r with
      | none =>
        simp only at key
        rw [key]
        simp [attemptOfStop]
      | some pr =>
        obtain ⟨r1, r2⟩ := pr
        obtain ⟨off, c, e, hwalk, hr, hoff⟩ := key
        rw [hwalk]
        cases c with
        | none =>
          simp [recOf] at hr
          subst hr
          have := hoff rfl
          subst this
          simp [attemptOfStop, hlen]
        | some l =>
          simp [recOf] at hr
          subst hr
          simp [attemptOfStop]

/-- **C07 with look-around (eagerness and safety together).** If the certificate and the waiting condition
validate, the partial lexer yields over every prefix buffer exactly the items of the reference partial
lexer, which waits exactly as long as the outcome can still change. -/
theorem partial_eq_specC {G : Graph} {prios : List Nat} {D : VecL} {V : VecL → Cls → Bool}
    {C : Nat → VecL → Cls → Prop} (hv : ValidPC G prios D V C) (cb : Callbacks) (utf8 : Bool)
    (inp : List Nat) (hb : ∀ b ∈ inp, b < 256) :
    graphLex G true cb utf8 inp = specLexPC V prios D cb utf8 inp := by
  have : walkAttempt G true inp = scanAttemptPC V prios D inp :=
    funext fun s => attemptPC_eq hv inp hb s
  unfold graphLex specLexPC
  rw [this]

end Logos.LK
