import LogosModel.Look.SoundC
import LogosModel.CertP
/-!
# Partial lexing with look-around (C07, eagerness)

At the end of a prefix buffer the reference partial lexer waits iff the outcome can still change:
some byte keeps a pattern viable, or the winner at the current position depends on what follows (a
pattern matches here for some following context but not for all of them with the same leaf).  When it
does not wait, every following context gives the same winner (or none), so the record made with the
context "end of input" is the right one.
-/
namespace Logos.LK
open Logos

/-- the same leaf wins at the current position whatever follows -/
def uniformWin (prios : List Nat) (Δ : VecL) (p : Cls) (l : Nat) : Bool :=
  allCls.all fun n => winC prios p n Δ == some l

/-- the outcome of the attempt can still change when more input arrives -/
def waitsC (V : VecL → Cls → Bool) (prios : List Nat) (Δ : VecL) (p : Cls) : Bool :=
  (List.range 256).any (fun b => V (derivVC p b Δ) (clsB b)) ||
  allCls.any fun n => match winC prios p n Δ with
    | some l => !uniformWin prios Δ p l
    | none => false

/-- reference scan over a prefix buffer -/
def scanPC (V : VecL → Cls → Bool) (prios : List Nat) : VecL → Cls → List Nat → Nat → Rec → Option (Rec × Nat)
  | Δ, p, [], k, best => if waitsC V prios Δ p then none else some (best, k)
  | Δ, p, b :: w, k, best =>
    let Δ' := derivVC p b Δ
    if V Δ' (clsB b) then
      scanPC V prios Δ' (clsB b) w (k+1) (updC prios Δ' (clsB b) (nextOf w .none) (k+1) best)
    else some (best, k)

def scanAttemptPC (V : VecL → Cls → Bool) (prios : List Nat) (D : VecL) (inp : List Nat) (start : Nat) : Attempt :=
  match scanPC V prios D (prevOf .none (inp.take start)) (inp.drop start) start none with
  | none => .needMore
  | some (some (e, l), _) => .matched l e
  | some (none, off) => if inp.length ≤ start then .eoi else .nomatch off

def specLexPC (V : VecL → Cls → Bool) (prios : List Nat) (D : VecL) (cb : Callbacks) (utf8 : Bool) (inp : List Nat) :=
  lexAll (scanAttemptPC V prios D inp) cb utf8 inp

/-- state by state: the generated code waits exactly when the reference does -/
def prefixOKCB (G : Graph) (prios : List Nat) (V : VecL → Cls → Bool) (C : CSetC) : Bool :=
  (List.range C.size).all fun s => (C.getD s []).all fun e => waits (G.get s) == waitsC V prios e.1 e.2

end Logos.LK
