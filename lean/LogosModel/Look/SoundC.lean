import LogosModel.Look.CertC
import LogosModel.Sound
import LogosModel.Lex
/-!
# Soundness of the look-around certificate: the graph walk equals the contextual reference scan
-/
namespace Logos.LK
open Logos


/-- The record applied on entry; relation with the reference `updC`. -/
theorem record_postC {G : Graph} {prios : List Nat} {V : VecL → Cls → Bool} {C : Nat → VecL → Cls → Prop}
    {st : Nat} {Δ : VecL} {p : Cls} {k : Nat} {ctx tokEnd} {bestPrev : Rec}
    (hl : LocalC G prios V C st Δ p) (he : EntryInv G st k ctx tokEnd bestPrev) (n : Cls) :
    let r := record (G.get st) k ctx tokEnd
    recOf r.1 r.2 = updC prios Δ p n k bestPrev ∨
      (∃ l, winC prios p n Δ = some l ∧ (G.get st).early ≠ some l) := by
  intro r
  show recOf (record (G.get st) k ctx tokEnd).1 (record (G.get st) k ctx tokEnd).2 = _ ∨ _
  unfold EntryInv at he
  unfold record
  cases hE : (G.get st).early with
  | some l =>
    left
    have := hl.early_ok l hE n (mem_allCls n)
    simp [recOf, updC, this]
  | none =>
    cases hw : winC prios p n Δ with
    | some l' => right; exact ⟨l', rfl, by simp⟩
    | none =>
      left
      cases hA : (G.get st).accept with
      | some l => simp [hA] at he; simp [recOf, updC, hw, he]
      | none => simp [hA] at he; simp [updC, hw, he]

/-- A state paired with a vector the oracle calls dead has no way out. -/
theorem dead_stopsC {G : Graph} {prios : List Nat} {D : VecL} {V : VecL → Cls → Bool}
    {C : Nat → VecL → Cls → Prop} (hv : ValidC G prios D V C) {t : Nat} {Δ : VecL} {q : Cls}
    (hC : C t Δ q) (hd : V Δ q = false) (start : Nat) (w : List Nat) (hw : ∀ b ∈ w, b < 256) (k : Nat)
    (hk : start < k) (ctx : Option Nat) (tokEnd : Nat) :
    (G.get t).early = none ∧
    walk G false start t w k ctx tokEnd =
      .action k (record (G.get t) k ctx tokEnd).1 (record (G.get t) k ctx tokEnd).2 := by
  have hl := hv.loc t Δ q hC
  have nowin : ∀ n l, winC prios q n Δ ≠ some l := by
    intro n l h; rw [hl.dead_nowin hd n (mem_allCls n)] at h; cases h
  have hearly : (G.get t).early = none := by
    cases h : (G.get t).early with
    | none => rfl
    | some l => exact absurd (hl.early_ok l h .none (mem_allCls _)) (nowin _ l)
  refine ⟨hearly, ?_⟩
  cases w with
  | nil =>
    simp only [walk]
    rw [atEoi]
    have hroot : (t == G.root && start == k) = false := by
      have : (start == k) = false := by simp; omega
      simp [this]
    simp only [Bool.and_false, hroot]
    cases he : (G.get t).eoi with
    | none => simp
    | some t' =>
      exfalso
      obtain ⟨_, _, hacc, _⟩ := hv.wf.eoiT t t' he
      cases ha : (G.get t').accept with
      | none => rw [ha] at hacc; cases hacc
      | some l => exact nowin _ l (hl.eoi_ok t' he l ha)
  | cons b w' =>
    have hb : b < 256 := hw b (by simp)
    simp only [walk]
    cases hn : (G.get t).next b with
    | none => rfl
    | some t' =>
      exfalso
      obtain ⟨h1, h2, _⟩ := hl.edge b hb t' hn
      rcases h2 with h2 | h2
      · rw [hl.dead_closed hd b hb] at h2; cases h2
      · cases ha : (G.get t').accept with
        | none => rw [ha] at h2; cases h2
        | some l => exact nowin _ l (h1 l ha)

/-- For every certified triple entered after at least one byte, with the same entry invariant as in
`Sound.lean` (`EntryInv`), the walk of the rest of the input ends in `_take_action` with the record of
the contextual reference scan and, when there is none, at its stop offset. The record at the current
position is decided with the class of the next byte of the input (or the end of input). -/
theorem walk_eq_scanC {G : Graph} {prios : List Nat} {D : VecL} {V : VecL → Cls → Bool}
    {C : Nat → VecL → Cls → Prop} (hv : ValidC G prios D V C) (start : Nat) :
    ∀ (w : List Nat) (st : Nat) (Δ : VecL) (p : Cls) (k : Nat) (ctx : Option Nat) (tokEnd : Nat) (bestPrev : Rec),
      (∀ b ∈ w, b < 256) → start < k → C st Δ p → EntryInv G st k ctx tokEnd bestPrev →
      ∃ off c e, walk G false start st w k ctx tokEnd = .action off c e ∧
        recOf c e = (scanC V prios Δ p w k (updC prios Δ p (nextOf w .none) k bestPrev)).1 ∧
        ((scanC V prios Δ p w k (updC prios Δ p (nextOf w .none) k bestPrev)).1 = none →
          off = (scanC V prios Δ p w k (updC prios Δ p (nextOf w .none) k bestPrev)).2) := by
  intro w
  induction w with
  | nil =>
    intro st Δ p k ctx tokEnd bestPrev _ hk hC he
    have hl := hv.loc st Δ p hC
    have hpost := record_postC hl he .none
    simp only [walk, scanC, nextOf_nil]
    generalize hr : record (G.get st) k ctx tokEnd = r at hpost
    obtain ⟨c1, e1⟩ := r
    simp only at hpost ⊢
    rw [atEoi]
    have hroot : (st == G.root && start == k) = false := by
      have : (start == k) = false := by simp; omega
      simp [this]
    simp only [Bool.and_false, hroot]
    cases hE : (G.get st).eoi with
    | none =>
      refine ⟨k, c1, e1, by simp, ?_, fun _ => rfl⟩
      rcases hpost with h | ⟨l, hwn, hne⟩
      · exact h
      · rcases hl.win_eoi l hwn with h | ⟨t, ht, _⟩
        · exact absurd h hne
        · rw [hE] at ht; cases ht
    | some t =>
      obtain ⟨hteoi, htearly, htacc, _⟩ := hv.wf.eoiT st t hE
      cases ha : (G.get t).accept with
      | none => rw [ha] at htacc; cases htacc
      | some l =>
        have hwin := hl.eoi_ok t hE l ha
        have hrec : record (G.get t) (k+1) c1 e1 = (some l, k) := by
          simp [record, htearly, ha]
        simp only [hrec]
        have hsz := hv.wf.size
        obtain ⟨n, hn⟩ : ∃ n, G.states.size = n + 1 := ⟨G.states.size - 1, by omega⟩
        rw [hn, atEoi]
        have hroot2 : (t == G.root && start == k + 1) = false := by
          have : (start == k + 1) = false := by simp; omega
          simp [this]
        simp only [Bool.and_false, hroot2, hteoi]
        refine ⟨k+1, some l, k, by simp, ?_, ?_⟩
        · simp [recOf, updC, hwin]
        · intro h; simp [updC, hwin] at h
  | cons b w' ih =>
    intro st Δ p k ctx tokEnd bestPrev hw hk hC he
    have hb : b < 256 := hw b (by simp)
    have hw' : ∀ x ∈ w', x < 256 := fun x hx => hw x (by simp [hx])
    have hl := hv.loc st Δ p hC
    have hpost := record_postC hl he (clsB b)
    simp only [walk, nextOf_cons]
    generalize hr : record (G.get st) k ctx tokEnd = r at hpost
    obtain ⟨c1, e1⟩ := r
    simp only at hpost ⊢
    cases hn : (G.get st).next b with
    | none =>
      have hdead := hl.noedge b hb hn
      simp only [scanC, hdead]
      refine ⟨k, c1, e1, rfl, ?_, fun _ => rfl⟩
      rcases hpost with h | ⟨l, hwn, hne⟩
      · exact h
      · rcases hl.win_byte b hb l hwn with h | ⟨t, ht, _⟩
        · exact absurd h hne
        · rw [hn] at ht; cases ht
    | some t =>
      obtain ⟨h1, h2, h3⟩ := hl.edge b hb t hn
      -- entry invariant for t
      have he' : EntryInv G t (k+1) c1 e1 (updC prios Δ p (clsB b) k bestPrev) := by
        unfold EntryInv
        cases ha : (G.get t).accept with
        | some l => simp [updC, h1 l ha]
        | none =>
          simp only
          rcases hpost with h | ⟨l, hwn, hne⟩
          · exact h
          · rcases hl.win_byte b hb l hwn with h | ⟨t2, ht2, ha2⟩
            · exact absurd h hne
            · rw [hn] at ht2; cases ht2; rw [ha] at ha2; cases ha2
      simp only
      cases hvd : V (derivVC p b Δ) (clsB b) with
      | true =>
        have := ih t (derivVC p b Δ) (clsB b) (k+1) c1 e1 (updC prios Δ p (clsB b) k bestPrev)
          hw' (by omega) h3 he'
        simpa only [scanC, hvd, if_true] using this
      | false =>
        simp only [scanC, hvd]
        obtain ⟨htE, hwalk⟩ := dead_stopsC hv h3 hvd start w' hw' (k+1) (by omega) c1 e1
        rw [hwalk]
        have hacc : (G.get t).accept.isSome = true := by
          rcases h2 with h2 | h2
          · rw [hvd] at h2; cases h2
          · exact h2
        cases ha : (G.get t).accept with
        | none => rw [ha] at hacc; cases hacc
        | some l =>
          have hwin := h1 l ha
          have hrec : record (G.get t) (k+1) c1 e1 = (some l, k) := by simp [record, htE, ha]
          rw [hrec]
          refine ⟨k+1, some l, k, rfl, ?_, ?_⟩
          · simp [recOf, updC, hwin]
          · intro h; simp [updC, hwin] at h

/-- reference attempt with look-around: the token start is preceded by the byte `inp[start-1]` (if any) -/
def scanAttemptC (V : VecL → Cls → Bool) (prios : List Nat) (D : VecL) (inp : List Nat) (start : Nat) : Attempt :=
  match inp.drop start with
  | [] => .eoi
  | rest =>
    match scanC V prios D (prevOf .none (inp.take start)) rest start none with
    | (some (e, l), _) => .matched l e
    | (none, off) => .nomatch off

def specLexC (V : VecL → Cls → Bool) (prios : List Nat) (D : VecL) (cb : Callbacks) (utf8 : Bool) (inp : List Nat) :=
  lexAll (scanAttemptC V prios D inp) cb utf8 inp

theorem attempt_eqC {G : Graph} {prios : List Nat} {D : VecL} {V : VecL → Cls → Bool}
    {C : Nat → VecL → Cls → Prop} (hv : ValidC G prios D V C) (inp : List Nat)
    (hb : ∀ b ∈ inp, b < 256) (start : Nat) :
    walkAttempt G false inp start = scanAttemptC V prios D inp start := by
  obtain ⟨hre, hra⟩ := hv.wf.rootNoRec
  have hrec : ∀ ctx te, record (G.get G.root) start ctx te = (ctx, te) := by
    intro ctx te; simp [record, hre, hra]
  have hbd : ∀ x ∈ inp.drop start, x < 256 := fun x hx => hb x (List.mem_of_mem_drop hx)
  unfold walkAttempt scanAttemptC
  generalize hp0 : prevOf .none (inp.take start) = p0
  cases hd : inp.drop start with
  | nil =>
    simp only [walk, hrec]
    rw [atEoi]
    simp [attemptOfStop]
  | cons b w =>
    rw [hd] at hbd
    have hb' : b < 256 := hbd b (by simp)
    have hw : ∀ x ∈ w, x < 256 := fun x hx => hbd x (by simp [hx])
    have hl := hv.loc _ _ _ (hv.root p0 (mem_allCls p0))
    simp only [walk, hrec]
    cases hn : (G.get G.root).next b with
    | none =>
      have hdead := hl.noedge b hb' hn
      simp [scanC, hdead, attemptOfStop]
    | some t =>
      obtain ⟨h1, h2, h3⟩ := hl.edge b hb' t hn
      have hacc : (G.get t).accept = none := by
        cases ha : (G.get t).accept with
        | none => rfl
        | some l =>
          have := h1 l ha
          rw [hv.noEmpty p0 (mem_allCls _) (clsB b) (mem_allCls _)] at this; cases this
      have hvd : V (derivVC p0 b D) (clsB b) = true := by
        rcases h2 with h2 | h2
        · exact h2
        · rw [hacc] at h2; cases h2
      have he : EntryInv G t (start+1) none start none := by
        unfold EntryInv; simp [hacc, recOf]
      obtain ⟨off, c, e, hwalk, hr, hoff⟩ :=
        walk_eq_scanC hv start w t (derivVC p0 b D) (clsB b) (start+1) none start none hw (by omega) h3 he
      simp only [scanC, hvd, if_true]
      rw [hwalk]
      generalize scanC V prios (derivVC p0 b D) (clsB b) w (start+1)
        (updC prios (derivVC p0 b D) (clsB b) (nextOf w .none) (start+1) none) = r at hr hoff
      obtain ⟨r1, r2⟩ := r
      simp only at hr hoff
      cases c with
      | none =>
        simp [recOf] at hr
        subst hr
        have := hoff rfl
        subst this
        simp [attemptOfStop]
      | some l =>
        simp [recOf] at hr
        subst hr
        simp [attemptOfStop]

/-- **C01/C02 with look-around.** If the certificate validates, the generated lexer yields for every
input exactly the items of the contextual reference lexer. -/
theorem lex_eq_specC {G : Graph} {prios : List Nat} {D : VecL} {V : VecL → Cls → Bool}
    {C : Nat → VecL → Cls → Prop} (hv : ValidC G prios D V C) (cb : Callbacks) (utf8 : Bool)
    (inp : List Nat) (hb : ∀ b ∈ inp, b < 256) :
    graphLex G false cb utf8 inp = specLexC V prios D cb utf8 inp := by
  have : walkAttempt G false inp = scanAttemptC V prios D inp :=
    funext fun s => attempt_eqC hv inp hb s
  unfold graphLex specLexC
  rw [this]

end Logos.LK
