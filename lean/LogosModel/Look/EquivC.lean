import LogosModel.Look.LiveCert
import Std.Data.HashSet
/-!
# Contextual language equivalence of two patterns with look-around (C10, C11)

`S` is a set of triples `(a, b, p)`: `a` and `b` are to be compared standing after a byte of class `p`.
It must contain `(normL r, normL s, p0)` for every start context, related patterns must be nullable in
exactly the same following contexts, and the triples must be closed under byte derivatives.
`equivCB_sound`: then `r` and `s` match exactly the same strings in every context.
-/
namespace Logos.LK

def equivCB (S : List (ReL × ReL × Cls)) (r s : ReL) : Bool :=
  bytesOKL r && bytesOKL s && allCls.all (fun p0 => S.contains (normL r, normL s, p0)) &&
  S.all fun x =>
    allCls.all (fun n => nullableC x.2.2 n x.1 == nullableC x.2.2 n x.2.1) &&
    (List.range 256).all fun c => S.contains (derivCN x.2.2 c x.1, derivCN x.2.2 c x.2.1, clsB c)

theorem equivCB_run {S : List (ReL × ReL × Cls)}
    (hall : ∀ x ∈ S, (∀ n, nullableC x.2.2 n x.1 = nullableC x.2.2 n x.2.1) ∧
      ∀ c, c < 256 → (derivCN x.2.2 c x.1, derivCN x.2.2 c x.2.1, clsB c) ∈ S) :
    ∀ (w : List Nat) {a b : ReL} {p : Cls}, (a, b, p) ∈ S → (∀ c ∈ w, c < 256) →
      ∀ n, (MatchesC a p w n ↔ MatchesC b p w n) := by
  intro w
  induction w with
  | nil =>
    intro a b p hmem _ n
    have hn := (hall _ hmem).1 n
    simp only at hn
    rw [← nullableC_iff, ← nullableC_iff, hn]
  | cons c w ih =>
    intro a b p hmem hlt n
    have hc : c < 256 := hlt c (by simp)
    have hd := (hall _ hmem).2 c hc
    simp only at hd
    rw [← derivCN_correct, ← derivCN_correct]
    exact ih hd (fun x hx => hlt x (by simp [hx])) n

theorem equivCB_sound {S : List (ReL × ReL × Cls)} {r s : ReL} (h : equivCB S r s = true) :
    ∀ p w n, MatchesC r p w n ↔ MatchesC s p w n := by
  simp only [equivCB, Bool.and_eq_true, List.all_eq_true] at h
  obtain ⟨⟨⟨hr, hs⟩, hstart⟩, hall⟩ := h
  have hstart' : ∀ p0, (normL r, normL s, p0) ∈ S := by
    intro p0
    have := hstart p0 (mem_allCls p0)
    simpa using this
  have hall' : ∀ x ∈ S, (∀ n, nullableC x.2.2 n x.1 = nullableC x.2.2 n x.2.1) ∧
      ∀ c, c < 256 → (derivCN x.2.2 c x.1, derivCN x.2.2 c x.2.1, clsB c) ∈ S := by
    intro x hx
    obtain ⟨h1, h2⟩ := hall x hx
    refine ⟨?_, ?_⟩
    · intro n
      have := h1 n (mem_allCls n)
      simpa using this
    · intro c hc
      have := h2 c (List.mem_range.2 hc)
      simpa using this
  intro p w n
  have key : (∀ c ∈ w, c < 256) → (MatchesC r p w n ↔ MatchesC s p w n) := by
    intro hlt
    have := equivCB_run hall' w (hstart' p) hlt n
    rwa [matches_normL, matches_normL] at this
  constructor
  · intro hm; exact (key (bytesOKL_matches hm hr)).1 hm
  · intro hm; exact (key (bytesOKL_matches hm hs)).2 hm

/-- hash-set version of the same check -/
def equivCBFast (S : List (ReL × ReL × Cls)) (r s : ReL) : Bool :=
  let H := Std.HashSet.ofList S
  bytesOKL r && bytesOKL s && allCls.all (fun p0 => H.contains (normL r, normL s, p0)) &&
  S.all fun x =>
    allCls.all (fun n => nullableC x.2.2 n x.1 == nullableC x.2.2 n x.2.1) &&
    (List.range 256).all fun c => H.contains (derivCN x.2.2 c x.1, derivCN x.2.2 c x.2.1, clsB c)

theorem equivCBFast_eq (S : List (ReL × ReL × Cls)) (r s : ReL) : equivCBFast S r s = equivCB S r s := by
  simp only [equivCBFast, equivCB, Std.HashSet.contains_ofList]

theorem equivCBFast_sound {S : List (ReL × ReL × Cls)} {r s : ReL} (h : equivCBFast S r s = true) :
    ∀ p w n, MatchesC r p w n ↔ MatchesC s p w n :=
  equivCB_sound (by rw [← equivCBFast_eq]; exact h)

/-- matching by derivatives in a context, executable -/
def matchesCBool (r : ReL) (p : Cls) (w : List Nat) (n : Cls) : Bool :=
  match w with
  | [] => nullableC p n r
  | c :: w' => matchesCBool (derivCN p c r) (clsB c) w' n

theorem matchesCBool_iff (r : ReL) (p : Cls) (w : List Nat) (n : Cls) :
    matchesCBool r p w n = true ↔ MatchesC r p w n := by
  induction w generalizing r p with
  | nil => simpa [matchesCBool] using nullableC_iff r p n
  | cons c w ih =>
    have : matchesCBool r p (c :: w) n = matchesCBool (derivCN p c r) (clsB c) w n := by
      simp [matchesCBool]
    rw [this, ih, derivCN_correct]

end Logos.LK
