import LogosModel.HirSem
import LogosModel.Look.NormL
/-!
# Lowering of HIR with look-around assertions, and its declarative meaning

`lookOfCode` decodes `regex_syntax::hir::Look::as_repr()` as written by the capture hook.  The
Unicode word-boundary assertions have no code here: regex-automata's DFA builder rejects them, so a
definition using one is never accepted.  `Hir.lowerL` is `Hir.lower` with `.look` kept; `HMatchesC` is
the contextual version of `HMatches` (the plainest statement of when a pattern matches a byte string
standing between a byte of class `p` and a byte of class `n`).

* `lowerL_correct_wf`: the lowering denotes exactly `HMatchesC`;
* `hmatchesC_lookfree`: on look-free patterns the contextual semantics is the context-free one, so
  (`lowerL_lookfree`) the look-around model is a conservative extension of the look-free model.
-/
namespace Logos.LK
open Logos

def lookOfCode : Nat → Option Look
  | 1 => some .start
  | 2 => some .end
  | 4 => some .startLF
  | 8 => some .endLF
  | 16 => some .startCRLF
  | 32 => some .endCRLF
  | 64 => some .word
  | 128 => some .wordNeg
  | 1024 => some .wordStart
  | 2048 => some .wordEnd
  | 16384 => some .wordStartHalf
  | 32768 => some .wordEndHalf
  | _ => none

def powReL (r : ReL) : Nat → ReL
  | 0 => .eps
  | n+1 => mkCatN r (powReL r n)

def litReL (bs : List Nat) : ReL := bs.foldr (fun b acc => mkCatN (.set [(b, b)]) acc) .eps

def seqReL (s : List (Nat × Nat)) : ReL := s.foldr (fun r acc => mkCatN (.set [r]) acc) .eps

def seqsReL (ss : List (List (Nat × Nat))) : ReL := ss.foldr (fun s acc => mkAltN (seqReL s) acc) .empty

mutual
/-- every look-around assertion of the tree is one the DFA supports -/
def looksOK : Hir → Bool
  | .look k => (lookOfCode k).isSome
  | .rep _ _ _ s => looksOK s
  | .cap s => looksOK s
  | .cat ss => looksOKL ss
  | .alt ss => looksOKL ss
  | _ => true
def looksOKL : List Hir → Bool
  | [] => true
  | h :: t => looksOK h && looksOKL t
end

mutual
def lowerL : Hir → ReL
  | .empty => .eps
  | .lit bs => litReL bs
  | .cls _ _ seqs => seqsReL seqs
  | .look k => match lookOfCode k with
    | some l => .look l
    | none => .empty
  | .rep mn mx _ s =>
    let r := lowerL s
    match mx with
    | some m => mkCatN (powReL r mn) (powReL (mkAltN .eps r) (m - mn))
    | none => mkCatN (powReL r mn) (.star r)
  | .cap s => lowerL s
  | .cat ss => lowerCatL ss
  | .alt ss => lowerAltL ss
def lowerCatL : List Hir → ReL
  | [] => .eps
  | h :: t => mkCatN (lowerL h) (lowerCatL t)
def lowerAltL : List Hir → ReL
  | [] => .empty
  | h :: t => mkAltN (lowerL h) (lowerAltL t)
end

/-! ## contextual declarative semantics -/

mutual
inductive HMatchesC : Hir → Cls → List Nat → Cls → Prop
  | empty {p n} : HMatchesC .empty p [] n
  | lit {bs : List Nat} {p n} : HMatchesC (.lit bs) p bs n
  | cls {u : Bool} {rs : List (Nat × Nat)} {seqs : List (List (Nat × Nat))} {s : List (Nat × Nat)} {w : List Nat} {p n} :
      s ∈ seqs → SeqMatches s w → HMatchesC (.cls u rs seqs) p w n
  | look {k : Nat} {l : Look} {p n} : lookOfCode k = some l → lookHolds l p n = true → HMatchesC (.look k) p [] n
  | rep {mn : Nat} {mx : Option Nat} {g : Bool} {s : Hir} {ws : List (List Nat)} {p n} :
      HMatchesAllC s p ws n → mn ≤ ws.length → (∀ m, mx = some m → ws.length ≤ m) →
      HMatchesC (.rep mn mx g s) p ws.flatten n
  | cap {s : Hir} {w : List Nat} {p n} : HMatchesC s p w n → HMatchesC (.cap s) p w n
  | cat {ss : List Hir} {w : List Nat} {p n} : HMatchesCatC ss p w n → HMatchesC (.cat ss) p w n
  | alt {ss : List Hir} {s : Hir} {w : List Nat} {p n} : s ∈ ss → HMatchesC s p w n → HMatchesC (.alt ss) p w n
/-- consecutive pieces each matched by `s`, every piece seeing its real neighbours -/
inductive HMatchesAllC : Hir → Cls → List (List Nat) → Cls → Prop
  | nil {s : Hir} {p n} : HMatchesAllC s p [] n
  | cons {s : Hir} {w : List Nat} {ws : List (List Nat)} {p n} :
      HMatchesC s p w (nextOf ws.flatten n) → HMatchesAllC s (prevOf p w) ws n → HMatchesAllC s p (w :: ws) n
/-- `w` splits into consecutive pieces matched by the patterns of the list in order -/
inductive HMatchesCatC : List Hir → Cls → List Nat → Cls → Prop
  | nil {p n} : HMatchesCatC [] p [] n
  | cons {s : Hir} {ss : List Hir} {u v : List Nat} {p n} :
      HMatchesC s p u (nextOf v n) → HMatchesCatC ss (prevOf p u) v n → HMatchesCatC (s :: ss) p (u ++ v) n
end

/-! ## Building blocks (contexts are irrelevant for byte sets) -/

theorem matchesC_set_single {lo hi : Nat} {w : List Nat} {p n : Cls} :
    MatchesC (.set [(lo, hi)]) p w n ↔ ∃ b, w = [b] ∧ lo ≤ b ∧ b ≤ hi := by
  constructor
  · intro h
    cases h with
    | set hb =>
      simp [inRanges] at hb
      exact ⟨_, rfl, hb⟩
  · rintro ⟨b, rfl, h1, h2⟩
    exact .set (by simp [inRanges, h1, h2])

theorem matchesC_eps_iff {w : List Nat} {p n : Cls} : MatchesC .eps p w n ↔ w = [] := by
  constructor
  · intro h; cases h; rfl
  · rintro rfl; exact .eps

theorem matchesC_look_iff {l : Look} {w : List Nat} {p n : Cls} :
    MatchesC (.look l) p w n ↔ w = [] ∧ lookHolds l p n = true := by
  constructor
  · intro h; cases h with | look h => exact ⟨rfl, h⟩
  · rintro ⟨rfl, h⟩; exact .look h

theorem matches_seqReL (s : List (Nat × Nat)) (w : List Nat) (p n : Cls) :
    MatchesC (seqReL s) p w n ↔ SeqMatches s w := by
  induction s generalizing w p n with
  | nil =>
    show MatchesC .eps p w n ↔ _
    rw [matchesC_eps_iff]
    cases w with
    | nil => simp [SeqMatches]
    | cons b w => simp [SeqMatches]
  | cons r s ih =>
    obtain ⟨lo, hi⟩ := r
    show MatchesC (mkCatN (.set [(lo, hi)]) (seqReL s)) p w n ↔ _
    rw [matches_mkCatN, matchesC_cat_iff]
    constructor
    · rintro ⟨u, v, rfl, h1, h2⟩
      obtain ⟨b, rfl, hlo, hhi⟩ := matchesC_set_single.1 h1
      show SeqMatches ((lo, hi) :: s) (b :: v)
      simp only [SeqMatches]
      exact ⟨hlo, hhi, (ih v _ _).1 h2⟩
    · intro h
      cases w with
      | nil => simp [SeqMatches] at h
      | cons b w =>
        simp only [SeqMatches] at h
        exact ⟨[b], w, rfl, matchesC_set_single.2 ⟨b, rfl, h.1, h.2.1⟩, (ih w _ _).2 h.2.2⟩

theorem matches_seqsReL (ss : List (List (Nat × Nat))) (w : List Nat) (p n : Cls) :
    MatchesC (seqsReL ss) p w n ↔ ∃ s, s ∈ ss ∧ SeqMatches s w := by
  induction ss with
  | nil =>
    show MatchesC .empty p w n ↔ _
    constructor
    · intro h; cases h
    · rintro ⟨s, hs, _⟩; cases hs
  | cons s ss ih =>
    show MatchesC (mkAltN (seqReL s) (seqsReL ss)) p w n ↔ _
    rw [matches_mkAltN, ih, matches_seqReL]
    constructor
    · rintro (h | ⟨s', hs', h⟩)
      · exact ⟨s, List.mem_cons_self, h⟩
      · exact ⟨s', List.mem_cons_of_mem _ hs', h⟩
    · rintro ⟨s', hs', h⟩
      rcases List.mem_cons.1 hs' with rfl | hs'
      · exact .inl h
      · exact .inr ⟨s', hs', h⟩

theorem matches_litReL (bs w : List Nat) (p n : Cls) : MatchesC (litReL bs) p w n ↔ w = bs := by
  induction bs generalizing w p n with
  | nil =>
    show MatchesC .eps p w n ↔ w = []
    exact matchesC_eps_iff
  | cons b bs ih =>
    show MatchesC (mkCatN (.set [(b, b)]) (litReL bs)) p w n ↔ w = b :: bs
    rw [matches_mkCatN, matchesC_cat_iff]
    constructor
    · rintro ⟨u, v', rfl, h1, h2⟩
      rw [ih] at h2
      subst h2
      obtain ⟨c, rfl, h3, h4⟩ := matchesC_set_single.1 h1
      have : c = b := Nat.le_antisymm h4 h3
      subst this; rfl
    · rintro rfl
      exact ⟨[b], bs, rfl, matchesC_set_single.2 ⟨b, rfl, Nat.le_refl _, Nat.le_refl _⟩,
        (ih bs _ _).2 rfl⟩

/-! ## Chains of consecutive pieces -/

/-- consecutive pieces each matched by `r`, every piece seeing its real neighbours -/
def AllC (r : ReL) : Cls → List (List Nat) → Cls → Prop
  | _, [], _ => True
  | p, w :: ws, n => MatchesC r p w (nextOf ws.flatten n) ∧ AllC r (prevOf p w) ws n

theorem allC_nil (r : ReL) (p n : Cls) : AllC r p [] n ↔ True := by simp [AllC]

theorem allC_cons (r : ReL) (p n : Cls) (w : List Nat) (ws : List (List Nat)) :
    AllC r p (w :: ws) n ↔ MatchesC r p w (nextOf ws.flatten n) ∧ AllC r (prevOf p w) ws n := by
  simp [AllC]

theorem allC_append (r : ReL) (p n : Cls) (ws1 ws2 : List (List Nat)) :
    AllC r p (ws1 ++ ws2) n ↔
      AllC r p ws1 (nextOf ws2.flatten n) ∧ AllC r (prevOf p ws1.flatten) ws2 n := by
  induction ws1 generalizing p with
  | nil => simp [AllC]
  | cons w ws1 ih =>
    rw [List.cons_append, allC_cons, allC_cons, ih, List.flatten_append, nextOf_append,
      List.flatten_cons, prevOf_append, and_assoc]

theorem matches_powReL (r : ReL) (k : Nat) (w : List Nat) (p n : Cls) :
    MatchesC (powReL r k) p w n ↔
      ∃ ws : List (List Nat), ws.length = k ∧ w = ws.flatten ∧ AllC r p ws n := by
  induction k generalizing w p n with
  | zero =>
    show MatchesC .eps p w n ↔ _
    rw [matchesC_eps_iff]
    constructor
    · rintro rfl; exact ⟨[], rfl, rfl, trivial⟩
    · rintro ⟨ws, hl, rfl, _⟩
      have : ws = [] := List.eq_nil_of_length_eq_zero hl
      subst this; rfl
  | succ k ih =>
    show MatchesC (mkCatN r (powReL r k)) p w n ↔ _
    rw [matches_mkCatN, matchesC_cat_iff]
    constructor
    · rintro ⟨u, v, rfl, h1, h2⟩
      obtain ⟨ws, hl, rfl, hall⟩ := (ih v _ _).1 h2
      exact ⟨u :: ws, by simp [hl], by simp, (allC_cons _ _ _ _ _).2 ⟨h1, hall⟩⟩
    · rintro ⟨ws, hl, rfl, hall⟩
      cases ws with
      | nil => simp at hl
      | cons u ws =>
        simp at hl
        rw [allC_cons] at hall
        exact ⟨u, ws.flatten, by simp, hall.1, (ih _ _ _).2 ⟨ws, hl, rfl, hall.2⟩⟩

theorem matches_powOptL (r : ReL) (k : Nat) (w : List Nat) (p n : Cls) :
    MatchesC (powReL (mkAltN .eps r) k) p w n ↔
      ∃ ws : List (List Nat), ws.length ≤ k ∧ w = ws.flatten ∧ AllC r p ws n := by
  induction k generalizing w p n with
  | zero =>
    show MatchesC .eps p w n ↔ _
    rw [matchesC_eps_iff]
    constructor
    · rintro rfl; exact ⟨[], Nat.le_refl _, rfl, trivial⟩
    · rintro ⟨ws, hl, rfl, _⟩
      have : ws = [] := List.eq_nil_of_length_eq_zero (Nat.le_zero.1 hl)
      subst this; rfl
  | succ k ih =>
    show MatchesC (mkCatN (mkAltN .eps r) (powReL (mkAltN .eps r) k)) p w n ↔ _
    rw [matches_mkCatN, matchesC_cat_iff]
    constructor
    · rintro ⟨u, v, rfl, h1, h2⟩
      obtain ⟨ws, hl, rfl, hall⟩ := (ih v _ _).1 h2
      rcases matches_mkAltN.1 h1 with h1 | h1
      · cases h1
        exact ⟨ws, Nat.le_succ_of_le hl, by simp, by simpa using hall⟩
      · exact ⟨u :: ws, by simp; omega, by simp, (allC_cons _ _ _ _ _).2 ⟨h1, hall⟩⟩
    · rintro ⟨ws, hl, rfl, hall⟩
      cases ws with
      | nil =>
        exact ⟨[], [], rfl, matches_mkAltN.2 (.inl .eps),
          (ih _ _ _).2 ⟨[], Nat.zero_le _, rfl, trivial⟩⟩
      | cons u ws =>
        simp at hl
        rw [allC_cons] at hall
        exact ⟨u, ws.flatten, by simp, matches_mkAltN.2 (.inr hall.1),
          (ih _ _ _).2 ⟨ws, hl, rfl, hall.2⟩⟩

theorem matches_starL (r : ReL) (w : List Nat) (p n : Cls) :
    MatchesC (.star r) p w n ↔ ∃ ws : List (List Nat), w = ws.flatten ∧ AllC r p ws n := by
  constructor
  · intro h
    generalize hr : ReL.star r = q at h
    induction h with
    | starNil => exact ⟨[], rfl, trivial⟩
    | @starCons a' u v p' n' h1 hne h2 _ ih2 =>
      cases hr
      obtain ⟨ws, rfl, hall⟩ := ih2 rfl
      exact ⟨u :: ws, by simp, (allC_cons _ _ _ _ _).2 ⟨h1, hall⟩⟩
    | eps => cases hr
    | set _ => cases hr
    | look _ => cases hr
    | cat _ _ => cases hr
    | altL _ => cases hr
    | altR _ => cases hr
  · rintro ⟨ws, rfl, hall⟩
    induction ws generalizing p with
    | nil => exact .starNil
    | cons u ws ih =>
      rw [allC_cons] at hall
      have ih' := ih _ hall.2
      by_cases hu : u = []
      · subst hu; simpa using ih'
      · rw [List.flatten_cons]
        exact .starCons hall.1 hu ih'

/-- language of the lowering of a bounded / unbounded repetition, for well-formed bounds -/
theorem matches_repReL (r : ReL) (mn : Nat) (mx : Option Nat) (hb : ∀ m, mx = some m → mn ≤ m)
    (w : List Nat) (p n : Cls) :
    MatchesC (match (generalizing := false) mx with
      | some m => mkCatN (powReL r mn) (powReL (mkAltN .eps r) (m - mn))
      | none => mkCatN (powReL r mn) (.star r)) p w n ↔
      ∃ ws : List (List Nat), AllC r p ws n ∧ mn ≤ ws.length ∧
        (∀ m, mx = some m → ws.length ≤ m) ∧ w = ws.flatten := by
  cases mx with
  | none =>
    show MatchesC (mkCatN (powReL r mn) (.star r)) p w n ↔ _
    rw [matches_mkCatN, matchesC_cat_iff]
    constructor
    · rintro ⟨u, v, rfl, h1, h2⟩
      obtain ⟨us, hl, rfl, hu⟩ := (matches_powReL r mn u _ _).1 h1
      obtain ⟨vs, rfl, hv⟩ := (matches_starL r v _ _).1 h2
      exact ⟨us ++ vs, (allC_append _ _ _ _ _).2 ⟨hu, hv⟩, by simp; omega, by simp, by simp⟩
    · rintro ⟨ws, hall, hmn, _, rfl⟩
      rw [← List.take_append_drop mn ws, allC_append] at hall
      refine ⟨(ws.take mn).flatten, (ws.drop mn).flatten, ?_, ?_, ?_⟩
      · rw [← List.flatten_append, List.take_append_drop]
      · exact (matches_powReL r mn _ _ _).2 ⟨ws.take mn, by simp; omega, rfl, hall.1⟩
      · exact (matches_starL r _ _ _).2 ⟨ws.drop mn, rfl, hall.2⟩
  | some m =>
    have hmn : mn ≤ m := hb m rfl
    show MatchesC (mkCatN (powReL r mn) (powReL (mkAltN .eps r) (m - mn))) p w n ↔ _
    rw [matches_mkCatN, matchesC_cat_iff]
    constructor
    · rintro ⟨u, v, rfl, h1, h2⟩
      obtain ⟨us, hl, rfl, hu⟩ := (matches_powReL r mn u _ _).1 h1
      obtain ⟨vs, hlv, rfl, hv⟩ := (matches_powOptL r (m - mn) v _ _).1 h2
      refine ⟨us ++ vs, (allC_append _ _ _ _ _).2 ⟨hu, hv⟩, by simp; omega, ?_, by simp⟩
      intro m' hm'
      cases hm'
      simp; omega
    · rintro ⟨ws, hall, hmn', hmx, rfl⟩
      have hmx' := hmx m rfl
      rw [← List.take_append_drop mn ws, allC_append] at hall
      refine ⟨(ws.take mn).flatten, (ws.drop mn).flatten, ?_, ?_, ?_⟩
      · rw [← List.flatten_append, List.take_append_drop]
      · exact (matches_powReL r mn _ _ _).2 ⟨ws.take mn, by simp; omega, rfl, hall.1⟩
      · exact (matches_powOptL r (m - mn) _ _ _).2 ⟨ws.drop mn, by simp; omega, rfl, hall.2⟩

/-! ## Inversion lemmas for the contextual declarative semantics -/

theorem hmatchesC_empty_iff {w : List Nat} {p n : Cls} : HMatchesC .empty p w n ↔ w = [] := by
  constructor
  · intro h; cases h; rfl
  · rintro rfl; exact .empty

theorem hmatchesC_lit_iff {bs w : List Nat} {p n : Cls} : HMatchesC (.lit bs) p w n ↔ w = bs := by
  constructor
  · intro h; cases h; rfl
  · rintro rfl; exact .lit

theorem hmatchesC_cls_iff {u : Bool} {rs : List (Nat × Nat)} {seqs : List (List (Nat × Nat))}
    {w : List Nat} {p n : Cls} :
    HMatchesC (.cls u rs seqs) p w n ↔ ∃ s, s ∈ seqs ∧ SeqMatches s w := by
  constructor
  · intro h; cases h with | cls h1 h2 => exact ⟨_, h1, h2⟩
  · rintro ⟨s, h1, h2⟩; exact .cls h1 h2

theorem hmatchesC_look_iff {k : Nat} {w : List Nat} {p n : Cls} :
    HMatchesC (.look k) p w n ↔ ∃ l, lookOfCode k = some l ∧ w = [] ∧ lookHolds l p n = true := by
  constructor
  · intro h; cases h with | look h1 h2 => exact ⟨_, h1, rfl, h2⟩
  · rintro ⟨l, h1, rfl, h2⟩; exact .look h1 h2

theorem hmatchesC_rep_iff {mn : Nat} {mx : Option Nat} {g : Bool} {s : Hir} {w : List Nat}
    {p n : Cls} :
    HMatchesC (.rep mn mx g s) p w n ↔
      ∃ ws : List (List Nat), HMatchesAllC s p ws n ∧ mn ≤ ws.length ∧
        (∀ m, mx = some m → ws.length ≤ m) ∧ w = ws.flatten := by
  constructor
  · intro h
    cases h with
    | rep h1 h2 h3 => exact ⟨_, h1, h2, h3, rfl⟩
  · rintro ⟨ws, h1, h2, h3, rfl⟩
    exact .rep h1 h2 h3

theorem hmatchesC_cap_iff {s : Hir} {w : List Nat} {p n : Cls} :
    HMatchesC (.cap s) p w n ↔ HMatchesC s p w n := by
  constructor
  · intro h; cases h with | cap h => exact h
  · exact .cap

theorem hmatchesC_cat_iff {ss : List Hir} {w : List Nat} {p n : Cls} :
    HMatchesC (.cat ss) p w n ↔ HMatchesCatC ss p w n := by
  constructor
  · intro h; cases h with | cat h => exact h
  · exact .cat

theorem hmatchesC_alt_iff {ss : List Hir} {w : List Nat} {p n : Cls} :
    HMatchesC (.alt ss) p w n ↔ ∃ s, s ∈ ss ∧ HMatchesC s p w n := by
  constructor
  · intro h; cases h with | alt h1 h2 => exact ⟨_, h1, h2⟩
  · rintro ⟨s, h1, h2⟩; exact .alt h1 h2

theorem hmatchesCatC_nil_iff {w : List Nat} {p n : Cls} : HMatchesCatC [] p w n ↔ w = [] := by
  constructor
  · intro h; cases h; rfl
  · rintro rfl; exact .nil

theorem hmatchesCatC_cons_iff {s : Hir} {ss : List Hir} {w : List Nat} {p n : Cls} :
    HMatchesCatC (s :: ss) p w n ↔
      ∃ u v, w = u ++ v ∧ HMatchesC s p u (nextOf v n) ∧ HMatchesCatC ss (prevOf p u) v n := by
  constructor
  · intro h; cases h with | cons h1 h2 => exact ⟨_, _, rfl, h1, h2⟩
  · rintro ⟨u, v, rfl, h1, h2⟩; exact .cons h1 h2

theorem hmatchesAllC_nil_iff {s : Hir} {p n : Cls} : HMatchesAllC s p [] n ↔ True := by
  constructor
  · intro _; trivial
  · intro _; exact .nil

theorem hmatchesAllC_cons_iff {s : Hir} {w : List Nat} {ws : List (List Nat)} {p n : Cls} :
    HMatchesAllC s p (w :: ws) n ↔
      HMatchesC s p w (nextOf ws.flatten n) ∧ HMatchesAllC s (prevOf p w) ws n := by
  constructor
  · intro h; cases h with | cons h1 h2 => exact ⟨h1, h2⟩
  · rintro ⟨h1, h2⟩; exact .cons h1 h2

theorem allC_iff_hmatchesAllC {r : ReL} {s : Hir}
    (ih : ∀ p w n, MatchesC r p w n ↔ HMatchesC s p w n) (p n : Cls) (ws : List (List Nat)) :
    AllC r p ws n ↔ HMatchesAllC s p ws n := by
  induction ws generalizing p with
  | nil => rw [allC_nil, hmatchesAllC_nil_iff]
  | cons w ws ihw => rw [allC_cons, hmatchesAllC_cons_iff, ih, ihw]

theorem hmatchesAllC_iff_hmatchesAll {s : Hir}
    (ih : ∀ p w n, HMatchesC s p w n ↔ HMatches s w) (p n : Cls) (ws : List (List Nat)) :
    HMatchesAllC s p ws n ↔ HMatchesAll s ws := by
  induction ws generalizing p with
  | nil =>
    rw [hmatchesAllC_nil_iff]
    constructor
    · intro _; exact .nil
    · intro _; trivial
  | cons w ws ihw =>
    rw [hmatchesAllC_cons_iff, ih, ihw]
    constructor
    · rintro ⟨h1, h2⟩; exact .cons h1 h2
    · intro h; cases h with | cons h1 h2 => exact ⟨h1, h2⟩

/-! ## The main theorems -/

mutual
theorem lowerL_correct_aux (h : Hir) (hr : h.repOK = true) (p n : Cls) (w : List Nat) :
    MatchesC (lowerL h) p w n ↔ HMatchesC h p w n := by
  match h with
  | .empty =>
    simp only [lowerL]
    rw [hmatchesC_empty_iff, matchesC_eps_iff]
  | .lit bs =>
    simp only [lowerL]
    rw [hmatchesC_lit_iff, matches_litReL]
  | .cls _ _ seqs =>
    simp only [lowerL]
    rw [hmatchesC_cls_iff, matches_seqsReL]
  | .look k =>
    simp only [lowerL]
    rw [hmatchesC_look_iff]
    cases hk : lookOfCode k with
    | none =>
      simp only
      constructor
      · intro h; cases h
      · rintro ⟨l, hl, _⟩; cases hl
    | some l =>
      simp only
      rw [matchesC_look_iff]
      constructor
      · rintro ⟨h1, h2⟩; exact ⟨l, rfl, h1, h2⟩
      · rintro ⟨l', hl, h1, h2⟩; cases hl; exact ⟨h1, h2⟩
  | .rep mn mx g s =>
    simp only [Hir.repOK, Bool.and_eq_true] at hr
    have ih : ∀ p w n, MatchesC (lowerL s) p w n ↔ HMatchesC s p w n :=
      fun p w n => lowerL_correct_aux s hr.2 p n w
    have hb : ∀ m, mx = some m → mn ≤ m := by
      intro m hm; subst hm; simpa using hr.1
    simp only [lowerL]
    refine Iff.trans (matches_repReL (lowerL s) mn mx hb w p n) ?_
    rw [hmatchesC_rep_iff]
    constructor
    · rintro ⟨ws, h1, h2⟩; exact ⟨ws, (allC_iff_hmatchesAllC ih p n ws).1 h1, h2⟩
    · rintro ⟨ws, h1, h2⟩; exact ⟨ws, (allC_iff_hmatchesAllC ih p n ws).2 h1, h2⟩
  | .cap s =>
    simp only [Hir.repOK] at hr
    simp only [lowerL]
    rw [hmatchesC_cap_iff]
    exact lowerL_correct_aux s hr p n w
  | .cat ss =>
    simp only [Hir.repOK] at hr
    simp only [lowerL]
    rw [hmatchesC_cat_iff]
    exact lowerCatL_correct_wf ss hr p n w
  | .alt ss =>
    simp only [Hir.repOK] at hr
    simp only [lowerL]
    rw [hmatchesC_alt_iff]
    exact lowerAltL_correct_wf ss hr p n w
theorem lowerCatL_correct_wf (ss : List Hir) (hr : Hir.repOKL ss = true) (p n : Cls) (w : List Nat) :
    MatchesC (lowerCatL ss) p w n ↔ HMatchesCatC ss p w n := by
  match ss with
  | [] =>
    simp only [lowerCatL]
    rw [hmatchesCatC_nil_iff, matchesC_eps_iff]
  | h :: t =>
    simp only [Hir.repOKL, Bool.and_eq_true] at hr
    simp only [lowerCatL]
    rw [matches_mkCatN, matchesC_cat_iff, hmatchesCatC_cons_iff]
    constructor
    · rintro ⟨u, v, rfl, h1, h2⟩
      exact ⟨u, v, rfl, (lowerL_correct_aux h hr.1 _ _ u).1 h1, (lowerCatL_correct_wf t hr.2 _ _ v).1 h2⟩
    · rintro ⟨u, v, rfl, h1, h2⟩
      exact ⟨u, v, rfl, (lowerL_correct_aux h hr.1 _ _ u).2 h1, (lowerCatL_correct_wf t hr.2 _ _ v).2 h2⟩
theorem lowerAltL_correct_wf (ss : List Hir) (hr : Hir.repOKL ss = true) (p n : Cls) (w : List Nat) :
    MatchesC (lowerAltL ss) p w n ↔ ∃ s, s ∈ ss ∧ HMatchesC s p w n := by
  match ss with
  | [] =>
    simp only [lowerAltL]
    constructor
    · intro h; cases h
    · rintro ⟨s, hs, _⟩; cases hs
  | h :: t =>
    simp only [Hir.repOKL, Bool.and_eq_true] at hr
    simp only [lowerAltL]
    rw [matches_mkAltN, lowerL_correct_aux h hr.1 p n w, lowerAltL_correct_wf t hr.2 p n w]
    constructor
    · rintro (h1 | ⟨s, hs, h1⟩)
      · exact ⟨h, List.mem_cons_self, h1⟩
      · exact ⟨s, List.mem_cons_of_mem _ hs, h1⟩
    · rintro ⟨s, hs, h1⟩
      rcases List.mem_cons.1 hs with rfl | hs
      · exact .inl h1
      · exact .inr ⟨s, hs, h1⟩
end

mutual
theorem hmatchesC_lookfree_aux (h : Hir) (hl : h.hasLook = false) (p n : Cls) (w : List Nat) :
    HMatchesC h p w n ↔ HMatches h w := by
  match h with
  | .empty => rw [hmatchesC_empty_iff, hmatches_empty_iff]
  | .lit bs => rw [hmatchesC_lit_iff, hmatches_lit_iff]
  | .cls _ _ seqs => rw [hmatchesC_cls_iff, hmatches_cls_iff]
  | .look _ => simp [Hir.hasLook] at hl
  | .rep mn mx g s =>
    simp only [Hir.hasLook] at hl
    have ih : ∀ p w n, HMatchesC s p w n ↔ HMatches s w :=
      fun p w n => hmatchesC_lookfree_aux s hl p n w
    rw [hmatchesC_rep_iff, hmatches_rep_iff]
    constructor
    · rintro ⟨ws, h1, h2⟩
      exact ⟨ws, (hmatchesAll_iff _ _).1 ((hmatchesAllC_iff_hmatchesAll ih p n ws).1 h1), h2⟩
    · rintro ⟨ws, h1, h2⟩
      exact ⟨ws, (hmatchesAllC_iff_hmatchesAll ih p n ws).2 ((hmatchesAll_iff _ _).2 h1), h2⟩
  | .cap s =>
    simp only [Hir.hasLook] at hl
    rw [hmatchesC_cap_iff, hmatches_cap_iff]
    exact hmatchesC_lookfree_aux s hl p n w
  | .cat ss =>
    simp only [Hir.hasLook] at hl
    rw [hmatchesC_cat_iff, hmatches_cat_iff]
    exact hmatchesCatC_lookfree ss hl p n w
  | .alt ss =>
    simp only [Hir.hasLook] at hl
    rw [hmatchesC_alt_iff, hmatches_alt_iff]
    exact hmatchesAltC_lookfree ss hl p n w
theorem hmatchesCatC_lookfree (ss : List Hir) (hl : Hir.hasLookL ss = false) (p n : Cls)
    (w : List Nat) : HMatchesCatC ss p w n ↔ HMatchesCat ss w := by
  match ss with
  | [] => rw [hmatchesCatC_nil_iff, hmatchesCat_nil_iff]
  | h :: t =>
    simp only [Hir.hasLookL, Bool.or_eq_false_iff] at hl
    rw [hmatchesCatC_cons_iff, hmatchesCat_cons_iff]
    constructor
    · rintro ⟨u, v, rfl, h1, h2⟩
      exact ⟨u, v, rfl, (hmatchesC_lookfree_aux h hl.1 _ _ u).1 h1,
        (hmatchesCatC_lookfree t hl.2 _ _ v).1 h2⟩
    · rintro ⟨u, v, rfl, h1, h2⟩
      exact ⟨u, v, rfl, (hmatchesC_lookfree_aux h hl.1 _ _ u).2 h1,
        (hmatchesCatC_lookfree t hl.2 _ _ v).2 h2⟩
theorem hmatchesAltC_lookfree (ss : List Hir) (hl : Hir.hasLookL ss = false) (p n : Cls)
    (w : List Nat) : (∃ s, s ∈ ss ∧ HMatchesC s p w n) ↔ ∃ s, s ∈ ss ∧ HMatches s w := by
  match ss with
  | [] =>
    constructor
    · rintro ⟨s, hs, _⟩; cases hs
    · rintro ⟨s, hs, _⟩; cases hs
  | h :: t =>
    simp only [Hir.hasLookL, Bool.or_eq_false_iff] at hl
    have ih1 := hmatchesC_lookfree_aux h hl.1 p n w
    have ih2 := hmatchesAltC_lookfree t hl.2 p n w
    constructor
    · rintro ⟨s, hs, h1⟩
      rcases List.mem_cons.1 hs with rfl | hs
      · exact ⟨s, List.mem_cons_self, ih1.1 h1⟩
      · obtain ⟨s', hs', h'⟩ := ih2.1 ⟨s, hs, h1⟩
        exact ⟨s', List.mem_cons_of_mem _ hs', h'⟩
    · rintro ⟨s, hs, h1⟩
      rcases List.mem_cons.1 hs with rfl | hs
      · exact ⟨s, List.mem_cons_self, ih1.2 h1⟩
      · obtain ⟨s', hs', h'⟩ := ih2.2 ⟨s, hs, h1⟩
        exact ⟨s', List.mem_cons_of_mem _ hs', h'⟩
end

/-- **The contextual lowering is correct.** -/
theorem lowerL_correct_wf (h : Hir) (hr : h.repOK = true) (p n : Cls) (w : List Nat) :
    MatchesC (lowerL h) p w n ↔ HMatchesC h p w n :=
  lowerL_correct_aux h hr p n w

/-- On a look-free pattern the context plays no role. -/
theorem hmatchesC_lookfree (h : Hir) (hl : h.hasLook = false) (p n : Cls) (w : List Nat) :
    HMatchesC h p w n ↔ HMatches h w :=
  hmatchesC_lookfree_aux h hl p n w

/-- **Conservative extension**: for look-free patterns the look-around model and the look-free model
(`Hir.lower`, used by every look-free theorem) have the same language. -/
theorem lowerL_lookfree (h : Hir) (hl : h.hasLook = false) (hr : h.repOK = true) (p n : Cls) (w : List Nat) :
    MatchesC (lowerL h) p w n ↔ Matches h.lower w := by
  rw [lowerL_correct_wf h hr, hmatchesC_lookfree h hl, lower_correct_wf h hl hr]

end Logos.LK
