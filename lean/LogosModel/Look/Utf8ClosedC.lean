import LogosModel.Theorems.LexingLook
import LogosModel.Utf8Proof
import LogosModel.Utf8Closed
import LogosModel.FastCheck
import Std.Data.HashSet
/-!
# C04 for definitions with look-around assertions

`utf8ClosedCB`: product of the contextual derivatives of a pattern with the UTF-8 framing automaton,
over triples (framing state, class of the last byte read, derivative).  Viability of a derivative is
over-approximated by "is not the empty regex" (the check is sound, not complete: a definition it cannot
certify is reported as undecided, never as closed).
-/
namespace Logos.LK
open Logos

abbrev UEntry := U × Cls × ReL

def stepOKC (S : List UEntry) (q : U) (p : Cls) (x : ReL) : Bool :=
  (allCls.all fun n => !nullableC p n x || q == .s0) &&
  (List.range 256).all fun b =>
    derivCN p b x == .empty || S.contains (ustep q b, clsB b, derivCN p b x)

/-- every start context is in `S`, and `S` is closed under the steps that can still lead to a match -/
def utf8ClosedCB (S : List UEntry) (r : ReL) : Bool :=
  bytesOKL r && (allCls.all fun p => S.contains (.s0, p, normL r)) && S.all fun e => stepOKC S e.1 e.2.1 e.2.2

theorem utf8ClosedC_run {S : List UEntry} (hall : ∀ e ∈ S, stepOKC S e.1 e.2.1 e.2.2 = true) :
    ∀ (w : List Nat) {q : U} {p : Cls} {x : ReL} (n : Cls), (q, p, x) ∈ S → (∀ b ∈ w, b < 256) →
      MatchesC x p w n → urun q w = .s0 := by
  intro w
  induction w with
  | nil =>
    intro q p x n hmem _ hm
    have hs := hall _ hmem
    simp only [stepOKC, Bool.and_eq_true, List.all_eq_true] at hs
    have hn : nullableC p n x = true := (nullableC_iff x p n).2 hm
    have := hs.1 n (mem_allCls n)
    simp [hn] at this
    simpa [urun] using this
  | cons b w ih =>
    intro q p x n hmem hlt hm
    have hs := hall _ hmem
    simp only [stepOKC, Bool.and_eq_true, List.all_eq_true] at hs
    have hb : b < 256 := hlt b (by simp)
    have hd : MatchesC (derivCN p b x) (clsB b) w n := (derivCN_correct p b x w n).2 hm
    have hne : (derivCN p b x == ReL.empty) = false := by
      cases hde : (derivCN p b x == ReL.empty) with
      | false => rfl
      | true =>
        have heq : derivCN p b x = ReL.empty := by simpa using hde
        rw [heq] at hd
        cases hd
    have h2 := hs.2 b (List.mem_range.2 hb)
    rw [hne, Bool.false_or] at h2
    have h2' : (ustep q b, clsB b, derivCN p b x) ∈ S := by simpa using h2
    rw [urun_cons]
    exact ih n h2' (fun c hc => hlt c (by simp [hc])) hd

/-- **Soundness of the contextual UTF-8 closure check**: whatever the context, a matched text is valid UTF-8. -/
theorem utf8ClosedCB_sound {S : List UEntry} {r : ReL} (h : utf8ClosedCB S r = true) :
    ∀ p w n, MatchesC r p w n → validUtf8 w = true := by
  simp only [utf8ClosedCB, Bool.and_eq_true, List.all_eq_true] at h
  obtain ⟨⟨hbytes, hstart⟩, hall⟩ := h
  intro p w n hm
  have hlt := bytesOKL_matches hm hbytes
  have hstart' : (U.s0, p, normL r) ∈ S := by simpa using hstart p (mem_allCls p)
  have := utf8ClosedC_run hall w n hstart' hlt ((matches_normL r w p n).2 hm)
  simp [validUtf8, this]

/-- a match found at a boundary of a valid input ends on a boundary (look-around definitions) -/
theorem matched_boundaryC {G : Graph} {prios : List Nat} {D : VecL} {T : List LEntry} {C : CSetC}
    (hc : validCB G prios D (oracleOf T) C = true) (hl : liveCertB T D = true)
    (hlen : prios.length = D.length)
    (hutf : ∀ r ∈ D, ∀ p w n, MatchesC r p w n → validUtf8 w = true)
    (inp : List Nat) (hb : ∀ b ∈ inp, b < 256) (hvalid : validUtf8 inp = true)
    (start l e : Nat) (hs : isBoundary inp start = true)
    (h : walkAttempt G false inp start = .matched l e) :
    start < e ∧ e ≤ inp.length ∧ isBoundary inp e = true := by
  obtain ⟨h1, h2, ⟨⟨r, hr, hm⟩, _⟩, _⟩ :=
    C01_look_longest_match_top_priority hc hl hlen inp hb start l e h
  refine ⟨h1, h2, ?_⟩
  have hmem : r ∈ D := List.mem_iff_getElem?.2 ⟨_, hr⟩
  have hval := hutf r hmem _ _ _ hm
  unfold slice at hval
  rw [take_drop_slice] at hval
  exact match_end_is_boundary inp hvalid start e (by omega) h2 hs hval

theorem nextLoop_boundaryC {G : Graph} {prios : List Nat} {D : VecL} {T : List LEntry} {C : CSetC}
    (hc : validCB G prios D (oracleOf T) C = true) (hl : liveCertB T D = true)
    (hlen : prios.length = D.length)
    (hutf : ∀ r ∈ D, ∀ p w n, MatchesC r p w n → validUtf8 w = true)
    (cb : Callbacks) (hcb : NoBump cb) (inp : List Nat) (hb : ∀ b ∈ inp, b < 256)
    (hvalid : validUtf8 inp = true) :
    ∀ (fuel start : Nat), start ≤ inp.length → isBoundary inp start = true →
      ∀ it, nextLoop (walkAttempt G false inp) cb true inp fuel start = .item it →
        isBoundary inp it.start = true ∧ isBoundary inp it.stop = true ∧ it.stop ≤ inp.length := by
  have hwf : WF G := (validCB_sound hc).wf
  intro fuel
  induction fuel with
  | zero => intro start _ _ it h; simp [nextLoop] at h
  | succ n ih =>
    intro start hs hbd it h
    unfold nextLoop at h
    cases hatt : walkAttempt G false inp start with
    | eoi => rw [hatt] at h; simp at h
    | needMore => rw [hatt] at h; simp at h
    | diverge => rw [hatt] at h; simp at h
    | «nomatch» off =>
      rw [hatt] at h
      obtain ⟨h1, h2, h3⟩ := walkAttempt_nomatch_bounds hwf inp hb start off hatt
      have he0 : max off (start + 1) ≤ inp.length := by omega
      obtain ⟨j, hj1, hj2, hj3, hj4, _⟩ := findBoundary_spec inp _ he0
      simp [hj1] at h
      subst h
      exact ⟨hbd, hj4, hj3⟩
    | matched l te =>
      rw [hatt] at h
      obtain ⟨h1, h2, h3⟩ := matched_boundaryC hc hl hlen hutf inp hb hvalid start l te hbd hatt
      have hbump : (cb l (slice inp start te) (List.drop te inp)).bump = 0 := hcb _ _ _
      simp only [hbump, Nat.add_zero] at h
      cases hact : (cb l (slice inp start te) (List.drop te inp)).act with
      | emit =>
        rw [hact] at h; simp at h; subst h
        exact ⟨hbd, h3, h2⟩
      | skip =>
        rw [hact] at h
        exact ih te h2 h3 it h
      | errDefault =>
        rw [hact] at h; simp at h; subst h
        exact ⟨hbd, h3, h2⟩
      | errCustom t =>
        rw [hact] at h; simp at h; subst h
        exact ⟨hbd, h3, h2⟩

theorem lexFrom_boundaryC {G : Graph} {prios : List Nat} {D : VecL} {T : List LEntry} {C : CSetC}
    (hc : validCB G prios D (oracleOf T) C = true) (hl : liveCertB T D = true)
    (hlen : prios.length = D.length)
    (hutf : ∀ r ∈ D, ∀ p w n, MatchesC r p w n → validUtf8 w = true)
    (cb : Callbacks) (hcb : NoBump cb) (inp : List Nat) (hb : ∀ b ∈ inp, b < 256)
    (hvalid : validUtf8 inp = true) :
    ∀ (fuel pos : Nat), pos ≤ inp.length → isBoundary inp pos = true →
      ∀ it ∈ (lexFrom (walkAttempt G false inp) cb true inp fuel pos).1,
        isBoundary inp it.start = true ∧ isBoundary inp it.stop = true := by
  intro fuel
  induction fuel with
  | zero => intro pos _ _ it h; simp [lexFrom] at h
  | succ n ih =>
    intro pos hp hbd it h
    unfold lexFrom at h
    cases hnl : nextLoop (walkAttempt G false inp) cb true inp (inp.length + 2) pos with
    | item it0 =>
      rw [hnl] at h
      obtain ⟨k1, k2, k3⟩ :=
        nextLoop_boundaryC hc hl hlen hutf cb hcb inp hb hvalid _ pos hp hbd it0 hnl
      simp only [List.mem_cons] at h
      rcases h with rfl | h
      · exact ⟨k1, k2⟩
      · exact ih it0.stop k3 k2 it h
    | none s e => rw [hnl] at h; simp at h
    | diverge => rw [hnl] at h; simp at h

/-- **C04 with look-around.** For a definition with look-around assertions validated against its graph
(`validCB` + `liveCertB`), whose patterns can only match valid UTF-8 in any context, and a valid UTF-8
input: every item boundary produced by the str-mode lexer is a char boundary of the input. -/
theorem spans_on_boundariesC {G : Graph} {prios : List Nat} {D : VecL} {T : List LEntry} {C : CSetC}
    (hc : validCB G prios D (oracleOf T) C = true) (hl : liveCertB T D = true)
    (hlen : prios.length = D.length)
    (hutf : ∀ r ∈ D, ∀ p w n, MatchesC r p w n → validUtf8 w = true)
    (cb : Callbacks) (hcb : NoBump cb) (inp : List Nat) (hb : ∀ b ∈ inp, b < 256)
    (hvalid : validUtf8 inp = true) :
    ∀ it ∈ (graphLex G false cb true inp).1,
      isBoundary inp it.start = true ∧ isBoundary inp it.stop = true := by
  unfold graphLex lexAll
  exact lexFrom_boundaryC hc hl hlen hutf cb hcb inp hb hvalid (inp.length + 2) 0 (Nat.zero_le _)
    (by simp [isBoundary])

/-- the same check with a hash set for the membership tests -/
def utf8ClosedCBFast (S : List UEntry) (r : ReL) : Bool :=
  let H := Std.HashSet.ofList S
  bytesOKL r && (allCls.all fun p => H.contains (.s0, p, normL r)) && S.all fun e =>
    (allCls.all fun n => !nullableC e.2.1 n e.2.2 || e.1 == .s0) &&
    (List.range 256).all fun b =>
      derivCN e.2.1 b e.2.2 == .empty || H.contains (ustep e.1 b, clsB b, derivCN e.2.1 b e.2.2)

theorem utf8ClosedCBFast_eq (S : List UEntry) (r : ReL) : utf8ClosedCBFast S r = utf8ClosedCB S r := by
  simp only [utf8ClosedCBFast, utf8ClosedCB, stepOKC, Std.HashSet.contains_ofList]

theorem utf8ClosedCBFast_sound {S : List UEntry} {r : ReL} (h : utf8ClosedCBFast S r = true) :
    ∀ p w n, MatchesC r p w n → validUtf8 w = true :=
  utf8ClosedCB_sound (by rw [← utf8ClosedCBFast_eq]; exact h)

end Logos.LK
