import LogosModel.Re
/-!
# Regular expressions with look-around assertions, matched in context

Every look-around assertion regex-automata's DFAs support inspects only the byte before and the byte
after the current position, and only through a five-valued class (`Cls`): nothing there (start / end
of the haystack), `\n`, `\r`, an ASCII word byte, anything else.  A match is therefore judged in a
context `(prev, w, next)`: `MatchesC r p w n` = "`r` matches `w` when the byte before `w` has class `p`
and the byte after `w` has class `n`".

`lookHolds` follows `regex_automata::util::look::LookMatcher` (is_start, is_end, is_start_lf,
is_end_lf, is_start_crlf, is_end_crlf, is_word_ascii, is_word_ascii_negate, is_word_start_ascii,
is_word_end_ascii, is_word_start_half_ascii, is_word_end_half_ascii) with the default line terminator.
-/
namespace Logos.LK

inductive Cls where
  | none | lf | cr | word | other
deriving Repr, DecidableEq, Hashable

def isWordByte (b : Nat) : Bool :=
  b == 95 || (decide (48 ≤ b) && decide (b ≤ 57)) || (decide (65 ≤ b) && decide (b ≤ 90)) ||
    (decide (97 ≤ b) && decide (b ≤ 122))

def clsB (b : Nat) : Cls :=
  if b = 10 then .lf else if b = 13 then .cr else if isWordByte b then .word else .other

def allCls : List Cls := [.none, .lf, .cr, .word, .other]

theorem mem_allCls (n : Cls) : n ∈ allCls := by cases n <;> simp [allCls]

inductive Look where
  | start | «end» | startLF | endLF | startCRLF | endCRLF
  | word | wordNeg | wordStart | wordEnd | wordStartHalf | wordEndHalf
deriving Repr, DecidableEq, Hashable

def lookHolds : Look → Cls → Cls → Bool
  | .start, p, _ => p == .none
  | .end, _, n => n == .none
  | .startLF, p, _ => p == .none || p == .lf
  | .endLF, _, n => n == .none || n == .lf
  | .startCRLF, p, n => p == .none || p == .lf || (p == .cr && n != .lf)
  | .endCRLF, p, n => n == .none || n == .cr || (n == .lf && p != .cr)
  | .word, p, n => (p == .word) != (n == .word)
  | .wordNeg, p, n => (p == .word) == (n == .word)
  | .wordStart, p, n => p != .word && n == .word
  | .wordEnd, p, n => p == .word && n != .word
  | .wordStartHalf, p, _ => p != .word
  | .wordEndHalf, _, n => n != .word

inductive ReL where
  | empty
  | eps
  | set (rs : List (Nat × Nat))
  | look (k : Look)
  | cat (a b : ReL)
  | alt (a b : ReL)
  | star (a : ReL)
deriving DecidableEq, Repr, Hashable

/-- class of the byte following `u` when `u` is followed by `v` and then by context `n` -/
def nextOf (v : List Nat) (n : Cls) : Cls :=
  match v with
  | [] => n
  | b :: _ => clsB b

/-- class of the byte preceding `v` when `v` is preceded by `u`, itself preceded by context `p` -/
def prevOf (p : Cls) (u : List Nat) : Cls :=
  match u.getLast? with
  | none => p
  | some b => clsB b

inductive MatchesC : ReL → Cls → List Nat → Cls → Prop
  | eps {p n} : MatchesC .eps p [] n
  | set {rs b p n} : inRanges rs b = true → MatchesC (.set rs) p [b] n
  | look {k p n} : lookHolds k p n = true → MatchesC (.look k) p [] n
  | cat {a b u v p n} : MatchesC a p u (nextOf v n) → MatchesC b (prevOf p u) v n →
      MatchesC (.cat a b) p (u ++ v) n
  | altL {a b w p n} : MatchesC a p w n → MatchesC (.alt a b) p w n
  | altR {a b w p n} : MatchesC b p w n → MatchesC (.alt a b) p w n
  | starNil {a p n} : MatchesC (.star a) p [] n
  | starCons {a u v p n} : MatchesC a p u (nextOf v n) → u ≠ [] → MatchesC (.star a) (prevOf p u) v n →
      MatchesC (.star a) p (u ++ v) n

/-- does `r` match the empty string between a byte of class `p` and a byte of class `n`? -/
def nullableC (p n : Cls) : ReL → Bool
  | .empty => false
  | .eps => true
  | .set _ => false
  | .look k => lookHolds k p n
  | .cat a b => nullableC p n a && nullableC p n b
  | .alt a b => nullableC p n a || nullableC p n b
  | .star _ => true

def mkCat (a b : ReL) : ReL :=
  match a, b with
  | .empty, _ => .empty
  | _, .empty => .empty
  | .eps, b => b
  | a, .eps => a
  | a, b => .cat a b

def mkAlt (a b : ReL) : ReL :=
  match a, b with
  | .empty, b => b
  | a, .empty => a
  | a, b => if a = b then a else .alt a b

/-- Brzozowski derivative in context: consume byte `c`, the byte before it having class `p`.
Assertions standing at the current position are decided with `(p, clsB c)`. -/
def derivC (p : Cls) (c : Nat) : ReL → ReL
  | .empty => .empty
  | .eps => .empty
  | .set rs => if inRanges rs c then .eps else .empty
  | .look _ => .empty
  | .cat a b =>
    if nullableC p (clsB c) a then mkAlt (mkCat (derivC p c a) b) (derivC p c b)
    else mkCat (derivC p c a) b
  | .alt a b => mkAlt (derivC p c a) (derivC p c b)
  | .star a => mkCat (derivC p c a) (.star a)

@[simp] theorem nextOf_nil (n : Cls) : nextOf [] n = n := rfl
@[simp] theorem nextOf_cons (b : Nat) (v : List Nat) (n : Cls) : nextOf (b :: v) n = clsB b := rfl
@[simp] theorem prevOf_nil (p : Cls) : prevOf p [] = p := rfl
theorem prevOf_cons (p : Cls) (c : Nat) (u : List Nat) : prevOf p (c :: u) = prevOf (clsB c) u := by
  cases u with
  | nil => simp [prevOf]
  | cons d u' =>
    simp only [prevOf, List.getLast?_cons_cons]
    rw [List.getLast?_cons]

theorem matches_cat_iff {a b : ReL} {w : List Nat} {p n : Cls} :
    MatchesC (.cat a b) p w n ↔
      ∃ u v, w = u ++ v ∧ MatchesC a p u (nextOf v n) ∧ MatchesC b (prevOf p u) v n := by
  constructor
  · intro h; cases h with | cat h1 h2 => exact ⟨_, _, rfl, h1, h2⟩
  · rintro ⟨u, v, rfl, h1, h2⟩; exact .cat h1 h2

theorem nullableC_iff (r : ReL) (p n : Cls) : nullableC p n r = true ↔ MatchesC r p [] n := by
  induction r with
  | empty => simp [nullableC]; intro h; cases h
  | eps => simp [nullableC]; exact .eps
  | set rs => simp [nullableC]; intro h; cases h
  | look k =>
    simp only [nullableC]
    constructor
    · intro h; exact .look h
    · intro h; cases h with | look h => exact h
  | cat a b iha ihb =>
    simp only [nullableC, Bool.and_eq_true, iha, ihb]
    constructor
    · rintro ⟨h1, h2⟩; exact .cat (u := []) (v := []) h1 h2
    · intro h
      obtain ⟨u, v, hw, h1, h2⟩ := matches_cat_iff.1 h
      have : u = [] ∧ v = [] := by simpa using hw.symm
      obtain ⟨rfl, rfl⟩ := this
      exact ⟨h1, h2⟩
  | alt a b iha ihb =>
    simp only [nullableC, Bool.or_eq_true, iha, ihb]
    constructor
    · rintro (h | h); exact .altL h; exact .altR h
    · intro h; cases h with
      | altL h => exact .inl h
      | altR h => exact .inr h
  | star a _ => simp [nullableC]; exact .starNil

theorem matches_mkCat {a b : ReL} {w : List Nat} {p n : Cls} :
    MatchesC (mkCat a b) p w n ↔ MatchesC (.cat a b) p w n := by
  unfold mkCat
  split
  · constructor
    · intro h; cases h
    · intro h; cases h with | cat h1 _ => cases h1
  · constructor
    · intro h; cases h
    · intro h; cases h with | cat _ h2 => cases h2
  · constructor
    · intro h; exact .cat (u := []) .eps h
    · intro h
      obtain ⟨u, v, rfl, h1, h2⟩ := matches_cat_iff.1 h
      cases h1; simpa using h2
  · constructor
    · intro h; simpa using MatchesC.cat (v := []) h .eps
    · intro h
      obtain ⟨u, v, rfl, h1, h2⟩ := matches_cat_iff.1 h
      cases h2; simpa using h1
  · rfl

theorem matches_mkAlt {a b : ReL} {w : List Nat} {p n : Cls} :
    MatchesC (mkAlt a b) p w n ↔ MatchesC a p w n ∨ MatchesC b p w n := by
  unfold mkAlt
  split
  · constructor
    · intro h; exact .inr h
    · rintro (h | h); cases h; exact h
  · constructor
    · intro h; exact .inl h
    · rintro (h | h); exact h; cases h
  · split
    · next h => subst h; simp
    · constructor
      · intro h; cases h with
        | altL h => exact .inl h
        | altR h => exact .inr h
      · rintro (h | h); exact .altL h; exact .altR h

theorem matches_star_cons {a : ReL} {c : Nat} {w : List Nat} {p n : Cls} :
    MatchesC (.star a) p (c :: w) n ↔
      ∃ u v, w = u ++ v ∧ MatchesC a p (c :: u) (nextOf v n) ∧
        MatchesC (.star a) (prevOf p (c :: u)) v n := by
  constructor
  · intro h
    generalize hx : c :: w = x at h
    cases h with
    | starNil => cases hx
    | @starCons _ u v _ _ h1 hne h2 =>
      cases u with
      | nil => exact absurd rfl hne
      | cons d u' =>
        simp at hx
        obtain ⟨rfl, rfl⟩ := hx
        exact ⟨u', v, rfl, h1, h2⟩
  · rintro ⟨u, v, rfl, h1, h2⟩
    exact MatchesC.starCons (u := c :: u) h1 (by simp) h2

/-- **Correctness of the contextual derivative.** -/
theorem derivC_correct (p : Cls) (c : Nat) (r : ReL) (w : List Nat) (n : Cls) :
    MatchesC (derivC p c r) (clsB c) w n ↔ MatchesC r p (c :: w) n := by
  induction r generalizing w n with
  | empty => simp [derivC]; constructor <;> (intro h; cases h)
  | eps => simp [derivC]; constructor <;> (intro h; cases h)
  | look k => simp [derivC]; constructor <;> (intro h; cases h)
  | set rs =>
    simp only [derivC]
    split
    · next h =>
      constructor
      · intro hm; cases hm; exact .set h
      · intro hm; cases hm; exact .eps
    · next h =>
      constructor
      · intro hm; cases hm
      · intro hm; cases hm with | set h' => exact absurd h' h
  | cat a b iha ihb =>
    have key : ∀ w n, MatchesC (mkCat (derivC p c a) b) (clsB c) w n ↔
        ∃ u v, w = u ++ v ∧ MatchesC a p (c :: u) (nextOf v n) ∧
          MatchesC b (prevOf p (c :: u)) v n := by
      intro w n
      rw [matches_mkCat, matches_cat_iff]
      constructor
      · rintro ⟨u, v, rfl, h1, h2⟩
        exact ⟨u, v, rfl, (iha u _).1 h1, by rw [prevOf_cons]; exact h2⟩
      · rintro ⟨u, v, rfl, h1, h2⟩
        exact ⟨u, v, rfl, (iha u _).2 h1, by rw [prevOf_cons] at h2; exact h2⟩
    simp only [derivC]
    split
    · next hn =>
      rw [matches_mkAlt, key, ihb, matches_cat_iff]
      constructor
      · rintro (⟨u, v, rfl, h1, h2⟩ | h)
        · exact ⟨c :: u, v, rfl, h1, h2⟩
        · exact ⟨[], c :: w, rfl, (nullableC_iff a _ _).1 hn, h⟩
      · rintro ⟨u, v, huv, h1, h2⟩
        cases u with
        | nil => simp at huv; subst huv; exact .inr h2
        | cons d u' =>
          simp at huv; obtain ⟨rfl, rfl⟩ := huv
          exact .inl ⟨u', v, rfl, h1, h2⟩
    · next hn =>
      rw [key, matches_cat_iff]
      constructor
      · rintro ⟨u, v, rfl, h1, h2⟩; exact ⟨c :: u, v, rfl, h1, h2⟩
      · rintro ⟨u, v, huv, h1, h2⟩
        cases u with
        | nil =>
          simp at huv; subst huv
          exact absurd ((nullableC_iff a _ _).2 h1) hn
        | cons d u' =>
          simp at huv; obtain ⟨rfl, rfl⟩ := huv
          exact ⟨u', v, rfl, h1, h2⟩
  | alt a b iha ihb =>
    simp only [derivC]
    rw [matches_mkAlt, iha, ihb]
    constructor
    · rintro (h | h); exact .altL h; exact .altR h
    · intro h; cases h with
      | altL h => exact .inl h
      | altR h => exact .inr h
  | star a iha =>
    simp only [derivC]
    rw [matches_mkCat, matches_cat_iff, matches_star_cons]
    constructor
    · rintro ⟨u, v, rfl, h1, h2⟩
      exact ⟨u, v, rfl, (iha u _).1 h1, by rw [prevOf_cons]; exact h2⟩
    · rintro ⟨u, v, rfl, h1, h2⟩
      exact ⟨u, v, rfl, (iha u _).2 h1, by rw [prevOf_cons] at h2; exact h2⟩

/-- embedding of look-free regexes; contexts are irrelevant for them -/
def ofRe : Re → ReL
  | .empty => .empty
  | .eps => .eps
  | .set rs => .set rs
  | .cat a b => .cat (ofRe a) (ofRe b)
  | .alt a b => .alt (ofRe a) (ofRe b)
  | .star a => .star (ofRe a)

theorem matches_of_matchesC_ofRe {r' : ReL} {p n : Cls} {w : List Nat} (h : MatchesC r' p w n) :
    ∀ r : Re, ofRe r = r' → Matches r w := by
  induction h with
  | eps => intro r hr; cases r <;> simp [ofRe] at hr; exact .eps
  | set hb =>
    intro r hr; cases r <;> simp [ofRe] at hr
    subst hr; exact .set hb
  | look _ => intro r hr; cases r <;> simp [ofRe] at hr
  | cat _ _ ih1 ih2 =>
    intro r hr; cases r <;> simp [ofRe] at hr
    obtain ⟨h1, h2⟩ := hr
    exact .cat (ih1 _ h1) (ih2 _ h2)
  | altL _ ih =>
    intro r hr; cases r <;> simp [ofRe] at hr
    exact .altL (ih _ hr.1)
  | altR _ ih =>
    intro r hr; cases r <;> simp [ofRe] at hr
    exact .altR (ih _ hr.2)
  | starNil => intro r hr; cases r <;> simp [ofRe] at hr; exact .starNil
  | starCons _ hne _ ih1 ih2 =>
    intro r hr; cases r <;> simp [ofRe] at hr
    exact .starCons (ih1 _ hr) hne (ih2 (.star _) (by simp [ofRe, hr]))

theorem matchesC_ofRe_of_matches {r : Re} {w : List Nat} (h : Matches r w) :
    ∀ p n, MatchesC (ofRe r) p w n := by
  induction h with
  | eps => intro p n; exact .eps
  | set hb => intro p n; exact .set hb
  | cat _ _ ih1 ih2 => intro p n; exact .cat (ih1 _ _) (ih2 _ _)
  | altL _ ih => intro p n; exact .altL (ih _ _)
  | altR _ ih => intro p n; exact .altR (ih _ _)
  | starNil => intro p n; exact .starNil
  | starCons _ hne _ ih1 ih2 => intro p n; exact .starCons (ih1 _ _) hne (ih2 _ _)

theorem matchesC_ofRe (r : Re) (p n : Cls) (w : List Nat) : MatchesC (ofRe r) p w n ↔ Matches r w :=
  ⟨fun h => matches_of_matchesC_ofRe h r rfl, fun h => matchesC_ofRe_of_matches h p n⟩

end Logos.LK
