import LogosModel.Look.ReL
import LogosModel.Norm
/-!
# ACI normalisation of `ReL` derivatives (same construction as `Norm.lean`, with `.look` as an atom)
-/
namespace Logos.LK

def Look.toNat : Look → Nat
  | .start => 0 | .end => 1 | .startLF => 2 | .endLF => 3 | .startCRLF => 4 | .endCRLF => 5
  | .word => 6 | .wordNeg => 7 | .wordStart => 8 | .wordEnd => 9 | .wordStartHalf => 10 | .wordEndHalf => 11

def ReL.tag : ReL → Nat
  | .empty => 0 | .eps => 1 | .set _ => 2 | .look _ => 3 | .cat _ _ => 4 | .alt _ _ => 5 | .star _ => 6

def ReL.cmp : ReL → ReL → Ordering
  | .set a, .set b => cmpPairs a b
  | .look a, .look b => compare a.toNat b.toNat
  | .cat a b, .cat c d => match ReL.cmp a c with | .eq => ReL.cmp b d | o => o
  | .alt a b, .alt c d => match ReL.cmp a c with | .eq => ReL.cmp b d | o => o
  | .star a, .star b => ReL.cmp a b
  | x, y => compare x.tag y.tag

def altList : ReL → List ReL
  | .alt a b => altList a ++ altList b
  | .empty => []
  | r => [r]

def insertU (r : ReL) : List ReL → List ReL
  | [] => [r]
  | x :: xs => match ReL.cmp r x with
    | .lt => r :: x :: xs
    | .eq => if r = x then x :: xs else x :: insertU r xs
    | .gt => x :: insertU r xs

def fromList : List ReL → ReL
  | [] => .empty
  | [r] => r
  | r :: rs => .alt r (fromList rs)

def mkAltN (a b : ReL) : ReL :=
  fromList ((altList a ++ altList b).foldl (fun acc r => insertU r acc) [])

def mkCatN : ReL → ReL → ReL
  | .empty, _ => .empty
  | .eps, b => b
  | .cat x y, b => mkCatN x (mkCatN y b)
  | a, b => match b with
    | .empty => .empty
    | .eps => a
    | _ => .cat a b

def derivCN (p : Cls) (c : Nat) : ReL → ReL
  | .empty => .empty
  | .eps => .empty
  | .set rs => if inRanges rs c then .eps else .empty
  | .look _ => .empty
  | .cat a b =>
    if nullableC p (clsB c) a then mkAltN (mkCatN (derivCN p c a) b) (derivCN p c b)
    else mkCatN (derivCN p c a) b
  | .alt a b => mkAltN (derivCN p c a) (derivCN p c b)
  | .star a => mkCatN (derivCN p c a) (.star a)

def normL : ReL → ReL
  | .cat a b => mkCatN (normL a) (normL b)
  | .alt a b => mkAltN (normL a) (normL b)
  | .star a => .star (normL a)
  | r => r

/-- semantic membership in a list of alternatives -/
def MatchesAnyC (l : List ReL) (p : Cls) (w : List Nat) (n : Cls) : Prop := ∃ r ∈ l, MatchesC r p w n

theorem matchesC_cat_iff {a b : ReL} {p n : Cls} {w : List Nat} :
    MatchesC (.cat a b) p w n ↔
      ∃ u v, w = u ++ v ∧ MatchesC a p u (nextOf v n) ∧ MatchesC b (prevOf p u) v n := by
  constructor
  · intro h; cases h with | cat h1 h2 => exact ⟨_, _, rfl, h1, h2⟩
  · rintro ⟨u, v, rfl, h1, h2⟩; exact .cat h1 h2

theorem n_nextOf_nil (n : Cls) : nextOf [] n = n := rfl

theorem n_prevOf_nil (p : Cls) : prevOf p [] = p := rfl

theorem nextOf_append (v1 v2 : List Nat) (n : Cls) :
    nextOf (v1 ++ v2) n = nextOf v1 (nextOf v2 n) := by
  cases v1 <;> simp [nextOf]

theorem prevOf_append (p : Cls) (u1 u2 : List Nat) :
    prevOf p (u1 ++ u2) = prevOf (prevOf p u1) u2 := by
  unfold prevOf
  rw [List.getLast?_append]
  cases h2 : u2.getLast? <;> cases h1 : u1.getLast? <;> simp

theorem n_prevOf_cons (p : Cls) (c : Nat) (u : List Nat) :
    prevOf p (c :: u) = prevOf (clsB c) u := by
  have := prevOf_append p [c] u
  simpa [prevOf] using this

theorem matchesC_star_cons {a : ReL} {c : Nat} {w : List Nat} {p n : Cls} :
    MatchesC (.star a) p (c :: w) n ↔
      ∃ u v, w = u ++ v ∧ MatchesC a p (c :: u) (nextOf v n) ∧
        MatchesC (.star a) (prevOf p (c :: u)) v n := by
  constructor
  · intro h
    generalize hx : c :: w = x at h
    cases h with
    | starNil => cases hx
    | @starCons _ u v _ _ h1 hne h2 =>
      cases u with
      | nil => exact absurd rfl hne
      | cons d u' =>
        simp at hx
        obtain ⟨rfl, rfl⟩ := hx
        exact ⟨u', v, rfl, h1, h2⟩
  · rintro ⟨u, v, rfl, h1, h2⟩
    exact MatchesC.starCons (u := c :: u) h1 (by simp) h2

theorem matchesC_star_mono {a a' : ReL} (h : ∀ p w n, MatchesC a' p w n → MatchesC a p w n)
    {p n : Cls} {w : List Nat} (hm : MatchesC (.star a') p w n) : MatchesC (.star a) p w n := by
  generalize hr : ReL.star a' = r at hm
  induction hm with
  | starNil => exact .starNil
  | starCons h1 hne _ _ ih2 =>
    cases hr
    exact .starCons (h _ _ _ h1) hne (ih2 rfl)
  | eps => cases hr
  | set _ => cases hr
  | look _ => cases hr
  | cat _ _ => cases hr
  | altL _ => cases hr
  | altR _ => cases hr

theorem matches_altListC (r : ReL) (p : Cls) (w : List Nat) (n : Cls) :
    MatchesAnyC (altList r) p w n ↔ MatchesC r p w n := by
  induction r with
  | alt a b iha ihb =>
    simp only [altList, MatchesAnyC, List.mem_append]
    constructor
    · rintro ⟨r, (h | h), hm⟩
      · exact .altL (iha.1 ⟨r, h, hm⟩)
      · exact .altR (ihb.1 ⟨r, h, hm⟩)
    · intro h
      cases h with
      | altL h => obtain ⟨r, hr, hm⟩ := iha.2 h; exact ⟨r, .inl hr, hm⟩
      | altR h => obtain ⟨r, hr, hm⟩ := ihb.2 h; exact ⟨r, .inr hr, hm⟩
  | empty => simp [altList, MatchesAnyC]; intro h; cases h
  | eps => simp [altList, MatchesAnyC]
  | set rs => simp [altList, MatchesAnyC]
  | look k => simp [altList, MatchesAnyC]
  | cat a b _ _ => simp [altList, MatchesAnyC]
  | star a _ => simp [altList, MatchesAnyC]

theorem mem_insertU (r x : ReL) (l : List ReL) : x ∈ insertU r l ↔ x = r ∨ x ∈ l := by
  induction l with
  | nil => simp [insertU]
  | cons y ys ih =>
    simp only [insertU]
    split
    · simp
    · split
      · next h => subst h; simp
      · simp [ih]; grind
    · simp [ih]; grind

theorem mem_foldl_insertU (xs acc : List ReL) (x : ReL) :
    x ∈ xs.foldl (fun acc r => insertU r acc) acc ↔ x ∈ xs ∨ x ∈ acc := by
  induction xs generalizing acc with
  | nil => simp
  | cons y ys ih => simp [ih, mem_insertU]; grind

theorem matches_fromListC (l : List ReL) (p : Cls) (w : List Nat) (n : Cls) :
    MatchesC (fromList l) p w n ↔ MatchesAnyC l p w n := by
  induction l with
  | nil => simp [fromList, MatchesAnyC]; intro h; cases h
  | cons r rs ih =>
    cases rs with
    | nil => simp [fromList, MatchesAnyC]
    | cons r2 rs2 =>
      simp only [fromList]
      constructor
      · intro h
        cases h with
        | altL h => exact ⟨r, by simp, h⟩
        | altR h =>
          obtain ⟨x, hx, hm⟩ := ih.1 h
          exact ⟨x, by simp at hx ⊢; grind, hm⟩
      · rintro ⟨x, hx, hm⟩
        simp only [List.mem_cons] at hx
        rcases hx with rfl | hx
        · exact .altL hm
        · exact .altR (ih.2 ⟨x, by simpa using hx, hm⟩)

theorem matches_mkAltN {a b : ReL} {w : List Nat} {p n : Cls} :
    MatchesC (mkAltN a b) p w n ↔ MatchesC a p w n ∨ MatchesC b p w n := by
  unfold mkAltN
  rw [matches_fromListC]
  simp only [MatchesAnyC, mem_foldl_insertU, List.mem_append, List.not_mem_nil, or_false]
  rw [← matches_altListC a, ← matches_altListC b]
  simp only [MatchesAnyC]
  constructor
  · rintro ⟨r, (h | h), hm⟩
    · exact .inl ⟨r, h, hm⟩
    · exact .inr ⟨r, h, hm⟩
  · rintro (⟨r, h, hm⟩ | ⟨r, h, hm⟩)
    · exact ⟨r, .inl h, hm⟩
    · exact ⟨r, .inr h, hm⟩

theorem matchesC_cat_empty_right (a : ReL) (w : List Nat) (p n : Cls) :
    MatchesC .empty p w n ↔ MatchesC (.cat a .empty) p w n := by
  constructor
  · intro h; cases h
  · intro h; cases h with | cat _ h2 => cases h2

theorem matchesC_cat_eps_right (a : ReL) (w : List Nat) (p n : Cls) :
    MatchesC a p w n ↔ MatchesC (.cat a .eps) p w n := by
  constructor
  · intro h
    have := MatchesC.cat (v := []) (n := n) (b := .eps) (by simpa [nextOf] using h) .eps
    simpa using this
  · intro h
    cases h with
    | cat h1 h2 => cases h2; simpa [nextOf] using h1

theorem matches_mkCatN (a b : ReL) (w : List Nat) (p n : Cls) :
    MatchesC (mkCatN a b) p w n ↔ MatchesC (.cat a b) p w n := by
  induction a generalizing b w p n with
  | empty =>
    simp only [mkCatN]
    constructor
    · intro h; cases h
    · intro h; cases h with | cat h1 _ => cases h1
  | eps =>
    simp only [mkCatN]
    constructor
    · intro h; exact .cat (u := []) .eps h
    · intro h; cases h with | cat h1 h2 => cases h1; simpa [prevOf] using h2
  | cat x y ihx ihy =>
    simp only [mkCatN]
    rw [ihx, matchesC_cat_iff, matchesC_cat_iff]
    constructor
    · rintro ⟨u, v, rfl, h1, h2⟩
      obtain ⟨v1, v2, rfl, h3, h4⟩ := matchesC_cat_iff.1 ((ihy b v _ _).1 h2)
      rw [nextOf_append] at h1
      rw [← prevOf_append] at h4
      exact ⟨u ++ v1, v2, by simp, .cat h1 h3, h4⟩
    · rintro ⟨u, v, rfl, h1, h2⟩
      obtain ⟨u1, u2, rfl, h3, h4⟩ := matchesC_cat_iff.1 h1
      rw [prevOf_append] at h2
      rw [← nextOf_append] at h3
      exact ⟨u1, u2 ++ v, by simp, h3, (ihy b _ _ _).2 (.cat h4 h2)⟩
  | set rs =>
    simp only [mkCatN]
    split
    · exact matchesC_cat_empty_right _ _ _ _
    · exact matchesC_cat_eps_right _ _ _ _
    · rfl
  | look k =>
    simp only [mkCatN]
    split
    · exact matchesC_cat_empty_right _ _ _ _
    · exact matchesC_cat_eps_right _ _ _ _
    · rfl
  | alt x y _ _ =>
    simp only [mkCatN]
    split
    · exact matchesC_cat_empty_right _ _ _ _
    · exact matchesC_cat_eps_right _ _ _ _
    · rfl
  | star x _ =>
    simp only [mkCatN]
    split
    · exact matchesC_cat_empty_right _ _ _ _
    · exact matchesC_cat_eps_right _ _ _ _
    · rfl

theorem derivCN_correct (p : Cls) (c : Nat) (r : ReL) (w : List Nat) (n : Cls) :
    MatchesC (derivCN p c r) (clsB c) w n ↔ MatchesC r p (c :: w) n := by
  induction r generalizing w n with
  | empty => simp [derivCN]; constructor <;> (intro h; cases h)
  | eps => simp [derivCN]; constructor <;> (intro h; cases h)
  | look k => simp [derivCN]; constructor <;> (intro h; cases h)
  | set rs =>
    simp only [derivCN]
    split
    · next h =>
      constructor
      · intro hm; cases hm; exact .set h
      · intro hm; cases hm; exact .eps
    · next h =>
      constructor
      · intro hm; cases hm
      · intro hm; cases hm with | set h' => exact absurd h' h
  | cat a b iha ihb =>
    have key : ∀ w n, MatchesC (mkCatN (derivCN p c a) b) (clsB c) w n ↔
        ∃ u v, w = u ++ v ∧ MatchesC a p (c :: u) (nextOf v n) ∧
          MatchesC b (prevOf p (c :: u)) v n := by
      intro w n
      rw [matches_mkCatN, matchesC_cat_iff]
      constructor
      · rintro ⟨u, v, rfl, h1, h2⟩
        exact ⟨u, v, rfl, (iha u _).1 h1, by rw [n_prevOf_cons]; exact h2⟩
      · rintro ⟨u, v, rfl, h1, h2⟩
        exact ⟨u, v, rfl, (iha u _).2 h1, by rw [n_prevOf_cons] at h2; exact h2⟩
    simp only [derivCN]
    split
    · next hn =>
      rw [matches_mkAltN, key, ihb, matchesC_cat_iff]
      constructor
      · rintro (⟨u, v, rfl, h1, h2⟩ | h)
        · exact ⟨c :: u, v, rfl, h1, h2⟩
        · exact ⟨[], c :: w, rfl, (nullableC_iff a _ _).1 hn, h⟩
      · rintro ⟨u, v, huv, h1, h2⟩
        cases u with
        | nil => simp at huv; subst huv; exact .inr h2
        | cons d u' =>
          simp at huv; obtain ⟨rfl, rfl⟩ := huv
          exact .inl ⟨u', v, rfl, h1, h2⟩
    · next hn =>
      rw [key, matchesC_cat_iff]
      constructor
      · rintro ⟨u, v, rfl, h1, h2⟩; exact ⟨c :: u, v, rfl, h1, h2⟩
      · rintro ⟨u, v, huv, h1, h2⟩
        cases u with
        | nil =>
          simp at huv; subst huv
          exact absurd ((nullableC_iff a _ _).2 h1) hn
        | cons d u' =>
          simp at huv; obtain ⟨rfl, rfl⟩ := huv
          exact ⟨u', v, rfl, h1, h2⟩
  | alt a b iha ihb =>
    simp only [derivCN]
    rw [matches_mkAltN, iha, ihb]
    constructor
    · rintro (h | h); exact .altL h; exact .altR h
    · intro h; cases h with
      | altL h => exact .inl h
      | altR h => exact .inr h
  | star a iha =>
    simp only [derivCN]
    rw [matches_mkCatN, matchesC_cat_iff, matchesC_star_cons]
    constructor
    · rintro ⟨u, v, rfl, h1, h2⟩
      exact ⟨u, v, rfl, (iha u _).1 h1, by rw [n_prevOf_cons]; exact h2⟩
    · rintro ⟨u, v, rfl, h1, h2⟩
      exact ⟨u, v, rfl, (iha u _).2 h1, by rw [n_prevOf_cons] at h2; exact h2⟩

theorem matches_normL (r : ReL) (w : List Nat) (p n : Cls) : MatchesC (normL r) p w n ↔ MatchesC r p w n := by
  induction r generalizing w p n with
  | empty => simp [normL]
  | eps => simp [normL]
  | set rs => simp [normL]
  | look k => simp [normL]
  | cat a b iha ihb =>
    simp only [normL]
    rw [matches_mkCatN, matchesC_cat_iff, matchesC_cat_iff]
    constructor
    · rintro ⟨u, v, rfl, h1, h2⟩; exact ⟨u, v, rfl, (iha u _ _).1 h1, (ihb v _ _).1 h2⟩
    · rintro ⟨u, v, rfl, h1, h2⟩; exact ⟨u, v, rfl, (iha u _ _).2 h1, (ihb v _ _).2 h2⟩
  | alt a b iha ihb =>
    simp only [normL]
    rw [matches_mkAltN, iha, ihb]
    constructor
    · rintro (h | h); exact .altL h; exact .altR h
    · intro h; cases h with
      | altL h => exact .inl h
      | altR h => exact .inr h
  | star a iha =>
    simp only [normL]
    exact ⟨matchesC_star_mono fun p w n => (iha w p n).1, matchesC_star_mono fun p w n => (iha w p n).2⟩

end Logos.LK
