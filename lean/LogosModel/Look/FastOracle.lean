import LogosModel.Look.LiveCert
import Std.Data.HashMap
/-!
# Hash-map version of the viability oracle

`oracleOf T` looks a pair up by a linear scan of the table.  `oracleFast (tableMap T)` uses a hash map
built once (first entry wins, as in `List.find?`) and is proved equal, so every theorem about
`oracleOf T` applies verbatim to what the driver computes.
-/
namespace Logos.LK

def tableMap (T : List LEntry) : Std.HashMap (VecL × Cls) Bool :=
  T.foldl (fun m e => m.insertIfNew (e.vec, e.p) e.live) {}

def oracleFast (M : Std.HashMap (VecL × Cls) Bool) : VecL → Cls → Bool :=
  fun Δ p => M[(Δ, p)]? == some true

theorem lookupL_cons (e : LEntry) (T : List LEntry) (Δ : VecL) (p : Cls) :
    lookupL (e :: T) Δ p = if (e.vec == Δ && e.p == p) then some e.live else lookupL T Δ p := by
  unfold lookupL
  rw [List.find?_cons]
  split <;> simp_all

theorem foldl_insertIfNew_get (T : List LEntry) (m : Std.HashMap (VecL × Cls) Bool) (k : VecL × Cls) :
    (T.foldl (fun m e => m.insertIfNew (e.vec, e.p) e.live) m)[k]? = (m[k]?).or (lookupL T k.1 k.2) := by
  induction T generalizing m with
  | nil => simp [lookupL]
  | cons e T ih =>
    rw [List.foldl_cons, ih, lookupL_cons, Std.HashMap.getElem?_insertIfNew]
    obtain ⟨Δ, p⟩ := k
    by_cases hk : (e.vec, e.p) = (Δ, p)
    · have h1 : e.vec = Δ := (Prod.mk.inj hk).1
      have h2 : e.p = p := (Prod.mk.inj hk).2
      by_cases hm : (e.vec, e.p) ∈ m
      · have : (Δ, p) ∈ m := hk ▸ hm
        obtain ⟨v, hv⟩ : ∃ v, m[(Δ, p)]? = some v := by
          rw [Std.HashMap.mem_iff_isSome_getElem?] at this
          exact Option.isSome_iff_exists.1 this
        simp [hm, hv]
      · have hn : m[(Δ, p)]? = none := by
          rw [← hk]; exact Std.HashMap.getElem?_eq_none hm
        have hm' : ¬ (Δ, p) ∈ m := hk ▸ hm
        simp [h1, h2, hm']
    · have hb : ((e.vec, e.p) == (Δ, p)) = false := by simpa using hk
      have hb2 : (e.vec == Δ && e.p == p) = false := by
        cases h1 : (e.vec == Δ) <;> cases h2 : (e.p == p) <;> simp_all
      simp [hb, hb2]

theorem oracleFast_eq (T : List LEntry) : oracleFast (tableMap T) = oracleOf T := by
  funext Δ p
  simp [oracleFast, oracleOf, tableMap, foldl_insertIfNew_get]

theorem tableMap_get (T : List LEntry) (k : VecL × Cls) : (tableMap T)[k]? = lookupL T k.1 k.2 := by
  simp [tableMap, foldl_insertIfNew_get]

/-- `entryOK` with hash-map look-ups -/
def entryOKFast (M : Std.HashMap (VecL × Cls) Bool) (e : LEntry) : Bool :=
  if e.live then
    matchesAnyB e.vec e.p e.wit e.witN &&
    (List.range 256).all fun b => (M[(derivVC e.p b e.vec, clsB b)]?).isSome
  else
    allCls.all (fun n => !(e.vec.any (nullableC e.p n))) &&
    (List.range 256).all fun b => M[(derivVC e.p b e.vec, clsB b)]? == some false

/-- `liveCertB` with hash-map look-ups (the table check is otherwise quadratic in the table size) -/
def liveCertBFast (T : List LEntry) (D : VecL) : Bool :=
  let M := tableMap T
  D.all bytesOKL && allCls.all (fun p0 => (M[(D, p0)]?).isSome) && T.all (entryOKFast M)

theorem entryOKFast_eq (T : List LEntry) (e : LEntry) : entryOKFast (tableMap T) e = entryOK T e := by
  unfold entryOKFast entryOK
  simp only [tableMap_get]

theorem liveCertBFast_eq (T : List LEntry) (D : VecL) : liveCertBFast T D = liveCertB T D := by
  have hf : entryOKFast (tableMap T) = entryOK T := funext (entryOKFast_eq T)
  simp only [liveCertBFast, liveCertB, tableMap_get, hf]

theorem liveCertBFast_sound {T : List LEntry} {D : VecL} (h : liveCertBFast T D = true) (p0 : Cls) :
    VExact (oracleOf T) D p0 :=
  liveCertB_sound (by rw [← liveCertBFast_eq]; exact h) p0

end Logos.LK
