import LogosModel.Priority
import LogosModel.Look.HirL
/-!
# C09 for patterns with look-around assertions

`complexity_bound` speaks about the look-free lowering.  Here: whatever the context, a string matched by a
pattern with assertions (which count zero) is at least half the pattern's default priority long.
-/
namespace Logos.LK
open Logos

theorem seqMatches_length (s : List (Nat × Nat)) (w : List Nat) (h : SeqMatches s w) :
    w.length = s.length := by
  induction s generalizing w with
  | nil =>
    cases w with
    | nil => rfl
    | cons b w => simp [SeqMatches] at h
  | cons r s ih =>
    obtain ⟨lo, hi⟩ := r
    cases w with
    | nil => simp [SeqMatches] at h
    | cons b w =>
      simp only [SeqMatches] at h
      simp [ih w h.2.2]

theorem matches_powReL_bound (r : ReL) (c : Nat)
    (hr : ∀ p x n, MatchesC r p x n → c ≤ 2 * x.length)
    (k : Nat) (p n : Cls) (w : List Nat) (h : MatchesC (powReL r k) p w n) :
    k * c ≤ 2 * w.length := by
  induction k generalizing w p n with
  | zero => simp
  | succ k ih =>
    change MatchesC (mkCatN r (powReL r k)) p w n at h
    rw [matches_mkCatN, matchesC_cat_iff] at h
    obtain ⟨u, v, rfl, h1, h2⟩ := h
    have := hr _ u _ h1
    have := ih _ _ v h2
    rw [Nat.succ_mul, List.length_append]; omega

mutual
/-- **C09 with look-around, specificity bound.** -/
theorem complexity_boundC (h : Hir) (hc : h.clsOK = true) (p n : Cls) (w : List Nat)
    (hm : MatchesC (lowerL h) p w n) : h.complexity ≤ 2 * w.length := by
  match h with
  | .empty => simp [Hir.complexity]
  | .look _ => simp [Hir.complexity]
  | .lit bs =>
    simp only [lowerL] at hm
    rw [matches_litReL] at hm
    subst hm
    simp only [Hir.complexity]
    have := charCount_le w
    split <;> omega
  | .cls _ _ seqs =>
    simp only [lowerL] at hm
    simp only [Hir.clsOK, List.all_eq_true] at hc
    obtain ⟨s, hs, hsm⟩ := (matches_seqsReL seqs w p n).1 hm
    have hl := seqMatches_length s w hsm
    have := hc s hs
    have : 0 < s.length := by
      cases s with
      | nil => simp at this
      | cons _ _ => simp
    simp only [Hir.complexity]; omega
  | .rep mn mx g s =>
    simp only [Hir.clsOK] at hc
    simp only [Hir.complexity]
    have ih : ∀ p x n, MatchesC (lowerL s) p x n → s.complexity ≤ 2 * x.length :=
      fun p x n hx => complexity_boundC s hc p n x hx
    simp only [lowerL] at hm
    have key : ∀ tail, MatchesC (mkCatN (powReL (lowerL s) mn) tail) p w n →
        mn * s.complexity ≤ 2 * w.length := by
      intro tail hm
      rw [matches_mkCatN, matchesC_cat_iff] at hm
      obtain ⟨u, v, rfl, h1, _⟩ := hm
      have := matches_powReL_bound (lowerL s) s.complexity ih mn _ _ u h1
      rw [List.length_append]; omega
    cases mx with
    | none => exact key _ hm
    | some m => exact key _ hm
  | .cap s =>
    simp only [Hir.clsOK] at hc
    simp only [lowerL] at hm
    simp only [Hir.complexity]
    exact complexity_boundC s hc p n w hm
  | .cat ss =>
    simp only [Hir.clsOK] at hc
    simp only [lowerL] at hm
    simp only [Hir.complexity]
    exact complexitySum_boundC ss hc p n w hm
  | .alt ss =>
    simp only [Hir.clsOK] at hc
    simp only [lowerL] at hm
    simp only [Hir.complexity]
    obtain ⟨m, hm1, hm2⟩ := complexityMin_boundC ss hc p n w hm
    rw [hm1]; exact hm2
theorem complexitySum_boundC (ss : List Hir) (hc : Hir.clsOKL ss = true) (p n : Cls) (w : List Nat)
    (hm : MatchesC (lowerCatL ss) p w n) : Hir.complexitySum ss ≤ 2 * w.length := by
  match ss with
  | [] => simp [Hir.complexitySum]
  | h :: t =>
    simp only [Hir.clsOKL, Bool.and_eq_true] at hc
    simp only [lowerCatL] at hm
    rw [matches_mkCatN, matchesC_cat_iff] at hm
    obtain ⟨u, v, rfl, h1, h2⟩ := hm
    have := complexity_boundC h hc.1 _ _ u h1
    have := complexitySum_boundC t hc.2 _ _ v h2
    simp only [Hir.complexitySum, List.length_append]; omega
theorem complexityMin_boundC (ss : List Hir) (hc : Hir.clsOKL ss = true) (p n : Cls) (w : List Nat)
    (hm : MatchesC (lowerAltL ss) p w n) :
    ∃ m, Hir.complexityMin ss = some m ∧ m ≤ 2 * w.length := by
  match ss with
  | [] =>
    simp only [lowerAltL] at hm
    cases hm
  | h :: t =>
    simp only [Hir.clsOKL, Bool.and_eq_true] at hc
    simp only [lowerAltL] at hm
    rw [matches_mkAltN] at hm
    simp only [Hir.complexityMin]
    rcases hm with hm | hm
    · have := complexity_boundC h hc.1 p n w hm
      cases hmin : Hir.complexityMin t with
      | none => exact ⟨_, rfl, this⟩
      | some m => exact ⟨_, rfl, Nat.le_trans (Nat.min_le_left _ _) this⟩
    · obtain ⟨m, hm1, hm2⟩ := complexityMin_boundC t hc.2 p n w hm
      rw [hm1]
      exact ⟨_, rfl, Nat.le_trans (Nat.min_le_right _ _) hm2⟩
end

/-- **C09 with look-around: a literal token is never beaten on its own text** by a default-priority
pattern, assertions included: such a pattern matching the literal's text in some context has default
priority at most `2 * byte length`, the token's. -/
theorem literal_never_beatenC (h : Hir) (hc : h.clsOK = true) (lit : List Nat) (p n : Cls)
    (hm : MatchesC (lowerL h) p lit n) : h.complexity ≤ 2 * lit.length :=
  complexity_boundC h hc p n lit hm

end Logos.LK
