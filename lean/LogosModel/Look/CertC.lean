import LogosModel.Look.SpecC
import LogosModel.Cert
import LogosModel.CertCheck
/-!
# The certificate relating a graph to a definition with look-around assertions

`C` is a set of triples (graph state, derivative vector, class of the last byte read).  Compared with
`Cert.lean`: a leaf's match at a position depends on the class of the *next* byte, which the graph
learns one step later — so a winner for the context "next byte is `b`" must be recorded either by the
state itself being `early` for that leaf (it wins whatever follows) or by the successor on `b` carrying
the late `accept`; symmetrically for the end of input and the end-of-input edge.
-/
namespace Logos.LK
open Logos

structure LocalC (G : Graph) (prios : List Nat) (V : VecL → Cls → Bool) (C : Nat → VecL → Cls → Prop)
    (s : Nat) (Δ : VecL) (p : Cls) : Prop where
  early_ok : ∀ l, (G.get s).early = some l → ∀ n ∈ allCls, winC prios p n Δ = some l
  win_byte : ∀ b, b < 256 → ∀ l, winC prios p (clsB b) Δ = some l →
      (G.get s).early = some l ∨ ∃ t, (G.get s).next b = some t ∧ (G.get t).accept = some l
  win_eoi : ∀ l, winC prios p .none Δ = some l →
      (G.get s).early = some l ∨ ∃ t, (G.get s).eoi = some t ∧ (G.get t).accept = some l
  edge : ∀ b, b < 256 → ∀ t, (G.get s).next b = some t →
      (∀ l, (G.get t).accept = some l → winC prios p (clsB b) Δ = some l) ∧
      (V (derivVC p b Δ) (clsB b) = true ∨ (G.get t).accept.isSome = true) ∧
      C t (derivVC p b Δ) (clsB b)
  noedge : ∀ b, b < 256 → (G.get s).next b = none → V (derivVC p b Δ) (clsB b) = false
  eoi_ok : ∀ t, (G.get s).eoi = some t → ∀ l, (G.get t).accept = some l → winC prios p .none Δ = some l
  /-- a vector the oracle calls dead has no winner in any context -/
  dead_nowin : V Δ p = false → ∀ n ∈ allCls, winC prios p n Δ = none
  /-- … and stays dead -/
  dead_closed : V Δ p = false → ∀ b, b < 256 → V (derivVC p b Δ) (clsB b) = false

structure ValidC (G : Graph) (prios : List Nat) (D : VecL) (V : VecL → Cls → Bool)
    (C : Nat → VecL → Cls → Prop) : Prop where
  wf : WF G
  root : ∀ p0 ∈ allCls, C G.root D p0
  noEmpty : ∀ p0 ∈ allCls, ∀ n ∈ allCls, winC prios p0 n D = none
  loc : ∀ s Δ p, C s Δ p → LocalC G prios V C s Δ p

/-! ## executable checker -/

abbrev CSetC := Array (List (VecL × Cls))

def CSetC.mem (C : CSetC) (s : Nat) (Δ : VecL) (p : Cls) : Prop := (Δ, p) ∈ C.getD s []
def CSetC.has (C : CSetC) (s : Nat) (Δ : VecL) (p : Cls) : Bool := (C.getD s []).contains (Δ, p)

def okAccC (G : Graph) (t : Nat) (w : Option Nat) : Bool :=
  match (G.get t).accept with
  | some l => w == some l
  | none => true

def localCB (G : Graph) (prios : List Nat) (V : VecL → Cls → Bool) (C : CSetC) (s : Nat) (Δ : VecL) (p : Cls) : Bool :=
  let sd := G.get s
  (match sd.early with
   | some l => allCls.all fun n => winC prios p n Δ == some l
   | none => true) &&
  allBytes.all (fun b =>
    let w := winC prios p (clsB b) Δ
    (match w with
     | some l => sd.early == some l ||
        (match sd.next b with | some t => (G.get t).accept == some l | none => false)
     | none => true) &&
    (match sd.next b with
     | some t => okAccC G t w && (V (derivVC p b Δ) (clsB b) || (G.get t).accept.isSome) && C.has t (derivVC p b Δ) (clsB b)
     | none => !V (derivVC p b Δ) (clsB b))) &&
  (let w := winC prios p .none Δ
   (match w with
    | some l => sd.early == some l || (match sd.eoi with | some t => (G.get t).accept == some l | none => false)
    | none => true) &&
   (match sd.eoi with | some t => okAccC G t w | none => true)) &&
  (V Δ p || ((allCls.all fun n => (winC prios p n Δ).isNone) && allBytes.all fun b => !V (derivVC p b Δ) (clsB b)))

def validCB (G : Graph) (prios : List Nat) (D : VecL) (V : VecL → Cls → Bool) (C : CSetC) : Bool :=
  wfB G &&
  allCls.all (fun p0 => C.has G.root D p0) &&
  allCls.all (fun p0 => allCls.all fun n => (winC prios p0 n D).isNone) &&
  (List.range C.size).all (fun s => (C.getD s []).all (fun e => localCB G prios V C s e.1 e.2))

theorem CSetC.has_iff {C : CSetC} {s : Nat} {Δ : VecL} {p : Cls} :
    C.has s Δ p = true ↔ C.mem s Δ p := by
  simp [CSetC.has, CSetC.mem]

theorem okAccC_iff {G : Graph} {t : Nat} {w : Option Nat} :
    okAccC G t w = true ↔ ∀ l, (G.get t).accept = some l → w = some l := by
  unfold okAccC
  cases h : (G.get t).accept with
  | none => simp
  | some l => simp

theorem localCB_sound {G : Graph} {prios : List Nat} {V : VecL → Cls → Bool} {C : CSetC} {s : Nat}
    {Δ : VecL} {p : Cls} (h : localCB G prios V C s Δ p = true) : LocalC G prios V C.mem s Δ p := by
  unfold localCB at h
  simp only [Bool.and_eq_true] at h
  obtain ⟨⟨⟨h1, h2⟩, ⟨h3a, h3b⟩⟩, h4⟩ := h
  rw [List.all_eq_true] at h2
  refine ⟨?_, ?_, ?_, ?_, ?_, ?_, ?_, ?_⟩
  · intro l hl n hn
    rw [hl] at h1
    have := (List.all_eq_true.1 h1) n hn
    simpa using this
  · intro b hb l hw
    have := h2 b (mem_allBytes.2 hb)
    simp only [Bool.and_eq_true] at this
    have h := this.1
    rw [hw] at h
    simp only [Bool.or_eq_true] at h
    rcases h with h | h
    · exact Or.inl (by simpa using h)
    · cases hn : (G.get s).next b with
      | none => rw [hn] at h; cases h
      | some t => rw [hn] at h; exact Or.inr ⟨t, rfl, by simpa using h⟩
  · intro l hw
    rw [hw] at h3a
    simp only [Bool.or_eq_true] at h3a
    rcases h3a with h | h
    · exact Or.inl (by simpa using h)
    · cases he : (G.get s).eoi with
      | none => rw [he] at h; cases h
      | some t => rw [he] at h; exact Or.inr ⟨t, rfl, by simpa using h⟩
  · intro b hb t ht
    have := h2 b (mem_allBytes.2 hb)
    simp only [Bool.and_eq_true] at this
    have h := this.2
    rw [ht] at h
    simp only [Bool.and_eq_true, Bool.or_eq_true] at h
    obtain ⟨⟨ha, hv⟩, hc⟩ := h
    exact ⟨okAccC_iff.1 ha, hv, CSetC.has_iff.1 hc⟩
  · intro b hb hn
    have := h2 b (mem_allBytes.2 hb)
    simp only [Bool.and_eq_true] at this
    have h := this.2
    rw [hn] at h
    simpa using h
  · intro t ht
    rw [ht] at h3b
    exact okAccC_iff.1 h3b
  · intro hv n hn
    rw [hv] at h4
    simp only [Bool.false_or, Bool.and_eq_true] at h4
    have := (List.all_eq_true.1 h4.1) n hn
    simpa using this
  · intro hv b hb
    rw [hv] at h4
    simp only [Bool.false_or, Bool.and_eq_true] at h4
    have := (List.all_eq_true.1 h4.2) b (mem_allBytes.2 hb)
    simpa using this

theorem validCB_sound {G : Graph} {prios : List Nat} {D : VecL} {V : VecL → Cls → Bool} {C : CSetC}
    (h : validCB G prios D V C = true) : ValidC G prios D V C.mem := by
  unfold validCB at h
  simp only [Bool.and_eq_true] at h
  obtain ⟨⟨⟨h1, h2⟩, h3⟩, h4⟩ := h
  rw [List.all_eq_true] at h2 h3 h4
  refine ⟨wfB_sound h1, fun p0 hp => CSetC.has_iff.1 (h2 p0 hp), ?_, ?_⟩
  · intro p0 hp n hn
    have := (List.all_eq_true.1 (h3 p0 hp)) n hn
    simpa using this
  · intro s Δ p hm
    by_cases hs : s < C.size
    · have := h4 s (List.mem_range.2 hs)
      rw [List.all_eq_true] at this
      exact localCB_sound (this (Δ, p) hm)
    · have : C.getD s [] = [] := by
        simp [Array.getD]; omega
      simp [CSetC.mem, this] at hm

end Logos.LK
