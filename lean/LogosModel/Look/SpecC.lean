import LogosModel.Look.NormL
import LogosModel.Spec
/-!
# Reference scan for definitions with look-around assertions

Same shape as `Spec.lean`, with two differences forced by look-around:

* whether a leaf matches what was read so far depends on the class of the *next* byte (or the end of
  the input), so the scan decides the record at a position with one byte of look-ahead;
* whether what was read "can still be extended to a match" is no longer a structural property of the
  derivative (`a$b` is satisfiable by no string); it is supplied by an oracle `V` whose exactness on
  everything reachable is certified separately (`LiveCert.lean`).
-/
namespace Logos.LK

abbrev VecL := List ReL

def derivVC (p : Cls) (b : Nat) (Δ : VecL) : VecL := Δ.map (derivCN p b)

/-- index of the first `true` flag of maximal priority -/
def winFlagsGo (i : Nat) : List Nat → List Bool → Option (Nat × Nat) → Option (Nat × Nat)
  | p :: ps, f :: fs, acc =>
    let acc' := if f then
        match acc with
        | some (_, q) => if q < p then some (i, p) else acc
        | none => some (i, p)
      else acc
    winFlagsGo (i+1) ps fs acc'
  | _, _, acc => acc

def winFlags (prios : List Nat) (flags : List Bool) : Option Nat := (winFlagsGo 0 prios flags none).map (·.1)

/-- the winning leaf at a position whose neighbours have classes `p` and `n` -/
def winC (prios : List Nat) (p n : Cls) (Δ : VecL) : Option Nat := winFlags prios (Δ.map (nullableC p n))

def updC (prios : List Nat) (Δ : VecL) (p n : Cls) (k : Nat) (prev : Rec) : Rec :=
  match winC prios p n Δ with
  | some l => some (k, l)
  | none => prev

/-- `scanC V prios Δ p w k best`: `Δ` = derivatives after `k` bytes, `p` = class of the last byte read
(or of the byte before the token), `best` already includes position `k`. -/
def scanC (V : VecL → Cls → Bool) (prios : List Nat) : VecL → Cls → List Nat → Nat → Rec → Rec × Nat
  | _, _, [], k, best => (best, k)
  | Δ, p, b :: w, k, best =>
    let Δ' := derivVC p b Δ
    if V Δ' (clsB b) then
      scanC V prios Δ' (clsB b) w (k+1) (updC prios Δ' (clsB b) (nextOf w .none) (k+1) best)
    else (best, k)

/-! ## declarative notions -/

/-- leaf `i` matches `w` between a byte of class `p` and a byte of class `n` -/
def MatchesAtC (D : VecL) (i : Nat) (p : Cls) (w : List Nat) (n : Cls) : Prop :=
  ∃ r, D[i]? = some r ∧ MatchesC r p w n

def AnyMatchC (D : VecL) (p : Cls) (w : List Nat) (n : Cls) : Prop := ∃ i, MatchesAtC D i p w n

/-- what was read (`u`, after a byte of class `p`) can be extended to a match of some leaf -/
def ViableC (D : VecL) (p : Cls) (u : List Nat) : Prop := ∃ ext n, AnyMatchC D p (u ++ ext) n

def TopMatchC (prios : List Nat) (D : VecL) (l : Nat) (p : Cls) (w : List Nat) (n : Cls) : Prop :=
  MatchesAtC D l p w n ∧ ∀ j, MatchesAtC D j p w n → prioOfC prios j ≤ prioOfC prios l
where prioOfC (prios : List Nat) (i : Nat) : Nat := prios.getD i 0

/-- derivative vector after reading `u` (starting after a byte of class `p`) -/
def derivsVC (p : Cls) (u : List Nat) (Δ : VecL) : VecL :=
  match u with
  | [] => Δ
  | b :: u' => derivsVC (clsB b) u' (derivVC p b Δ)

/-- the oracle is exact on everything reachable from `D` after a byte of class `p0` -/
def VExact (V : VecL → Cls → Bool) (D : VecL) (p0 : Cls) : Prop :=
  ∀ u, V (derivsVC p0 u D) (prevOf p0 u) = true ↔ ViableC D p0 u

theorem matchesAtC_derivsVC (D : VecL) (p : Cls) (u v : List Nat) (n : Cls) (i : Nat) :
    MatchesAtC (derivsVC p u D) i (prevOf p u) v n ↔ MatchesAtC D i p (u ++ v) n := by
  induction u generalizing D p with
  | nil => simp [derivsVC]
  | cons b u ih =>
    have h1 : derivsVC p (b :: u) D = derivsVC (clsB b) u (derivVC p b D) := rfl
    rw [h1, prevOf_cons, ih]
    unfold MatchesAtC derivVC
    rw [List.getElem?_map]
    constructor
    · rintro ⟨r, hr, hm⟩
      cases hD : D[i]? with
      | none => simp [hD] at hr
      | some r0 =>
        simp [hD] at hr
        subst hr
        exact ⟨r0, rfl, (derivCN_correct p b r0 _ _).1 hm⟩
    · rintro ⟨r, hr, hm⟩
      exact ⟨derivCN p b r, by simp [hr], (derivCN_correct p b r _ _).2 hm⟩

/-- invariant of the `winFlagsGo` accumulator after the first `i` flags were inspected -/
def FInv (P : List Nat) (F : List Bool) (i : Nat) : Option (Nat × Nat) → Prop
  | none => ∀ k, k < i → F[k]? = some true → False
  | some (j, q) => q = P.getD j 0 ∧ F[j]? = some true ∧
      ∀ k, k < i → F[k]? = some true → P.getD k 0 ≤ q

theorem FInv_mono {P : List Nat} {F : List Bool} {i i' : Nat} {acc} (h : FInv P F i acc)
    (hi : i' ≤ i) : FInv P F i' acc := by
  cases acc with
  | none => intro k hk; exact h k (by omega)
  | some jq =>
    obtain ⟨j, q⟩ := jq
    obtain ⟨h1, h2, h3⟩ := h
    exact ⟨h1, h2, fun k hk => h3 k (by omega)⟩

theorem drop_cons_getElem?C {α} {l : List α} {i : Nat} {a : α} {t : List α} (h : a :: t = l.drop i) :
    l[i]? = some a ∧ t = l.drop (i+1) ∧ i < l.length := by
  have h0 : (l.drop i)[0]? = some a := by rw [← h]; rfl
  rw [List.getElem?_drop] at h0
  have h1 : (l.drop i).drop 1 = t := by rw [← h]; rfl
  rw [List.drop_drop] at h1
  refine ⟨by simpa using h0, h1.symm, ?_⟩
  have : (l.drop i).length = t.length + 1 := by rw [← h]; rfl
  rw [List.length_drop] at this
  omega

theorem winFlagsGo_inv (P : List Nat) (F : List Bool) (hlen : P.length = F.length) :
    ∀ (fs : List Bool) (ps : List Nat) (i : Nat) (acc : Option (Nat × Nat)),
      ps = P.drop i → fs = F.drop i → FInv P F i acc →
      FInv P F F.length (winFlagsGo i ps fs acc) := by
  intro fs
  induction fs with
  | nil =>
    intro ps i acc _ hfs h
    have hle : F.length ≤ i := by
      have := congrArg List.length hfs
      simp at this; omega
    have : winFlagsGo i ps [] acc = acc := by cases ps <;> simp [winFlagsGo]
    rw [this]
    exact FInv_mono h hle
  | cons f fs ih =>
    intro ps i acc hps hfs h
    obtain ⟨hFi, hfs', hiF⟩ := drop_cons_getElem?C hfs
    cases ps with
    | nil =>
      have := congrArg List.length hps
      simp at this; omega
    | cons p ps =>
      obtain ⟨hPi, hps', hiP⟩ := drop_cons_getElem?C hps
      have hPd : P.getD i 0 = p := by simp [List.getD, hPi]
      simp only [winFlagsGo]
      apply ih ps (i+1) _ hps' hfs'
      cases f with
      | true =>
        simp only [if_true]
        cases acc with
        | none =>
          refine ⟨hPd.symm, hFi, ?_⟩
          intro k hk hk'
          by_cases hki : k < i
          · exact absurd hk' (fun hh => h k hki hh)
          · have : k = i := by omega
            subst this; omega
        | some jq =>
          obtain ⟨j, q⟩ := jq
          obtain ⟨h1, h2, h3⟩ := h
          by_cases hq : q < p
          · simp only [hq, if_true]
            refine ⟨hPd.symm, hFi, ?_⟩
            intro k hk hk'
            by_cases hki : k < i
            · have := h3 k hki hk'; omega
            · have : k = i := by omega
              subst this; omega
          · simp only [hq, if_false]
            refine ⟨h1, h2, ?_⟩
            intro k hk hk'
            by_cases hki : k < i
            · exact h3 k hki hk'
            · have : k = i := by omega
              subst this; omega
      | false =>
        simp only [Bool.false_eq_true, if_false]
        cases acc with
        | none =>
          intro k hk hk'
          by_cases hki : k < i
          · exact h k hki hk'
          · have : k = i := by omega
            subst this; rw [hFi] at hk'; cases hk'
        | some jq =>
          obtain ⟨j, q⟩ := jq
          obtain ⟨h1, h2, h3⟩ := h
          refine ⟨h1, h2, ?_⟩
          intro k hk hk'
          by_cases hki : k < i
          · exact h3 k hki hk'
          · have : k = i := by omega
            subst this; rw [hFi] at hk'; cases hk'

theorem winFlagsGo_final (prios : List Nat) (F : List Bool) (hlen : prios.length = F.length) :
    FInv prios F F.length (winFlagsGo 0 prios F none) :=
  winFlagsGo_inv prios F hlen F prios 0 none (by simp) (by simp) (by intro k hk; omega)

theorem flag_map_iff {Δ : VecL} {p n : Cls} {j : Nat} :
    (Δ.map (nullableC p n))[j]? = some true ↔ MatchesAtC Δ j p [] n := by
  unfold MatchesAtC
  rw [List.getElem?_map]
  constructor
  · intro h
    cases hD : Δ[j]? with
    | none => simp [hD] at h
    | some r =>
      simp [hD] at h
      exact ⟨r, rfl, (nullableC_iff r p n).1 h⟩
  · rintro ⟨r, hr, hm⟩
    simp [hr, (nullableC_iff r p n).2 hm]

theorem winC_some {prios : List Nat} {Δ : VecL} {p n : Cls} {l : Nat} (hlen : prios.length = Δ.length)
    (h : winC prios p n Δ = some l) : TopMatchC prios Δ l p [] n := by
  have hlen' : prios.length = (Δ.map (nullableC p n)).length := by simpa using hlen
  have hinv := winFlagsGo_final prios (Δ.map (nullableC p n)) hlen'
  unfold winC winFlags at h
  cases hw : winFlagsGo 0 prios (Δ.map (nullableC p n)) none with
  | none => rw [hw] at h; cases h
  | some jq =>
    obtain ⟨j, q⟩ := jq
    rw [hw] at h hinv
    simp at h
    subst h
    obtain ⟨h1, h2, h3⟩ := hinv
    refine ⟨flag_map_iff.1 h2, ?_⟩
    intro k hk
    have hk0 := hk
    obtain ⟨r, hr, _⟩ := hk
    have hkl : k < (Δ.map (nullableC p n)).length := by
      have := (List.getElem?_eq_some_iff.1 hr).1; simpa using this
    have := h3 k hkl (flag_map_iff.2 hk0)
    unfold TopMatchC.prioOfC
    omega

theorem winC_none {prios : List Nat} {Δ : VecL} {p n : Cls} (hlen : prios.length = Δ.length) :
    winC prios p n Δ = none ↔ ¬ AnyMatchC Δ p [] n := by
  constructor
  · intro h
    have hlen' : prios.length = (Δ.map (nullableC p n)).length := by simpa using hlen
    have hinv := winFlagsGo_final prios (Δ.map (nullableC p n)) hlen'
    unfold winC winFlags at h
    cases hw : winFlagsGo 0 prios (Δ.map (nullableC p n)) none with
    | some jq => rw [hw] at h; cases h
    | none =>
      rw [hw] at hinv
      rintro ⟨k, hk⟩
      have hk0 := hk
      obtain ⟨r, hr, _⟩ := hk
      have hkl : k < (Δ.map (nullableC p n)).length := by
        have := (List.getElem?_eq_some_iff.1 hr).1; simpa using this
      exact hinv k hkl (flag_map_iff.2 hk0)
  · intro h
    cases hw : winC prios p n Δ with
    | none => rfl
    | some l => exact absurd ⟨l, (winC_some hlen hw).1⟩ h

theorem derivsVC_snoc (p : Cls) (u : List Nat) (b : Nat) (Δ : VecL) :
    derivsVC p (u ++ [b]) Δ = derivVC (prevOf p u) b (derivsVC p u Δ) := by
  induction u generalizing p Δ with
  | nil => simp [derivsVC]
  | cons c u ih =>
    show derivsVC (clsB c) (u ++ [b]) (derivVC p c Δ) = _
    rw [ih, prevOf_cons]; rfl

theorem prevOf_snoc (p : Cls) (u : List Nat) (b : Nat) : prevOf p (u ++ [b]) = clsB b := by
  rw [prevOf_append]; simp [prevOf]

theorem derivsVC_length (p : Cls) (u : List Nat) (D : VecL) :
    (derivsVC p u D).length = D.length := by
  induction u generalizing p D with
  | nil => rfl
  | cons b u ih =>
    show (derivsVC (clsB b) u (derivVC p b D)).length = _
    rw [ih]; simp [derivVC]

theorem anyMatchC_derivsVC (D : VecL) (p : Cls) (u v : List Nat) (n : Cls) :
    AnyMatchC (derivsVC p u D) (prevOf p u) v n ↔ AnyMatchC D p (u ++ v) n := by
  unfold AnyMatchC
  constructor
  · rintro ⟨i, hi⟩; exact ⟨i, (matchesAtC_derivsVC D p u v n i).1 hi⟩
  · rintro ⟨i, hi⟩; exact ⟨i, (matchesAtC_derivsVC D p u v n i).2 hi⟩

theorem topMatchC_derivsVC (prios : List Nat) (D : VecL) (p : Cls) (u : List Nat) (l : Nat)
    (n : Cls) :
    TopMatchC prios (derivsVC p u D) l (prevOf p u) [] n ↔ TopMatchC prios D l p u n := by
  unfold TopMatchC
  simp only [matchesAtC_derivsVC, List.append_nil]

theorem viableC_prefix {D : VecL} {p : Cls} {u v : List Nat} (h : ViableC D p (u ++ v)) :
    ViableC D p u := by
  obtain ⟨ext, n, hext⟩ := h
  exact ⟨v ++ ext, n, by simpa [List.append_assoc] using hext⟩

theorem viableC_take {D : VecL} {p : Cls} {w : List Nat} {m n : Nat} (hmn : m ≤ n)
    (h : ViableC D p (w.take n)) : ViableC D p (w.take m) := by
  have : w.take n = w.take m ++ (w.take n).drop m := by
    have := (List.take_append_drop m (w.take n)).symm
    rwa [List.take_take, Nat.min_eq_left hmn] at this
  rw [this] at h
  exact viableC_prefix h

theorem anyMatchC_viableC {D : VecL} {p : Cls} {u : List Nat} {n : Cls} (h : AnyMatchC D p u n) :
    ViableC D p u :=
  ⟨[], n, by simpa using h⟩

/-- meaning of the `best` accumulator after `n` bytes of `w` were consumed -/
def BestC (prios : List Nat) (D : VecL) (p0 : Cls) (w : List Nat) (s n : Nat) : Rec → Prop
  | none => ∀ m, 0 < m → m ≤ n → ¬ AnyMatchC D p0 (w.take m) (nextOf (w.drop m) .none)
  | some (e, l) => s < e ∧ e ≤ s + n ∧
      TopMatchC prios D l p0 (w.take (e - s)) (nextOf (w.drop (e - s)) .none) ∧
      ∀ m, e - s < m → m ≤ n → ¬ AnyMatchC D p0 (w.take m) (nextOf (w.drop m) .none)

theorem BestC_step {prios : List Nat} {D : VecL} {p0 : Cls} (hlen : prios.length = D.length)
    (w : List Nat) (s n : Nat) (best : Rec) (hb : BestC prios D p0 w s n best) :
    BestC prios D p0 w s (n+1)
      (updC prios (derivsVC p0 (w.take (n+1)) D) (prevOf p0 (w.take (n+1)))
        (nextOf (w.drop (n+1)) .none) (s+n+1) best) := by
  have hlen' : prios.length = (derivsVC p0 (w.take (n+1)) D).length := by
    rw [derivsVC_length]; exact hlen
  unfold updC
  cases hw : winC prios (prevOf p0 (w.take (n+1))) (nextOf (w.drop (n+1)) .none)
      (derivsVC p0 (w.take (n+1)) D) with
  | none =>
    have hno := (winC_none hlen').1 hw
    rw [anyMatchC_derivsVC, List.append_nil] at hno
    cases best with
    | none =>
      intro m hm hmn
      by_cases h : m ≤ n
      · exact hb m hm h
      · have : m = n+1 := by omega
        subst this; exact hno
    | some el =>
      obtain ⟨e, l⟩ := el
      obtain ⟨h1, h2, h3, h4⟩ := hb
      refine ⟨h1, by omega, h3, ?_⟩
      intro m hm hmn
      by_cases h : m ≤ n
      · exact h4 m hm h
      · have : m = n+1 := by omega
        subst this; exact hno
  | some l =>
    have htop := winC_some hlen' hw
    rw [topMatchC_derivsVC] at htop
    refine ⟨by omega, by omega, ?_, ?_⟩
    · have : s + n + 1 - s = n + 1 := by omega
      rw [this]; exact htop
    · intro m hm hmn; omega

theorem scanC_gen {V : VecL → Cls → Bool} {prios : List Nat} {D : VecL} {p0 : Cls}
    (hlen : prios.length = D.length) (hV : VExact V D p0) (w : List Nat) (s : Nat) :
    ∀ (v : List Nat) (n : Nat) (best res : Rec) (off : Nat), n ≤ w.length → v = w.drop n →
      BestC prios D p0 w s n best →
      scanC V prios (derivsVC p0 (w.take n) D) (prevOf p0 (w.take n)) v (s+n) best = (res, off) →
      ∃ n', n ≤ n' ∧ n' ≤ w.length ∧ off = s + n' ∧ BestC prios D p0 w s n' res ∧
        (n < n' → ViableC D p0 (w.take n')) ∧
        (n' < w.length → ¬ ViableC D p0 (w.take (n'+1))) := by
  intro v
  induction v with
  | nil =>
    intro n best res off hn hv hb hs
    simp only [scanC] at hs
    have hle : w.length ≤ n := by
      have := congrArg List.length hv
      simp at this; omega
    cases hs
    exact ⟨n, Nat.le_refl _, hn, rfl, hb, fun h => absurd h (Nat.lt_irrefl _), fun h => by omega⟩
  | cons b v ih =>
    intro n best res off _ hv hb hs
    obtain ⟨hwn, hv', hnlt⟩ := drop_cons_getElem?C hv
    have htake : w.take (n+1) = w.take n ++ [b] := by
      rw [List.take_add_one, hwn]; rfl
    have hΔ : derivVC (prevOf p0 (w.take n)) b (derivsVC p0 (w.take n) D)
        = derivsVC p0 (w.take (n+1)) D := by
      rw [htake, derivsVC_snoc]
    have hcls : clsB b = prevOf p0 (w.take (n+1)) := by
      rw [htake, prevOf_snoc]
    simp only [scanC] at hs
    rw [hΔ, hcls] at hs
    have hstep := BestC_step hlen w s n best hb
    rw [← hv'] at hstep
    by_cases hvi : V (derivsVC p0 (w.take (n+1)) D) (prevOf p0 (w.take (n+1))) = true
    · simp only [hvi, if_true] at hs
      have hVi : ViableC D p0 (w.take (n+1)) := (hV _).1 hvi
      obtain ⟨n', h1, h2, h3, h4, h5, h6⟩ :=
        ih (n+1) _ res off hnlt hv' hstep hs
      refine ⟨n', by omega, h2, h3, h4, ?_, h6⟩
      intro _
      by_cases hlt : n + 1 < n'
      · exact h5 hlt
      · have : n' = n + 1 := by omega
        subst this; exact hVi
    · simp only [hvi] at hs
      cases hs
      refine ⟨n, Nat.le_refl _, by omega, rfl, hb, fun h => absurd h (Nat.lt_irrefl _), ?_⟩
      intro _ hVi
      exact hvi ((hV _).2 hVi)

theorem scanC_gen0 {V : VecL → Cls → Bool} {prios : List Nat} {D : VecL} {p0 : Cls}
    (hlen : prios.length = D.length) (hV : VExact V D p0) (w : List Nat) (s : Nat) (res : Rec)
    (off : Nat) (h : scanC V prios D p0 w s none = (res, off)) :
    ∃ n', n' ≤ w.length ∧ off = s + n' ∧ BestC prios D p0 w s n' res ∧
      (0 < n' → ViableC D p0 (w.take n')) ∧
      (n' < w.length → ¬ ViableC D p0 (w.take (n'+1))) := by
  obtain ⟨n', _, h2, h3, h4, h5, h6⟩ :=
    scanC_gen hlen hV w s w 0 none res off (Nat.zero_le _) (by simp) (by intro m hm hm'; omega)
      (by simpa [derivsVC] using h)
  exact ⟨n', h2, h3, h4, h5, h6⟩

theorem not_anyMatchC_beyond {D : VecL} {p0 : Cls} {w : List Nat} {n m : Nat} {c : Cls}
    (hstop : n < w.length → ¬ ViableC D p0 (w.take (n+1))) (hnm : n < m) (hm : m ≤ w.length) :
    ¬ AnyMatchC D p0 (w.take m) c := by
  intro h
  exact hstop (by omega) (viableC_take (by omega) (anyMatchC_viableC h))

/-- **Longest match, top priority (with look-around).** `w` is the rest of the input after the token
start, which is preceded by a byte of class `p0`; the text after a prefix `w.take m` is `w.drop m`
followed by the end of the input. -/
theorem scanC_some {V : VecL → Cls → Bool} {prios : List Nat} {D : VecL} {p0 : Cls}
    (hlen : prios.length = D.length) (hV : VExact V D p0) (w : List Nat) (s e l off : Nat)
    (h : scanC V prios D p0 w s none = (some (e, l), off)) :
    s < e ∧ e ≤ s + w.length ∧
    TopMatchC prios D l p0 (w.take (e - s)) (nextOf (w.drop (e - s)) .none) ∧
    ∀ m, e - s < m → m ≤ w.length → ¬ AnyMatchC D p0 (w.take m) (nextOf (w.drop m) .none) := by
  obtain ⟨n, hn, hoff, hb, hv, hstop⟩ := scanC_gen0 hlen hV w s _ off h
  obtain ⟨h1, h2, h3, h4⟩ := hb
  refine ⟨h1, by omega, h3, ?_⟩
  intro m hm hml
  by_cases hmn : m ≤ n
  · exact h4 m hm hmn
  · exact not_anyMatchC_beyond hstop (by omega) hml

/-- **No match: where the attempt stops (with look-around).** -/
theorem scanC_none {V : VecL → Cls → Bool} {prios : List Nat} {D : VecL} {p0 : Cls}
    (hlen : prios.length = D.length) (hV : VExact V D p0) (w : List Nat) (s off : Nat)
    (h : scanC V prios D p0 w s none = (none, off)) :
    (∀ m, 0 < m → m ≤ w.length → ¬ AnyMatchC D p0 (w.take m) (nextOf (w.drop m) .none)) ∧
    s ≤ off ∧ off ≤ s + w.length ∧
    (∀ m, 0 < m → m ≤ off - s → ViableC D p0 (w.take m)) ∧
    (off - s < w.length → ¬ ViableC D p0 (w.take (off - s + 1))) := by
  obtain ⟨n, hn, hoff, hb, hv, hstop⟩ := scanC_gen0 hlen hV w s _ off h
  have hop : off - s = n := by omega
  rw [hop]
  refine ⟨?_, by omega, by omega, ?_, hstop⟩
  · intro m hm hml
    by_cases hmn : m ≤ n
    · exact hb m hm hmn
    · exact not_anyMatchC_beyond hstop (by omega) hml
  · intro m hm hmn
    exact viableC_take hmn (hv (by omega))

theorem scanC_finds {V : VecL → Cls → Bool} {prios : List Nat} {D : VecL} {p0 : Cls}
    (hlen : prios.length = D.length) (hV : VExact V D p0) (w : List Nat) (s m : Nat) (hm : 0 < m)
    (hml : m ≤ w.length) (hmatch : AnyMatchC D p0 (w.take m) (nextOf (w.drop m) .none)) :
    ∃ e l off, scanC V prios D p0 w s none = (some (e, l), off) ∧ s + m ≤ e := by
  cases hs : scanC V prios D p0 w s none with
  | mk res off =>
    cases res with
    | none =>
      exact absurd hmatch ((scanC_none hlen hV w s off hs).1 m hm hml)
    | some el =>
      obtain ⟨e, l⟩ := el
      obtain ⟨h1, h2, _, h4⟩ := scanC_some hlen hV w s e l off hs
      refine ⟨e, l, off, rfl, ?_⟩
      by_cases hlt : e - s < m
      · exact absurd hmatch (h4 m hlt hml)
      · omega

end Logos.LK
