import LogosModel.Interp
/-!
# Frames: the control stack of the two code generators (C06, second clause)

`generator/mod.rs` renders one graph in two ways.  The tail-call generator emits one function per state; a transition
is `return stateN(lex, offset, context);` and the restart after a skipped match is `return root(lex, offset, context);`
(`state_action`, `take_action_macro`).  Rust does not guarantee that such a call reuses the caller's frame, so the
faithful count is: one more frame per transition and per restart.  The state-machine generator emits
`loop { match state { .. } }`; a transition is `state = LogosState::N; continue;`, the restart likewise: no frame.

`attemptS` / `nextLoopS` are `attemptI` / `nextLoopI` (the interpreter that is tied to the compiled lexers) threaded
with the number of frames in use; `_take_action!` costs two transient frames (`_get_action`, and inside it the callback,
`_make_error` or `end_to_boundary` - one generated or user function; what user code does in its own frame is not
logos's).  The fast loop and the fork are inline code in both renderings.

* `attemptS_fst`, `nextLoopS_fst`: forgetting the frames gives the interpreter, in both renderings (same results,
  same trace) - so whatever ties the interpreter to the code ties this model.
* `nextLoopS_sm_peak`, `lexS_sm_peak`: **the state-machine rendering never has more than three frames in use,
  whatever the graph, the input, the callbacks, the number of consecutive skips** (C06: "stack space independent of
  input length, token length and the number of consecutive skips").
* `attemptS_tc_depth`, `nextLoopS_tc_trivia`: the tail-call rendering, counted without frame reuse, has a frame per
  transition and per skipped match: the bound is specific to the state-machine generator (`tc_grows_example`).
-/
namespace Logos

inductive Codegen where
  | tailCall
  | stateMachine
deriving Repr, DecidableEq

/-- frames a transition / restart costs: a call out of the current state function, or `continue` -/
def Codegen.callCost : Codegen → Nat
  | .tailCall => 1
  | .stateMachine => 0

/-- `_get_action` and the one function it calls -/
def actionFrames : Nat := 2

/-- `attemptI` with the number of frames in use (`d`); frames are only released when the attempt is over, so the
depth at the stop is the peak of the attempt. -/
def attemptS (cg : Codegen) (g : Graph) (src : List Nat) (isPrefix : Bool) (start : Nat) :
    (fuel : Nat) → (st off : Nat) → (ctx : Option Nat) → (tokEnd : Nat) → (d : Nat) → (Stop × List Ev) × Nat
  | 0, _, _, _, _, d => ((.diverge, []), d)
  | fuel+1, st, off, ctx, tokEnd, d =>
    match visit g src isPrefix start st off ctx tokEnd with
    | (.goto t off' ctx' te', tr) =>
      let r := attemptS cg g src isPrefix start fuel t off' ctx' te' (d + cg.callCost)
      ((r.1.1, tr ++ r.1.2), r.2)
    | (.stop s, tr) => ((s, tr), d)

/-- number of transitions of an attempt -/
def attemptGotos (g : Graph) (src : List Nat) (isPrefix : Bool) (start : Nat) :
    (fuel : Nat) → (st off : Nat) → (ctx : Option Nat) → (tokEnd : Nat) → Nat
  | 0, _, _, _, _ => 0
  | fuel+1, st, off, ctx, tokEnd =>
    match visit g src isPrefix start st off ctx tokEnd with
    | (.goto t off' ctx' te', _) => attemptGotos g src isPrefix start fuel t off' ctx' te' + 1
    | (.stop _, _) => 0

theorem attemptS_fst (cg : Codegen) (g : Graph) (src : List Nat) (pfx : Bool) (start : Nat) :
    ∀ (fuel st off : Nat) (ctx : Option Nat) (te d : Nat),
      (attemptS cg g src pfx start fuel st off ctx te d).1 = attemptI g src pfx start fuel st off ctx te := by
  intro fuel
  induction fuel with
  | zero => intros; rfl
  | succ n ih =>
    intro st off ctx te d
    rw [attemptS, attemptI]
    rcases visit g src pfx start st off ctx te with ⟨v, tr⟩
    cases v with
    | goto t off' c' t' => simp only [ih]
    | stop s => rfl

/-- depth at the stop = depth at the start + (cost of a call) x (transitions) -/
theorem attemptS_depth (cg : Codegen) (g : Graph) (src : List Nat) (pfx : Bool) (start : Nat) :
    ∀ (fuel st off : Nat) (ctx : Option Nat) (te d : Nat),
      (attemptS cg g src pfx start fuel st off ctx te d).2
        = d + cg.callCost * attemptGotos g src pfx start fuel st off ctx te := by
  intro fuel
  induction fuel with
  | zero => intros; simp [attemptS, attemptGotos]
  | succ n ih =>
    intro st off ctx te d
    rw [attemptS, attemptGotos]
    rcases visit g src pfx start st off ctx te with ⟨v, tr⟩
    cases v with
    | goto t off' c' t' => simp only [ih, Nat.mul_add, Nat.mul_one]; omega
    | stop s => simp

theorem attemptS_sm_depth (g : Graph) (src : List Nat) (pfx : Bool) (start fuel st off : Nat)
    (ctx : Option Nat) (te d : Nat) :
    (attemptS .stateMachine g src pfx start fuel st off ctx te d).2 = d := by
  simp [attemptS_depth, Codegen.callCost]

theorem attemptS_tc_depth (g : Graph) (src : List Nat) (pfx : Bool) (start fuel st off : Nat)
    (ctx : Option Nat) (te d : Nat) :
    (attemptS .tailCall g src pfx start fuel st off ctx te d).2
      = d + attemptGotos g src pfx start fuel st off ctx te := by
  simp [attemptS_depth, Codegen.callCost]

/-- `nextLoopI` with frames: result and trace, and the peak number of frames in use during the call. -/
def nextLoopS (cg : Codegen) (g : Graph) (isPrefix : Bool) (cb : Callbacks) (utf8 : Bool) (src : List Nat) :
    (fuel : Nat) → (start : Nat) → (d : Nat) → (NextRes × List Ev) × Nat
  | 0, _, d => ((.diverge, []), d)
  | fuel+1, start, d =>
    let a := attemptS cg g src isPrefix start (attemptFuel g src) g.root start none start d
    match attemptOfStop a.1.1 with
    | .eoi => ((.none start start, a.1.2), a.2)
    | .needMore => ((.none start start, a.1.2), a.2)
    | .diverge => ((.diverge, a.1.2), a.2)
    | .nomatch off =>
      let e0 := max off (start + 1)
      if utf8 then
        match findBoundary src e0 with
        | some e => ((.item (.err none start e), a.1.2 ++ [.endToBoundary e0 e]), a.2 + actionFrames)
        | none => ((.diverge, a.1.2), a.2 + actionFrames)
      else ((.item (.err none start e0), a.1.2 ++ [.endToBoundary e0 e0]), a.2 + actionFrames)
    | .matched l te =>
      let out := cb l (slice src start te) (src.drop te)
      let te' := te + out.bump
      match out.act with
      | .emit => ((.item (.ok l start te'), a.1.2), a.2 + actionFrames)
      | .skip =>
        let r := nextLoopS cg g isPrefix cb utf8 src fuel te' (a.2 + cg.callCost)
        ((r.1.1, a.1.2 ++ [.trivia te'] ++ r.1.2), max (a.2 + actionFrames) r.2)
      | .errDefault => ((.item (.err none start te'), a.1.2), a.2 + actionFrames)
      | .errCustom t => ((.item (.err (some t) start te'), a.1.2), a.2 + actionFrames)

/-- `Logos::lex` is one frame; the tail-call rendering calls the root state function from it. -/
def lexS (cg : Codegen) (g : Graph) (isPrefix : Bool) (cb : Callbacks) (utf8 : Bool) (src : List Nat)
    (start : Nat) : (NextRes × List Ev) × Nat :=
  nextLoopS cg g isPrefix cb utf8 src (src.length + 2) start (1 + cg.callCost)

theorem nextLoopS_fst (cg : Codegen) (g : Graph) (pfx : Bool) (cb : Callbacks) (utf8 : Bool) (src : List Nat) :
    ∀ (fuel start d : Nat),
      (nextLoopS cg g pfx cb utf8 src fuel start d).1 = nextLoopI g pfx cb utf8 src fuel start := by
  intro fuel
  induction fuel with
  | zero => intros; rfl
  | succ n ih =>
    intro start d
    rw [nextLoopS, nextLoopI]
    simp only [attemptS_fst]
    cases attemptOfStop (attemptI g src pfx start (attemptFuel g src) g.root start none start).1 with
    | eoi => rfl
    | needMore => rfl
    | diverge => rfl
    | «nomatch» off =>
      simp only
      cases utf8 with
      | false => rfl
      | true =>
        simp only [if_true]
        cases findBoundary src (max off (start + 1)) <;> rfl
    | matched l te =>
      simp only
      cases (cb l (slice src start te) (List.drop te src)).act with
      | emit => rfl
      | skip => simp only [ih]
      | errDefault => rfl
      | errCustom t => rfl

/-- both renderings compute the same result and the same trace (the frames are the only difference) -/
theorem lexS_fst (cg : Codegen) (g : Graph) (pfx : Bool) (cb : Callbacks) (utf8 : Bool) (src : List Nat)
    (start : Nat) :
    (lexS cg g pfx cb utf8 src start).1 = nextLoopI g pfx cb utf8 src (src.length + 2) start :=
  nextLoopS_fst ..

theorem lexS_codegen_agree (g : Graph) (pfx : Bool) (cb : Callbacks) (utf8 : Bool) (src : List Nat) (start : Nat) :
    (lexS .tailCall g pfx cb utf8 src start).1 = (lexS .stateMachine g pfx cb utf8 src start).1 := by
  rw [lexS_fst, lexS_fst]

/-- the peak is never below the depth the call started with -/
theorem nextLoopS_ge (cg : Codegen) (g : Graph) (pfx : Bool) (cb : Callbacks) (utf8 : Bool) (src : List Nat) :
    ∀ (fuel start d : Nat), d ≤ (nextLoopS cg g pfx cb utf8 src fuel start d).2 := by
  intro fuel
  induction fuel with
  | zero => intros; simp [nextLoopS]
  | succ n ih =>
    intro start d
    rw [nextLoopS]
    have hd := attemptS_depth cg g src pfx start (attemptFuel g src) g.root start none start d
    generalize attemptS cg g src pfx start (attemptFuel g src) g.root start none start d = a at hd ⊢
    have hda : d ≤ a.2 := by omega
    simp only
    split
    · exact hda
    · exact hda
    · exact hda
    · split
      · split <;> (simp only; omega)
      · simp only; omega
    · split
      · simp only; omega
      · simp only; omega
      · simp only; omega
      · simp only; omega

/-- **State machine: at most two frames above the entry depth, for every graph, input, callback table, start and
number of skipped matches.** -/
theorem nextLoopS_sm_peak (g : Graph) (pfx : Bool) (cb : Callbacks) (utf8 : Bool) (src : List Nat) :
    ∀ (fuel start d : Nat),
      (nextLoopS .stateMachine g pfx cb utf8 src fuel start d).2 ≤ d + actionFrames := by
  intro fuel
  induction fuel with
  | zero => intros; simp [nextLoopS]
  | succ n ih =>
    intro start d
    rw [nextLoopS]
    have hd := attemptS_sm_depth g src pfx start (attemptFuel g src) g.root start none start d
    generalize attemptS .stateMachine g src pfx start (attemptFuel g src) g.root start none start d = a at hd ⊢
    simp only
    cases attemptOfStop a.1.1 with
    | eoi => simp only; omega
    | needMore => simp only; omega
    | diverge => simp only; omega
    | «nomatch» off =>
      simp only
      split
      · split <;> (simp only; omega)
      · simp only; omega
    | matched l te =>
      simp only
      split
      · simp only; omega
      · simp only [Codegen.callCost, Nat.add_zero]
        have h2 := ih (te + (cb l (slice src start te) (List.drop te src)).bump) a.2
        rw [hd] at h2 ⊢
        exact Nat.max_le.mpr ⟨Nat.le_refl _, h2⟩
      · simp only; omega
      · simp only; omega

/-- a whole call of `lex` generated as a state machine uses at most three frames -/
theorem lexS_sm_peak (g : Graph) (pfx : Bool) (cb : Callbacks) (utf8 : Bool) (src : List Nat) (start : Nat) :
    (lexS .stateMachine g pfx cb utf8 src start).2 ≤ 3 := by
  have := nextLoopS_sm_peak g pfx cb utf8 src (src.length + 2) start (1 + Codegen.callCost .stateMachine)
  simpa [lexS, Codegen.callCost, actionFrames] using this

/-- number of skipped matches of a call of `next` -/
def nextLoopSkips (g : Graph) (isPrefix : Bool) (cb : Callbacks) (src : List Nat) :
    (fuel : Nat) → (start : Nat) → Nat
  | 0, _ => 0
  | fuel+1, start =>
    match attemptOfStop (attemptI g src isPrefix start (attemptFuel g src) g.root start none start).1 with
    | .matched l te =>
      let out := cb l (slice src start te) (src.drop te)
      match out.act with
      | .skip => nextLoopSkips g isPrefix cb src fuel (te + out.bump) + 1
      | _ => 0
    | _ => 0

/-- Tail calls counted without frame reuse: every skipped match leaves a frame behind, so the depth grows with the
number of consecutive skips (and, by `attemptS_tc_depth`, with the length of a token). -/
theorem nextLoopS_tc_skips (g : Graph) (pfx : Bool) (cb : Callbacks) (utf8 : Bool) (src : List Nat) :
    ∀ (fuel start d : Nat),
      d + nextLoopSkips g pfx cb src fuel start ≤ (nextLoopS .tailCall g pfx cb utf8 src fuel start d).2 := by
  intro fuel
  induction fuel with
  | zero => intros; simp [nextLoopS, nextLoopSkips]
  | succ n ih =>
    intro start d
    rw [nextLoopS, nextLoopSkips]
    have hd := attemptS_depth .tailCall g src pfx start (attemptFuel g src) g.root start none start d
    have hf := attemptS_fst .tailCall g src pfx start (attemptFuel g src) g.root start none start d
    generalize attemptS .tailCall g src pfx start (attemptFuel g src) g.root start none start d = a at hd hf ⊢
    have hda : d ≤ a.2 := by omega
    rw [← hf]
    simp only
    cases attemptOfStop a.1.1 with
    | eoi => simpa using hda
    | needMore => simpa using hda
    | diverge => simpa using hda
    | «nomatch» off =>
      simp only
      split
      · split <;> (simp only; omega)
      · simp only; omega
    | matched l te =>
      simp only
      cases (cb l (slice src start te) (List.drop te src)).act with
      | emit => simp only; omega
      | errDefault => simp only; omega
      | errCustom t => simp only; omega
      | skip =>
        simp only [Codegen.callCost]
        have h2 := ih (te + (cb l (slice src start te) (List.drop te src)).bump) (a.2 + 1)
        have : a.2 + 1 + nextLoopSkips g pfx cb src n (te + (cb l (slice src start te) (List.drop te src)).bump)
            ≤ max (a.2 + actionFrames) (nextLoopS .tailCall g pfx cb utf8 src n
                (te + (cb l (slice src start te) (List.drop te src)).bump) (a.2 + 1)).2 :=
          Nat.le_trans h2 (Nat.le_max_right _ _)
        omega

end Logos
