namespace Logos

/-- UTF-8 framing automaton (Unicode 15, Table 3-7). State 0 = at a scalar boundary; 8 = dead. -/
inductive U where
  | s0 | c1 | c2 | c3 | e0 | ed | f0 | f4 | dead
deriving DecidableEq, Repr

def isCont (b : Nat) : Bool := decide (128 ≤ b) && decide (b < 192)

def ustep : U → Nat → U
  | .s0, b =>
    if b < 128 then .s0
    else if 194 ≤ b ∧ b ≤ 223 then .c1
    else if b = 224 then .e0
    else if (225 ≤ b ∧ b ≤ 236) ∨ b = 238 ∨ b = 239 then .c2
    else if b = 237 then .ed
    else if b = 240 then .f0
    else if 241 ≤ b ∧ b ≤ 243 then .c3
    else if b = 244 then .f4
    else .dead
  | .c1, b => if isCont b then .s0 else .dead
  | .c2, b => if isCont b then .c1 else .dead
  | .c3, b => if isCont b then .c2 else .dead
  | .e0, b => if 160 ≤ b ∧ b ≤ 191 then .c1 else .dead
  | .ed, b => if 128 ≤ b ∧ b ≤ 159 then .c1 else .dead
  | .f0, b => if 144 ≤ b ∧ b ≤ 191 then .c2 else .dead
  | .f4, b => if 128 ≤ b ∧ b ≤ 143 then .c2 else .dead
  | .dead, _ => .dead

def urun (q : U) (l : List Nat) : U := l.foldl ustep q

def validUtf8 (l : List Nat) : Bool := urun .s0 l == .s0

/-- Rust's `str::is_char_boundary` on the byte level. -/
def isBoundary (s : List Nat) (i : Nat) : Bool :=
  if i = 0 then true
  else if i = s.length then true
  else match s[i]? with
    | some b => !isCont b
    | none => false

theorem urun_append (q : U) (a b : List Nat) : urun (urun q a) b = urun q (a ++ b) := by
  simp [urun, List.foldl_append]

theorem urun_dead (l : List Nat) : urun .dead l = .dead := by
  induction l with
  | nil => rfl
  | cons b l ih => simpa [urun, ustep] using ih

theorem s0_cont_dead {b : Nat} (h : isCont b = true) : ustep .s0 b = .dead := by
  simp [isCont] at h
  simp only [ustep]
  repeat (split; omega)
  rfl

theorem nons0_noncont_dead {q : U} {b : Nat} (hq : q ≠ .s0) (h : isCont b = false) : ustep q b = .dead := by
  have hb : ¬ (128 ≤ b ∧ b < 192) := by simpa [isCont] using h
  cases q <;> simp [ustep, isCont] at * <;> omega

theorem urun_cons (q : U) (b : Nat) (l : List Nat) : urun q (b :: l) = urun (ustep q b) l := rfl

/-- if the run over `a ++ b` from s0 is live at the end, it never died -/
theorem prefix_live {q : U} {a b : List Nat} (h : urun q (a ++ b) ≠ .dead) : urun q a ≠ .dead := by
  intro hd
  rw [← urun_append, hd, urun_dead] at h
  exact h rfl

/-- For valid `s`: the automaton is in state s0 after `s[..i]` iff `i` is a char boundary. -/
theorem state0_iff_boundary (s : List Nat) (hv : validUtf8 s = true) (i : Nat) (hi : i ≤ s.length) :
    urun .s0 (s.take i) = .s0 ↔ isBoundary s i = true := by
  have hs : urun .s0 s = .s0 := by simpa [validUtf8] using hv
  have hsplit : s = s.take i ++ s.drop i := (List.take_append_drop i s).symm
  have hrun : urun (urun .s0 (s.take i)) (s.drop i) = .s0 := by
    rw [urun_append, ← hsplit]; exact hs
  unfold isBoundary
  by_cases h0 : i = 0
  · subst h0; simp [urun]
  · by_cases hl : i = s.length
    · subst hl; simp [hs]
    · have hlt : i < s.length := by omega
      simp only [h0, hl, if_false]
      have hget : s[i]? = some s[i] := List.getElem?_eq_getElem hlt
      rw [hget]
      have hdrop : s.drop i = s[i] :: s.drop (i+1) := (List.drop_eq_getElem_cons hlt)
      rw [hdrop, urun_cons] at hrun
      constructor
      · intro hq
        rw [hq] at hrun
        cases hc : isCont s[i] with
        | false => simp [hc]
        | true =>
          rw [s0_cont_dead hc, urun_dead] at hrun; cases hrun
      · intro hb
        have hb' : isCont s[i] = false := by simpa using hb
        cases hq : urun .s0 (s.take i) with
        | s0 => rfl
        | _ =>
          all_goals
            rw [hq] at hrun
            rw [nons0_noncont_dead (by simp) hb', urun_dead] at hrun
            cases hrun

/-- Main lemma: a valid UTF-8 match starting at a boundary of a valid string ends at a boundary. -/
theorem match_end_is_boundary (s : List Nat) (hv : validUtf8 s = true) (i j : Nat)
    (hij : i ≤ j) (hj : j ≤ s.length) (hi : isBoundary s i = true)
    (hm : validUtf8 ((s.take j).drop i) = true) : isBoundary s j = true := by
  have h0 : urun .s0 (s.take i) = .s0 := (state0_iff_boundary s hv i (by omega)).2 hi
  have hm' : urun .s0 ((s.take j).drop i) = .s0 := by simpa [validUtf8] using hm
  have hsplit : s.take j = s.take i ++ (s.take j).drop i := by
    have : (s.take j).take i = s.take i := by rw [List.take_take]; congr 1; omega
    rw [← this]; exact (List.take_append_drop i (s.take j)).symm
  have : urun .s0 (s.take j) = .s0 := by
    rw [hsplit, ← urun_append, h0, hm']
  exact (state0_iff_boundary s hv j hj).1 this

end Logos
