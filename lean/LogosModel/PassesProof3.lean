import LogosModel.Passes
import LogosModel.Lex
import LogosModel.PassesProof
/-!
# What state de-duplication preserves

One round of de-duplication redirects every reference to a state towards the first state with
identical data, merges the byte classes of edges that now share a target, drops the duplicates and
renumbers.  For a graph whose edges out of each state have pairwise disjoint byte classes (each byte has
at most one successor) and whose references stay inside the graph, every match attempt is unchanged, in
ordinary and in partial mode.
-/
namespace Logos.Passes
open Logos

def refsInside (g : Graph) : Bool :=
  decide (g.root < g.states.size) &&
  (List.range g.states.size).all fun s => (children (g.get s)).all fun c => decide (c < g.states.size)


/-! ## End-of-input handling: fuel beyond `size + 1` is irrelevant -/

/-- pigeonhole: `n+1` values below `n` contain a repetition -/
theorem eoiPhp : ∀ n (g : Nat → Nat), (∀ i, i ≤ n → g i < n) →
    ∃ i j, i < j ∧ j ≤ n ∧ g i = g j := by
  intro n
  induction n with
  | zero => intro g h; exact absurd (h 0 (Nat.le_refl _)) (Nat.not_lt_zero _)
  | succ n ih =>
    intro g h
    by_cases hex : ∃ i j, i < j ∧ j ≤ n+1 ∧ g i = g j
    · exact hex
    · exfalso
      have inj : ∀ i j, i < j → j ≤ n+1 → g i ≠ g j := by
        intro i j hij hj he; exact hex ⟨i, j, hij, hj, he⟩
      have hg' : ∀ i, i ≤ n → (if g i = n then g (n+1) else g i) < n := by
        intro i hi
        split
        · have := inj i (n+1) (by omega) (by omega)
          have := h (n+1) (by omega)
          omega
        · have := h i (by omega); omega
      obtain ⟨i, j, hij, hj, he⟩ := ih (fun i => if g i = n then g (n+1) else g i) hg'
      have h1 := inj i j hij (by omega)
      have h2 := inj i (n+1) (by omega) (by omega)
      have h3 := inj j (n+1) (by omega) (by omega)
      split at he <;> split at he <;> omega

theorem atEoi_succ (G : Graph) (ip : Bool) (start F st pos : Nat) (c : Option Nat) (e : Nat) :
    atEoi G ip start (F+1) st pos c e =
      if (!(G.get st).normal.isEmpty || (G.get st).eoi.isSome) && ip then .needMore
      else if st == G.root && start == pos then .endOfInput
      else match (G.get st).eoi with
        | some t => atEoi G ip start F t (pos+1) (record (G.get t) (pos+1) c e).1
                      (record (G.get t) (pos+1) c e).2
        | none => .action pos c e := by
  rfl

theorem atEoi_mono (G : Graph) (ip : Bool) (start : Nat) :
    ∀ F st pos c e, atEoi G ip start F st pos c e ≠ .diverge →
      atEoi G ip start (F+1) st pos c e = atEoi G ip start F st pos c e := by
  intro F
  induction F with
  | zero => intro st pos c e h; simp [atEoi] at h
  | succ F ih =>
    intro st pos c e h
    rw [atEoi_succ G ip start F] at h
    rw [atEoi_succ G ip start (F+1), atEoi_succ G ip start F]
    split
    · rfl
    · split
      · rfl
      · split
        · next t ht =>
          rw [if_neg (by assumption), if_neg (by assumption), ht] at h
          exact ih _ _ _ _ h
        · rfl

theorem atEoi_mono_le (G : Graph) (ip : Bool) (start : Nat) (F st pos : Nat) (c : Option Nat)
    (e : Nat) (h : atEoi G ip start F st pos c e ≠ .diverge) :
    ∀ k, atEoi G ip start (F+k) st pos c e = atEoi G ip start F st pos c e := by
  intro k
  induction k with
  | zero => rfl
  | succ k ih =>
    rw [← Nat.add_assoc, atEoi_mono G ip start (F+k) st pos c e (by rw [ih]; exact h), ih]

def eoiNxt (G : Graph) (ip : Bool) (st : Nat) : Option Nat :=
  if (!(G.get st).normal.isEmpty || (G.get st).eoi.isSome) && ip then none else (G.get st).eoi

def eoiRunD (G : Graph) (ip : Bool) : Nat → Nat → Bool
  | 0, _ => true
  | F+1, st => match eoiNxt G ip st with
    | none => false
    | some t => eoiRunD G ip F t

theorem atEoi_diverge_iff (G : Graph) (ip : Bool) (start : Nat) :
    ∀ F st pos c e, start < pos →
      (atEoi G ip start F st pos c e = .diverge ↔ eoiRunD G ip F st = true) := by
  intro F
  induction F with
  | zero => intro st pos c e _; simp [atEoi, eoiRunD]
  | succ F ih =>
    intro st pos c e hp
    rw [atEoi_succ, eoiRunD, eoiNxt]
    have hne : (start == pos) = false := by simp; omega
    split
    · simp
    · rw [hne, Bool.and_false]
      simp only [Bool.false_eq_true, if_false]
      cases ht : (G.get st).eoi with
      | some t => exact ih t (pos+1) _ _ (by omega)
      | none => simp

def eoiStep (G : Graph) (ip : Bool) (st : Nat) : Nat := (eoiNxt G ip st).getD st

def eoiIt (G : Graph) (ip : Bool) : Nat → Nat → Nat
  | 0, s => s
  | i+1, s => eoiIt G ip i (eoiStep G ip s)

theorem eoiIt_succ' (G : Graph) (ip : Bool) : ∀ i s, eoiIt G ip (i+1) s = eoiStep G ip (eoiIt G ip i s) := by
  intro i
  induction i with
  | zero => intro s; rfl
  | succ i ih => intro s; rw [eoiIt, ih (eoiStep G ip s)]; rfl

theorem eoiIt_add (G : Graph) (ip : Bool) : ∀ i j s, eoiIt G ip (i+j) s = eoiIt G ip i (eoiIt G ip j s) := by
  intro i
  induction i with
  | zero => intro j s; simp [eoiIt]
  | succ i ih =>
    intro j s
    rw [show i + 1 + j = (i + j) + 1 by omega, eoiIt_succ', ih, eoiIt_succ']

theorem eoiRunD_iff (G : Graph) (ip : Bool) : ∀ F s,
    (eoiRunD G ip F s = true ↔ ∀ i, i < F → (eoiNxt G ip (eoiIt G ip i s)).isSome = true) := by
  intro F
  induction F with
  | zero => intro s; simp [eoiRunD]
  | succ F ih =>
    intro s
    rw [eoiRunD]
    constructor
    · intro h i hi
      cases hn : eoiNxt G ip s with
      | none => rw [hn] at h; simp at h
      | some t =>
        rw [hn] at h
        cases i with
        | zero => simp [eoiIt, hn]
        | succ i =>
          have := (ih t).1 h i (by omega)
          simpa [eoiIt, eoiStep, hn] using this
    · intro h
      have h0 := h 0 (by omega)
      cases hn : eoiNxt G ip s with
      | none => simp [eoiIt, hn] at h0
      | some t =>
        simp only
        rw [ih t]
        intro i hi
        have := h (i+1) (by omega)
        simpa [eoiIt, eoiStep, hn] using this

theorem eoiNxt_lt (G : Graph)
    (hin : ∀ s, s < G.states.size → ∀ t, (G.get s).eoi = some t → t < G.states.size)
    (ip : Bool) (s t : Nat) (hs : s < G.states.size) (h : eoiNxt G ip s = some t) :
    t < G.states.size := by
  unfold eoiNxt at h
  split at h
  · simp at h
  · exact hin s hs t h

theorem eoiStep_lt (G : Graph)
    (hin : ∀ s, s < G.states.size → ∀ t, (G.get s).eoi = some t → t < G.states.size)
    (ip : Bool) (s : Nat) (hs : s < G.states.size) : eoiStep G ip s < G.states.size := by
  unfold eoiStep
  cases hn : eoiNxt G ip s with
  | none => simpa using hs
  | some t => simpa using eoiNxt_lt G hin ip s t hs hn

theorem eoiIt_lt (G : Graph)
    (hin : ∀ s, s < G.states.size → ∀ t, (G.get s).eoi = some t → t < G.states.size)
    (ip : Bool) (s : Nat) (hs : s < G.states.size) : ∀ i, eoiIt G ip i s < G.states.size := by
  intro i
  induction i with
  | zero => exact hs
  | succ i ih => rw [eoiIt_succ']; exact eoiStep_lt G hin ip _ ih

theorem eoiRunD_all (G : Graph)
    (hin : ∀ s, s < G.states.size → ∀ t, (G.get s).eoi = some t → t < G.states.size)
    (ip : Bool) (s : Nat) (hs : s < G.states.size) (h : eoiRunD G ip G.states.size s = true) :
    ∀ F, eoiRunD G ip F s = true := by
  obtain ⟨i, j, hij, hj, he⟩ := eoiPhp G.states.size (fun i => eoiIt G ip i s)
    (fun i _ => eoiIt_lt G hin ip s hs i)
  have hall : ∀ m, (eoiNxt G ip (eoiIt G ip m s)).isSome = true := by
    intro m
    induction m using Nat.strongRecOn with
    | _ m ihm =>
      by_cases hm : m < G.states.size
      · exact (eoiRunD_iff G ip _ s).1 h m hm
      · have e1 : eoiIt G ip m s = eoiIt G ip (m - j + i) s := by
          rw [show m = (m - j) + j by omega, eoiIt_add, ← he, ← eoiIt_add]
          congr 1
          omega
        rw [e1]
        exact ihm (m - j + i) (by omega)
  intro F
  exact (eoiRunD_iff G ip F s).2 (fun i _ => hall i)

/-- with references inside the graph, more fuel than `size + 1` never changes the end-of-input result -/
theorem atEoi_fuel (G : Graph)
    (hin : ∀ s, s < G.states.size → ∀ t, (G.get s).eoi = some t → t < G.states.size)
    (ip : Bool) (start st pos : Nat) (ctx : Option Nat) (te : Nat)
    (hst : st < G.states.size) (hpos : start ≤ pos) (F : Nat) (hF : G.states.size + 1 ≤ F) :
    atEoi G ip start F st pos ctx te = atEoi G ip start (G.states.size + 1) st pos ctx te := by
  obtain ⟨F', rfl⟩ : ∃ F', F = F' + 1 := ⟨F - 1, by omega⟩
  rw [atEoi_succ G ip start F', atEoi_succ G ip start G.states.size]
  split
  · rfl
  · split
    · rfl
    · split
      · next t ht =>
        have htl := hin st hst t ht
        by_cases hd : atEoi G ip start G.states.size t (pos+1) (record (G.get t) (pos+1) ctx te).1
                      (record (G.get t) (pos+1) ctx te).2 = .diverge
        · rw [hd]
          have h1 := (atEoi_diverge_iff G ip start _ t (pos+1) _ _ (by omega)).1 hd
          have h2 := eoiRunD_all G hin ip t htl h1 F'
          exact (atEoi_diverge_iff G ip start _ t (pos+1) _ _ (by omega)).2 h2
        · have := atEoi_mono_le G ip start _ t (pos+1) _ _ hd (F' - G.states.size)
          rw [show G.states.size + (F' - G.states.size) = F' by omega] at this
          exact this
      · rfl

/-! ## `mergeEdges` -/

/-! # `mergeEdges`: grouping by target and sorting preserves the successor function -/

/-- the fold function of `mergeEdges` -/
def meStep (acc : List Edge) (e : Edge) : List Edge :=
  if acc.any (·.target == e.target) then
    acc.map fun a => if a.target == e.target then { a with ranges := Emit.mergeRanges a.ranges e.ranges } else a
  else acc ++ [e]

def meGrouped (es : List Edge) : List Edge := es.foldl meStep []

theorem mergeEdges_eq (es : List Edge) :
    mergeEdges es = (meGrouped es).mergeSort fun a b => a.target ≤ b.target := rfl

theorem mergeEdges_perm (es : List Edge) : (mergeEdges es).Perm (meGrouped es) := by
  rw [mergeEdges_eq]; exact List.mergeSort_perm _ _

/-- some edge of `l` with target `t` contains `b` -/
def meHas (l : List Edge) (t b : Nat) : Bool :=
  l.any fun a => a.target == t && inRanges a.ranges b

theorem meHas_iff (l : List Edge) (t b : Nat) :
    meHas l t b = true ↔ ∃ a ∈ l, a.target = t ∧ inRanges a.ranges b = true := by
  simp [meHas]

theorem meHas_append (l l' : List Edge) (t b : Nat) :
    meHas (l ++ l') t b = (meHas l t b || meHas l' t b) := by
  simp [meHas]

theorem meHas_map (acc : List Edge) (e : Edge) (t b : Nat) (hb : b < 256) :
    meHas (acc.map fun a => if a.target == e.target then
        { a with ranges := Emit.mergeRanges a.ranges e.ranges } else a) t b
      = (meHas acc t b || (acc.any (·.target == e.target) && (e.target == t && inRanges e.ranges b))) := by
  induction acc with
  | nil => simp [meHas]
  | cons a acc ih =>
    have ih' := ih
    simp only [meHas] at ih' ⊢
    simp only [List.map_cons, List.any_cons]
    rw [ih']
    by_cases hae : a.target = e.target
    · simp only [hae, beq_self_eq_true, if_true, Emit.mergeRanges_sem _ _ _ hb, Bool.true_or, Bool.true_and]
      cases (e.target == t) <;> cases (inRanges a.ranges b) <;> cases (inRanges e.ranges b) <;> simp
    · have : (a.target == e.target) = false := by simp [hae]
      simp only [this, Bool.false_or]
      simp only [Bool.false_eq_true, if_false]
      cases (a.target == t && inRanges a.ranges b) <;> simp

theorem meHas_step (acc : List Edge) (e : Edge) (t b : Nat) (hb : b < 256) :
    meHas (meStep acc e) t b = (meHas acc t b || (e.target == t && inRanges e.ranges b)) := by
  unfold meStep
  split
  · next h => rw [meHas_map _ _ _ _ hb, h]; simp
  · rw [meHas_append]; simp [meHas]

theorem meHas_foldl (es acc : List Edge) (t b : Nat) (hb : b < 256) :
    meHas (es.foldl meStep acc) t b = (meHas acc t b || meHas es t b) := by
  induction es generalizing acc with
  | nil => simp [meHas]
  | cons e es ih =>
    rw [List.foldl_cons, ih, meHas_step _ _ _ _ hb]
    simp [meHas, Bool.or_assoc]

theorem meHas_grouped (es : List Edge) (t b : Nat) (hb : b < 256) :
    meHas (meGrouped es) t b = meHas es t b := by
  unfold meGrouped; rw [meHas_foldl _ _ _ _ hb]; simp [meHas]

/-! ## targets -/

theorem meStep_targets (acc : List Edge) (e : Edge) :
    (meStep acc e).map (·.target)
      = if (acc.map (·.target)).contains e.target then acc.map (·.target)
        else acc.map (·.target) ++ [e.target] := by
  have hc : (acc.map (·.target)).contains e.target = acc.any (·.target == e.target) := by
    induction acc with
    | nil => simp
    | cons a acc ih =>
      simp only [List.map_cons, List.contains_cons, List.any_cons, ih]
      rw [Bool.beq_comm]
  rw [hc]
  unfold meStep
  split
  · rw [List.map_map]
    apply List.map_congr_left
    intro a _
    simp only [Function.comp]
    split <;> rfl
  · simp

theorem meStep_mem_targets (acc : List Edge) (e : Edge) (t : Nat) :
    t ∈ (meStep acc e).map (·.target) ↔ t ∈ acc.map (·.target) ∨ t = e.target := by
  rw [meStep_targets]
  split
  · next h =>
    have : e.target ∈ acc.map (·.target) := by simpa using h
    constructor
    · intro h; exact Or.inl h
    · rintro (h | h)
      · exact h
      · rw [h]; exact this
  · simp

theorem meStep_nodup (acc : List Edge) (e : Edge) (h : (acc.map (·.target)).Nodup) :
    ((meStep acc e).map (·.target)).Nodup := by
  rw [meStep_targets]
  split
  · exact h
  · next hc =>
    have hn : e.target ∉ acc.map (·.target) := by simpa using hc
    rw [List.nodup_append]
    refine ⟨h, by simp, ?_⟩
    intro a ha b hb
    simp at hb
    intro hab
    rw [hab, hb] at ha
    exact hn ha

theorem meFoldl_mem_targets (es acc : List Edge) (t : Nat) :
    t ∈ (es.foldl meStep acc).map (·.target) ↔ t ∈ acc.map (·.target) ∨ t ∈ es.map (·.target) := by
  induction es generalizing acc with
  | nil => simp
  | cons e es ih =>
    rw [List.foldl_cons, ih, meStep_mem_targets]
    simp only [List.map_cons, List.mem_cons]
    rw [or_assoc]

theorem meFoldl_nodup (es acc : List Edge) (h : (acc.map (·.target)).Nodup) :
    ((es.foldl meStep acc).map (·.target)).Nodup := by
  induction es generalizing acc with
  | nil => exact h
  | cons e es ih => rw [List.foldl_cons]; exact ih _ (meStep_nodup _ _ h)

theorem meGrouped_mem_targets (es : List Edge) (t : Nat) :
    t ∈ (meGrouped es).map (·.target) ↔ t ∈ es.map (·.target) := by
  unfold meGrouped; rw [meFoldl_mem_targets]; simp

theorem meGrouped_nodup (es : List Edge) : ((meGrouped es).map (·.target)).Nodup := by
  unfold meGrouped; exact meFoldl_nodup _ _ (by simp)

/-! ## list helpers -/

theorem filter_le_one_unique {α} (p : α → Bool) (l : List α) (h : (l.filter p).length ≤ 1)
    {x y : α} (hx : x ∈ l) (hy : y ∈ l) (px : p x = true) (py : p y = true) : x = y := by
  have hx' : x ∈ l.filter p := List.mem_filter.2 ⟨hx, px⟩
  have hy' : y ∈ l.filter p := List.mem_filter.2 ⟨hy, py⟩
  match hf : l.filter p, h with
  | [], _ => rw [hf] at hx'; cases hx'
  | [z], _ =>
    rw [hf] at hx' hy'
    simp at hx' hy'
    rw [hx', hy']
  | _ :: _ :: _, h => simp at h

theorem filter_le_one_of_nodup (p : Edge → Bool) (l : List Edge)
    (hn : (l.map (·.target)).Nodup)
    (hu : ∀ x ∈ l, ∀ y ∈ l, p x = true → p y = true → x.target = y.target) :
    (l.filter p).length ≤ 1 := by
  induction l with
  | nil => simp
  | cons x l ih =>
    rw [List.map_cons, List.nodup_cons] at hn
    have ih' := ih hn.2 (fun a ha c hc => hu a (List.mem_cons_of_mem _ ha) c (List.mem_cons_of_mem _ hc))
    by_cases px : p x = true
    · have : l.filter p = [] := by
        rw [List.filter_eq_nil_iff]
        intro y hy py
        have := hu x (List.mem_cons_self ..) y (List.mem_cons_of_mem _ hy) px py
        apply hn.1
        rw [this]
        exact List.mem_map_of_mem hy
      simp [px, this]
    · simp [px, ih']

/-! ## the four theorems -/

/-- an edge of `mergeEdges es` containing `b` comes from an edge of `es` with the same target containing `b` -/
theorem mergeEdges_has_back (es : List Edge) (b : Nat) (hb : b < 256) (x : Edge)
    (hx : x ∈ mergeEdges es) (px : inRanges x.ranges b = true) :
    ∃ e ∈ es, e.target = x.target ∧ inRanges e.ranges b = true := by
  have hx' : x ∈ meGrouped es := (mergeEdges_perm es).mem_iff.1 hx
  have : meHas (meGrouped es) x.target b = true := (meHas_iff _ _ _).2 ⟨x, hx', rfl, px⟩
  rw [meHas_grouped _ _ _ hb] at this
  exact (meHas_iff _ _ _).1 this

/-- an edge of `es` containing `b` gives an edge of `mergeEdges es` with the same target containing `b` -/
theorem mergeEdges_has_forth (es : List Edge) (b : Nat) (hb : b < 256) (e : Edge)
    (he : e ∈ es) (pe : inRanges e.ranges b = true) :
    ∃ x ∈ mergeEdges es, x.target = e.target ∧ inRanges x.ranges b = true := by
  have : meHas es e.target b = true := (meHas_iff _ _ _).2 ⟨e, he, rfl, pe⟩
  rw [← meHas_grouped _ _ _ hb] at this
  obtain ⟨x, hx, ht, px⟩ := (meHas_iff _ _ _).1 this
  exact ⟨x, (mergeEdges_perm es).mem_iff.2 hx, ht, px⟩

/-- a byte contained in at most one edge: the successor is unchanged by grouping and sorting -/
theorem mergeEdges_find (es : List Edge) (b : Nat) (hb : b < 256)
    (h : (es.filter fun e => inRanges e.ranges b).length ≤ 1) :
    ((mergeEdges es).find? fun e => inRanges e.ranges b).map (·.target)
      = (es.find? fun e => inRanges e.ranges b).map (·.target) := by
  cases hes : es.find? fun e => inRanges e.ranges b with
  | none =>
    rw [List.find?_eq_none] at hes
    have : (mergeEdges es).find? (fun e => inRanges e.ranges b) = none := by
      rw [List.find?_eq_none]
      intro x hx px
      obtain ⟨e, he, _, pe⟩ := mergeEdges_has_back es b hb x hx px
      exact hes e he pe
    rw [this]
  | some e =>
    have pe : inRanges e.ranges b = true := by simpa using List.find?_some hes
    have he : e ∈ es := List.mem_of_find?_eq_some hes
    cases hm : (mergeEdges es).find? fun e => inRanges e.ranges b with
    | none =>
      rw [List.find?_eq_none] at hm
      obtain ⟨x, hx, _, px⟩ := mergeEdges_has_forth es b hb e he pe
      exact absurd px (hm x hx)
    | some y =>
      have py : inRanges y.ranges b = true := by simpa using List.find?_some hm
      have hy : y ∈ mergeEdges es := List.mem_of_find?_eq_some hm
      obtain ⟨e', he', ht, pe'⟩ := mergeEdges_has_back es b hb y hy py
      have : e' = e := filter_le_one_unique (fun e => inRanges e.ranges b) es h he' he pe' pe
      simp only [Option.map_some]
      rw [← ht, this]

theorem mergeEdges_disjoint (es : List Edge) (b : Nat) (hb : b < 256)
    (h : (es.filter fun e => inRanges e.ranges b).length ≤ 1) :
    ((mergeEdges es).filter fun e => inRanges e.ranges b).length ≤ 1 := by
  rw [((mergeEdges_perm es).filter _).length_eq]
  apply filter_le_one_of_nodup _ _ (meGrouped_nodup es)
  intro x hx y hy px py
  have hx' := (mergeEdges_perm es).mem_iff.2 hx
  have hy' := (mergeEdges_perm es).mem_iff.2 hy
  obtain ⟨e1, he1, ht1, pe1⟩ := mergeEdges_has_back es b hb x hx' px
  obtain ⟨e2, he2, ht2, pe2⟩ := mergeEdges_has_back es b hb y hy' py
  have : e1 = e2 := filter_le_one_unique (fun e => inRanges e.ranges b) es h he1 he2 pe1 pe2
  rw [← ht1, ← ht2, this]

theorem mergeEdges_isEmpty (es : List Edge) : (mergeEdges es).isEmpty = es.isEmpty := by
  rw [(mergeEdges_perm es).isEmpty_eq]
  cases es with
  | nil => rfl
  | cons e es =>
    have : e.target ∈ (meGrouped (e :: es)).map (·.target) := by
      rw [meGrouped_mem_targets]; simp
    cases hg : meGrouped (e :: es) with
    | nil => rw [hg] at this; simp at this
    | cons _ _ => rfl

theorem mergeEdges_target (es : List Edge) : ∀ e ∈ mergeEdges es, ∃ e' ∈ es, e'.target = e.target := by
  intro e he
  have he' : e ∈ meGrouped es := (mergeEdges_perm es).mem_iff.1 he
  have : e.target ∈ (meGrouped es).map (·.target) := List.mem_map_of_mem he'
  rw [meGrouped_mem_targets] at this
  obtain ⟨e', he', ht⟩ := List.mem_map.1 this
  exact ⟨e', he', ht⟩

/-! ## canonical representatives, kept states, renumbering -/

def canonOf (g : Graph) (s : Nat) : Nat :=
  ((List.range g.states.size).find? fun t => g.get t == g.get s).getD s

def keepOf (g : Graph) : List Nat := (List.range g.states.size).filter fun s => canonOf g s == s

def retarget (f : Nat → Nat) (e : Edge) : Edge := { e with target := f e.target }

def g1Of (g : Graph) : Graph :=
  { root := canonOf g g.root
    states := (List.range g.states.size).toArray.map fun s =>
      let sd := g.get s
      { sd with normal := mergeEdges (sd.normal.map fun e => { e with target := canonOf g e.target }),
                eoi := sd.eoi.map (canonOf g) } }

theorem dedupStep_eq (g : Graph) :
    dedupStep g = retain (g1Of g) (keepOf g) (renumber (keepOf g)) := rfl

theorem canon_spec (g : Graph) {s : Nat} (hs : s < g.states.size) :
    canonOf g s ≤ s ∧ g.get (canonOf g s) = g.get s ∧
      (List.range g.states.size).find? (fun t => g.get t == g.get s) = some (canonOf g s) := by
  have hsome : ((List.range g.states.size).find? fun t => g.get t == g.get s).isSome = true :=
    List.find?_isSome.mpr ⟨s, List.mem_range.mpr hs, by simp⟩
  unfold canonOf
  cases hf : (List.range g.states.size).find? (fun t => g.get t == g.get s) with
  | none => simp [hf] at hsome
  | some c =>
    simp only [Option.getD_some]
    have h := List.find?_range_eq_some.mp hf
    refine ⟨?_, by simpa using h.1, trivial⟩
    apply Nat.le_of_not_lt
    intro hlt
    have := h.2.2 s hlt
    simp at this

theorem canon_le (g : Graph) {s : Nat} (hs : s < g.states.size) : canonOf g s ≤ s := (canon_spec g hs).1
theorem canon_lt (g : Graph) {s : Nat} (hs : s < g.states.size) : canonOf g s < g.states.size :=
  Nat.lt_of_le_of_lt (canon_le g hs) hs
theorem canon_get (g : Graph) {s : Nat} (hs : s < g.states.size) : g.get (canonOf g s) = g.get s :=
  (canon_spec g hs).2.1

theorem canon_congr (g : Graph) {s s' : Nat} (hs : s < g.states.size) (h : g.get s' = g.get s) :
    canonOf g s' = canonOf g s := by
  have h3 := (canon_spec g hs).2.2
  have : canonOf g s' = ((List.range g.states.size).find? fun t => g.get t == g.get s).getD s' := by
    unfold canonOf; rw [h]
  rw [this, h3]; rfl

theorem canon_idem (g : Graph) {s : Nat} (hs : s < g.states.size) :
    canonOf g (canonOf g s) = canonOf g s := canon_congr g hs (canon_get g hs)

theorem mem_keep (g : Graph) {k : Nat} : k ∈ keepOf g ↔ k < g.states.size ∧ canonOf g k = k := by
  simp [keepOf, List.mem_filter]

theorem canon_mem_keep (g : Graph) {s : Nat} (hs : s < g.states.size) : canonOf g s ∈ keepOf g :=
  (mem_keep g).mpr ⟨canon_lt g hs, canon_idem g hs⟩

theorem renumber_spec {keep : List Nat} {k : Nat} (hk : k ∈ keep) :
    ∃ h : renumber keep k < keep.length, keep[renumber keep k] = k := by
  unfold renumber
  have hsome : (keep.idxOf? k).isSome = true := by
    simp only [List.idxOf?, List.findIdx?_isSome, List.any_eq_true]
    exact ⟨k, hk, by simp⟩
  cases hi : keep.idxOf? k with
  | none => simp [hi] at hsome
  | some i =>
    have := Emit.idxOf?_getElem? _ _ _ hi
    simp only [Option.getD_some]
    rw [List.getElem?_eq_some_iff] at this
    exact this

/-- the renumbered canonical representative -/
def fOf (g : Graph) (s : Nat) : Nat := renumber (keepOf g) (canonOf g s)

theorem f_spec (g : Graph) {s : Nat} (hs : s < g.states.size) :
    ∃ h : fOf g s < (keepOf g).length, (keepOf g)[fOf g s] = canonOf g s :=
  renumber_spec (canon_mem_keep g hs)


def newNormal (g : Graph) (k : Nat) : List Edge :=
  (mergeEdges ((g.get k).normal.map (retarget (canonOf g)))).map (retarget (renumber (keepOf g)))

def newData (g : Graph) (k : Nat) : StateData :=
  { g.get k with normal := newNormal g k, eoi := (g.get k).eoi.map (fOf g) }

theorem g1_get (g : Graph) {k : Nat} (hk : k < g.states.size) :
    (g1Of g).get k = { g.get k with
      normal := mergeEdges ((g.get k).normal.map (retarget (canonOf g))),
      eoi := (g.get k).eoi.map (canonOf g) } := by
  simp [g1Of, Graph.get, Array.getD, hk]
  rfl

theorem dedup_size (g : Graph) : (dedupStep g).states.size = (keepOf g).length := by
  simp [dedupStep_eq, retain]

theorem dedup_root (g : Graph) : (dedupStep g).root = fOf g g.root := rfl

theorem dedup_get_idx (g : Graph) {i : Nat} (hi : i < (keepOf g).length) :
    (dedupStep g).get i = newData g (keepOf g)[i] := by
  have hk : (keepOf g)[i] < g.states.size := ((mem_keep g).mp (List.getElem_mem hi)).1
  have : (dedupStep g).get i =
      (let sd := (g1Of g).get (keepOf g)[i]
       { sd with normal := sd.normal.map (fun e => { e with target := renumber (keepOf g) e.target }),
                 eoi := sd.eoi.map (renumber (keepOf g)) }) := by
    simp [dedupStep_eq, retain, Graph.get, Array.getD, hi]
  rw [this, g1_get g hk]
  simp [newData, newNormal, Option.map_map]
  constructor
  · intros; rfl
  · rfl

theorem dedup_get (g : Graph) {s : Nat} (hs : s < g.states.size) :
    (dedupStep g).get (fOf g s) = newData g s := by
  obtain ⟨h, hk⟩ := f_spec g hs
  rw [dedup_get_idx g h, hk]
  simp [newData, newNormal, canon_get g hs]


/-! ### side conditions, pointwise -/

theorem refs_root {g : Graph} (h1 : refsInside g = true) : g.root < g.states.size := by
  simp only [refsInside, Bool.and_eq_true, decide_eq_true_eq] at h1
  exact h1.1

theorem refs_child {g : Graph} (h1 : refsInside g = true) {s c : Nat} (hs : s < g.states.size)
    (hc : c ∈ children (g.get s)) : c < g.states.size := by
  simp only [refsInside, Bool.and_eq_true, decide_eq_true_eq, List.all_eq_true, List.mem_range] at h1
  exact h1.2 s hs c hc

theorem disj_get {g : Graph} (h2 : edgesDisjoint g = true) {s b : Nat} (hs : s < g.states.size)
    (hb : b < 256) : ((g.get s).normal.filter fun e => inRanges e.ranges b).length ≤ 1 := by
  simp only [edgesDisjoint, List.all_eq_true, List.mem_range, decide_eq_true_eq] at h2
  exact h2 s hs b hb

/-! ### the transition function of the new graph -/

theorem filter_retarget (f : Nat → Nat) (es : List Edge) (b : Nat) :
    ((es.map (retarget f)).filter fun e => inRanges e.ranges b).length
      = (es.filter fun e => inRanges e.ranges b).length := by
  rw [List.filter_map, List.length_map]
  rfl

theorem find_retarget (f : Nat → Nat) (es : List Edge) (b : Nat) :
    (((es.map (retarget f)).find? fun e => inRanges e.ranges b)).map (·.target)
      = ((es.find? fun e => inRanges e.ranges b).map (·.target)).map f := by
  rw [List.find?_map, Option.map_map, Option.map_map]
  rfl

theorem new_next {g : Graph} (h2 : edgesDisjoint g = true) {s b : Nat} (hs : s < g.states.size)
    (hb : b < 256) : (newData g s).next b = ((g.get s).next b).map (fOf g) := by
  unfold StateData.next
  show ((newNormal g s).find? fun e => inRanges e.ranges b).map (·.target) = _
  unfold newNormal
  rw [find_retarget, mergeEdges_find _ b hb, find_retarget, Option.map_map]
  · rfl
  · rw [filter_retarget]; exact disj_get h2 hs hb

theorem new_isEmpty (g : Graph) (s : Nat) : (newNormal g s).isEmpty = (g.get s).normal.isEmpty := by
  unfold newNormal
  rw [List.isEmpty_map, mergeEdges_isEmpty, List.isEmpty_map]

theorem new_record (g : Graph) (s pos : Nat) (ctx : Option Nat) (te : Nat) :
    record (newData g s) pos ctx te = record (g.get s) pos ctx te := rfl


/-! ### the lock-step simulation -/

theorem f_lt (g : Graph) {s : Nat} (hs : s < g.states.size) : fOf g s < (keepOf g).length :=
  (f_spec g hs).1

theorem dd_atEoi_sim {g : Graph} (h1 : refsInside g = true) (ip : Bool) (start : Nat) :
    ∀ (F s pos : Nat) (ctx : Option Nat) (te : Nat), s < g.states.size → start ≤ pos →
      (start = pos → s = g.root) →
      atEoi (dedupStep g) ip start F (fOf g s) pos ctx te = atEoi g ip start F s pos ctx te := by
  intro F
  induction F with
  | zero => intros; rfl
  | succ F ih =>
    intro s pos ctx te hs hpos hroot
    rw [atEoi, atEoi]
    simp only [dedup_get g hs, dedup_root]
    have hw : (!(newData g s).normal.isEmpty || (newData g s).eoi.isSome)
        = (!(g.get s).normal.isEmpty || (g.get s).eoi.isSome) := by
      show (!(newNormal g s).isEmpty || ((g.get s).eoi.map (fOf g)).isSome) = _
      rw [new_isEmpty, Option.isSome_map]
    have hr : (fOf g s == fOf g g.root && start == pos) = (s == g.root && start == pos) := by
      by_cases hsp : start = pos
      · rw [hroot hsp]; simp
      · have : (start == pos) = false := beq_eq_false_iff_ne.mpr hsp
        rw [this]; simp
    rw [hw, hr]
    split
    · rfl
    · split
      · rfl
      · have hnew : (newData g s).eoi = (g.get s).eoi.map (fOf g) := rfl
        rw [hnew]
        cases he : (g.get s).eoi with
        | none => rfl
        | some t =>
          have ht : t < g.states.size := refs_child h1 hs (eoi_mem_children he)
          simp only [Option.map_some, dedup_get g ht, new_record]
          exact ih t (pos+1) _ _ ht (by omega) (by omega)


/-- end-of-input targets of the new graph stay inside it -/
theorem dedup_eoi_inside {g : Graph} (h1 : refsInside g = true) :
    ∀ i, i < (dedupStep g).states.size → ∀ t, ((dedupStep g).get i).eoi = some t →
      t < (dedupStep g).states.size := by
  intro i hi t ht
  rw [dedup_size] at hi ⊢
  rw [dedup_get_idx g hi] at ht
  have hk : (keepOf g)[i] < g.states.size := ((mem_keep g).mp (List.getElem_mem hi)).1
  have ht' : (g.get (keepOf g)[i]).eoi.map (fOf g) = some t := ht
  cases he : (g.get (keepOf g)[i]).eoi with
  | none => rw [he] at ht'; simp at ht'
  | some u =>
    rw [he] at ht'
    simp only [Option.map_some, Option.some.injEq] at ht'
    rw [← ht']
    exact f_lt g (refs_child h1 hk (eoi_mem_children he))

theorem keep_length_le (g : Graph) : (keepOf g).length ≤ g.states.size := by
  unfold keepOf
  have := List.length_filter_le (fun s => canonOf g s == s) (List.range g.states.size)
  simpa using this

theorem dd_walk_sim {g : Graph} (h1 : refsInside g = true) (h2 : edgesDisjoint g = true)
    (ip : Bool) (start : Nat) :
    ∀ (rest : List Nat) (s pos : Nat) (ctx : Option Nat) (te : Nat), s < g.states.size → start ≤ pos →
      (start = pos → s = g.root) → (∀ b ∈ rest, b < 256) →
      walk (dedupStep g) ip start (fOf g s) rest pos ctx te = walk g ip start s rest pos ctx te := by
  intro rest
  induction rest with
  | nil =>
    intro s pos ctx te hs hpos hroot _
    simp only [walk, dedup_get g hs, new_record]
    have hf : fOf g s < (dedupStep g).states.size := by rw [dedup_size]; exact f_lt g hs
    rw [← atEoi_fuel (dedupStep g) (dedup_eoi_inside h1) ip start (fOf g s) pos _ _ hf hpos
      (g.states.size + 1) (by rw [dedup_size]; have := keep_length_le g; omega)]
    exact dd_atEoi_sim h1 ip start _ s pos _ _ hs hpos hroot
  | cons b rest ih =>
    intro s pos ctx te hs hpos hroot hb
    simp only [walk, dedup_get g hs, new_record]
    rw [new_next h2 hs (hb b (by simp))]
    cases hn : (g.get s).next b with
    | none => rfl
    | some t =>
      simp only [Option.map_some]
      have ht : t < g.states.size := refs_child h1 hs (next_mem_children hn)
      exact ih t (pos+1) _ _ ht (by omega) (by omega) (fun b' hb' => hb b' (by simp [hb']))

/-! ## the theorems -/

/-- **De-duplication does not change one match attempt.** -/
theorem dedupStep_walkAttempt (g : Graph) (h1 : refsInside g = true) (h2 : edgesDisjoint g = true)
    (isPrefix : Bool) (inp : List Nat) (hb : ∀ b ∈ inp, b < 256) (start : Nat) :
    walkAttempt (dedupStep g) isPrefix inp start = walkAttempt g isPrefix inp start := by
  unfold walkAttempt
  rw [dedup_root]
  congr 1
  exact dd_walk_sim h1 h2 isPrefix start _ g.root start none start (refs_root h1) (Nat.le_refl _)
    (fun _ => rfl) (fun b hb' => hb b (List.mem_of_mem_drop hb'))


/-- de-duplication keeps the side conditions, so the theorem applies to every round of the loop -/
theorem dedupStep_keeps (g : Graph) (h1 : refsInside g = true) (h2 : edgesDisjoint g = true) :
    refsInside (dedupStep g) = true ∧ edgesDisjoint (dedupStep g) = true := by
  constructor
  · simp only [refsInside, Bool.and_eq_true, decide_eq_true_eq, List.all_eq_true, List.mem_range]
    refine ⟨?_, ?_⟩
    · rw [dedup_root, dedup_size]; exact f_lt g (refs_root h1)
    · intro i hi c hc
      rw [dedup_size] at hi ⊢
      rw [dedup_get_idx g hi] at hc
      have hk : (keepOf g)[i] < g.states.size := ((mem_keep g).mp (List.getElem_mem hi)).1
      simp only [children, List.mem_append, List.mem_map, Option.mem_toList] at hc
      rcases hc with ⟨e, he, rfl⟩ | hc
      · have he' : e ∈ newNormal g (keepOf g)[i] := he
        unfold newNormal at he'
        rw [List.mem_map] at he'
        obtain ⟨e1, he1, rfl⟩ := he'
        obtain ⟨e2, he2, h21⟩ := mergeEdges_target _ e1 he1
        rw [List.mem_map] at he2
        obtain ⟨e3, he3, rfl⟩ := he2
        have h3 : e3.target < g.states.size :=
          refs_child h1 hk (by simp only [children, List.mem_append, List.mem_map]; exact Or.inl ⟨e3, he3, rfl⟩)
        show renumber (keepOf g) e1.target < _
        rw [← h21]
        exact f_lt g h3
      · have hc' : (g.get (keepOf g)[i]).eoi.map (fOf g) = some c := hc
        cases he : (g.get (keepOf g)[i]).eoi with
        | none => rw [he] at hc'; simp at hc'
        | some u =>
          rw [he] at hc'
          simp only [Option.map_some, Option.some.injEq] at hc'
          rw [← hc']
          exact f_lt g (refs_child h1 hk (eoi_mem_children he))
  · simp only [edgesDisjoint, List.all_eq_true, List.mem_range, decide_eq_true_eq]
    intro i hi b hb
    rw [dedup_size] at hi
    rw [dedup_get_idx g hi]
    have hk : (keepOf g)[i] < g.states.size := ((mem_keep g).mp (List.getElem_mem hi)).1
    show ((newNormal g (keepOf g)[i]).filter fun e => inRanges e.ranges b).length ≤ 1
    unfold newNormal
    rw [filter_retarget]
    apply mergeEdges_disjoint _ b hb
    rw [filter_retarget]
    exact disj_get h2 hk hb

theorem dedupLoop_walkAttempt (fuel : Nat) (g : Graph) (h1 : refsInside g = true) (h2 : edgesDisjoint g = true)
    (isPrefix : Bool) (inp : List Nat) (hb : ∀ b ∈ inp, b < 256) (start : Nat) :
    walkAttempt (dedupLoop fuel g) isPrefix inp start = walkAttempt g isPrefix inp start := by
  induction fuel generalizing g with
  | zero => rfl
  | succ fuel ih =>
    unfold dedupLoop
    simp only
    split
    · exact dedupStep_walkAttempt g h1 h2 isPrefix inp hb start
    · obtain ⟨k1, k2⟩ := dedupStep_keeps g h1 h2
      rw [ih (dedupStep g) k1 k2]
      exact dedupStep_walkAttempt g h1 h2 isPrefix inp hb start

end Logos.Passes
