import LogosModel.PassesProof
import LogosModel.PassesProof2
import LogosModel.PassesProof3
/-!
# The four passes of `Graph::new` together

`passes g = dedupLoop _ (prune (lateRemoval (earlyPass g)))`.  Under side conditions that are all
decidable (`sideOK`, evaluated by the driver on the raw graph of every definition):

* an attempt that ends in a match ends in the same match on the final graph (`passes_matched`);
* an attempt that ends without a match still does, and stops no later (`passes_nomatch`) — pruning is
  what makes error spans end at the first byte after which no pattern is viable;
* the end of the input is recognised alike (`passes_eoi`).

So the final graph refines the raw graph built from the DFA: same tokens, error spans no longer.
-/
namespace Logos.Passes
open Logos

def sideOK (g : Graph) : Bool :=
  let g2 := lateRemoval (earlyPass g)
  let g3 := prune g2
  rawNoEarly g && rawRootOK g && earlyEoiOK g && rawClosed g &&
  refsClosed g2 && liveClosed g2 && edgesDisjoint g2 &&
  refsInside g3 && edgesDisjoint g3

theorem sideOK_parts {g : Graph} (h : sideOK g = true) :
    rawNoEarly g = true ∧ rawRootOK g = true ∧ earlyEoiOK g = true ∧ rawClosed g = true ∧
    refsClosed (lateRemoval (earlyPass g)) = true ∧ liveClosed (lateRemoval (earlyPass g)) = true ∧
    edgesDisjoint (lateRemoval (earlyPass g)) = true ∧
    refsInside (prune (lateRemoval (earlyPass g))) = true ∧
    edgesDisjoint (prune (lateRemoval (earlyPass g))) = true := by
  simp only [sideOK, Bool.and_eq_true] at h
  obtain ⟨⟨⟨⟨⟨⟨⟨⟨a, b⟩, c⟩, d⟩, e⟩, f⟩, g'⟩, h'⟩, i⟩ := h
  exact ⟨a, b, c, d, e, f, g', h', i⟩

theorem passes_eq (g : Graph) :
    passes g = dedupLoop (prune (lateRemoval (earlyPass g))).states.size (prune (lateRemoval (earlyPass g))) := rfl

/-- **Tokens are preserved by the passes.** -/
theorem passes_matched (g : Graph) (h : sideOK g = true) (inp : List Nat) (hb : ∀ b ∈ inp, b < 256)
    (start l e : Nat) (hm : walkAttempt g false inp start = .matched l e) :
    walkAttempt (passes g) false inp start = .matched l e := by
  obtain ⟨a, b, c, d, e2, f, g', h', i⟩ := sideOK_parts h
  rw [passes_eq, dedupLoop_walkAttempt _ _ h' i false inp hb start]
  apply prune_matched _ e2 f g' inp hb
  rw [earlyLate_walkAttempt g a b c d false inp hb start]
  exact hm

/-- **Errors stay errors and stop no later.** -/
theorem passes_nomatch (g : Graph) (h : sideOK g = true) (inp : List Nat) (hb : ∀ b ∈ inp, b < 256)
    (start off : Nat) (hm : walkAttempt g false inp start = .nomatch off) :
    ∃ off', off' ≤ off ∧ walkAttempt (passes g) false inp start = .nomatch off' := by
  obtain ⟨a, b, c, d, e2, f, g', h', i⟩ := sideOK_parts h
  rw [passes_eq, dedupLoop_walkAttempt _ _ h' i false inp hb start]
  apply prune_nomatch _ e2 f g' inp hb
  rw [earlyLate_walkAttempt g a b c d false inp hb start]
  exact hm

/-- **The end of the input is recognised alike.** -/
theorem passes_eoi (g : Graph) (h : sideOK g = true) (inp : List Nat) (hb : ∀ b ∈ inp, b < 256)
    (start : Nat) (hm : walkAttempt g false inp start = .eoi) :
    walkAttempt (passes g) false inp start = .eoi := by
  obtain ⟨a, b, c, d, e2, f, g', h', i⟩ := sideOK_parts h
  rw [passes_eq, dedupLoop_walkAttempt _ _ h' i false inp hb start]
  apply prune_eoi _ e2 f inp hb
  rw [earlyLate_walkAttempt g a b c d false inp hb start]
  exact hm

end Logos.Passes
