def hello := "world"
