import LogosModel.Look.HirL
import LogosModel.Look.LiveCert
import LogosModel.Look.FastOracle
import LogosModel.Look.SoundC
import LogosModel.Look.TieC
import LogosModel.Look.EquivC
import LogosModel.Look.CertPC
import Std.Data.HashMap
import Std.Data.HashSet
/-!
# Untrusted search code for definitions with look-around (table of viable vectors, closure)

Nothing here is trusted: the verdicts come from `liveCertB` and `validCB` (proved sound in
`Look/LiveCert.lean`, `Look/CertC.lean`, `Look/SoundC.lean`) run on what this code finds.
-/
namespace Logos.LK
open Logos

abbrev LKey := VecL × Cls

/-- explore every `(Δ, p)` reachable from the start pairs under all 256 bytes -/
partial def lkExplore (queue : Array LKey) (i : Nat) (idx : Std.HashMap LKey Nat)
    (succs : Array (Array Nat)) (fuel : Nat) : Option (Array LKey × Array (Array Nat)) :=
  if fuel = 0 then none else
  if h : i < queue.size then
    let (Δ, p) := queue[i]
    let (queue, idx, row) := (List.range 256).foldl
      (fun (acc : Array LKey × Std.HashMap LKey Nat × Array Nat) b =>
        let k : LKey := (derivVC p b Δ, clsB b)
        match acc.2.1.get? k with
        | some j => (acc.1, acc.2.1, acc.2.2.push j)
        | none => (acc.1.push k, acc.2.1.insert k acc.1.size, acc.2.2.push acc.1.size))
      (queue, idx, Array.mkEmpty 256)
    lkExplore queue (i+1) idx (succs.push row) (fuel - 1)
  else some (queue, succs)

/-- backward propagation of liveness with witnesses -/
partial def lkLive (succs : Array (Array Nat)) (live : Array (Option (List Nat × Cls))) :
    Array (Option (List Nat × Cls)) :=
  let (live', changed) := (List.range succs.size).foldl
    (fun (acc : Array (Option (List Nat × Cls)) × Bool) i =>
      match acc.1.getD i none with
      | some _ => acc
      | none =>
        let row := succs.getD i #[]
        match (List.range row.size).findSome? (fun b =>
          match acc.1.getD (row.getD b 0) none with
          | some (w, n) => some (b :: w, n)
          | none => none) with
        | some wn => (acc.1.setIfInBounds i (some wn), true)
        | none => acc)
    (live, false)
  if changed then lkLive succs live' else live'

def buildTable (D : VecL) (fuel : Nat) : Option (List LEntry) :=
  let start : Array LKey := allCls.toArray.map fun p0 => (D, p0)
  let idx : Std.HashMap LKey Nat := (List.range start.size).foldl (fun m i => m.insert (start.getD i (D, .none)) i) {}
  match lkExplore start 0 idx #[] fuel with
  | none => none
  | some (nodes, succs) =>
    let live0 : Array (Option (List Nat × Cls)) := nodes.map fun (Δ, p) =>
      match allCls.find? (fun n => Δ.any (nullableC p n)) with
      | some n => some ([], n)
      | none => none
    let live := lkLive succs live0
    some ((List.range nodes.size).map fun i =>
      let (Δ, p) := nodes.getD i (D, .none)
      match live.getD i none with
      | some (w, n) => { vec := Δ, p := p, live := true, wit := w, witN := n }
      | none => { vec := Δ, p := p, live := false })

partial def closureC (G : Graph) (work : List (Nat × LKey)) (seen : Std.HashSet (Nat × LKey)) (fuel : Nat) :
    Option (Std.HashSet (Nat × LKey)) :=
  match fuel, work with
  | 0, _ => none
  | _, [] => some seen
  | fuel+1, (s, Δ, p) :: rest =>
    if seen.contains (s, Δ, p) then closureC G rest seen fuel else
    let seen := seen.insert (s, Δ, p)
    let succs := (List.range 256).filterMap fun b =>
      match (G.get s).next b with
      | some t => some (t, derivVC p b Δ, clsB b)
      | none => none
    closureC G (succs.eraseDups ++ rest) seen fuel

def toCSetC (n : Nat) (h : Std.HashSet (Nat × LKey)) : CSetC :=
  h.fold (fun (acc : CSetC) (x : Nat × LKey) =>
    if x.1 < acc.size then acc.modify x.1 (fun l => x.2 :: l) else acc) (Array.replicate n [])

/-- first failing local condition, for diagnostics -/
def firstBadC (G : Graph) (prios : List Nat) (V : VecL → Cls → Bool) (C : CSetC) : Option String :=
  (List.range C.size).findSome? fun s =>
    (C.getD s []).findSome? fun (Δ, p) =>
      if localCB G prios V C s Δ p then none else
        let sd := G.get s
        let badByte := (List.range 256).find? fun b =>
          let w := winC prios p (clsB b) Δ
          !((match w with
              | some l => sd.early == some l ||
                  (match sd.next b with | some t => (G.get t).accept == some l | none => false)
              | none => true) &&
            (match sd.next b with
             | some t => okAccC G t w && (V (derivVC p b Δ) (clsB b) || (G.get t).accept.isSome) &&
                 C.has t (derivVC p b Δ) (clsB b)
             | none => !V (derivVC p b Δ) (clsB b)))
        some s!"state={s} prev={repr p} early={sd.early} winEoi={winC prios p .none Δ} badbyte={badByte}"

/-- verdict for a definition with look-around: "OKL triples states table" when both proved checkers accept -/
def certVerdictC (G : Graph) (prios : List Nat) (D : VecL) (T : Option (List LEntry)) (fuel : Nat) : String :=
  match T with
  | none => "UNKNOWN table"
  | some T =>
    if !liveCertBFast T D then "FAIL livecert" else   -- = liveCertB T D (`liveCertBFast_eq`)
    if allCls.any (fun p0 => allCls.any fun n => (winC prios p0 n D).isSome) then "NULLABLE" else
    let V := oracleFast (tableMap T)   -- = oracleOf T (`oracleFast_eq`)
    match closureC G (allCls.map fun p0 => (G.root, D, p0)) {} fuel with
    | none => "UNKNOWN fuel"
    | some h =>
      let C := toCSetC G.states.size h
      if validCB G prios D V C then s!"OKL {h.size} {G.states.size} {T.length} {if prefixOKCB G prios V C then "P" else "noP"}"
      else if !wfB G then "FAIL wf"
      else s!"FAIL {(firstBadC G prios V C).getD "?"}"

/-- BFS over `(Δ, p)` pairs looking for a tie in some following context; returns (witness?, closure if exhausted) -/
partial def tieSearchC (prios : List Nat) (queue : Array (LKey × Cls × List Nat)) (i : Nat)
    (seen : Std.HashSet LKey) (fuel : Nat) : Option (Cls × List Nat × Cls) × Option (Std.HashSet LKey) :=
  if fuel = 0 then (none, none) else
  if h : i < queue.size then
    let ((Δ, p), p0, w) := queue[i]
    match allCls.find? (fun n => tieAtC prios p n Δ) with
    | some n => (some (p0, w.reverse, n), none)
    | none =>
      let (queue, seen) := (List.range 256).foldl
        (fun (acc : Array (LKey × Cls × List Nat) × Std.HashSet LKey) b =>
          let k : LKey := (derivVC p b Δ, clsB b)
          if !acc.2.contains k then (acc.1.push (k, p0, b :: w), acc.2.insert k) else acc) (queue, seen)
      tieSearchC prios queue (i+1) seen (fuel - 1)
  else (none, some seen)

def clsName : Cls → String
  | .none => "none" | .lf => "lf" | .cr => "cr" | .word => "word" | .other => "other"

def hexOfL (w : List Nat) : String :=
  if w.isEmpty then "-" else
  String.join (w.map fun b =>
    let d := fun (x : Nat) => if x < 10 then Char.ofNat (48 + x) else Char.ofNat (87 + x)
    String.ofList [d (b / 16), d (b % 16)])

/-- "TIE hex leaves prev,next" (confirmed by `tieC_witness`), "FREE n" (`tieFreeCBFast_sound`), or "UNKNOWN" -/
def tieVerdictC (prios : List Nat) (D : VecL) (fuel : Nat) : String :=
  let start : Array (LKey × Cls × List Nat) := allCls.toArray.map fun p0 => ((D, p0), p0, [])
  let seen : Std.HashSet LKey := allCls.foldl (fun s p0 => s.insert (D, p0)) {}
  match tieSearchC prios start 0 seen fuel with
  | (some (p0, w, n), _) =>
    let Δ := derivsVC p0 w D
    let p := prevOf p0 w
    if tieAtC prios p n Δ then
      let ns := nullIdxC prios p n Δ
      let mx := ns.foldl (fun m x => max m x.2) 0
      let tops := (ns.filter fun x => x.2 == mx).map fun x => toString x.1
      s!"TIE {hexOfL w} {",".intercalate tops} {clsName p0},{clsName n}"
    else "BADWITNESS"
  | (none, some S) => if tieFreeCBFast S.toList prios D then s!"FREE {S.size}" else "CHECKFAIL"
  | (none, none) => "UNKNOWN"

/-- BFS for a distinguishing (context, string, context) of two patterns -/
partial def eqSearchC (queue : Array ((ReL × ReL × Cls) × Cls × List Nat)) (i : Nat)
    (seen : Std.HashSet (ReL × ReL × Cls)) (fuel : Nat) :
    Option (Cls × List Nat × Cls) × Option (Std.HashSet (ReL × ReL × Cls)) :=
  if fuel = 0 then (none, none) else
  if h : i < queue.size then
    let ((a, b, p), p0, w) := queue[i]
    match allCls.find? (fun n => nullableC p n a != nullableC p n b) with
    | some n => (some (p0, w.reverse, n), none)
    | none =>
      let (queue, seen) := (List.range 256).foldl
        (fun (acc : Array ((ReL × ReL × Cls) × Cls × List Nat) × Std.HashSet (ReL × ReL × Cls)) c =>
          let k := (derivCN p c a, derivCN p c b, clsB c)
          if !acc.2.contains k then (acc.1.push (k, p0, c :: w), acc.2.insert k) else acc) (queue, seen)
      eqSearchC queue (i+1) seen (fuel - 1)
  else (none, some seen)

/-- "EQ n" (`equivCBFast_sound`), "NE hex r s prev,next" (confirmed with `matchesCBool_iff`), or "UNKNOWN" -/
def equivVerdictC (r s : ReL) (fuel : Nat) : String :=
  let a := normL r
  let b := normL s
  let start := allCls.toArray.map fun p0 => ((a, b, p0), p0, ([] : List Nat))
  let seen : Std.HashSet (ReL × ReL × Cls) := allCls.foldl (fun h p0 => h.insert (a, b, p0)) {}
  match eqSearchC start 0 seen fuel with
  | (some (p0, w, n), _) =>
    let mr := matchesCBool r p0 w n
    let ms := matchesCBool s p0 w n
    if mr != ms then s!"NE {hexOfL w} {mr} {ms} {clsName p0},{clsName n}" else "BADWITNESS"
  | (none, some S) => if equivCBFast S.toList r s then s!"EQ {S.size}" else "CHECKFAIL"
  | (none, none) => "UNKNOWN"

/-- does leaf `r` match `w` between classes `p` and `n` (by derivatives) -/
def matchesCB (r : ReL) (p : Cls) (w : List Nat) (n : Cls) : Bool :=
  matchesAnyB [r] p w n

end Logos.LK
