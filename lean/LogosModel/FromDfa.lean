import LogosModel.StateType
import LogosModel.Passes
import LogosModel.Lex
/-!
# From the DFA to the raw graph: the first half of `Graph::new` (graph/mod.rs, graph/dfa_util.rs)

regex-automata hands logos a dense DFA: per state 256 byte successors, an end-of-input successor and
the list of patterns matching in the state; state id 0 is the dead state.  `Graph::new`

1. collects the states reachable from the start state (`dfa_util::get_states`: a closure over
   `iter_children` = the 256 byte successors then the end-of-input successor, returned in ascending
   order of id) and numbers them in that order (`dfa_lookup`),
2. gives every state its `StateType` (`get_state_type`: `StateType.lean`),
3. groups the 256 byte successors by target, the dead state excepted, into one `ByteClass` per target
   (`HashMap<State, ByteClass>` + `add_byte` in ascending byte order) and sorts the edges by target
   (`set_normal_edges`),
4. adds the end-of-input edge unless it leads to the dead state.

`rawOf` is that function.  The hook dumps the DFA's table (`DFADEF` / `DROW`), the driver applies
`rawOf` and compares with the raw graph the code built (`FROMDFA`): the raw graph is predicted.
The per-target byte class is written as a fold over the bytes in ascending order that adds the bytes
leading to that target (what the hash-map entry of the target sees).
-/
namespace Logos.FromDfa
open Logos

structure DRow where
  id : Nat
  next : List Nat      -- the 256 byte successors
  eoi : Nat
  matching : List Nat   -- `iter_matches`
deriving Repr

structure Dfa where
  rows : List DRow
  start : Nat
deriving Repr

def Dfa.row (d : Dfa) (id : Nat) : Option DRow := d.rows.find? fun r => r.id == id

/-- `dfa.next_state(id, b)`; an unknown state behaves like the dead state -/
def Dfa.nextId (d : Dfa) (id b : Nat) : Nat :=
  match d.row id with
  | some r => r.next.getD b 0
  | none => 0

def Dfa.eoiId (d : Dfa) (id : Nat) : Nat :=
  match d.row id with
  | some r => r.eoi
  | none => 0

def Dfa.matchingOf (d : Dfa) (id : Nat) : List Nat :=
  match d.row id with
  | some r => r.matching
  | none => []

/-- `dfa_util::iter_children`: the 256 byte successors, then the end-of-input successor -/
def Dfa.childIds (d : Dfa) (id : Nat) : List Nat :=
  (List.range 256).map (d.nextId id) ++ [d.eoiId id]

/-- the closure loop of `get_states` (a set with a work list), by rounds: `frontier` holds the states added
in the previous round -/
def closure (d : Dfa) : Nat → List Nat → List Nat → List Nat
  | 0, seen, _ => seen
  | fuel+1, seen, frontier =>
    let more := frontier.foldl (fun acc id =>
      (d.childIds id).foldl (fun acc c => if seen.contains c || acc.contains c then acc else acc ++ [c]) acc) []
    if more.isEmpty then seen else closure d fuel (seen ++ more) more

def insertAsc (x : Nat) : List Nat → List Nat
  | [] => [x]
  | y :: ys => if x ≤ y then x :: y :: ys else y :: insertAsc x ys

/-- `sort_unstable` on distinct ids (insertion sort: structural, so that it evaluates in the kernel too) -/
def sortAsc (l : List Nat) : List Nat := l.foldr insertAsc []

/-- `dfa_util::get_states`: the reachable ids in ascending order -/
def getStates (d : Dfa) : List Nat :=
  sortAsc (closure d (d.rows.length + 1) [d.start] [d.start])

/-- `ByteClass` of the bytes satisfying `p`, built by `add_byte` in ascending order -/
def classFor (p : Nat → Bool) : List (Nat × Nat) :=
  ((List.range 256).foldl (fun acc x => if p x then Emit.addByteRev acc x else acc) []).reverse

/-- per byte, the number of the live state it leads to (`None`: the dead state, skipped by the loop) -/
def targets (d : Dfa) (idx : Nat → Nat) (id : Nat) : List (Option Nat) :=
  (List.range 256).map fun b =>
    let t := d.nextId id b
    if t == 0 then none else some (idx t)

/-- the byte edges of a state: one edge per target that some byte leads to, ascending by target -/
def edgesOf (n : Nat) (tg : List (Option Nat)) : List Edge :=
  ((List.range n).filter fun t => tg.contains (some t)).map fun t =>
    { ranges := classFor (fun b => tg.getD b none == some t), target := t }

def acceptOf (prios : List Nat) (ms : List Nat) : Option Nat :=
  match stateType prios ms with
  | .accept l => some l
  | _ => none

def rawState (d : Dfa) (prios : List Nat) (n : Nat) (idx : Nat → Nat) (id : Nat) : StateData :=
  { early := none
    accept := acceptOf prios (d.matchingOf id)
    normal := edgesOf n (targets d idx id)
    eoi := if d.eoiId id == 0 then none else some (idx (d.eoiId id)) }

/-- **the raw graph `Graph::new` builds from the DFA** -/
def rawOf (d : Dfa) (prios : List Nat) : Graph :=
  let S := getStates d
  let idx := fun id => S.idxOf id
  { root := idx d.start
    states := (S.map (rawState d prios S.length idx)).toArray }

/-- the `Disambiguation` errors, one per reachable state with a tie (before sorting) -/
def rawErrors (d : Dfa) (prios : List Nat) : List (List Nat) :=
  (getStates d).filterMap fun id =>
    match stateType prios (d.matchingOf id) with
    | .ambiguous ls => some ls
    | _ => none

/-- the table is complete for the collected states: every collected state has a row of 256 successors,
and every successor (byte or end of input) is collected -/
def closedB (d : Dfa) : Bool :=
  let S := getStates d
  S.contains d.start &&
  S.all fun id =>
    match d.row id with
    | some r => r.next.length == 256 && r.next.all (S.contains ·) && S.contains r.eoi
    | none => false

/-! ## Reading the DFA directly

What lexing with regex-automata's table means, written without the graph: a match state reports the
patterns that matched *before* the byte that led to it (matches are delayed by one byte, the end of the
input counting as a byte), `get_state_type` picks the leaf, the dead state ends the attempt.
`FromDfaProof.rawOf_walk` shows that a walk of the raw graph is exactly this. -/

def dfaRecord (a : Option Nat) (pos : Nat) (ctx : Option Nat) (tokEnd : Nat) : Option Nat × Nat :=
  match a with
  | some l => (some l, pos - 1)
  | none => (ctx, tokEnd)

def Dfa.acc (d : Dfa) (prios : List Nat) (id : Nat) : Option Nat := acceptOf prios (d.matchingOf id)

def Dfa.hasByteEdge (d : Dfa) (id : Nat) : Bool := (List.range 256).any fun b => d.nextId id b != 0

def dfaAtEoi (d : Dfa) (prios : List Nat) (isPrefix : Bool) (start : Nat) :
    (fuel : Nat) → (id pos : Nat) → (ctx : Option Nat) → (tokEnd : Nat) → Stop
  | 0, _, _, _, _ => .diverge
  | fuel+1, id, pos, ctx, tokEnd =>
    if (d.hasByteEdge id || d.eoiId id != 0) && isPrefix then .needMore
    else if id == d.start && start == pos then .endOfInput
    else if d.eoiId id == 0 then .action pos ctx tokEnd
    else
      let r := dfaRecord (d.acc prios (d.eoiId id)) (pos+1) ctx tokEnd
      dfaAtEoi d prios isPrefix start fuel (d.eoiId id) (pos+1) r.1 r.2

def dfaWalk (d : Dfa) (prios : List Nat) (isPrefix : Bool) (start : Nat) :
    (id : Nat) → (rest : List Nat) → (pos : Nat) → (ctx : Option Nat) → (tokEnd : Nat) → Stop
  | id, [], pos, ctx, tokEnd =>
    let r := dfaRecord (d.acc prios id) pos ctx tokEnd
    dfaAtEoi d prios isPrefix start ((getStates d).length + 1) id pos r.1 r.2
  | id, b :: rest, pos, ctx, tokEnd =>
    let r := dfaRecord (d.acc prios id) pos ctx tokEnd
    if d.nextId id b == 0 then .action pos r.1 r.2
    else dfaWalk d prios isPrefix start (d.nextId id b) rest (pos+1) r.1 r.2

/-- one match attempt read off the DFA -/
def dfaAttempt (d : Dfa) (prios : List Nat) (isPrefix : Bool) (inp : List Nat) (start : Nat) : Attempt :=
  attemptOfStop (dfaWalk d prios isPrefix start d.start (inp.drop start) start none start)

end Logos.FromDfa
