import LogosModel.CertCheck
import LogosModel.Lex
/-!
# Certificate for partial lexing (C07): when does the generated code wait for more input?

At the end of a *prefix* buffer the generated code returns `None` ("need more") iff the state has a
byte transition or an end-of-input edge (generator/fork.rs `fork_eoi`); the reference partial lexer
waits iff some byte keeps a pattern viable (`extendable`).  `prefixOK` ties the two, state by state.
-/
namespace Logos

def waits (sd : StateData) : Bool := !sd.normal.isEmpty || sd.eoi.isSome

def prefixOKB (G : Graph) (C : CSet) : Bool :=
  (List.range C.size).all fun s => (C.getD s []).all fun Δ => waits (G.get s) == extendable Δ

structure ValidP (G : Graph) (prios : List Nat) (D : Vec) (C : Nat → Vec → Prop) : Prop where
  valid : Valid G prios D C
  prefixOK : ∀ s Δ, C s Δ → waits (G.get s) = extendable Δ

def validPB (G : Graph) (prios : List Nat) (D : Vec) (C : CSet) : Bool :=
  validB G prios D C && prefixOKB G C

theorem validPB_sound {G : Graph} {prios : List Nat} {D : Vec} {C : CSet}
    (h : validPB G prios D C = true) : ValidP G prios D C.mem := by
  unfold validPB at h
  simp only [Bool.and_eq_true] at h
  refine ⟨validB_sound h.1, ?_⟩
  intro s Δ hm
  have h2 := h.2
  unfold prefixOKB at h2
  rw [List.all_eq_true] at h2
  by_cases hs : s < C.size
  · have := h2 s (List.mem_range.2 hs)
    rw [List.all_eq_true] at this
    simpa using this Δ hm
  · have : C.getD s [] = [] := by
      simp [Array.getD]; omega
    simp [CSet.mem, this] at hm

end Logos
