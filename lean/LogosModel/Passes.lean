import LogosModel.Emit
/-!
# The passes of `Graph::new` after the DFA has been turned into states (graph/mod.rs)

Input: the raw graph (one state per DFA state, `accept` = the top-priority matching leaf, byte edges
grouped by target and sorted by target, end-of-input edge), as dumped by the hook before the passes.
`passes` reproduces, in order:

1. early-accept detection (`can_error`, all children accept the same leaf),
2. removal of late accepts all of whose parents are early for the same leaf,
3. pruning of dead ends (states that neither record nor reach a recording state), with renumbering,
4. de-duplication of states with identical data, iterated to a fixed point (`rewrite_states` merges the
   byte classes of edges that now share a target and re-sorts, `retain_states` renumbers).

The driver runs `passes` on the raw dump of every definition and compares the result with the final
graph the generator consumed: the final graph is *predicted* by the model.
-/
namespace Logos.Passes
open Logos

def children (sd : StateData) : List Nat := sd.normal.map (·.target) ++ sd.eoi.toList

/-- `StateData::can_error`: some byte has no edge (edges of one state have disjoint classes) -/
def canError (sd : StateData) : Bool :=
  !((List.range 256).all fun b => sd.normal.any fun e => inRanges e.ranges b)

def mapStates (g : Graph) (f : Nat → StateData → StateData) : Graph :=
  { g with states := (List.range g.states.size).toArray.map fun i => f i (g.get i) }

/-- 1. a state that cannot fail and all of whose children accept the same leaf records it early -/
def earlyPass (g : Graph) : Graph :=
  mapStates g fun _ sd =>
    if canError sd then sd else
    match ((children sd).map fun c => (g.get c).accept).eraseDups with
    | [some l] => { sd with early := some l }
    | _ => sd

def parents (g : Graph) (s : Nat) : List Nat :=
  (List.range g.states.size).filter fun p => (children (g.get p)).contains s

/-- 2. a late accept whose parents all record the same leaf early is redundant -/
def lateRemoval (g : Graph) : Graph :=
  mapStates g fun s sd =>
    match sd.accept with
    | some l => if (parents g s).all (fun p => (g.get p).early == some l) then { sd with accept := none } else sd
    | none => sd

/-- backward closure (states that can reach `seen`), by iteration to a fixed point -/
def reachBack (g : Graph) : Nat → List Nat → List Nat
  | 0, seen => seen
  | fuel+1, seen =>
    let more := (List.range g.states.size).filter fun p =>
      !seen.contains p && (children (g.get p)).any fun c => seen.contains c
    if more.isEmpty then seen else reachBack g fuel (seen ++ more)

/-- renumbering of the kept states (ascending) -/
def renumber (keep : List Nat) (s : Nat) : Nat := (keep.idxOf? s).getD s

/-- keep the states of `keep` (ascending), rewriting every reference through `f` -/
def retain (g : Graph) (keep : List Nat) (f : Nat → Nat) : Graph :=
  { root := f g.root
    states := (keep.map fun s =>
      let sd := g.get s
      { sd with normal := sd.normal.map (fun e => { e with target := f e.target }),
                eoi := sd.eoi.map f }).toArray }

/-- 3. drop edges into states that cannot reach a recording state, then the states themselves -/
def prune (g : Graph) : Graph :=
  let start := ((List.range g.states.size).filter fun s =>
    ((g.get s).early.isSome || (g.get s).accept.isSome)) ++ [g.root]
  let reach := reachBack g g.states.size start.eraseDups
  let keep := (List.range g.states.size).filter fun s => reach.contains s
  let g1 := mapStates g fun _ sd =>
    { sd with normal := sd.normal.filter (fun e => reach.contains e.target),
              eoi := sd.eoi.filter (fun t => reach.contains t) }
  retain g1 keep (renumber keep)

/-- `rewrite_states` on one edge list: targets rewritten, classes of edges sharing a target merged
(`ByteClass::merge`), result sorted by target -/
def mergeEdges (es : List Edge) : List Edge :=
  let grouped := es.foldl (fun (acc : List Edge) e =>
    if acc.any (·.target == e.target) then
      acc.map fun a => if a.target == e.target then { a with ranges := Emit.mergeRanges a.ranges e.ranges } else a
    else acc ++ [e]) []
  grouped.mergeSort fun a b => a.target ≤ b.target

/-- one round of 4.: the first state with given data is canonical, later equal ones are rewritten to it -/
def dedupStep (g : Graph) : Graph :=
  let n := g.states.size
  let canon (s : Nat) : Nat := ((List.range n).find? fun t => g.get t == g.get s).getD s
  let g1 : Graph :=
    { root := canon g.root
      states := (List.range n).toArray.map fun s =>
        let sd := g.get s
        { sd with normal := mergeEdges (sd.normal.map fun e => { e with target := canon e.target }),
                  eoi := sd.eoi.map canon } }
  let keep := (List.range n).filter fun s => canon s == s
  retain g1 keep (renumber keep)

def dedupLoop : Nat → Graph → Graph
  | 0, g => g
  | fuel+1, g =>
    let g' := dedupStep g
    if g'.states.size == g.states.size then g' else dedupLoop fuel g'

def passes (raw : Graph) : Graph :=
  let g := prune (lateRemoval (earlyPass raw))
  dedupLoop g.states.size g

/-- out of each state, every byte below 256 is in the class of at most one edge (true of every graph built
from a DFA: a byte has one successor); side condition of the pruning and de-duplication theorems -/
def edgesDisjoint (g : Graph) : Bool :=
  (List.range g.states.size).all fun s =>
    (List.range 256).all fun b => decide ((((g.get s).normal.filter fun e => inRanges e.ranges b)).length ≤ 1)

end Logos.Passes
