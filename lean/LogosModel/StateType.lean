import LogosModel.Graph
/-!
# `Graph::get_state_type`: the winner of a DFA state, or an ambiguity (graph/mod.rs)

A DFA state comes with the list of leaves that match in it.  `get_state_type` takes the highest
priority among them; if exactly one leaf has it, that leaf is the state's `accept`; if several do, the
state yields a `Disambiguation` error naming them (in match order); if nothing matches the state
records nothing.  `stateType` is that function; the theorems say what its answers mean.  The hook dumps
the match list of every raw state, the driver recomputes every `accept` and every error from them.
-/
namespace Logos

inductive StateTy where
  | none                       -- no leaf matches
  | accept (l : Nat)           -- unique top-priority leaf
  | ambiguous (ls : List Nat)  -- several leaves share the top priority
deriving Repr, DecidableEq

def prioOfLeaf (prios : List Nat) (l : Nat) : Nat := prios.getD l 0

def maxPrio (prios : List Nat) (ms : List Nat) : Nat := ms.foldl (fun m l => max m (prioOfLeaf prios l)) 0

def stateType (prios : List Nat) (ms : List Nat) : StateTy :=
  match ms with
  | [] => .none
  | _ =>
    let top := ms.filter fun l => prioOfLeaf prios l == maxPrio prios ms
    match top with
    | [l] => .accept l
    | _ => .ambiguous top

theorem foldl_max_ge_init (f : Nat → Nat) (ms : List Nat) (a : Nat) :
    a ≤ ms.foldl (fun m l => max m (f l)) a := by
  induction ms generalizing a with
  | nil => simp
  | cons x xs ih =>
    simp only [List.foldl_cons]
    exact Nat.le_trans (Nat.le_max_left _ _) (ih _)

theorem foldl_max_ge_mem (f : Nat → Nat) (ms : List Nat) (a : Nat) (l : Nat) (h : l ∈ ms) :
    f l ≤ ms.foldl (fun m l => max m (f l)) a := by
  induction ms generalizing a with
  | nil => cases h
  | cons x xs ih =>
    simp only [List.foldl_cons]
    rcases List.mem_cons.1 h with rfl | h
    · exact Nat.le_trans (Nat.le_max_right _ _) (foldl_max_ge_init f xs _)
    · exact ih _ h

theorem foldl_max_attained (f : Nat → Nat) (ms : List Nat) (a : Nat) :
    ms.foldl (fun m l => max m (f l)) a = a ∨
      ∃ l ∈ ms, f l = ms.foldl (fun m l => max m (f l)) a := by
  induction ms generalizing a with
  | nil => simp
  | cons x xs ih =>
    simp only [List.foldl_cons]
    rcases ih (max a (f x)) with h | ⟨l, hl, h⟩
    · rw [h]
      by_cases hc : f x ≤ a
      · left; exact Nat.max_eq_left hc
      · right; exact ⟨x, List.mem_cons_self, (Nat.max_eq_right (by omega)).symm⟩
    · right; exact ⟨l, List.mem_cons_of_mem _ hl, h⟩

theorem le_maxPrio (prios : List Nat) (ms : List Nat) (l : Nat) (h : l ∈ ms) :
    prioOfLeaf prios l ≤ maxPrio prios ms :=
  foldl_max_ge_mem (prioOfLeaf prios) ms 0 l h

theorem maxPrio_attained (prios : List Nat) (ms : List Nat) (h : ms ≠ []) :
    ∃ l ∈ ms, prioOfLeaf prios l = maxPrio prios ms := by
  rcases foldl_max_attained (prioOfLeaf prios) ms 0 with h0 | h1
  · cases ms with
    | nil => exact absurd rfl h
    | cons x xs =>
      refine ⟨x, List.mem_cons_self, ?_⟩
      have := le_maxPrio prios (x :: xs) x List.mem_cons_self
      unfold maxPrio at this ⊢
      omega
  · exact h1

/-- the leaves of `ms` at the top priority -/
def topOf (prios : List Nat) (ms : List Nat) : List Nat :=
  ms.filter fun l => prioOfLeaf prios l == maxPrio prios ms

theorem mem_topOf (prios ms : List Nat) (l : Nat) :
    l ∈ topOf prios ms ↔ l ∈ ms ∧ prioOfLeaf prios l = maxPrio prios ms := by
  simp [topOf, List.mem_filter]

theorem stateType_eq (prios ms : List Nat) (h : ms ≠ []) :
    stateType prios ms =
      match topOf prios ms with
      | [l] => .accept l
      | _ => .ambiguous (topOf prios ms) := by
  cases ms with
  | nil => exact absurd rfl h
  | cons x xs => rfl

theorem topOf_ne_nil (prios ms : List Nat) (h : ms ≠ []) : topOf prios ms ≠ [] := by
  obtain ⟨l, hl, hp⟩ := maxPrio_attained prios ms h
  intro he
  have : l ∈ topOf prios ms := (mem_topOf _ _ _).2 ⟨hl, hp⟩
  rw [he] at this
  cases this

theorem stateType_accept_eq (prios ms : List Nat) (l : Nat) :
    stateType prios ms = .accept l ↔ ms ≠ [] ∧ topOf prios ms = [l] := by
  by_cases h : ms = []
  · subst h; simp [stateType]
  · rw [stateType_eq prios ms h]
    constructor
    · intro he
      refine ⟨h, ?_⟩
      split at he
      · rename_i hq; injection he with he; rw [← he]; exact hq
      · cases he
    · rintro ⟨_, ht⟩
      rw [ht]

theorem stateType_ambiguous_eq (prios ms ls : List Nat) :
    stateType prios ms = .ambiguous ls ↔
      ms ≠ [] ∧ ls = topOf prios ms ∧ ∀ l, topOf prios ms ≠ [l] := by
  by_cases h : ms = []
  · subst h; simp [stateType]
  · rw [stateType_eq prios ms h]
    constructor
    · intro he
      split at he
      · cases he
      · rename_i hne
        injection he with he
        exact ⟨h, he.symm, fun l hl => hne l hl⟩
    · rintro ⟨_, hls, hne⟩
      split
      · rename_i l hl; exact absurd hl (hne l)
      · rw [hls]

theorem nodup_all_eq {a : Nat} {l : List Nat} (hnd : l.Nodup) (hall : ∀ x ∈ l, x = a) (ha : a ∈ l) :
    l = [a] := by
  cases l with
  | nil => cases ha
  | cons x xs =>
    have hx : x = a := hall x List.mem_cons_self
    subst hx
    cases xs with
    | nil => rfl
    | cons y ys =>
      have hy : y = x := hall y (List.mem_cons_of_mem _ List.mem_cons_self)
      subst hy
      rw [List.nodup_cons] at hnd
      exact absurd List.mem_cons_self hnd.1

theorem topOf_nodup (prios ms : List Nat) (hnd : ms.Nodup) : (topOf prios ms).Nodup :=
  List.Nodup.sublist List.filter_sublist hnd

/-- the state records `l` iff `l` matches and strictly beats every other matching leaf occurrence -/
theorem stateType_accept_iff (prios : List Nat) (ms : List Nat) (hnd : ms.Nodup) (l : Nat) :
    stateType prios ms = .accept l ↔
      l ∈ ms ∧ ∀ m ∈ ms, m ≠ l → prioOfLeaf prios m < prioOfLeaf prios l := by
  rw [stateType_accept_eq]
  constructor
  · rintro ⟨_, ht⟩
    have hl : l ∈ topOf prios ms := by rw [ht]; exact List.mem_cons_self
    obtain ⟨hlm, hlp⟩ := (mem_topOf _ _ _).1 hl
    refine ⟨hlm, fun m hm hne => ?_⟩
    have hle := le_maxPrio prios ms m hm
    have hneq : prioOfLeaf prios m ≠ maxPrio prios ms := by
      intro he
      have : m ∈ topOf prios ms := (mem_topOf _ _ _).2 ⟨hm, he⟩
      rw [ht] at this
      exact hne (List.mem_singleton.1 this)
    omega
  · rintro ⟨hlm, hlt⟩
    have hne : ms ≠ [] := by intro he; rw [he] at hlm; cases hlm
    refine ⟨hne, ?_⟩
    obtain ⟨k, hk, hkp⟩ := maxPrio_attained prios ms hne
    have hlp : prioOfLeaf prios l = maxPrio prios ms := by
      by_cases hkl : k = l
      · rw [← hkl]; exact hkp
      · have := hlt k hk hkl
        have := le_maxPrio prios ms l hlm
        omega
    apply nodup_all_eq (topOf_nodup prios ms hnd)
    · intro x hx
      obtain ⟨hxm, hxp⟩ := (mem_topOf _ _ _).1 hx
      by_cases hxl : x = l
      · exact hxl
      · have := hlt x hxm hxl
        omega
    · exact (mem_topOf _ _ _).2 ⟨hlm, hlp⟩

/-- an ambiguity is reported iff two different matching leaves share the highest priority; the error
names exactly the matching leaves of that priority -/
theorem stateType_ambiguous_iff (prios : List Nat) (ms : List Nat) (hnd : ms.Nodup) :
    (∃ ls, stateType prios ms = .ambiguous ls) ↔
      ∃ a ∈ ms, ∃ b ∈ ms, a ≠ b ∧ prioOfLeaf prios a = prioOfLeaf prios b ∧
        ∀ m ∈ ms, prioOfLeaf prios m ≤ prioOfLeaf prios a := by
  constructor
  · rintro ⟨ls, h⟩
    obtain ⟨hne, _, hns⟩ := (stateType_ambiguous_eq _ _ _).1 h
    have htne := topOf_ne_nil prios ms hne
    have htnd := topOf_nodup prios ms hnd
    have hmem := mem_topOf prios ms
    generalize topOf prios ms = top at htne htnd hmem hns
    match top, htne, htnd, hmem, hns with
    | [], htne, _, _, _ => exact absurd rfl htne
    | [x], _, _, _, hns => exact absurd rfl (hns x)
    | a :: b :: rest, _, htnd, hmem, _ =>
      obtain ⟨ham, hap⟩ := (hmem a).1 List.mem_cons_self
      obtain ⟨hbm, hbp⟩ := (hmem b).1 (List.mem_cons_of_mem _ List.mem_cons_self)
      refine ⟨a, ham, b, hbm, ?_, by omega, fun m hm => ?_⟩
      · intro hab
        rw [List.nodup_cons] at htnd
        exact htnd.1 (hab ▸ List.mem_cons_self)
      · have := le_maxPrio prios ms m hm
        omega
  · rintro ⟨a, ha, b, hb, hab, hpab, hmax⟩
    have hne : ms ≠ [] := by intro he; rw [he] at ha; cases ha
    refine ⟨topOf prios ms, (stateType_ambiguous_eq _ _ _).2 ⟨hne, rfl, fun l hl => ?_⟩⟩
    obtain ⟨k, hk, hkp⟩ := maxPrio_attained prios ms hne
    have hap : prioOfLeaf prios a = maxPrio prios ms := by
      have := hmax k hk
      have := le_maxPrio prios ms a ha
      omega
    have h1 : a ∈ topOf prios ms := (mem_topOf _ _ _).2 ⟨ha, hap⟩
    have h2 : b ∈ topOf prios ms := (mem_topOf _ _ _).2 ⟨hb, by omega⟩
    rw [hl] at h1 h2
    exact hab ((List.mem_singleton.1 h1).trans (List.mem_singleton.1 h2).symm)

theorem stateType_ambiguous_names (prios : List Nat) (ms ls : List Nat) (h : stateType prios ms = .ambiguous ls) :
    ∀ l, l ∈ ls ↔ l ∈ ms ∧ ∀ m ∈ ms, prioOfLeaf prios m ≤ prioOfLeaf prios l := by
  obtain ⟨hne, hls, _⟩ := (stateType_ambiguous_eq _ _ _).1 h
  intro l
  rw [hls, mem_topOf]
  constructor
  · rintro ⟨hl, hp⟩
    exact ⟨hl, fun m hm => by have := le_maxPrio prios ms m hm; omega⟩
  · rintro ⟨hl, hmax⟩
    refine ⟨hl, ?_⟩
    obtain ⟨k, hk, hkp⟩ := maxPrio_attained prios ms hne
    have := hmax k hk
    have := le_maxPrio prios ms l hl
    omega

theorem stateType_none_iff (prios : List Nat) (ms : List Nat) : stateType prios ms = .none ↔ ms = [] := by
  constructor
  · intro h
    apply Classical.byContradiction
    intro hne
    rw [stateType_eq prios ms hne] at h
    split at h <;> cases h
  · intro h; subst h; rfl

end Logos
