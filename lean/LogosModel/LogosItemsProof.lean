import LogosModel.LogosItems
/-!
# The items of one `#[logos(...)]` attribute may be listed in any order (C18)

`run o s items` is `try_parse_logos`.  A state is *good* when nothing has been reported (`errors = []`, no
diagnostic from `TypeParams`) and the function has not returned early.

* `good_of_run`: diagnostics only accumulate - if the state after all items is good, so is every state on the way;
* `swap_good`: two adjacent items can be exchanged when the result is good, up to the order of the skips and
  of the subpatterns (`Sim`);
* `run_perm`: hence for every permutation of the items: if one order is accepted, every order is, and they
  leave the same slots, the same type-parameter state, the same skips and the same subpatterns as multisets;
* `accepted_perm`: acceptance itself does not depend on the order, also when items are refused - including
  the early `return` of `error(..)`, which drops the items behind it but has reported an error by then.
-/
namespace Logos.LogosItems
open Logos.Attr

/-- equal up to the order of the two lists that items append to -/
structure Sim (s t : St) : Prop where
  crate : s.crate = t.crate
  errorTy : s.errorTy = t.errorTy
  exportDir : s.exportDir = t.exportDir
  extras : s.extras = t.extras
  utf8 : s.utf8 = t.utf8
  skips : s.skips.Perm t.skips
  subs : s.subs.Perm t.subs
  ty : s.ty = t.ty
  errors : s.errors = t.errors
  returned : s.returned = t.returned

theorem Sim.refl (s : St) : Sim s s := ⟨rfl, rfl, rfl, rfl, rfl, .refl _, .refl _, rfl, rfl, rfl⟩

theorem Sim.symm {s t : St} (h : Sim s t) : Sim t s :=
  ⟨h.crate.symm, h.errorTy.symm, h.exportDir.symm, h.extras.symm, h.utf8.symm, h.skips.symm, h.subs.symm, h.ty.symm,
    h.errors.symm, h.returned.symm⟩

theorem Sim.trans {s t u : St} (h1 : Sim s t) (h2 : Sim t u) : Sim s u :=
  ⟨h1.crate.trans h2.crate, h1.errorTy.trans h2.errorTy, h1.exportDir.trans h2.exportDir, h1.extras.trans h2.extras,
    h1.utf8.trans h2.utf8, h1.skips.trans h2.skips, h1.subs.trans h2.subs, h1.ty.trans h2.ty, h1.errors.trans h2.errors,
    h1.returned.trans h2.returned⟩

theorem apply_sim {s t : St} (h : Sim s t) (e : Effect) : Sim (apply s e) (apply t e) := by
  obtain ⟨h1, h2, h3, h4, h5, h6, h7, h8, h9, h10⟩ := h
  cases e <;>
    refine ⟨?_, ?_, ?_, ?_, ?_, ?_, ?_, ?_, ?_, ?_⟩ <;>
    simp only [apply, addErrs, h1, h2, h3, h4, h5, h8, h9, h10] <;>
    first
      | exact h6
      | exact h7
      | exact List.Perm.append_right _ h6
      | exact List.Perm.append_right _ h7
      | rfl

theorem step_sim (o : Orc) {s t : St} (h : Sim s t) (n : Nested) : Sim (step o s n) (step o t n) := by
  unfold step
  rw [h.returned]
  split
  · exact h
  · exact apply_sim h _

theorem run_sim (o : Orc) (items : List Nested) : ∀ {s t : St}, Sim s t → Sim (run o s items) (run o t items) := by
  induction items with
  | nil => intro s t h; exact h
  | cons a l ih => intro s t h; exact ih (step_sim o h a)

/-- nothing reported, not returned -/
def Good (s : St) : Prop := s.errors = [] ∧ s.ty.errs = 0 ∧ s.returned = false

theorem apply_errors (s : St) (e : Effect) : ∃ es, (apply s e).errors = s.errors ++ es := by
  cases e <;> simp only [apply, addErrs] <;>
    first
      | exact ⟨_, rfl⟩
      | exact ⟨[], by simp⟩

theorem apply_ty_errs (s : St) (e : Effect) : s.ty.errs ≤ (apply s e).ty.errs := by
  cases e <;> simp only [apply, addErrs] <;>
    first
      | exact Nat.le_refl _
      | exact TypeItems.errs_le_stepFixed _ _

theorem good_of_step (o : Orc) {s : St} {n : Nested} (hr : s.returned = false) (h : Good (step o s n)) : Good s := by
  unfold step at h
  rw [hr] at h
  simp only [Bool.false_eq_true, if_false] at h
  obtain ⟨es, he⟩ := apply_errors s (classify o n)
  refine ⟨?_, ?_, hr⟩
  · have := h.1; rw [he] at this; exact (List.append_eq_nil_iff.1 this).1
  · have := apply_ty_errs s (classify o n); have := h.2.1; omega

theorem step_returned (o : Orc) {s : St} {n : Nested} (h : Good (step o s n)) : (step o s n).returned = false := h.2.2

/-- a state that has returned has reported something -/
def Inv (s : St) : Prop := s.returned = true → s.errors ≠ []

theorem inv_step (o : Orc) {s : St} (n : Nested) (h : Inv s) : Inv (step o s n) := by
  unfold step
  split
  · exact h
  · rename_i hr
    have hr' : s.returned = false := by simpa using hr
    cases hc : classify o n <;> simp only [apply, addErrs, Inv, hr'] <;> intro hret <;> simp_all

theorem inv_run (o : Orc) (items : List Nested) : ∀ {s : St}, Inv s → Inv (run o s items) := by
  induction items with
  | nil => intro s h; exact h
  | cons a l ih => intro s h; exact ih (inv_step o a h)

theorem good_of_run (o : Orc) (items : List Nested) : ∀ {s : St}, s.returned = false → Good (run o s items) → Good s := by
  induction items with
  | nil => intro s _ h; exact h
  | cons a l ih =>
    intro s hr h
    by_cases hr2 : (step o s a).returned = false
    · exact good_of_step o hr (ih hr2 h)
    · -- the step returned: the remaining items change nothing
      have hfix : ∀ (l : List Nested) (t : St), t.returned = true → run o t l = t := by
        intro l
        induction l with
        | nil => intro t _; rfl
        | cons b l ih2 =>
          intro t ht
          have h1 : step o t b = t := by simp [step, ht]
          show run o (step o t b) l = t
          rw [h1]; exact ih2 t ht
      have ht : (step o s a).returned = true := by simpa using hr2
      have : run o s (a :: l) = step o s a := hfix l _ ht
      rw [this] at h
      exact absurd h.2.2 hr2

/-! ### exchanging two adjacent items -/

@[simp] theorem dupErr_eq_nil (b : Bool) (n : String) : dupErr b n = [] ↔ b = false := by
  cases b <;> simp [dupErr]

@[simp] theorem dupErr_false (n : String) : dupErr false n = [] := rfl

theorem apply_swap (s : St) (e1 e2 : Effect) (hG : Good (apply (apply s e2) e1)) :
    Sim (apply (apply s e1) e2) (apply (apply s e2) e1) := by
  obtain ⟨g1, g2, g3⟩ := hG
  cases e1 <;> cases e2 <;> simp only [apply, addErrs] at g1 g2 g3 ⊢ <;>
    (try simp at g1) <;>
    refine ⟨?_, ?_, ?_, ?_, ?_, ?_, ?_, ?_, ?_, ?_⟩ <;>
    first
      | rfl
      | exact List.Perm.refl _
      | (dsimp only; simp_all; done)
      | (simp only [List.append_assoc]; exact List.Perm.append_left _ (List.Perm.swap _ _ _))
      | (exact congrArg _ (TypeItems.swap_fixed _ _ _ g2))
      | (exact (TypeItems.swap_fixed _ _ _ g2))
      | (exact (TypeItems.swap_fixed _ _ _ g2).symm)
      | skip

theorem good_not_ret (s : St) (e : Effect) (h : Good (apply s e)) : (∀ x, e ≠ .ret x) := by
  intro x hx
  subst hx
  have := h.2.2
  simp [apply, addErrs] at this

theorem step_live (o : Orc) {s : St} (n : Nested) (h : s.returned = false) : step o s n = apply s (classify o n) := by
  simp [step, h]

theorem step_dead (o : Orc) {s : St} (n : Nested) (h : s.returned = true) : step o s n = s := by
  simp [step, h]

theorem run_dead (o : Orc) (l : List Nested) : ∀ (t : St), t.returned = true → run o t l = t := by
  induction l with
  | nil => intro t _; rfl
  | cons b l ih =>
    intro t ht
    show run o (step o t b) l = t
    rw [step_dead o b ht]; exact ih t ht

theorem good_returned {s : St} (h : Good s) : s.returned = false := h.2.2

/-- two adjacent items can be exchanged when the outcome is good -/
theorem swap_good (o : Orc) (s : St) (a b : Nested) (hr : s.returned = false)
    (h : Good (step o (step o s b) a)) : Sim (step o (step o s a) b) (step o (step o s b) a) := by
  have hb : (step o s b).returned = false := by
    cases hq : (step o s b).returned with
    | false => rfl
    | true =>
      rw [step_dead o a hq] at h
      exact absurd h.2.2 (by simp [hq])
  have e2 : step o (step o s b) a = apply (apply s (classify o b)) (classify o a) := by
    rw [step_live o a hb, step_live o b hr]
  rw [e2] at h ⊢
  have hsw := apply_swap s (classify o a) (classify o b) h
  have ha' : (apply s (classify o a)).returned = false := by
    cases hc : classify o a <;> simp only [apply, addErrs, hr]
    -- `classify o a` is a return: impossible, the outcome is good
    exact absurd hc (good_not_ret _ _ h _)
  have e3 : step o (step o s a) b = apply (apply s (classify o a)) (classify o b) := by
    rw [step_live o a hr, step_live o b ha']
  rw [e3]
  exact hsw

theorem good_sim {s t : St} (h : Sim s t) (hg : Good t) : Good s := ⟨h.errors ▸ hg.1, h.ty ▸ hg.2.1, h.returned ▸ hg.2.2⟩

/-- **every order of the items of an accepted attribute leaves the same state** (up to the order of the
skips and of the subpatterns) -/
theorem run_perm (o : Orc) {l1 l2 : List Nested} (h : l1.Perm l2) :
    ∀ s : St, s.returned = false → Good (run o s l1) → Sim (run o s l2) (run o s l1) := by
  induction h with
  | nil => intro s _ _; exact Sim.refl _
  | @cons a la lb _ ih =>
    intro s hr hg
    by_cases hr2 : (step o s a).returned = false
    · exact ih (step o s a) hr2 hg
    · -- cannot happen: a returned state stays as it is, and it is not good
      have ht : (step o s a).returned = true := by simpa using hr2
      have : run o s (a :: la) = step o s a := run_dead o la _ ht
      rw [this] at hg
      exact absurd hg.2.2 hr2
  | swap a b l =>
    intro s hr hg
    have hg2 : Good (step o (step o s b) a) := by
      have hb : (step o (step o s b) a).returned = false := by
        cases hq : (step o (step o s b) a).returned with
        | false => rfl
        | true =>
          have : run o s (b :: a :: l) = step o (step o s b) a := run_dead o l _ hq
          rw [this] at hg
          exact absurd hg.2.2 (by simp [hq])
      exact good_of_run o l hb hg
    exact run_sim o l (swap_good o s a b hr hg2)
  | trans _ _ ih1 ih2 =>
    intro s hr hg
    have s1 := ih1 s hr hg
    have g2 := good_sim s1 hg
    exact (ih2 s hr g2).trans s1

/-- **C18, the items of one `#[logos(...)]` attribute in any order**: acceptance does not depend on the
order of the items (also when they are refused, and whatever syn makes of their values), and an accepted
attribute leaves the same parser state in every order. -/
theorem accepted_perm (o : Orc) {l1 l2 : List Nested} (h : l1.Perm l2) (lt ty : List String) :
    accepted (run o (init lt ty) l1) = accepted (run o (init lt ty) l2) := by
  have hinv1 := inv_run o l1 (s := init lt ty) (by intro h; cases h)
  have hinv2 := inv_run o l2 (s := init lt ty) (by intro h; cases h)
  have key : ∀ {la lb : List Nested}, la.Perm lb → Inv (run o (init lt ty) la) →
      accepted (run o (init lt ty) la) = true → accepted (run o (init lt ty) lb) = true := by
    intro la lb hp hinv ha
    simp only [accepted, Bool.and_eq_true, List.isEmpty_iff, beq_iff_eq] at ha
    have hret : (run o (init lt ty) la).returned = false := by
      cases hq : (run o (init lt ty) la).returned with
      | false => rfl
      | true => exact absurd ha.1 (hinv hq)
    have hs := run_perm o hp (init lt ty) rfl ⟨ha.1, ha.2, hret⟩
    simp only [accepted, Bool.and_eq_true, List.isEmpty_iff, beq_iff_eq]
    exact ⟨hs.errors ▸ ha.1, hs.ty ▸ ha.2⟩
  cases h1 : accepted (run o (init lt ty) l1) with
  | true => exact (key h hinv1 h1).symm
  | false =>
    cases h2 : accepted (run o (init lt ty) l2) with
    | false => rfl
    | true => rw [key h.symm hinv2 h2] at h1; cases h1

theorem accepted_state_perm (o : Orc) {l1 l2 : List Nested} (h : l1.Perm l2) (lt ty : List String)
    (ha : accepted (run o (init lt ty) l1) = true) : Sim (run o (init lt ty) l2) (run o (init lt ty) l1) := by
  have hinv := inv_run o l1 (s := init lt ty) (by intro h; cases h)
  simp only [accepted, Bool.and_eq_true, List.isEmpty_iff, beq_iff_eq] at ha
  have hret : (run o (init lt ty) l1).returned = false := by
    cases hq : (run o (init lt ty) l1).returned with
    | false => rfl
    | true => exact absurd ha.1 (hinv hq)
  exact run_perm o h (init lt ty) rfl ⟨ha.1, ha.2, hret⟩

end Logos.LogosItems

namespace Logos.LogosItems.NonVacuity
open Logos.Attr Logos.LogosItems

/-- an oracle in the style of the driver's: literal payload 1 is a string, identifiers `true` / `false` are booleans -/
def orc : Orc :=
  { groupToks := fun g => if g == 7 then [.lit 1, comma, .ident "priority", eqTok, .lit 9] else []
    parseLit := fun ts => match ts with | [.lit 1] => some 0 | [.lit _] => some 2 | _ => none
    parseBool := fun ts => match ts with | [.ident "true"] => some true | [.ident "false"] => some false | _ => none
    isType := fun ts => !ts.isEmpty
    parseLt := fun _ => none
    parseTy := fun _ => none }

/-- `skip("..", priority = 9), utf8 = false, extras = u8, error(E, mk)` -/
def items : List Nested :=
  [.named "skip" (.group 7), .named "utf8" (.assign [.ident "false"]), .named "extras" (.assign [.ident "u8"]),
   .named "error" (.assign [.ident "E"])]

example : accepted (run orc (init [] []) items) = true := by decide +kernel
example : (run orc (init [] []) items).utf8 = some false ∧ (run orc (init [] []) items).skips.length = 1 := by decide +kernel
/-- the reverse order is accepted as well, by the theorem -/
example : accepted (run orc (init [] []) items.reverse) = true := by
  rw [← accepted_perm orc (List.reverse_perm items).symm]; decide +kernel
/-- a refused list: `error()` returns early, the `utf8` item behind it is never read, the verdict is the same in both orders -/
example : accepted (run orc (init [] []) [.named "error" (.group 0), .named "utf8" (.assign [.ident "false"])]) = false ∧
    (run orc (init [] []) [.named "error" (.group 0), .named "utf8" (.assign [.ident "false"])]).utf8 = none ∧
    accepted (run orc (init [] []) [.named "utf8" (.assign [.ident "false"]), .named "error" (.group 0)]) = false := by decide +kernel

end Logos.LogosItems.NonVacuity
