/-!
# `ignore(...)` flag groups (logos-codegen/src/parser/ignore_flags.rs, C10)

`IgnoreFlags::parse_group` walks the tokens of the group: an identifier (`case` sets the flag, `ascii_case`
and anything else are errors that end the walk), then a comma or the end; a group without any flag, a
non-identifier where a flag is expected and a non-comma after a flag are errors.
-/
namespace Logos.IgnoreGroup

inductive GTok where
  | ident (s : String)
  | comma
  | other (n : Nat)            -- any other token tree (literal, punctuation, nested group)
deriving Repr, DecidableEq

structure Res where
  ignoreCase : Bool := false
  errs : Nat := 0
deriving Repr, DecidableEq

/-- `parse_ident`: `true` when the identifier is a known flag -/
def parseIdent (r : Res) (s : String) : Res × Bool :=
  if s == "case" then ({ r with ignoreCase := true }, true)
  else ({ r with errs := r.errs + 1 }, false)      -- "ascii_case" (no longer supported) and unknown flags

/-- the loop of `parse_group`; `found` = a flag has been read -/
def parseLoop : Nat → Res → Bool → List GTok → Res
  | 0, r, _, _ => r
  | fuel + 1, r, found, toks =>
    match toks with
    | .ident s :: rest =>
      match parseIdent r s with
      | (r', true) =>
        match rest with
        | [] => r'
        | .comma :: rest' => parseLoop fuel r' true rest'
        | _ :: _ => { r' with errs := r'.errs + 1 }          -- "Unexpected token"
      | (r', false) => r'
    | [] => if found then r else { r with errs := r.errs + 1 }   -- "Invalid ignore flag" (empty group)
    | _ :: _ => { r with errs := r.errs + 1 }                    -- "Invalid ignore flag"

def parseGroup (toks : List GTok) : Res := parseLoop (toks.length + 1) {} false toks

/-- a well-formed group: `case` one or more times, separated by commas, with or without a trailing comma -/
def wellFormed : Nat → Bool → List GTok
  | 0, trailing => [.ident "case"] ++ (if trailing then [.comma] else [])
  | n + 1, trailing => [.ident "case", .comma] ++ wellFormed n trailing

/-- **Every accepted spelling means the same**: any number of `case` flags, with or without a trailing comma, sets
the flag and raises no diagnostic. -/
theorem wellFormed_sets_flag (n : Nat) (trailing : Bool) :
    parseGroup (wellFormed n trailing) = { ignoreCase := true, errs := 0 } := by
  unfold parseGroup
  suffices h : ∀ (n : Nat) (fuel : Nat) (r : Res) (found : Bool),
      (wellFormed n trailing).length < fuel →
      parseLoop fuel r found (wellFormed n trailing) = { r with ignoreCase := true } by
    have := h n ((wellFormed n trailing).length + 1) {} false (Nat.lt_succ_self _)
    simpa using this
  intro n
  induction n with
  | zero =>
    intro fuel r found hf
    cases fuel with
    | zero => simp at hf
    | succ fuel =>
      cases trailing with
      | false => simp [wellFormed, parseLoop, parseIdent]
      | true =>
        cases fuel with
        | zero => simp [wellFormed] at hf
        | succ fuel => simp [wellFormed, parseLoop, parseIdent]
  | succ n ih =>
    intro fuel r found hf
    cases fuel with
    | zero => simp at hf
    | succ fuel =>
      have hlen : (wellFormed n trailing).length < fuel := by
        simp [wellFormed] at hf; omega
      simp only [wellFormed, List.cons_append, List.nil_append, parseLoop, parseIdent, beq_self_eq_true, if_true]
      rw [ih fuel _ true hlen]

/-- the flag is never set without a `case` identifier in the group -/
theorem flag_needs_case (toks : List GTok) (h : (parseGroup toks).ignoreCase = true) :
    GTok.ident "case" ∈ toks := by
  unfold parseGroup at h
  suffices key : ∀ (fuel : Nat) (r : Res) (found : Bool) (toks : List GTok),
      (parseLoop fuel r found toks).ignoreCase = true → r.ignoreCase = true ∨ GTok.ident "case" ∈ toks by
    rcases key _ _ _ _ h with h | h
    · simp at h
    · exact h
  intro fuel
  induction fuel with
  | zero => intro r found toks h; left; simpa [parseLoop] using h
  | succ fuel ih =>
    intro r found toks h
    cases toks with
    | nil =>
      simp only [parseLoop] at h
      split at h <;> (left; simpa using h)
    | cons t rest =>
      cases t with
      | comma => left; simpa [parseLoop] using h
      | other k => left; simpa [parseLoop] using h
      | ident s =>
        by_cases hs : s = "case"
        · right; subst hs; simp
        · left
          simp only [parseLoop, parseIdent] at h
          have : (s == "case") = false := by simpa using hs
          simp [this] at h
          exact h

example : parseGroup [.ident "case", .comma] = { ignoreCase := true, errs := 0 } := by decide
example : parseGroup [] = { ignoreCase := false, errs := 1 } := by decide
example : parseGroup [.ident "ascii_case"] = { ignoreCase := false, errs := 1 } := by decide
example : parseGroup [.ident "case", .ident "case"] = { ignoreCase := true, errs := 1 } := by decide
example : parseGroup [.comma, .ident "case"] = { ignoreCase := false, errs := 1 } := by decide

end Logos.IgnoreGroup
