import LogosModel.Passes
import LogosModel.Lex
import LogosModel.PassesProof
/-!
# What dead-end pruning preserves

Pruning removes the states that neither record a match nor can reach a state that does, and every edge
into them.  A match attempt that ends in a match is unchanged; an attempt that ends without a match can
only stop earlier (this is what makes error spans end at the first byte after which no pattern is
viable); nothing else changes.  Side conditions (decidable, checked on every graph): references stay
inside the graph, end-of-input targets have no further end-of-input edge, the computed set of live
states is closed (a state outside it has no successor inside it), and — needed, see `cexMatched_spec` /
`cexNomatch_spec` and the two refutations below — the edges out of each state have pairwise disjoint byte
classes (otherwise removing the first edge containing a byte exposes a later one).
-/
namespace Logos.Passes
open Logos

def refsClosed (g : Graph) : Bool :=
  decide (g.root < g.states.size) &&
  (List.range g.states.size).all fun s =>
    (children (g.get s)).all (fun c => decide (c < g.states.size)) &&
    match (g.get s).eoi with
    | some t => (g.get t).eoi.isNone
    | none => true

/-- the live set `prune` computes -/
def liveSet (g : Graph) : List Nat :=
  let start := ((List.range g.states.size).filter fun s =>
    ((g.get s).early.isSome || (g.get s).accept.isSome)) ++ [g.root]
  reachBack g g.states.size start.eraseDups

/-- no state outside the live set has a successor inside it (the fixed point was reached) -/
def liveClosed (g : Graph) : Bool :=
  let L := liveSet g      -- computed once
  (List.range g.states.size).all fun s =>
    L.contains s || (children (g.get s)).all fun c => !L.contains c


/-! ### helper lemmas -/

theorem refsClosed_eq (g : Graph) : refsClosed g = rawClosed g := rfl

theorem reachBack_sub (g : Graph) :
    ∀ (fuel : Nat) (seen : List Nat) (x : Nat), x ∈ seen → x ∈ reachBack g fuel seen := by
  intro fuel
  induction fuel with
  | zero => intro seen x h; simpa [reachBack] using h
  | succ k ih =>
    intro seen x h
    simp only [reachBack]
    split
    · exact h
    · exact ih _ _ (List.mem_append_left _ h)

def Live (g : Graph) (s : Nat) : Prop := s < g.states.size ∧ (liveSet g).contains s = true

theorem root_mem_live (g : Graph) : g.root ∈ liveSet g := by
  unfold liveSet
  apply reachBack_sub
  rw [List.mem_eraseDups]
  simp

theorem rec_mem_live (g : Graph) (s : Nat) (hs : s < g.states.size)
    (h : ((g.get s).early.isSome || (g.get s).accept.isSome) = true) : s ∈ liveSet g := by
  unfold liveSet
  apply reachBack_sub
  rw [List.mem_eraseDups]
  apply List.mem_append_left
  rw [List.mem_filter]
  exact ⟨List.mem_range.mpr hs, h⟩

theorem root_live {g : Graph} (h1 : refsClosed g = true) : Live g g.root :=
  ⟨closed_root h1, by simpa using root_mem_live g⟩

theorem dead_norec {g : Graph} {t : Nat} (hd : ¬ Live g t) :
    (g.get t).early = none ∧ (g.get t).accept = none := by
  by_cases ht : t < g.states.size
  · have hc : ¬ ((g.get t).early.isSome || (g.get t).accept.isSome) = true := by
      intro h
      exact hd ⟨ht, by simpa using rec_mem_live g t ht h⟩
    cases h1 : (g.get t).early <;> cases h2 : (g.get t).accept <;> simp [h1, h2] at hc ⊢
  · rw [get_ge _ _ (Nat.le_of_not_lt ht)]; exact ⟨rfl, rfl⟩

theorem dead_child {g : Graph} (h2 : liveClosed g = true) {t c : Nat} (hd : ¬ Live g t)
    (hc : c ∈ children (g.get t)) : ¬ Live g c := by
  by_cases ht : t < g.states.size
  · simp only [liveClosed, List.all_eq_true, List.mem_range, Bool.or_eq_true] at h2
    rcases h2 t ht with h | h
    · exact absurd ⟨ht, h⟩ hd
    · have := h c hc
      intro hl
      rw [hl.2] at this
      simp at this
  · rw [get_ge _ _ (Nat.le_of_not_lt ht)] at hc
    simp [children] at hc

theorem record_dead {g : Graph} {t : Nat} (hd : ¬ Live g t) (pos : Nat) (ctx : Option Nat) (te : Nat) :
    record (g.get t) pos ctx te = (ctx, te) := by
  obtain ⟨a, b⟩ := dead_norec hd
  simp [record, a, b]

theorem pr_atEoi_succ (g : Graph) (start fuel st pos : Nat) (ctx : Option Nat) (te : Nat) :
    atEoi g false start (fuel+1) st pos ctx te =
      if (st == g.root && start == pos) = true then .endOfInput
      else match (g.get st).eoi with
        | some t => atEoi g false start fuel t (pos+1) (record (g.get t) (pos+1) ctx te).1
                      (record (g.get t) (pos+1) ctx te).2
        | none => .action pos ctx te := by
  rw [atEoi]
  simp only [Bool.and_false, Bool.false_eq_true, ↓reduceIte]
  rfl

theorem atEoi_noeoi (g : Graph) (start fuel st pos : Nat) (ctx : Option Nat) (te : Nat)
    (he : (g.get st).eoi = none) (hr : (st == g.root && start == pos) = false) :
    atEoi g false start (fuel+1) st pos ctx te = .action pos ctx te := by
  rw [pr_atEoi_succ, hr, he]
  simp

theorem dead_not_root {g : Graph} (h1 : refsClosed g = true) {t : Nat} (hd : ¬ Live g t)
    (start pos : Nat) : (t == g.root && start == pos) = false := by
  have : t ≠ g.root := fun h => hd (h ▸ root_live h1)
  simp [this]

theorem dead_walk {g : Graph} (h1 : refsClosed g = true) (h2 : liveClosed g = true) (start : Nat) :
    ∀ (rest : List Nat) (t pos : Nat) (ctx : Option Nat) (te : Nat), ¬ Live g t →
      ∃ off, pos ≤ off ∧ walk g false start t rest pos ctx te = .action off ctx te := by
  intro rest
  induction rest with
  | nil =>
    intro t pos ctx te hd
    simp only [walk]
    rw [record_dead hd]
    simp only
    obtain ⟨m, hm⟩ : ∃ m, g.states.size = m + 1 := ⟨g.states.size - 1, by have := closed_root h1; omega⟩
    rw [hm]
    cases he : (g.get t).eoi with
    | none => exact ⟨pos, Nat.le_refl _, atEoi_noeoi _ _ _ _ _ _ _ he (dead_not_root h1 hd _ _)⟩
    | some t' =>
      have hd' : ¬ Live g t' := dead_child h2 hd (eoi_mem_children he)
      refine ⟨pos+1, by omega, ?_⟩
      rw [pr_atEoi_succ, dead_not_root h1 hd, he]
      simp only [record_dead hd']
      exact atEoi_noeoi _ _ _ _ _ _ _ (closed_eoi h1 he) (dead_not_root h1 hd' _ _)
  | cons b rest ih =>
    intro t pos ctx te hd
    simp only [walk]
    rw [record_dead hd]
    cases hn : (g.get t).next b with
    | none => exact ⟨pos, Nat.le_refl _, rfl⟩
    | some t' =>
      obtain ⟨off, ho, hw⟩ := ih t' (pos+1) ctx te (dead_child h2 hd (next_mem_children hn))
      exact ⟨off, by omega, hw⟩

def pr_keepOf (g : Graph) : List Nat :=
  (List.range g.states.size).filter fun s => (liveSet g).contains s
def pr_fOf (g : Graph) : Nat → Nat := renumber (pr_keepOf g)
def pr_g1Of (g : Graph) : Graph := mapStates g fun _ sd =>
  { sd with normal := sd.normal.filter (fun e => (liveSet g).contains e.target),
            eoi := sd.eoi.filter (fun t => (liveSet g).contains t) }

theorem prune_eq (g : Graph) : prune g = retain (pr_g1Of g) (pr_keepOf g) (pr_fOf g) := rfl

theorem mem_keepOf {g : Graph} {s : Nat} : s ∈ pr_keepOf g ↔ Live g s := by
  simp [pr_keepOf, Live, List.mem_filter]

theorem pr_renumber_spec {keep : List Nat} {s : Nat} (h : s ∈ keep) :
    ∃ (i : Nat) (hi : i < keep.length), renumber keep s = i ∧ keep[i] = s := by
  unfold renumber
  cases hx : keep.idxOf? s with
  | none => exact absurd h (List.idxOf?_eq_none_iff.mp hx)
  | some i =>
    obtain ⟨hi, he, _⟩ := List.idxOf?_eq_some_iff.mp hx
    exact ⟨i, hi, rfl, he⟩

theorem renumber_inj {keep : List Nat} {s s' : Nat} (h : s ∈ keep) (h' : s' ∈ keep)
    (e : renumber keep s = renumber keep s') : s = s' := by
  obtain ⟨i, hi, hr, hk⟩ := pr_renumber_spec h
  obtain ⟨i', hi', hr', hk'⟩ := pr_renumber_spec h'
  have : i = i' := by rw [← hr, ← hr', e]
  subst this
  rw [← hk, ← hk']

theorem retain_get (g : Graph) (keep : List Nat) (f : Nat → Nat) {s : Nat} (h : s ∈ keep) :
    (retain g keep f).get (renumber keep s) =
      { g.get s with normal := (g.get s).normal.map (fun e => { e with target := f e.target }),
                     eoi := (g.get s).eoi.map f } := by
  obtain ⟨i, hi, hr, hk⟩ := pr_renumber_spec h
  rw [hr]
  simp [retain, Graph.get, Array.getD, hi, hk]

theorem prune_get {g : Graph} {s : Nat} (h : Live g s) :
    (prune g).get (pr_fOf g s) =
      { early := (g.get s).early, accept := (g.get s).accept,
        normal := ((g.get s).normal.filter (fun e => (liveSet g).contains e.target)).map
          (fun e => { e with target := pr_fOf g e.target }),
        eoi := ((g.get s).eoi.filter (fun t => (liveSet g).contains t)).map (pr_fOf g) } := by
  rw [prune_eq, pr_fOf, retain_get _ _ _ (mem_keepOf.mpr h), pr_g1Of, mapStates_get_lt _ _ _ h.1]

theorem prune_root (g : Graph) : (prune g).root = pr_fOf g g.root := rfl

theorem prune_size (g : Graph) : (prune g).states.size = (pr_keepOf g).length := by
  simp [prune_eq, retain]

theorem fOf_inj {g : Graph} {s s' : Nat} (h : Live g s) (h' : Live g s') (e : pr_fOf g s = pr_fOf g s') :
    s = s' := renumber_inj (mem_keepOf.mpr h) (mem_keepOf.mpr h') e

theorem prune_record {g : Graph} {s : Nat} (h : Live g s) (pos : Nat) (ctx : Option Nat) (te : Nat) :
    record ((prune g).get (pr_fOf g s)) pos ctx te = record (g.get s) pos ctx te := by
  rw [prune_get h]; rfl

theorem prune_next {g : Graph} {s : Nat} (h : Live g s) (b : Nat) :
    ((prune g).get (pr_fOf g s)).next b =
      ((((g.get s).normal.filter (fun e => (liveSet g).contains e.target)).find?
        (fun e => inRanges e.ranges b)).map (fun e => pr_fOf g e.target)) := by
  rw [prune_get h]
  simp [StateData.next, List.find?_map, Function.comp_def]

theorem prune_eoi_edge {g : Graph} {s : Nat} (h : Live g s) :
    ((prune g).get (pr_fOf g s)).eoi =
      ((g.get s).eoi.filter (fun t => (liveSet g).contains t)).map (pr_fOf g) := by
  rw [prune_get h]

/-- first match survives a filter it satisfies -/
theorem find?_filter_of_pos {α} (p q : α → Bool) : ∀ (l : List α) (e : α),
    l.find? p = some e → q e = true → (l.filter q).find? p = some e := by
  intro l
  induction l with
  | nil => intro e h; simp at h
  | cons a l ih =>
    intro e h hq
    rw [List.find?_cons] at h
    cases hp : p a with
    | true =>
      rw [hp] at h
      simp only [Option.some.injEq] at h
      subst h
      simp [hq, hp]
    | false =>
      rw [hp] at h
      have := ih e h hq
      cases hqa : q a <;> simp [hqa, hp, this]

theorem find?_filter_none {α} (p q : α → Bool) (l : List α) (h : l.find? p = none) :
    (l.filter q).find? p = none := by
  rw [List.find?_eq_none] at h ⊢
  intro x hx
  exact h x (List.mem_filter.mp hx).1

theorem find?_filter_of_neg {α} (p q : α → Bool) (l : List α) (e : α)
    (h : l.find? p = some e) (hq : q e = false) (hl : (l.filter p).length ≤ 1) :
    (l.filter q).find? p = none := by
  rw [List.find?_eq_none]
  intro x hx hpx
  have hxl := (List.mem_filter.mp hx)
  have m1 : x ∈ l.filter p := List.mem_filter.mpr ⟨hxl.1, hpx⟩
  have m2 : e ∈ l.filter p := List.mem_filter.mpr ⟨List.mem_of_find?_eq_some h, List.find?_some h⟩
  have : x = e := by
    generalize l.filter p = L at hl m1 m2
    match L, hl, m1, m2 with
    | [y], _, m1, m2 =>
      simp at m1 m2
      rw [m1, m2]
  rw [this, hq] at hxl
  simp at hxl

theorem disjoint_get {g : Graph} (h3 : edgesDisjoint g = true) {s b : Nat} (hs : s < g.states.size)
    (hb : b < 256) : ((g.get s).normal.filter fun e => inRanges e.ranges b).length ≤ 1 := by
  simp only [edgesDisjoint, List.all_eq_true, List.mem_range, decide_eq_true_eq] at h3
  exact h3 s hs b hb

theorem live_child {g : Graph} (h1 : refsClosed g = true) {s c : Nat} (hs : Live g s)
    (hc : c ∈ children (g.get s)) (hl : (liveSet g).contains c = true) : Live g c :=
  ⟨closed_child h1 hs.1 hc, hl⟩

theorem prune_root_test {g : Graph} (h1 : refsClosed g = true) {s : Nat} (hs : Live g s)
    (start pos : Nat) :
    (pr_fOf g s == (prune g).root && start == pos) = (s == g.root && start == pos) := by
  rw [prune_root]
  by_cases h : s = g.root
  · subst h; simp
  · have : pr_fOf g s ≠ pr_fOf g g.root := fun e => h (fOf_inj hs (root_live h1) e)
    rw [beq_eq_false_iff_ne.mpr h, beq_eq_false_iff_ne.mpr this]

theorem atEoi_sim_prune {g : Graph} (h1 : refsClosed g = true)
    (start s pos : Nat) (c0 : Option Nat) (e0 : Nat) (off : Nat) (c : Option Nat) (e : Nat)
    (hs : Live g s) (hp : start ≤ pos)
    (h : atEoi g false start (g.states.size + 1) s pos c0 e0 = .action off c e) :
    ∃ off', off' ≤ off ∧
      atEoi (prune g) false start ((prune g).states.size + 1) (pr_fOf g s) pos c0 e0 = .action off' c e := by
  obtain ⟨m, hm⟩ : ∃ m, g.states.size = m + 1 := ⟨g.states.size - 1, by have := closed_root h1; omega⟩
  obtain ⟨k, hk⟩ : ∃ k, (prune g).states.size = k + 1 := by
    refine ⟨(prune g).states.size - 1, ?_⟩
    rw [prune_size]
    have : g.root ∈ pr_keepOf g := mem_keepOf.mpr (root_live h1)
    have := List.length_pos_of_mem this
    omega
  rw [hm] at h
  rw [hk]
  rw [pr_atEoi_succ] at h ⊢
  rw [prune_root_test h1 hs]
  split at h
  · simp at h
  · rename_i hrt
    rw [if_neg hrt]
    rw [prune_eoi_edge hs]
    have hne : ∀ t, (t == g.root && start == pos + 1) = false := by
      intro t
      have : start ≠ pos + 1 := by omega
      simp [this]
    have hne' : ∀ t, (t == (prune g).root && start == pos + 1) = false := by
      intro t
      have : start ≠ pos + 1 := by omega
      simp [this]
    cases he : (g.get s).eoi with
    | none =>
      rw [he] at h
      simp only at h
      exact ⟨off, Nat.le_refl _, by simpa using h⟩
    | some t =>
      rw [he] at h
      simp only at h
      have hte : (g.get t).eoi = none := closed_eoi h1 he
      rw [atEoi_noeoi _ _ _ _ _ _ _ hte (hne t)] at h
      by_cases hl : (liveSet g).contains t = true
      · have hlt : Live g t := live_child h1 hs (eoi_mem_children he) hl
        refine ⟨off, Nat.le_refl _, ?_⟩
        simp only [Option.filter_some, hl, if_true, Option.map_some]
        rw [prune_record hlt]
        rw [atEoi_noeoi _ _ _ _ _ _ _ (by rw [prune_eoi_edge hlt, hte]; rfl) (hne' _)]
        exact h
      · have hd : ¬ Live g t := fun x => hl x.2
        rw [record_dead hd] at h
        simp only [Stop.action.injEq] at h
        obtain ⟨h1', h2', h3'⟩ := h
        subst h2' h3'
        refine ⟨pos, by omega, ?_⟩
        have hl' : (liveSet g).contains t = false := by simpa using hl
        simp only [Option.filter_some, hl', Bool.false_eq_true, if_false, Option.map_none]

theorem walk_sim_prune {g : Graph} (h1 : refsClosed g = true) (h2 : liveClosed g = true)
    (h3 : edgesDisjoint g = true) (start : Nat) :
    ∀ (rest : List Nat) (s pos : Nat) (ctx : Option Nat) (te : Nat) (off : Nat) (c : Option Nat) (e : Nat),
      Live g s → start ≤ pos → (∀ b ∈ rest, b < 256) →
      walk g false start s rest pos ctx te = .action off c e →
      ∃ off', off' ≤ off ∧ walk (prune g) false start (pr_fOf g s) rest pos ctx te = .action off' c e := by
  intro rest
  induction rest with
  | nil =>
    intro s pos ctx te off c e hs hp _ h
    simp only [walk] at h ⊢
    rw [prune_record hs]
    exact atEoi_sim_prune h1 start s pos _ _ off c e hs hp h
  | cons b rest ih =>
    intro s pos ctx te off c e hs hp hb h
    simp only [walk] at h ⊢
    rw [prune_record hs, prune_next hs]
    unfold StateData.next at h
    cases hf : (g.get s).normal.find? (fun e => inRanges e.ranges b) with
    | none =>
      rw [hf] at h
      rw [find?_filter_none _ _ _ hf]
      exact ⟨off, Nat.le_refl _, h⟩
    | some ed =>
      rw [hf] at h
      simp only [Option.map_some] at h
      have hch : ed.target ∈ children (g.get s) := by
        simp only [children, List.mem_append, List.mem_map]
        exact Or.inl ⟨ed, List.mem_of_find?_eq_some hf, rfl⟩
      by_cases hl : (liveSet g).contains ed.target = true
      · rw [find?_filter_of_pos _ (fun e => (liveSet g).contains e.target) _ _ hf hl]
        simp only [Option.map_some]
        exact ih ed.target (pos+1) _ _ off c e (live_child h1 hs hch hl) (by omega)
          (fun b' hb' => hb b' (by simp [hb'])) h
      · have hd : ¬ Live g ed.target := fun x => hl x.2
        rw [find?_filter_of_neg _ (fun e => (liveSet g).contains e.target) _ _ hf (by simpa using hl)
          (disjoint_get h3 hs.1 (hb b (by simp)))]
        obtain ⟨o, ho, hw⟩ := dead_walk h1 h2 start rest ed.target (pos+1)
          (record (g.get s) pos ctx te).1 (record (g.get s) pos ctx te).2 hd
        rw [hw] at h
        simp only [Stop.action.injEq] at h
        obtain ⟨h1', h2', h3'⟩ := h
        subst h1' h2' h3'
        exact ⟨pos, by omega, rfl⟩

theorem attempt_matched {st : Stop} {l e : Nat} (h : attemptOfStop st = .matched l e) :
    ∃ off, st = .action off (some l) e := by
  cases st with
  | action off c e' =>
    cases c with
    | none => simp [attemptOfStop] at h
    | some l' =>
      simp [attemptOfStop] at h
      exact ⟨off, by rw [h.1, h.2]⟩
  | _ => simp [attemptOfStop] at h

theorem attempt_nomatch {st : Stop} {off : Nat} (h : attemptOfStop st = .nomatch off) :
    ∃ e, st = .action off none e := by
  cases st with
  | action off' c e' =>
    cases c with
    | none =>
      simp [attemptOfStop] at h
      exact ⟨e', by rw [h]⟩
    | some l' => simp [attemptOfStop] at h
  | _ => simp [attemptOfStop] at h

theorem attempt_eoi {st : Stop} (h : attemptOfStop st = .eoi) : st = .endOfInput := by
  cases st with
  | action off' c e' => cases c <;> simp [attemptOfStop] at h
  | endOfInput => rfl
  | _ => simp [attemptOfStop] at h

theorem prune_matched (g : Graph) (h1 : refsClosed g = true) (h2 : liveClosed g = true)
    (h3 : edgesDisjoint g = true)
    (inp : List Nat) (hb : ∀ b ∈ inp, b < 256) (start l e : Nat)
    (h : walkAttempt g false inp start = .matched l e) :
    walkAttempt (prune g) false inp start = .matched l e := by
  unfold walkAttempt at h ⊢
  obtain ⟨off, hw⟩ := attempt_matched h
  obtain ⟨off', _, hw'⟩ := walk_sim_prune h1 h2 h3 start _ g.root start none start off (some l) e
    (root_live h1) (Nat.le_refl _) (fun b hb' => hb b (List.mem_of_mem_drop hb')) hw
  rw [prune_root, hw']
  rfl

theorem prune_nomatch (g : Graph) (h1 : refsClosed g = true) (h2 : liveClosed g = true)
    (h3 : edgesDisjoint g = true)
    (inp : List Nat) (hb : ∀ b ∈ inp, b < 256) (start off : Nat)
    (h : walkAttempt g false inp start = .nomatch off) :
    ∃ off', off' ≤ off ∧ walkAttempt (prune g) false inp start = .nomatch off' := by
  unfold walkAttempt at h ⊢
  obtain ⟨e, hw⟩ := attempt_nomatch h
  obtain ⟨off', ho, hw'⟩ := walk_sim_prune h1 h2 h3 start _ g.root start none start off none e
    (root_live h1) (Nat.le_refl _) (fun b hb' => hb b (List.mem_of_mem_drop hb')) hw
  refine ⟨off', ho, ?_⟩
  rw [prune_root, hw']
  rfl

/-! ### end of input: true without any side condition on the edges -/

theorem atEoi_not_endOfInput (g : Graph) (start : Nat) :
    ∀ (fuel st pos : Nat) (ctx : Option Nat) (te : Nat), start < pos →
      atEoi g false start fuel st pos ctx te ≠ .endOfInput := by
  intro fuel
  induction fuel with
  | zero => intro st pos ctx te _; simp [atEoi]
  | succ k ih =>
    intro st pos ctx te hp
    rw [pr_atEoi_succ]
    have : start ≠ pos := by omega
    rw [beq_eq_false_iff_ne.mpr this]
    simp only [Bool.and_false, Bool.false_eq_true, if_false]
    split
    · exact ih _ _ _ _ (by omega)
    · simp

theorem walk_not_endOfInput (g : Graph) (start : Nat) :
    ∀ (rest : List Nat) (st pos : Nat) (ctx : Option Nat) (te : Nat), start < pos →
      walk g false start st rest pos ctx te ≠ .endOfInput := by
  intro rest
  induction rest with
  | nil => intro st pos ctx te hp; simp only [walk]; exact atEoi_not_endOfInput g start _ _ _ _ _ hp
  | cons b rest ih =>
    intro st pos ctx te hp
    simp only [walk]
    split
    · exact ih _ _ _ _ (by omega)
    · simp

theorem prune_eoi_any (g : Graph)
    (inp : List Nat) (start : Nat)
    (h : walkAttempt g false inp start = .eoi) :
    walkAttempt (prune g) false inp start = .eoi := by
  unfold walkAttempt at h ⊢
  have hw := attempt_eoi h
  cases hr : inp.drop start with
  | nil =>
    simp only [walk]
    rw [pr_atEoi_succ]
    simp [attemptOfStop]
  | cons b rest =>
    rw [hr] at hw
    simp only [walk] at hw
    split at hw
    · exact absurd hw (walk_not_endOfInput g start _ _ _ _ _ (by omega))
    · simp at hw

/-! ### the two statements without `edgesDisjoint` are false: counterexamples

`StateData.next` takes the *first* edge whose class contains the byte.  If two edges out of a state
contain the same byte, the first into a dead state and the second into a recording state, pruning removes
the first edge and the pruned graph takes the second one. -/

/-- root `0` has two edges on every byte: to the dead state `1` and to state `2` (accepting leaf 7) -/
def cexNomatch : Graph := { root := 0, states := #[
  { normal := [⟨[(0,255)], 1⟩, ⟨[(0,255)], 2⟩] },
  { },
  { accept := some 7 } ] }

/-- as above one step later: state `1` already records leaf 5 -/
def cexMatched : Graph := { root := 0, states := #[
  { normal := [⟨[(0,255)], 1⟩] },
  { accept := some 5, normal := [⟨[(0,255)], 2⟩, ⟨[(0,255)], 3⟩] },
  { },
  { accept := some 9 } ] }

theorem cexNomatch_spec : refsClosed cexNomatch = true ∧ liveClosed cexNomatch = true ∧
    walkAttempt cexNomatch false [5] 0 = .nomatch 1 ∧
    walkAttempt (prune cexNomatch) false [5] 0 = .matched 7 0 := by decide +kernel

theorem cexMatched_spec : refsClosed cexMatched = true ∧ liveClosed cexMatched = true ∧
    walkAttempt cexMatched false [5, 5] 0 = .matched 5 0 ∧
    walkAttempt (prune cexMatched) false [5, 5] 0 = .matched 9 1 := by decide +kernel

/-- the statement of `prune_nomatch` (below) does not hold for all graphs -/
theorem prune_nomatch_refuted :
    ¬ ∀ (g : Graph), refsClosed g = true → liveClosed g = true →
      ∀ (inp : List Nat), (∀ b ∈ inp, b < 256) → ∀ (start off : Nat),
        walkAttempt g false inp start = .nomatch off →
        ∃ off', off' ≤ off ∧ walkAttempt (prune g) false inp start = .nomatch off' := by
  intro H
  obtain ⟨a, b, c, d⟩ := cexNomatch_spec
  obtain ⟨off', _, h⟩ := H cexNomatch a b [5] (by simp) 0 1 c
  rw [d] at h
  cases h

/-- the statement of `prune_matched` (below) does not hold for all graphs -/
theorem prune_matched_refuted :
    ¬ ∀ (g : Graph), refsClosed g = true → liveClosed g = true →
      ∀ (inp : List Nat), (∀ b ∈ inp, b < 256) → ∀ (start l e : Nat),
        walkAttempt g false inp start = .matched l e →
        walkAttempt (prune g) false inp start = .matched l e := by
  intro H
  obtain ⟨a, b, c, d⟩ := cexMatched_spec
  have h := H cexMatched a b [5, 5] (by simp) 0 5 0 c
  rw [d] at h
  cases h

set_option linter.unusedVariables false in
/-- **Pruning and the end of the input.** -/
theorem prune_eoi (g : Graph) (h1 : refsClosed g = true) (h2 : liveClosed g = true)
    (inp : List Nat) (hb : ∀ b ∈ inp, b < 256) (start : Nat)
    (h : walkAttempt g false inp start = .eoi) :
    walkAttempt (prune g) false inp start = .eoi :=
  prune_eoi_any g inp start h

set_option linter.unusedVariables false in
/-- **Pruning and the end of the input** (same hypotheses as the two primed theorems). -/
theorem prune_eoi' (g : Graph) (h1 : refsClosed g = true) (h2 : liveClosed g = true)
    (h3 : edgesDisjoint g = true)
    (inp : List Nat) (hb : ∀ b ∈ inp, b < 256) (start : Nat)
    (h : walkAttempt g false inp start = .eoi) :
    walkAttempt (prune g) false inp start = .eoi :=
  prune_eoi_any g inp start h

end Logos.Passes
