/-!
# How an inline callback is emitted (generator/leaf.rs `generate_callback`, leaf.rs `InlineCallback::leaves_early`)

The body of `|arg| body` is pasted into a function of the generated code (`{ let arg = lex; body }`).  As found (defect
D17) that was done for every body, so a `return` or a `?` in the body left the *generated function*: accepted definitions
that did not compile.  As repaired, a body that contains the identifier `return` or the punctuation `?` at any depth of its
token tree is emitted as a closure that is called on the spot, `(|arg: &mut Lexer<..>| { body })(lex)`; every other body is
pasted as before (the snapshot fixtures of the suite pin that text).

`leavesEarly` is the scan of the code over a token tree; `leavesEarly_iff` says what it computes: some token of the
flattened tree is `return` or `?` - string and character literals are single tokens (`"return?"` does not count), an
identifier that merely begins with `return` does not count, a raw identifier `r#return` is a different identifier.
-/
namespace Logos.CallbackEmit

mutual
inductive CTok where
  | ident (name : String)
  | punct (c : Char)
  | lit
  | group (inner : CToks)
inductive CToks where
  | nil
  | cons (t : CTok) (ts : CToks)
end

mutual
/-- `InlineCallback::leaves_early`: the recursive scan -/
def leavesEarlyT : CTok → Bool
  | .ident n => n == "return"
  | .punct c => c == '?'
  | .lit => false
  | .group inner => leavesEarly inner
def leavesEarly : CToks → Bool
  | .nil => false
  | .cons t ts => leavesEarlyT t || leavesEarly ts
end

inductive Flat where
  | ident (name : String)
  | punct (c : Char)
  | lit
deriving DecidableEq

mutual
/-- the tokens of a tree without its delimiters -/
def flattenT : CTok → List Flat
  | .ident n => [.ident n]
  | .punct c => [.punct c]
  | .lit => [.lit]
  | .group inner => flatten inner
def flatten : CToks → List Flat
  | .nil => []
  | .cons t ts => flattenT t ++ flatten ts
end

def Flat.early : Flat → Bool
  | .ident n => n == "return"
  | .punct c => c == '?'
  | .lit => false

mutual
theorem leavesEarlyT_iff : ∀ t : CTok, leavesEarlyT t = (flattenT t).any Flat.early
  | .ident n => by simp [leavesEarlyT, flattenT, Flat.early]
  | .punct c => by simp [leavesEarlyT, flattenT, Flat.early]
  | .lit => by simp [leavesEarlyT, flattenT, Flat.early]
  | .group inner => by simp [leavesEarlyT, flattenT, leavesEarly_any inner]
theorem leavesEarly_any : ∀ ts : CToks, leavesEarly ts = (flatten ts).any Flat.early
  | .nil => by simp [leavesEarly, flatten]
  | .cons t ts => by simp [leavesEarly, flatten, List.any_append, leavesEarlyT_iff t, leavesEarly_any ts]
end

/-- **what the scan computes**: some token at some depth is the identifier `return` or the punctuation `?` -/
theorem leavesEarly_iff (ts : CToks) :
    leavesEarly ts = true ↔ ∃ f ∈ flatten ts, f = .ident "return" ∨ f = .punct '?' := by
  rw [leavesEarly_any, List.any_eq_true]
  constructor
  · rintro ⟨f, hf, he⟩
    refine ⟨f, hf, ?_⟩
    cases f with
    | ident n => left; simp [Flat.early] at he; rw [he]
    | punct c => right; simp [Flat.early] at he; rw [he]
    | lit => simp [Flat.early] at he
  · rintro ⟨f, hf, he⟩
    refine ⟨f, hf, ?_⟩
    rcases he with rfl | rfl <;> simp [Flat.early]

instance : Inhabited CToks := ⟨.nil⟩

/-- how the callback is emitted -/
inductive Emitted where
  | pasted        -- `{ let arg = lex; body }`
  | closureCall   -- `(|arg: &mut Lexer<..>| { body })(lex)`
deriving DecidableEq, Repr

def emitFound (_ : CToks) : Emitted := .pasted
def emitFixed (body : CToks) : Emitted := if leavesEarly body then .closureCall else .pasted

/-- the repaired generator changes nothing for a body without `return` / `?` (what the snapshot fixtures pin) -/
theorem emitFixed_eq_found (body : CToks) (h : leavesEarly body = false) : emitFixed body = emitFound body := by
  simp [emitFixed, emitFound, h]

/-- the code as found pasted `{ if c { return false; } true }` into the generated function -/
theorem emitFound_pastes_return :
    let body : CToks := .cons (.ident "if") (.cons (.ident "c") (.cons (.group (.cons (.ident "return") (.cons (.ident "false") (.cons (.punct ';') .nil))))
      (.cons (.ident "true") .nil)))
    emitFound body = .pasted ∧ emitFixed body = .closureCall := by
  constructor <;> rfl

/-! ## a closure that declares its return type (defect D19)

`|lex| -> bool { true }`: what follows the parameter list is not a body.  As found the tokens `-> bool { true }` were pasted
as the body (unparsable output); as repaired the derive reports it.  Only `-` directly followed by `>` counts: `|lex| -1` is a
body. -/

def declaresReturn : CToks → Bool
  | .cons (.punct '-') (.cons (.punct '>') _) => true
  | _ => false

inductive Verdict where
  | accepted | refused
deriving DecidableEq, Repr

def headFound (_ : CToks) : Verdict := .accepted
def headFixed (afterParams : CToks) : Verdict := if declaresReturn afterParams then .refused else .accepted

theorem headFixed_refuses_arrow (rest : CToks) : headFixed (.cons (.punct '-') (.cons (.punct '>') rest)) = .refused := rfl

/-- a body that begins with a minus sign is still a body (`|lex| -1`, defect D15) -/
theorem headFixed_keeps_minus (rest : CToks) : headFixed (.cons (.punct '-') (.cons .lit rest)) = .accepted := rfl

theorem headFound_accepts_arrow (rest : CToks) : headFound (.cons (.punct '-') (.cons (.punct '>') rest)) = .accepted := rfl

end Logos.CallbackEmit
