/-!
# The attribute-argument tokenizer and `parse_definition` (logos-codegen/src/parser/{nested,mod,definition}.rs), C18

Tokens are abstract (`proc_macro2::TokenTree` up to what the parser inspects): identifiers, punctuation
(with "alone" spacing), literals, and delimited groups.  `AttributeParser::next` is modelled
statement by statement; the flag `consumeAfterGroup` selects what `parse_group` does with the
tokens between a `name(...)` argument and the next comma: `false` is the code as found (nothing is
consumed, so the separator itself is read as the start of the next argument), `true` is the repaired
code (the tail is consumed like `parse_literal` does).
-/
namespace Logos.Attr

inductive Tok where
  | ident (s : String)
  | punct (c : Char) (alone : Bool)
  | lit (payload : Nat)
  | group (id : Nat)            -- a delimited group; its contents are referred to by `id`
deriving Repr, DecidableEq

/-- `is_punct(tt, ',')`: a comma separates whatever its spacing (a comma directly followed by punctuation is `Joint`:
`Debug,::logos::Logos`, `"a+",|lex| ..`; the code as found asked for `Alone`, defect D11) -/
def isComma : Tok → Bool
  | .punct c _ => c == ','
  | _ => false

/-- `=` with spacing `Alone` (`util::is_punct(tt, '=')`): the test of the code as found -/
def isEq : Tok → Bool
  | .punct c true => c == '='
  | _ => false

/-- `AttributeParser::is_assign`: the `=` of `name = value`.  The spacing tells `=` from `==` and `=>`; a `=` directly
followed by any other punctuation (`callback=|lex| ..`, `extras=&'a T`, `priority=-1`) still assigns.  The code as found
used `isEq`, and `name=<punctuation>..` became a positional callback or an invalid item (defect D13). -/
def isAssign : Tok → Option Tok → Bool
  | .punct c alone, next =>
    c == '=' && (alone || match next with
      | some (.punct d _) => !(d == '=' || d == '>')
      | _ => true)
  | _, _ => false

inductive Value where
  | assign (toks : List Tok)
  | literal (t : Tok)
  | group (id : Nat)
  | keywordAssign (name : String) (toks : List Tok)
deriving Repr, DecidableEq

inductive Nested where
  | unnamed (toks : List Tok)
  | named (name : String) (v : Value)
  | unexpected (toks : List Tok)
deriving Repr, DecidableEq

/-- `next_tt`: take one token; a comma is consumed and reported as "nothing". -/
def nextTt : List Tok → Option Tok × List Tok
  | [] => (none, [])
  | t :: rest => if isComma t then (none, rest) else (some t, rest)

/-- `collect_tail(first)`: tokens up to (and consuming) the next comma. -/
def collectTail : List Tok → List Tok × List Tok
  | [] => ([], [])
  | t :: rest =>
    if isComma t then ([], rest)
    else
      let r := collectTail rest
      (t :: r.1, r.2)

theorem collectTail_length (ts : List Tok) : (collectTail ts).2.length ≤ ts.length := by
  induction ts with
  | nil => simp [collectTail]
  | cons t rest ih =>
    simp only [collectTail]
    split
    · simp
    · simp; omega

/-- one call of `AttributeParser::next` -/
def nextNested (consumeAfterGroup : Bool) : List Tok → Option (Nested × List Tok)
  | [] => none
  | first :: rest =>
    match first with
    | .ident name =>
      match nextTt rest with
      | (none, rest') => some (.unnamed [.ident name], rest')
      | (some tt, rest') =>
        if isAssign tt rest'.head? then
          let r := collectTail rest'
          some (.named name (.assign r.1), r.2)
        else match tt with
          | .lit p =>
            let r := collectTail rest'
            some (.named name (.literal (.lit p)), r.2)
          | .group id =>
            if consumeAfterGroup then
              let r := collectTail rest'
              some (.named name (.group id), r.2)
            else some (.named name (.group id), rest')
          | .ident nxt =>
            match nextTt rest' with
            | (none, rest'') =>
              let r := collectTail rest''
              some (.named name (.keywordAssign nxt r.1), r.2)
            | (some e, rest'') =>
              if isAssign e rest''.head? then
                let r := collectTail rest''
                some (.named name (.keywordAssign nxt r.1), r.2)
              else
                let r := collectTail rest''
                some (.unexpected (e :: r.1), r.2)
          | other =>
            let r := collectTail rest'
            some (.unnamed (.ident name :: other :: r.1), r.2)
    | tt =>
      -- an argument left empty (`"a", , priority = 3`): reported; the code as found took what follows the comma for a
      -- positional callback (defect D12)
      if isComma tt then some (.unexpected [tt], rest) else
      let r := collectTail rest
      some (.unnamed (tt :: r.1), r.2)

theorem nextNested_length {c : Bool} {ts : List Tok} {n : Nested} {rest : List Tok}
    (h : nextNested c ts = some (n, rest)) : rest.length < ts.length := by
  cases ts with
  | nil => simp [nextNested] at h
  | cons first tl =>
    have hct := collectTail_length
    have hnt : ∀ l : List Tok, (nextTt l).2.length ≤ l.length := by
      intro l; cases l with
      | nil => simp [nextTt]
      | cons a b => simp only [nextTt]; split <;> simp
    simp only [nextNested] at h
    split at h
    · rename_i name
      have h1 := hnt tl
      generalize hq : nextTt tl = q at h h1
      obtain ⟨o, r1⟩ := q
      cases o with
      | none => simp at h; obtain ⟨_, rfl⟩ := h; simp at h1 ⊢; omega
      | some tt =>
        simp only at h h1
        split at h
        · simp at h; obtain ⟨_, rfl⟩ := h; have := hct r1; simp; omega
        · split at h
          · simp at h; obtain ⟨_, rfl⟩ := h; have := hct r1; simp; omega
          · split at h
            · simp at h; obtain ⟨_, rfl⟩ := h; have := hct r1; simp; omega
            · simp at h; obtain ⟨_, rfl⟩ := h; simp; omega
          · have h2 := hnt r1
            generalize hq2 : nextTt r1 = q2 at h h2
            obtain ⟨o2, r2⟩ := q2
            cases o2 with
            | none => simp at h; obtain ⟨_, rfl⟩ := h; have := hct r2; simp at h2 ⊢; omega
            | some e =>
              simp only at h h2
              split at h <;> (simp at h; obtain ⟨_, rfl⟩ := h; have := hct r2; simp; omega)
          · simp at h; obtain ⟨_, rfl⟩ := h; have := hct r1; simp; omega
    · split at h
      · simp at h; obtain ⟨_, rfl⟩ := h; simp
      · simp at h; obtain ⟨_, rfl⟩ := h; have := hct tl; simp; omega

/-- the whole iterator -/
def allNested (c : Bool) (ts : List Tok) : List Nested :=
  match h : nextNested c ts with
  | none => []
  | some (n, rest) => n :: allNested c rest
termination_by ts.length
decreasing_by exact nextNested_length h

/-! ## `parse_definition` on top of the iterator -/

inductive Err where
  | unexpectedToken | positionalNotFirst | badPriority | dupPriority | badCallback | dupCallback
  | badIgnore | badAllowGreedy | dupAllowGreedy | unknownArg (name : String) | expectedForm (name : String)
deriving Repr, DecidableEq

structure Definition where
  priority : Option (List Tok) := none      -- the tokens given, parsed later as an integer
  callback : Option (List Tok) := none
  allowGreedy : Option (List Tok) := none
  ignoreGroups : List Nat := []             -- ids of the `ignore(...)` groups seen (each ORs its flags in)
  errors : List Err := []
deriving Repr, DecidableEq

/-- `Definition::named_attr` (values are kept as tokens; whether `3` parses as an integer does not
depend on the position of the argument) -/
def namedAttr (d : Definition) (name : String) (v : Value) : Definition :=
  match name, v with
  | "priority", .assign toks =>
    { d with priority := some toks, errors := if d.priority.isSome then d.errors ++ [.dupPriority] else d.errors }
  | "priority", _ => { d with errors := d.errors ++ [.expectedForm "priority"] }
  | "callback", .assign toks =>
    { d with callback := some toks, errors := if d.callback.isSome then d.errors ++ [.dupCallback] else d.errors }
  | "callback", _ => { d with errors := d.errors ++ [.expectedForm "callback"] }
  | "ignore", .group id => { d with ignoreGroups := d.ignoreGroups ++ [id] }
  | "ignore", _ => { d with errors := d.errors ++ [.expectedForm "ignore"] }
  | "allow_greedy", .assign toks =>
    { d with allowGreedy := some toks, errors := if d.allowGreedy.isSome then d.errors ++ [.dupAllowGreedy] else d.errors }
  | "allow_greedy", _ => { d with errors := d.errors ++ [.expectedForm "allow_greedy"] }
  | other, _ => { d with errors := d.errors ++ [.unknownArg other] }

def applyNested (d : Definition) (pos : Nat) : Nested → Definition
  | .unexpected _ => { d with errors := d.errors ++ [.unexpectedToken] }
  | .unnamed toks =>
    if pos == 0 then { d with callback := some toks }
    else { d with errors := d.errors ++ [.positionalNotFirst] }
  | .named name v => namedAttr d name v

def applyAll (d : Definition) (pos : Nat) : List Nested → Definition
  | [] => d
  | n :: rest => applyAll (applyNested d pos n) (pos + 1) rest

/-- `parse_definition` after the leading literal has been taken by `nested.parsed::<Lit>()`
(which is `collect_tail`): `ts` are the tokens after the literal's comma. -/
def parseArgs (c : Bool) (ts : List Tok) : Definition := applyAll {} 0 (allNested c ts)

/-! ## well-formed named arguments and their rendering -/

inductive Arg where
  | priority (v : List Tok)
  | callback (v : List Tok)
  | ignore (group : Nat)
  | allowGreedy (v : List Tok)
deriving Repr, DecidableEq

def Arg.name : Arg → String
  | .priority _ => "priority" | .callback _ => "callback" | .ignore _ => "ignore" | .allowGreedy _ => "allow_greedy"

/-- a value is a non-empty token sequence without a top-level comma -/
def valueOK (v : List Tok) : Bool := !v.isEmpty && v.all fun t => !isComma t

def Arg.ok : Arg → Bool
  | .priority v => valueOK v
  | .callback v => valueOK v
  | .ignore _ => true
  | .allowGreedy v => valueOK v

def comma : Tok := .punct ',' true
def eqTok : Tok := .punct '=' true

def Arg.render : Arg → List Tok
  | .priority v => [.ident "priority", eqTok] ++ v
  | .callback v => [.ident "callback", eqTok] ++ v
  | .ignore g => [.ident "ignore", .group g]
  | .allowGreedy v => [.ident "allow_greedy", eqTok] ++ v

/-- arguments separated by commas (no trailing comma) -/
def renderArgs : List Arg → List Tok
  | [] => []
  | [a] => a.render
  | a :: rest => a.render ++ [comma] ++ renderArgs rest

/-- what the arguments mean, independent of their order (names distinct) -/
def canonical (args : List Arg) : Definition :=
  { priority := args.findSome? fun a => match a with | .priority v => some v | _ => none
    callback := args.findSome? fun a => match a with | .callback v => some v | _ => none
    allowGreedy := args.findSome? fun a => match a with | .allowGreedy v => some v | _ => none
    ignoreGroups := args.filterMap fun a => match a with | .ignore g => some g | _ => none
    errors := [] }

end Logos.Attr
