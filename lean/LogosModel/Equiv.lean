import LogosModel.Utf8Closed
import LogosModel.SpecProof
/-!
# Proved validators: language equivalence of two patterns (C10, C11) and absence of priority ties (C08)
-/
namespace Logos

/-- `S` is a bisimulation containing `(norm r, norm s)`: related regexes agree on nullability and their
derivatives are related again. -/
def equivB (S : List (Re × Re)) (r s : Re) : Bool :=
  bytesOK r && bytesOK s && S.contains (norm r, norm s) &&
  S.all fun p =>
    (nullable p.1 == nullable p.2) &&
    (List.range 256).all fun c => S.contains (derivN c p.1, derivN c p.2)

theorem equivB_run {S : List (Re × Re)}
    (hall : ∀ p ∈ S, nullable p.1 = nullable p.2 ∧
      ∀ c, c < 256 → (derivN c p.1, derivN c p.2) ∈ S) :
    ∀ (w : List Nat) {a b : Re}, (a, b) ∈ S → (∀ c ∈ w, c < 256) →
      (Matches a w ↔ Matches b w) := by
  intro w
  induction w with
  | nil =>
    intro a b hmem _
    have hn := (hall _ hmem).1
    simp only at hn
    rw [← nullable_iff, ← nullable_iff, hn]
  | cons c w ih =>
    intro a b hmem hlt
    have hc : c < 256 := hlt c (by simp)
    have hd := (hall _ hmem).2 c hc
    simp only at hd
    rw [← derivN_correct, ← derivN_correct]
    exact ih hd (fun x hx => hlt x (by simp [hx]))

theorem equivB_sound {S : List (Re × Re)} {r s : Re} (h : equivB S r s = true) :
    ∀ w, Matches r w ↔ Matches s w := by
  simp only [equivB, Bool.and_eq_true, List.all_eq_true] at h
  obtain ⟨⟨⟨hr, hs⟩, hstart⟩, hall⟩ := h
  have hstart' : (norm r, norm s) ∈ S := by simpa using hstart
  have hall' : ∀ p ∈ S, nullable p.1 = nullable p.2 ∧
      ∀ c, c < 256 → (derivN c p.1, derivN c p.2) ∈ S := by
    intro p hp
    obtain ⟨h1, h2⟩ := hall p hp
    refine ⟨by simpa using h1, ?_⟩
    intro c hc
    have := h2 c (List.mem_range.2 hc)
    simpa using this
  intro w
  have key : (∀ c ∈ w, c < 256) → (Matches r w ↔ Matches s w) := by
    intro hlt
    have := equivB_run hall' w hstart' hlt
    rwa [matches_norm, matches_norm] at this
  constructor
  · intro hm; exact (key (bytesOK_matches hr hm)).1 hm
  · intro hm; exact (key (bytesOK_matches hs hm)).2 hm

/-- matching by derivatives, executable -/
def matchesB (r : Re) (w : List Nat) : Bool := nullable (w.foldl (fun x c => derivN c x) r)

theorem matchesB_iff (r : Re) (w : List Nat) : matchesB r w = true ↔ Matches r w := by
  induction w generalizing r with
  | nil => simpa [matchesB] using nullable_iff r
  | cons c w ih =>
    have : matchesB r (c :: w) = matchesB (derivN c r) w := by simp [matchesB]
    rw [this, ih, derivN_correct]

/-- two different leaves are both top-priority matches of `w` -/
def Tie (prios : List Nat) (D : Vec) (w : List Nat) : Prop :=
  ∃ i j, i ≠ j ∧ TopMatch prios D i w ∧ TopMatch prios D j w

/-- indices of nullable components with their priorities -/
def nullIdx (prios : List Nat) (Δ : Vec) : List (Nat × Nat) :=
  ((List.range Δ.length).filter fun i => match Δ[i]? with | some r => nullable r | none => false).map
    fun i => (i, prios.getD i 0)

/-- some two nullable components share the maximal priority among the nullable ones -/
def tieAt (prios : List Nat) (Δ : Vec) : Bool :=
  let ns := nullIdx prios Δ
  ns.any fun p => ns.any fun q => p.1 != q.1 && p.2 == q.2 && ns.all fun x => x.2 ≤ p.2

theorem mem_nullIdx (prios : List Nat) (Δ : Vec) (i p : Nat) :
    (i, p) ∈ nullIdx prios Δ ↔ MatchesAt Δ i [] ∧ p = prioOf prios i := by
  rw [matchesAt_nil_iff]
  unfold nullIdx prioOf
  simp only [List.mem_map, List.mem_filter, List.mem_range, Prod.mk.injEq]
  constructor
  · rintro ⟨k, ⟨hk, hn⟩, rfl, rfl⟩
    refine ⟨?_, rfl⟩
    cases hD : Δ[k]? with
    | none => simp [hD] at hn
    | some r => simp [hD] at hn; exact ⟨r, rfl, hn⟩
  · rintro ⟨⟨r, hr, hn⟩, rfl⟩
    refine ⟨i, ⟨(List.getElem?_eq_some_iff.1 hr).1, ?_⟩, rfl, rfl⟩
    simp [hr, hn]

theorem tieAt_iff (prios : List Nat) (Δ : Vec) : tieAt prios Δ = true ↔ Tie prios Δ [] := by
  unfold tieAt Tie TopMatch
  simp only [List.any_eq_true, List.all_eq_true, Bool.and_eq_true, bne_iff_ne, beq_iff_eq,
    decide_eq_true_eq, ne_eq]
  constructor
  · rintro ⟨⟨i, p⟩, hp, ⟨j, q⟩, hq, ⟨hne, heq⟩, hmax⟩
    simp only at hne heq hmax
    obtain ⟨hmi, rfl⟩ := (mem_nullIdx _ _ _ _).1 hp
    obtain ⟨hmj, rfl⟩ := (mem_nullIdx _ _ _ _).1 hq
    refine ⟨i, j, hne, ⟨hmi, ?_⟩, ⟨hmj, ?_⟩⟩
    · intro k hk
      exact hmax (k, prioOf prios k) ((mem_nullIdx _ _ _ _).2 ⟨hk, rfl⟩)
    · intro k hk
      rw [← heq]
      exact hmax (k, prioOf prios k) ((mem_nullIdx _ _ _ _).2 ⟨hk, rfl⟩)
  · rintro ⟨i, j, hne, ⟨hmi, hti⟩, ⟨hmj, htj⟩⟩
    refine ⟨(i, prioOf prios i), (mem_nullIdx _ _ _ _).2 ⟨hmi, rfl⟩,
      (j, prioOf prios j), (mem_nullIdx _ _ _ _).2 ⟨hmj, rfl⟩, ⟨hne, ?_⟩, ?_⟩
    · exact Nat.le_antisymm (htj i hmi) (hti j hmj)
    · rintro ⟨k, q⟩ hk
      obtain ⟨hmk, rfl⟩ := (mem_nullIdx _ _ _ _).1 hk
      exact hti k hmk

/-- **Witness soundness**: a tie found after reading `w` is a tie of the definition on `w`. -/
theorem tie_witness (prios : List Nat) (D : Vec) (w : List Nat)
    (h : tieAt prios (derivsV w D) = true) : Tie prios D w := by
  obtain ⟨i, j, hne, hi, hj⟩ := (tieAt_iff _ _).1 h
  exact ⟨i, j, hne, (topMatch_derivsV _ _ _ _).1 hi, (topMatch_derivsV _ _ _ _).1 hj⟩

/-- `S` contains `D`, is closed under viable byte steps, and no vector in it has a tie. -/
def tieFreeB (S : List Vec) (prios : List Nat) (D : Vec) : Bool :=
  D.all bytesOK && S.contains D &&
  S.all fun Δ =>
    !tieAt prios Δ &&
    (List.range 256).all fun b => !viableV (derivV b Δ) || S.contains (derivV b Δ)

theorem tieFree_run {S : List Vec}
    (hall : ∀ Δ ∈ S, ∀ b, b < 256 → viableV (derivV b Δ) = true → derivV b Δ ∈ S) :
    ∀ (v : List Nat) {Δ : Vec}, Δ ∈ S → (∀ b ∈ v, b < 256) → AnyMatch Δ v →
      derivsV v Δ ∈ S := by
  intro v
  induction v with
  | nil => intro Δ hΔ _ _; simpa [derivsV] using hΔ
  | cons b v ih =>
    intro Δ hΔ hlt hany
    have h1 : derivsV (b :: v) Δ = derivsV v (derivV b Δ) := by simp [derivsV]
    have hany' : AnyMatch (derivV b Δ) v := by
      have := (anyMatch_derivsV Δ [b] v).2 (by simpa using hany)
      simpa [derivsV] using this
    have hv : viableV (derivV b Δ) = true := (viableV_iff _).2 ⟨v, hany'⟩
    rw [h1]
    exact ih (hall Δ hΔ b (hlt b (by simp)) hv) (fun c hc => hlt c (by simp [hc])) hany'

/-- **Completeness of the ambiguity search**: if the closure has no tie, no string at all is matched
by two patterns sharing the highest priority. -/
theorem tieFreeB_sound {S : List Vec} {prios : List Nat} {D : Vec} (h : tieFreeB S prios D = true) :
    ∀ w, ¬ Tie prios D w := by
  simp only [tieFreeB, Bool.and_eq_true, List.all_eq_true] at h
  obtain ⟨⟨hbytes, hstart⟩, hall⟩ := h
  have hstart' : D ∈ S := by simpa using hstart
  have hall' : ∀ Δ ∈ S, tieAt prios Δ = false ∧
      ∀ b, b < 256 → viableV (derivV b Δ) = true → derivV b Δ ∈ S := by
    intro Δ hΔ
    obtain ⟨h1, h2⟩ := hall Δ hΔ
    refine ⟨by simpa using h1, ?_⟩
    intro b hb hv
    have := h2 b (List.mem_range.2 hb)
    simpa [hv] using this
  intro w htie
  have hany : AnyMatch D w := by
    obtain ⟨i, _, _, hi, _⟩ := htie
    exact ⟨i, hi.1⟩
  have hlt : ∀ b ∈ w, b < 256 := by
    obtain ⟨i, r, hr, hm⟩ := hany
    have hmem : r ∈ D := List.mem_iff_getElem?.2 ⟨i, hr⟩
    exact bytesOK_matches (hbytes r hmem) hm
  have hS := tieFree_run (fun Δ hΔ => (hall' Δ hΔ).2) w hstart' hlt hany
  obtain ⟨i, j, hne, hi, hj⟩ := htie
  have : tieAt prios (derivsV w D) = true :=
    (tieAt_iff _ _).2 ⟨i, j, hne, (topMatch_derivsV _ _ _ _).2 hi, (topMatch_derivsV _ _ _ _).2 hj⟩
  rw [(hall' _ hS).1] at this
  cases this

end Logos
