import LogosModel.Norm
namespace Logos

/-- semantic membership in a list of alternatives -/
def MatchesAny (l : List Re) (w : List Nat) : Prop := ∃ r ∈ l, Matches r w

theorem matches_altList (r : Re) (w : List Nat) : MatchesAny (altList r) w ↔ Matches r w := by
  induction r with
  | alt a b iha ihb =>
    simp only [altList, MatchesAny, List.mem_append]
    constructor
    · rintro ⟨r, (h | h), hm⟩
      · exact .altL (iha.1 ⟨r, h, hm⟩)
      · exact .altR (ihb.1 ⟨r, h, hm⟩)
    · intro h
      cases h with
      | altL h => obtain ⟨r, hr, hm⟩ := iha.2 h; exact ⟨r, .inl hr, hm⟩
      | altR h => obtain ⟨r, hr, hm⟩ := ihb.2 h; exact ⟨r, .inr hr, hm⟩
  | empty => simp [altList, MatchesAny]; intro h; cases h
  | eps => simp [altList, MatchesAny]
  | set rs => simp [altList, MatchesAny]
  | cat a b _ _ => simp [altList, MatchesAny]
  | star a _ => simp [altList, MatchesAny]

theorem mem_insertU (r x : Re) (l : List Re) : x ∈ insertU r l ↔ x = r ∨ x ∈ l := by
  induction l with
  | nil => simp [insertU]
  | cons y ys ih =>
    simp only [insertU]
    split
    · simp
    · split
      · next h => subst h; simp
      · simp [ih]; grind
    · simp [ih]; grind

theorem mem_foldl_insertU (xs acc : List Re) (x : Re) :
    x ∈ xs.foldl (fun acc r => insertU r acc) acc ↔ x ∈ xs ∨ x ∈ acc := by
  induction xs generalizing acc with
  | nil => simp
  | cons y ys ih => simp [ih, mem_insertU]; grind

theorem matches_fromList (l : List Re) (w : List Nat) : Matches (fromList l) w ↔ MatchesAny l w := by
  induction l with
  | nil => simp [fromList, MatchesAny]; intro h; cases h
  | cons r rs ih =>
    cases rs with
    | nil => simp [fromList, MatchesAny]
    | cons r2 rs2 =>
      simp only [fromList]
      constructor
      · intro h
        cases h with
        | altL h => exact ⟨r, by simp, h⟩
        | altR h =>
          obtain ⟨x, hx, hm⟩ := ih.1 h
          exact ⟨x, by simp at hx ⊢; grind, hm⟩
      · rintro ⟨x, hx, hm⟩
        simp only [List.mem_cons] at hx
        rcases hx with rfl | hx
        · exact .altL hm
        · exact .altR (ih.2 ⟨x, by simpa using hx, hm⟩)

theorem matches_mkAltN {a b : Re} {w : List Nat} : Matches (mkAltN a b) w ↔ Matches a w ∨ Matches b w := by
  unfold mkAltN
  rw [matches_fromList]
  simp only [MatchesAny, mem_foldl_insertU, List.mem_append, List.not_mem_nil, or_false]
  rw [← matches_altList a, ← matches_altList b]
  simp only [MatchesAny]
  constructor
  · rintro ⟨r, (h | h), hm⟩
    · exact .inl ⟨r, h, hm⟩
    · exact .inr ⟨r, h, hm⟩
  · rintro (⟨r, h, hm⟩ | ⟨r, h, hm⟩)
    · exact ⟨r, .inl h, hm⟩
    · exact ⟨r, .inr h, hm⟩

theorem matches_mkCatN (a b : Re) (w : List Nat) : Matches (mkCatN a b) w ↔ Matches (.cat a b) w := by
  induction a generalizing b w with
  | empty =>
    simp only [mkCatN]
    constructor
    · intro h; cases h
    · intro h; cases h with | cat h1 _ => cases h1
  | eps =>
    simp only [mkCatN]
    constructor
    · intro h; exact .cat (u := []) .eps h
    · intro h; cases h with | cat h1 h2 => cases h1; simpa using h2
  | cat x y ihx ihy =>
    simp only [mkCatN]
    rw [ihx, matches_cat_iff, matches_cat_iff]
    constructor
    · rintro ⟨u, v, rfl, h1, h2⟩
      obtain ⟨v1, v2, rfl, h3, h4⟩ := matches_cat_iff.1 ((ihy b v).1 h2)
      exact ⟨u ++ v1, v2, by simp, .cat h1 h3, h4⟩
    · rintro ⟨u, v, rfl, h1, h2⟩
      obtain ⟨u1, u2, rfl, h3, h4⟩ := matches_cat_iff.1 h1
      exact ⟨u1, u2 ++ v, by simp, h3, (ihy b _).2 (.cat h4 h2)⟩
  | set rs =>
    simp only [mkCatN]
    split
    · constructor
      · intro h; cases h
      · intro h; cases h with | cat _ h2 => cases h2
    · constructor
      · intro h; simpa using Matches.cat h .eps
      · intro h; cases h with | cat h1 h2 => cases h2; simpa using h1
    · rfl
  | alt x y _ _ =>
    simp only [mkCatN]
    split
    · constructor
      · intro h; cases h
      · intro h; cases h with | cat _ h2 => cases h2
    · constructor
      · intro h; simpa using Matches.cat h .eps
      · intro h; cases h with | cat h1 h2 => cases h2; simpa using h1
    · rfl
  | star x _ =>
    simp only [mkCatN]
    split
    · constructor
      · intro h; cases h
      · intro h; cases h with | cat _ h2 => cases h2
    · constructor
      · intro h; simpa using Matches.cat h .eps
      · intro h; cases h with | cat h1 h2 => cases h2; simpa using h1
    · rfl

theorem derivN_correct (c : Nat) (r : Re) (w : List Nat) :
    Matches (derivN c r) w ↔ Matches r (c :: w) := by
  induction r generalizing w with
  | empty => simp [derivN]; constructor <;> (intro h; cases h)
  | eps => simp [derivN]; constructor <;> (intro h; cases h)
  | set rs =>
    simp only [derivN]
    split
    · next h =>
      constructor
      · intro hm; cases hm; exact .set h
      · intro hm; cases hm; exact .eps
    · next h =>
      constructor
      · intro hm; cases hm
      · intro hm; cases hm with | set h' => exact absurd h' h
  | cat a b iha ihb =>
    have key : ∀ w, Matches (mkCatN (derivN c a) b) w ↔ ∃ u v, w = u ++ v ∧ Matches a (c :: u) ∧ Matches b v := by
      intro w
      rw [matches_mkCatN, matches_cat_iff]
      constructor
      · rintro ⟨u, v, rfl, h1, h2⟩; exact ⟨u, v, rfl, (iha u).1 h1, h2⟩
      · rintro ⟨u, v, rfl, h1, h2⟩; exact ⟨u, v, rfl, (iha u).2 h1, h2⟩
    simp only [derivN]
    split
    · next hn =>
      rw [matches_mkAltN, key, ihb, matches_cat_iff]
      constructor
      · rintro (⟨u, v, rfl, h1, h2⟩ | h)
        · exact ⟨c :: u, v, rfl, h1, h2⟩
        · exact ⟨[], c :: w, rfl, (nullable_iff a).1 hn, h⟩
      · rintro ⟨u, v, huv, h1, h2⟩
        cases u with
        | nil => simp at huv; subst huv; exact .inr h2
        | cons d u' =>
          simp at huv; obtain ⟨rfl, rfl⟩ := huv
          exact .inl ⟨u', v, rfl, h1, h2⟩
    · next hn =>
      rw [key, matches_cat_iff]
      constructor
      · rintro ⟨u, v, rfl, h1, h2⟩; exact ⟨c :: u, v, rfl, h1, h2⟩
      · rintro ⟨u, v, huv, h1, h2⟩
        cases u with
        | nil => exact absurd ((nullable_iff a).2 h1) hn
        | cons d u' =>
          simp at huv; obtain ⟨rfl, rfl⟩ := huv
          exact ⟨u', v, rfl, h1, h2⟩
  | alt a b iha ihb =>
    simp only [derivN]
    rw [matches_mkAltN, iha, ihb]
    constructor
    · rintro (h | h); exact .altL h; exact .altR h
    · intro h; cases h with
      | altL h => exact .inl h
      | altR h => exact .inr h
  | star a iha =>
    simp only [derivN]
    rw [matches_mkCatN, matches_cat_iff, matches_star_cons]
    constructor
    · rintro ⟨u, v, rfl, h1, h2⟩; exact ⟨u, v, rfl, (iha u).1 h1, h2⟩
    · rintro ⟨u, v, rfl, h1, h2⟩; exact ⟨u, v, rfl, (iha u).2 h1, h2⟩

end Logos
