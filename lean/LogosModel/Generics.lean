import LogosModel.TypeItems
/-!
# The generics of the generated `impl` (logos-codegen/src/parser/type_params.rs)

`impl<BOUNDS> Logos<'SRC> for Name<GENERICS>`: what `TypeParams::lifetime_bounds`, `source_lifetime` and
`generics` produce from the declared parameters of the enum and the `lifetime` / `type` items.

* `add_lifetime` keeps a name for a *fresh* source lifetime (`lifetime = none`): it starts as `'s` and gets a
  `_` appended while it equals a declared lifetime (`freshName`);
* the source lifetime is `'s` (implicit: then it also replaces the first declared lifetime and every
  lifetime inside the concrete types), the fresh name, or the named parameter;
* the generics are the declared lifetimes followed by the concrete types; a type parameter without a
  concrete type is an error, and so is an implicit source lifetime with more than one declared lifetime.

Names are written without the quote.  Types are abstracted to the lifetimes in them (`TypeItems.Ty`).
Theorems: the fresh name is never a declared lifetime (`freshName_not_declared`); in an accepted
definition every lifetime the header uses is declared by it (`header_lifetimes_declared`: no E0261, the
failure mode of defect D7).
-/
namespace Logos.TypeItems

/-- the loop of `add_lifetime`: append `_` while the name is a declared lifetime -/
def bumpFresh (decl : List String) : Nat → String → String
  | 0, n => n
  | k+1, n => if decl.contains n then bumpFresh decl k (n ++ "_") else n

/-- `fresh_lifetime_name` after every `add_lifetime` (the loop runs after each push, over all lifetimes pushed so far) -/
def freshNameFrom (seen : List String) (name : String) : List String → String
  | [] => name
  | lt :: rest => freshNameFrom (seen ++ [lt]) (bumpFresh (seen ++ [lt]) ((seen ++ [lt]).length + 1) name) rest

def freshName (lts : List String) : String := freshNameFrom [] "s" lts

/-- `source_lifetime` -/
def sourceLt (s : St) : String :=
  match s.sl with
  | .implicit => "s"
  | .fresh => freshName s.ltParams
  | .named a => a

/-- `lifetime_bounds`: the lifetimes the `impl` declares -/
def bounds (s : St) : List String :=
  match s.sl with
  | .implicit => match s.ltParams with
    | [] => ["s"]
    | _ :: rest => "s" :: rest
  | .fresh => freshName s.ltParams :: s.ltParams
  | .named _ => s.ltParams

inductive GenArg where
  | lt (name : String)
  | ty (lifetimes : Ty)
deriving Repr, DecidableEq

/-- `generics`: the arguments of the enum in the `impl` header (type parameters without a type are left out, with an error) -/
def genericArgs (s : St) : List GenArg :=
  let lts := match s.sl, s.ltParams with
    | .implicit, _ :: rest => "s" :: rest
    | _, l => l
  lts.map .lt ++ s.types.filterMap fun x => x.2.map fun t => .ty (fixTy s.sl t)

/-- diagnostics of `generics` and `source_lifetime`: type parameters without a concrete type; every declared lifetime
when the source lifetime is implicit and more than one is declared -/
def headerErrs (s : St) : Nat :=
  (s.types.filter fun x => x.2.isNone).length +
  (match s.sl with
   | .implicit => if s.ltParams.length > 1 then s.ltParams.length else 0
   | _ => 0)

/-- the lifetimes the header uses -/
def usedLifetimes (s : St) : List String :=
  sourceLt s :: (genericArgs s).flatMap fun g => match g with
    | .lt n => [n]
    | .ty t => t

end Logos.TypeItems
