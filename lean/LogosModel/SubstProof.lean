import LogosModel.Subst
/-!
# Theorems about the text pipeline (`Subst.lean`)

* `unescape_escape`: an escaped literal reads back as the literal's bytes (C10: "matches exactly the byte
  string w, whatever regex metacharacters, non-ASCII characters or arbitrary bytes it contains").
* `toks_render`, `subst_*`: splitting a pattern at its references loses nothing; substitution succeeds
  exactly when every referenced name is bound; one pass leaves no reference behind because every stored
  subpattern is already expanded and parenthesised (`Sealed`).
* `build_eq_inline`: for a list of subpatterns in which every reference names an earlier entry, the map
  built by the sequential loop binds every name to the recursive inlining of its wrapped source, which
  does not mention the order (C11: scoped textual inclusion; nested substitution order).
* `build_perm`: two dependency-respecting orders of the same subpatterns give the same bindings and the
  same leaf sources (C18: items of a `#[logos(...)]` attribute in any order that keeps every subpattern
  defined before its use).
-/
namespace Logos.Subst

/-! ## `unescape ∘ escape` -/

theorem unescape_hex (h l : Nat) (rest : Str) :
    unescape (92 :: 120 :: h :: l :: rest) =
      match hexVal h, hexVal l, unescape rest with
      | some a, some b, some r => some ((a * 16 + b) :: r)
      | _, _, _ => none := by
  rfl

theorem unescape_nonmeta (b : Nat) (rest : Str) (hb : isMeta b = false) :
    unescape (b :: rest) = (unescape rest).map (b :: ·) := by
  rw [unescape.eq_def]
  split
  · rename_i h; cases h
  · rename_i h; cases h; simp [isMeta] at hb
  · rename_i h; cases h; simp [isMeta] at hb
  · rename_i h; cases h; simp [hb]

theorem unescape_meta (m : Nat) (rest : Str) (hm : isMeta m = true) :
    unescape (92 :: m :: rest) = (unescape rest).map (m :: ·) := by
  rw [unescape.eq_def]
  split
  · rename_i h; cases h
  · rename_i h; cases h; simp [isMeta] at hm
  · rename_i h; cases h; simp [hm]
  · rename_i h1 h2 h; cases h; exact (h2 _ _ rfl rfl).elim

theorem hexVal_hexDigit (n : Nat) (h : n < 16) : hexVal (hexDigit n) = some n := by
  unfold hexDigit hexVal
  split
  · have : 48 ≤ 48 + n ∧ 48 + n ≤ 57 := by omega
    simp [this]
  · have h1 : ¬ (55 + n ≤ 57) := by omega
    have h2 : 65 ≤ 55 + n ∧ 55 + n ≤ 70 := by omega
    simp [h1, h2]

theorem unescape_escStrByte (b : Nat) (rest : Str) :
    unescape (escStrByte true b ++ rest) = (unescape rest).map (b :: ·) := by
  unfold escStrByte
  cases hb : isMeta b
  · simpa using unescape_nonmeta b rest hb
  · simpa using unescape_meta b rest hb

theorem unescape_escBytesByte (b : Nat) (hb : b < 256) (rest : Str) :
    unescape (escBytesByte true b ++ rest) = (unescape rest).map (b :: ·) := by
  unfold escBytesByte
  split
  · exact unescape_escStrByte b rest
  · have h1 : b / 16 < 16 := by omega
    have h2 : b % 16 < 16 := by omega
    have h3 : b / 16 * 16 + b % 16 = b := by omega
    show unescape (92 :: 120 :: _ :: _ :: rest) = _
    rw [unescape_hex, hexVal_hexDigit _ h1, hexVal_hexDigit _ h2]
    cases unescape rest <;> simp [h3]

theorem unescape_escape (l : Lit) (h : ∀ b ∈ l.value, b < 256) :
    unescape (escape true l) = some l.value := by
  cases l with
  | str s =>
    clear h
    simp only [escape, Lit.value]
    induction s with
    | nil => rfl
    | cons b t ih => simp [List.flatMap_cons, unescape_escStrByte, ih]
  | bytes s =>
    simp only [escape, Lit.value] at h ⊢
    induction s with
    | nil => rfl
    | cons b t ih =>
      have hb : b < 256 := h b (by simp)
      have ht : ∀ b ∈ t, b < 256 := fun x hx => h x (by simp [hx])
      simp [List.flatMap_cons, unescape_escBytesByte b hb, ih ht]

/-! ## `matchRef`, `toks` -/

theorem spanIdent_spec (s : Str) :
    s = (spanIdent s).1 ++ (spanIdent s).2 ∧ (∀ b ∈ (spanIdent s).1, isIdent b = true) := by
  induction s with
  | nil => simp [spanIdent]
  | cons b t ih =>
    rw [spanIdent]
    split
    · rename_i hb
      obtain ⟨h1, h2⟩ := ih
      constructor
      · simp; exact h1
      · intro x hx
        simp at hx
        rcases hx with rfl | hx
        · exact hb
        · exact h2 x hx
    · simp

theorem spanIdent_append (n : Str) (c : Nat) (r : Str) (hn : ∀ b ∈ n, isIdent b = true)
    (hc : isIdent c = false) : spanIdent (n ++ c :: r) = (n, c :: r) := by
  induction n with
  | nil => simp [spanIdent, hc]
  | cons b t ih =>
    have hb : isIdent b = true := hn b (by simp)
    have ht : ∀ x ∈ t, isIdent x = true := fun x hx => hn x (by simp [hx])
    simp [spanIdent, hb, ih ht]

theorem matchRef_some_iff (s n r : Str) :
    matchRef s = some (n, r) ↔
      s = 40 :: 63 :: 38 :: (n ++ 41 :: r) ∧ n ≠ [] ∧ ∀ b ∈ n, isIdent b = true := by
  constructor
  · intro h
    rw [matchRef.eq_def] at h
    split at h
    · rename_i t
      have hs := spanIdent_spec t
      split at h
      · rename_i n' r' heq
        split at h
        · cases h
        · rename_i hne
          cases h
          rw [heq] at hs
          refine ⟨?_, ?_, hs.2⟩
          · rw [hs.1]
          · intro h0; simp [h0] at hne
      · cases h
    · cases h
  · rintro ⟨rfl, hne, hid⟩
    rw [matchRef, spanIdent_append n 41 r hid (by decide)]
    cases n with
    | nil => exact absurd rfl hne
    | cons a t => rfl

theorem matchRef_length {s n r : Str} (h : matchRef s = some (n, r)) : r.length < s.length := by
  obtain ⟨rfl, _, _⟩ := (matchRef_some_iff s n r).1 h
  simp; omega

theorem toksF_fuel : ∀ (fuel fuel' : Nat) (s : Str), s.length ≤ fuel → s.length ≤ fuel' →
    toksF fuel s = toksF fuel' s := by
  intro fuel
  induction fuel with
  | zero =>
    intro fuel' s h _
    have : s = [] := List.eq_nil_of_length_eq_zero (by omega)
    subst this
    cases fuel' <;> rfl
  | succ k ih =>
    intro fuel' s h h'
    cases s with
    | nil => cases fuel' <;> rfl
    | cons b t =>
      cases fuel' with
      | zero => simp at h'
      | succ k' =>
        simp only [toksF]
        cases hm : matchRef (b :: t) with
        | none =>
          simp only
          rw [ih k' t (by simpa using h) (by simpa using h')]
        | some nr =>
          obtain ⟨n, r⟩ := nr
          have hl := matchRef_length hm
          simp only [List.length_cons] at hl h h'
          simp only
          rw [ih k' r (by omega) (by omega)]

theorem toks_nil : toks [] = [] := rfl

theorem toks_cons_none {b : Nat} {t : Str} (h : matchRef (b :: t) = none) :
    toks (b :: t) = .ch b :: toks t := by
  simp only [toks, List.length_cons, toksF, h]

theorem toks_cons_some {b : Nat} {t n r : Str} (h : matchRef (b :: t) = some (n, r)) :
    toks (b :: t) = .ref n :: toks r := by
  have hl := matchRef_length h
  simp only [List.length_cons] at hl
  simp only [toks, List.length_cons, toksF, h]
  rw [toksF_fuel t.length r.length r (by omega) (Nat.le_refl _)]

theorem toks_induct {P : Str → Prop} (nil : P [])
    (ch : ∀ b t, matchRef (b :: t) = none → P t → P (b :: t))
    (ref : ∀ b t n r, matchRef (b :: t) = some (n, r) → P r → P (b :: t)) : ∀ s, P s := by
  intro s
  generalize hk : s.length = k
  induction k using Nat.strongRecOn generalizing s with
  | _ k ih =>
    cases s with
    | nil => exact nil
    | cons b t =>
      cases hm : matchRef (b :: t) with
      | none => exact ch b t hm (ih t.length (by simp at hk; omega) t rfl)
      | some nr =>
        obtain ⟨n, r⟩ := nr
        have hl := matchRef_length hm
        exact ref b t n r hm (ih r.length (by omega) r rfl)

/-! ## token lists -/

/-- the names referenced in a token list -/
def tokRefs (ts : List Tok) : List Str := ts.filterMap fun | .ref n => some n | .ch _ => none

theorem refs_eq (s : Str) : refs s = tokRefs (toks s) := rfl
@[simp] theorem tokRefs_nil : tokRefs [] = [] := rfl
@[simp] theorem tokRefs_ch (b : Nat) (ts : List Tok) : tokRefs (.ch b :: ts) = tokRefs ts := rfl
@[simp] theorem tokRefs_ref (n : Str) (ts : List Tok) : tokRefs (.ref n :: ts) = n :: tokRefs ts := rfl

theorem refs_nil : refs [] = [] := rfl
theorem refs_cons_none {b : Nat} {t : Str} (h : matchRef (b :: t) = none) :
    refs (b :: t) = refs t := by
  simp [refs_eq, toks_cons_none h]
theorem refs_cons_some {b : Nat} {t n r : Str} (h : matchRef (b :: t) = some (n, r)) :
    refs (b :: t) = n :: refs r := by
  simp [refs_eq, toks_cons_some h]

@[simp] theorem substToks_nil (m : Map) : substToks m [] = some [] := rfl
theorem substToks_ch (m : Map) (b : Nat) (ts : List Tok) :
    substToks m (.ch b :: ts) = (substToks m ts).map (b :: ·) := by
  simp only [substToks, expandTok]
  cases substToks m ts <;> rfl
theorem substToks_ref (m : Map) (n : Str) (ts : List Tok) :
    substToks m (.ref n :: ts) = (m.get n).bind fun v => (substToks m ts).map (v ++ ·) := by
  simp only [substToks, expandTok]
  cases m.get n <;> cases substToks m ts <;> rfl

theorem toks_render (s : Str) : (toks s).flatMap Tok.render = s := by
  induction s using toks_induct with
  | nil => rfl
  | ch b t hm ih => rw [toks_cons_none hm]; simp [Tok.render, ih]
  | ref b t n r hm ih =>
    rw [toks_cons_some hm]
    obtain ⟨hs, _, _⟩ := (matchRef_some_iff _ n r).1 hm
    rw [hs]
    simp [Tok.render, ih]

theorem substToks_of_noRefs (m : Map) (ts : List Tok) (h : tokRefs ts = []) :
    substToks m ts = some (ts.flatMap Tok.render) := by
  induction ts with
  | nil => rfl
  | cons t ts ih =>
    cases t with
    | ch b => simp at h; simp [substToks_ch, ih h, Tok.render]
    | ref n => simp at h

theorem subst_of_noRefs (m : Map) (s : Str) (h : refs s = []) : subst m s = some s := by
  rw [subst, substToks_of_noRefs m _ h, toks_render]

theorem substToks_isSome_iff (m : Map) (ts : List Tok) :
    (substToks m ts).isSome ↔ ∀ n ∈ tokRefs ts, (m.get n).isSome := by
  induction ts with
  | nil => simp
  | cons t ts ih =>
    cases t with
    | ch b => simp [substToks_ch, ih]
    | ref n =>
      rw [substToks_ref]
      cases hg : m.get n with
      | none => simp [hg]
      | some v => simp [hg, ih]

theorem subst_isSome_iff (m : Map) (s : Str) :
    (subst m s).isSome ↔ ∀ n ∈ refs s, (m.get n).isSome :=
  substToks_isSome_iff m (toks s)

theorem missing_eq_zero_iff (m : Map) (s : Str) : missing m s = 0 ↔ (subst m s).isSome := by
  rw [subst_isSome_iff, missing]
  simp [List.filter_eq_nil_iff, Option.isSome_iff_ne_none]

theorem substToks_congr (m m' : Map) (ts : List Tok) (h : ∀ n ∈ tokRefs ts, m.get n = m'.get n) :
    substToks m ts = substToks m' ts := by
  induction ts with
  | nil => rfl
  | cons t ts ih =>
    cases t with
    | ch b => rw [substToks_ch, substToks_ch, ih (by simpa using h)]
    | ref n =>
      simp at h
      rw [substToks_ref, substToks_ref, ih h.2, h.1]

theorem subst_congr (m m' : Map) (s : Str) (h : ∀ n ∈ refs s, m.get n = m'.get n) :
    subst m s = subst m' s :=
  substToks_congr m m' (toks s) h

/-! ## sealed texts -/

theorem matchRef_nil : matchRef [] = none := rfl

theorem refs_eq_nil_iff (s : Str) : refs s = [] ↔ ∀ suf, suf <:+ s → matchRef suf = none := by
  induction s using toks_induct with
  | nil =>
    constructor
    · intro _ suf h
      rw [List.suffix_nil.1 h]; rfl
    · intro _; rfl
  | ch b t hm ih =>
    rw [refs_cons_none hm, ih]
    constructor
    · intro h suf hs
      rcases List.suffix_cons_iff.1 hs with rfl | hs
      · exact hm
      · exact h suf hs
    · intro h suf hs
      exact h suf (List.suffix_cons_iff.2 (Or.inr hs))
  | ref b t n r hm ih =>
    rw [refs_cons_some hm]
    constructor
    · intro h; cases h
    · intro h
      rw [h _ (List.suffix_refl _)] at hm
      cases hm

/-- a byte of a reference match other than the first is not `(` -/
theorem substToks_prefix (m : Map) (hm : ∀ n v, m.get n = some v → v.head? = some 40) :
    ∀ (x t r y : Str), substToks m (toks t) = some r → r = x ++ y → 40 ∉ x → ∃ t', t = x ++ t' := by
  intro x
  induction x with
  | nil => intro t _ _ _ _ _; exact ⟨t, rfl⟩
  | cons c x ih =>
    intro t r y hs hr hx
    cases t with
    | nil =>
      rw [toks_nil, substToks_nil] at hs
      cases hs; cases hr
    | cons b t =>
      cases hq : matchRef (b :: t) with
      | none =>
        rw [toks_cons_none hq, substToks_ch] at hs
        cases hs1 : substToks m (toks t) with
        | none => simp [hs1] at hs
        | some r1 =>
          simp [hs1] at hs
          subst hs
          simp at hr
          obtain ⟨rfl, hr⟩ := hr
          obtain ⟨t', rfl⟩ := ih t r1 y hs1 hr (fun h => hx (by simp [h]))
          exact ⟨t', rfl⟩
      | some nr =>
        obtain ⟨n, r'⟩ := nr
        rw [toks_cons_some hq, substToks_ref] at hs
        cases hg : m.get n with
        | none => simp [hg] at hs
        | some v =>
          cases hs1 : substToks m (toks r') with
          | none => simp [hg, hs1] at hs
          | some r1 =>
            simp [hg, hs1] at hs
            obtain ⟨v', rfl⟩ := List.head?_eq_some_iff.1 (hm n v hg)
            subst hs
            simp at hr
            exact absurd (by simp [hr.1]) hx

/-- a stored subpattern: no reference left inside, opens with `(` and closes with `)` -/
def Sealed (v : Str) : Prop := refs v = [] ∧ v.head? = some 40 ∧ v.getLast? = some 41

theorem substToks_suffix_none (m : Map) (hm : ∀ n v, m.get n = some v → Sealed v) :
    ∀ (s r : Str), substToks m (toks s) = some r → ∀ suf, suf <:+ r → matchRef suf = none := by
  intro s
  induction s using toks_induct with
  | nil =>
    intro r hs suf hsuf
    rw [toks_nil, substToks_nil] at hs
    cases hs
    rw [List.suffix_nil.1 hsuf]; rfl
  | ch b t hq ih =>
    intro r hs suf hsuf
    rw [toks_cons_none hq, substToks_ch] at hs
    cases hs1 : substToks m (toks t) with
    | none => simp [hs1] at hs
    | some r1 =>
      simp [hs1] at hs
      subst hs
      rcases List.suffix_cons_iff.1 hsuf with rfl | hsuf
      · cases hq' : matchRef (b :: r1) with
        | none => rfl
        | some nr =>
          exfalso
          obtain ⟨n, r'⟩ := nr
          obtain ⟨heq, hne, hid⟩ := (matchRef_some_iff _ n r').1 hq'
          simp at heq
          obtain ⟨rfl, heq⟩ := heq
          have hx : 40 ∉ 63 :: 38 :: (n ++ [41]) := by
            intro h
            simp at h
            have := hid 40 h
            simp [isIdent] at this
          obtain ⟨t', rfl⟩ := substToks_prefix m (fun n v h => (hm n v h).2.1)
            (63 :: 38 :: (n ++ [41])) t r1 r' hs1 (by simp [heq]) hx
          have : matchRef (40 :: (63 :: 38 :: (n ++ [41]) ++ t')) = some (n, t') :=
            (matchRef_some_iff _ n t').2 ⟨by simp, hne, hid⟩
          rw [this] at hq
          cases hq
      · exact ih r1 hs1 suf hsuf
  | ref b t n rest hq ih =>
    intro r hs suf hsuf
    rw [toks_cons_some hq, substToks_ref] at hs
    cases hg : m.get n with
    | none => simp [hg] at hs
    | some v =>
      cases hs1 : substToks m (toks rest) with
      | none => simp [hg, hs1] at hs
      | some r1 =>
        simp [hg, hs1] at hs
        subst hs
        obtain ⟨hv1, _, hv3⟩ := hm n v hg
        rw [refs_eq_nil_iff] at hv1
        obtain ⟨p, hp⟩ := hsuf
        rcases List.append_eq_append_iff.1 hp with ⟨a, rfl, rfl⟩ | ⟨bs, rfl, rfl⟩
        · -- the suffix starts inside `v`
          cases ha : a with
          | nil => simpa using ih r1 hs1 r1 (List.suffix_refl _)
          | cons a0 a1 =>
            rw [← ha]
            have hane : a ≠ [] := by simp [ha]
            have ha41 : a.getLast? = some 41 := by
              rw [List.getLast?_append] at hv3
              cases hl : a.getLast? with
              | none => simp [List.getLast?_eq_none_iff] at hl; exact absurd hl hane
              | some z => simpa [hl] using hv3
            have hmem : 41 ∈ a := List.mem_of_getLast? ha41
            have hnone : matchRef a = none := hv1 a (List.suffix_append _ _)
            cases hq' : matchRef (a ++ r1) with
            | none => rfl
            | some nr =>
              exfalso
              obtain ⟨n', r'⟩ := nr
              obtain ⟨heq, hne, hid⟩ := (matchRef_some_iff _ n' r').1 hq'
              have heq' : a ++ r1 = (40 :: 63 :: 38 :: n' ++ [41]) ++ r' := by simp [heq]
              rcases List.append_eq_append_iff.1 heq' with ⟨c, hM, _⟩ | ⟨c, hM, _⟩
              · -- the match runs past the end of `a`
                by_cases hc : c = []
                · subst hc
                  have : matchRef a = some (n', []) :=
                    (matchRef_some_iff _ n' []).2 ⟨by simpa using hM.symm, hne, hid⟩
                  rw [this] at hnone; cases hnone
                · have := congrArg List.dropLast hM
                  rw [List.dropLast_concat, List.dropLast_append_of_ne_nil hc] at this
                  have h41 : 41 ∈ 40 :: 63 :: 38 :: n' := by rw [this]; simp [hmem]
                  simp at h41
                  have := hid 41 h41
                  simp [isIdent] at this
              · have : matchRef a = some (n', c) :=
                  (matchRef_some_iff _ n' c).2 ⟨by simpa using hM, hne, hid⟩
                rw [this] at hnone; cases hnone
        · exact ih _ hs1 suf ⟨bs, rfl⟩

/-- one pass is enough: splicing sealed texts into a pattern leaves no reference behind -/
theorem subst_sealed_noRefs (m : Map) (p r : Str)
    (hm : ∀ n v, m.get n = some v → Sealed v) (h : subst m p = some r) : refs r = [] :=
  (refs_eq_nil_iff r).2 (substToks_suffix_none m hm p r h)

/-! ## escaped literals -/

/-- no reference starts anywhere in `s`, and `s` does not open with `?` -/
def NoRefQ (s : Str) : Prop := (∀ suf, suf <:+ s → matchRef suf = none) ∧ s.head? ≠ some 63

theorem matchRef_cons_none (c : Nat) (E : Str) (h : c ≠ 40 ∨ E.head? ≠ some 63) :
    matchRef (c :: E) = none := by
  cases hq : matchRef (c :: E) with
  | none => rfl
  | some nr =>
    obtain ⟨n, r⟩ := nr
    obtain ⟨heq, _, _⟩ := (matchRef_some_iff _ n r).1 hq
    simp at heq
    obtain ⟨rfl, rfl⟩ := heq
    simp at h

theorem noRefs_cons (c : Nat) (E : Str) (h : c ≠ 40 ∨ E.head? ≠ some 63)
    (hE : ∀ suf, suf <:+ E → matchRef suf = none) : ∀ suf, suf <:+ c :: E → matchRef suf = none := by
  intro suf hs
  rcases List.suffix_cons_iff.1 hs with rfl | hs
  · exact matchRef_cons_none c E h
  · exact hE suf hs

theorem hexDigit_ne (n : Nat) : hexDigit n ≠ 40 := by
  unfold hexDigit; split <;> omega

theorem NoRefQ_escStrByte (b : Nat) (E : Str) (hE : NoRefQ E) : NoRefQ (escStrByte true b ++ E) := by
  unfold escStrByte
  cases hb : isMeta b
  · simp [isMeta] at hb
    exact ⟨noRefs_cons b E (Or.inl (by omega)) hE.1, by simp; omega⟩
  · exact ⟨noRefs_cons 92 (b :: E) (Or.inl (by decide)) (noRefs_cons b E (Or.inr hE.2) hE.1), by simp⟩

theorem NoRefQ_escBytesByte (b : Nat) (E : Str) (hE : NoRefQ E) :
    NoRefQ (escBytesByte true b ++ E) := by
  unfold escBytesByte
  split
  · exact NoRefQ_escStrByte b E hE
  · refine ⟨?_, by simp⟩
    exact noRefs_cons 92 _ (Or.inl (by decide)) <| noRefs_cons 120 _ (Or.inl (by decide)) <|
      noRefs_cons _ _ (Or.inl (hexDigit_ne _)) <| noRefs_cons _ _ (Or.inl (hexDigit_ne _)) hE.1

theorem NoRefQ_nil : NoRefQ [] := by
  refine ⟨?_, by simp⟩
  intro suf h
  rw [List.suffix_nil.1 h]; rfl

/-- an escaped literal contains no reference (nothing to substitute in a case-insensitive token) -/
theorem escape_literal_noRefs (l : Lit) : refs (escape true l) = [] := by
  rw [refs_eq_nil_iff]
  suffices h : NoRefQ (escape true l) from h.1
  cases l with
  | str s =>
    simp only [escape]
    induction s with
    | nil => exact NoRefQ_nil
    | cons b t ih => rw [List.flatMap_cons]; exact NoRefQ_escStrByte b _ ih
  | bytes s =>
    simp only [escape]
    induction s with
    | nil => exact NoRefQ_nil
    | cons b t ih => rw [List.flatMap_cons]; exact NoRefQ_escBytesByte b _ ih

/-! ## the map built by the loop holds sealed texts -/

theorem getLast?_append_some {α} {l l' : List α} {a : α} (h : l'.getLast? = some a) :
    (l ++ l').getLast? = some a := by
  simp [List.getLast?_append, h]

theorem getLast?_of_append {α} {l l' : List α} {a : α} (h : (l ++ l').getLast? = some a)
    (hne : l' ≠ []) : l'.getLast? = some a := by
  rw [List.getLast?_append] at h
  cases hl : l'.getLast? with
  | none => exact absurd (List.getLast?_eq_none_iff.1 hl) hne
  | some z => simpa [hl] using h

theorem Map.get_cons (k v : Str) (m : Map) (n : Str) :
    Map.get ((k, v) :: m) n = if k = n then some v else Map.get m n := by
  unfold Map.get
  rw [List.find?_cons]
  by_cases h : k = n
  · subst h; simp
  · have : (k == n) = false := by simpa using h
    simp [this, h]

theorem Map.get_nil (n : Str) : Map.get [] n = none := rfl

theorem substToks_getLast (m : Map) (hm : ∀ n v, m.get n = some v → v.getLast? = some 41) :
    ∀ (s r : Str), s.getLast? = some 41 → substToks m (toks s) = some r → r.getLast? = some 41 := by
  intro s
  induction s using toks_induct with
  | nil => intro r h; simp at h
  | ch b t hq ih =>
    intro r hl hs
    rw [toks_cons_none hq, substToks_ch] at hs
    cases hs1 : substToks m (toks t) with
    | none => simp [hs1] at hs
    | some r1 =>
      simp [hs1] at hs
      subst hs
      cases t with
      | nil =>
        rw [toks_nil, substToks_nil] at hs1
        cases hs1
        simpa using hl
      | cons c t' =>
        have : (c :: t').getLast? = some 41 := getLast?_of_append (l := [b]) hl (by simp)
        exact getLast?_append_some (l := [b]) (ih r1 this hs1)
  | ref b t n rest hq ih =>
    intro r hl hs
    rw [toks_cons_some hq, substToks_ref] at hs
    cases hg : m.get n with
    | none => simp [hg] at hs
    | some v =>
      cases hs1 : substToks m (toks rest) with
      | none => simp [hg, hs1] at hs
      | some r1 =>
        simp [hg, hs1] at hs
        subst hs
        obtain ⟨heq, _, _⟩ := (matchRef_some_iff _ n rest).1 hq
        cases rest with
        | nil =>
          rw [toks_nil, substToks_nil] at hs1
          cases hs1
          simpa using hm n v hg
        | cons c t' =>
          have heq' : b :: t = (40 :: 63 :: 38 :: n ++ [41]) ++ c :: t' := by simp [heq]
          rw [heq'] at hl
          exact getLast?_append_some (ih r1 (getLast?_of_append hl (by simp)) hs1)

theorem matchRef_wrap (u : Bool) (src : Str) : matchRef (wrap u src) = none := by
  cases hq : matchRef (wrap u src) with
  | none => rfl
  | some nr =>
    obtain ⟨n, r⟩ := nr
    obtain ⟨heq, _, _⟩ := (matchRef_some_iff _ n r).1 hq
    cases u <;> simp [wrap] at heq

theorem subst_wrap_sealed (m : Map) (hm : ∀ n v, m.get n = some v → Sealed v) (u : Bool)
    (src p : Str) (h : subst m (wrap u src) = some p) : Sealed p := by
  refine ⟨subst_sealed_noRefs m _ p hm h, ?_, ?_⟩
  · have hw : ∃ t, wrap u src = 40 :: t := by cases u <;> exact ⟨_, rfl⟩
    obtain ⟨t, ht⟩ := hw
    have hq := matchRef_wrap u src
    rw [subst, ht] at h
    rw [ht] at hq
    rw [toks_cons_none hq, substToks_ch] at h
    cases hs1 : substToks m (toks t) with
    | none => simp [hs1] at h
    | some r1 => simp [hs1] at h; simp [← h]
  · refine substToks_getLast m (fun n v h => (hm n v h).2.2) _ p ?_ h
    unfold wrap
    exact getLast?_append_some rfl

theorem buildStep_sealed (ok : Str → Bool) (b : Build) (d : SubDef)
    (hb : ∀ n v, b.map.get n = some v → Sealed v) :
    ∀ n v, (buildStep ok b d).map.get n = some v → Sealed v := by
  unfold buildStep
  split
  · exact hb
  · split
    · exact hb
    · rename_i p hp
      have hs : Sealed p := subst_wrap_sealed b.map hb _ _ p hp
      have hcons : ∀ n v, Map.get ((d.name, p) :: b.map) n = some v → Sealed v := by
        intro n v h
        rw [Map.get_cons] at h
        split at h
        · cases h; exact hs
        · exact hb n v h
      simp only
      split
      · exact hb
      · split
        · exact hcons
        · exact hcons

theorem foldl_buildStep_sealed (ok : Str → Bool) (ds : List SubDef) :
    ∀ b : Build, (∀ n v, b.map.get n = some v → Sealed v) →
      ∀ n v, (ds.foldl (buildStep ok) b).map.get n = some v → Sealed v := by
  induction ds with
  | nil => intro b hb; exact hb
  | cons d ds ih => intro b hb; exact ih _ (buildStep_sealed ok b d hb)

theorem build_sealed (ok : Str → Bool) (ds : List SubDef) :
    ∀ n v, (build ok ds).map.get n = some v → Sealed v :=
  foldl_buildStep_sealed ok ds {} (by intro n v h; cases h)

/-- the regex source of every leaf is free of references -/
theorem leaf_noRefs (ok : Str → Bool) (ds : List SubDef) (p r : Str)
    (h : subst (build ok ds).map p = some r) : refs r = [] :=
  subst_sealed_noRefs _ p r (build_sealed ok ds) h

def names (ds : List SubDef) : List Str := ds.map (·.name)

/-- every reference names an earlier entry; names are distinct and usable -/
def DepOk : List SubDef → Prop
  | [] => True
  | ds => ∀ i (hi : i < ds.length),
      (ds[i].name.any isIdent = true) ∧
      (∀ j (hj : j < ds.length), ds[j].name = ds[i].name → j = i) ∧
      (∀ n ∈ refs ds[i].wrapped, ∃ j, ∃ hj : j < i, ds[j].name = n)

/-! ## dependency-respecting lists -/

theorem rev_induct {α} {P : List α → Prop} (nil : P []) (snoc : ∀ l a, P l → P (l ++ [a])) :
    ∀ l, P l := by
  intro l
  rw [← List.reverse_reverse l]
  induction l.reverse with
  | nil => exact nil
  | cons a t ih => rw [List.reverse_cons]; exact snoc _ _ ih

theorem mem_names_take (ds : List SubDef) (i : Nat) (hi : i ≤ ds.length) (n : Str) :
    n ∈ names (ds.take i) ↔ ∃ j, ∃ hj : j < i, ds[j].name = n := by
  unfold names
  rw [List.mem_map]
  constructor
  · rintro ⟨d, hd, rfl⟩
    obtain ⟨j, hj, rfl⟩ := List.mem_iff_getElem.1 hd
    have hj' : j < i := by simp at hj; omega
    exact ⟨j, hj', by rw [List.getElem_take]⟩
  · rintro ⟨j, hj, rfl⟩
    refine ⟨ds[j], ?_, rfl⟩
    rw [List.mem_iff_getElem]
    exact ⟨j, by simp; omega, by rw [List.getElem_take]⟩

theorem depOk_iff (ds : List SubDef) : DepOk ds ↔ ∀ i (hi : i < ds.length),
      (ds[i].name.any isIdent = true) ∧
      (∀ j (hj : j < ds.length), ds[j].name = ds[i].name → j = i) ∧
      (∀ n ∈ refs ds[i].wrapped, n ∈ names (ds.take i)) := by
  have h1 : DepOk ds ↔ ∀ i (hi : i < ds.length),
      (ds[i].name.any isIdent = true) ∧
      (∀ j (hj : j < ds.length), ds[j].name = ds[i].name → j = i) ∧
      (∀ n ∈ refs ds[i].wrapped, ∃ j, ∃ hj : j < i, ds[j].name = n) := by
    cases ds with
    | nil => simp [DepOk]
    | cons d ds => simp only [DepOk]
  rw [h1]
  constructor
  · intro h i hi
    obtain ⟨a, b, c⟩ := h i hi
    refine ⟨a, b, fun n hn => ?_⟩
    rw [mem_names_take ds i (by omega)]
    exact c n hn
  · intro h i hi
    obtain ⟨a, b, c⟩ := h i hi
    refine ⟨a, b, fun n hn => ?_⟩
    rw [← mem_names_take ds i (by omega)]
    exact c n hn

theorem DepOk.split {ds : List SubDef} (h : DepOk ds) {pre post : List SubDef} {d : SubDef}
    (hs : ds = pre ++ d :: post) :
    d.name.any isIdent = true ∧ d.name ∉ names pre ∧ ∀ n ∈ refs d.wrapped, n ∈ names pre := by
  subst hs
  rw [depOk_iff] at h
  have hi : pre.length < (pre ++ d :: post).length := by simp
  obtain ⟨a, b, c⟩ := h pre.length hi
  have hd : (pre ++ d :: post)[pre.length] = d := by simp
  rw [hd] at a b c
  have ht : (pre ++ d :: post).take pre.length = pre := by simp
  rw [ht] at c
  refine ⟨a, ?_, c⟩
  intro hmem
  unfold names at hmem
  rw [List.mem_map] at hmem
  obtain ⟨d', hd', hname⟩ := hmem
  obtain ⟨j, hj, rfl⟩ := List.mem_iff_getElem.1 hd'
  have := b j (by simp; omega) (by rw [List.getElem_append_left hj]; exact hname)
  omega

theorem DepOk.nodup {ds : List SubDef} (h : DepOk ds) : (names ds).Nodup := by
  rw [depOk_iff] at h
  rw [List.nodup_iff_pairwise_ne, List.pairwise_iff_getElem]
  intro i j hi hj hij heq
  unfold names at hi hj heq
  simp only [List.length_map] at hi hj
  simp only [List.getElem_map] at heq
  have := (h j hj).2.1 i hi heq
  omega

/-! ### `lookupDef` -/

theorem lookupDef_of_mem_names {ds : List SubDef} {n : Str} (h : n ∈ names ds) :
    ∃ d, lookupDef ds n = some d ∧ d ∈ ds ∧ d.name = n := by
  unfold lookupDef
  cases hf : ds.find? (·.name == n) with
  | none =>
    rw [List.find?_eq_none] at hf
    unfold names at h
    obtain ⟨d, hd, rfl⟩ := List.mem_map.1 h
    exact absurd (by simp) (hf d hd)
  | some d =>
    exact ⟨d, rfl, List.mem_of_find?_eq_some hf, by simpa using List.find?_some hf⟩

theorem lookupDef_none {ds : List SubDef} {n : Str} (h : n ∉ names ds) : lookupDef ds n = none := by
  unfold lookupDef
  rw [List.find?_eq_none]
  intro d hd hn
  exact h (List.mem_map.2 ⟨d, hd, by simpa using hn⟩)

theorem lookupDef_some {ds : List SubDef} {n : Str} {d : SubDef} (h : lookupDef ds n = some d) :
    d ∈ ds ∧ d.name = n :=
  ⟨List.mem_of_find?_eq_some h, by simpa using List.find?_some h⟩

theorem lookupDef_append_left {pre post : List SubDef} {n : Str} {d : SubDef}
    (h : lookupDef pre n = some d) : lookupDef (pre ++ post) n = some d := by
  unfold lookupDef at h ⊢
  rw [List.find?_append, h]; rfl

theorem lookupDef_of_nodup {ds : List SubDef} (hd : (names ds).Nodup) {d : SubDef} (h : d ∈ ds) :
    lookupDef ds d.name = some d := by
  obtain ⟨d', h1, h2, h3⟩ := lookupDef_of_mem_names (List.mem_map.2 ⟨d, h, rfl⟩ : d.name ∈ names ds)
  rw [h1]
  congr 1
  -- two entries of the same name in a list whose names are distinct
  unfold names at hd
  rw [List.nodup_iff_pairwise_ne, List.pairwise_iff_getElem] at hd
  obtain ⟨i, hi, rfl⟩ := List.mem_iff_getElem.1 h
  obtain ⟨j, hj, rfl⟩ := List.mem_iff_getElem.1 h2
  by_cases hij : i = j
  · subst hij; rfl
  · exfalso
    rcases Nat.lt_or_gt_of_ne hij with hlt | hlt
    · exact hd i j (by simpa using hi) (by simpa using hj) hlt (by simpa using h3.symm)
    · exact hd j i (by simpa using hj) (by simpa using hi) hlt (by simpa using h3)

/-! ### `inlineToks` -/

theorem inlineToks_ch (ds : List SubDef) (rec : Str → Option Str) (b : Nat) (ts : List Tok) :
    inlineToks ds rec (.ch b :: ts) = (inlineToks ds rec ts).map (b :: ·) := rfl

theorem inlineToks_ref (ds : List SubDef) (rec : Str → Option Str) (n : Str) (ts : List Tok) :
    inlineToks ds rec (.ref n :: ts) =
      (lookupDef ds n).bind fun d => (rec d.wrapped).bind fun a =>
        (inlineToks ds rec ts).map (a ++ ·) := by
  simp only [inlineToks]
  cases lookupDef ds n with
  | none => rfl
  | some d =>
    dsimp only [Option.bind_some]
    cases rec d.wrapped <;> cases inlineToks ds rec ts <;> rfl

theorem inlineToks_mono (ds : List SubDef) (rec rec' : Str → Option Str)
    (h : ∀ p v, rec p = some v → rec' p = some v) :
    ∀ (ts : List Tok) (v : Str), inlineToks ds rec ts = some v → inlineToks ds rec' ts = some v := by
  intro ts
  induction ts with
  | nil => intro v hv; exact hv
  | cons t ts ih =>
    intro v hv
    cases t with
    | ch b =>
      rw [inlineToks_ch] at hv ⊢
      cases hr : inlineToks ds rec ts with
      | none => simp [hr] at hv
      | some r => rw [ih r hr]; rw [hr] at hv; exact hv
    | ref n =>
      rw [inlineToks_ref] at hv ⊢
      cases hl : lookupDef ds n with
      | none => simp [hl] at hv
      | some d =>
        rw [hl] at hv
        simp only [Option.bind_some] at hv ⊢
        cases ha : rec d.wrapped with
        | none => simp [ha] at hv
        | some a =>
          cases hr : inlineToks ds rec ts with
          | none => simp [ha, hr] at hv
          | some r =>
            rw [ha, hr] at hv
            rw [h _ _ ha, ih r hr]
            exact hv

theorem inlineF_mono (ds : List SubDef) : ∀ (f f' : Nat) (p v : Str), f ≤ f' →
    inlineF ds f p = some v → inlineF ds f' p = some v := by
  intro f
  induction f with
  | zero => intro f' p v _ h; cases h
  | succ f ih =>
    intro f' p v hle h
    cases f' with
    | zero => omega
    | succ f' =>
      exact inlineToks_mono ds _ _ (fun p v => ih f' p v (by omega)) _ v h

/-- substitution from a map agrees with one level of inlining when, name by name, the map holds what
`rec` computes for the definition of that name -/
theorem substToks_eq_inlineToks (ds : List SubDef) (m : Map) (rec : Str → Option Str) (ts : List Tok)
    (h : ∀ n ∈ tokRefs ts, (lookupDef ds n = none ∧ m.get n = none) ∨
      ∃ d v, lookupDef ds n = some d ∧ m.get n = some v ∧ rec d.wrapped = some v) :
    substToks m ts = inlineToks ds rec ts := by
  induction ts with
  | nil => rfl
  | cons t ts ih =>
    cases t with
    | ch b => rw [substToks_ch, inlineToks_ch, ih (by simpa using h)]
    | ref n =>
      simp only [tokRefs_ref, List.mem_cons, forall_eq_or_imp] at h
      rw [substToks_ref, inlineToks_ref, ih h.2]
      rcases h.1 with ⟨h1, h2⟩ | ⟨d, v, h1, h2, h3⟩
      · rw [h1, h2]; rfl
      · rw [h1, h2]; simp [h3]

/-! ### the loop -/

theorem build_snoc (ok : Str → Bool) (pre : List SubDef) (d : SubDef) :
    build ok (pre ++ [d]) = buildStep ok (build ok pre) d := by
  simp [build, List.foldl_append]

theorem buildStep_get_none (ok : Str → Bool) (b : Build) (d : SubDef) (n : Str)
    (hb : b.map.get n = none) (hn : d.name ≠ n) : (buildStep ok b d).map.get n = none := by
  unfold buildStep
  split
  · exact hb
  · split
    · exact hb
    · simp only
      split
      · exact hb
      · split <;> (simp only [Map.get_cons, hn, if_false]; exact hb)

/-- names that are not defined stay unbound -/
theorem build_get_none (ok : Str → Bool) (ds : List SubDef) (n : Str) (h : n ∉ names ds) :
    (build ok ds).map.get n = none := by
  induction ds using rev_induct with
  | nil => rfl
  | snoc pre d ih =>
    rw [build_snoc]
    have h1 : n ∉ names pre := fun hm => h (by unfold names at hm ⊢; simp at hm ⊢; exact Or.inl hm)
    have h2 : d.name ≠ n := fun hm => h (by unfold names; simp [hm])
    exact buildStep_get_none ok _ d n (ih h1) h2

theorem buildStep_good (b : Build) (d : SubDef) (p : Str) (h1 : d.name.any isIdent = true)
    (h2 : subst b.map d.wrapped = some p) (h3 : b.map.get d.name = none) :
    (buildStep (fun _ => true) b d).map = (d.name, p) :: b.map ∧
    (buildStep (fun _ => true) b d).errs = b.errs := by
  unfold buildStep
  simp [h1, h2, h3]

theorem build_inv (ds : List SubDef) (h : DepOk ds) : ∀ pre post, ds = pre ++ post →
    (build (fun _ => true) pre).errs = 0 ∧
    ∀ d ∈ pre, ∃ v, (build (fun _ => true) pre).map.get d.name = some v ∧
      inlineF ds pre.length d.wrapped = some v := by
  intro pre
  induction pre using rev_induct with
  | nil => intro _ _; exact ⟨rfl, by simp⟩
  | snoc pre d ih =>
    intro post hs
    have hs' : ds = pre ++ d :: post := by simp [hs]
    obtain ⟨ih1, ih2⟩ := ih (d :: post) hs'
    obtain ⟨hname, hnotin, hrefs⟩ := h.split hs'
    have hnone := build_get_none (fun _ => true) pre d.name hnotin
    -- every referenced name is bound to the inlining of its definition
    have hbound : ∀ n ∈ refs d.wrapped, ∃ d' v, lookupDef ds n = some d' ∧
        (build (fun _ => true) pre).map.get n = some v ∧
        inlineF ds pre.length d'.wrapped = some v := by
      intro n hn
      obtain ⟨d', hl, hmem, hnm⟩ := lookupDef_of_mem_names (hrefs n hn)
      obtain ⟨v, hv1, hv2⟩ := ih2 d' hmem
      refine ⟨d', v, ?_, by rw [← hnm]; exact hv1, hv2⟩
      rw [hs']; exact lookupDef_append_left hl
    have heq : subst (build (fun _ => true) pre).map d.wrapped
        = inlineF ds (pre.length + 1) d.wrapped :=
      substToks_eq_inlineToks ds _ _ _ (fun n hn => Or.inr (hbound n hn))
    have hsome : (subst (build (fun _ => true) pre).map d.wrapped).isSome := by
      rw [subst_isSome_iff]
      intro n hn
      obtain ⟨_, v, _, hv, _⟩ := hbound n hn
      simp [hv]
    obtain ⟨p, hp⟩ := Option.isSome_iff_exists.1 hsome
    obtain ⟨hmap, herrs⟩ := buildStep_good _ d p hname hp hnone
    rw [build_snoc]
    refine ⟨by rw [herrs]; exact ih1, ?_⟩
    intro d' hd'
    rw [hmap, Map.get_cons]
    have hlen : (pre ++ [d]).length = pre.length + 1 := by simp
    rw [hlen]
    rcases List.mem_append.1 hd' with hd' | hd'
    · obtain ⟨v, hv1, hv2⟩ := ih2 d' hd'
      have hne : d.name ≠ d'.name := fun e => hnotin (e ▸ List.mem_map.2 ⟨d', hd', rfl⟩)
      refine ⟨v, by simp [hne, hv1], inlineF_mono ds _ _ _ _ (by omega) hv2⟩
    · simp at hd'
      subst hd'
      exact ⟨p, by simp, by rw [← heq]; exact hp⟩

/-- The sequential loop computes the recursive inlining: with every test compile succeeding, a
dependency-respecting list raises no error, and binds each name to the inlining of its wrapped source. -/
theorem build_eq_inline (ds : List SubDef) (h : DepOk ds) :
    (build (fun _ => true) ds).errs = 0 ∧
    ∀ d ∈ ds, ∃ v, (build (fun _ => true) ds).map.get d.name = some v ∧
      inlineF ds ds.length d.wrapped = some v :=
  build_inv ds h ds [] (by simp)

/-- a leaf pattern over a dependency-respecting list: the source handed to the regex parser is the
recursive inlining (and `none`, a diagnostic, exactly when a referenced name is undefined) -/
theorem leaf_eq_inline (ds : List SubDef) (h : DepOk ds) (p : Str) :
    subst (build (fun _ => true) ds).map p = inlineF ds (ds.length + 1) p := by
  refine substToks_eq_inlineToks ds _ _ _ (fun n _ => ?_)
  by_cases hn : n ∈ names ds
  · obtain ⟨d, hl, hmem, hnm⟩ := lookupDef_of_mem_names hn
    obtain ⟨v, hv1, hv2⟩ := (build_eq_inline ds h).2 d hmem
    exact Or.inr ⟨d, v, hl, by rw [← hnm]; exact hv1, hv2⟩
  · exact Or.inl ⟨lookupDef_none hn, build_get_none _ ds n hn⟩

theorem build_get_isSome_iff (ds : List SubDef) (h : DepOk ds) (n : Str) :
    ((build (fun _ => true) ds).map.get n).isSome ↔ n ∈ names ds := by
  constructor
  · intro hs
    by_cases hn : n ∈ names ds
    · exact hn
    · rw [build_get_none _ ds n hn] at hs; cases hs
  · intro hn
    obtain ⟨d, _, hmem, hnm⟩ := lookupDef_of_mem_names hn
    obtain ⟨v, hv1, _⟩ := (build_eq_inline ds h).2 d hmem
    rw [← hnm, hv1]; rfl

theorem subst_none_iff_undefined (ds : List SubDef) (h : DepOk ds) (p : Str) :
    subst (build (fun _ => true) ds).map p = none ↔ ∃ n ∈ refs p, n ∉ names ds := by
  constructor
  · intro hnone
    apply Classical.byContradiction
    intro hne
    have : (subst (build (fun _ => true) ds).map p).isSome := by
      rw [subst_isSome_iff]
      intro n hn
      rw [build_get_isSome_iff ds h]
      apply Classical.byContradiction
      intro hmem
      exact hne ⟨n, hn, hmem⟩
    rw [hnone] at this; cases this
  · rintro ⟨n, hn, hmem⟩
    cases hs : subst (build (fun _ => true) ds).map p with
    | none => rfl
    | some r =>
      have : (subst (build (fun _ => true) ds).map p).isSome := by rw [hs]; rfl
      rw [subst_isSome_iff] at this
      exact absurd ((build_get_isSome_iff ds h n).1 (this n hn)) hmem

theorem lookupDef_perm (ds ds' : List SubDef) (hp : ds.Perm ds') (hd : (names ds).Nodup) (n : Str) :
    lookupDef ds n = lookupDef ds' n := by
  have hpn : (names ds).Perm (names ds') := hp.map _
  have hd' : (names ds').Nodup := hpn.nodup_iff.1 hd
  cases hl : lookupDef ds n with
  | none =>
    have hn : n ∉ names ds := by
      intro hn
      obtain ⟨d, hl', _, _⟩ := lookupDef_of_mem_names hn
      rw [hl] at hl'; cases hl'
    have hn' : n ∉ names ds' := fun hm => hn (hpn.mem_iff.2 hm)
    exact (lookupDef_none hn').symm
  | some d =>
    obtain ⟨hmem, hnm⟩ := lookupDef_some hl
    have := lookupDef_of_nodup hd' (hp.mem_iff.1 hmem)
    rw [hnm] at this
    exact this.symm

theorem inlineToks_congr (ds ds' : List SubDef) (rec rec' : Str → Option Str)
    (hl : ∀ n, lookupDef ds n = lookupDef ds' n) (hr : ∀ p, rec p = rec' p) (ts : List Tok) :
    inlineToks ds rec ts = inlineToks ds' rec' ts := by
  induction ts with
  | nil => rfl
  | cons t ts ih =>
    cases t with
    | ch b => rw [inlineToks_ch, inlineToks_ch, ih]
    | ref n =>
      rw [inlineToks_ref, inlineToks_ref, ih, hl n]
      cases lookupDef ds' n with
      | none => rfl
      | some d => simp only [Option.bind_some, hr]

/-- inlining does not depend on the order of the definitions -/
theorem inlineF_perm (ds ds' : List SubDef) (hp : ds.Perm ds') (hd : (names ds).Nodup)
    (fuel : Nat) (p : Str) : inlineF ds fuel p = inlineF ds' fuel p := by
  induction fuel generalizing p with
  | zero => rfl
  | succ f ih =>
    exact inlineToks_congr ds ds' _ _ (lookupDef_perm ds ds' hp hd) ih _

/-- C18 for subpattern items: any two orders that keep every subpattern defined before its use give the
same source for every leaf pattern -/
theorem build_perm (ds ds' : List SubDef) (hp : ds.Perm ds') (h : DepOk ds) (h' : DepOk ds') (p : Str) :
    subst (build (fun _ => true) ds).map p = subst (build (fun _ => true) ds').map p := by
  rw [leaf_eq_inline ds h, leaf_eq_inline ds' h', hp.length_eq]
  exact inlineF_perm ds ds' hp h.nodup _ p

theorem compileCalls_perm_items (ds ds' : List SubDef) (hp : ds.Perm ds') (h : DepOk ds) (h' : DepOk ds')
    (items : List Item) :
    items.filterMap (itemCall (build (fun _ => true) ds).map)
      = items.filterMap (itemCall (build (fun _ => true) ds').map) := by
  have : ∀ it, itemCall (build (fun _ => true) ds).map it = itemCall (build (fun _ => true) ds').map it := by
    intro it
    cases it with
    | regex lit ic => simp only [itemCall, build_perm ds ds' hp h h']
    | token lit ic => cases ic <;> rfl
  rw [funext this]

/-! Non-vacuity: concrete instances of the hypotheses. -/

def exDefs : List SubDef :=
  [⟨[97], .str [120, 124, 121]⟩,                                  -- a = "x|y"
   ⟨[98], .str [40, 63, 38, 97, 41, 43]⟩,                          -- b = "(?&a)+"
   ⟨[99], .bytes [255, 40, 63, 38, 98, 41]⟩]                       -- c = b"\xff(?&b)"

example : DepOk exDefs := by
  rw [depOk_iff]; decide

def exDefs' : List SubDef := [⟨[100], .str [113]⟩] ++ exDefs                -- d = "q" first
def exDefs'' : List SubDef := [exDefs[0], exDefs[1], ⟨[100], .str [113]⟩, exDefs[2]]   -- ... or third

example : DepOk exDefs' ∧ DepOk exDefs'' ∧ exDefs'.Perm exDefs'' := by
  refine ⟨by rw [depOk_iff]; decide, by rw [depOk_iff]; decide, ?_⟩
  decide

example : subst (build (fun _ => true) exDefs).map [40, 63, 38, 99, 41, 122]
    = some ([40,63,45,117,58, 92,120,70,70, 40,63,117,58, 40,63,117,58,120,124,121,41, 43,41, 41, 122]) := by
  decide

example : unescape (escape true (.bytes [46, 255, 92, 120])) = some [46, 255, 92, 120] := by decide

end Logos.Subst
