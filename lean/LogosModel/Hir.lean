import LogosModel.Re
import LogosModel.Utf8
/-!
# regex-syntax HIR as dumped by the capture hook, and its lowering to the core regex

`Hir` mirrors `regex_syntax::hir::HirKind`.  A class carries its scalar (or byte) ranges *and* the
byte-range sequences produced by `regex_syntax::utf8::Utf8Sequences` (the routine regex-automata's
compiler uses); the lowering uses the sequences, the scalar ranges are kept for `Pattern::complexity`
-style functions and cross-checks.  Look-around assertions have no counterpart in `Re`; `hasLook`
tells whether a tree is in the look-free fragment.
-/
namespace Logos

inductive Hir where
  | empty
  | lit (bytes : List Nat)
  | cls (unicode : Bool) (ranges : List (Nat × Nat)) (seqs : List (List (Nat × Nat)))
  | look (code : Nat)
  | rep (min : Nat) (max : Option Nat) (greedy : Bool) (sub : Hir)
  | cap (sub : Hir)
  | cat (subs : List Hir)
  | alt (subs : List Hir)
deriving Repr

def powRe (r : Re) : Nat → Re
  | 0 => .eps
  | n+1 => mkCat r (powRe r n)

def litRe (bs : List Nat) : Re := bs.foldr (fun b acc => mkCat (.set [(b, b)]) acc) .eps

def seqRe (s : List (Nat × Nat)) : Re := s.foldr (fun r acc => mkCat (.set [r]) acc) .eps

def seqsRe (ss : List (List (Nat × Nat))) : Re := ss.foldr (fun s acc => mkAlt (seqRe s) acc) .empty

mutual
def Hir.hasLook : Hir → Bool
  | .look _ => true
  | .rep _ _ _ s => s.hasLook
  | .cap s => s.hasLook
  | .cat ss => Hir.hasLookL ss
  | .alt ss => Hir.hasLookL ss
  | _ => false
def Hir.hasLookL : List Hir → Bool
  | [] => false
  | h :: t => h.hasLook || Hir.hasLookL t
end

mutual
/-- Lowering of look-free HIR (a look is lowered to ε; callers must check `hasLook`). Greedy and lazy
repetitions denote the same language. -/
def Hir.lower : Hir → Re
  | .empty => .eps
  | .lit bs => litRe bs
  | .cls _ _ seqs => seqsRe seqs
  | .look _ => .eps
  | .rep mn mx _ s =>
    let r := s.lower
    match mx with
    | some m => mkCat (powRe r mn) (powRe (mkAlt .eps r) (m - mn))
    | none => mkCat (powRe r mn) (.star r)
  | .cap s => s.lower
  | .cat ss => Hir.lowerCat ss
  | .alt ss => Hir.lowerAlt ss
def Hir.lowerCat : List Hir → Re
  | [] => .eps
  | h :: t => mkCat h.lower (Hir.lowerCat t)
def Hir.lowerAlt : List Hir → Re
  | [] => .empty
  | h :: t => mkAlt h.lower (Hir.lowerAlt t)
end

/-- number of `char`s of a valid UTF-8 byte string = number of non-continuation bytes -/
def charCount (bs : List Nat) : Nat := (bs.filter fun b => !isCont b).length

mutual
/-- `Pattern::complexity` (logos-codegen/src/pattern.rs): the default priority of a regex. -/
def Hir.complexity : Hir → Nat
  | .empty => 0
  | .lit bs => if validUtf8 bs then 2 * charCount bs else 2 * bs.length
  | .cls _ _ _ => 2
  | .look _ => 0
  | .rep mn _ _ s => mn * s.complexity
  | .cap s => s.complexity
  | .cat ss => Hir.complexitySum ss
  | .alt ss => (Hir.complexityMin ss).getD 0
def Hir.complexitySum : List Hir → Nat
  | [] => 0
  | h :: t => h.complexity + Hir.complexitySum t
def Hir.complexityMin : List Hir → Option Nat
  | [] => none
  | h :: t => match Hir.complexityMin t with
    | none => some h.complexity
    | some m => some (min h.complexity m)
end

end Logos
