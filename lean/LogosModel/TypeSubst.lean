/-!
# Substituting the concrete types of generic parameters (C19: the derive terminates)

`Parser::get_type` (logos-codegen/src/parser/mod.rs) rewrites the type of a variant's field with
`traverse_type` (parser/type_params.rs): the visitor is called on a type first and the traversal then walks into
whatever the type has become.  A path that names a declared type parameter with a concrete type
(`#[logos(type T = ..)]`) is replaced by that type, so the traversal continues *inside the substitute* and replaces
the parameters it finds there in turn.  With `type T = Vec<T>` this never ended (defect D9: rustc died of a stack
overflow); `TypeParams::reject_recursive_types` now reports such items and forgets their types before any field
type is rewritten.

The model: a type is a tree (`RTy`) whose leaves of interest are the paths naming a declared parameter
(`param i`, by position); `getType` is the rewrite with a fuel that is consumed by each *nested* substitution;
`reject` is the depth-first search of `reject_recursive_types` with its explicit stack and `seen` flags.
`TypeSubstProof.getType_total`: after `reject`, the rewrite of every type ends within `env.length` nested
substitutions, for every list of items.
-/
namespace Logos.TypeSubst

mutual
inductive RTy where
  | param (i : Nat)                      -- `Type::Path` without `qself` whose path is the identifier of parameter `i`
  | con (name : String) (kids : RTys)    -- any other type, with the types `traverse_type` visits inside it, in order
inductive RTys where
  | nil
  | cons (t : RTy) (ts : RTys)
end

/-- the concrete type of each declared parameter, in declaration order -/
abbrev Env := List (Option RTy)

/-- `TypeParams::find` -/
def find (env : Env) (i : Nat) : Option RTy :=
  match env[i]? with
  | some (some c) => some c
  | _ => none

mutual
/-- the parameters `traverse_type` meets in a type (the visitor is called on the type itself first) -/
def mentions : RTy → List Nat
  | .param i => [i]
  | .con _ ks => mentionsL ks
def mentionsL : RTys → List Nat
  | .nil => []
  | .cons t ts => mentions t ++ mentionsL ts
end

/-- the parameters met after the root has been replaced: a substitute that is itself the name of a parameter is replaced
again (`TypeParams::substitute` loops; defect D18: as found it stayed as it was - `mapKidsFound`), otherwise the traversal
goes on below the root -/
def kidParams : RTy → List Nat
  | .param j => [j]
  | .con _ ks => mentionsL ks

mutual
/-- `traverse_type` with a visitor that replaces parameter paths (`none`: the visitor ran out of fuel) -/
def mapP (f : Nat → Option RTy) : RTy → Option RTy
  | .param i => f i
  | .con n ks => (mapPL f ks).map (.con n)
def mapPL (f : Nat → Option RTy) : RTys → Option RTys
  | .nil => some .nil
  | .cons t ts =>
    match mapP f t, mapPL f ts with
    | some t', some ts' => some (.cons t' ts')
    | _, _ => none
end

/-- what happens to a substitute: if it is the name of a parameter it is replaced in turn, otherwise the traversal goes on
below its root -/
def mapKids (f : Nat → Option RTy) : RTy → Option RTy
  | .param j => f j
  | .con n ks => (mapPL f ks).map (.con n)

/-- the code as found (D18): a substitute that is itself a bare parameter path has nothing below it and stayed as it was -/
def mapKidsFound (f : Nat → Option RTy) : RTy → Option RTy
  | .param j => some (.param j)
  | .con n ks => (mapPL f ks).map (.con n)

def substAtFound (env : Env) : Nat → Nat → Option RTy
  | 0, i =>
    match find env i with
    | none => some (.param i)
    | some _ => none
  | fuel + 1, i =>
    match find env i with
    | none => some (.param i)
    | some c => mapKidsFound (substAtFound env fuel) c

def getTypeFound (env : Env) (t : RTy) : Option RTy := mapP (substAtFound env env.length) t

/-- the visitor at a parameter path: replace it by its concrete type and go on inside; each nesting costs one fuel -/
def substAt (env : Env) : Nat → Nat → Option RTy
  | 0, i =>
    match find env i with
    | none => some (.param i)
    | some _ => none
  | fuel + 1, i =>
    match find env i with
    | none => some (.param i)
    | some c => mapKids (substAt env fuel) c

/-- `Parser::get_type` (the type part; lifetimes are `TypeItems.fixTy`) -/
def getTypeF (env : Env) (fuel : Nat) (t : RTy) : Option RTy := mapP (substAt env fuel) t

def getType (env : Env) (t : RTy) : Option RTy := getTypeF env env.length t

/-- the generic arguments of the impl header (`TypeParams::generics`): the concrete type of every parameter, rewritten like a
field type (as found - D18 - they were emitted as written: `headerArgsFound`) -/
def headerArgs (env : Env) : List (Option RTy) := env.map fun o => o.bind (getType env)

def headerArgsFound (env : Env) : List (Option RTy) := env

/-! ## `reject_recursive_types` -/

/-- `mentions` of the code: for every parameter the positions of the parameters its concrete type mentions -/
def ment (env : Env) : List (List Nat) :=
  env.map fun
    | none => []
    | some c => mentions c

def row (m : List (List Nat)) (i : Nat) : List Nat := (m[i]?).getD []

/-- the `while let Some(next) = stack.pop()` loop for one `start` (the head of the list is the top of the stack):
`some true` = `start` was popped (reported), `some false` = stack exhausted, `none` = out of fuel -/
def dfs (m : List (List Nat)) (start : Nat) : Nat → List Nat → List Nat → Option Bool
  | 0, _, _ => none
  | _ + 1, [], _ => some false
  | fuel + 1, next :: stack, seen =>
    if next = start then some true
    else if seen.contains next then dfs m start fuel stack seen
    else dfs m start fuel ((row m next).reverse ++ stack) (next :: seen)

def total (m : List (List Nat)) : Nat := (m.map List.length).sum

def fuelFor (m : List (List Nat)) (start : Nat) : Nat := (row m start).length + total m + 1

/-- is the item of parameter `start` reported (and its type forgotten)? -/
def cyclic (m : List (List Nat)) (start : Nat) : Bool :=
  dfs m start (fuelFor m start) (row m start).reverse [] != some false

def rejectFrom (m : List (List Nat)) : Nat → Env → Env
  | _, [] => []
  | k, t :: rest => (if cyclic m k then none else t) :: rejectFrom m (k + 1) rest

/-- the environment after `reject_recursive_types` (the `mentions` table is computed once, before the loop) -/
def reject (env : Env) : Env := rejectFrom (ment env) 0 env

/-- the number of "The concrete type of T refers to T itself" diagnostics -/
def rejectErrs (env : Env) : Nat := ((List.range env.length).filter fun i => cyclic (ment env) i).length

end Logos.TypeSubst
