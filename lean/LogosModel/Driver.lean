import LogosModel.CertCheck
import LogosModel.Callback
import LogosModel.Hir
import LogosModel.Interp
import LogosModel.Utf8Closed
import LogosModel.Equiv
import LogosModel.Priority
import LogosModel.Attr
import LogosModel.Bump
import LogosModel.Strip
import LogosModel.Derive
import LogosModel.Api
import LogosModel.CertP
import LogosModel.FastCheck
import LogosModel.DriverLook
import LogosModel.Emit
import LogosModel.PassesAll
import LogosModel.PassesSide
import LogosModel.FromDfa
import LogosModel.StateType
import LogosModel.Subst
import LogosModel.Calls
import LogosModel.IgnoreGroup
import LogosModel.Assemble
import LogosModel.LogosItems
import LogosModel.Generics
import LogosModel.TypeSubst
import LogosModel.Panic
import LogosModel.Utf8Enc
import LogosModel.Chunked
import LogosModel.Reslice
import LogosModel.CallbackEmit
import LogosModel.PrioritySat
import LogosModel.Look.Utf8ClosedC
import Std.Data.HashMap
import LogosModel.Source
import Std.Data.HashSet
/-!
# Line-protocol driver (untrusted glue: parsing, closure search, printing)
-/
namespace Logos

def pairsOf : List Nat → List (Nat × Nat)
  | a :: b :: t => (a, b) :: pairsOf t
  | _ => []

partial def parseSeqs (i : Nat) (rest : List Nat) (acc : List (List (Nat × Nat))) :
    Option (List (List (Nat × Nat)) × List Nat) :=
  if i = 0 then some (acc.reverse, rest) else
  match rest with
  | len :: rest => parseSeqs (i-1) (rest.drop (2*len)) (pairsOf (rest.take (2*len)) :: acc)
  | [] => none

mutual
partial def parseHir (toks : List Nat) : Option (Hir × List Nat) :=
  match toks with
  | 0 :: rest => some (.empty, rest)
  | 1 :: n :: rest => some (.lit (rest.take n), rest.drop n)
  | 2 :: kind :: nr :: rest =>
    let ranges := pairsOf (rest.take (2 * nr))
    let rest := rest.drop (2 * nr)
    match rest with
    | ns :: rest =>
      match parseSeqs ns rest [] with
      | some (seqs, rest) => some (.cls (kind == 0) ranges seqs, rest)
      | none => none
    | [] => none
  | 3 :: k :: rest => some (.look k, rest)
  | 4 :: mn :: hasmax :: mx :: greedy :: rest =>
    match parseHir rest with
    | some (sub, rest) => some (.rep mn (if hasmax = 1 then some mx else none) (greedy == 1) sub, rest)
    | none => none
  | 5 :: rest =>
    match parseHir rest with
    | some (sub, rest) => some (.cap sub, rest)
    | none => none
  | 6 :: n :: rest =>
    match parseMany n rest [] with
    | some (hs, rest) => some (.cat hs, rest)
    | none => none
  | 7 :: n :: rest =>
    match parseMany n rest [] with
    | some (hs, rest) => some (.alt hs, rest)
    | none => none
  | _ => none

partial def parseMany (i : Nat) (rest : List Nat) (acc : List Hir) : Option (List Hir × List Nat) :=
  if i = 0 then some (acc.reverse, rest) else
  match parseHir rest with
  | some (h, rest) => parseMany (i-1) rest (h :: acc)
  | none => none
end

structure Case where
  name : String := ""
  nodump : Bool := true
  utf8 : Bool := true
  prios : Array Nat := #[]
  kinds : Array Nat := #[]
  names : Array String := #[]
  hirs : Array Hir := #[]
  cbs : Array Nat := #[]
  errCb : Bool := false
  states : Array StateData := #[]
  root : Nat := 0
  gerr : Nat := 0
  /-- the graph before the passes of `Graph::new` (hook lines RAWDEF / RSTATE / REDGE) -/
  rawStates : Array StateData := #[]
  rawRoot : Nat := 0
  hasRaw : Bool := false
  /-- leaves matching in each raw state (hook lines RMATCH) and the graph errors as dumped -/
  rawMatches : Array (Nat × List Nat) := #[]
  /-- the DFA's transition table (hook lines DFADEF / DROW) -/
  dfaRows : Array FromDfa.DRow := #[]
  dfaStart : Nat := 0
  hasDfa : Bool := false
  gerrs : Array (List Nat) := #[]
  /-- viability table of a definition with look-around (`none` = not computed yet) -/
  lookT : Option (Option (List LK.LEntry)) := none
  lookM : Std.HashMap (LK.VecL × LK.Cls) Bool := {}
  /-- caches of the lowered patterns (filled before the first query) -/
  resCache : Option Vec := none
  resLCache : Option LK.VecL := none
deriving Inhabited

def Case.graph (c : Case) : Graph := { states := c.states, root := c.root }
def Case.hasLook (c : Case) : Bool := c.hirs.any (·.hasLook)
def Case.res (c : Case) : Vec := c.resCache.getD (c.hirs.toList.map fun h => norm h.lower)
def Case.resL (c : Case) : LK.VecL := c.resLCache.getD (c.hirs.toList.map fun h => LK.normL (LK.lowerL h))
def Case.looksOK (c : Case) : Bool := c.hirs.all LK.looksOK
def Case.table (c : Case) : Option (List LK.LEntry) := c.lookT.getD none
/-- fill in the table before the first query that needs it -/
def Case.withTable (c : Case) : Case :=
  let c := if c.resCache.isNone then { c with resCache := some c.res } else c
  let c := if c.hasLook && c.resLCache.isNone then { c with resLCache := some c.resL } else c
  if c.hasLook && c.looksOK && !c.nodump && c.lookT.isNone then
    let T := LK.buildTable c.resL 4000
    { c with lookT := some T, lookM := LK.tableMap (T.getD []) }
  else c
def Case.cb (c : Case) : Callbacks := fun l s rem =>
  zooCallback (c.kinds.getD l 1) (c.cbs.getD l 0) s rem

def optOf (i : Int) : Option Nat := if i < 0 then none else some i.toNat

def hexVal (c : Char) : Nat :=
  if c.isDigit then c.toNat - '0'.toNat else c.toNat - 'a'.toNat + 10
def unhex (s : String) : List Nat :=
  if s = "-" then [] else
  let rec go : List Char → Array Nat → Array Nat
    | a :: b :: t, acc => go t (acc.push (hexVal a * 16 + hexVal b))
    | _, acc => acc
  (go s.toList #[]).toList

/-! ## closure search (untrusted) -/

partial def closure (G : Graph) (work : List (Nat × Vec)) (seen : Std.HashSet (Nat × Vec)) (fuel : Nat) :
    Option (Std.HashSet (Nat × Vec)) :=
  match fuel, work with
  | 0, _ => none
  | _, [] => some seen
  | fuel+1, (s, Δ) :: rest =>
    if seen.contains (s, Δ) then closure G rest seen fuel else
    let seen := seen.insert (s, Δ)
    let succs := (List.range 256).filterMap fun b =>
      match (G.get s).next b with
      | some t => some (t, derivV b Δ)
      | none => none
    let succs := succs.eraseDups
    closure G (succs ++ rest) seen fuel

def toCSet (n : Nat) (h : Std.HashSet (Nat × Vec)) : CSet :=
  h.fold (fun (acc : CSet) (p : Nat × Vec) =>
    if p.1 < acc.size then acc.modify p.1 (fun l => p.2 :: l) else acc) (Array.replicate n [])

/-- first failing local condition, for diagnostics (untrusted; the verdict comes from `validB`) -/
def firstBad (G : Graph) (prios : List Nat) (C : CSet) : Option String :=
  (List.range C.size).findSome? fun s =>
    (C.getD s []).findSome? fun Δ =>
      if localB G prios C s Δ then none else
        let sd := G.get s
        let w := win prios Δ
        let badByte := (List.range 256).find? fun b =>
          match sd.next b with
          | some t => !(okAcc G t w && (viableV (derivV b Δ) || (G.get t).accept.isSome) && C.has t (derivV b Δ))
          | none => viableV (derivV b Δ)
        some s!"state={s} win={w} early={sd.early} badbyte={badByte}"

def certVerdict (c : Case) (fuel : Nat) : String :=
  if c.nodump then "NODUMP" else
  if c.gerr > 0 then "GERR" else
  let G := c.graph
  if c.hasLook then
    (if !wfB G then "FAIL wf" else if !c.looksOK then "LOOK" else
      match LK.certVerdictC G c.prios.toList c.resL c.table fuel with
      | "UNKNOWN table" => "LOOK"
      | v => v) else
  let D := c.res
  let prios := c.prios.toList
  if (win prios D).isSome then "NULLABLE" else
  match closure G [(c.root, D)] {} fuel with
  | none => "UNKNOWN fuel"
  | some h =>
    let C := toCSet c.states.size h
    if validB G prios D C then s!"OK {h.size} {c.states.size} {if prefixOKB G C then "P" else "noP"}"
    else if !wfB G then "FAIL wf"
    else s!"FAIL {(firstBad G prios C).getD "?"}"

/-- untrusted search for the closure of `(s0, norm r)` under viable byte steps -/
partial def uclosure (work : List (U × Re)) (seen : Std.HashSet (U × Re)) (fuel : Nat) :
    Option (Std.HashSet (U × Re)) :=
  match fuel, work with
  | 0, _ => none
  | _, [] => some seen
  | fuel+1, (q, x) :: rest =>
    if seen.contains (q, x) then uclosure rest seen fuel else
    let seen := seen.insert (q, x)
    let succs := (List.range 256).filterMap fun b =>
      let x' := derivN b x
      if viable x' then some (ustep q b, x') else none
    uclosure (succs.eraseDups ++ rest) seen fuel

/-- untrusted search for the closure of the start triples under byte steps whose derivative is not empty -/
partial def uclosureC (work : List LK.UEntry) (seen : Std.HashSet LK.UEntry) (fuel : Nat) :
    Option (Std.HashSet LK.UEntry) :=
  match fuel, work with
  | 0, _ => none
  | _, [] => some seen
  | fuel+1, (q, p, x) :: rest =>
    if seen.contains (q, p, x) then uclosureC rest seen fuel else
    let seen := seen.insert (q, p, x)
    let succs := (List.range 256).filterMap fun b =>
      let x' := LK.derivCN p b x
      if x' == .empty then none else some (ustep q b, LK.clsB b, x')
    uclosureC (succs.eraseDups ++ rest) seen fuel

/-- look-around patterns: "1" = proved UTF-8 closed in every context (utf8ClosedCB), "U" = not decided (the check
over-approximates viability, so a failure is not a refutation), "L" = an assertion the model does not cover -/
def utf8VerdictL (h : Hir) : String :=
  if !LK.looksOK h then "L" else
  let r := LK.lowerL h
  match uclosureC (LK.allCls.map fun p => (.s0, p, LK.normL r)) {} 20000 with
  | none => "U"
  | some S => if LK.utf8ClosedCBFast S.toList r then "1" else "U"

/-- "1" = proved UTF-8 closed, "0" = check failed (with the search complete), "U" = search gave up,
look-around patterns: see `utf8VerdictL` -/
def utf8Verdict (h : Hir) : String :=
  if h.hasLook then utf8VerdictL h else
  let r := h.lower
  match uclosure [(.s0, norm r)] {} 20000 with
  | none => "U"
  | some S => if utf8ClosedBFast S.toList r then "1" else "0"

def hexOf (w : List Nat) : String :=
  if w.isEmpty then "-" else
  String.join (w.map fun b =>
    let d := fun (n : Nat) => Char.ofNat (if n < 10 then 48 + n else 87 + n)
    String.ofList [d (b / 16), d (b % 16)])

/-- BFS over derivative vectors looking for a tie; returns (witness?, closure if exhausted) -/
partial def tieSearch (prios : List Nat) (queue : Array (Vec × List Nat)) (i : Nat)
    (seen : Std.HashSet Vec) (fuel : Nat) : Option (List Nat) × Option (Std.HashSet Vec) :=
  if fuel = 0 then (none, none) else
  if h : i < queue.size then
    let (Δ, w) := queue[i]
    if tieAt prios Δ then (some w.reverse, none) else
    let (queue, seen) := (List.range 256).foldl (fun (acc : Array (Vec × List Nat) × Std.HashSet Vec) b =>
      let Δ' := derivV b Δ
      if viableV Δ' && !acc.2.contains Δ' then (acc.1.push (Δ', b :: w), acc.2.insert Δ') else acc) (queue, seen)
    tieSearch prios queue (i+1) seen (fuel - 1)
  else (none, some seen)

/-- BFS for a shortest extension after which some leaf matches (untrusted; used to build inputs) -/
partial def completeSearch (prios : List Nat) (queue : Array (Vec × List Nat)) (i : Nat)
    (seen : Std.HashSet Vec) (fuel : Nat) : Option (List Nat) :=
  if fuel = 0 then none else
  if h : i < queue.size then
    let (Δ, w) := queue[i]
    if (win prios Δ).isSome then some w.reverse else
    let (queue, seen) := (List.range 256).foldl (fun (acc : Array (Vec × List Nat) × Std.HashSet Vec) b =>
      let Δ' := derivV b Δ
      if viableV Δ' && !acc.2.contains Δ' then (acc.1.push (Δ', b :: w), acc.2.insert Δ') else acc) (queue, seen)
    completeSearch prios queue (i+1) seen (fuel - 1)
  else none

def completeAnswer (c : Case) (pre : List Nat) : String :=
  if c.nodump || c.hasLook then "NONE" else
  let Δ := derivsV pre c.res
  match completeSearch c.prios.toList #[(Δ, [])] 0 (({} : Std.HashSet Vec).insert Δ) 3000 with
  | some w => hexOf w
  | none => "NONE"

def tieVerdict (c : Case) : String :=
  if c.nodump then "NODUMP" else
  if c.hasLook then (if c.looksOK then LK.tieVerdictC c.prios.toList c.resL 4000 else "LOOK") else
  let D := c.res
  let prios := c.prios.toList
  match tieSearch prios #[(D, [])] 0 (({} : Std.HashSet Vec).insert D) 100000 with
  | (some w, _) =>
    if tieAt prios (derivsV w D) then
      let ns := nullIdx prios (derivsV w D)
      let mx := ns.foldl (fun m p => max m p.2) 0
      let tops := (ns.filter fun p => p.2 == mx).map fun p => toString p.1
      s!"TIE {hexOf w} {",".intercalate tops}"
    else "BADWITNESS"
  | (none, some S) => if tieFreeBFast S.toList prios D then s!"FREE {S.size}" else "CHECKFAIL"
  | (none, none) => "UNKNOWN"

/-- BFS for a distinguishing string of two regexes -/
partial def eqSearch (queue : Array ((Re × Re) × List Nat)) (i : Nat)
    (seen : Std.HashSet (Re × Re)) (fuel : Nat) : Option (List Nat) × Option (Std.HashSet (Re × Re)) :=
  if fuel = 0 then (none, none) else
  if h : i < queue.size then
    let ((a, b), w) := queue[i]
    if nullable a != nullable b then (some w.reverse, none) else
    let (queue, seen) := (List.range 256).foldl (fun (acc : Array ((Re × Re) × List Nat) × Std.HashSet (Re × Re)) c =>
      let p := (derivN c a, derivN c b)
      if !acc.2.contains p then (acc.1.push (p, c :: w), acc.2.insert p) else acc) (queue, seen)
    eqSearch queue (i+1) seen (fuel - 1)
  else (none, some seen)

def equivVerdict (c : Case) (i j : Nat) (fuel : Nat := 50000) : String :=
  match c.hirs[i]?, c.hirs[j]? with
  | some hi, some hj =>
    if hi.hasLook || hj.hasLook then
      (if LK.looksOK hi && LK.looksOK hj then LK.equivVerdictC (LK.lowerL hi) (LK.lowerL hj) fuel else "LOOK") else
    let r := hi.lower
    let s := hj.lower
    let p0 := (norm r, norm s)
    match eqSearch #[(p0, [])] 0 (({} : Std.HashSet (Re × Re)).insert p0) fuel with
    | (some w, _) => if matchesB r w != matchesB s w then s!"NE {hexOf w} {matchesB r w} {matchesB s w}" else "BADWITNESS"
    | (none, some S) => if equivBFast S.toList r s then s!"EQ {S.size}" else "CHECKFAIL"
    | (none, none) => "UNKNOWN"
  | _, _ => "NOLEAF"

def matchVerdict (c : Case) (i : Nat) (w : List Nat) : String :=
  match c.hirs[i]? with
  | some h =>
    if h.hasLook then
      -- the string alone in the haystack: nothing before, nothing after
      (if LK.looksOK h then (if LK.matchesCB (LK.lowerL h) .none w .none then "1" else "0") else "L")
    else if matchesB h.lower w then "1" else "0"
  | none => "?"

/-! ## stream printing -/

def itemStr (c : Case) : Item → String
  | .ok l s e =>
    let nm := if emitsAlt (c.cbs.getD l 0) then "Alt" else c.names.getD l "?"
    s!"{nm}:{s}-{e}"
  | .err none s e => (if c.errCb then s!"!b{e - s}" else "!d") ++ s!":{s}-{e}"
  | .err (some 0) s e => s!"!d:{s}-{e}"      -- an explicitly returned error equal to the default value
  | .err (some t) s e => s!"!c{t}:{s}-{e}"

def streamStr (c : Case) (r : List Item × Final) : String :=
  let items := " ".intercalate (r.1.map (itemStr c))
  let fin := match r.2 with
    | .done s e => s!".{s}-{e}"
    | .diverge => "DIVERGE"
  if items.isEmpty then fin else items ++ " " ++ fin

def lexStr (c : Case) (isPrefix : Bool) (inp : List Nat) : String :=
  streamStr c (graphLex c.graph isPrefix c.cb c.utf8 inp)

def specStr (c : Case) (inp : List Nat) : String :=
  if c.hasLook then
    (match c.table with
     | some _ => streamStr c (LK.specLexC (LK.oracleFast c.lookM) c.prios.toList c.resL c.cb c.utf8 inp)
     | none => "LOOK") else
  streamStr c (specLex c.prios.toList c.res c.cb c.utf8 inp)

/-- "CALLS": the ordinary stream of the generated lexer followed by the number of callback invocations (`graphCalls`) -/
def callsStr (c : Case) (inp : List Nat) : String :=
  let hasCb := fun l => c.cbs.getD l 0 != 0
  let r := lexAllN (walkAttempt c.graph false inp) c.cb hasCb c.utf8 inp
  streamStr c r.1 ++ s!" #{r.2}"

/-- "SPECCALLS": the same for the reference lexer (`specCalls` / `specCallsC`) -/
def specCallsStr (c : Case) (inp : List Nat) : String :=
  let hasCb := fun l => c.cbs.getD l 0 != 0
  if c.hasLook then
    (match c.table with
     | some _ =>
       let r := lexAllN (LK.scanAttemptC (LK.oracleFast c.lookM) c.prios.toList c.resL inp) c.cb hasCb c.utf8 inp
       streamStr c r.1 ++ s!" #{r.2}"
     | none => "LOOK") else
  let r := lexAllN (scanAttempt c.prios.toList c.res inp) c.cb hasCb c.utf8 inp
  streamStr c r.1 ++ s!" #{r.2}"

def evStr : Ev → String
  | .next p => s!"N{p}"
  | .read o n h => s!"R{o}/{n}" ++ (if h then "+" else "-")
  | .trivia p => s!"T{p}"
  | .end p => s!"E{p}"
  | .endToBoundary a r => s!"B{a}>{r}"

def traceStr (c : Case) (isPrefix : Bool) (inp : List Nat) : String :=
  let r := interpLex c.graph isPrefix c.cb c.utf8 inp
  streamStr c r.1 ++ " | " ++ " ".intercalate (r.2.map evStr)

def specPStr (c : Case) (inp : List Nat) : String :=
  if c.hasLook then
    (match c.table with
     | some _ => streamStr c (LK.specLexPC (LK.oracleFast c.lookM) c.prios.toList c.resL c.cb c.utf8 inp)
     | none => "LOOK") else
  streamStr c (specLexP c.prios.toList c.res c.cb c.utf8 inp)

/-! ## predicted rendering of the generated code (Emit.lean) -/

def cmpStr (c : Emit.Cmp) : String :=
  s!"{c.lo}-{c.hi}" ++ String.join (c.except.map fun e => s!"!{e}")

def condStr : Emit.Cond → String
  | .lut id => s!"L{id}"
  | .chain cs => "C" ++ "|".intercalate (cs.map cmpStr)

def forkStr : Emit.Fork → String
  | .table t => "T" ++ ",".intercalate (t.map fun o => match o with | some s => toString s | none => "-")
  | .chain cs => "M" ++ ";".intercalate (cs.map fun c => s!"{condStr c.1}>{c.2}")

def bitsHex (bs : List Bool) : String :=
  let rec go : List Bool → List Char → List Char
    | a :: b :: c :: d :: t, acc =>
      let v := (if a then 8 else 0) + (if b then 4 else 0) + (if c then 2 else 0) + (if d then 1 else 0)
      go t ((if v < 10 then Char.ofNat (48 + v) else Char.ofNat (87 + v)) :: acc)
    | _, acc => acc
  String.ofList (go bs []).reverse

/-- "EMIT": one item per state `s:loop:fork`, then the look-up tables in id order -/
def emitAnswer (c : Case) : String :=
  if c.nodump then "NODUMP" else
  let p := Emit.planGraph c.graph
  let sts := (List.range p.2.length).map fun i =>
    match p.2[i]? with
    | some sp => s!"{i}:{match sp.loop with | some l => toString l | none => "-"}:{forkStr sp.fork}"
    | none => ""
  " ".intercalate sts ++ " LUTS " ++ " ".intercalate (p.1.map bitsHex)

/-- "PASSES": the model's `Graph::new` passes applied to the raw dump, compared with the final graph -/
def passesAnswer (c : Case) : String :=
  if c.nodump || !c.hasRaw then "NORAW" else
  if c.gerr > 0 then "GERR" else
  let raw : Graph := { states := c.rawStates, root := c.rawRoot }
  let g := Passes.passes raw
  let f := c.graph
  if g.root != f.root then s!"DIFF root model={g.root} code={f.root}" else
  if g.states.size != f.states.size then s!"DIFF size model={g.states.size} code={f.states.size}" else
  match (List.range f.states.size).find? fun i => g.get i != f.get i with
  | some i => s!"DIFF state {i} model={repr (g.get i)} code={repr (f.get i)}"
  | none =>
    let b := fun (x : Bool) => if x then "1" else "0"
    -- side conditions of `passes_matched` / `passes_nomatch` / `passes_eoi` on this raw graph
    s!"SAME {c.rawStates.size} {f.states.size} side={b (Passes.sideOK raw)}"

/-- "FROMDFA": the model's first half of `Graph::new` applied to the dumped DFA table, compared with the raw
graph the code built (states, accepts, edges, end-of-input edges, root) and with the graph errors -/
def fromDfaAnswer (c : Case) : String :=
  if c.nodump || !c.hasRaw || !c.hasDfa then "NODFA" else
  if c.dfaRows.size > 700 then s!"BIG {c.dfaRows.size}" else
  let d : FromDfa.Dfa := { rows := c.dfaRows.toList, start := c.dfaStart }
  let g := FromDfa.rawOf d c.prios.toList
  let b := fun (x : Bool) => if x then "1" else "0"
  if g.root != c.rawRoot then s!"DIFF root model={g.root} code={c.rawRoot}" else
  if g.states.size != c.rawStates.size then s!"DIFF size model={g.states.size} code={c.rawStates.size}" else
  match (List.range g.states.size).find? fun i => g.get i != c.rawStates.getD i {} with
  | some i => s!"DIFF state {i} model={repr (g.get i)} code={repr (c.rawStates.getD i {})}"
  | none => s!"SAME {c.dfaRows.size} {g.states.size} closed={b (FromDfa.closedB d)} rawside={b (Passes.rawSideOK g)}"

def natListLt : List Nat → List Nat → Bool
  | [], [] => false
  | [], _ => true
  | _, [] => false
  | a :: as, b :: bs => a < b || (a == b && natListLt as bs)

/-- "STYPE": `get_state_type` recomputed from the dumped match lists: every raw `accept`, and the list of
`Disambiguation` errors (compared as sorted lists) -/
def stypeAnswer (c : Case) : String :=
  if c.nodump || !c.hasRaw then "NORAW" else
  let prios := c.prios.toList
  let tys := c.rawMatches.toList.map fun (s, ms) => (s, stateType prios ms)
  let badAcc := tys.find? fun (s, ty) =>
    let want := match ty with | .accept l => some l | _ => none
    (c.rawStates.getD s {}).accept != want
  match badAcc with
  | some (s, ty) => s!"DIFF accept state={s} model={repr ty} code={(c.rawStates.getD s {}).accept}"
  | none =>
    let amb := (tys.filterMap fun (_, ty) => match ty with | .ambiguous ls => some ls | _ => none)
    let ambSorted := amb.mergeSort (fun a b => !natListLt b a)
    let code := (c.gerrs.toList.filterMap fun g => match g with | 2 :: ls => some ls | _ => none).mergeSort (fun a b => !natListLt b a)
    if ambSorted == code then s!"SAME {tys.length} {amb.length}"
    else s!"DIFF errors model={ambSorted} code={code}"

def answer (c : Case) (q : List String) : String :=
  match q with
  | ["CERT"] => certVerdict c 200000
  | ["CERT", f] => certVerdict c f.toNat!
  | ["WF"] => if c.nodump then "NODUMP" else if wfB c.graph then "OK" else "FAIL"
  | ["LEX", "n", hex] => lexStr c false (unhex hex)
  | ["LEX", "p", hex] => lexStr c true (unhex hex)
  | ["FEED", cuts, hex] =>
    -- chunked feeding (Chunked.feed): partial lexers over the prefixes of the given lengths, then an ordinary lexer
    streamStr c (feed c.graph c.cb c.utf8 (unhex hex) ((cuts.splitOn ",").filterMap String.toNat?) 0)
  | ["FEEDR", cuts, hex] =>
    -- chunked feeding by re-slicing (Reslice.feedR): partial lexers over the not yet lexed part of each buffer, spans moved
    streamStr c (feedR c.graph c.cb c.utf8 (unhex hex) ((cuts.splitOn ",").filterMap String.toNat?) 0)
  | ["SPEC", hex] => specStr c (unhex hex)
  | ["CALLS", hex] => callsStr c (unhex hex)
  | ["SPECCALLS", hex] => specCallsStr c (unhex hex)
  | ["PSPEC", hex] => specPStr c (unhex hex)
  | ["LEX", "t", hex] => traceStr c false (unhex hex)
  | ["UTF8CLOSED"] => " ".intercalate (c.hirs.toList.map utf8Verdict)
  | ["COMPLETE", hex] => completeAnswer c (unhex hex)
  | ["TIE"] => tieVerdict c
  | ["EMIT"] => emitAnswer c
  | ["PASSES"] => passesAnswer c
  | ["STYPE"] => stypeAnswer c
  | ["FROMDFA"] => fromDfaAnswer c
  | ["EQUIV", i, j] => equivVerdict c i.toNat! j.toNat!
  | ["EQUIV", i, j, f] => equivVerdict c i.toNat! j.toNat! f.toNat!
  | ["MATCH", i, hex] => matchVerdict c i.toNat! (unhex hex)
  | ["UTF8SEQ"] => " ".intercalate (c.hirs.toList.map fun h => if Utf8Enc.hirClassesExact h then "1" else "0")
  | ["CLSOK"] => " ".intercalate (c.hirs.toList.map fun h => if h.clsOK then "1" else "0")
  | ["GREEDY"] => " ".intercalate (c.hirs.toList.map fun h => if h.greedyFixed then "1" else "0")
  | ["PRIO"] => " ".intercalate (c.hirs.toList.map fun h => toString h.complexityS)   -- the code computes in usize, saturating (PrioritySat.complexityS_eq)
  | ["NULLABLE"] => " ".intercalate (c.hirs.toList.map fun h =>
      if h.hasLook then
        (if !LK.looksOK h then "L" else
          let r := LK.lowerL h
          if LK.allCls.any (fun p => LK.allCls.any fun n => LK.nullableC p n r) then "1" else "0")
      else if nullable h.lower then "1" else "0")
  | _ => "BADQ"

/-! ## C18: attribute-argument tokenizer model -/

def attrTok (s : String) : Option Attr.Tok :=
  match s.splitOn ":" with
  | ["i", n] => some (.ident n)
  | ["c"] => some (.punct ',' true)
  | ["e"] => some (.punct '=' true)
  | ["p", n] => some (.punct (Char.ofNat n.toNat!) true)
  | ["j", n] => some (.punct (Char.ofNat n.toNat!) false)
  | ["l", n] => some (.lit n.toNat!)
  | ["g", n] => some (.group n.toNat!)
  | _ => none

def attrErrStr : Attr.Err → String
  | .unexpectedToken => "unexpected"
  | .positionalNotFirst => "positional"
  | .badPriority => "badprio"
  | .dupPriority => "dupprio"
  | .badCallback => "badcb"
  | .dupCallback => "dupcb"
  | .badIgnore => "badignore"
  | .badAllowGreedy => "badgreedy"
  | .dupAllowGreedy => "dupgreedy"
  | .unknownArg _ => "unknown"
  | .expectedForm n => "form-" ++ n

def attrAnswer (flag : String) (toks : List String) : String :=
  let ts := toks.filterMap attrTok
  if ts.length != toks.length then "BADTOK" else
  let d := Attr.parseArgs (flag == "1") ts
  let errs := ",".intercalate (d.errors.map attrErrStr)
  s!"prio={d.priority.isSome} cb={d.callback.isSome} ag={d.allowGreedy.isSome} ign={d.ignoreGroups.length} errs={errs}"

/-! ## C18: the items of `#[logos(...)]` (LogosItems.lean) -/

/-- the oracle the line protocol uses: literal payloads 1000-1999 are string literals, 2000-2999 byte strings, anything
else another literal; a type is a non-empty token list without literals and without `+`; `'a` is a joint `'` and an identifier -/
def itemsOrc (groups : List (Nat × List Attr.Tok)) : LogosItems.Orc :=
  let isTy := fun (ts : List Attr.Tok) => !ts.isEmpty && ts.all fun t => match t with
    | .lit _ => false
    | .punct c _ => c != '+'
    | _ => true
  let lts : List Attr.Tok → List String := fun ts =>
    (ts.zip (ts.drop 1)).filterMap fun (a, b) => match a, b with
      | .punct '\'' _, .ident n => some n
      | _, _ => none
  { groupToks := fun g => (groups.find? (·.1 == g)).map (·.2) |>.getD []
    parseLit := fun ts => match ts with
      | [.lit n] => if 1000 ≤ n && n < 2000 then some 0 else if 2000 ≤ n && n < 3000 then some 1 else some 2
      | _ => none
    parseBool := fun ts => match ts with
      | [.ident "true"] => some true
      | [.ident "false"] => some false
      | _ => none
    isType := isTy
    parseLt := fun ts => match ts with
      | [.ident "none"] => some none
      | [.punct '\'' _, .ident a] => some (some a)
      | _ => none
    parseTy := fun ts => if isTy ts then some (lts ts) else none }

def lerrStr : LogosItems.LErr → String
  | .invalidNested => "invalid"
  | .form n => "form-" ++ n
  | .dup n => "dup-" ++ n
  | .unknown _ => "unknown"
  | .deprecatedSource => "source"
  | .badValue n => "bad-" ++ n
  | .skipGroup => "skipgroup"
  | .arg e => "arg-" ++ attrErrStr e
  | .errUnexpected => "e-unexpected"
  | .errPositional => "e-positional"
  | .errBadCallback => "e-badcb"
  | .errDupCallback => "e-dupcb"
  | .errCallbackForm => "e-cbform"
  | .errUnknownArg _ => "e-unknown"
  | .closureSyntax => "closure-syntax"
  | .closureBody => "closure-body"

def splitOnBar (l : List String) : List (List String) :=
  l.foldr (fun x acc => if x == "|" then [] :: acc else match acc with
    | h :: t => (x :: h) :: t
    | [] => [[x]]) [[]]

/-- "LOGOSITEMS <lifetime params|-> <type params|-> <tokens> {| <group id> <tokens>}" -/
def logosItemsAnswer (args : List String) : String :=
  match args with
  | lts :: tys :: rest =>
    let names := fun (s : String) => if s == "-" then [] else s.splitOn ","
    match splitOnBar rest with
    | top :: groups =>
      let tk := fun (l : List String) => l.filterMap attrTok
      let gs := groups.filterMap fun g => match g with
        | id :: toks => some (id.toNat!, tk toks)
        | [] => none
      let o := itemsOrc gs
      let s := LogosItems.run o (LogosItems.init (names lts) (names tys)) (Attr.allNested true (tk top))
      let b := fun (x : Bool) => if x then "1" else "0"
      let errs := (s.errors.map lerrStr).mergeSort (fun a b => a ≤ b)
      let err := match s.errorTy with | none => "-" | some e => if e.callback then "cb" else "ty"
      let u8 := match s.utf8 with | none => "-" | some v => b v
      s!"acc={b (LogosItems.accepted s)} ret={b s.returned} errs={",".intercalate errs} crate={b s.crate.isSome} error={err} export={b s.exportDir.isSome} extras={b s.extras.isSome} utf8={u8} skips={s.skips.length} subs={",".intercalate (s.subs.map (·.1))} tyerrs={s.ty.errs}"
    | [] => "BADQ"
  | _ => "BADQ"

/-! ## the generics of the generated impl (Generics.lean) -/

/-- "GENERICS <lifetime params|-> <type params|-> {L- | L<name> | T:<param>:<lifetimes separated by .>}" -/
def genericsAnswer (args : List String) : String :=
  match args with
  | lts :: tys :: items =>
    let names := fun (s : String) => if s == "-" then [] else s.splitOn ","
    let its : List TypeItems.Item := items.filterMap fun it =>
      if it == "L-" then some (.lifetime none)
      else if it.startsWith "L" then some (.lifetime (some (it.drop 1).toString))
      else match it.splitOn ":" with
        | ["T", p, ls] => some (.type p (if ls == "" then [] else ls.splitOn "."))
        | _ => none
    let s := TypeItems.runFixed (TypeItems.init (names lts) (names tys)) its
    let ga := (TypeItems.genericArgs s).map fun g => match g with
      | .lt n => "L" ++ n
      | .ty t => "T" ++ ".".intercalate t
    s!"src={TypeItems.sourceLt s} bounds={",".intercalate (TypeItems.bounds s)} generics={",".intercalate ga} errs={s.errs} herrs={TypeItems.headerErrs s}"
  | _ => "BADQ"

/-! ## C14 / C15: a call of `next` whose callback panics (Panic.lean) -/

/-- "CPANIC <hexsrc> <nexts>": `nexts` calls of next, then one call in which every callback invocation panics;
answers what that call did and the span afterwards -/
def cpanicAnswer (c : Case) (hexsrc nexts : String) : String :=
  let src := unhex hexsrc
  let att := walkAttempt c.graph false src
  let fuel := src.length + 2
  let rec warm (k : Nat) (pos : Nat) : Option Nat :=
    match k with
    | 0 => some pos
    | k + 1 => match nextLoop att c.cb c.utf8 src fuel pos with
      | .item it => warm k it.stop
      | .none _ e => warm k e
      | .diverge => none
  match warm nexts.toNat! 0 with
  | none => "DIVERGE"
  | some pos =>
    match nextLoopP att c.cb (fun l _ _ => c.cbs.getD l 0 != 0) c.utf8 src fuel pos with
    | .panic s e => s!"panic {s} {e}"
    | .res (.item it) => s!"item {it.start} {it.stop}"
    | .res (.none s e) => s!"none {s} {e}"
    | .res .diverge => "DIVERGE"

/-! ## C19: substitution of concrete types (TypeSubst) -/

/-- a type in prefix notation: `p<i>` a parameter, `c<name>/<k>` a constructor with `k` kids -/
def parseRTy : Nat → List String → Option (TypeSubst.RTy × List String)
  | 0, _ => none
  | _, [] => none
  | fuel + 1, t :: rest =>
    if t.startsWith "p" then some (.param (t.drop 1).toString.toNat!, rest)
    else match (t.drop 1).toString.splitOn "/" with
      | [name, k] =>
        let rec kids (n : Nat) (toks : List String) : Option (TypeSubst.RTys × List String) :=
          match n with
          | 0 => some (.nil, toks)
          | n + 1 => match parseRTy fuel toks with
            | none => none
            | some (t, toks') => match kids n toks' with
              | none => none
              | some (ts, toks'') => some (.cons t ts, toks'')
        match kids k.toNat! rest with
        | some (ks, rest') => some (.con name ks, rest')
        | none => none
      | _ => none

mutual
def showRTy : TypeSubst.RTy → List String
  | .param i => [s!"p{i}"]
  | .con n ks => let r := showRTys ks; s!"c{n}/{r.1}" :: r.2
def showRTys : TypeSubst.RTys → Nat × List String
  | .nil => (0, [])
  | .cons t ts => let r := showRTys ts; (r.1 + 1, showRTy t ++ r.2)
end

/-- "CBEMIT tok tok ..": the token tree of an inline callback body (`i:NAME`, `p:<char code>`, `l`, `(` .. `)`);
answer: how the repaired / the original generator emits it -/
partial def parseCToks : List String → CallbackEmit.CToks × List String
  | [] => (.nil, [])
  | ")" :: rest => (.nil, rest)
  | "(" :: rest =>
    let (inner, rest1) := parseCToks rest
    let (tl, rest2) := parseCToks rest1
    (.cons (.group inner) tl, rest2)
  | t :: rest =>
    let tok : CallbackEmit.CTok :=
      if t.startsWith "i:" then .ident (t.drop 2).toString
      else if t.startsWith "p:" then .punct (Char.ofNat ((t.drop 2).toString.toNat?.getD 0))
      else .lit
    let (tl, rest1) := parseCToks rest
    (.cons tok tl, rest1)

def cbEmitAnswer (args : List String) : String :=
  let body := (parseCToks args).1
  let sh := fun (e : CallbackEmit.Emitted) => match e with | .pasted => "pasted" | .closureCall => "closure"
  let vd := match CallbackEmit.headFixed body with | .accepted => "accepted" | .refused => "refused"
  s!"fixed={sh (CallbackEmit.emitFixed body)} found={sh (CallbackEmit.emitFound body)} verdict={vd}"

/-- "TYSUBST <entry> ; <entry> ... # <field> ; <field> ..." with an entry `-` (no item) or a type in prefix notation -/
def tysubstAnswer (args : List String) : String :=
  let joined := " ".intercalate args
  match joined.splitOn " # " with
  | [envS, fieldsS] =>
    let parse := fun (x : String) =>
      let toks := (x.splitOn " ").filter (· != "")
      if toks == ["-"] then some none
      else match parseRTy 64 toks with
        | some (t, []) => some (some t)
        | _ => none
    let envO := (envS.splitOn " ; ").map parse
    let fieldsO := (fieldsS.splitOn " ; ").map parse
    if envO.any (·.isNone) || fieldsO.any (·.isNone) then "BADQ" else
    let env : TypeSubst.Env := envO.map fun x => x.getD none
    let cyc := (List.range env.length).filter fun i => TypeSubst.cyclic (TypeSubst.ment env) i
    let env' := TypeSubst.reject env
    let outs := fieldsO.map fun f => match f with
      | some (some t) => match TypeSubst.getType env' t with
        | some r => " ".intercalate (showRTy r)
        | none => "NOFUEL"
      | _ => "BAD"
    s!"cyc={",".intercalate (cyc.map toString)} types={" ; ".intercalate outs}"
  | _ => "BADQ"

/-! ## C15 / C05: library-level models -/

def bumpAnswer (mode hexsrc st en n : String) : String :=
  let src := unhex hexsrc
  let isB : Nat → Bool := if mode == "s" then isBoundary src else isBBytes src.length
  match bumpFixed isB ⟨st.toNat!, en.toNat!⟩ n.toNat! with
  | .ok s => s!"ok {s.start} {s.stop}"
  | .panic s => s!"panic {s.start} {s.stop}"

def readAnswer (hexsrc off size : String) : String :=
  let src := unhex hexsrc
  let n := if size.toNat! == 0 then 1 else size.toNat!
  let a := readChunk src off.toNat! n
  let b := readSafe src off.toNat! n
  if a != b then "MODELDIFF" else
  match a with
  | some c => s!"some:{hexOf c}"
  | none => "none"

/-! ## C17: derive-list rewrite and CLI write/check models -/

def stripTok (s : String) : Option Strip.Tok :=
  match s.splitOn ":" with
  | ["i", n] => some (.ident n)
  | ["c"] => some .comma
  | ["p", n] => some (.punct (Char.ofNat n.toNat!))
  | ["o", n] => some (.other n.toNat!)
  | _ => none

def stripTokStr : Strip.Tok → String
  | .ident n => "i:" ++ n
  | .comma => "c"
  | .punct c => s!"p:{c.toNat}"
  | .other n => s!"o:{n}"

def stripAnswer (toks : List String) : String :=
  let ts := toks.filterMap stripTok
  if ts.length != toks.length then "BADTOK" else
  " ".intercalate ((Strip.stripFixed ts).map stripTokStr)

def strOfHex (h : String) : List Char := (String.fromUTF8! (ByteArray.mk ((unhex h).map fun (n : Nat) => n.toUInt8).toArray)).toList

def cliAnswer (check file output : String) : String :=
  -- a file that is not valid UTF-8: the tool stops with an error, the file stays (Strip.cliRunFile, `unreadable`)
  if file != "none" && (String.fromUTF8? (ByteArray.mk ((unhex file).map fun (n : Nat) => n.toUInt8).toArray)).isNone then
    (match Strip.cliRunFile (.unreadable (unhex file)) (strOfHex output) (check == "1") with
     | (_, .unreadable b) => s!"failed {hexOf b}"
     | _ => "MODELBUG") else
  let f : Option (List Char) := if file == "none" then none else some (strOfHex file)
  let r := Strip.cliRun f (strOfHex output) (check == "1")
  let st := match r.1 with | .ok => "ok" | .failed => "failed"
  let fs := match r.2 with
    | none => "none"
    | some c => hexOf ((String.ofList c).toUTF8.toList.map fun (b : UInt8) => b.toNat)
  s!"{st} {fs}"

/-! ## C14: API histories -/

def parseOps : List String → List ApiOp
  | "next" :: i :: rest => .next i.toNat! :: parseOps rest
  | "snext" :: i :: rest => .snext i.toNat! :: parseOps rest
  | "bump" :: i :: n :: rest => .bump i.toNat! n.toNat! :: parseOps rest
  | "clone" :: i :: rest => .clone i.toNat! :: parseOps rest
  | "morph" :: i :: rest => .morph i.toNat! :: parseOps rest
  | "fresh" :: p :: k :: rest => .fresh (p == "1") k.toNat! :: parseOps rest
  | "clonefrom" :: i :: j :: rest => .cloneFrom i.toNat! j.toNat! :: parseOps rest
  | _ :: rest => parseOps rest
  | [] => []

def lexStStr (st : LexSt) : String :=
  s!"{if st.ty == 0 then "A" else "B"}:{st.start}-{st.stop}:x{st.extras}:s{st.srcId}"

def nextResStr (c : Case) : NextRes → String
  | .item (.ok l _ _) => c.names.getD l "?"
  | .item (.err _ _ _) => "Err"
  | .none _ _ => "None"
  | .diverge => "DIVERGE"

def apiAnswer (ca cb : Case) (src : List Nat) (isPrefix : Bool) (ops : List ApiOp) : String :=
  -- the second source of the harness: "é" ++ src ++ " zz9" (longer, with its char boundaries shifted by one)
  let env : ApiEnv := { gA := ca.graph, gB := cb.graph, cbA := ca.cb, cbB := cb.cb, src := src, src2 := [0xC3, 0xA9] ++ src ++ [0x20, 0x7A, 0x7A, 0x39],
                        isPrefix := isPrefix, utf8 := ca.utf8 }
  let rec go (pool : List LexSt) (ops : List ApiOp) (acc : List String) : List String :=
    match ops with
    | [] => acc.reverse
    | op :: rest =>
      let r := apiStep env pool op
      let st := r.1.getD r.2.1 ⟨0, 0, 0, 0, false, 0⟩
      let cse := if st.ty == 0 then ca else cb
      let pre := match r.2.2 with
        | .item x =>
          -- the item was produced by the lexer's type *before* the call (same as after: next does not morph)
          nextResStr cse x
        | .spanned x sp =>
          (match x, sp with
           | .item _, some (a, b) => s!"{nextResStr cse x}@{a}-{b}"
           | _, _ => nextResStr cse x)
        | .bumped ok => if ok then "ok" else "panic"
        | .cloned => "clone"
        | .morphed => "morph"
        | .made => "fresh"
        | .clonedFrom => "clonefrom"
        | .noLexer => "nolexer"
      go r.1 rest (s!"{pre}={lexStStr st}" :: acc)
  " ".intercalate (go [⟨0, 0, 0, 7, isPrefix, 0⟩] ops [])

/-! ## The text pipeline (`Subst.lean`): the predicted calls of `Pattern::compile` -/

def litOf (kind hex : String) : Subst.Lit :=
  if kind == "b" then .bytes (unhex hex) else .str (unhex hex)

/-- arguments: `sub:<name hex>:<s|b>:<value hex>` and `item:<r|t>:<s|b>:<0|1>:<value hex>`, in source order
(skips before variants); answer: one `unicode icase hex` triple per predicted call, `;`-separated -/
def textpipeAnswer (args : List String) : String :=
  let subs := args.filterMap fun a => match a.splitOn ":" with
    | ["sub", n, k, v] => some ({ name := unhex n, lit := litOf k v } : Subst.SubDef)
    | _ => none
  let items := args.filterMap fun a => match a.splitOn ":" with
    | ["item", "r", k, ic, v] => some (Subst.Item.regex (litOf k v) (ic == "1"))
    | ["item", "t", k, ic, v] => some (Subst.Item.token (litOf k v) (ic == "1"))
    | _ => none
  let calls := Subst.compileCalls (fun _ => true) subs items
  let b := Subst.build (fun _ => true) subs
  s!"errs={b.errs} " ++ ";".intercalate (calls.map fun c =>
    s!"{if c.unicode then 1 else 0} {if c.icase then 1 else 0} {hexOf c.src}")

/-- "ASSEMBLE": `s:<prio|->:<cb>` per skip, then `v:<name>:<u|t<n>|n>` opening a variant and `a:<t|r>:<prio|->:<cb>:<litlen>` per
attribute of it; answer: one `kind prio cb name` per leaf (`kind` 0 skip / 1 unit / 2 value, `prio` a number or `?` for the
complexity of the compiled regex) and the number of shape diagnostics -/
def assembleAnswer (args : List String) : String :=
  let optN (s : String) : Option Nat := if s == "-" then none else s.toNat?
  let skips := args.filterMap fun a => match a.splitOn ":" with
    | ["s", p, cb] => some ({ prio := optN p, cb := cb == "1" } : Assemble.Skip)
    | _ => none
  let vars := args.foldl (fun (acc : List Assemble.Variant) a => match a.splitOn ":" with
    | ["v", name, sh] =>
      let shape : Assemble.Shape := if sh == "u" then .unit else if sh == "n" then .named else .tuple ((sh.drop 1).toNat!)
      acc ++ [{ name := name, shape := shape, attrs := [] }]
    | ["a", k, p, cb, ll] =>
      match acc.reverse with
      | v :: rest => (({ v with attrs := v.attrs ++ [{ kind := if k == "t" then .token else .regex, prio := optN p, cb := cb == "1", litLen := ll.toNat! }] }) :: rest).reverse
      | [] => acc
    | _ => acc) []
  let r := Assemble.assemble skips vars
  let leafStr (l : Assemble.Leaf) : String :=
    let (k, n) := match l.kind with | .skip => ("0", "_") | .unit n => ("1", n) | .value n => ("2", n)
    let p := match l.prio with | .explicit n => toString n | .token n => toString n | .complexity => "?"
    s!"{k} {p} {if l.cb then 1 else 0} {n}"
  s!"errs={r.2} " ++ ";".intercalate (r.1.map leafStr)

/-- "IGNOREGRP": tokens `i:<ident>`, `c` (comma), `o` (anything else) of an `ignore(...)` group -/
def ignoreGrpAnswer (toks : List String) : String :=
  let ts := toks.map fun t => match t.splitOn ":" with
    | ["i", n] => IgnoreGroup.GTok.ident n
    | ["c"] => .comma
    | _ => .other 0
  let r := IgnoreGroup.parseGroup ts
  s!"flag={if r.ignoreCase then 1 else 0} errs={r.errs}"

partial def run (h : IO.FS.Stream) (out : IO.FS.Stream) (cur : Case) (tbl : Std.HashMap String Case := {}) : IO Unit := do
  let line ← h.getLine
  if line.isEmpty then return ()
  let toks := (line.trimAscii.toString.splitOn " ").filter (· ≠ "")
  match toks with
  | "CASE" :: n :: _ => run h out { name := n } (tbl.insert cur.name cur)
  | "DEF" :: u :: _ :: _ :: r :: _ => run h out { cur with nodump := false, root := r.toNat!, utf8 := u == "1" } tbl
  | "LEAF" :: _ :: p :: k :: _ :: name :: _ =>
    run h out { cur with prios := cur.prios.push p.toNat!, kinds := cur.kinds.push k.toNat!,
                         names := cur.names.push name, cbs := cur.cbs.push 0 } tbl
  | "HIR" :: _ :: rest =>
    let nums := rest.map String.toNat!
    match parseHir nums with
    | some (hir, _) => run h out { cur with hirs := cur.hirs.push hir } tbl
    | none => run h out { cur with hirs := cur.hirs.push (.look 999) } tbl
  | "STATE" :: _ :: e :: a :: eoi :: _ =>
    let sd : StateData := { early := optOf (e.toInt?.getD 0), accept := optOf (a.toInt?.getD 0), eoi := optOf (eoi.toInt?.getD 0) }
    run h out { cur with states := cur.states.push sd } tbl
  | "EDGE" :: s :: t :: _ :: rest =>
    let e : Edge := { ranges := pairsOf (rest.map String.toNat!), target := t.toNat! }
    run h out { cur with states := cur.states.modify s.toNat! fun sd => { sd with normal := sd.normal ++ [e] } } tbl
  | "GERR" :: rest => run h out { cur with gerr := cur.gerr + 1, gerrs := cur.gerrs.push (rest.map String.toNat!) } tbl
  | "RMATCH" :: s :: rest => run h out { cur with rawMatches := cur.rawMatches.push (s.toNat!, rest.map String.toNat!) } tbl
  | "DFADEF" :: _ :: st :: _ => run h out { cur with hasDfa := true, dfaStart := st.toNat! } tbl
  | "DROW" :: id :: eoi :: nm :: rest =>
    let nm := nm.toNat!
    let ms := (rest.take nm).map String.toNat!
    let runs := pairsOf (((rest.drop nm).drop 1).map String.toNat!)
    let next := runs.flatMap fun (t, len) => List.replicate len t
    run h out { cur with dfaRows := cur.dfaRows.push { id := id.toNat!, next := next, eoi := eoi.toNat!, matching := ms } } tbl
  | "RAWDEF" :: _ :: r :: _ => run h out { cur with hasRaw := true, rawRoot := r.toNat! } tbl
  | "RSTATE" :: _ :: a :: eoi :: _ =>
    let sd : StateData := { accept := optOf (a.toInt?.getD 0), eoi := optOf (eoi.toInt?.getD 0) }
    run h out { cur with rawStates := cur.rawStates.push sd } tbl
  | "REDGE" :: s :: t :: _ :: rest =>
    let e : Edge := { ranges := pairsOf (rest.map String.toNat!), target := t.toNat! }
    run h out { cur with rawStates := cur.rawStates.modify s.toNat! fun sd => { sd with normal := sd.normal ++ [e] } } tbl
  | "CB" :: i :: k :: _ => run h out { cur with cbs := cur.cbs.setIfInBounds i.toNat! k.toNat! } tbl
  | "ERRCB" :: v :: _ => run h out { cur with errCb := v == "1" } tbl
  | ["Q", "BUMP", mode, hexsrc, st, en, n] =>
    out.putStrLn s!"{cur.name} BUMP {mode} {hexsrc} {st} {en} {n} : {bumpAnswer mode hexsrc st en n}"
    run h out cur tbl
  | ["Q", "READ", hexsrc, off, size] =>
    out.putStrLn s!"{cur.name} READ {hexsrc} {off} {size} : {readAnswer hexsrc off size}"
    run h out cur tbl
  | "Q" :: "API" :: a :: b :: hexsrc :: pfx :: ops =>
    let tbl' := tbl.insert cur.name cur
    let ans := match tbl'.get? a, tbl'.get? b with
      | some ca, some cb => apiAnswer ca cb (unhex hexsrc) (pfx == "1") (parseOps ops)
      | _, _ => "NOCASE"
    out.putStrLn s!"{cur.name} API {a} {b} {hexsrc} {pfx} {" ".intercalate ops} : {ans}"
    run h out cur tbl
  | "Q" :: "STRIPDERIVE" :: toks =>
    out.putStrLn s!"{cur.name} STRIPDERIVE {" ".intercalate toks} : {stripAnswer toks}"
    run h out cur tbl
  | ["Q", "CLI", check, file, output] =>
    out.putStrLn s!"{cur.name} CLI {check} {file} {output} : {cliAnswer check file output}"
    run h out cur tbl
  | "Q" :: "TEXTPIPE" :: args =>
    out.putStrLn s!"{cur.name} TEXTPIPE {" ".intercalate args} : {textpipeAnswer args}"
    run h out cur tbl
  | "Q" :: "ASSEMBLE" :: args =>
    out.putStrLn s!"{cur.name} ASSEMBLE {" ".intercalate args} : {assembleAnswer args}"
    run h out cur tbl
  | "Q" :: "IGNOREGRP" :: toks =>
    out.putStrLn s!"{cur.name} IGNOREGRP {" ".intercalate toks} : {ignoreGrpAnswer toks}"
    run h out cur tbl
  | ["Q", "CPANIC", hexsrc, nexts] =>
    out.putStrLn s!"{cur.name} CPANIC {hexsrc} {nexts} : {cpanicAnswer cur hexsrc nexts}"
    run h out cur tbl
  | "Q" :: "CBEMIT" :: args =>
    out.putStrLn s!"{cur.name} CBEMIT {" ".intercalate args} : {cbEmitAnswer args}"
    run h out cur tbl
  | "Q" :: "TYSUBST" :: args =>
    out.putStrLn s!"{cur.name} TYSUBST {" ".intercalate args} : {tysubstAnswer args}"
    run h out cur tbl
  | "Q" :: "GENERICS" :: args =>
    out.putStrLn s!"{cur.name} GENERICS {" ".intercalate args} : {genericsAnswer args}"
    run h out cur tbl
  | "Q" :: "LOGOSITEMS" :: args =>
    out.putStrLn s!"{cur.name} LOGOSITEMS {" ".intercalate args} : {logosItemsAnswer args}"
    run h out cur tbl
  | "Q" :: "ATTR" :: flag :: toks =>
    out.putStrLn s!"{cur.name} ATTR {flag} {" ".intercalate toks} : {attrAnswer flag toks}"
    run h out cur tbl
  | "Q" :: q =>
    let cur := cur.withTable
    out.putStrLn s!"{cur.name} {" ".intercalate q} : {answer cur q}"
    run h out cur tbl
  | _ => run h out cur tbl

end Logos
