import LogosModel.NormProof
import LogosModel.Utf8
/-!
# Deciding that a pattern can only match valid UTF-8 (C04, C12)

`utf8ClosedB S r`: `S` is a set of pairs (state of the UTF-8 framing automaton, derivative of `r`)
containing the start pair and closed under byte steps that keep the regex satisfiable, in which every
nullable regex sits in the automaton's boundary state.  Then every string matched by `r` is valid
UTF-8.  `S` comes from an untrusted search; the checker is proved sound here.
-/
namespace Logos

/-- all byte ranges of the regex stay below 256 -/
def bytesOK : Re → Bool
  | .set rs => rs.all fun (_, hi) => decide (hi < 256)
  | .cat a b => bytesOK a && bytesOK b
  | .alt a b => bytesOK a && bytesOK b
  | .star a => bytesOK a
  | _ => true

theorem matches_star_mono {a a' : Re} (h : ∀ w, Matches a' w → Matches a w) {w : List Nat}
    (hm : Matches (.star a') w) : Matches (.star a) w := by
  generalize hr : Re.star a' = r at hm
  induction hm with
  | starNil => exact .starNil
  | starCons h1 hne _ _ ih2 =>
    cases hr
    exact .starCons (h _ h1) hne (ih2 rfl)
  | eps => cases hr
  | set _ => cases hr
  | cat _ _ => cases hr
  | altL _ => cases hr
  | altR _ => cases hr

theorem matches_norm (r : Re) (w : List Nat) : Matches (norm r) w ↔ Matches r w := by
  induction r generalizing w with
  | empty => simp [norm]
  | eps => simp [norm]
  | set rs => simp [norm]
  | cat a b iha ihb =>
    simp only [norm]
    rw [matches_mkCatN, matches_cat_iff, matches_cat_iff]
    constructor
    · rintro ⟨u, v, rfl, h1, h2⟩; exact ⟨u, v, rfl, (iha u).1 h1, (ihb v).1 h2⟩
    · rintro ⟨u, v, rfl, h1, h2⟩; exact ⟨u, v, rfl, (iha u).2 h1, (ihb v).2 h2⟩
  | alt a b iha ihb =>
    simp only [norm]
    rw [matches_mkAltN, iha, ihb]
    constructor
    · rintro (h | h); exact .altL h; exact .altR h
    · intro h; cases h with
      | altL h => exact .inl h
      | altR h => exact .inr h
  | star a iha =>
    simp only [norm]
    exact ⟨matches_star_mono fun w => (iha w).1, matches_star_mono fun w => (iha w).2⟩

theorem bytesOK_matches {r : Re} (h : bytesOK r = true) {w : List Nat} (hm : Matches r w) :
    ∀ b ∈ w, b < 256 := by
  induction hm with
  | eps => simp
  | @set rs b hb =>
    simp only [inRanges, List.any_eq_true] at hb
    obtain ⟨⟨lo, hi⟩, hmem, hle⟩ := hb
    simp only [bytesOK, List.all_eq_true] at h
    have := h _ hmem
    simp at this hle
    intro c hc
    simp at hc
    omega
  | cat _ _ ih1 ih2 =>
    simp only [bytesOK, Bool.and_eq_true] at h
    intro c hc
    rcases List.mem_append.1 hc with hc | hc
    · exact ih1 h.1 c hc
    · exact ih2 h.2 c hc
  | altL _ ih =>
    simp only [bytesOK, Bool.and_eq_true] at h
    exact ih h.1
  | altR _ ih =>
    simp only [bytesOK, Bool.and_eq_true] at h
    exact ih h.2
  | starNil => simp
  | starCons _ _ _ ih1 ih2 =>
    intro c hc
    rcases List.mem_append.1 hc with hc | hc
    · exact ih1 (by simpa [bytesOK] using h) c hc
    · exact ih2 h c hc

def stepOK (S : List (U × Re)) (q : U) (x : Re) : Bool :=
  (!nullable x || q == .s0) &&
  (List.range 256).all fun b =>
    !viable (derivN b x) || S.contains (ustep q b, derivN b x)

def utf8ClosedB (S : List (U × Re)) (r : Re) : Bool :=
  bytesOK r && S.contains (.s0, norm r) && S.all fun p => stepOK S p.1 p.2

theorem utf8Closed_run {S : List (U × Re)} (hall : ∀ p ∈ S, stepOK S p.1 p.2 = true) :
    ∀ (w : List Nat) {q : U} {x : Re}, (q, x) ∈ S → (∀ b ∈ w, b < 256) → Matches x w →
      urun q w = .s0 := by
  intro w
  induction w with
  | nil =>
    intro q x hmem _ hm
    have hs := hall _ hmem
    simp only [stepOK, Bool.and_eq_true] at hs
    have hn : nullable x = true := (nullable_iff x).2 hm
    have := hs.1
    simp [hn] at this
    simpa [urun] using this
  | cons b w ih =>
    intro q x hmem hlt hm
    have hs := hall _ hmem
    simp only [stepOK, Bool.and_eq_true, List.all_eq_true] at hs
    have hb : b < 256 := hlt b (by simp)
    have hd : Matches (derivN b x) w := (derivN_correct b x w).2 hm
    have hvi : viable (derivN b x) = true := (viable_iff _).2 ⟨w, hd⟩
    have h2 := hs.2 b (List.mem_range.2 hb)
    simp [hvi] at h2
    rw [urun_cons]
    exact ih h2 (fun c hc => hlt c (by simp [hc])) hd

/-- **Soundness of the UTF-8 closure check.** -/
theorem utf8ClosedB_sound {S : List (U × Re)} {r : Re} (h : utf8ClosedB S r = true) :
    ∀ w, Matches r w → validUtf8 w = true := by
  simp only [utf8ClosedB, Bool.and_eq_true, List.all_eq_true] at h
  obtain ⟨⟨hbytes, hstart⟩, hall⟩ := h
  intro w hm
  have hlt := bytesOK_matches hbytes hm
  have hstart' : (U.s0, norm r) ∈ S := by simpa using hstart
  have := utf8Closed_run hall w hstart' hlt ((matches_norm r w).2 hm)
  simp [validUtf8, this]

end Logos
