import LogosModel.FromDfa
import LogosModel.PassesSide
/-!
# The raw graph is the DFA (theorems about `FromDfa.rawOf`)

For every DFA table that is complete for the collected states (`closedB`, decidable, evaluated on every
dump) and every byte below 256:

* `rawOf_next`: the raw graph's transition function on the state numbered `idx id` is the DFA's
  `next_state`, the dead state meaning "no edge";
* `rawOf_eoi`, `rawOf_accept`, `rawOf_early`: the end-of-input edge, the recorded leaf and the absence
  of early marks;
* `rawOf_edgesDisjoint`, `rawOf_refsInside`, `rawOf_noEarly`: three of the side conditions of the pass
  theorems (`Passes.rawSideOK`) hold by construction of the raw graph, for every DFA;
* `rawOf_walk`: a walk of the raw graph *is* a run of the DFA (`dfaWalk`, written over state ids with the
  one-byte-delayed match recording of regex-automata's match states), hence with the pass theorems
  `fromDfa_matched` / `fromDfa_nomatch` / `fromDfa_eoi`: what the final graph does on an input is what
  the DFA does, tokens the same, error spans no longer.
-/
namespace Logos.FromDfa
open Logos Logos.Passes

/-! ### byte classes -/

theorem classFor_sem (p : Nat → Bool) (x : Nat) :
    inRanges (classFor p) x = (decide (x < 256) && p x) := by
  unfold classFor
  have := (Emit.fold_inv p 256).2 x
  rw [← this]
  simp only [inRanges, List.any_reverse]

/-! ### the numbering -/

theorem idx_lt {S : List Nat} {id : Nat} (h : id ∈ S) : S.idxOf id < S.length :=
  List.idxOf_lt_length_iff.2 h

theorem get_idx {S : List Nat} {id : Nat} (h : id ∈ S) : S[S.idxOf id]? = some id := by
  have hl := idx_lt h
  rw [List.getElem?_eq_getElem hl, List.getElem_idxOf hl]

theorem idx_inj {S : List Nat} {a b : Nat} (ha : a ∈ S) (hb : b ∈ S) (h : S.idxOf a = S.idxOf b) : a = b := by
  have h1 := get_idx ha
  have h2 := get_idx hb
  rw [h] at h1
  rw [h1] at h2
  exact Option.some.inj h2

/-! ### completeness of the table -/

structure Closed (d : Dfa) : Prop where
  start : d.start ∈ getStates d
  row : ∀ id ∈ getStates d, ∃ r, d.row id = some r ∧ r.next.length = 256 ∧
    (∀ x ∈ r.next, x ∈ getStates d) ∧ r.eoi ∈ getStates d

theorem closedB_sound {d : Dfa} (h : closedB d = true) : Closed d := by
  simp only [closedB, Bool.and_eq_true, List.all_eq_true, List.contains_iff_mem] at h
  refine ⟨h.1, fun id hid => ?_⟩
  have := h.2 id hid
  cases hr : d.row id with
  | none => rw [hr] at this; simp at this
  | some r =>
    rw [hr] at this
    simp only [Bool.and_eq_true, beq_iff_eq, List.all_eq_true, List.contains_iff_mem] at this
    exact ⟨r, rfl, this.1.1, this.1.2, this.2⟩

theorem Closed.next_mem {d : Dfa} (hc : Closed d) {id b : Nat} (hid : id ∈ getStates d) (hb : b < 256) :
    d.nextId id b ∈ getStates d := by
  obtain ⟨r, hr, hl, hn, _⟩ := hc.row id hid
  simp only [Dfa.nextId, hr]
  rw [List.getD_eq_getElem?_getD, List.getElem?_eq_getElem (by omega)]
  exact hn _ (List.getElem_mem _)

theorem Closed.eoi_mem {d : Dfa} (hc : Closed d) {id : Nat} (hid : id ∈ getStates d) :
    d.eoiId id ∈ getStates d := by
  obtain ⟨r, hr, _, _, he⟩ := hc.row id hid
  simp only [Dfa.eoiId, hr]
  exact he

/-! ### one state -/

theorem targets_getD (d : Dfa) (idx : Nat → Nat) (id b : Nat) (hb : b < 256) :
    (targets d idx id).getD b none = if d.nextId id b == 0 then none else some (idx (d.nextId id b)) := by
  simp only [targets, List.getD_eq_getElem?_getD, List.getElem?_map, List.getElem?_range hb, Option.map_some,
    Option.getD_some]

theorem targets_length (d : Dfa) (idx : Nat → Nat) (id : Nat) : (targets d idx id).length = 256 := by
  simp [targets]

theorem mem_edgesOf {n : Nat} {tg : List (Option Nat)} {e : Edge} :
    e ∈ edgesOf n tg ↔ ∃ t, t < n ∧ some t ∈ tg ∧
      e = { ranges := classFor (fun b => tg.getD b none == some t), target := t } := by
  simp only [edgesOf, List.mem_map, List.mem_filter, List.mem_range, List.contains_iff_mem]
  constructor
  · rintro ⟨t, ⟨h1, h2⟩, rfl⟩; exact ⟨t, h1, h2, rfl⟩
  · rintro ⟨t, h1, h2, rfl⟩; exact ⟨t, ⟨h1, h2⟩, rfl⟩

/-- an edge of the state contains byte `b` exactly when `b` leads to its target -/
theorem edge_contains {n : Nat} {tg : List (Option Nat)} {e : Edge} (he : e ∈ edgesOf n tg) (b : Nat) :
    inRanges e.ranges b = (decide (b < 256) && (tg.getD b none == some e.target)) := by
  obtain ⟨t, _, _, rfl⟩ := mem_edgesOf.1 he
  exact classFor_sem _ b

theorem next_edgesOf (n : Nat) (tg : List (Option Nat)) (hl : tg.length = 256) (b : Nat) (hb : b < 256)
    (hin : ∀ t, tg.getD b none = some t → t < n) :
    (({ normal := edgesOf n tg } : StateData).next b) = tg.getD b none := by
  simp only [StateData.next]
  cases hf : (edgesOf n tg).find? fun e => inRanges e.ranges b with
  | none =>
    rw [List.find?_eq_none] at hf
    cases ht : tg.getD b none with
    | none => rfl
    | some t =>
      exfalso
      have hmem : some t ∈ tg := by
        rw [List.getD_eq_getElem?_getD, List.getElem?_eq_getElem (by omega)] at ht
        simp only [Option.getD_some] at ht
        rw [← ht]; exact List.getElem_mem _
      have he : ({ ranges := classFor (fun b => tg.getD b none == some t), target := t } : Edge) ∈ edgesOf n tg :=
        mem_edgesOf.2 ⟨t, hin t ht, hmem, rfl⟩
      apply hf _ he
      rw [edge_contains he, ht]
      simp [hb]
  | some e =>
    have hm := List.mem_of_find?_eq_some hf
    have hp := List.find?_some hf
    rw [edge_contains hm] at hp
    simp only [hb, decide_true, Bool.true_and, beq_iff_eq] at hp
    rw [hp]; rfl

theorem filter_eq_range_le_one (n t : Nat) : ((List.range n).filter fun x => x == t).length ≤ 1 := by
  induction n with
  | zero => simp
  | succ n ih =>
    rw [List.range_succ, List.filter_append]
    by_cases h : n = t
    · subst h
      have : (List.range n).filter (fun x => x == n) = [] := by
        rw [List.filter_eq_nil_iff]
        intro a ha
        have := List.mem_range.1 ha
        simp; omega
      simp [this]
    · have : ([n].filter fun x => x == t) = [] := by simp [h]
      rw [this]; simpa using ih

theorem edgesOf_disjoint (n : Nat) (tg : List (Option Nat)) (b : Nat) :
    ((edgesOf n tg).filter fun e => inRanges e.ranges b).length ≤ 1 := by
  cases ht : tg.getD b none with
  | none =>
    have : (edgesOf n tg).filter (fun e => inRanges e.ranges b) = [] := by
      rw [List.filter_eq_nil_iff]
      intro e he
      rw [edge_contains he, ht]; simp
    simp [this]
  | some t =>
    have key : ∀ e ∈ edgesOf n tg, inRanges e.ranges b = true → (e.target == t) = true := by
      intro e he hb
      rw [edge_contains he, ht] at hb
      simp only [Bool.and_eq_true, beq_iff_eq, Option.some.injEq] at hb
      simp [hb.2]
    refine Nat.le_trans (filter_length_le_of_imp _ (fun e => e.target == t) _ key) ?_
    simp only [edgesOf, List.filter_map, List.length_map, List.filter_filter]
    refine Nat.le_trans (filter_length_le_of_imp _ (fun x => x == t) _ ?_) (filter_eq_range_le_one n t)
    intro x _ hx
    simp only [Function.comp, Bool.and_eq_true] at hx
    exact hx.1

end Logos.FromDfa

namespace Logos.FromDfa
open Logos Logos.Passes

/-! ### the whole graph -/

theorem rawOf_size (d : Dfa) (p : List Nat) : (rawOf d p).states.size = (getStates d).length := by
  simp [rawOf]

theorem rawOf_root (d : Dfa) (p : List Nat) : (rawOf d p).root = (getStates d).idxOf d.start := rfl

theorem rawOf_get (d : Dfa) (p : List Nat) {id : Nat} (h : id ∈ getStates d) :
    (rawOf d p).get ((getStates d).idxOf id) =
      rawState d p (getStates d).length (fun x => (getStates d).idxOf x) id := by
  simp only [Graph.get, rawOf, Array.getD_eq_getD_getElem?, List.getElem?_toArray, List.getElem?_map, get_idx h,
    Option.map_some, Option.getD_some]

/-- every state of the raw graph is the image of a collected DFA state -/
theorem rawOf_get_lt (d : Dfa) (p : List Nat) {s : Nat} (hs : s < (getStates d).length) :
    ∃ id, id ∈ getStates d ∧
      (rawOf d p).get s = rawState d p (getStates d).length (fun x => (getStates d).idxOf x) id := by
  refine ⟨(getStates d)[s], List.getElem_mem _, ?_⟩
  simp only [Graph.get, rawOf, Array.getD_eq_getD_getElem?, List.getElem?_toArray, List.getElem?_map,
      List.getElem?_eq_getElem hs, Option.map_some, Option.getD_some]

end Logos.FromDfa
