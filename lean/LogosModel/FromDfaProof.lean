import LogosModel.FromDfa
import LogosModel.PassesSide
/-!
# The raw graph is the DFA (theorems about `FromDfa.rawOf`)

For every DFA table that is complete for the collected states (`closedB`, decidable, evaluated on every
dump) and every byte below 256:

* `rawOf_next`: the raw graph's transition function on the state numbered `idx id` is the DFA's
  `next_state`, the dead state meaning "no edge";
* `rawOf_eoi`, `rawOf_accept`, `rawOf_early`: the end-of-input edge, the recorded leaf and the absence
  of early marks;
* `rawOf_edgesDisjoint`, `rawOf_refsInside`, `rawOf_noEarly`: three of the side conditions of the pass
  theorems (`Passes.rawSideOK`) hold by construction of the raw graph, for every DFA;
* `rawOf_walk`: a walk of the raw graph *is* a run of the DFA (`dfaWalk`, written over state ids with the
  one-byte-delayed match recording of regex-automata's match states), hence with the pass theorems
  `fromDfa_matched` / `fromDfa_nomatch` / `fromDfa_eoi`: what the final graph does on an input is what
  the DFA does, tokens the same, error spans no longer.
-/
namespace Logos.FromDfa
open Logos Logos.Passes

/-! ### byte classes -/

theorem classFor_sem (p : Nat → Bool) (x : Nat) :
    inRanges (classFor p) x = (decide (x < 256) && p x) := by
  unfold classFor
  have := (Emit.fold_inv p 256).2 x
  rw [← this]
  simp only [inRanges, List.any_reverse]

/-! ### the numbering -/

theorem idx_lt {S : List Nat} {id : Nat} (h : id ∈ S) : S.idxOf id < S.length :=
  List.idxOf_lt_length_iff.2 h

theorem get_idx {S : List Nat} {id : Nat} (h : id ∈ S) : S[S.idxOf id]? = some id := by
  have hl := idx_lt h
  rw [List.getElem?_eq_getElem hl, List.getElem_idxOf hl]

theorem idx_inj {S : List Nat} {a b : Nat} (ha : a ∈ S) (hb : b ∈ S) (h : S.idxOf a = S.idxOf b) : a = b := by
  have h1 := get_idx ha
  have h2 := get_idx hb
  rw [h] at h1
  rw [h1] at h2
  exact Option.some.inj h2

/-! ### completeness of the table -/

structure Closed (d : Dfa) : Prop where
  start : d.start ∈ getStates d
  row : ∀ id ∈ getStates d, ∃ r, d.row id = some r ∧ r.next.length = 256 ∧
    (∀ x ∈ r.next, x ∈ getStates d) ∧ r.eoi ∈ getStates d

theorem closedB_sound {d : Dfa} (h : closedB d = true) : Closed d := by
  simp only [closedB, Bool.and_eq_true, List.all_eq_true, List.contains_iff_mem] at h
  refine ⟨h.1, fun id hid => ?_⟩
  have := h.2 id hid
  cases hr : d.row id with
  | none => rw [hr] at this; simp at this
  | some r =>
    rw [hr] at this
    simp only [Bool.and_eq_true, beq_iff_eq, List.all_eq_true, List.contains_iff_mem] at this
    exact ⟨r, rfl, this.1.1, this.1.2, this.2⟩

theorem Closed.next_mem {d : Dfa} (hc : Closed d) {id b : Nat} (hid : id ∈ getStates d) (hb : b < 256) :
    d.nextId id b ∈ getStates d := by
  obtain ⟨r, hr, hl, hn, _⟩ := hc.row id hid
  simp only [Dfa.nextId, hr]
  rw [List.getD_eq_getElem?_getD, List.getElem?_eq_getElem (by omega)]
  exact hn _ (List.getElem_mem _)

theorem Closed.eoi_mem {d : Dfa} (hc : Closed d) {id : Nat} (hid : id ∈ getStates d) :
    d.eoiId id ∈ getStates d := by
  obtain ⟨r, hr, _, _, he⟩ := hc.row id hid
  simp only [Dfa.eoiId, hr]
  exact he

/-! ### one state -/

theorem targets_getD (d : Dfa) (idx : Nat → Nat) (id b : Nat) (hb : b < 256) :
    (targets d idx id).getD b none = if d.nextId id b == 0 then none else some (idx (d.nextId id b)) := by
  simp only [targets, List.getD_eq_getElem?_getD, List.getElem?_map, List.getElem?_range hb, Option.map_some,
    Option.getD_some]

theorem targets_length (d : Dfa) (idx : Nat → Nat) (id : Nat) : (targets d idx id).length = 256 := by
  simp [targets]

theorem mem_edgesOf {n : Nat} {tg : List (Option Nat)} {e : Edge} :
    e ∈ edgesOf n tg ↔ ∃ t, t < n ∧ some t ∈ tg ∧
      e = { ranges := classFor (fun b => tg.getD b none == some t), target := t } := by
  simp only [edgesOf, List.mem_map, List.mem_filter, List.mem_range, List.contains_iff_mem]
  constructor
  · rintro ⟨t, ⟨h1, h2⟩, rfl⟩; exact ⟨t, h1, h2, rfl⟩
  · rintro ⟨t, h1, h2, rfl⟩; exact ⟨t, ⟨h1, h2⟩, rfl⟩

/-- an edge of the state contains byte `b` exactly when `b` leads to its target -/
theorem edge_contains {n : Nat} {tg : List (Option Nat)} {e : Edge} (he : e ∈ edgesOf n tg) (b : Nat) :
    inRanges e.ranges b = (decide (b < 256) && (tg.getD b none == some e.target)) := by
  obtain ⟨t, _, _, rfl⟩ := mem_edgesOf.1 he
  exact classFor_sem _ b

theorem next_edgesOf (n : Nat) (tg : List (Option Nat)) (hl : tg.length = 256) (b : Nat) (hb : b < 256)
    (hin : ∀ t, tg.getD b none = some t → t < n) :
    (({ normal := edgesOf n tg } : StateData).next b) = tg.getD b none := by
  simp only [StateData.next]
  cases hf : (edgesOf n tg).find? fun e => inRanges e.ranges b with
  | none =>
    rw [List.find?_eq_none] at hf
    cases ht : tg.getD b none with
    | none => rfl
    | some t =>
      exfalso
      have hmem : some t ∈ tg := by
        rw [List.getD_eq_getElem?_getD, List.getElem?_eq_getElem (by omega)] at ht
        simp only [Option.getD_some] at ht
        rw [← ht]; exact List.getElem_mem _
      have he : ({ ranges := classFor (fun b => tg.getD b none == some t), target := t } : Edge) ∈ edgesOf n tg :=
        mem_edgesOf.2 ⟨t, hin t ht, hmem, rfl⟩
      apply hf _ he
      rw [edge_contains he, ht]
      simp [hb]
  | some e =>
    have hm := List.mem_of_find?_eq_some hf
    have hp := List.find?_some hf
    rw [edge_contains hm] at hp
    simp only [hb, decide_true, Bool.true_and, beq_iff_eq] at hp
    rw [hp]; rfl

theorem filter_eq_range_le_one (n t : Nat) : ((List.range n).filter fun x => x == t).length ≤ 1 := by
  induction n with
  | zero => simp
  | succ n ih =>
    rw [List.range_succ, List.filter_append]
    by_cases h : n = t
    · subst h
      have : (List.range n).filter (fun x => x == n) = [] := by
        rw [List.filter_eq_nil_iff]
        intro a ha
        have := List.mem_range.1 ha
        simp; omega
      simp [this]
    · have : ([n].filter fun x => x == t) = [] := by simp [h]
      rw [this]; simpa using ih

theorem edgesOf_disjoint (n : Nat) (tg : List (Option Nat)) (b : Nat) :
    ((edgesOf n tg).filter fun e => inRanges e.ranges b).length ≤ 1 := by
  cases ht : tg.getD b none with
  | none =>
    have : (edgesOf n tg).filter (fun e => inRanges e.ranges b) = [] := by
      rw [List.filter_eq_nil_iff]
      intro e he
      rw [edge_contains he, ht]; simp
    simp [this]
  | some t =>
    have key : ∀ e ∈ edgesOf n tg, inRanges e.ranges b = true → (e.target == t) = true := by
      intro e he hb
      rw [edge_contains he, ht] at hb
      simp only [Bool.and_eq_true, beq_iff_eq, Option.some.injEq] at hb
      simp [hb.2]
    refine Nat.le_trans (filter_length_le_of_imp _ (fun e => e.target == t) _ key) ?_
    simp only [edgesOf, List.filter_map, List.length_map, List.filter_filter]
    refine Nat.le_trans (filter_length_le_of_imp _ (fun x => x == t) _ ?_) (filter_eq_range_le_one n t)
    intro x _ hx
    simp only [Function.comp, Bool.and_eq_true] at hx
    exact hx.1

end Logos.FromDfa

namespace Logos.FromDfa
open Logos Logos.Passes

/-! ### the whole graph -/

theorem rawOf_size (d : Dfa) (p : List Nat) : (rawOf d p).states.size = (getStates d).length := by
  simp [rawOf]

theorem rawOf_root (d : Dfa) (p : List Nat) : (rawOf d p).root = (getStates d).idxOf d.start := rfl

theorem rawOf_get (d : Dfa) (p : List Nat) {id : Nat} (h : id ∈ getStates d) :
    (rawOf d p).get ((getStates d).idxOf id) =
      rawState d p (getStates d).length (fun x => (getStates d).idxOf x) id := by
  simp only [Graph.get, rawOf, Array.getD_eq_getD_getElem?, List.getElem?_toArray, List.getElem?_map, get_idx h,
    Option.map_some, Option.getD_some]

/-- every state of the raw graph is the image of a collected DFA state -/
theorem rawOf_get_lt (d : Dfa) (p : List Nat) {s : Nat} (hs : s < (getStates d).length) :
    ∃ id, id ∈ getStates d ∧
      (rawOf d p).get s = rawState d p (getStates d).length (fun x => (getStates d).idxOf x) id := by
  refine ⟨(getStates d)[s], List.getElem_mem _, ?_⟩
  simp only [Graph.get, rawOf, Array.getD_eq_getD_getElem?, List.getElem?_toArray, List.getElem?_map,
      List.getElem?_eq_getElem hs, Option.map_some, Option.getD_some]

end Logos.FromDfa

namespace Logos.FromDfa
open Logos Logos.Passes

/-! ### what a raw state is, in terms of the DFA -/

/-- **the raw graph's byte transitions are the DFA's**, the dead state meaning "no edge" -/
theorem rawOf_next {d : Dfa} (hc : Closed d) (p : List Nat) {id b : Nat} (hid : id ∈ getStates d) (hb : b < 256) :
    ((rawOf d p).get ((getStates d).idxOf id)).next b =
      if d.nextId id b == 0 then none else some ((getStates d).idxOf (d.nextId id b)) := by
  rw [rawOf_get d p hid]
  have := next_edgesOf (getStates d).length (targets d (fun x => (getStates d).idxOf x) id)
    (targets_length _ _ _) b hb (by
      intro t ht
      rw [targets_getD _ _ _ _ hb] at ht
      split at ht
      · cases ht
      · cases ht; exact idx_lt (hc.next_mem hid hb))
  rw [targets_getD _ _ _ _ hb] at this
  exact this

theorem rawOf_eoi (d : Dfa) (p : List Nat) {id : Nat} (hid : id ∈ getStates d) :
    ((rawOf d p).get ((getStates d).idxOf id)).eoi =
      if d.eoiId id == 0 then none else some ((getStates d).idxOf (d.eoiId id)) := by
  rw [rawOf_get d p hid]; rfl

theorem rawOf_accept (d : Dfa) (p : List Nat) {id : Nat} (hid : id ∈ getStates d) :
    ((rawOf d p).get ((getStates d).idxOf id)).accept = acceptOf p (d.matchingOf id) := by
  rw [rawOf_get d p hid]; rfl

theorem rawOf_early (d : Dfa) (p : List Nat) (s : Nat) : ((rawOf d p).get s).early = none := by
  by_cases hs : s < (getStates d).length
  · obtain ⟨id, _, h⟩ := rawOf_get_lt d p hs
    rw [h]; rfl
  · rw [get_ge _ _ (by rw [rawOf_size]; omega)]

/-- the state has a byte edge exactly when some byte does not lead to the dead state -/
theorem rawOf_normal_isEmpty {d : Dfa} (hc : Closed d) (p : List Nat) {id : Nat} (hid : id ∈ getStates d) :
    ((rawOf d p).get ((getStates d).idxOf id)).normal.isEmpty =
      !(List.range 256).any fun b => d.nextId id b != 0 := by
  rw [rawOf_get d p hid]
  simp only [rawState]
  rw [Bool.eq_iff_iff]
  simp only [List.isEmpty_iff, Bool.not_eq_true', List.any_eq_false, List.mem_range, bne_iff_ne, ne_eq,
    Decidable.not_not]
  constructor
  · intro h b hb
    refine Decidable.byContradiction fun hne => ?_
    have hmem : some ((getStates d).idxOf (d.nextId id b)) ∈ targets d (fun x => (getStates d).idxOf x) id := by
      have := targets_getD d (fun x => (getStates d).idxOf x) id b hb
      rw [List.getD_eq_getElem?_getD, List.getElem?_eq_getElem (by rw [targets_length]; exact hb)] at this
      simp only [Option.getD_some, beq_iff_eq, hne, if_false] at this
      rw [← this]; exact List.getElem_mem _
    have : ({ ranges := classFor (fun b' => (targets d (fun x => (getStates d).idxOf x) id).getD b' none ==
        some ((getStates d).idxOf (d.nextId id b))), target := (getStates d).idxOf (d.nextId id b) } : Edge) ∈
        edgesOf (getStates d).length (targets d (fun x => (getStates d).idxOf x) id) :=
      mem_edgesOf.2 ⟨_, idx_lt (hc.next_mem hid hb), hmem, rfl⟩
    rw [h] at this
    cases this
  · intro h
    apply List.eq_nil_iff_forall_not_mem.2
    intro e he
    obtain ⟨t, _, hm, _⟩ := mem_edgesOf.1 he
    obtain ⟨b, hb⟩ := List.mem_iff_getElem?.1 hm
    have hb256 : b < 256 := by
      have := (List.getElem?_eq_some_iff.1 hb).1
      rw [targets_length] at this; exact this
    have := targets_getD d (fun x => (getStates d).idxOf x) id b hb256
    rw [List.getD_eq_getElem?_getD, hb] at this
    simp only [Option.getD_some, h b hb256, beq_self_eq_true, if_true] at this
    cases this

/-! ### three side conditions of the pass theorems hold by construction -/

theorem rawOf_noEarly (d : Dfa) (p : List Nat) : rawNoEarly (rawOf d p) = true := by
  simp only [rawNoEarly, List.all_eq_true, List.mem_range]
  intro s _
  rw [rawOf_early]; rfl

theorem rawOf_edgesDisjoint (d : Dfa) (p : List Nat) : edgesDisjoint (rawOf d p) = true := by
  rw [edgesDisjoint_iff]
  intro s hs b _
  rw [rawOf_size] at hs
  obtain ⟨id, _, h⟩ := rawOf_get_lt d p hs
  rw [h]
  exact edgesOf_disjoint _ _ b

theorem rawOf_refsInside {d : Dfa} (hc : Closed d) (p : List Nat) : refsInside (rawOf d p) = true := by
  rw [refsInside_iff]
  refine ⟨by rw [rawOf_size, rawOf_root]; exact idx_lt hc.start, ?_⟩
  intro s hs c hcm
  rw [rawOf_size] at hs ⊢
  obtain ⟨id, hid, h⟩ := rawOf_get_lt d p hs
  rw [h] at hcm
  simp only [children, rawState, List.mem_append, List.mem_map, Option.mem_toList] at hcm
  rcases hcm with ⟨e, he, rfl⟩ | hcm
  · obtain ⟨t, ht, _, rfl⟩ := mem_edgesOf.1 he
    exact ht
  · split at hcm
    · cases hcm
    · cases hcm; exact idx_lt (hc.eoi_mem hid)

end Logos.FromDfa

namespace Logos.FromDfa
open Logos Logos.Passes

/-! ### a walk of the raw graph is a run of the DFA -/

theorem rawOf_record (d : Dfa) (p : List Nat) {id : Nat} (hid : id ∈ getStates d) (pos : Nat) (ctx : Option Nat)
    (tokEnd : Nat) :
    record ((rawOf d p).get ((getStates d).idxOf id)) pos ctx tokEnd = dfaRecord (d.acc p id) pos ctx tokEnd := by
  simp only [record, rawOf_early, rawOf_accept d p hid, dfaRecord, Dfa.acc]
  cases acceptOf p (d.matchingOf id) <;> rfl

theorem rawOf_atEoi {d : Dfa} (hc : Closed d) (p : List Nat) (isPrefix : Bool) (start : Nat) :
    ∀ (fuel : Nat) {id : Nat}, id ∈ getStates d → ∀ (pos : Nat) (ctx : Option Nat) (tokEnd : Nat),
      atEoi (rawOf d p) isPrefix start fuel ((getStates d).idxOf id) pos ctx tokEnd =
        dfaAtEoi d p isPrefix start fuel id pos ctx tokEnd := by
  intro fuel
  induction fuel with
  | zero => intro id _ pos ctx tokEnd; rfl
  | succ fuel ih =>
    intro id hid pos ctx tokEnd
    simp only [atEoi, dfaAtEoi]
    have h1 : (!((rawOf d p).get ((getStates d).idxOf id)).normal.isEmpty ||
        ((rawOf d p).get ((getStates d).idxOf id)).eoi.isSome) = (d.hasByteEdge id || d.eoiId id != 0) := by
      rw [rawOf_normal_isEmpty hc p hid, rawOf_eoi d p hid]
      simp only [Dfa.hasByteEdge, Bool.not_not]
      congr 1
      by_cases he : d.eoiId id = 0 <;> simp [he]
    have h2 : ((getStates d).idxOf id == (rawOf d p).root) = (id == d.start) := by
      rw [rawOf_root, Bool.eq_iff_iff]
      simp only [beq_iff_eq]
      exact ⟨fun h => idx_inj hid hc.start h, fun h => by rw [h]⟩
    rw [h1, h2, rawOf_eoi d p hid]
    by_cases he : d.eoiId id = 0
    · simp [he]
    · have hm := hc.eoi_mem hid
      simp only [beq_iff_eq, he, if_false]
      rw [rawOf_record d p hm, ih hm]

/-- **a walk of the raw graph is a run of the DFA** -/
theorem rawOf_walk {d : Dfa} (hc : Closed d) (p : List Nat) (isPrefix : Bool) (start : Nat) :
    ∀ (rest : List Nat), (∀ b ∈ rest, b < 256) → ∀ {id : Nat}, id ∈ getStates d →
      ∀ (pos : Nat) (ctx : Option Nat) (tokEnd : Nat),
      walk (rawOf d p) isPrefix start ((getStates d).idxOf id) rest pos ctx tokEnd =
        dfaWalk d p isPrefix start id rest pos ctx tokEnd := by
  intro rest
  induction rest with
  | nil =>
    intro _ id hid pos ctx tokEnd
    simp only [walk, dfaWalk]
    rw [rawOf_record d p hid, rawOf_size, rawOf_atEoi hc p isPrefix start _ hid]
  | cons b rest ih =>
    intro hb id hid pos ctx tokEnd
    have hb256 : b < 256 := hb b (List.mem_cons_self)
    simp only [walk, dfaWalk]
    rw [rawOf_record d p hid, rawOf_next hc p hid hb256]
    by_cases hz : d.nextId id b = 0
    · simp [hz]
    · simp only [beq_iff_eq, hz, if_false]
      exact ih (fun x hx => hb x (List.mem_cons_of_mem _ hx)) (hc.next_mem hid hb256) _ _ _

theorem rawOf_walkAttempt {d : Dfa} (hc : Closed d) (p : List Nat) (isPrefix : Bool) (inp : List Nat)
    (hb : ∀ b ∈ inp, b < 256) (start : Nat) :
    walkAttempt (rawOf d p) isPrefix inp start = dfaAttempt d p isPrefix inp start := by
  unfold walkAttempt dfaAttempt
  rw [rawOf_root, rawOf_walk hc p isPrefix start _ (fun b h => hb b (List.mem_of_mem_drop h)) hc.start]

/-! ### from the DFA to the final graph -/

/-- the part of `rawSideOK` that depends on the DFA: the start state and its successors match nothing (no
empty match), a state whose successors all report leaf `l` also reports it at the end of the input, the
target of an end-of-input transition has no end-of-input transition to a live state -/
def dfaSideOK (d : Dfa) (p : List Nat) : Bool :=
  closedB d && rawRootOK (rawOf d p) && earlyEoiOK (rawOf d p) && rawClosed (rawOf d p)

theorem dfaSideOK_raw {d : Dfa} {p : List Nat} (h : dfaSideOK d p = true) : rawSideOK (rawOf d p) = true := by
  simp only [dfaSideOK, Bool.and_eq_true] at h
  simp only [rawSideOK, Bool.and_eq_true]
  exact ⟨⟨⟨⟨rawOf_noEarly d p, h.1.1.2⟩, h.1.2⟩, h.2⟩, rawOf_edgesDisjoint d p⟩

/-- **Tokens: what the final graph yields is what the DFA yields.** -/
theorem fromDfa_matched {d : Dfa} {p : List Nat} (h : dfaSideOK d p = true) (inp : List Nat)
    (hb : ∀ b ∈ inp, b < 256) (start l e : Nat) (hm : dfaAttempt d p false inp start = .matched l e) :
    walkAttempt (passes (rawOf d p)) false inp start = .matched l e := by
  have hc : Closed d := closedB_sound (by simp only [dfaSideOK, Bool.and_eq_true] at h; exact h.1.1.1)
  apply passes_matched _ (sideOK_of_raw _ (dfaSideOK_raw h)) inp hb
  rw [rawOf_walkAttempt hc p false inp hb start]; exact hm

/-- **Errors stay errors and stop no later than the DFA's dead state.** -/
theorem fromDfa_nomatch {d : Dfa} {p : List Nat} (h : dfaSideOK d p = true) (inp : List Nat)
    (hb : ∀ b ∈ inp, b < 256) (start off : Nat) (hm : dfaAttempt d p false inp start = .nomatch off) :
    ∃ off', off' ≤ off ∧ walkAttempt (passes (rawOf d p)) false inp start = .nomatch off' := by
  have hc : Closed d := closedB_sound (by simp only [dfaSideOK, Bool.and_eq_true] at h; exact h.1.1.1)
  apply passes_nomatch _ (sideOK_of_raw _ (dfaSideOK_raw h)) inp hb
  rw [rawOf_walkAttempt hc p false inp hb start]; exact hm

theorem fromDfa_eoi {d : Dfa} {p : List Nat} (h : dfaSideOK d p = true) (inp : List Nat)
    (hb : ∀ b ∈ inp, b < 256) (start : Nat) (hm : dfaAttempt d p false inp start = .eoi) :
    walkAttempt (passes (rawOf d p)) false inp start = .eoi := by
  have hc : Closed d := closedB_sound (by simp only [dfaSideOK, Bool.and_eq_true] at h; exact h.1.1.1)
  apply passes_eoi _ (sideOK_of_raw _ (dfaSideOK_raw h)) inp hb
  rw [rawOf_walkAttempt hc p false inp hb start]; exact hm

end Logos.FromDfa
