import LogosModel.Attr
import LogosModel.TypeItems
/-!
# The items of `#[logos(...)]`: `Parser::try_parse_logos` and `parse_callback` (parser/mod.rs, error_type.rs), C18

`try_parse_logos` walks the items `AttributeParser` yields (`Attr.allNested`) and dispatches on the item's
name and on the shape of its value (`name = ..`, `name(..)`, `name "lit"`, `name ident = ..`):

* `crate`, `error`, `export_dir`, `extras`, `utf8` fill a slot that can be filled once (a second one is
  reported and replaces the first),
* `skip` and `subpattern` append to a list, `type` / `lifetime` go to `TypeParams` (`TypeItems.lean`),
* `source` is refused, every other name is unknown, an item without a name is invalid,
* `error(Type, ..)` reads its own argument list (positional callback first, `callback = ..`), and **returns
  from the function** when the type is missing or does not parse: the items after it are not read.

What syn accepts as a literal, a boolean, a type or a lifetime is a parameter (`Orc`): the theorems hold for
every such oracle.  `LogosItemsProof.lean`: a list of items is accepted iff every item is clean on its own
and no slot is filled twice (`accepted_iff`), which no permutation changes (`accepted_perm`), and the state an
accepted list leaves is the same for every order up to the order of the skips and subpatterns
(`accepted_state_perm`).
-/
namespace Logos.LogosItems
open Logos.Attr

/-- what syn / proc_macro2 decide about token lists (parameters of the model) -/
structure Orc where
  groupToks : Nat → List Tok
  /-- `Lit::new(lit)` / `syn::parse2::<Literal>`: `some 0` a string, `some 1` a byte string, `some 2` another literal, `none` no literal -/
  parseLit : List Tok → Option Nat
  parseBool : List Tok → Option Bool
  isType : List Tok → Bool
  /-- `lifetime = ..`: `none` does not parse, `some none` is the keyword `none`, `some (some a)` the lifetime `'a` -/
  parseLt : List Tok → Option (Option String)
  /-- `type T = ..`: the lifetimes occurring in the type, `none` when it does not parse -/
  parseTy : List Tok → Option TypeItems.Ty

inductive LErr where
  | invalidNested
  | form (name : String)             -- "Expected: #[logos(name ..)]": the value has the wrong shape
  | dup (name : String)              -- "... can be defined only once"
  | unknown (name : String)
  | deprecatedSource
  | badValue (name : String)         -- the value does not parse as what the item needs
  | skipGroup                        -- "Expected #[logos(skip(...))]"
  | arg (e : Attr.Err)               -- from the argument list of `skip(...)`
  | errUnexpected | errPositional | errBadCallback | errDupCallback | errCallbackForm | errUnknownArg (name : String)
  | closureSyntax | closureBody      -- from `parse_callback`
deriving Repr, DecidableEq

/-- `Parser::parse_callback`: `some true` a callback, `none` with the error it reports -/
def parseCallback (toks : List Tok) : Except LErr Unit :=
  match toks with
  | [] => .error .closureSyntax
  | t0 :: rest =>
    if !(t0 == .punct '|' true) then .ok ()                       -- a label (path to a function)
    else match rest with
      | [.ident _] => .error .closureBody
      | .ident _ :: t2 :: body =>
        if t2 == .punct '|' true then
          (if body.isEmpty then .error .closureBody else .ok ())
        else .error .closureSyntax
      | _ => .error .closureSyntax

structure ErrTy where
  ty : List Tok
  callback : Bool := false
deriving Repr, DecidableEq

structure SkipDef where
  lit : List Tok
  kind : Nat                     -- 0 string, 1 byte string
  defn : Attr.Definition := {}
deriving Repr, DecidableEq

structure St where
  crate : Option (List Tok) := none
  errorTy : Option ErrTy := none
  exportDir : Option (List Tok) := none
  extras : Option (List Tok) := none
  utf8 : Option Bool := none
  skips : List SkipDef := []
  subs : List (String × Nat × List Tok) := []
  ty : TypeItems.St
  errors : List LErr := []
  /-- the function has returned: the remaining items are not read -/
  returned : Bool := false
deriving Repr, DecidableEq

/-- the arguments of `error(Type, ..)` after the type -/
def errorArgs (pos : Nat) (e : ErrTy) (errs : List LErr) : List Nested → ErrTy × List LErr
  | [] => (e, errs)
  | .unexpected _ :: rest => errorArgs (pos + 1) e (errs ++ [.errUnexpected]) rest
  | .unnamed toks :: rest =>
    if pos == 0 then
      match parseCallback toks with
      | .ok _ => errorArgs (pos + 1) { e with callback := true } errs rest
      | .error er => errorArgs (pos + 1) { e with callback := false } (errs ++ [er]) rest
    else errorArgs (pos + 1) e (errs ++ [.errPositional]) rest
  | .named name v :: rest =>
    match name, v with
    | "callback", .assign toks =>
      match parseCallback toks with
      | .ok _ => errorArgs (pos + 1) { e with callback := true } (if e.callback then errs ++ [.errDupCallback] else errs) rest
      | .error er => errorArgs (pos + 1) e (errs ++ [er, .errBadCallback]) rest
    | "callback", _ => errorArgs (pos + 1) e (errs ++ [.errCallbackForm]) rest
    | other, _ => errorArgs (pos + 1) e (errs ++ [.errUnknownArg other]) rest

/-- what one item does, as far as it can be said without the state -/
inductive Effect where
  | errs (es : List LErr)
  | ret (e : LErr)                               -- report and return from `try_parse_logos`
  | setCrate (v : List Tok)
  | setError (e : ErrTy) (es : List LErr)
  | setExport (v : List Tok)
  | setExtras (v : List Tok)
  | setUtf8 (b : Bool)
  | pushSkip (s : SkipDef)
  | pushSub (name : String) (kind : Nat) (v : List Tok)
  | lifetime (v : Option String)
  | lifetimeBad                                  -- the value is neither `none` nor a lifetime
  | type (param : String) (t : TypeItems.Ty)
deriving Repr, DecidableEq

def skipFromGroup (o : Orc) (toks : List Tok) : Effect :=
  let (litToks, rest) := collectTail toks
  if litToks.isEmpty then .errs [.skipGroup]
  else match o.parseLit litToks with
    | none => .errs [.badValue "skip", .skipGroup]
    | some k =>
      if k ≥ 2 then .errs [.badValue "skip", .skipGroup]
      else .pushSkip { lit := litToks, kind := k, defn := parseArgs true rest }

def classify (o : Orc) : Nested → Effect
  | .unexpected _ => .errs [.invalidNested]
  | .unnamed _ => .errs [.invalidNested]
  | .named name v =>
    match name, v with
    | "crate", .assign t => .setCrate t
    | "crate", _ => .errs [.form "crate"]
    | "error", .assign t => .setError { ty := t } []
    | "error", .group g =>
      let (tyToks, rest) := collectTail (o.groupToks g)
      if tyToks.isEmpty then .ret (.form "error")
      else if !o.isType tyToks then .ret (.badValue "error")
      else
        let r := errorArgs 0 { ty := tyToks } [] (allNested true rest)
        .setError r.1 r.2
    | "error", _ => .errs [.form "error"]
    | "export_dir", .assign t =>
      match o.parseLit t with
      | some 0 => .setExport t
      | _ => .errs [.badValue "export_dir"]
    | "export_dir", _ => .errs [.form "export_dir"]
    | "extras", .assign t => .setExtras t
    | "extras", _ => .errs [.form "extras"]
    | "skip", .literal l =>
      match o.parseLit [l] with
      | some 0 => .pushSkip { lit := [l], kind := 0 }
      | some 1 => .pushSkip { lit := [l], kind := 1 }
      | _ => .errs [.badValue "skip"]
    | "skip", .group g => skipFromGroup o (o.groupToks g)
    | "skip", _ => .errs [.form "skip"]
    | "source", _ => .errs [.deprecatedSource]
    | "subpattern", .keywordAssign n t =>
      match o.parseLit t with
      | some 0 => .pushSub n 0 t
      | some 1 => .pushSub n 1 t
      | _ => .errs [.badValue "subpattern"]
    | "subpattern", _ => .errs [.form "subpattern"]
    | "type", .keywordAssign p t =>
      match o.parseTy t with
      | some ty => .type p ty
      | none => .errs [.badValue "type"]
    | "type", _ => .errs [.form "type"]
    | "utf8", .assign t =>
      match o.parseBool t with
      | some b => .setUtf8 b
      | none => .errs [.badValue "utf8"]
    | "utf8", _ => .errs [.form "utf8"]
    | "lifetime", .assign t =>
      match o.parseLt t with
      | some v => .lifetime v
      | none => .lifetimeBad
    | "lifetime", _ => .errs [.form "lifetime"]
    | other, _ => .errs [.unknown other]

def addErrs (s : St) (es : List LErr) : St := { s with errors := s.errors ++ es }

/-- "... can be defined only once" when the slot is already filled -/
def dupErr (filled : Bool) (name : String) : List LErr := if filled then [.dup name] else []

def apply (s : St) : Effect → St
  | .errs es => addErrs s es
  | .ret e => { addErrs s [e] with returned := true }
  | .setCrate v => { addErrs s (dupErr s.crate.isSome "crate") with crate := some v }
  | .setError e es => { addErrs s (es ++ dupErr s.errorTy.isSome "error") with errorTy := some e }
  | .setExport v => { addErrs s (dupErr s.exportDir.isSome "export_dir") with exportDir := some v }
  | .setExtras v => { addErrs s (dupErr s.extras.isSome "extras") with extras := some v }
  | .setUtf8 b => { addErrs s (dupErr s.utf8.isSome "utf8") with utf8 := some b }
  | .pushSkip d => { addErrs s (d.defn.errors.map .arg) with skips := s.skips ++ [d] }    -- `named_attr` reports to the same list
  | .pushSub n k v => { s with subs := s.subs ++ [(n, k, v)] }
  | .lifetime v => { s with ty := TypeItems.stepFixed s.ty (.lifetime v) }
  | .lifetimeBad => addErrs s (dupErr s.ty.ltSet "lifetime" ++ [.badValue "lifetime"])
  | .type p t => { s with ty := TypeItems.stepFixed s.ty (.type p t) }

def step (o : Orc) (s : St) (n : Nested) : St :=
  if s.returned then s else apply s (classify o n)

/-- **`try_parse_logos`** on the items of one attribute -/
def run (o : Orc) (s : St) (items : List Nested) : St := items.foldl (step o) s

def init (ltParams tyParams : List String) : St := { ty := TypeItems.init ltParams tyParams }

/-- the derive goes on to generate code only without errors -/
def accepted (s : St) : Bool := s.errors.isEmpty && s.ty.errs == 0

/-! ## The body of an inline callback (`parse_callback`, after `|arg|`)

The tokens after the closure head become the body of a generated function.  As found, the code took the
*first* token when it was a group of any kind, unwrapped it and dropped the rest: `(a + b) * c` became
`a + b`, `(a, b)` became `a, b` (unparsable).  As repaired, only a brace group that is the whole body is
unwrapped. -/

inductive Delim where
  | paren | bracket | brace
deriving Repr, DecidableEq

inductive BTok where
  | grp (d : Delim) (inner : List Nat)
  | other (n : Nat)
deriving Repr, DecidableEq

def bodyFound : List BTok → List BTok
  | .grp _ inner :: _ => inner.map .other
  | ts => ts

def bodyFixed : List BTok → List BTok
  | [.grp .brace inner] => inner.map .other
  | ts => ts

/-- the repaired rule keeps every token of an expression body -/
theorem bodyFixed_keeps (ts : List BTok) (h : ∀ inner, ts ≠ [.grp .brace inner]) : bodyFixed ts = ts := by
  unfold bodyFixed
  split
  · rename_i inner; exact absurd rfl (h inner)
  · rfl

/-- the two rules agree on a block -/
theorem bodyFixed_block (inner : List Nat) : bodyFixed [.grp .brace inner] = bodyFound [.grp .brace inner] := rfl

/-- **the code as found drops the tail of `(a + b) * c`** (tokens 1 2 3 in parentheses, then 4 5) -/
theorem bodyFound_drops_tail :
    bodyFound [.grp .paren [1, 2, 3], .other 4, .other 5] = [.other 1, .other 2, .other 3] ∧
    bodyFixed [.grp .paren [1, 2, 3], .other 4, .other 5] = [.grp .paren [1, 2, 3], .other 4, .other 5] := by
  decide

end Logos.LogosItems
