import LogosModel.Generics
/-!
# The generics of the generated `impl`: theorems

* `freshName_not_declared`: the name chosen for a fresh source lifetime (`lifetime = none`) is none of the
  declared lifetimes, however many of them are called `'s`, `'s_`, `'s__`, ...
* `header_lifetimes_declared`: when `generics` / `source_lifetime` report nothing, every lifetime used in
  `impl<BOUNDS> Logos<'SRC> for Name<GENERICS>` is one of `BOUNDS` (given that a named source lifetime and the
  lifetimes written in the concrete types are declared parameters, which the parser checks resp. rustc does).
-/
namespace Logos.TypeItems

/-- the candidates the loop goes through -/
def cand (n : String) : Nat → String
  | 0 => n
  | j+1 => cand (n ++ "_") j

theorem cand_length (n : String) (j : Nat) : (cand n j).length = n.length + j := by
  induction j generalizing n with
  | zero => rfl
  | succ j ih =>
    rw [cand, ih, String.length_append]
    have : "_".length = 1 := by decide
    omega

theorem bumpFresh_cases (decl : List String) (fuel : Nat) (n : String) :
    bumpFresh decl fuel n ∉ decl ∨ ∀ j, j < fuel → cand n j ∈ decl := by
  induction fuel generalizing n with
  | zero => right; intro j hj; omega
  | succ k ih =>
    unfold bumpFresh
    by_cases h : decl.contains n = true
    · rw [if_pos h]
      rcases ih (n ++ "_") with h1 | h1
      · left; exact h1
      · right
        intro j hj
        cases j with
        | zero => exact List.contains_iff_mem.1 h
        | succ j => exact h1 j (by omega)
    · rw [if_neg h]
      left
      intro hm
      exact h (List.contains_iff_mem.2 hm)

theorem cands_nodup (n : String) (k : Nat) : ((List.range k).map (cand n)).Nodup := by
  have hr : (List.range k).Pairwise (· ≠ ·) := List.nodup_range
  exact List.Pairwise.map (cand n) (fun a b hab heq => by
    have := congrArg String.length heq
    rw [cand_length, cand_length] at this
    exact hab (by omega)) hr

/-- with more fuel than declared lifetimes the loop ends on a name that is not declared -/
theorem bumpFresh_not_mem (decl : List String) (fuel : Nat) (n : String) (hf : decl.length < fuel) :
    bumpFresh decl fuel n ∉ decl := by
  rcases bumpFresh_cases decl fuel n with h | h
  · exact h
  · exfalso
    have hsub : (List.range fuel).map (cand n) ⊆ decl := by
      intro x hx
      obtain ⟨j, hj, rfl⟩ := List.mem_map.1 hx
      exact h j (List.mem_range.1 hj)
    have := List.Nodup.length_le_of_subset (cands_nodup n fuel) hsub
    simp at this
    omega

theorem freshNameFrom_not_mem (rest : List String) : ∀ (seen : List String) (name : String), name ∉ seen →
    freshNameFrom seen name rest ∉ seen ++ rest := by
  induction rest with
  | nil => intro seen name h; simpa [freshNameFrom] using h
  | cons lt rest ih =>
    intro seen name _
    unfold freshNameFrom
    have h1 := bumpFresh_not_mem (seen ++ [lt]) ((seen ++ [lt]).length + 1) name (by omega)
    have := ih (seen ++ [lt]) _ h1
    simpa [List.append_assoc] using this

/-- **the fresh source lifetime is none of the declared lifetimes** -/
theorem freshName_not_declared (lts : List String) : freshName lts ∉ lts := by
  have := freshNameFrom_not_mem lts [] "s" (by simp)
  simpa [freshName] using this

/-- what the parser has checked (a named source lifetime is a declared parameter) and what the user's types must
satisfy anyway (the lifetimes written in a concrete type are declared parameters) -/
def DeclOK (s : St) : Prop :=
  (∀ a, s.sl = .named a → a ∈ s.ltParams) ∧ ∀ x ∈ s.types, ∀ t, x.2 = some t → ∀ l ∈ t, l ∈ s.ltParams

/-- **every lifetime the generated header uses is declared by it** -/
theorem header_lifetimes_declared (s : St) (hd : DeclOK s) (he : headerErrs s = 0) :
    ∀ l ∈ usedLifetimes s, l ∈ bounds s := by
  intro l hl
  simp only [usedLifetimes, List.mem_cons, List.mem_flatMap] at hl
  cases hsl : s.sl with
  | implicit =>
    have hlen : s.ltParams.length ≤ 1 := by
      simp only [headerErrs, hsl] at he
      split at he <;> omega
    have hb : "s" ∈ bounds s := by
      simp only [bounds, hsl]; cases s.ltParams <;> simp
    rcases hl with rfl | ⟨g, hg, hlg⟩
    · simpa [sourceLt, hsl] using hb
    · simp only [genericArgs, hsl, List.mem_append, List.mem_map, List.mem_filterMap] at hg
      rcases hg with ⟨n, hn, rfl⟩ | ⟨x, _, hx⟩
      · simp only [List.mem_singleton] at hlg
        subst hlg
        cases hp : s.ltParams with
        | nil => rw [hp] at hn; simp at hn
        | cons a rest =>
          rw [hp] at hn hlen
          have : rest = [] := by cases rest with
            | nil => rfl
            | cons _ _ => simp at hlen
          subst this
          simp at hn
          subst hn
          exact hb
      · cases hx2 : x.2 with
        | none => rw [hx2] at hx; simp at hx
        | some t =>
          rw [hx2] at hx
          simp only [Option.map_some, Option.some.injEq] at hx
          subst hx
          simp only [fixTy, List.mem_map] at hlg
          obtain ⟨_, _, rfl⟩ := hlg
          exact hb
  | fresh =>
    rcases hl with rfl | ⟨g, hg, hlg⟩
    · simp [sourceLt, bounds, hsl]
    · simp only [genericArgs, hsl, List.mem_append, List.mem_map, List.mem_filterMap] at hg
      simp only [bounds, hsl, List.mem_cons]
      right
      rcases hg with ⟨n, hn, rfl⟩ | ⟨x, hxm, hx⟩
      · simp only [List.mem_singleton] at hlg
        subst hlg; exact hn
      · cases hx2 : x.2 with
        | none => rw [hx2] at hx; simp at hx
        | some t =>
          rw [hx2] at hx
          simp only [Option.map_some, Option.some.injEq] at hx
          subst hx
          simp only [fixTy] at hlg
          exact hd.2 x hxm t hx2 l hlg
  | named a =>
    rcases hl with rfl | ⟨g, hg, hlg⟩
    · simp only [sourceLt, bounds, hsl]; exact hd.1 a hsl
    · simp only [genericArgs, hsl, List.mem_append, List.mem_map, List.mem_filterMap] at hg
      simp only [bounds, hsl]
      rcases hg with ⟨n, hn, rfl⟩ | ⟨x, hxm, hx⟩
      · simp only [List.mem_singleton] at hlg
        subst hlg; exact hn
      · cases hx2 : x.2 with
        | none => rw [hx2] at hx; simp at hx
        | some t =>
          rw [hx2] at hx
          simp only [Option.map_some, Option.some.injEq] at hx
          subst hx
          simp only [fixTy] at hlg
          exact hd.2 x hxm t hx2 l hlg

/-- non-vacuity: `enum T<'s, 's_, X>` with `lifetime = none, type X = &'s_ str`: the fresh name is `s__` -/
example : freshName ["s", "s_"] = "s__" := by decide +kernel
example :
    let s := runFixed (init ["s", "s_"] ["X"]) [.lifetime none, .type "X" ["s_"]]
    s.errs = 0 ∧ headerErrs s = 0 ∧ sourceLt s = "s__" ∧ bounds s = ["s__", "s", "s_"] ∧
      genericArgs s = [.lt "s", .lt "s_", .ty ["s_"]] := by decide +kernel

end Logos.TypeItems
