import LogosModel.TraceProof
/-!
# C20, last sentence: the whole run

"Re-reading happens only after an attempt ends, starting at the end of the item just produced."

`attemptI_reads_monotone` speaks about one attempt.  Here the trace of a whole lexing run (`interpLex`, the trace the
`verif_trace` hook records) is judged as one object:

* `NoBack lo tr`: walking the trace, a read is never before the current bound; a read raises the bound to its offset, and
  only a `next p` (a call of `Lexer::next` with `token_end = p`) or a `trivia p` (restart behind a skipped match ending at
  `p`) sets it to `p`.
* **`interpLex_noBack`**: `NoBack 0 (interpLex g isPrefix cb utf8 src).2` for every graph (no well-formedness needed),
  callback table, mode and input.
* **`lexFromI_nextPos`**: the positions of the `next` events of a run that comes to an end are the start position followed
  by the ends of the items, in order - an attempt begins exactly where the item just produced ended.
-/
namespace Logos

def NoBack : Nat → List Ev → Prop
  | _, [] => True
  | _, .next p :: t => NoBack p t
  | _, .trivia p :: t => NoBack p t
  | lo, .read o _ _ :: t => lo ≤ o ∧ NoBack o t
  | lo, .end _ :: t => NoBack lo t
  | lo, .endToBoundary _ _ :: t => NoBack lo t

/-- events an attempt can produce: reads and recorded ends -/
def Ev.inAttempt : Ev → Bool
  | .read _ _ _ => true
  | .end _ => true
  | _ => false

def AttOnly (tr : List Ev) : Prop := ∀ e ∈ tr, e.inAttempt = true

theorem AttOnly.append {a b : List Ev} (ha : AttOnly a) (hb : AttOnly b) : AttOnly (a ++ b) := by
  intro e he
  rcases List.mem_append.mp he with h | h
  · exact ha e h
  · exact hb e h

theorem attOnly_nil : AttOnly [] := by intro e he; cases he

theorem attOnly_single {e : Ev} (h : e.inAttempt = true) : AttOnly [e] := by
  intro x hx
  rcases List.mem_singleton.mp hx with rfl
  exact h

theorem attOnly_cons {e : Ev} {t : List Ev} (h : e.inAttempt = true) (ht : AttOnly t) : AttOnly (e :: t) := by
  intro x hx
  rcases List.mem_cons.mp hx with rfl | hx
  · exact h
  · exact ht x hx

theorem fastLoop1_attOnly (p : Nat → Bool) (src : List Nat) : ∀ (fuel off : Nat), AttOnly (fastLoop1 p src fuel off).2 := by
  intro fuel
  induction fuel with
  | zero => intro off; exact attOnly_nil
  | succ n ih =>
    intro off
    simp only [fastLoop1]
    cases readByte src off with
    | none => exact attOnly_single rfl
    | some b =>
      simp only
      split
      · exact attOnly_cons rfl (ih (off + 1))
      · exact attOnly_single rfl

theorem fastLoop8_attOnly (p : Nat → Bool) (src : List Nat) : ∀ (fuel off : Nat), AttOnly (fastLoop8 p src fuel off).2 := by
  intro fuel
  induction fuel with
  | zero => intro off; exact attOnly_nil
  | succ n ih =>
    intro off
    simp only [fastLoop8]
    cases readChunk src off 8 with
    | none => exact attOnly_cons rfl (fastLoop1_attOnly p src _ off)
    | some arr =>
      simp only
      cases firstMiss p arr with
      | some i => exact attOnly_single rfl
      | none => exact attOnly_cons rfl (ih (off + 8))

theorem setupEv_attOnly (sd : StateData) (off : Nat) (ctx : Option Nat) (te : Nat) : AttOnly (setupEv sd off ctx te).2 := by
  unfold setupEv
  cases sd.early with
  | some l => exact attOnly_single rfl
  | none =>
    cases sd.accept with
    | some l => exact attOnly_single rfl
    | none => exact attOnly_nil

theorem visitK_attOnly (g : Graph) (src : List Nat) (isPrefix : Bool) (start st : Nat)
    (fl : Nat × List Ev) (su : (Option Nat × Nat) × List Ev) (hfl : AttOnly fl.2) (hsu : AttOnly su.2) :
    AttOnly (visitK g src isPrefix start st fl su).2 := by
  unfold visitK
  have hpre := hfl.append hsu
  have h2t := hpre.append (attOnly_single (e := .read fl.1 1 true) rfl)
  have h2f := hpre.append (attOnly_single (e := .read fl.1 1 false) rfl)
  have h3 := h2f.append (attOnly_single (e := .end start) rfl)
  simp only
  split
  · split <;> exact h2t
  · split
    · exact h3
    · split
      · exact h2f
      · split <;> exact h2f

theorem visit_attOnly (g : Graph) (src : List Nat) (isPrefix : Bool) (start st off : Nat) (ctx : Option Nat) (te : Nat) :
    AttOnly (visit g src isPrefix start st off ctx te).2 := by
  rw [visit_eq]
  apply visitK_attOnly
  · cases selfEdge (g.get st) st with
    | some e => exact fastLoop8_attOnly _ src _ off
    | none => exact attOnly_nil
  · exact setupEv_attOnly _ _ _ _

theorem attemptI_attOnly (g : Graph) (src : List Nat) (isPrefix : Bool) (start : Nat) :
    ∀ (fuel st off : Nat) (ctx : Option Nat) (te : Nat), AttOnly (attemptI g src isPrefix start fuel st off ctx te).2 := by
  intro fuel
  induction fuel with
  | zero => intro st off ctx te; exact attOnly_nil
  | succ n ih =>
    intro st off ctx te
    unfold attemptI
    have hv := visit_attOnly g src isPrefix start st off ctx te
    split
    · next t off' ctx' te' tr heq =>
      rw [heq] at hv
      exact hv.append (ih t off' ctx' te')
    · next s tr heq =>
      rw [heq] at hv
      exact hv

/-- the bound after a trace made of attempt events -/
theorem noBack_of_monotone : ∀ (tr : List Ev) (lo : Nat), AttOnly tr → Monotone (lo :: readOffs tr) → NoBack lo tr := by
  intro tr
  induction tr with
  | nil => intro lo _ _; trivial
  | cons e t ih =>
    intro lo ha hm
    have ht : AttOnly t := fun x hx => ha x (List.mem_cons_of_mem _ hx)
    cases e with
    | read o n hit =>
      simp only [readOffs] at hm
      exact ⟨hm.1, ih o ht hm.2⟩
    | «end» p => exact ih lo ht hm
    | next p => have := ha (.next p) (List.mem_cons_self); cases this
    | trivia p => have := ha (.trivia p) (List.mem_cons_self); cases this
    | endToBoundary a r => have := ha (.endToBoundary a r) (List.mem_cons_self); cases this

/-- what follows a restart event is judged from the restart position, whatever came before -/
theorem noBack_append_trivia : ∀ (a : List Ev) (lo p : Nat) (b : List Ev), NoBack lo a → NoBack p b →
    NoBack lo (a ++ .trivia p :: b) := by
  intro a
  induction a with
  | nil => intro lo p b _ hb; exact hb
  | cons e t ih =>
    intro lo p b ha hb
    cases e with
    | read o n hit => exact ⟨ha.1, ih o p b ha.2 hb⟩
    | «end» q => exact ih lo p b ha hb
    | next q => exact ih q p b ha hb
    | trivia q => exact ih q p b ha hb
    | endToBoundary x y => exact ih lo p b ha hb

theorem noBack_append_next : ∀ (a : List Ev) (lo p : Nat) (b : List Ev), NoBack lo a → NoBack p b →
    NoBack lo (a ++ .next p :: b) := by
  intro a
  induction a with
  | nil => intro lo p b _ hb; exact hb
  | cons e t ih =>
    intro lo p b ha hb
    cases e with
    | read o n hit => exact ⟨ha.1, ih o p b ha.2 hb⟩
    | «end» q => exact ih lo p b ha hb
    | next q => exact ih q p b ha hb
    | trivia q => exact ih q p b ha hb
    | endToBoundary x y => exact ih lo p b ha hb

theorem noBack_append_boundary : ∀ (a : List Ev) (lo x y : Nat), NoBack lo a → NoBack lo (a ++ [.endToBoundary x y]) := by
  intro a
  induction a with
  | nil => intro lo x y _; trivial
  | cons e t ih =>
    intro lo x y ha
    cases e with
    | read o n hit => exact ⟨ha.1, ih o x y ha.2⟩
    | «end» q => exact ih lo x y ha
    | next q => exact ih q x y ha
    | trivia q => exact ih q x y ha
    | endToBoundary u v => exact ih lo x y ha

theorem attempt_noBack (g : Graph) (src : List Nat) (isPrefix : Bool) (start : Nat) :
    NoBack start (attemptI g src isPrefix start (attemptFuel g src) g.root start none start).2 :=
  noBack_of_monotone _ start (attemptI_attOnly g src isPrefix start _ _ _ _ _)
    (attemptI_reads_monotone g src isPrefix start _ _ _ _ _)

theorem nextLoopI_noBack (g : Graph) (isPrefix : Bool) (cb : Callbacks) (utf8 : Bool) (src : List Nat) :
    ∀ (fuel start : Nat), NoBack start (nextLoopI g isPrefix cb utf8 src fuel start).2 := by
  intro fuel
  induction fuel with
  | zero => intro start; trivial
  | succ n ih =>
    intro start
    have ha := attempt_noBack g src isPrefix start
    simp only [nextLoopI]
    cases attemptOfStop (attemptI g src isPrefix start (attemptFuel g src) g.root start none start).1 with
    | eoi => exact ha
    | needMore => exact ha
    | diverge => exact ha
    | «nomatch» off =>
      simp only
      cases utf8 with
      | false => exact noBack_append_boundary _ _ _ _ ha
      | true =>
        simp only [if_true]
        cases findBoundary src (max off (start + 1)) with
        | none => exact ha
        | some e => exact noBack_append_boundary _ _ _ _ ha
    | matched l te =>
      simp only
      cases (cb l (slice src start te) (src.drop te)).act with
      | emit => exact ha
      | errDefault => exact ha
      | errCustom t => exact ha
      | skip =>
        simp only [List.append_assoc, List.singleton_append]
        exact noBack_append_trivia _ _ _ _ ha (ih _)

theorem lexFromI_noBack (g : Graph) (isPrefix : Bool) (cb : Callbacks) (utf8 : Bool) (src : List Nat) :
    ∀ (fuel pos lo : Nat), NoBack lo (lexFromI g isPrefix cb utf8 src fuel pos).2 := by
  intro fuel
  induction fuel with
  | zero => intro pos lo; trivial
  | succ n ih =>
    intro pos lo
    have hn := nextLoopI_noBack g isPrefix cb utf8 src (src.length + 2) pos
    simp only [lexFromI]
    cases hres : nextLoopI g isPrefix cb utf8 src (src.length + 2) pos with
    | mk res tr =>
      rw [hres] at hn
      cases res with
      | none s e => exact hn
      | diverge => exact hn
      | item it =>
        show NoBack pos (tr ++ (lexFromI g isPrefix cb utf8 src n it.stop).2)
        cases hr : (lexFromI g isPrefix cb utf8 src n it.stop).2 with
        | nil => rw [List.append_nil]; exact hn
        | cons e t =>
          have hrest := ih it.stop 0
          rw [hr] at hrest
          cases n with
          | zero => simp [lexFromI] at hr
          | succ m =>
            -- the rest of the run begins with its own `next` event
            have hhead : e = .next it.stop := by
              simp only [lexFromI] at hr
              split at hr <;> (injection hr with h1 _; exact h1.symm)
            subst hhead
            exact noBack_append_next _ _ _ _ hn hrest

/-- **C20 (the whole run).** In the trace of a whole lexing run no read goes back behind an earlier read of the same
attempt, and an attempt reads nothing before the position it was started at; the bound is reset only by a call of `next`
and by the restart behind a skipped match.  Every graph, callback table, mode and input. -/
theorem interpLex_noBack (g : Graph) (isPrefix : Bool) (cb : Callbacks) (utf8 : Bool) (src : List Nat) :
    NoBack 0 (interpLex g isPrefix cb utf8 src).2 :=
  lexFromI_noBack g isPrefix cb utf8 src _ 0 0

/-! ## where the attempts begin -/

def nextPos : List Ev → List Nat
  | [] => []
  | .next p :: t => p :: nextPos t
  | _ :: t => nextPos t

theorem nextPos_append (a b : List Ev) : nextPos (a ++ b) = nextPos a ++ nextPos b := by
  induction a with
  | nil => rfl
  | cons e t ih => cases e <;> simp [nextPos, ih]

theorem nextPos_attOnly {tr : List Ev} (h : AttOnly tr) : nextPos tr = [] := by
  induction tr with
  | nil => rfl
  | cons e t ih =>
    have ht : AttOnly t := fun x hx => h x (List.mem_cons_of_mem _ hx)
    cases e with
    | next p => have := h (.next p) (List.mem_cons_self); cases this
    | _ => simp [nextPos, ih ht]

theorem nextLoopI_nextPos (g : Graph) (isPrefix : Bool) (cb : Callbacks) (utf8 : Bool) (src : List Nat) :
    ∀ (fuel start : Nat), nextPos (nextLoopI g isPrefix cb utf8 src fuel start).2 = [] := by
  intro fuel
  induction fuel with
  | zero => intro start; rfl
  | succ n ih =>
    intro start
    have ha := nextPos_attOnly (attemptI_attOnly g src isPrefix start (attemptFuel g src) g.root start none start)
    simp only [nextLoopI]
    cases attemptOfStop (attemptI g src isPrefix start (attemptFuel g src) g.root start none start).1 with
    | eoi => exact ha
    | needMore => exact ha
    | diverge => exact ha
    | «nomatch» off =>
      simp only
      cases utf8 with
      | false => simp [nextPos_append, ha, nextPos]
      | true =>
        simp only [if_true]
        cases findBoundary src (max off (start + 1)) with
        | none => exact ha
        | some e => simp [nextPos_append, ha, nextPos]
    | matched l te =>
      simp only
      cases (cb l (slice src start te) (src.drop te)).act with
      | emit => exact ha
      | errDefault => exact ha
      | errCustom t => exact ha
      | skip => simp [nextPos_append, ha, nextPos, ih]

/-- **C20 (attempts begin where the last item ended).** In a run that comes to an end, `Lexer::next` is entered at the
start position and then exactly at the end of each item produced, in order. -/
theorem lexFromI_nextPos (g : Graph) (isPrefix : Bool) (cb : Callbacks) (utf8 : Bool) (src : List Nat) :
    ∀ (fuel pos : Nat), (lexFromI g isPrefix cb utf8 src fuel pos).1.2 ≠ .diverge →
      nextPos (lexFromI g isPrefix cb utf8 src fuel pos).2 =
        pos :: (lexFromI g isPrefix cb utf8 src fuel pos).1.1.map Item.stop := by
  intro fuel
  induction fuel with
  | zero => intro pos h; exact absurd rfl h
  | succ n ih =>
    intro pos h
    have hn := nextLoopI_nextPos g isPrefix cb utf8 src (src.length + 2) pos
    simp only [lexFromI] at h ⊢
    cases hres : nextLoopI g isPrefix cb utf8 src (src.length + 2) pos with
    | mk res tr =>
      rw [hres] at hn h
      cases res with
      | none s e => simp [nextPos, hn]
      | diverge => exact absurd rfl h
      | item it =>
        simp only at h ⊢
        simp only [nextPos, nextPos_append, hn, List.map_cons]
        rw [ih it.stop h]
        rfl

end Logos

namespace Logos
/-- the predicate is not vacuous: a read behind an earlier read of the same attempt is refused, the same read after a
restart event is fine -/
example : ¬ NoBack 0 [.next 0, .read 5 1 true, .read 3 1 true] := by simp [NoBack]
example : NoBack 0 [.next 0, .read 5 1 true, .trivia 3, .read 3 1 true] := by simp [NoBack]
end Logos
