import LogosModel.BumpTiles
/-!
# C13: `Skip` is transparent, bumped bytes belong to the current item

"A skipped match leaves the stream identical to that of the same definition with those bytes consumed by a skip pattern,
and bytes bumped inside a callback extend the current item and are excluded from the next."

In the model a skip pattern *is* a leaf whose callback answers `.skip` (`Callback.constructSkip`), so the first clause
is about what a `.skip` answer does to the rest of the stream.  `markSkips mark cb` is the callback table that answers
`Err(mark)` wherever `cb` answers `Skip` (same bump) - every skipped match becomes a visible item.
**`C13_skip_transparent`**: for every well-formed graph, either lexer mode, every callback table that bumps inside the
remainder and every input, the stream with `cb` is the stream with `markSkips mark cb` with the marker items deleted:
a `Skip` consumes exactly the bytes of its match (and what the callback bumped), no other item moves, appears or
disappears, and the final `None` is reported at the same place.  The two runs divide their work differently
(`Lexer::next` loops over skipped matches inside one call; the marked run returns to the caller each time), which is
what the proof has to bridge (`nextLoop_mark_step`, `lexFromG`).

`C13_bump_extends`: a match of leaf `l` ending at `te` whose callback emits after `bump(b)` is reported as
`l : start .. te + b`, and `C13_bump_excluded`: the lexing loop goes on from `te + b`.
-/
namespace Logos

/-- where `cb` skips, answer a custom error `mark` instead (same bump) -/
def markSkips (mark : Nat) (cb : Callbacks) : Callbacks := fun l s r =>
  match (cb l s r).act with
  | .skip => ⟨.errCustom mark, (cb l s r).bump⟩
  | _ => cb l s r

def Item.isMark (mark : Nat) : Item → Bool
  | .err (some t) _ _ => t == mark
  | _ => false

def dropMarks (mark : Nat) (r : List Item × Final) : List Item × Final :=
  (r.1.filter fun it => !it.isMark mark, r.2)

theorem markSkips_bump (mark : Nat) (cb : Callbacks) (l : Nat) (s r : List Nat) :
    (markSkips mark cb l s r).bump = (cb l s r).bump := by
  unfold markSkips
  cases h : (cb l s r).act <;> simp

theorem markSkips_bumpOK {mark : Nat} {cb : Callbacks} (h : BumpOK cb) : BumpOK (markSkips mark cb) := by
  intro l s r
  rw [markSkips_bump]
  exact h l s r

/-- the marked table never skips, so one call of `next` is one match attempt whatever the fuel -/
theorem nextLoop_mark_fuel (att : Nat → Attempt) (mark : Nat) (cb : Callbacks) (utf8 : Bool) (inp : List Nat)
    (k start : Nat) :
    nextLoop att (markSkips mark cb) utf8 inp (k + 1) start = nextLoop att (markSkips mark cb) utf8 inp 1 start := by
  simp only [nextLoop]
  cases att start with
  | matched l te =>
    simp only
    unfold markSkips
    cases h : (cb l (slice inp start te) (inp.drop te)).act <;> simp [h]
  | _ => rfl

/-- one call of `next` with `cb`: what the marked table reports, except that after a marker the call goes on -/
theorem nextLoop_mark_step (att : Nat → Attempt) (mark : Nat) (cb : Callbacks)
    (hfresh : ∀ l s r, (cb l s r).act ≠ .errCustom mark) (utf8 : Bool) (inp : List Nat) (n start : Nat) :
    nextLoop att cb utf8 inp (n + 1) start =
      match nextLoop att (markSkips mark cb) utf8 inp 1 start with
      | .item it => if it.isMark mark then nextLoop att cb utf8 inp n it.stop else .item it
      | r => r := by
  simp only [nextLoop]
  cases att start with
  | eoi => rfl
  | needMore => rfl
  | diverge => rfl
  | «nomatch» off =>
    simp only
    cases utf8 with
    | false => simp [Item.isMark]
    | true =>
      simp only [if_true]
      cases findBoundary inp (max off (start + 1)) <;> simp [Item.isMark]
  | matched l te =>
    simp only
    have hf := hfresh l (slice inp start te) (inp.drop te)
    unfold markSkips
    cases h : (cb l (slice inp start te) (inp.drop te)).act with
    | skip => simp [Item.isMark, Item.stop]
    | emit => simp [h, Item.isMark]
    | errDefault => simp [h, Item.isMark]
    | errCustom t =>
      have : t ≠ mark := by intro e; subst e; exact hf h
      simp [h, Item.isMark, this]

/-- the lexing loop with the fuel of its first call of `next` made explicit -/
def lexFromG (att : Nat → Attempt) (cb : Callbacks) (utf8 : Bool) (inp : List Nat) (f n pos : Nat) :
    List Item × Final :=
  match nextLoop att cb utf8 inp n pos with
  | .item it =>
    let r := lexFrom att cb utf8 inp f it.stop
    (it :: r.1, r.2)
  | .none s e => ([], .done s e)
  | .diverge => ([], .diverge)

theorem lexFrom_succ (att : Nat → Attempt) (cb : Callbacks) (utf8 : Bool) (inp : List Nat) (f pos : Nat) :
    lexFrom att cb utf8 inp (f + 1) pos = lexFromG att cb utf8 inp f (inp.length + 2) pos := rfl

/-- more fuel changes nothing once the lexing loop has come to an end -/
theorem lexFrom_fuel_mono (att : Nat → Attempt) (cb : Callbacks) (utf8 : Bool) (inp : List Nat) :
    ∀ (f1 f2 pos : Nat), f1 ≤ f2 → (lexFrom att cb utf8 inp f1 pos).2 ≠ .diverge →
      lexFrom att cb utf8 inp f2 pos = lexFrom att cb utf8 inp f1 pos := by
  intro f1
  induction f1 with
  | zero => intro f2 pos _ h; exact absurd rfl h
  | succ n ih =>
    intro f2 pos hle h
    cases f2 with
    | zero => omega
    | succ m =>
      simp only [lexFrom] at h ⊢
      cases hres : nextLoop att cb utf8 inp (inp.length + 2) pos with
      | item it =>
        rw [hres] at h
        simp only at h ⊢
        rw [ih m it.stop (by omega) h]
      | none s e => rfl
      | diverge => rfl

theorem lexFromG_fuel_mono (att : Nat → Attempt) (cb : Callbacks) (utf8 : Bool) (inp : List Nat)
    (f1 f2 n pos : Nat) (hle : f1 ≤ f2) (h : (lexFromG att cb utf8 inp f1 n pos).2 ≠ .diverge) :
    lexFromG att cb utf8 inp f2 n pos = lexFromG att cb utf8 inp f1 n pos := by
  unfold lexFromG at h ⊢
  cases hres : nextLoop att cb utf8 inp n pos with
  | item it =>
    rw [hres] at h
    simp only at h ⊢
    rw [lexFrom_fuel_mono att cb utf8 inp f1 f2 it.stop hle h]
  | none s e => rfl
  | diverge => rfl

theorem skip_transparent_aux {G : Graph} (hwf : WF G) (p : Bool) (mark : Nat) (cb : Callbacks) (hcb : BumpOK cb)
    (hfresh : ∀ l s r, (cb l s r).act ≠ .errCustom mark) (utf8 : Bool) (inp : List Nat) (hb : ∀ b ∈ inp, b < 256) :
    ∀ (f pos n : Nat), pos ≤ inp.length → inp.length - pos ≤ f → inp.length - pos + 1 ≤ n →
      lexFromG (walkAttempt G p inp) cb utf8 inp f n pos =
          dropMarks mark (lexFrom (walkAttempt G p inp) (markSkips mark cb) utf8 inp (f + 1) pos) ∧
        (lexFrom (walkAttempt G p inp) (markSkips mark cb) utf8 inp (f + 1) pos).2 ≠ .diverge := by
  intro f
  induction f with
  | zero =>
    intro pos n hp hf hn
    have hpos : pos = inp.length := by omega
    cases n with
    | zero => omega
    | succ n' =>
      unfold lexFromG
      simp only [lexFrom]
      rw [nextLoop_mark_step _ mark cb hfresh, nextLoop_mark_fuel _ mark cb utf8 inp (inp.length + 1) pos]
      rcases nextLoop_ok_any hwf (markSkips mark cb) (markSkips_bumpOK hcb) utf8 p inp hb 1 pos hp (by omega) with
        ⟨q, h, _, _⟩ | ⟨it, h, h1, h2, h3⟩
      · rw [h]; exact ⟨rfl, by simp⟩
      · omega
  | succ f' ih =>
    intro pos n hp hf hn
    cases n with
    | zero => omega
    | succ n' =>
      unfold lexFromG
      rw [lexFrom]
      rw [nextLoop_mark_step _ mark cb hfresh, nextLoop_mark_fuel _ mark cb utf8 inp (inp.length + 1) pos]
      rcases nextLoop_ok_any hwf (markSkips mark cb) (markSkips_bumpOK hcb) utf8 p inp hb (inp.length + 2) pos hp
        (by omega) with ⟨q, h, _, _⟩ | ⟨it, h, h1, h2, h3⟩
      · rw [nextLoop_mark_fuel _ mark cb utf8 inp (inp.length + 1) pos] at h
        rw [h]; exact ⟨rfl, by simp⟩
      · rw [nextLoop_mark_fuel _ mark cb utf8 inp (inp.length + 1) pos] at h
        rw [h]
        simp only
        have hstop : pos < it.stop := by omega
        by_cases hm : it.isMark mark = true
        · -- a skipped match: the call of `next` goes on behind it
          simp only [hm, if_true]
          obtain ⟨e1, e2⟩ := ih it.stop n' h3 (by omega) (by omega)
          have hnd : (lexFromG (walkAttempt G p inp) cb utf8 inp f' n' it.stop).2 ≠ .diverge := by
            rw [e1]; exact e2
          have hmono := lexFromG_fuel_mono (walkAttempt G p inp) cb utf8 inp f' (f' + 1) n' it.stop (by omega) hnd
          unfold lexFromG at hmono e1
          rw [hmono, e1]
          refine ⟨?_, e2⟩
          simp [dropMarks, hm]
        · have hm' : it.isMark mark = false := by simpa using hm
          simp only [hm', Bool.false_eq_true, if_false]
          obtain ⟨e1, e2⟩ := ih it.stop (inp.length + 2) h3 (by omega) (by omega)
          have e1' := (lexFrom_succ (walkAttempt G p inp) cb utf8 inp f' it.stop).trans e1
          rw [e1']
          refine ⟨?_, e2⟩
          simp [dropMarks, hm']

/-- **C13 (Skip is transparent).**  The stream of a lexer whose callbacks skip some matches is the stream in which
those matches are reported (as marker items), with the markers deleted; the final `None` is reported at the same place. -/
theorem C13_skip_transparent {G : Graph} (hwf : WF G) (p : Bool) (mark : Nat) (cb : Callbacks) (hcb : BumpOK cb)
    (hfresh : ∀ l s r, (cb l s r).act ≠ .errCustom mark) (utf8 : Bool) (inp : List Nat) (hb : ∀ b ∈ inp, b < 256) :
    graphLex G p cb utf8 inp = dropMarks mark (graphLex G p (markSkips mark cb) utf8 inp) := by
  unfold graphLex lexAll
  rw [lexFrom_succ]
  exact (skip_transparent_aux hwf p mark cb hcb hfresh utf8 inp hb (inp.length + 1) 0 (inp.length + 2)
    (Nat.zero_le _) (by omega) (by omega)).1

/-- **C13 (bumped bytes extend the current item).** -/
theorem C13_bump_extends (att : Nat → Attempt) (cb : Callbacks) (utf8 : Bool) (inp : List Nat) (n start l te : Nat)
    (hatt : att start = .matched l te) (hact : (cb l (slice inp start te) (inp.drop te)).act = .emit) :
    nextLoop att cb utf8 inp (n + 1) start =
      .item (.ok l start (te + (cb l (slice inp start te) (inp.drop te)).bump)) := by
  simp only [nextLoop, hatt, hact]

/-- **C13 (.. and are excluded from the next).**  After such an item the lexing loop goes on at `te + bump`. -/
theorem C13_bump_excluded (att : Nat → Attempt) (cb : Callbacks) (utf8 : Bool) (inp : List Nat) (f start l te : Nat)
    (hatt : att start = .matched l te) (hact : (cb l (slice inp start te) (inp.drop te)).act = .emit) :
    lexFrom att cb utf8 inp (f + 1) start =
      let e := te + (cb l (slice inp start te) (inp.drop te)).bump
      (.ok l start e :: (lexFrom att cb utf8 inp f e).1, (lexFrom att cb utf8 inp f e).2) := by
  simp only [lexFrom]
  rw [C13_bump_extends att cb utf8 inp (inp.length + 1) start l te hatt hact]
  rfl

end Logos
