import LogosModel.Cert
namespace Logos

def EntryInv (G : Graph) (st k : Nat) (ctx : Option Nat) (tokEnd : Nat) (bestPrev : Rec) : Prop :=
  match (G.get st).accept with
  | some l => bestPrev = some (k-1, l)
  | none => recOf ctx tokEnd = bestPrev

/-- The record applied on entry; relation with the reference `upd`. -/
theorem record_post {G : Graph} {prios : List Nat} {C} {st : Nat} {Δ : Vec} {k : Nat} {ctx tokEnd} {bestPrev : Rec}
    (hl : Local G prios C st Δ) (he : EntryInv G st k ctx tokEnd bestPrev) :
    let r := record (G.get st) k ctx tokEnd
    recOf r.1 r.2 = upd prios Δ k bestPrev ∨
      (∃ l, win prios Δ = some l ∧ (G.get st).early ≠ some l) := by
  intro r
  show recOf (record (G.get st) k ctx tokEnd).1 (record (G.get st) k ctx tokEnd).2 = _ ∨ _
  unfold EntryInv at he
  unfold record
  cases hE : (G.get st).early with
  | some l =>
    left
    have := hl.early_ok l hE
    simp [recOf, upd, this]
  | none =>
    cases hw : win prios Δ with
    | some l' => right; exact ⟨l', rfl, by simp⟩
    | none =>
      left
      cases hA : (G.get st).accept with
      | some l => simp [hA] at he; simp [recOf, upd, hw, he]
      | none => simp [hA] at he; simp [upd, hw, he]

/-- A state paired with a non-viable derivative vector has no way out. -/
theorem dead_stops {G : Graph} {prios D C} (hv : Valid G prios D C) {t : Nat} {Δ : Vec}
    (hC : C t Δ) (hd : viableV Δ = false) (start : Nat) (w : List Nat) (hw : ∀ b ∈ w, b < 256) (k : Nat) (hk : start < k)
    (ctx : Option Nat) (tokEnd : Nat) :
    (G.get t).early = none ∧
    walk G false start t w k ctx tokEnd =
      .action k (record (G.get t) k ctx tokEnd).1 (record (G.get t) k ctx tokEnd).2 := by
  have hl := hv.loc t Δ hC
  have nowin : ∀ l, win prios Δ ≠ some l := by
    intro l h; have := win_viable h; rw [hd] at this; cases this
  have hearly : (G.get t).early = none := by
    cases h : (G.get t).early with
    | none => rfl
    | some l => exact absurd (hl.early_ok l h) (nowin l)
  refine ⟨hearly, ?_⟩
  cases w with
  | nil =>
    simp only [walk]
    have hfuel : G.states.size + 1 = (G.states.size) + 1 := rfl
    rw [atEoi]
    have hroot : (t == G.root && start == k) = false := by
      have : (start == k) = false := by simp; omega
      simp [this]
    simp only [Bool.and_false, hroot]
    cases he : (G.get t).eoi with
    | none => simp
    | some t' =>
      exfalso
      obtain ⟨_, _, hacc, _⟩ := hv.wf.eoiT t t' he
      cases ha : (G.get t').accept with
      | none => rw [ha] at hacc; cases hacc
      | some l => exact nowin l (hl.eoi_ok t' he l ha)
  | cons b w' =>
    have hb : b < 256 := hw b (by simp)
    simp only [walk]
    cases hn : (G.get t).next b with
    | none => rfl
    | some t' =>
      exfalso
      obtain ⟨h1, h2, _⟩ := hl.edge b hb t' hn
      rcases h2 with h2 | h2
      · rw [viableV_deriv_false hd] at h2; cases h2
      · cases ha : (G.get t').accept with
        | none => rw [ha] at h2; cases h2
        | some l => exact nowin l (h1 l ha)

theorem walk_eq_scan {G : Graph} {prios D C} (hv : Valid G prios D C) (start : Nat) :
    ∀ (w : List Nat) (st : Nat) (Δ : Vec) (k : Nat) (ctx : Option Nat) (tokEnd : Nat) (bestPrev : Rec),
      (∀ b ∈ w, b < 256) → start < k → C st Δ → EntryInv G st k ctx tokEnd bestPrev →
      ∃ off c e, walk G false start st w k ctx tokEnd = .action off c e ∧
        recOf c e = (scan prios Δ w k (upd prios Δ k bestPrev)).1 ∧
        ((scan prios Δ w k (upd prios Δ k bestPrev)).1 = none →
          off = (scan prios Δ w k (upd prios Δ k bestPrev)).2) := by
  intro w
  induction w with
  | nil =>
    intro st Δ k ctx tokEnd bestPrev _ hk hC he
    have hl := hv.loc st Δ hC
    have hpost := record_post hl he
    simp only [walk, scan]
    generalize hr : record (G.get st) k ctx tokEnd = r at hpost
    obtain ⟨c1, e1⟩ := r
    simp only at hpost ⊢
    rw [atEoi]
    have hroot : (st == G.root && start == k) = false := by
      have : (start == k) = false := by simp; omega
      simp [this]
    simp only [Bool.and_false, hroot]
    cases hE : (G.get st).eoi with
    | none =>
      refine ⟨k, c1, e1, by simp, ?_, fun _ => rfl⟩
      rcases hpost with h | ⟨l, hwn, hne⟩
      · exact h
      · obtain ⟨t, ht, _⟩ := hl.pend_eoi l hwn hne
        rw [hE] at ht; cases ht
    | some t =>
      obtain ⟨hteoi, htearly, htacc, _⟩ := hv.wf.eoiT st t hE
      cases ha : (G.get t).accept with
      | none => rw [ha] at htacc; cases htacc
      | some l =>
        have hwin := hl.eoi_ok t hE l ha
        have hrec : record (G.get t) (k+1) c1 e1 = (some l, k) := by
          simp [record, htearly, ha]
        simp only [hrec]
        have hsz := hv.wf.size
        obtain ⟨n, hn⟩ : ∃ n, G.states.size = n + 1 := ⟨G.states.size - 1, by omega⟩
        rw [hn, atEoi]
        have hroot2 : (t == G.root && start == k + 1) = false := by
          have : (start == k + 1) = false := by simp; omega
          simp [this]
        simp only [Bool.and_false, hroot2, hteoi]
        refine ⟨k+1, some l, k, by simp, ?_, ?_⟩
        · simp [recOf, upd, hwin]
        · intro h; simp [upd, hwin] at h
  | cons b w' ih =>
    intro st Δ k ctx tokEnd bestPrev hw hk hC he
    have hb : b < 256 := hw b (by simp)
    have hw' : ∀ x ∈ w', x < 256 := fun x hx => hw x (by simp [hx])
    have hl := hv.loc st Δ hC
    have hpost := record_post hl he
    simp only [walk]
    generalize hr : record (G.get st) k ctx tokEnd = r at hpost
    obtain ⟨c1, e1⟩ := r
    simp only at hpost ⊢
    cases hn : (G.get st).next b with
    | none =>
      have hdead := hl.noedge b hb hn
      simp only [scan, hdead]
      refine ⟨k, c1, e1, rfl, ?_, fun _ => rfl⟩
      rcases hpost with h | ⟨l, hwn, hne⟩
      · exact h
      · obtain ⟨t, ht, _⟩ := hl.pend_byte l hwn hne b hb
        rw [hn] at ht; cases ht
    | some t =>
      obtain ⟨h1, h2, h3⟩ := hl.edge b hb t hn
      -- entry invariant for t
      have he' : EntryInv G t (k+1) c1 e1 (upd prios Δ k bestPrev) := by
        unfold EntryInv
        cases ha : (G.get t).accept with
        | some l => simp [upd, h1 l ha]
        | none =>
          simp only
          rcases hpost with h | ⟨l, hwn, hne⟩
          · exact h
          · obtain ⟨t2, ht2, ha2⟩ := hl.pend_byte l hwn hne b hb
            rw [hn] at ht2; cases ht2; rw [ha] at ha2; cases ha2
      simp only
      cases hvd : viableV (derivV b Δ) with
      | true =>
        have := ih t (derivV b Δ) (k+1) c1 e1 (upd prios Δ k bestPrev) hw' (by omega) h3 he'
        simpa only [scan, hvd, if_true] using this
      | false =>
        simp only [scan, hvd]
        obtain ⟨htE, hwalk⟩ := dead_stops hv h3 hvd start w' hw' (k+1) (by omega) c1 e1
        rw [hwalk]
        have hacc : (G.get t).accept.isSome = true := by
          rcases h2 with h2 | h2
          · rw [hvd] at h2; cases h2
          · exact h2
        cases ha : (G.get t).accept with
        | none => rw [ha] at hacc; cases hacc
        | some l =>
          have hwin := h1 l ha
          have hrec : record (G.get t) (k+1) c1 e1 = (some l, k) := by simp [record, htE, ha]
          rw [hrec]
          refine ⟨k+1, some l, k, rfl, ?_, ?_⟩
          · simp [recOf, upd, hwin]
          · intro h; simp [upd, hwin] at h

end Logos
