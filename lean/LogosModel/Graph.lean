import LogosModel.Re
/-!
# The graph logos compiles a definition into (logos-codegen/src/graph/mod.rs)

`StateData { state_type: { early, accept }, normal: Vec<(ByteClass, State)>, eoi }`, `Graph { states, root }`.
A `ByteClass` is a list of inclusive byte ranges.  Leaves are identified by their index.
-/
namespace Logos

structure Edge where
  ranges : List (Nat × Nat)
  target : Nat
deriving Repr, DecidableEq

structure StateData where
  early  : Option Nat := none
  accept : Option Nat := none
  normal : List Edge := []
  eoi    : Option Nat := none
deriving Repr, DecidableEq

structure Graph where
  states : Array StateData
  root   : Nat
deriving Repr

/-- The transition the generated fork takes on byte `b`: first edge (in emission order) whose class
contains `b`.  (With pairwise disjoint classes the order is immaterial; see `WF`.) -/
def StateData.next (sd : StateData) (b : Nat) : Option Nat :=
  (sd.normal.find? fun e => inRanges e.ranges b).map (·.target)

def Graph.get (g : Graph) (s : Nat) : StateData := g.states.getD s {}

/-- What the `setup` block of a state does to `(context, token_end)` when the state is entered with
`offset = pos` (generator/mod.rs `generate_state`): `early` records `pos`, else `accept` records
`pos - 1`, else nothing. -/
def record (sd : StateData) (pos : Nat) (ctx : Option Nat) (tokEnd : Nat) : Option Nat × Nat :=
  match sd.early, sd.accept with
  | some l, _ => (some l, pos)
  | none, some l => (some l, pos - 1)
  | none, none => (ctx, tokEnd)

end Logos
