import LogosModel.Graph
/-!
# Byte-by-byte walk of a graph: one match attempt

This is the reference operational reading of the generated code with the fast loops unrolled into
single steps (`Interp.lean` has the faithful version and the proof that it agrees).
`start` is `lex.offset()` (token start), `pos` the generated code's `offset`.
-/
namespace Logos

inductive Stop where
  /-- partial lexer ran out of buffer: `lex.end(lex.offset()); return None` -/
  | needMore
  /-- root state at end of input with nothing consumed: `return None` -/
  | endOfInput
  /-- `_take_action!(lex, offset, context, state)` reached with these values and `token_end` -/
  | action (offset : Nat) (ctx : Option Nat) (tokEnd : Nat)
  /-- chain of end-of-input edges longer than the number of states (the real code would spin) -/
  | diverge
deriving Repr, DecidableEq

/-- End-of-input handling (generator/fork.rs `fork_eoi`) at state `st`, whose own record has already
been applied. -/
def atEoi (g : Graph) (isPrefix : Bool) (start : Nat) :
    (fuel : Nat) → (st pos : Nat) → (ctx : Option Nat) → (tokEnd : Nat) → Stop
  | 0, _, _, _, _ => .diverge
  | fuel+1, st, pos, ctx, tokEnd =>
    let sd := g.get st
    if (!sd.normal.isEmpty || sd.eoi.isSome) && isPrefix then .needMore
    else if st == g.root && start == pos then .endOfInput
    else match sd.eoi with
      | some t =>
        let r := record (g.get t) (pos+1) ctx tokEnd
        atEoi g isPrefix start fuel t (pos+1) r.1 r.2
      | none => .action pos ctx tokEnd

def walk (g : Graph) (isPrefix : Bool) (start : Nat) :
    (st : Nat) → (rest : List Nat) → (pos : Nat) → (ctx : Option Nat) → (tokEnd : Nat) → Stop
  | st, [], pos, ctx, tokEnd =>
    let r := record (g.get st) pos ctx tokEnd
    atEoi g isPrefix start (g.states.size + 1) st pos r.1 r.2
  | st, b :: rest, pos, ctx, tokEnd =>
    let sd := g.get st
    let r := record sd pos ctx tokEnd
    match sd.next b with
    | some t => walk g isPrefix start t rest (pos+1) r.1 r.2
    | none => .action pos r.1 r.2

end Logos
