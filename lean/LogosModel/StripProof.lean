import LogosModel.Strip
/-!
# C17: the derive list keeps every derive except `Logos`, path-qualified ones included
-/
namespace Logos.Strip

/-- non-empty entries (a trailing comma produces an empty last entry) -/
def nonEmpty (es : List (List Tok)) : List (List Tok) := es.filter fun e => !e.isEmpty

theorem entries_ne_nil (ts : List Tok) : entries ts ≠ [] := by
  induction ts with
  | nil => simp [entries]
  | cons t rest ih =>
    cases t <;> simp [entries]
    all_goals (split <;> simp)

theorem entries_cons_of_ne_comma (t : Tok) (rest : List Tok) (ht : t ≠ .comma) {hd : List Tok} {tl : List (List Tok)}
    (h : entries rest = hd :: tl) : entries (t :: rest) = (t :: hd) :: tl := by
  cases t <;> simp_all [entries]

theorem entries_append (cur ts : List Tok) (hc : ∀ t ∈ cur, t ≠ Tok.comma) {hd : List Tok} {tl : List (List Tok)}
    (h : entries ts = hd :: tl) : entries (cur ++ ts) = (cur ++ hd) :: tl := by
  induction cur with
  | nil => simpa using h
  | cons c cur ih =>
    have := ih (fun t ht => hc t (List.mem_cons_of_mem _ ht))
    simpa using entries_cons_of_ne_comma c (cur ++ ts) (hc c (by simp)) this

theorem entries_append_comma (cur rest : List Tok) (hc : ∀ t ∈ cur, t ≠ Tok.comma) :
    entries (cur ++ Tok.comma :: rest) = cur :: entries rest := by
  have : entries (Tok.comma :: rest) = [] :: entries rest := by simp [entries]
  simpa using entries_append cur _ hc this

theorem entries_commaFree (cur : List Tok) (hc : ∀ t ∈ cur, t ≠ Tok.comma) : entries cur = [cur] := by
  have : entries [] = [[]] := by simp [entries]
  simpa using entries_append cur [] hc this

theorem isLogosEntry_nil : isLogosEntry [] = false := by simp [isLogosEntry]

theorem go_cons_ne (t : Tok) (rest cur : List Tok) (ht : t ≠ .comma) :
    stripFixedGo (t :: rest) cur = stripFixedGo rest (cur ++ [t]) := by
  cases t <;> simp_all [stripFixedGo]

theorem go_entries (ts cur : List Tok) (hc : ∀ t ∈ cur, t ≠ Tok.comma) :
    nonEmpty (entries (stripFixedGo ts cur))
      = nonEmpty ((entries (cur ++ ts)).filter fun e => !isLogosEntry e) := by
  induction ts generalizing cur with
  | nil =>
    simp only [stripFixedGo, List.append_nil, entries_commaFree cur hc]
    by_cases h : isLogosEntry cur
    · simp [h, entries, nonEmpty]
    · simp [h, entries_commaFree cur hc]
  | cons t rest ih =>
    by_cases ht : t = .comma
    · subst ht
      have ih' := ih [] (by simp)
      simp only [List.nil_append] at ih'
      rw [entries_append_comma cur rest hc]
      simp only [stripFixedGo]
      by_cases h : isLogosEntry cur
      · simp [h, ih']
      · have : (cur ++ [Tok.comma]) ++ stripFixedGo rest [] = cur ++ Tok.comma :: stripFixedGo rest [] := by simp
        simp only [h, Bool.false_eq_true, if_false, this, entries_append_comma _ _ hc]
        simp only [nonEmpty] at ih' ⊢
        simp [List.filter_cons, h, ih']
    · rw [go_cons_ne t rest cur ht]
      have := ih (cur ++ [t]) (by
        intro x hx
        rcases List.mem_append.1 hx with hx | hx
        · exact hc x hx
        · simp at hx; subst hx; exact ht)
      simpa using this

/-- **C17, derive list.** The repaired rewrite keeps exactly the entries that do not denote `Logos`
(as plain `Logos` or as a path ending in `Logos`), in their order, each with its tokens unchanged. -/
theorem stripFixed_entries (ts : List Tok) :
    nonEmpty (entries (stripFixed ts)) = nonEmpty ((entries ts).filter fun e => !isLogosEntry e) := by
  simpa [stripFixed] using go_entries ts [] (by simp)

theorem go_no_logos (ts cur : List Tok) (hc : ∀ t ∈ cur, t ≠ Tok.comma) :
    ∀ e ∈ entries (stripFixedGo ts cur), isLogosEntry e = false := by
  induction ts generalizing cur with
  | nil =>
    simp only [stripFixedGo]
    by_cases h : isLogosEntry cur
    · simp [h, entries, isLogosEntry_nil]
    · simp [h, entries_commaFree cur hc]
  | cons t rest ih =>
    by_cases ht : t = .comma
    · subst ht
      have ih' := ih [] (by simp)
      simp only [stripFixedGo]
      by_cases h : isLogosEntry cur
      · simpa [h] using ih'
      · have : (cur ++ [Tok.comma]) ++ stripFixedGo rest [] = cur ++ Tok.comma :: stripFixedGo rest [] := by simp
        simp only [h, Bool.false_eq_true, if_false, this, entries_append_comma _ _ hc]
        intro e he
        rcases List.mem_cons.1 he with he | he
        · subst he; simpa using h
        · exact ih' e he
    · rw [go_cons_ne t rest cur ht]
      exact ih (cur ++ [t]) (by
        intro x hx
        rcases List.mem_append.1 hx with hx | hx
        · exact hc x hx
        · simp at hx; subst hx; exact ht)

/-- no entry denoting `Logos` survives -/
theorem stripFixed_no_logos (ts : List Tok) : ∀ e ∈ entries (stripFixed ts), isLogosEntry e = false := by
  simpa [stripFixed] using go_no_logos ts [] (by simp)

theorem go_id (ts cur : List Tok) (hc : ∀ t ∈ cur, t ≠ Tok.comma)
    (h : ∀ e ∈ entries (cur ++ ts), isLogosEntry e = false) : stripFixedGo ts cur = cur ++ ts := by
  induction ts generalizing cur with
  | nil =>
    simp only [List.append_nil, entries_commaFree cur hc] at h
    have := h cur (by simp)
    simp [stripFixedGo, this]
  | cons t rest ih =>
    by_cases ht : t = .comma
    · subst ht
      rw [entries_append_comma cur rest hc] at h
      have h1 := h cur (by simp)
      have ih' := ih [] (by simp) (by
        intro e he
        exact h e (List.mem_cons_of_mem _ (by simpa using he)))
      simp [stripFixedGo, h1, ih']
    · rw [go_cons_ne t rest cur ht]
      have := ih (cur ++ [t]) (by
        intro x hx
        rcases List.mem_append.1 hx with hx | hx
        · exact hc x hx
        · simp at hx; subst hx; exact ht) (by simpa using h)
      simpa using this

/-- a derive list without `Logos` is returned unchanged -/
theorem stripFixed_id (ts : List Tok) (h : ∀ e ∈ entries ts, isLogosEntry e = false) : stripFixed ts = ts := by
  simpa [stripFixed] using go_id ts [] (by simp) (by simpa using h)

/-- **The code as found violates C17**: `#[derive(Debug, logos::Logos, Clone)]` becomes
`#[derive(Debug, logos:)]`. -/
theorem stripFound_counterexample :
    stripFound [.ident "Debug", .comma, .ident "logos", .punct ':', .punct ':', .ident "Logos", .comma, .ident "Clone"]
      = [.ident "Debug", .comma, .ident "logos", .punct ':'] := by
  simp [stripFound]

/-- on the same input the repaired rewrite gives `Debug, Clone` -/
theorem stripFixed_example :
    stripFixed [.ident "Debug", .comma, .ident "logos", .punct ':', .punct ':', .ident "Logos", .comma, .ident "Clone"]
      = [.ident "Debug", .comma, .ident "Clone"] := by
  simp [stripFixed, stripFixedGo, isLogosEntry]

/-! ### spacing (defect D11) -/

theorem aloneGo_eq (ts : List STok) (cur : List Tok) (h : ∀ t ∈ ts, t.tok = .comma → t.joint = false) :
    stripAloneGo ts cur = stripFixedGo (ts.map (·.tok)) cur := by
  induction ts generalizing cur with
  | nil => simp [stripAloneGo, stripFixedGo]
  | cons t rest ih =>
    have hr : ∀ t ∈ rest, t.tok = .comma → t.joint = false := fun x hx => h x (List.mem_cons_of_mem _ hx)
    obtain ⟨tk, j⟩ := t
    by_cases hc : tk = .comma
    · subst hc
      have hj : j = false := h ⟨.comma, j⟩ (by simp) rfl
      subst hj
      simp [stripAloneGo, stripFixedGo, ih _ hr]
    · have h1 : stripAloneGo (⟨tk, j⟩ :: rest) cur = stripAloneGo rest (cur ++ [tk]) := by
        cases tk <;> simp_all [stripAloneGo]
      rw [h1, ih _ hr]
      simp [go_cons_ne tk _ cur hc]

/-- while every comma is followed by a blank (spacing `Alone`) the old test and the repaired one agree: the suite and the
documentation only ever write `, ` -/
theorem stripAlone_eq_of_alone (ts : List STok) (h : ∀ t ∈ ts, t.tok = .comma → t.joint = false) :
    stripAlone ts = stripSpaced ts := by
  simpa [stripAlone, stripSpaced, stripFixed] using aloneGo_eq ts [] h

/-- **`is_punct` as found violates C17**: `#[derive(Debug,::logos::Logos)]` becomes `#[derive()]` -/
theorem stripAlone_counterexample :
    stripAlone [⟨.ident "Debug", false⟩, ⟨.comma, true⟩, ⟨.punct ':', true⟩, ⟨.punct ':', false⟩, ⟨.ident "logos", false⟩,
                ⟨.punct ':', true⟩, ⟨.punct ':', false⟩, ⟨.ident "Logos", false⟩] = [] := by
  simp [stripAlone, stripAloneGo, isLogosEntry]

/-- the repaired rewrite keeps `Debug` (and its separator) on that input -/
theorem stripSpaced_example :
    stripSpaced [⟨.ident "Debug", false⟩, ⟨.comma, true⟩, ⟨.punct ':', true⟩, ⟨.punct ':', false⟩, ⟨.ident "logos", false⟩,
                 ⟨.punct ':', true⟩, ⟨.punct ':', false⟩, ⟨.ident "Logos", false⟩] = [.ident "Debug", .comma] := by
  simp [stripSpaced, stripFixed, stripFixedGo, isLogosEntry]

/-- whatever the spacing: the entries kept are exactly the entries that do not name `Logos` -/
theorem stripSpaced_entries (ts : List STok) :
    nonEmpty (entries (stripSpaced ts)) = nonEmpty ((entries (ts.map (·.tok))).filter fun e => !isLogosEntry e) :=
  stripFixed_entries _

end Logos.Strip
