import LogosModel.Priority
/-!
# `Pattern::complexity` in machine integers (C19: the derive never panics; C09: the documented rule)

`Hir.complexity` (Hir.lean) is the documented rule over the natural numbers.  The code computes it in `usize`.

* As found (`complexityFound`): plain `*`, `Iterator::sum` - in a build with overflow checks (what cargo gives a
  procedural macro in the dev profile) an overflow is a **panic of the derive**: `complexityFound = none`.
  `complexityFound_panics`: `(a{4294967295}){4294967295}` panics.  `complexityFound_eq`: where it does not, the value is
  the documented one.
* As repaired (`complexityS`): `saturating_mul`, a saturating fold.  `complexityS_eq`: saturating at every step is
  saturating once - the priority is `min (documented value) usize::MAX` - and `complexityS_of_found`: the repair changes
  nothing wherever the code as found gave a value.
-/
namespace Logos
set_option linter.unusedSimpArgs false

def usizeMaxP : Nat := 2^64 - 1

def satMul (a b : Nat) : Nat := min (a * b) usizeMaxP
def satAdd (a b : Nat) : Nat := min (a + b) usizeMaxP
def chk (n : Nat) : Option Nat := if n ≤ usizeMaxP then some n else none

mutual
/-- the repaired code: every product and every sum saturates -/
def Hir.complexityS : Hir → Nat
  | .empty => 0
  | .lit bs => if validUtf8 bs then satMul 2 (charCount bs) else satMul 2 bs.length
  | .cls _ _ _ => 2
  | .look _ => 0
  | .rep mn _ _ s => satMul mn s.complexityS
  | .cap s => s.complexityS
  | .cat ss => Hir.complexitySumS ss
  | .alt ss => (Hir.complexityMinS ss).getD 0
def Hir.complexitySumS : List Hir → Nat
  | [] => 0
  | h :: t => satAdd h.complexityS (Hir.complexitySumS t)
def Hir.complexityMinS : List Hir → Option Nat
  | [] => none
  | h :: t => match Hir.complexityMinS t with
    | none => some h.complexityS
    | some m => some (min h.complexityS m)
end

mutual
/-- the code as found, in a build with overflow checks: `none` is a panic -/
def Hir.complexityFound : Hir → Option Nat
  | .empty => some 0
  | .lit bs => if validUtf8 bs then chk (2 * charCount bs) else chk (2 * bs.length)
  | .cls _ _ _ => some 2
  | .look _ => some 0
  | .rep mn _ _ s => match s.complexityFound with
    | some c => chk (mn * c)
    | none => none
  | .cap s => s.complexityFound
  | .cat ss => Hir.complexitySumFound ss
  | .alt ss => match Hir.complexityMinFound ss with
    | some m => some (m.getD 0)
    | none => none
def Hir.complexitySumFound : List Hir → Option Nat
  | [] => some 0
  | h :: t => match h.complexityFound, Hir.complexitySumFound t with
    | some a, some b => chk (a + b)
    | _, _ => none
/-- outer `none`: a panic while an alternative was computed; inner: the `min` of an empty iterator -/
def Hir.complexityMinFound : List Hir → Option (Option Nat)
  | [] => some none
  | h :: t => match h.complexityFound, Hir.complexityMinFound t with
    | some a, some none => some (some a)
    | some a, some (some m) => some (some (min a m))
    | _, _ => none
end

theorem satMul_min (n c : Nat) : satMul n (min c usizeMaxP) = min (n * c) usizeMaxP := by
  unfold satMul
  rcases Nat.le_total c usizeMaxP with h | h
  · rw [Nat.min_eq_left h]
  · rw [Nat.min_eq_right h]
    rcases Nat.eq_zero_or_pos n with hn | hn
    · subst hn; simp
    · have h1 : usizeMaxP ≤ n * usizeMaxP := Nat.le_mul_of_pos_left _ hn
      have h2 : usizeMaxP ≤ n * c := Nat.le_trans h1 (Nat.mul_le_mul_left n h)
      rw [Nat.min_eq_right h1, Nat.min_eq_right h2]

theorem satAdd_min (a b : Nat) : satAdd (min a usizeMaxP) (min b usizeMaxP) = min (a + b) usizeMaxP := by
  unfold satAdd; omega

mutual
/-- **saturating at every step is saturating once** -/
theorem complexityS_eq : ∀ (h : Hir), h.complexityS = min h.complexity usizeMaxP
  | .empty => by simp [Hir.complexityS, Hir.complexity]
  | .lit bs => by
      simp only [Hir.complexityS, Hir.complexity]
      split <;> rfl
  | .cls _ _ _ => by simp [Hir.complexityS, Hir.complexity, usizeMaxP]
  | .look _ => by simp [Hir.complexityS, Hir.complexity]
  | .rep mn _ _ s => by
      simp only [Hir.complexityS, Hir.complexity]
      rw [complexityS_eq s, satMul_min]
  | .cap s => by
      simp only [Hir.complexityS, Hir.complexity]
      exact complexityS_eq s
  | .cat ss => by
      simp only [Hir.complexityS, Hir.complexity]
      exact complexitySumS_eq ss
  | .alt ss => by
      simp only [Hir.complexityS, Hir.complexity]
      have := complexityMinS_eq ss
      cases hm : Hir.complexityMin ss with
      | none => rw [hm] at this; simp [this]
      | some m => rw [hm] at this; simp [this]
theorem complexitySumS_eq : ∀ (ss : List Hir), Hir.complexitySumS ss = min (Hir.complexitySum ss) usizeMaxP
  | [] => by simp [Hir.complexitySumS, Hir.complexitySum]
  | h :: t => by
      simp only [Hir.complexitySumS, Hir.complexitySum]
      rw [complexityS_eq h, complexitySumS_eq t, satAdd_min]
theorem complexityMinS_eq : ∀ (ss : List Hir),
    Hir.complexityMinS ss = (Hir.complexityMin ss).map fun m => min m usizeMaxP
  | [] => by simp [Hir.complexityMinS, Hir.complexityMin]
  | h :: t => by
      simp only [Hir.complexityMinS, Hir.complexityMin]
      rw [complexityMinS_eq t, complexityS_eq h]
      cases Hir.complexityMin t with
      | none => simp
      | some m => simp only [Option.map_some]; congr 1; omega
end

theorem chk_some {n v : Nat} (h : chk n = some v) : v = n ∧ n ≤ usizeMaxP := by
  unfold chk at h
  split at h
  · cases h; exact ⟨rfl, by assumption⟩
  · cases h

mutual
/-- where the code as found does not panic it computes the documented value, and that value fits -/
theorem complexityFound_eq : ∀ (h : Hir) (v : Nat), h.complexityFound = some v → v = h.complexity ∧ v ≤ usizeMaxP
  | .empty, v, hv => by simp [Hir.complexityFound] at hv; subst hv; simp [Hir.complexity]
  | .lit bs, v, hv => by
      simp only [Hir.complexityFound] at hv
      simp only [Hir.complexity]
      split at hv <;> rename_i hu <;> simp only [hu, if_true, if_false] <;>
        (obtain ⟨h1, h2⟩ := chk_some hv; subst h1; exact ⟨rfl, h2⟩)
  | .cls _ _ _, v, hv => by simp [Hir.complexityFound] at hv; subst hv; simp [Hir.complexity, usizeMaxP]
  | .look _, v, hv => by simp [Hir.complexityFound] at hv; subst hv; simp [Hir.complexity]
  | .rep mn _ _ s, v, hv => by
      simp only [Hir.complexityFound] at hv
      cases hs : s.complexityFound with
      | none => rw [hs] at hv; cases hv
      | some c =>
        rw [hs] at hv
        obtain ⟨hc, _⟩ := complexityFound_eq s c hs
        obtain ⟨h1, h2⟩ := chk_some hv
        subst h1; subst hc
        exact ⟨by simp [Hir.complexity], h2⟩
  | .cap s, v, hv => by
      simp only [Hir.complexityFound] at hv
      simpa [Hir.complexity] using complexityFound_eq s v hv
  | .cat ss, v, hv => by
      simp only [Hir.complexityFound] at hv
      simpa [Hir.complexity] using complexitySumFound_eq ss v hv
  | .alt ss, v, hv => by
      simp only [Hir.complexityFound] at hv
      cases hm : Hir.complexityMinFound ss with
      | none => rw [hm] at hv; cases hv
      | some m =>
        rw [hm] at hv
        obtain ⟨h1, h2⟩ := complexityMinFound_eq ss m hm
        cases hv
        simp only [Hir.complexity, ← h1]
        refine ⟨trivial, ?_⟩
        cases m with
        | none => simp
        | some x => exact h2 x rfl
theorem complexitySumFound_eq : ∀ (ss : List Hir) (v : Nat), Hir.complexitySumFound ss = some v →
    v = Hir.complexitySum ss ∧ v ≤ usizeMaxP
  | [], v, hv => by simp [Hir.complexitySumFound] at hv; subst hv; simp [Hir.complexitySum]
  | h :: t, v, hv => by
      simp only [Hir.complexitySumFound] at hv
      cases ha : h.complexityFound with
      | none => rw [ha] at hv; cases hv
      | some a =>
        cases hb : Hir.complexitySumFound t with
        | none => rw [ha, hb] at hv; cases hv
        | some b =>
          rw [ha, hb] at hv
          obtain ⟨h1, _⟩ := complexityFound_eq h a ha
          obtain ⟨h2, _⟩ := complexitySumFound_eq t b hb
          obtain ⟨h3, h4⟩ := chk_some hv
          subst h1; subst h2; subst h3
          exact ⟨by simp [Hir.complexitySum], h4⟩
theorem complexityMinFound_eq : ∀ (ss : List Hir) (m : Option Nat), Hir.complexityMinFound ss = some m →
    m = Hir.complexityMin ss ∧ ∀ x, m = some x → x ≤ usizeMaxP
  | [], m, hm => by simp [Hir.complexityMinFound] at hm; subst hm; simp [Hir.complexityMin]
  | h :: t, m, hm => by
      simp only [Hir.complexityMinFound] at hm
      cases ha : h.complexityFound with
      | none => rw [ha] at hm; cases hm
      | some a =>
        obtain ⟨h1, h1b⟩ := complexityFound_eq h a ha
        cases hb : Hir.complexityMinFound t with
        | none => rw [ha, hb] at hm; cases hm
        | some mt =>
          obtain ⟨h2, h2b⟩ := complexityMinFound_eq t mt hb
          rw [ha, hb] at hm
          cases mt with
          | none =>
            cases hm
            simp only [Hir.complexityMin, ← h2, ← h1]
            exact ⟨trivial, fun x hx => by cases hx; exact h1b⟩
          | some y =>
            cases hm
            simp only [Hir.complexityMin, ← h2, ← h1]
            refine ⟨trivial, fun x hx => ?_⟩
            cases hx
            exact Nat.le_trans (Nat.min_le_left _ _) h1b
end

/-- the repair changes nothing wherever the code as found gave a value -/
theorem complexityS_of_found (h : Hir) (v : Nat) (hv : h.complexityFound = some v) : h.complexityS = v := by
  obtain ⟨h1, h2⟩ := complexityFound_eq h v hv
  rw [complexityS_eq, ← h1]
  exact Nat.min_eq_left h2

/-- `(a{4294967295}){4294967295}`: 2 * (2^32 - 1)^2 does not fit into 64 bits -/
def hugeRep : Hir := .rep 4294967295 (some 4294967295) true (.cap (.rep 4294967295 (some 4294967295) true (.lit [97])))

theorem complexityFound_panics : hugeRep.complexityFound = none := by decide +kernel
theorem complexityS_saturates : hugeRep.complexityS = usizeMaxP := by decide +kernel
/-- ... and followed by one more character the sum overflows as well: the fold has to saturate too -/
theorem complexityS_saturates_sum : (Hir.cat [hugeRep, .lit [98]]).complexityS = usizeMaxP := by decide +kernel
/-- an ordinary pattern: `[a-z]{2}x` has priority 6 in all three readings -/
example : (Hir.cat [.rep 2 (some 2) true (.cls true [(97, 122)] [[(97, 122)]]), .lit [120]]).complexityFound = some 6 ∧
    (Hir.cat [.rep 2 (some 2) true (.cls true [(97, 122)] [[(97, 122)]]), .lit [120]]).complexityS = 6 := by decide +kernel

end Logos
