import LogosModel.Walk
import LogosModel.Spec
import LogosModel.Utf8
/-!
# The lexing loop around one match attempt (generated `lex` + `Lexer::next`)

`nextLoop` models `Iterator::next` = `token_start = token_end; Token::lex(self)`, i.e. the
`_take_action!` / `_get_action` code of logos-codegen/src/generator/{mod,leaf}.rs:

* context `None`      → `lex.end_to_boundary(offset.max(lex.offset() + 1))`, yield the default error;
* context `Some(leaf)` → run the leaf's callback (which may `bump`), then
  `Emit` → yield, `Skip` → `lex.trivia()` and restart at the root, `Error`/`DefaultError` → yield.

The loop is generic in the attempt function so that the graph-based lexer (`walkAttempt`) and the
reference lexer (`scanAttempt`) are the same loop around different attempts.
-/
namespace Logos

/-- Result of one match attempt started at `start`. -/
inductive Attempt where
  | eoi                                   -- `return None`: end of input, nothing consumed
  | needMore                              -- partial lexer: `lex.end(lex.offset()); return None`
  | diverge                               -- the real code would not terminate
  | matched (leaf : Nat) (tokEnd : Nat)   -- `_take_action` with context `Some(leaf)`, `token_end`
  | nomatch (offset : Nat)                -- `_take_action` with context `None` at `offset`
deriving Repr, DecidableEq

def attemptOfStop : Stop → Attempt
  | .needMore => .needMore
  | .endOfInput => .eoi
  | .diverge => .diverge
  | .action off none _ => .nomatch off
  | .action _ (some l) e => .matched l e

/-- `Lexer::next` sets `token_start = token_end = start`, then the root state function is called with
`offset = lex.offset()` and `context = None`. -/
def walkAttempt (g : Graph) (isPrefix : Bool) (inp : List Nat) (start : Nat) : Attempt :=
  attemptOfStop (walk g isPrefix start g.root (inp.drop start) start none start)

/-- Reference attempt: derivative scan of the remaining input. -/
def scanAttempt (prios : List Nat) (D : Vec) (inp : List Nat) (start : Nat) : Attempt :=
  match inp.drop start with
  | [] => .eoi
  | rest =>
    match scan prios D rest start none with
    | (some (e, l), _) => .matched l e
    | (none, off) => .nomatch off

/-- What a callback decided (src/internal.rs `CallbackResult`), after `construct`. -/
inductive CbAct where
  | emit | skip | errDefault | errCustom (tag : Nat)
deriving Repr, DecidableEq

structure CbOut where
  act : CbAct
  bump : Nat := 0
deriving Repr, DecidableEq

/-- leaf → matched slice → remainder → outcome -/
abbrev Callbacks := Nat → List Nat → List Nat → CbOut

inductive Item where
  | ok (leaf start stop : Nat)
  | err (custom : Option Nat) (start stop : Nat)
deriving Repr, DecidableEq

def Item.start : Item → Nat | .ok _ s _ => s | .err _ s _ => s
def Item.stop : Item → Nat | .ok _ _ e => e | .err _ _ e => e

/-- `str::is_char_boundary` on bytes is `isBoundary` (Utf8.lean).
`Source::find_boundary` for `str` (src/source.rs): `while !is_char_boundary(i) { i += 1 }`.
For `i > len` the real loop never ends; the model answers `none`. -/
def findBoundaryFuel (s : List Nat) : Nat → Nat → Option Nat
  | 0, _ => none
  | fuel+1, i => if isBoundary s i then some i else findBoundaryFuel s fuel (i+1)

def findBoundary (s : List Nat) (i : Nat) : Option Nat :=
  if i ≤ s.length then findBoundaryFuel s (s.length - i + 1) i else none

def slice (inp : List Nat) (a b : Nat) : List Nat := (inp.drop a).take (b - a)

inductive NextRes where
  | item (it : Item)
  | none (spanStart spanEnd : Nat)
  | diverge
deriving Repr, DecidableEq

/-- One call of `Lexer::next` when `token_end = start`. `fuel` bounds the number of skip restarts. -/
def nextLoop (att : Nat → Attempt) (cb : Callbacks) (utf8 : Bool) (inp : List Nat) :
    (fuel : Nat) → (start : Nat) → NextRes
  | 0, _ => .diverge
  | fuel+1, start =>
    match att start with
    | .eoi => .none start start
    | .needMore => .none start start
    | .diverge => .diverge
    | .nomatch off =>
      let e0 := max off (start + 1)
      if utf8 then
        match findBoundary inp e0 with
        | some e => .item (.err none start e)
        | none => .diverge
      else .item (.err none start e0)
    | .matched l te =>
      let out := cb l (slice inp start te) (inp.drop te)
      let te' := te + out.bump
      match out.act with
      | .emit => .item (.ok l start te')
      | .skip => nextLoop att cb utf8 inp fuel te'
      | .errDefault => .item (.err none start te')
      | .errCustom t => .item (.err (some t) start te')

inductive Final where
  | done (spanStart spanEnd : Nat)     -- `next` returned `None`; span afterwards
  | diverge
deriving Repr, DecidableEq

/-- Iterate `next` from `token_end = pos` until it returns `None`. -/
def lexFrom (att : Nat → Attempt) (cb : Callbacks) (utf8 : Bool) (inp : List Nat) :
    (fuel : Nat) → (pos : Nat) → List Item × Final
  | 0, _ => ([], .diverge)
  | fuel+1, pos =>
    match nextLoop att cb utf8 inp (inp.length + 2) pos with
    | .item it =>
      let r := lexFrom att cb utf8 inp fuel it.stop
      (it :: r.1, r.2)
    | .none s e => ([], .done s e)
    | .diverge => ([], .diverge)

def lexAll (att : Nat → Attempt) (cb : Callbacks) (utf8 : Bool) (inp : List Nat) : List Item × Final :=
  lexFrom att cb utf8 inp (inp.length + 2) 0

/-- The lexer logos generates for graph `g`. -/
def graphLex (g : Graph) (isPrefix : Bool) (cb : Callbacks) (utf8 : Bool) (inp : List Nat) :=
  lexAll (walkAttempt g isPrefix inp) cb utf8 inp

/-- The reference lexer of a definition (look-free patterns). -/
def specLex (prios : List Nat) (D : Vec) (cb : Callbacks) (utf8 : Bool) (inp : List Nat) :=
  lexAll (scanAttempt prios D inp) cb utf8 inp

end Logos

namespace Logos

/-- some byte keeps some pattern satisfiable -/
def extendable (Δ : Vec) : Bool := (List.range 256).any fun b => viableV (derivV b Δ)

/-- Reference scan over a *prefix* of the input (partial lexer): like `scan`, but when the buffer ends
while more input could still change the outcome (`extendable`), the answer is "need more". -/
def scanP (prios : List Nat) : Vec → List Nat → Nat → Rec → Option (Rec × Nat)
  | Δ, [], k, best => if extendable Δ then none else some (best, k)
  | Δ, b :: w, k, best =>
    let Δ' := derivV b Δ
    if viableV Δ' then scanP prios Δ' w (k+1) (upd prios Δ' (k+1) best)
    else some (best, k)

def scanAttemptP (prios : List Nat) (D : Vec) (inp : List Nat) (start : Nat) : Attempt :=
  match scanP prios D (inp.drop start) start none with
  | none => .needMore
  | some (some (e, l), _) => .matched l e
  | some (none, off) => if inp.length ≤ start then .eoi else .nomatch off

/-- reference partial lexer -/
def specLexP (prios : List Nat) (D : Vec) (cb : Callbacks) (utf8 : Bool) (inp : List Nat) :=
  lexAll (scanAttemptP prios D inp) cb utf8 inp

end Logos
