import LogosModel.Lex
import LogosModel.Bump
import LogosModel.Callback
/-!
# The public `Lexer` API as a state machine over a pool of lexers (src/lexer.rs), C14

Two token types `A` and `B` over the same `str` source; a pool of lexers made by `Lexer::with_extras` /
`partial_with_extras` (`fresh`), `clone`, `clone_from` and `morph`.
`Lexer` = `(token type, token_start, token_end, extras, is_prefix, source)`; there are two sources (the second
is longer and its char boundaries lie elsewhere), so that what a copy takes over from which lexer matters.
-/
namespace Logos

structure LexSt where
  ty : Nat            -- 0 = token type A, otherwise B
  start : Nat
  stop : Nat
  extras : Nat
  /-- `is_prefix`: the lexer was made by `new_partial` / `partial_with_extras` -/
  pfx : Bool := false
  /-- which of the two sources the lexer reads -/
  srcId : Nat := 0
deriving Repr, DecidableEq

structure ApiEnv where
  gA : Graph
  gB : Graph
  cbA : Callbacks
  cbB : Callbacks
  src : List Nat
  /-- the second source -/
  src2 : List Nat := []
  isPrefix : Bool
  /-- `true`: the source is a `str` (UTF-8 boundaries), `false`: a `[u8]` -/
  utf8 : Bool := true

inductive ApiOp where
  | next (i : Nat)
  | snext (i : Nat)      -- `SpannedIter::next`
  | bump (i n : Nat)
  | clone (i : Nat)
  | morph (i : Nat)
  | fresh (pfx : Bool) (srcId : Nat)   -- `Lexer::<A>::with_extras(src_k, 7)` / `partial_with_extras(src_k, 7)`, appended to the pool
  | cloneFrom (i j : Nat)    -- `pool[i].clone_from(&pool[j])` (when they have the same token type)
deriving Repr, DecidableEq

/-- what a call returned, for printing -/
inductive ApiOut where
  | item (r : NextRes)
  | spanned (r : NextRes) (span : Option (Nat × Nat))
  | bumped (ok : Bool)
  | cloned
  | morphed
  | made
  | clonedFrom
  | noLexer
deriving Repr, DecidableEq

def ApiEnv.graph (env : ApiEnv) (ty : Nat) : Graph := if ty = 0 then env.gA else env.gB
def ApiEnv.cb (env : ApiEnv) (ty : Nat) : Callbacks := if ty = 0 then env.cbA else env.cbB
/-- the source a lexer reads -/
def ApiEnv.srcOf (env : ApiEnv) (st : LexSt) : List Nat := if st.srcId = 0 then env.src else env.src2
/-- `Source::is_boundary` of the source type, on the lexer's source -/
def ApiEnv.isB (env : ApiEnv) (st : LexSt) : Nat → Bool :=
  if env.utf8 then isBoundary (env.srcOf st) else isBBytes (env.srcOf st).length

/-- `Iterator::next`: `token_start = token_end; Token::lex(self)` -/
def lexerNext (env : ApiEnv) (st : LexSt) : LexSt × NextRes :=
  let r := nextLoop (walkAttempt (env.graph st.ty) st.pfx (env.srcOf st)) (env.cb st.ty) env.utf8 (env.srcOf st)
    ((env.srcOf st).length + 2) st.stop
  match r with
  | .item it => ({ st with start := it.start, stop := it.stop }, r)
  | .none s e => ({ st with start := s, stop := e }, r)
  | .diverge => (st, r)

def lexerBump (env : ApiEnv) (st : LexSt) (n : Nat) : LexSt × Bool :=
  match bumpFixed (env.isB st) ⟨st.start, st.stop⟩ n with
  | .ok s => ({ st with start := s.start, stop := s.stop }, true)
  | .panic s => ({ st with start := s.start, stop := s.stop }, false)

def setAt (pool : List LexSt) (i : Nat) (st : LexSt) : List LexSt := pool.set i st

/-- one API call; indices are taken modulo the pool size as the harness does -/
def apiStep (env : ApiEnv) (pool : List LexSt) (op : ApiOp) : List LexSt × Nat × ApiOut :=
  if pool.isEmpty then (pool, 0, .noLexer) else
  let pick (i : Nat) : Nat × LexSt := (i % pool.length, pool.getD (i % pool.length) ⟨0, 0, 0, 0, false, 0⟩)
  match op with
  | .next i =>
    let (j, st) := pick i
    let r := lexerNext env st
    (setAt pool j r.1, j, .item r.2)
  | .snext i =>
    let (j, st) := pick i
    let r := lexerNext env st
    let sp := match r.2 with | .item _ => some (r.1.start, r.1.stop) | _ => none
    (setAt pool j r.1, j, .spanned r.2 sp)
  | .bump i n =>
    let (j, st) := pick i
    let r := lexerBump env st n
    (setAt pool j r.1, j, .bumped r.2)
  | .clone i =>
    let (_, st) := pick i
    (pool ++ [st], pool.length, .cloned)
  | .morph i =>
    let (j, st) := pick i
    (setAt pool j { st with ty := if st.ty = 0 then 1 else 0 }, j, .morphed)
  | .fresh p k => (pool ++ [⟨0, 0, 0, 7, p, k⟩], pool.length, .made)
  | .cloneFrom i j =>
    let (ji, si) := pick i
    let (_, sj) := pick j
    if si.ty = sj.ty then (setAt pool ji sj, ji, .clonedFrom) else (pool, ji, .clonedFrom)

def apiRun (env : ApiEnv) (pool : List LexSt) : List ApiOp → List LexSt
  | [] => pool
  | op :: ops => apiRun env (apiStep env pool op).1 ops

/-- the invariant safe code relies on: `slice()` = `source[start..stop]`, `remainder()` = `source[stop..]` -/
def LexSt.inRange (len : Nat) (st : LexSt) : Prop := st.start ≤ st.stop ∧ st.stop ≤ len

/-- ... with respect to the lexer's own source -/
def LexSt.ok (env : ApiEnv) (st : LexSt) : Prop := st.inRange (env.srcOf st).length

end Logos
