import LogosModel.Utf8
/-!
# `Lexer::bump` (src/lexer.rs), C15

`usize` is 64 bits.  `isB` is `Source::is_boundary`: for `[u8]` it is `index <= len`, for `str` it is
`is_char_boundary`.  Two variants are modelled:

* `bumpFound` — the code as found: `self.token_end += n; assert!(self.source.is_boundary(self.token_end))`.
  With overflow checks (debug) the addition panics before the store; without (release) it wraps.
  The assertion runs *after* the store, so a failing bump leaves the new `token_end` behind.
* `bumpFixed` — the repaired code: `checked_add`, assert, then assign.
-/
namespace Logos

structure Span where
  start : Nat
  stop : Nat
deriving Repr, DecidableEq

inductive BumpRes where
  | ok (s : Span)
  | panic (s : Span)     -- the lexer's span as seen after the panic was caught
deriving Repr, DecidableEq

def BumpRes.span : BumpRes → Span
  | .ok s => s
  | .panic s => s

def two64 : Nat := 2^64

def bumpFound (overflowChecks : Bool) (isB : Nat → Bool) (s : Span) (n : Nat) : BumpRes :=
  if overflowChecks && decide (two64 ≤ s.stop + n) then .panic s
  else
    let e := (s.stop + n) % two64
    if isB e then .ok { s with stop := e } else .panic { s with stop := e }

def bumpFixed (isB : Nat → Bool) (s : Span) (n : Nat) : BumpRes :=
  if s.stop + n < two64 ∧ isB (s.stop + n) = true then .ok { s with stop := s.stop + n } else .panic s

/-- what safe code may rely on: `slice()` = `source[start..stop]` and `remainder()` = `source[stop..]`
are defined -/
def SpanOK (len : Nat) (isB : Nat → Bool) (s : Span) : Prop :=
  s.start ≤ s.stop ∧ s.stop ≤ len ∧ isB s.start = true ∧ isB s.stop = true

/-- `is_boundary` never accepts an index beyond the source -/
def BoundaryFn (len : Nat) (isB : Nat → Bool) : Prop := ∀ i, isB i = true → i ≤ len

/-- **C15**: the repaired `bump` succeeds exactly when the new end is representable, within the source
and on a boundary. -/
theorem bumpFixed_ok_iff (isB : Nat → Bool) (s : Span) (n : Nat) :
    (∃ s', bumpFixed isB s n = .ok s') ↔ (s.stop + n < two64 ∧ isB (s.stop + n) = true) := by
  unfold bumpFixed
  split <;> simp_all

/-- **C15**: whatever `n`, and whether it succeeds or panics, the repaired `bump` leaves a span that
is in range, ordered and on boundaries. -/
theorem bumpFixed_preserves {len : Nat} {isB : Nat → Bool} (hB : BoundaryFn len isB) {s : Span}
    (h : SpanOK len isB s) (n : Nat) : SpanOK len isB (bumpFixed isB s n).span := by
  unfold bumpFixed
  split
  · rename_i hc
    obtain ⟨h1, h2, h3, h4⟩ := h
    exact ⟨by simp [BumpRes.span]; omega, hB _ hc.2, h3, hc.2⟩
  · simpa [BumpRes.span] using h

/-- any sequence of bumps (each possibly panicking and being caught) -/
def bumpsFixed (isB : Nat → Bool) (s : Span) : List Nat → Span
  | [] => s
  | n :: ns => bumpsFixed isB (bumpFixed isB s n).span ns

theorem after_any_bumps_safe {len : Nat} {isB : Nat → Bool} (hB : BoundaryFn len isB) (ns : List Nat)
    {s : Span} (h : SpanOK len isB s) : SpanOK len isB (bumpsFixed isB s ns) := by
  induction ns generalizing s with
  | nil => simpa [bumpsFixed] using h
  | cons n ns ih => exact ih (bumpFixed_preserves hB h n)

/-- `[u8]`: `index <= len` -/
def isBBytes (len : Nat) (i : Nat) : Bool := decide (i ≤ len)

theorem boundaryFn_bytes (len : Nat) : BoundaryFn len (isBBytes len) := by
  intro i h; simpa [isBBytes] using h

theorem boundaryFn_str (src : List Nat) : BoundaryFn src.length (isBoundary src) := by
  intro i h
  unfold isBoundary at h
  by_cases h0 : i = 0
  · omega
  · by_cases hl : i = src.length
    · omega
    · simp only [h0, hl, if_false] at h
      cases hg : src[i]? with
      | none => simp [hg] at h
      | some b =>
        have := (List.getElem?_eq_some_iff.1 hg).1
        omega

/-- **The code as found violates C15 (release build)**: with wrap-around, `bump(2^64 - 2)` at
`1..2` of a 3-byte source succeeds and leaves `start > end`. -/
theorem bumpFound_release_counterexample :
    bumpFound false (isBBytes 3) ⟨1, 2⟩ (two64 - 2) = .ok ⟨1, 0⟩ := by
  decide

/-- **The code as found violates C15 (any build)**: on `"aé"` (bytes 61 c3 a9) at `0..1`, `bump(1)`
panics but leaves the end in the middle of the two-byte character. -/
theorem bumpFound_panic_counterexample (oc : Bool) :
    bumpFound oc (isBoundary [0x61, 0xc3, 0xa9]) ⟨0, 1⟩ 1 = .panic ⟨0, 2⟩ ∧
      ¬ SpanOK 3 (isBoundary [0x61, 0xc3, 0xa9]) ⟨0, 2⟩ := by
  cases oc <;> (refine ⟨by decide, ?_⟩; intro h; exact absurd h.2.2.2 (by decide))

end Logos
