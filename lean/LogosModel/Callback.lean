import LogosModel.Lex
/-!
# Callback return values and their dispatch (src/internal.rs)

`RetVal` enumerates the values a callback can return, per supported return type; `construct` is the
model of `CallbackRetVal::construct` / `SkipRetVal::construct` (+ `From<SkipResult>`), row by row.
`zooCallback` is the fixed menu of callbacks the verification zoo attaches to patterns; their
decisions are pure functions of the matched slice (and, for bumping ones, the next byte).
-/
namespace Logos

inductive RetVal where
  -- field / unit variants: `T`, `()` and any-token `L`
  | plain
  -- `Result<T, E>`, `Result<(), E>`, `Result<L, E>`
  | resOk | resErr (tag : Nat)
  -- `Option<T>`
  | optSome | optNone
  -- `Filter<T>`, `Filter<L>`
  | filterEmit | filterSkip
  -- `FilterResult<T, E>`, `FilterResult<L, E>`
  | frEmit | frSkip | frErr (tag : Nat)
  -- `bool`
  | boolTrue | boolFalse
  -- `Skip`
  | skip
  -- `Result<Skip, E>`
  | resSkipOk | resSkipErr (tag : Nat)
deriving Repr, DecidableEq

/-- `CallbackRetVal::construct` for token leaves. -/
def construct : RetVal → CbAct
  | .plain => .emit
  | .resOk => .emit
  | .resErr t => .errCustom t
  | .optSome => .emit
  | .optNone => .errDefault
  | .filterEmit => .emit
  | .filterSkip => .skip
  | .frEmit => .emit
  | .frSkip => .skip
  | .frErr t => .errCustom t
  | .boolTrue => .emit
  | .boolFalse => .errDefault
  | .skip => .skip
  | .resSkipOk => .skip
  | .resSkipErr t => .errCustom t

/-- `SkipRetVal::construct` followed by `CallbackResult::from` for skip leaves:
`()`/`Skip` → Skip, `Result<(), E>`/`Result<Skip, E>` → Skip or Error. -/
def constructSkip : RetVal → CbAct
  | .plain => .skip
  | .skip => .skip
  | .resOk => .skip
  | .resSkipOk => .skip
  | .resErr t => .errCustom t
  | .resSkipErr t => .errCustom t
  | _ => .skip   -- not a `SkipRetVal` type: does not type-check in Rust, never generated

def sel (s : List Nat) : Nat := (s.length + s.headD 0) % 3

/-- amount the bumping callbacks bump: one byte if the next byte is ASCII -/
def bumpAmt (rem : List Nat) : Nat :=
  match rem with
  | b :: _ => if b < 128 then 1 else 0
  | [] => 0

/-- amount kind 29 bumps: the whole next character (by its lead byte), never more than there is -/
def bumpChar (rem : List Nat) : Nat :=
  match rem with
  | b :: _ => min (if b < 128 then 1 else if b < 224 then 2 else if b < 240 then 3 else 4) rem.length
  | [] => 0

/-- The zoo's callback menu: kind code → (returned value, bump). Kind 0 = no callback. -/
def zooRet (kind : Nat) (s rem : List Nat) : RetVal × Nat :=
  let z := sel s
  match kind with
  | 1 => (if z != 0 then .boolTrue else .boolFalse, 0)
  | 2 => (.plain, 0)
  | 3 => (.skip, 0)
  | 4 => (if z == 0 then .resSkipErr 1 else .resSkipOk, 0)
  | 5 => (.plain, 0)
  | 6 => (if z == 0 then .resErr 2 else .resOk, 0)
  | 7 => (if z == 0 then .filterSkip else .filterEmit, 0)
  | 8 => (if z == 0 then .frSkip else if z == 1 then .frErr 3 else .frEmit, 0)
  | 9 => (if z == 0 then .optNone else .optSome, 0)
  | 10 => (if z == 0 then .resErr 4 else .resOk, 0)
  | 11 => (.plain, 0)
  | 12 => (if z == 0 then .optNone else .optSome, 0)
  | 13 => (if z == 0 then .resErr 5 else .resOk, 0)
  | 14 => (if z == 0 then .filterSkip else .filterEmit, 0)
  | 15 => (if z == 0 then .frSkip else if z == 1 then .frErr 6 else .frEmit, 0)
  | 16 => (.plain, 0)
  | 17 => (.skip, 0)
  | 18 => (if z == 0 then .resErr 7 else .resOk, 0)
  | 19 => (if z == 0 then .resSkipErr 8 else .resSkipOk, 0)
  | 20 => (.plain, bumpAmt rem)
  | 21 => (.plain, bumpAmt rem)
  | 22 => (.plain, bumpAmt rem)
  -- an explicit `Err(e)` whose value equals the error type's default (tag 0): still `Err(e.into())`, not the error callback's business
  | 23 => (if z == 0 then .resErr 0 else .resOk, 0)
  | 24 => (if z == 0 then .frSkip else if z == 1 then .frErr 0 else .frEmit, 0)
  -- callbacks that reject every match
  | 25 => (.optNone, 0)
  | 26 => (.boolFalse, 0)
  -- closures that go on with the result of a helper they hand the lexer to: `|lex| h(lex) == false`, `|lex| h(lex).filter(|_| false)`
  | 27 => (if z == 0 then .boolTrue else .boolFalse, 0)
  | 28 => (.optNone, 0)
  -- a callback that bumps over the next character and then rejects the match (round 29)
  | 29 => (.boolFalse, bumpChar rem)
  | _ => (.plain, 0)

/-- leaf kinds: 0 = skip leaf, 1 = unit variant, 2 = value variant -/
def zooCallback (leafKind cbKind : Nat) (s rem : List Nat) : CbOut :=
  if cbKind == 0 then
    { act := if leafKind == 0 then .skip else .emit }
  else
    let r := zooRet cbKind s rem
    { act := if leafKind == 0 then constructSkip r.1 else construct r.1, bump := r.2 }

/-- kinds 5–8 return a token themselves (`L`, `Result<L,E>`, `Filter<L>`, `FilterResult<L,E>`):
the emitted variant is the one the callback built (`Alt` in the zoo), not the leaf's. -/
def emitsAlt (cbKind : Nat) : Bool := 5 ≤ cbKind && cbKind ≤ 8

end Logos
