import LogosModel.Stack
import LogosModel.InterpProof
import LogosModel.Theorems.NonVacuity
/-!
# C06, second clause, in the words of the property

"The state-machine lexer uses stack space independent of input length, token length and the number of consecutive
skips."  Frames are counted by `Stack.nextLoopS`, which is the interpreter tied to the compiled lexers
(`lexS_fst`) with a frame counter.
-/
namespace Logos

/-- **C06 (stack).**  For every graph (no well-formedness needed), every callback table, every source of every length,
ordinary or partial lexer, str or byte mode and every start position, a call of `next` generated as a state machine
uses at most three frames (`lex`, `_get_action`, the callback), and it returns what the tail-call rendering returns. -/
theorem C06_state_machine_stack_constant (g : Graph) (pfx : Bool) (cb : Callbacks) (utf8 : Bool)
    (src : List Nat) (start : Nat) :
    (lexS .stateMachine g pfx cb utf8 src start).2 ≤ 3 ∧
    (lexS .stateMachine g pfx cb utf8 src start).1 = (lexS .tailCall g pfx cb utf8 src start).1 ∧
    (lexS .stateMachine g pfx cb utf8 src start).1 = nextLoopI g pfx cb utf8 src (src.length + 2) start :=
  ⟨lexS_sm_peak g pfx cb utf8 src start, (lexS_codegen_agree g pfx cb utf8 src start).symm, lexS_fst ..⟩

namespace NonVacuity

/-- every `a+` is skipped, `ab` is a token -/
def cbSkipA : Callbacks := fun l _ _ => if l = 0 then ⟨.skip, 0⟩ else ⟨.emit, 0⟩

/-- both leaves skipped: consecutive skipped matches inside one call of `next` -/
def cbSkipAll : Callbacks := fun _ _ _ => ⟨.skip, 0⟩

/-- `ab ab ab ab aa`: five consecutive skipped matches in one call of `next`, which then returns `None` -/
def srcSkips : List Nat := [97, 98, 97, 98, 97, 98, 97, 98, 97, 97]

example : (lexS .stateMachine G false cbSkipAll false srcSkips 0).1.1 = .none 10 10 := by decide +kernel
example : nextLoopSkips G false cbSkipAll srcSkips (srcSkips.length + 2) 0 = 5 := by decide +kernel
/-- state machine: three frames -/
example : (lexS .stateMachine G false cbSkipAll false srcSkips 0).2 = 3 := by decide +kernel
/-- tail calls without frame reuse: 2 (entry) + 10 byte transitions + 4 restarts = 16 frames when the last match is
handed to `_get_action` and the callback (+ 2) -/
example : (lexS .tailCall G false cbSkipAll false srcSkips 0).2 = 18 := by decide +kernel
/-- a self loop is an inline loop in both renderings: a run of twelve `a` costs two transitions, not twelve -/
example : (lexS .tailCall G false (fun _ _ _ => ⟨.emit, 0⟩) false (List.replicate 12 97) 0).2 = 6 := by decide +kernel
example : (lexS .stateMachine G false (fun _ _ _ => ⟨.emit, 0⟩) false (List.replicate 12 97) 0).2 = 3 := by decide +kernel

end NonVacuity
end Logos
