import LogosModel.LexProof
import LogosModel.WfProof
import LogosModel.CertCheck
import LogosModel.CertP
import LogosModel.SpecProof
import LogosModel.PartialSafe
/-!
# Non-vacuity: the hypotheses of the main theorems are satisfiable by concrete, non-trivial objects

A two-leaf definition `a+` (priority 2, leaf 0) and `ab` (priority 4, leaf 1) with the graph logos
builds for it (shape: root —a→ s1(early 0) —a→ s2(early 0, loop on a); s1 —b→ s3(early 1)).
-/
namespace Logos.NonVacuity

def rA : Re := .set [(97, 97)]
def rB : Re := .set [(98, 98)]
/-- `a+` and `ab`, normalised as the driver does -/
def D : Vec := [norm (.cat rA (.star rA)), norm (.cat rA rB)]
def prios : List Nat := [2, 4]

def G : Graph :=
  { root := 0
    states := #[
      { normal := [⟨[(97, 97)], 1⟩] },
      { early := some 0, normal := [⟨[(97, 97)], 2⟩, ⟨[(98, 98)], 3⟩] },
      { early := some 0, normal := [⟨[(97, 97)], 2⟩] },
      { early := some 1 } ] }

/-- the closure of `(root, D)` under the graph's edges -/
def C : CSet :=
  #[ [D], [derivV 97 D], [derivV 97 (derivV 97 D)], [derivV 98 (derivV 97 D)] ]

theorem wf_G : WF G := wfB_sound (by decide +kernel)

/-- the proved validator accepts this certificate: `Valid` is inhabited by a non-trivial instance -/
theorem valid_G : Valid G prios D C.mem := validB_sound (by decide +kernel)

theorem validP_G : ValidP G prios D C.mem := validPB_sound (by decide +kernel)

/-- hence the generated lexer for this definition equals the reference lexer on *every* input … -/
theorem lex_eq_spec_G (cb : Callbacks) (utf8 : Bool) (inp : List Nat) (hb : ∀ b ∈ inp, b < 256) :
    graphLex G false cb utf8 inp = specLex prios D cb utf8 inp :=
  lex_eq_spec valid_G cb utf8 inp hb

/-- … and on a concrete input both produce two tokens: `ab` (leaf 1, the higher priority on the
longest match) then `aa` (leaf 0). -/
example : (graphLex G false (fun _ _ _ => ⟨.emit, 0⟩) false [97, 98, 97, 97]).1 = [.ok 1 0 2, .ok 0 2 4] := by
  decide +kernel

example : (specLex prios D (fun _ _ _ => ⟨.emit, 0⟩) false [97, 98, 97, 97]).1 = [.ok 1 0 2, .ok 0 2 4] := by
  decide +kernel

/-- an error item: `b` alone matches nothing; span 0..1, then `a` -/
example : (graphLex G false (fun _ _ _ => ⟨.emit, 0⟩) false [98, 97]).1 = [.err none 0 1, .ok 0 1 2] := by
  decide +kernel

/-- C07: the partial lexer over the prefix `ab a` commits `ab` (leaf 1), then waits at position 2 with an
empty span, since `a` could still grow; `C07_partial_safe` applies to this graph with any extension -/
example : graphLex G true (fun _ _ _ => ⟨.emit, 0⟩) false [97, 98, 97] = ([.ok 1 0 2], .done 2 2) := by
  decide +kernel

theorem partial_safe_G (pre ext : List Nat) (hb : ∀ b ∈ pre ++ ext, b < 256) (items : List Item) (q q' : Nat)
    (h : graphLex G true (fun _ _ _ => ⟨.emit, 0⟩) false pre = (items, .done q q')) :
    q = q' ∧ q ≤ pre.length ∧
    ∃ rest, graphLex G false (fun _ _ _ => ⟨.emit, 0⟩) false (pre ++ ext) =
      (items ++ rest, .done (pre ++ ext).length (pre ++ ext).length) ∧
      lexFrom (walkAttempt G false (pre ++ ext)) (fun _ _ _ => ⟨.emit, 0⟩) false (pre ++ ext) ((pre ++ ext).length + 2) q =
        (rest, .done (pre ++ ext).length (pre ++ ext).length) :=
  C07_partial_safe wf_G _ (fun _ _ _ => rfl) (fun _ _ _ _ => rfl) false pre ext hb (by simp) items q q' h

end Logos.NonVacuity
