import LogosModel.Theorems.LexingLook
/-!
# Non-vacuity of the look-around theorems

The definition `#[regex("a$")] V0, #[token("b")] V1` with the graph logos builds for it
(root 1 —b→ 2 (early V1); root —a→ 3 —end of input→ 0 (accept V0)), its viability table and its
certificate: both proved checkers accept, so the hypotheses of `lex_eq_specC` and of the `C0x_look_*`
theorems are inhabited by a non-trivial instance.
-/
namespace Logos.LK.NonVacuity
open Logos

def D : VecL := [normL (.cat (.set [(97, 97)]) (.look .end)), normL (.set [(98, 98)])]
def prios : List Nat := [2, 2]

def G : Graph :=
  { root := 1
    states := #[
      { accept := some 0 },
      { normal := [⟨[(98, 98)], 2⟩, ⟨[(97, 97)], 3⟩] },
      { early := some 1 },
      { eoi := some 0 } ] }

def Da : VecL := derivVC .none 97 D
def Db : VecL := derivVC .none 98 D
def Dx : VecL := derivVC .none 0 D

def T : List LEntry :=
  allCls.map (fun p => { vec := D, p := p, live := true, wit := [98], witN := .none }) ++
  [ { vec := Da, p := .word, live := true }, { vec := Db, p := .word, live := true } ] ++
  [Cls.lf, .cr, .word, .other].map (fun c => { vec := Dx, p := c, live := false })

def C : CSetC := #[ [], allCls.map (fun p => (D, p)), [(Db, .word)], [(Da, .word)] ]

theorem live_T : liveCertB T D = true := by decide +kernel

theorem valid_G : validCB G prios D (oracleOf T) C = true := by decide +kernel

/-- the viability table is exact … -/
theorem vexact_T (p0 : Cls) : VExact (oracleOf T) D p0 := liveCertB_sound live_T p0

/-- … and the generated lexer equals the contextual reference lexer on every input -/
theorem lex_eq_specC_G (cb : Callbacks) (utf8 : Bool) (inp : List Nat) (hb : ∀ b ∈ inp, b < 256) :
    graphLex G false cb utf8 inp = specLexC (oracleOf T) prios D cb utf8 inp :=
  lex_eq_specC_checked valid_G cb utf8 inp hb

/-- `a` at the end of the input is `V0` … -/
example : (graphLex G false (fun _ _ _ => ⟨.emit, 0⟩) false [98, 97]).1 = [.ok 1 0 1, .ok 0 1 2] := by
  decide +kernel

/-- … but `a` followed by `b` is an error (the assertion `$` fails), then `V1` -/
example : (graphLex G false (fun _ _ _ => ⟨.emit, 0⟩) false [97, 98]).1 = [.err none 0 1, .ok 1 1 2] := by
  decide +kernel

example : (specLexC (oracleOf T) prios D (fun _ _ _ => ⟨.emit, 0⟩) false [97, 98]).1 = [.err none 0 1, .ok 1 1 2] := by
  decide +kernel

/-- the hypotheses of `C01_look_longest_match_top_priority` hold for a concrete attempt -/
example : walkAttempt G false [98, 97] 1 = .matched 0 2 := by decide +kernel

end Logos.LK.NonVacuity
