import LogosModel.Look.SoundC
import LogosModel.Look.LiveCert
import LogosModel.Theorems.Lexing
/-!
# C01 / C02 / C03 for definitions with look-around assertions, in the words of the properties

The two Boolean checks the driver runs on a captured definition with look-around — `validCB` (graph
certificate) and `liveCertB` (viability table) — imply, for every input, the statements below about
what one match attempt of the generated lexer does, in terms of `MatchesC` only: a pattern matches
the text `inp[start..e]` *in its context*, i.e. seeing the class of the byte before `start` and of the
byte at `e`.
-/
namespace Logos.LK
open Logos

/-- class of the byte before position `start` (`.none` at the start of the input) -/
def prevAt (inp : List Nat) (start : Nat) : Cls := prevOf .none (inp.take start)
/-- class of the byte at position `e` (`.none` at the end of the input) -/
def nextAt (inp : List Nat) (e : Nat) : Cls := nextOf (inp.drop e) .none


theorem scanAttemptC_matched {V : VecL → Cls → Bool} {prios : List Nat} {D : VecL} {inp : List Nat}
    {start l e : Nat} (h : scanAttemptC V prios D inp start = .matched l e) :
    ∃ off, start < inp.length ∧
      scanC V prios D (prevAt inp start) (inp.drop start) start none = (some (e, l), off) := by
  unfold scanAttemptC at h
  split at h
  · cases h
  · rename_i hnil
    have hlt : start < inp.length := by
      apply Nat.lt_of_not_le
      intro hle
      exact hnil (List.drop_eq_nil_of_le hle)
    split at h
    · rename_i e' l' off heq
      cases h
      exact ⟨off, hlt, heq⟩
    · cases h

theorem scanAttemptC_nomatch {V : VecL → Cls → Bool} {prios : List Nat} {D : VecL} {inp : List Nat}
    {start off : Nat} (h : scanAttemptC V prios D inp start = .nomatch off) :
    start < inp.length ∧
      scanC V prios D (prevAt inp start) (inp.drop start) start none = (none, off) := by
  unfold scanAttemptC at h
  split at h
  · cases h
  · rename_i hnil
    have hlt : start < inp.length := by
      apply Nat.lt_of_not_le
      intro hle
      exact hnil (List.drop_eq_nil_of_le hle)
    split at h
    · cases h
    · rename_i off' heq
      cases h
      exact ⟨hlt, heq⟩

theorem scanAttemptC_of_scanC_some {V : VecL → Cls → Bool} {prios : List Nat} {D : VecL}
    {inp : List Nat} {start l e off : Nat} (hlt : start < inp.length)
    (h : scanC V prios D (prevAt inp start) (inp.drop start) start none = (some (e, l), off)) :
    scanAttemptC V prios D inp start = .matched l e := by
  unfold scanAttemptC
  split
  · rename_i hnil
    have := congrArg List.length hnil
    simp at this
    omega
  · unfold prevAt at h
    rw [h]

theorem nextAt_drop (inp : List Nat) {start m : Nat} (h : start ≤ m) :
    nextOf ((inp.drop start).drop (m - start)) .none = nextAt inp m := by
  unfold nextAt
  rw [List.drop_drop]
  have : start + (m - start) = m := by omega
  rw [this]

/-- **C01 with look-around.** When an attempt started at `start` ends with leaf `l` and token end `e`:
the token is non-empty and inside the input; leaf `l` matches `inp[start..e]` in context; no leaf
matching that text in context has a higher priority; no longer prefix of the remaining input is matched
in context by any leaf. -/
theorem C01_look_longest_match_top_priority {G : Graph} {prios : List Nat} {D : VecL} {T : List LEntry}
    {C : CSetC} (hc : validCB G prios D (oracleOf T) C = true) (hl : liveCertB T D = true)
    (hlen : prios.length = D.length) (inp : List Nat) (hb : ∀ b ∈ inp, b < 256)
    (start l e : Nat) (h : walkAttempt G false inp start = .matched l e) :
    start < e ∧ e ≤ inp.length ∧
    TopMatchC prios D l (prevAt inp start) (slice inp start e) (nextAt inp e) ∧
    ∀ m, e < m → m ≤ inp.length → ¬ AnyMatchC D (prevAt inp start) (slice inp start m) (nextAt inp m) := by
  rw [attempt_eqC (validCB_sound hc) inp hb start] at h
  obtain ⟨off, hlt, hs⟩ := scanAttemptC_matched h
  obtain ⟨h1, h2, h3, h4⟩ := scanC_some hlen (liveCertB_sound hl _) _ _ _ _ _ hs
  have hwl : (inp.drop start).length = inp.length - start := List.length_drop
  rw [nextAt_drop inp (Nat.le_of_lt h1)] at h3
  refine ⟨h1, by omega, h3, ?_⟩
  intro m hem hml
  have := h4 (m - start) (by omega) (by omega)
  rw [nextAt_drop inp (by omega)] at this
  exact this

/-- **C01 with look-around, completeness.** If some non-empty prefix of the remaining input is matched
in context by some leaf, the attempt ends in a match at least that long (never in an error). -/
theorem C01_look_match_found {G : Graph} {prios : List Nat} {D : VecL} {T : List LEntry}
    {C : CSetC} (hc : validCB G prios D (oracleOf T) C = true) (hl : liveCertB T D = true)
    (hlen : prios.length = D.length) (inp : List Nat) (hb : ∀ b ∈ inp, b < 256)
    (start m : Nat) (hm : start < m) (hml : m ≤ inp.length)
    (hmatch : AnyMatchC D (prevAt inp start) (slice inp start m) (nextAt inp m)) :
    ∃ l e, walkAttempt G false inp start = .matched l e ∧ m ≤ e := by
  have hwl : (inp.drop start).length = inp.length - start := List.length_drop
  have hmatch' : AnyMatchC D (prevAt inp start) ((inp.drop start).take (m - start))
      (nextOf ((inp.drop start).drop (m - start)) .none) := by
    rw [nextAt_drop inp (Nat.le_of_lt hm)]
    exact hmatch
  obtain ⟨e, l, off, hs, he⟩ :=
    scanC_finds (V := oracleOf T) (prios := prios) hlen (liveCertB_sound hl _) (inp.drop start) start
      (m - start) (by omega) (by omega) hmatch'
  refine ⟨l, e, ?_, by omega⟩
  rw [attempt_eqC (validCB_sound hc) inp hb start]
  exact scanAttemptC_of_scanC_some (by omega) hs

/-- **C02 with look-around.** When an attempt started at `start` ends without a match at offset `off`:
no non-empty prefix of the remaining input is matched in context by any leaf; everything read up to
`off` could still be extended to a match; and the byte at `off` (if there is one) makes every extension
impossible. -/
theorem C02_look_error_stop {G : Graph} {prios : List Nat} {D : VecL} {T : List LEntry}
    {C : CSetC} (hc : validCB G prios D (oracleOf T) C = true) (hl : liveCertB T D = true)
    (hlen : prios.length = D.length) (inp : List Nat) (hb : ∀ b ∈ inp, b < 256)
    (start off : Nat) (h : walkAttempt G false inp start = .nomatch off) :
    start ≤ off ∧ off ≤ inp.length ∧
    (∀ m, start < m → m ≤ inp.length → ¬ AnyMatchC D (prevAt inp start) (slice inp start m) (nextAt inp m)) ∧
    (∀ m, start < m → m ≤ off → ViableC D (prevAt inp start) (slice inp start m)) ∧
    (off < inp.length → ¬ ViableC D (prevAt inp start) (slice inp start (off + 1))) := by
  rw [attempt_eqC (validCB_sound hc) inp hb start] at h
  obtain ⟨hlt, hs⟩ := scanAttemptC_nomatch h
  obtain ⟨h1, h2, h3, h4, h5⟩ := scanC_none hlen (liveCertB_sound hl _) _ _ _ hs
  have hwl : (inp.drop start).length = inp.length - start := List.length_drop
  refine ⟨h2, by omega, ?_, ?_, ?_⟩
  · intro m hm hml
    have := h1 (m - start) (by omega) (by omega)
    rw [nextAt_drop inp (by omega)] at this
    exact this
  · intro m hm hml
    exact h4 (m - start) (by omega) (by omega)
  · intro hoff
    have := h5 (by omega)
    have heq : off + 1 - start = off - start + 1 := by omega
    unfold slice
    rw [heq]
    exact this

/-- **C03, second clause, with look-around.** No pattern of a validated definition matches the empty
string in any context. -/
theorem C03_look_no_nullable_pattern {G : Graph} {prios : List Nat} {D : VecL} {V : VecL → Cls → Bool}
    {C : CSetC} (hc : validCB G prios D V C = true) (hlen : prios.length = D.length) :
    ∀ r ∈ D, ∀ p n, ¬ MatchesC r p [] n := by
  intro r hr p n hm
  have hne : ¬ AnyMatchC D p [] n :=
    (winC_none hlen).1 ((validCB_sound hc).noEmpty p (mem_allCls _) n (mem_allCls _))
  obtain ⟨i, hi⟩ := List.getElem?_of_mem hr
  exact hne ⟨i, r, hi, hm⟩

/-- The whole token stream: the generated lexer equals the contextual reference lexer. -/
theorem lex_eq_specC_checked {G : Graph} {prios : List Nat} {D : VecL} {T : List LEntry} {C : CSetC}
    (hc : validCB G prios D (oracleOf T) C = true) (cb : Callbacks) (utf8 : Bool)
    (inp : List Nat) (hb : ∀ b ∈ inp, b < 256) :
    graphLex G false cb utf8 inp = specLexC (oracleOf T) prios D cb utf8 inp :=
  lex_eq_specC (validCB_sound hc) cb utf8 inp hb

end Logos.LK
