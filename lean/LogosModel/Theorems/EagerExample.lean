import LogosModel.Eager
import LogosModel.Theorems.NonVacuity
/-!
# Non-vacuity of `C07_commit_is_final` / `C07_wait_is_necessary`
`a+` (leaf 0) / `ab` (leaf 1): over the buffer `a` the reference partial lexer waits (`a+` and `ab` can both grow), over
`abx` it commits `ab` at 0..2 (the byte `x` ends every pattern).
-/
namespace Logos.NonVacuity

example : scanAttemptP prios D [97] 0 = .needMore := by decide +kernel

example : scanAttemptP prios D [97, 98, 120] 0 = .matched 1 2 := by decide +kernel

/-- the theorem applied: some continuation of `a` is matched to its very end -/
example : ∃ ext l, ext ≠ [] ∧ scanAttempt prios D ([97] ++ ext) 0 = .matched l ([97] ++ ext).length :=
  C07_wait_is_necessary prios D (by decide) [97] 0 (by decide) (by decide +kernel)

/-- the theorem applied: whatever follows `abx`, the one-shot lexer yields `ab` at 0..2 first -/
example (ext : List Nat) (hext : ∀ b ∈ ext, b < 256) :
    scanAttempt prios D ([97, 98, 120] ++ ext) 0 = .matched 1 2 := by
  rw [C07_commit_is_final prios D [97, 98, 120] ext 0 (by decide) hext (by decide +kernel)]
  decide +kernel

end Logos.NonVacuity
