import LogosModel.Lex
/-!
# C02: "exactly one Err .. lexing resumes at the span end"

When a match attempt started at `start` ends without a record at offset `off`, the lexing loop yields exactly one error
item `start .. e` - `e` being `max off (start + 1)` (never less than one byte), rounded up to the next char boundary for
str input - and goes on from `e`.  For every attempt function, callback table and input (what `off` is, is `scan_none` /
`C02_error_stop`).
-/
namespace Logos

theorem C02_one_error_then_resume_bytes (att : Nat → Attempt) (cb : Callbacks) (inp : List Nat) (f start off : Nat)
    (hatt : att start = .nomatch off) :
    lexFrom att cb false inp (f + 1) start =
      (.err none start (max off (start + 1)) :: (lexFrom att cb false inp f (max off (start + 1))).1,
        (lexFrom att cb false inp f (max off (start + 1))).2) := by
  simp [lexFrom, nextLoop, hatt, Item.stop]

theorem C02_one_error_then_resume_str (att : Nat → Attempt) (cb : Callbacks) (inp : List Nat) (f start off e : Nat)
    (hatt : att start = .nomatch off) (hb : findBoundary inp (max off (start + 1)) = some e) :
    lexFrom att cb true inp (f + 1) start =
      (.err none start e :: (lexFrom att cb true inp f e).1, (lexFrom att cb true inp f e).2) := by
  simp [lexFrom, nextLoop, hatt, hb, Item.stop]

end Logos
