import LogosModel.Modes
import LogosModel.Utf8Proof
import LogosModel.Look.Utf8ClosedC
/-!
# C12 with the hypotheses discharged by the per-definition checkers

`modes_agree` asks for "matches found at a char boundary end on a char boundary".  For a validated
definition whose patterns only match valid UTF-8 this is `matched_boundary` (look-free) /
`matched_boundaryC` (look-around), so the two modes agree for every definition that passes the
certificate checker and the UTF-8 closure checker.
-/
namespace Logos

/-- **C12 for validated look-free definitions.** -/
theorem C12_modes_agree_validated {G : Graph} {prios : List Nat} {D : Vec} {C : Nat → Vec → Prop}
    (hv : Valid G prios D C) (hlen : prios.length = D.length)
    (hutf : ∀ r ∈ D, ∀ w, Matches r w → validUtf8 w = true)
    (cb : Callbacks) (hcb : NoBump cb) (inp : List Nat)
    (hb : ∀ b ∈ inp, b < 256) (hvalid : validUtf8 inp = true)
    (hroot : ∀ b, isCont b = true → (G.get G.root).next b = none) :
    okItems (graphLex G false cb true inp).1 = okItems (graphLex G false cb false inp).1 ∧
    errBytes (graphLex G false cb true inp).1 = errBytes (graphLex G false cb false inp).1 :=
  modes_agree hv.wf cb hcb inp hb hvalid hroot fun start l e hs h =>
    (matched_boundary hv hlen hutf inp hb hvalid start l e hs h).2.2

/-- **C12 for validated definitions with look-around assertions.** -/
theorem C12_modes_agree_validated_look {G : Graph} {prios : List Nat} {D : LK.VecL} {T : List LK.LEntry}
    {C : LK.CSetC} (hc : LK.validCB G prios D (LK.oracleOf T) C = true) (hl : LK.liveCertB T D = true)
    (hlen : prios.length = D.length)
    (hutf : ∀ r ∈ D, ∀ p w n, LK.MatchesC r p w n → validUtf8 w = true)
    (cb : Callbacks) (hcb : NoBump cb) (inp : List Nat)
    (hb : ∀ b ∈ inp, b < 256) (hvalid : validUtf8 inp = true)
    (hroot : ∀ b, isCont b = true → (G.get G.root).next b = none) :
    okItems (graphLex G false cb true inp).1 = okItems (graphLex G false cb false inp).1 ∧
    errBytes (graphLex G false cb true inp).1 = errBytes (graphLex G false cb false inp).1 :=
  modes_agree (LK.validCB_sound hc).wf cb hcb inp hb hvalid hroot fun start l e hs h =>
    (LK.matched_boundaryC hc hl hlen hutf inp hb hvalid start l e hs h).2.2

end Logos
