import LogosModel.PassesAll
import LogosModel.StateType
/-!
# Non-vacuity of the pass theorems

The definition `#[regex("a+")] V0, #[regex("ab", priority = 4)] V1`: the graph as built from the DFA
(7 states, as dumped by the hook) and the final graph logos generates code from (4 states).  The model's
passes map the first to the second, the side conditions of `passes_matched` / `passes_nomatch` /
`passes_eoi` hold, and `get_state_type` recomputes the raw accepts from the match lists.
-/
namespace Logos.Passes.NonVacuity
open Logos

def raw : Graph :=
  { root := 5
    states := #[
      {},
      { accept := some 0 },
      { accept := some 0, eoi := some 1, normal := [⟨[(0, 96), (98, 255)], 1⟩, ⟨[(97, 97)], 2⟩] },
      { accept := some 0, eoi := some 4, normal := [⟨[(0, 255)], 4⟩] },
      { accept := some 1 },
      { normal := [⟨[(97, 97)], 6⟩] },
      { eoi := some 1, normal := [⟨[(0, 96), (99, 255)], 1⟩, ⟨[(97, 97)], 2⟩, ⟨[(98, 98)], 3⟩] } ] }

def final : Graph :=
  { root := 2
    states := #[
      { early := some 0, normal := [⟨[(97, 97)], 0⟩] },
      { early := some 1 },
      { normal := [⟨[(97, 97)], 3⟩] },
      { early := some 0, normal := [⟨[(97, 97)], 0⟩, ⟨[(98, 98)], 1⟩] } ] }

-- That `passes raw` equals `final` is what the driver's `PASSES` query checks at run time for every definition
-- (parts of `passes` are defined by well-founded recursion and do not reduce in the kernel).

theorem sideOK_raw : sideOK raw = true := by decide +kernel

/-- hence every match found on the raw graph is found on the final graph, for every input -/
theorem matched_preserved (inp : List Nat) (hb : ∀ b ∈ inp, b < 256) (start l e : Nat)
    (hm : walkAttempt raw false inp start = .matched l e) :
    walkAttempt (passes raw) false inp start = .matched l e :=
  passes_matched raw sideOK_raw inp hb start l e hm

/-- a concrete attempt: `ab` is leaf 1 on both graphs -/
example : walkAttempt raw false [97, 98] 0 = .matched 1 2 := by decide +kernel
example : walkAttempt final false [97, 98] 0 = .matched 1 2 := by decide +kernel

/-- `get_state_type` on the dumped match lists (priorities 2 and 4) gives the raw accepts -/
example : stateType [2, 4] [0] = .accept 0 ∧ stateType [2, 4] [1] = .accept 1 ∧ stateType [2, 4] [] = .none ∧
    stateType [2, 2] [0, 1] = .ambiguous [0, 1] := by decide

end Logos.Passes.NonVacuity
