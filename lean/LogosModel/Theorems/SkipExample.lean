import LogosModel.Gaps
import LogosModel.Theorems.NonVacuity
/-!
# Non-vacuity of `C13_skip_transparent`
The graph of `a+` (leaf 0) / `ab` (leaf 1) (NonVacuity.G), input `abaab`, a callback table that skips every match of
`ab` and bumps one byte after a match of `a+` longer than one byte: the marked run reports `!7:0-2 a+:2-5`, the skipping
run `a+:2-5`.
-/
namespace Logos.NonVacuity

def cbSkipAb : Callbacks := fun l s _ =>
  if l = 1 then ⟨.skip, 0⟩ else ⟨.emit, if s.length > 1 then 1 else 0⟩

theorem cbSkipAb_bumpOK_on : (cbSkipAb 0 [97, 97] [98]).bump ≤ [98].length := by decide

example : graphLex G false (markSkips 7 cbSkipAb) false [97, 98, 97, 97, 98]
    = ([.err (some 7) 0 2, .ok 0 2 5], .done 5 5) := by decide +kernel

example : graphLex G false cbSkipAb false [97, 98, 97, 97, 98] = ([.ok 0 2 5], .done 5 5) := by decide +kernel

example : dropMarks 7 ([.err (some 7) 0 2, .ok 0 2 5], .done 5 5) = ([.ok 0 2 5], .done 5 5) := by decide

/-- the theorem applied to a table that bumps inside the remainder and skips -/
example (inp : List Nat) (hb : ∀ b ∈ inp, b < 256) :
    let cb : Callbacks := fun l _ r => if l = 1 then ⟨.skip, 0⟩ else ⟨.emit, if r.length > 0 then 1 else 0⟩
    graphLex G false cb false inp = dropMarks 7 (graphLex G false (markSkips 7 cb) false inp) := by
  intro cb
  refine C13_skip_transparent wf_G false 7 cb ?_ ?_ false inp hb
  · intro l s r
    show (if l = 1 then (⟨.skip, 0⟩ : CbOut) else ⟨.emit, if r.length > 0 then 1 else 0⟩).bump ≤ r.length
    split
    · exact Nat.zero_le _
    · show (if r.length > 0 then 1 else 0) ≤ r.length
      split <;> omega
  · intro l s r
    show (if l = 1 then (⟨.skip, 0⟩ : CbOut) else ⟨.emit, if r.length > 0 then 1 else 0⟩).act ≠ .errCustom 7
    split <;> simp

end Logos.NonVacuity

/-! ## `C03_gaps_are_skipped_matches`: the marked run of the example covers `abaab` end to end -/
namespace Logos.NonVacuity

example : Contig 0 [.err (some 7) 0 2, .ok 0 2 5] 5 := by simp [Contig, Item.start, Item.stop]

example : ¬ Contig 0 [.ok 0 2 5] 5 := by simp [Contig, Item.start]

end Logos.NonVacuity
