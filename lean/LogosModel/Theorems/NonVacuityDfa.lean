import LogosModel.FromDfaProof
/-!
# Non-vacuity of the DFA theorems

The definition `#[token("a")] A, #[regex("ab+")] B`: regex-automata's table as dumped by the hook (7 states,
ids in units of the table stride), the raw graph `rawOf` builds from it, the side conditions of
`fromDfa_matched` / `fromDfa_nomatch` / `fromDfa_eoi`, and attempts read off the table that end in each of
the three ways.
-/
namespace Logos.FromDfa.NonVacuity
open Logos Logos.FromDfa

def runs (l : List (Nat × Nat)) : List Nat := l.flatMap fun (t, n) => List.replicate n t

def dfa : Dfa :=
  { start := 48
    rows := [
      { id := 0,  eoi := 0,  matching := [],  next := runs [(0, 256)] },
      { id := 16, eoi := 0,  matching := [0], next := runs [(0, 256)] },
      { id := 24, eoi := 32, matching := [0], next := runs [(32, 98), (40, 1), (32, 157)] },
      { id := 32, eoi := 0,  matching := [1], next := runs [(0, 256)] },
      { id := 40, eoi := 32, matching := [1], next := runs [(32, 98), (40, 1), (32, 157)] },
      { id := 48, eoi := 0,  matching := [],  next := runs [(0, 97), (56, 1), (0, 158)] },
      { id := 56, eoi := 16, matching := [],  next := runs [(16, 98), (24, 1), (16, 157)] } ] }

def prios : List Nat := [2, 4]

/-- the raw graph as the code built it for this definition (hook lines RAWDEF / RSTATE / REDGE) -/
def rawG : Graph :=
  { root := 5
    states := #[
      {},
      { accept := some 0 },
      { accept := some 0, eoi := some 3, normal := [⟨[(0, 97), (99, 255)], 3⟩, ⟨[(98, 98)], 4⟩] },
      { accept := some 1 },
      { accept := some 1, eoi := some 3, normal := [⟨[(0, 97), (99, 255)], 3⟩, ⟨[(98, 98)], 4⟩] },
      { normal := [⟨[(97, 97)], 6⟩] },
      { eoi := some 1, normal := [⟨[(0, 97), (99, 255)], 1⟩, ⟨[(98, 98)], 2⟩] } ] }

set_option maxRecDepth 4096 in
theorem raw_states : (rawOf dfa prios).states = rawG.states := by decide +kernel
set_option maxRecDepth 4096 in
theorem raw_root : (rawOf dfa prios).root = rawG.root := by decide +kernel

/-- **the model builds the graph the code built** (at run time the `FROMDFA` query checks this for every definition) -/
theorem raw_eq : rawOf dfa prios = rawG := by
  have h1 := raw_states
  have h2 := raw_root
  cases h : rawOf dfa prios with
  | mk st r => rw [h] at h1 h2; simp only at h1 h2; subst h1; subst h2; rfl

set_option maxRecDepth 4096 in
theorem closed : closedB dfa = true := by decide +kernel

theorem side : dfaSideOK dfa prios = true := by
  have : (Passes.rawRootOK rawG && Passes.earlyEoiOK rawG && Passes.rawClosed rawG) = true := by decide +kernel
  simp only [dfaSideOK, raw_eq, closed, Bool.true_and]
  exact this

-- "abb;" : token B over 0..3; "a" : token A; "b" : no match, stop at 0; "" : end of input
example : dfaAttempt dfa prios false [97, 98, 98, 59] 0 = .matched 1 3 := by decide +kernel
example : dfaAttempt dfa prios false [97] 0 = .matched 0 1 := by decide +kernel
example : dfaAttempt dfa prios false [98] 0 = .nomatch 0 := by decide +kernel
example : dfaAttempt dfa prios false [] 0 = .eoi := by decide +kernel

/-- the instance of `fromDfa_matched` -/
example : walkAttempt (Passes.passes (rawOf dfa prios)) false [97, 98, 98, 59] 0 = .matched 1 3 :=
  fromDfa_matched (d := dfa) (p := prios) side _ (by decide) 0 1 3 (by decide +kernel)

end Logos.FromDfa.NonVacuity
