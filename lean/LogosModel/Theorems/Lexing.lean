import LogosModel.LexProof
import LogosModel.SpecProof
import LogosModel.WfProof
import LogosModel.Utf8Closed
/-!
# C01 / C02 / C03 in the words of the properties

These corollaries combine the certificate theorem (`attempt_eq`), the meaning of the reference scan
(`scan_some`, `scan_none`) and the graph-level bounds into statements about what one match attempt
of the *generated lexer* does, in terms of `Matches` only.
-/
namespace Logos

theorem scanAttempt_matched {prios : List Nat} {D : Vec} {inp : List Nat} {start l e : Nat}
    (h : scanAttempt prios D inp start = .matched l e) :
    ∃ off, start < inp.length ∧ scan prios D (inp.drop start) start none = (some (e, l), off) := by
  unfold scanAttempt at h
  split at h
  · cases h
  · rename_i hnil
    have hlt : start < inp.length := by
      apply Nat.lt_of_not_le
      intro hle
      exact hnil (List.drop_eq_nil_of_le hle)
    split at h
    · rename_i e' l' off heq
      cases h
      exact ⟨off, hlt, heq⟩
    · cases h

theorem scanAttempt_nomatch {prios : List Nat} {D : Vec} {inp : List Nat} {start off : Nat}
    (h : scanAttempt prios D inp start = .nomatch off) :
    start < inp.length ∧ scan prios D (inp.drop start) start none = (none, off) := by
  unfold scanAttempt at h
  split at h
  · cases h
  · rename_i hnil
    have hlt : start < inp.length := by
      apply Nat.lt_of_not_le
      intro hle
      exact hnil (List.drop_eq_nil_of_le hle)
    split at h
    · cases h
    · rename_i off' heq
      cases h
      exact ⟨hlt, heq⟩

theorem scanAttempt_of_scan_some {prios : List Nat} {D : Vec} {inp : List Nat} {start l e off : Nat}
    (hlt : start < inp.length)
    (h : scan prios D (inp.drop start) start none = (some (e, l), off)) :
    scanAttempt prios D inp start = .matched l e := by
  unfold scanAttempt
  split
  · rename_i hnil
    have := congrArg List.length hnil
    simp at this
    omega
  · rw [h]

/-- **C01.** For a validated definition, when an attempt started at `start` ends with leaf `l` and
token end `e`: the token is non-empty and inside the input; leaf `l` fully matches
`inp[start..e]`; no leaf matching that text has a higher priority; and no longer prefix of the
remaining input is fully matched by any leaf. -/
theorem C01_longest_match_top_priority {G : Graph} {prios : List Nat} {D : Vec} {C : Nat → Vec → Prop}
    (hv : Valid G prios D C) (hlen : prios.length = D.length) (inp : List Nat) (hb : ∀ b ∈ inp, b < 256)
    (start l e : Nat) (h : walkAttempt G false inp start = .matched l e) :
    start < e ∧ e ≤ inp.length ∧
    TopMatch prios D l (slice inp start e) ∧
    ∀ m, e < m → m ≤ inp.length → ¬ AnyMatch D (slice inp start m) := by
  have hne : ¬ AnyMatch D [] := (win_none hlen).1 hv.noEmpty
  rw [attempt_eq hv inp hb start] at h
  obtain ⟨off, hlt, hs⟩ := scanAttempt_matched h
  obtain ⟨h1, h2, h3, h4⟩ := scan_some hlen hne _ _ _ _ _ hs
  have hwl : (inp.drop start).length = inp.length - start := List.length_drop
  refine ⟨h1, by omega, h3, ?_⟩
  intro m hem hml
  exact h4 (m - start) (by omega) (by omega)

/-- **C01, completeness.** If some non-empty prefix of the remaining input is fully matched by some
leaf, the attempt ends in a match at least that long (never in an error). -/
theorem C01_match_found {G : Graph} {prios : List Nat} {D : Vec} {C : Nat → Vec → Prop}
    (hv : Valid G prios D C) (hlen : prios.length = D.length) (inp : List Nat) (hb : ∀ b ∈ inp, b < 256)
    (start m : Nat) (hm : start < m) (hml : m ≤ inp.length) (hmatch : AnyMatch D (slice inp start m)) :
    ∃ l e, walkAttempt G false inp start = .matched l e ∧ m ≤ e := by
  have hne : ¬ AnyMatch D [] := (win_none hlen).1 hv.noEmpty
  have hwl : (inp.drop start).length = inp.length - start := List.length_drop
  obtain ⟨e, l, off, hs, he⟩ :=
    scan_finds (prios := prios) hlen hne (inp.drop start) start (m - start) (by omega) (by omega) hmatch
  refine ⟨l, e, ?_, by omega⟩
  rw [attempt_eq hv inp hb start]
  exact scanAttempt_of_scan_some (by omega) hs

/-- **C02.** When an attempt started at `start` (inside the input) ends without a match at offset
`off`: no non-empty prefix of the remaining input is fully matched by any leaf; everything read up to
`off` could still be extended to a match; and the byte at `off` (if there is one) makes every
extension impossible. The error item then spans `start .. bnd(max(off, start+1))` (`nextLoop`). -/
theorem C02_error_stop {G : Graph} {prios : List Nat} {D : Vec} {C : Nat → Vec → Prop}
    (hv : Valid G prios D C) (hlen : prios.length = D.length) (inp : List Nat) (hb : ∀ b ∈ inp, b < 256)
    (start off : Nat) (h : walkAttempt G false inp start = .nomatch off) :
    start ≤ off ∧ off ≤ inp.length ∧
    (∀ m, start < m → m ≤ inp.length → ¬ AnyMatch D (slice inp start m)) ∧
    (∀ m, start < m → m ≤ off → ViableW D (slice inp start m)) ∧
    (off < inp.length → ¬ ViableW D (slice inp start (off + 1))) := by
  have hne : ¬ AnyMatch D [] := (win_none hlen).1 hv.noEmpty
  rw [attempt_eq hv inp hb start] at h
  obtain ⟨hlt, hs⟩ := scanAttempt_nomatch h
  obtain ⟨h1, h2, h3, h4, h5⟩ := scan_none hlen hne _ _ _ hs
  have hwl : (inp.drop start).length = inp.length - start := List.length_drop
  refine ⟨h2, by omega, ?_, ?_, ?_⟩
  · intro m hm hml
    exact h1 (m - start) (by omega) (by omega)
  · intro m hm hml
    exact h4 (m - start) (by omega) (by omega)
  · intro hoff
    have := h5 (by omega)
    have heq : off + 1 - start = off - start + 1 := by omega
    unfold slice
    rw [heq]
    exact this

/-- **C03, second clause.** A validated (hence accepted) definition has no pattern that can match the
empty string. -/
theorem C03_no_nullable_pattern {G : Graph} {prios : List Nat} {D : Vec} {C : Nat → Vec → Prop}
    (hv : Valid G prios D C) (hlen : prios.length = D.length) : ∀ r ∈ D, ¬ Matches r [] := by
  have hne : ¬ AnyMatch D [] := (win_none hlen).1 hv.noEmpty
  intro r hr hm
  obtain ⟨i, hi⟩ := List.getElem?_of_mem hr
  exact hne ⟨i, r, hi, hm⟩

end Logos
