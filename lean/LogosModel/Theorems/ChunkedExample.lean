import LogosModel.Reslice
import LogosModel.Theorems.NonVacuity
/-!
# Non-vacuity of `C07_chunked_feeding`
The graph of `a+` / `ab` (NonVacuity.G), the input `abaa`, buffers of 1, 3, 3 and 4 bytes: the partial lexer over `a`
waits, the one over `aba` commits `ab` and waits at 2, the repeated buffer changes nothing, the one over `abaa` still
waits (`a+` could grow), the ordinary lexer finishes with `aa`.
-/
namespace Logos.NonVacuity

theorem scheduleOK_example : ScheduleOK false [97, 98, 97, 97] 0 [1, 3, 3, 4] := by
  simp [ScheduleOK]

example : feed G (fun _ _ _ => ⟨.emit, 0⟩) false [97, 98, 97, 97] [1, 3, 3, 4] 0 = ([.ok 1 0 2, .ok 0 2 4], .done 4 4) := by
  decide +kernel

/-- the theorem applied: whatever the schedule, the result is the one-shot stream -/
example (ks : List Nat) (hs : ScheduleOK false [97, 98, 97, 97] 0 ks) :
    feed G (fun _ _ _ => ⟨.emit, 0⟩) false [97, 98, 97, 97] ks 0
      = graphLex G false (fun _ _ _ => ⟨.emit, 0⟩) false [97, 98, 97, 97] :=
  C07_chunked_feeding wf_G _ (fun _ _ _ => rfl) (fun _ _ _ _ => rfl) false _ (by decide) ks hs

end Logos.NonVacuity

/-! ## the same schedule fed by re-slicing (`Reslice.feedR`) -/
namespace Logos.NonVacuity

example : feedR G (fun _ _ _ => ⟨.emit, 0⟩) false [97, 98, 97, 97] [1, 3, 3, 4] 0 = ([.ok 1 0 2, .ok 0 2 4], .done 4 4) := by
  decide +kernel

/-- a slice lexed on its own: `aa` is `abaa` from offset 2, spans moved by 2 -/
example : shiftRun 2 (graphLex G false (fun _ _ _ => ⟨.emit, 0⟩) false [97, 97]) = ([.ok 0 2 4], .done 4 4) := by
  decide +kernel

example (ks : List Nat) (hs : ScheduleOK false [97, 98, 97, 97] 0 ks) :
    feedR G (fun _ _ _ => ⟨.emit, 0⟩) false [97, 98, 97, 97] ks 0
      = graphLex G false (fun _ _ _ => ⟨.emit, 0⟩) false [97, 98, 97, 97] :=
  C07_chunked_feeding_resliced wf_G _ (fun _ _ _ => rfl) (fun _ _ _ _ => rfl) false _ (by decide) ks hs

end Logos.NonVacuity
