/-!
# Hash-iteration sites of the code generator as functions of an arbitrary enumeration order (C16)

Every place where logos-codegen iterates a `HashMap`/`HashSet` falls into one of three shapes:

1. collect, then sort by a key that is unique in the container
   (`set_normal_edges`, `get_states`, `render_luts`, `impl_fork_table`'s state set, `Generator::generate`'s idents,
   `graph.errors.sort_unstable()` where equal elements are identical);
2. use only for membership / lookup (`reach_accept`, `rewrite_map`, `state_lookup`, `dfa_lookup`, subpattern map);
3. test whether the container is a given singleton (`child_state_types` in early-accept detection).

An enumeration order is modelled as an arbitrary permutation of a list; the theorems say the result
does not depend on it.
-/
namespace Logos.Order

/-- shape 1 -/
def sortByKey {α : Type} (key : α → Nat) (l : List α) : List α :=
  l.mergeSort (fun a b => decide (key a ≤ key b))

theorem key_inj_of_nodup_map {α : Type} (key : α → Nat) :
    ∀ (l : List α), (l.map key).Nodup → ∀ a b, a ∈ l → b ∈ l → key a = key b → a = b
  | [], _, _, _, ha, _, _ => by cases ha
  | x :: xs, hnd, a, b, ha, hb, hk => by
    rw [List.map_cons, List.nodup_cons] at hnd
    obtain ⟨hx, hxs⟩ := hnd
    rcases List.mem_cons.mp ha with rfl | ha' <;> rcases List.mem_cons.mp hb with rfl | hb'
    · rfl
    · exact absurd (hk ▸ List.mem_map_of_mem (f := key) hb') hx
    · exact absurd (hk ▸ List.mem_map_of_mem (f := key) ha') hx
    · exact key_inj_of_nodup_map key xs hxs a b ha' hb' hk

theorem sortByKey_eq_of_antisymm {α : Type} (key : α → Nat) (l l' : List α)
    (hanti : ∀ a b, a ∈ l → b ∈ l → key a = key b → a = b) (hp : l.Perm l') :
    sortByKey key l = sortByKey key l' := by
  unfold sortByKey
  have htrans : ∀ a b c : α, decide (key a ≤ key b) = true → decide (key b ≤ key c) = true →
      decide (key a ≤ key c) = true := by
    intro a b c h1 h2
    simp only [decide_eq_true_eq] at *
    exact Nat.le_trans h1 h2
  have htotal : ∀ a b : α, (decide (key a ≤ key b) || decide (key b ≤ key a)) = true := by
    intro a b
    simp only [Bool.or_eq_true, decide_eq_true_eq]
    exact Nat.le_total _ _
  have h1 := List.pairwise_mergeSort htrans htotal l
  have h2 := List.pairwise_mergeSort htrans htotal l'
  have hperm : (l.mergeSort fun a b => decide (key a ≤ key b)).Perm
      (l'.mergeSort fun a b => decide (key a ≤ key b)) :=
    (List.mergeSort_perm l _).trans (hp.trans (List.mergeSort_perm l' _).symm)
  refine List.Perm.eq_of_pairwise ?_ h1 h2 hperm
  intro a b ha hb hab hba
  simp only [decide_eq_true_eq] at hab hba
  have ha' : a ∈ l := (List.mergeSort_perm l _).mem_iff.mp ha
  have hb' : b ∈ l := hp.mem_iff.mpr ((List.mergeSort_perm l' _).mem_iff.mp hb)
  exact hanti a b ha' hb' (Nat.le_antisymm hab hba)

theorem sortByKey_perm {α : Type} (key : α → Nat) (l l' : List α)
    (hnd : (l.map key).Nodup) (hp : l.Perm l') : sortByKey key l = sortByKey key l' :=
  sortByKey_eq_of_antisymm key l l' (key_inj_of_nodup_map key l hnd) hp

/-- `Vec<GraphError>::sort_unstable()` with a total order given by an injective rank -/
theorem sortByKey_perm_of_injective {α : Type} (key : α → Nat) (hinj : ∀ a b, key a = key b → a = b)
    (l l' : List α) (hp : l.Perm l') : sortByKey key l = sortByKey key l' :=
  sortByKey_eq_of_antisymm key l l' (fun a b _ _ h => hinj a b h) hp

/-- shape 3: `if let &[Some(leaf_id)] = &*child_state_types_vec` -/
def singletonSome : List (Option Nat) → Option Nat
  | [some l] => some l
  | _ => none

theorem singletonSome_perm (v v' : List (Option Nat)) (hp : v.Perm v') :
    singletonSome v = singletonSome v' := by
  have hlen := hp.length_eq
  match v, v', hp, hlen with
  | [], [], _, _ => rfl
  | [x], [y], hp, _ =>
    have : [x] = [y] := List.perm_singleton.mp hp
    rw [this]
  | _ :: _ :: _, _ :: _ :: _, _, _ => simp [singletonSome]
  | [], _ :: _, _, h => simp at h
  | _ :: _, [], _, h => simp at h
  | [_], _ :: _ :: _, _, h => simp at h
  | _ :: _ :: _, [_], _, h => simp at h

/-- shape 2: membership is order-independent -/
theorem contains_perm (v v' : List Nat) (hp : v.Perm v') (x : Nat) : v.contains x = v'.contains x :=
  hp.contains_eq

/-- `ByteClass::merge` is a union of byte sets: merging the duplicated edges of `rewrite_states` in any
order gives the same class (classes as 256-bit tables) -/
def mergeTables (ts : List (List Bool)) : List Bool :=
  (List.range 256).map fun i => ts.any fun t => t.getD i false

theorem mergeTables_perm (ts ts' : List (List Bool)) (hp : ts.Perm ts') : mergeTables ts = mergeTables ts' := by
  unfold mergeTables
  apply List.map_congr_left
  intro i _
  exact hp.any_eq

end Logos.Order
