import LogosModel.Api
import LogosModel.WfProof
namespace Logos

theorem getD_lt {α} (l : List α) (j : Nat) (d : α) (h : j < l.length) : l.getD j d = l[j] := by
  simp [List.getD_eq_getElem?_getD, h]

/-- both sources consist of bytes -/
def ApiEnv.bytesOK (env : ApiEnv) : Prop := (∀ b ∈ env.src, b < 256) ∧ ∀ b ∈ env.src2, b < 256

theorem ApiEnv.srcOf_bytes (env : ApiEnv) (hb : env.bytesOK) (st : LexSt) : ∀ b ∈ env.srcOf st, b < 256 := by
  unfold ApiEnv.srcOf; split
  · exact hb.1
  · exact hb.2

theorem lexerNext_srcId (env : ApiEnv) (st : LexSt) : (lexerNext env st).1.srcId = st.srcId := by
  unfold lexerNext
  simp only
  cases nextLoop (walkAttempt (env.graph st.ty) st.pfx (env.srcOf st)) (env.cb st.ty) env.utf8 (env.srcOf st) ((env.srcOf st).length + 2) st.stop <;> rfl

theorem lexerBump_srcId (env : ApiEnv) (st : LexSt) (n : Nat) : (lexerBump env st n).1.srcId = st.srcId := by
  unfold lexerBump
  cases bumpFixed (env.isB st) ⟨st.start, st.stop⟩ n <;> rfl

theorem srcOf_congr (env : ApiEnv) {a b : LexSt} (h : a.srcId = b.srcId) : env.srcOf a = env.srcOf b := by
  unfold ApiEnv.srcOf; rw [h]

theorem lexerNext_inRange (env : ApiEnv) (hA : WF env.gA) (hB : WF env.gB)
    (hcbA : NoBump env.cbA) (hcbB : NoBump env.cbB) (hb : env.bytesOK)
    (st : LexSt) (hp : st.pfx = false) (h : st.ok env) :
    (lexerNext env st).1.ok env := by
  have hG : WF (env.graph st.ty) := by unfold ApiEnv.graph; split <;> assumption
  have hC : NoBump (env.cb st.ty) := by unfold ApiEnv.cb; split <;> assumption
  have := nextLoop_ok hG (env.cb st.ty) hC env.utf8 (env.srcOf st) (env.srcOf_bytes hb st) ((env.srcOf st).length + 2) st.stop h.2 (by omega)
  unfold LexSt.ok
  rw [srcOf_congr env (lexerNext_srcId env st)]
  unfold lexerNext
  rw [hp]
  rcases this with h1 | ⟨it, h1, h2, h3, h4⟩
  · rw [h1]; simp [LexSt.inRange]
  · rw [h1]; simp only [LexSt.inRange]; omega

theorem lexerBump_inRange (env : ApiEnv) (st : LexSt) (n : Nat) (h : st.ok env) :
    (lexerBump env st n).1.ok env := by
  have hbf : BoundaryFn (env.srcOf st).length (env.isB st) := by
    unfold ApiEnv.isB
    split
    · exact boundaryFn_str (env.srcOf st)
    · exact boundaryFn_bytes (env.srcOf st).length
  unfold LexSt.ok
  rw [srcOf_congr env (lexerBump_srcId env st n)]
  unfold lexerBump bumpFixed
  by_cases hc : st.stop + n < two64 ∧ env.isB st (st.stop + n) = true
  · have := hbf _ hc.2
    have := h.1
    simp only [hc, and_self, if_true, LexSt.inRange]
    omega
  · simp only [hc, if_false]
    exact h

/-- the lexer is an ordinary one and its span is valid in its own source -/
def LexSt.okPlain (env : ApiEnv) (st : LexSt) : Prop := st.pfx = false ∧ st.ok env

theorem lexerNext_pfx (env : ApiEnv) (st : LexSt) : (lexerNext env st).1.pfx = st.pfx := by
  unfold lexerNext
  simp only
  cases nextLoop (walkAttempt (env.graph st.ty) st.pfx (env.srcOf st)) (env.cb st.ty) env.utf8 (env.srcOf st) ((env.srcOf st).length + 2) st.stop <;> rfl

theorem lexerBump_pfx (env : ApiEnv) (st : LexSt) (n : Nat) : (lexerBump env st n).1.pfx = st.pfx := by
  unfold lexerBump
  cases bumpFixed (env.isB st) ⟨st.start, st.stop⟩ n <;> rfl

theorem apiStep_inRange (env : ApiEnv) (hA : WF env.gA) (hB : WF env.gB)
    (hcbA : NoBump env.cbA) (hcbB : NoBump env.cbB) (hb : env.bytesOK)
    (op : ApiOp) (hop : ∀ k, op ≠ .fresh true k) (pool : List LexSt) (h : ∀ st ∈ pool, st.okPlain env) :
    ∀ st ∈ (apiStep env pool op).1, st.okPlain env := by
  unfold apiStep
  split
  · exact h
  · rename_i hne
    have hlen : 0 < pool.length := by
      cases pool with
      | nil => simp at hne
      | cons a l => simp
    have hpick : ∀ i, (pool.getD (i % pool.length) ⟨0, 0, 0, 0, false, 0⟩).okPlain env := by
      intro i
      have hj : i % pool.length < pool.length := Nat.mod_lt _ hlen
      rw [getD_lt _ _ _ hj]
      exact h _ (List.getElem_mem hj)
    have hset : ∀ j x, x.okPlain env → ∀ st ∈ setAt pool j x, st.okPlain env := by
      intro j x hx st hst
      rcases List.mem_or_eq_of_mem_set hst with h1 | h1
      · exact h _ h1
      · rw [h1]; exact hx
    have hnext : ∀ i, ((lexerNext env (pool.getD (i % pool.length) ⟨0, 0, 0, 0, false, 0⟩)).1).okPlain env :=
      fun i => ⟨(lexerNext_pfx env _).trans (hpick i).1,
        lexerNext_inRange env hA hB hcbA hcbB hb _ (hpick i).1 (hpick i).2⟩
    cases op with
    | next i => exact hset _ _ (hnext i)
    | snext i => exact hset _ _ (hnext i)
    | bump i n => exact hset _ _ ⟨(lexerBump_pfx env _ n).trans (hpick i).1, lexerBump_inRange env _ n (hpick i).2⟩
    | clone i =>
      intro st hst
      simp only [List.mem_append, List.mem_singleton] at hst
      rcases hst with h1 | h1
      · exact h _ h1
      · rw [h1]; exact hpick i
    | morph i => exact hset _ _ ⟨(hpick i).1, (hpick i).2⟩
    | fresh p k =>
      intro st hst
      simp only [List.mem_append, List.mem_singleton] at hst
      rcases hst with h1 | h1
      · exact h _ h1
      · rw [h1]
        cases p with
        | true => exact absurd rfl (hop k)
        | false => exact ⟨rfl, by simp [LexSt.ok, LexSt.inRange]⟩
    | cloneFrom i j =>
      simp only
      split
      · exact hset _ _ (hpick j)
      · exact h

/-- **C14, spans stay valid in every call order.** For two well-formed graphs and two sources, and any finite
sequence of `next`, `bump` (any `n`: out-of-range bumps panic and leave the lexer unchanged), `clone`,
`clone_from`, `morph`, `spanned().next()` calls and new lexers over either source, on a pool of ordinary
(non-partial) lexers, every lexer of the pool keeps `start ≤ end ≤ len` **of its own source** (for partial
lexers: `api_in_range_any`). -/
theorem api_in_range (env : ApiEnv) (hA : WF env.gA) (hB : WF env.gB)
    (hcbA : NoBump env.cbA) (hcbB : NoBump env.cbB) (hb : env.bytesOK)
    (ops : List ApiOp) (hops : ∀ op ∈ ops, ∀ k, op ≠ .fresh true k) (pool : List LexSt)
    (h : ∀ st ∈ pool, st.okPlain env) :
    ∀ st ∈ apiRun env pool ops, st.ok env := by
  suffices hs : ∀ st ∈ apiRun env pool ops, st.okPlain env from fun st hst => (hs st hst).2
  induction ops generalizing pool with
  | nil => exact h
  | cons op ops ih =>
    unfold apiRun
    exact ih (fun o ho => hops o (List.mem_cons_of_mem _ ho)) _
      (apiStep_inRange env hA hB hcbA hcbB hb op (hops op (List.mem_cons_self)) pool h)

/-- **`clone_from` makes the target an exact copy of the source lexer, mode and source included**: afterwards
the two lexers are equal, so every later call gives the same result on both -/
theorem cloneFrom_copies (env : ApiEnv) (pool : List LexSt) (i j : Nat) (hne : pool ≠ [])
    (hty : (pool.getD (i % pool.length) ⟨0, 0, 0, 0, false, 0⟩).ty = (pool.getD (j % pool.length) ⟨0, 0, 0, 0, false, 0⟩).ty) :
    ((apiStep env pool (.cloneFrom i j)).1).getD (i % pool.length) ⟨0, 0, 0, 0, false, 0⟩ =
      pool.getD (j % pool.length) ⟨0, 0, 0, 0, false, 0⟩ := by
  have hlen : 0 < pool.length := List.length_pos_iff.mpr hne
  have hj : i % pool.length < pool.length := Nat.mod_lt _ hlen
  unfold apiStep
  simp only [List.isEmpty_iff, hne, if_false, hty, if_true, setAt]
  rw [getD_lt _ _ _ (by simpa using hj)]
  simp

/-- `clone` copies the mode and the source too -/
theorem clone_copies_mode (env : ApiEnv) (pool : List LexSt) (i : Nat) (hne : pool ≠ []) :
    (((apiStep env pool (.clone i)).1).getD pool.length ⟨0, 0, 0, 0, false, 0⟩) =
      pool.getD (i % pool.length) ⟨0, 0, 0, 0, false, 0⟩ := by
  unfold apiStep
  simp [hne, List.getD_eq_getElem?_getD]

/-- `clone` leaves every existing lexer untouched and appends an identical one -/
theorem clone_independent (env : ApiEnv) (pool : List LexSt) (i : Nat) (hne : pool ≠ []) :
    (apiStep env pool (.clone i)).1 = pool ++ [pool.getD (i % pool.length) ⟨0, 0, 0, 0, false, 0⟩] := by
  unfold apiStep
  simp [hne]

/-- `morph` preserves position and extras -/
theorem morph_preserves (env : ApiEnv) (pool : List LexSt) (i : Nat) (hne : pool ≠ []) :
    let st := pool.getD (i % pool.length) ⟨0, 0, 0, 0, false, 0⟩
    let st' := ((apiStep env pool (.morph i)).1).getD (i % pool.length) ⟨0, 0, 0, 0, false, 0⟩
    st'.start = st.start ∧ st'.stop = st.stop ∧ st'.extras = st.extras ∧ st'.pfx = st.pfx ∧ st'.srcId = st.srcId ∧ st'.ty ≠ st.ty := by
  have hlen : 0 < pool.length := List.length_pos_iff.mpr hne
  have hj : i % pool.length < pool.length := Nat.mod_lt _ hlen
  unfold apiStep
  simp only [List.isEmpty_iff, hne, if_false, setAt]
  rw [getD_lt _ _ _ (by simpa using hj)]
  simp only [List.getElem_set_self]
  refine ⟨trivial, trivial, trivial, trivial, trivial, ?_⟩
  split <;> omega

/-- morphing to the other token type and back gives the original pool -/
theorem morph_twice (env : ApiEnv) (pool : List LexSt) (i : Nat) (hne : pool ≠ [])
    (hty : ∀ st ∈ pool, st.ty ≤ 1) :
    (apiStep env (apiStep env pool (.morph i)).1 (.morph i)).1 = pool := by
  have hlen : 0 < pool.length := List.length_pos_iff.mpr hne
  have hj : i % pool.length < pool.length := Nat.mod_lt _ hlen
  have h1 : (apiStep env pool (.morph i)).1 = pool.set (i % pool.length)
      { pool[i % pool.length] with ty := if pool[i % pool.length].ty = 0 then 1 else 0 } := by
    unfold apiStep
    simp only [List.isEmpty_iff, hne, if_false, setAt]
    rw [getD_lt _ _ _ hj]
  rw [h1]
  unfold apiStep
  have hne' : pool.set (i % pool.length)
      { pool[i % pool.length] with ty := if pool[i % pool.length].ty = 0 then 1 else 0 } ≠ [] := by
    simpa using hne
  simp only [List.isEmpty_iff, hne', if_false, setAt, List.length_set]
  rw [getD_lt _ _ _ (by simpa using hj)]
  simp only [List.getElem_set_self, List.set_set]
  have ht := hty _ (List.getElem_mem hj)
  have : ({ pool[i % pool.length] with ty := if (if pool[i % pool.length].ty = 0 then 1 else 0) = 0 then 1 else 0 } : LexSt)
      = pool[i % pool.length] := by
    generalize pool[i % pool.length] = s at ht ⊢
    cases s with
    | mk ty a b c d e =>
      simp only at ht ⊢
      congr
      split <;> split <;> omega
  rw [this]
  exact List.set_getElem_self hj

/-- `spanned().next()` advances exactly like `next()` and reports the lexer's span -/
theorem spanned_eq_manual (env : ApiEnv) (pool : List LexSt) (i : Nat) :
    (apiStep env pool (.snext i)).1 = (apiStep env pool (.next i)).1 := by
  unfold apiStep
  split <;> rfl

end Logos
