import LogosModel.Api
import LogosModel.WfProof
namespace Logos

theorem getD_lt {α} (l : List α) (j : Nat) (d : α) (h : j < l.length) : l.getD j d = l[j] := by
  simp [List.getD_eq_getElem?_getD, h]

theorem lexerNext_inRange (env : ApiEnv) (hA : WF env.gA) (hB : WF env.gB)
    (hcbA : NoBump env.cbA) (hcbB : NoBump env.cbB) (hb : ∀ b ∈ env.src, b < 256)
    (st : LexSt) (hp : st.pfx = false) (h : st.inRange env.src.length) :
    (lexerNext env st).1.inRange env.src.length := by
  have hG : WF (env.graph st.ty) := by unfold ApiEnv.graph; split <;> assumption
  have hC : NoBump (env.cb st.ty) := by unfold ApiEnv.cb; split <;> assumption
  have := nextLoop_ok hG (env.cb st.ty) hC env.utf8 env.src hb (env.src.length + 2) st.stop h.2 (by omega)
  unfold lexerNext
  rw [hp]
  rcases this with h1 | ⟨it, h1, h2, h3, h4⟩
  · rw [h1]; simp [LexSt.inRange]
  · rw [h1]; simp only [LexSt.inRange]; omega

theorem lexerBump_inRange (env : ApiEnv) (st : LexSt) (n : Nat) (h : st.inRange env.src.length) :
    (lexerBump env st n).1.inRange env.src.length := by
  have hbf : BoundaryFn env.src.length env.isB := by
    unfold ApiEnv.isB
    split
    · exact boundaryFn_str env.src
    · exact boundaryFn_bytes env.src.length
  unfold lexerBump bumpFixed
  by_cases hc : st.stop + n < two64 ∧ env.isB (st.stop + n) = true
  · have := hbf _ hc.2
    have := h.1
    simp only [hc, and_self, if_true, LexSt.inRange]
    omega
  · simp only [hc, if_false]
    exact h

/-- the lexer is an ordinary one and its span is valid -/
def LexSt.okPlain (len : Nat) (st : LexSt) : Prop := st.pfx = false ∧ st.inRange len

theorem lexerNext_pfx (env : ApiEnv) (st : LexSt) : (lexerNext env st).1.pfx = st.pfx := by
  unfold lexerNext
  simp only
  cases nextLoop (walkAttempt (env.graph st.ty) st.pfx env.src) (env.cb st.ty) env.utf8 env.src (env.src.length + 2) st.stop <;> rfl

theorem lexerBump_pfx (env : ApiEnv) (st : LexSt) (n : Nat) : (lexerBump env st n).1.pfx = st.pfx := by
  unfold lexerBump
  cases bumpFixed env.isB ⟨st.start, st.stop⟩ n <;> rfl

theorem apiStep_inRange (env : ApiEnv) (hA : WF env.gA) (hB : WF env.gB)
    (hcbA : NoBump env.cbA) (hcbB : NoBump env.cbB) (hb : ∀ b ∈ env.src, b < 256)
    (op : ApiOp) (hop : op ≠ .fresh true) (pool : List LexSt) (h : ∀ st ∈ pool, st.okPlain env.src.length) :
    ∀ st ∈ (apiStep env pool op).1, st.okPlain env.src.length := by
  unfold apiStep
  split
  · exact h
  · rename_i hne
    have hlen : 0 < pool.length := by
      cases pool with
      | nil => simp at hne
      | cons a l => simp
    have hpick : ∀ i, (pool.getD (i % pool.length) ⟨0, 0, 0, 0, false⟩).okPlain env.src.length := by
      intro i
      have hj : i % pool.length < pool.length := Nat.mod_lt _ hlen
      rw [getD_lt _ _ _ hj]
      exact h _ (List.getElem_mem hj)
    have hset : ∀ j x, x.okPlain env.src.length → ∀ st ∈ setAt pool j x, st.okPlain env.src.length := by
      intro j x hx st hst
      rcases List.mem_or_eq_of_mem_set hst with h1 | h1
      · exact h _ h1
      · rw [h1]; exact hx
    have hnext : ∀ i, ((lexerNext env (pool.getD (i % pool.length) ⟨0, 0, 0, 0, false⟩)).1).okPlain env.src.length :=
      fun i => ⟨(lexerNext_pfx env _).trans (hpick i).1,
        lexerNext_inRange env hA hB hcbA hcbB hb _ (hpick i).1 (hpick i).2⟩
    cases op with
    | next i => exact hset _ _ (hnext i)
    | snext i => exact hset _ _ (hnext i)
    | bump i n => exact hset _ _ ⟨(lexerBump_pfx env _ n).trans (hpick i).1, lexerBump_inRange env _ n (hpick i).2⟩
    | clone i =>
      intro st hst
      simp only [List.mem_append, List.mem_singleton] at hst
      rcases hst with h1 | h1
      · exact h _ h1
      · rw [h1]; exact hpick i
    | morph i => exact hset _ _ ⟨(hpick i).1, (hpick i).2⟩
    | fresh p =>
      intro st hst
      simp only [List.mem_append, List.mem_singleton] at hst
      rcases hst with h1 | h1
      · exact h _ h1
      · rw [h1]
        cases p with
        | true => exact absurd rfl hop
        | false => exact ⟨rfl, by simp [LexSt.inRange]⟩
    | cloneFrom i j =>
      simp only
      split
      · exact hset _ _ (hpick j)
      · exact h

/-- **C14, spans stay valid in every call order.** For two well-formed graphs over one source and
any finite sequence of `next`, `bump` (any `n`: out-of-range bumps panic and leave the lexer
unchanged), `clone`, `clone_from`, `morph` and `spanned().next()` calls on a pool of ordinary (non-partial)
lexers, every lexer of the pool keeps `start ≤ end ≤ len` (for partial lexers: `api_in_range_any`). -/
theorem api_in_range (env : ApiEnv) (hA : WF env.gA) (hB : WF env.gB)
    (hcbA : NoBump env.cbA) (hcbB : NoBump env.cbB) (hb : ∀ b ∈ env.src, b < 256)
    (ops : List ApiOp) (hops : ∀ op ∈ ops, op ≠ .fresh true) (pool : List LexSt)
    (h : ∀ st ∈ pool, st.okPlain env.src.length) :
    ∀ st ∈ apiRun env pool ops, st.inRange env.src.length := by
  suffices hs : ∀ st ∈ apiRun env pool ops, st.okPlain env.src.length from fun st hst => (hs st hst).2
  induction ops generalizing pool with
  | nil => exact h
  | cons op ops ih =>
    unfold apiRun
    exact ih (fun o ho => hops o (List.mem_cons_of_mem _ ho)) _
      (apiStep_inRange env hA hB hcbA hcbB hb op (hops op (List.mem_cons_self)) pool h)

/-- **`clone_from` makes the target an exact copy of the source lexer, mode included**: afterwards the two
lexers are equal, so every later call gives the same result on both -/
theorem cloneFrom_copies (env : ApiEnv) (pool : List LexSt) (i j : Nat) (hne : pool ≠ [])
    (hty : (pool.getD (i % pool.length) ⟨0, 0, 0, 0, false⟩).ty = (pool.getD (j % pool.length) ⟨0, 0, 0, 0, false⟩).ty) :
    ((apiStep env pool (.cloneFrom i j)).1).getD (i % pool.length) ⟨0, 0, 0, 0, false⟩ =
      pool.getD (j % pool.length) ⟨0, 0, 0, 0, false⟩ := by
  have hlen : 0 < pool.length := List.length_pos_iff.mpr hne
  have hj : i % pool.length < pool.length := Nat.mod_lt _ hlen
  unfold apiStep
  simp only [List.isEmpty_iff, hne, if_false, hty, if_true, setAt]
  rw [getD_lt _ _ _ (by simpa using hj)]
  simp

/-- `clone` copies the mode too -/
theorem clone_copies_mode (env : ApiEnv) (pool : List LexSt) (i : Nat) (hne : pool ≠ []) :
    (((apiStep env pool (.clone i)).1).getD pool.length ⟨0, 0, 0, 0, false⟩) =
      pool.getD (i % pool.length) ⟨0, 0, 0, 0, false⟩ := by
  unfold apiStep
  simp [hne, List.getD_eq_getElem?_getD]

/-- `clone` leaves every existing lexer untouched and appends an identical one -/
theorem clone_independent (env : ApiEnv) (pool : List LexSt) (i : Nat) (hne : pool ≠ []) :
    (apiStep env pool (.clone i)).1 = pool ++ [pool.getD (i % pool.length) ⟨0, 0, 0, 0, false⟩] := by
  unfold apiStep
  simp [hne]

/-- `morph` preserves position and extras -/
theorem morph_preserves (env : ApiEnv) (pool : List LexSt) (i : Nat) (hne : pool ≠ []) :
    let st := pool.getD (i % pool.length) ⟨0, 0, 0, 0, false⟩
    let st' := ((apiStep env pool (.morph i)).1).getD (i % pool.length) ⟨0, 0, 0, 0, false⟩
    st'.start = st.start ∧ st'.stop = st.stop ∧ st'.extras = st.extras ∧ st'.pfx = st.pfx ∧ st'.ty ≠ st.ty := by
  have hlen : 0 < pool.length := List.length_pos_iff.mpr hne
  have hj : i % pool.length < pool.length := Nat.mod_lt _ hlen
  unfold apiStep
  simp only [List.isEmpty_iff, hne, if_false, setAt]
  rw [getD_lt _ _ _ (by simpa using hj)]
  simp only [List.getElem_set_self]
  refine ⟨trivial, trivial, trivial, trivial, ?_⟩
  split <;> omega

/-- morphing to the other token type and back gives the original pool -/
theorem morph_twice (env : ApiEnv) (pool : List LexSt) (i : Nat) (hne : pool ≠ [])
    (hty : ∀ st ∈ pool, st.ty ≤ 1) :
    (apiStep env (apiStep env pool (.morph i)).1 (.morph i)).1 = pool := by
  have hlen : 0 < pool.length := List.length_pos_iff.mpr hne
  have hj : i % pool.length < pool.length := Nat.mod_lt _ hlen
  have h1 : (apiStep env pool (.morph i)).1 = pool.set (i % pool.length)
      { pool[i % pool.length] with ty := if pool[i % pool.length].ty = 0 then 1 else 0 } := by
    unfold apiStep
    simp only [List.isEmpty_iff, hne, if_false, setAt]
    rw [getD_lt _ _ _ hj]
  rw [h1]
  unfold apiStep
  have hne' : pool.set (i % pool.length)
      { pool[i % pool.length] with ty := if pool[i % pool.length].ty = 0 then 1 else 0 } ≠ [] := by
    simpa using hne
  simp only [List.isEmpty_iff, hne', if_false, setAt, List.length_set]
  rw [getD_lt _ _ _ (by simpa using hj)]
  simp only [List.getElem_set_self, List.set_set]
  have ht := hty _ (List.getElem_mem hj)
  have : ({ pool[i % pool.length] with ty := if (if pool[i % pool.length].ty = 0 then 1 else 0) = 0 then 1 else 0 } : LexSt)
      = pool[i % pool.length] := by
    generalize pool[i % pool.length] = s at ht ⊢
    cases s with
    | mk ty a b c d =>
      simp only at ht ⊢
      congr
      split <;> split <;> omega
  rw [this]
  exact List.set_getElem_self hj

/-- `spanned().next()` advances exactly like `next()` and reports the lexer's span -/
theorem spanned_eq_manual (env : ApiEnv) (pool : List LexSt) (i : Nat) :
    (apiStep env pool (.snext i)).1 = (apiStep env pool (.next i)).1 := by
  unfold apiStep
  split <;> rfl

end Logos
