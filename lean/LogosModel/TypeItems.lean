/-!
# `#[logos(lifetime = ..)]` and `#[logos(type T = ..)]` items (C18)

`TypeParams::set_type` / `set_source_lifetime` / `generics` (logos-codegen/src/parser/type_params.rs) and
the duplicate handling of the single-valued items of `try_parse_logos` (parser/mod.rs).

A type is abstracted to the list of lifetime names occurring in it (all the code does with a type is to
rename its lifetimes to `'s` while the source lifetime is implicit).  `…Found` is the code as found:
`set_type` renames at the moment the item is read, so the result depends on whether the `lifetime` item
came before or after.  `…Fixed` stores the type as written and renames when the generics are produced.
-/
namespace Logos.TypeItems

inductive SrcLt where
  | implicit
  | fresh                     -- `lifetime = none`
  | named (lt : String)
deriving Repr, DecidableEq

abbrev Ty := List String

/-- `fix_source_lifetime_implicit` -/
def fixTy (sl : SrcLt) (t : Ty) : Ty :=
  match sl with
  | .implicit => t.map fun _ => "s"
  | _ => t

inductive Item where
  | lifetime (v : Option String)          -- `lifetime = none` / `lifetime = 'a`
  | type (param : String) (t : Ty)        -- `type T = <type>`
deriving Repr, DecidableEq

structure St where
  ltParams : List String                  -- declared lifetime parameters
  sl : SrcLt := .implicit
  ltSet : Bool := false                   -- a `lifetime` item has been seen
  types : List (String × Option Ty)       -- declared type parameters, in declaration order
  errs : Nat := 0
deriving Repr, DecidableEq

def setSlot (types : List (String × Option Ty)) (p : String) (t : Ty) : List (String × Option Ty) × Bool × Bool :=
  -- (new list, found, had a previous value)
  match types with
  | [] => ([], false, false)
  | (n, v) :: rest =>
    if n == p then ((n, some t) :: rest, true, v.isSome)
    else
      let (r, f, d) := setSlot rest p t
      ((n, v) :: r, f, d)

def stepLifetime (s : St) (v : Option String) : St :=
  let e1 := if s.ltSet then 1 else 0                       -- "Lifetime can be defined only once"
  match v with
  | none => { s with sl := .fresh, ltSet := true, errs := s.errs + e1 }
  | some lt =>
    let e2 := if s.ltParams.contains lt then 0 else 1      -- "Lifetime not found in parameters"
    { s with sl := .named lt, ltSet := true, errs := s.errs + e1 + e2 }

def stepType (rename : Bool) (s : St) (p : String) (t : Ty) : St :=
  let t' := if rename then fixTy s.sl t else t
  let (types, found, dup) := setSlot s.types p t'
  if !found then { s with errs := s.errs + 1 }             -- "not a declared type parameter"
  else { s with types := types, errs := s.errs + (if dup then 1 else 0) }

def stepFound (s : St) : Item → St
  | .lifetime v => stepLifetime s v
  | .type p t => stepType true s p t

def stepFixed (s : St) : Item → St
  | .lifetime v => stepLifetime s v
  | .type p t => stepType false s p t

/-- the concrete types pushed by `generics()` (a parameter without a type is an error there) -/
def genericsFound (s : St) : List (Option Ty) := s.types.map (·.2)
def genericsFixed (s : St) : List (Option Ty) := s.types.map fun x => x.2.map (fixTy s.sl)

def runFound (s : St) (items : List Item) : St := items.foldl stepFound s
def runFixed (s : St) (items : List Item) : St := items.foldl stepFixed s

def init (ltParams tyParams : List String) : St := { ltParams := ltParams, types := tyParams.map fun p => (p, none) }

/-- the code as found is order-dependent: `type X = &'a str` before or after `lifetime = 'a` -/
theorem found_order_dependent :
    let s := init ["a"] ["X"]
    let i1 := [Item.lifetime (some "a"), Item.type "X" ["a"]]
    let i2 := [Item.type "X" ["a"], Item.lifetime (some "a")]
    (runFound s i1).errs = 0 ∧ (runFound s i2).errs = 0 ∧
    genericsFound (runFound s i1) ≠ genericsFound (runFound s i2) := by
  decide

/-! ## Auxiliary characterisation of `setSlot` / `stepType` -/

/-- the list component of `setSlot` -/
def upd (l : List (String × Option Ty)) (p : String) (t : Ty) : List (String × Option Ty) :=
  match l with
  | [] => []
  | (n, v) :: rest => if n == p then (n, some t) :: rest else (n, v) :: upd rest p t

/-- the `found` component of `setSlot` -/
def fnd (l : List (String × Option Ty)) (p : String) : Bool :=
  match l with
  | [] => false
  | (n, _) :: rest => if n == p then true else fnd rest p

/-- the `had a previous value` component of `setSlot` -/
def dupl (l : List (String × Option Ty)) (p : String) : Bool :=
  match l with
  | [] => false
  | (n, v) :: rest => if n == p then v.isSome else dupl rest p

/-- the number of diagnostics of one `type p = ..` item -/
def cost (l : List (String × Option Ty)) (p : String) : Nat :=
  match l with
  | [] => 1
  | (n, v) :: rest => if n == p then (if v.isSome then 1 else 0) else cost rest p

theorem setSlot_eq (l : List (String × Option Ty)) (p : String) (t : Ty) :
    setSlot l p t = (upd l p t, fnd l p, dupl l p) := by
  induction l with
  | nil => rfl
  | cons x rest ih =>
    obtain ⟨n, v⟩ := x
    simp only [setSlot, upd, fnd, dupl, ih]
    split <;> rfl

theorem upd_not_fnd (l : List (String × Option Ty)) (p : String) (t : Ty) (h : fnd l p = false) :
    upd l p t = l := by
  induction l with
  | nil => rfl
  | cons x rest ih =>
    obtain ⟨n, v⟩ := x
    by_cases hn : n = p
    · simp [fnd, hn] at h
    · simp [fnd, hn] at h
      simp [upd, hn, ih h]

theorem cost_eq (l : List (String × Option Ty)) (p : String) :
    cost l p = if fnd l p then (if dupl l p then 1 else 0) else 1 := by
  induction l with
  | nil => rfl
  | cons x rest ih =>
    obtain ⟨n, v⟩ := x
    by_cases hn : n = p
    · simp [cost, fnd, dupl, hn]
    · simp [cost, fnd, dupl, hn, ih]

/-- normal form of `stepType`: the slot list is always `upd ..` and the diagnostics are `cost ..` -/
theorem stepType_eq (rename : Bool) (s : St) (p : String) (t : Ty) :
    stepType rename s p t =
      { s with types := upd s.types p (if rename then fixTy s.sl t else t),
               errs := s.errs + cost s.types p } := by
  unfold stepType
  simp only [setSlot_eq, cost_eq]
  cases hf : fnd s.types p
  · simp [upd_not_fnd _ _ _ hf]
  · simp

theorem cost_upd_same (l : List (String × Option Ty)) (p : String) (t : Ty) :
    cost (upd l p t) p = 1 := by
  induction l with
  | nil => rfl
  | cons x rest ih =>
    obtain ⟨n, v⟩ := x
    by_cases hn : n = p
    · simp [cost, upd, hn]
    · simp [cost, upd, hn, ih]

theorem cost_upd_other (l : List (String × Option Ty)) (p q : String) (t : Ty) (hpq : p ≠ q) :
    cost (upd l p t) q = cost l q := by
  induction l with
  | nil => rfl
  | cons x rest ih =>
    obtain ⟨n, v⟩ := x
    by_cases hn : n = p
    · subst hn; simp [cost, upd, hpq]
    · by_cases hq : n = q
      · subst hq; simp [cost, upd, hn]
      · simp [cost, upd, hn, hq, ih]

theorem upd_comm (l : List (String × Option Ty)) (p q : String) (t u : Ty) (hpq : p ≠ q) :
    upd (upd l p t) q u = upd (upd l q u) p t := by
  induction l with
  | nil => rfl
  | cons x rest ih =>
    obtain ⟨n, v⟩ := x
    by_cases hn : n = p
    · subst hn; simp [upd, hpq]
    · by_cases hq : n = q
      · subst hq; simp [upd, hn]
      · simp [upd, hn, hq, ih]

/-! ## Monotonicity of the diagnostics counter -/

theorem errs_le_stepLifetime (s : St) (v : Option String) : s.errs ≤ (stepLifetime s v).errs := by
  cases v <;> simp [stepLifetime] <;> omega

theorem errs_le_stepFixed (s : St) (i : Item) : s.errs ≤ (stepFixed s i).errs := by
  cases i with
  | lifetime v => exact errs_le_stepLifetime s v
  | type p t => simp [stepFixed, stepType_eq]

theorem errs_le_runFixed (s : St) (l : List Item) : s.errs ≤ (runFixed s l).errs := by
  induction l generalizing s with
  | nil => exact Nat.le_refl _
  | cons a l ih => exact Nat.le_trans (errs_le_stepFixed s a) (ih (stepFixed s a))

/-! ## Adjacent items of an accepted list commute (repaired version) -/

theorem two_lifetimes_err (s : St) (v w : Option String) :
    (stepLifetime (stepLifetime s v) w).errs ≠ 0 := by
  cases v <;> cases w <;> simp [stepLifetime] <;> omega

theorem lifetime_type_comm (s : St) (v : Option String) (p : String) (t : Ty) :
    stepType false (stepLifetime s v) p t = stepLifetime (stepType false s p t) v := by
  rw [stepType_eq, stepType_eq]
  cases v <;> simp [stepLifetime] <;> omega

theorem swap_fixed (s : St) (a b : Item) (h : (stepFixed (stepFixed s a) b).errs = 0) :
    stepFixed (stepFixed s b) a = stepFixed (stepFixed s a) b := by
  cases a with
  | lifetime v =>
    cases b with
    | lifetime w => exact absurd h (two_lifetimes_err s v w)
    | type q u => exact (lifetime_type_comm s v q u).symm
  | type p t =>
    cases b with
    | lifetime w => exact lifetime_type_comm s w p t
    | type q u =>
      by_cases hpq : p = q
      · subst hpq
        simp [stepFixed, stepType_eq, cost_upd_same] at h
      · have hqp : q ≠ p := fun e => hpq e.symm
        simp only [stepFixed, stepType_eq, Bool.false_eq_true, if_false]
        rw [cost_upd_other _ _ _ _ hpq, cost_upd_other _ _ _ _ hqp, upd_comm _ _ _ _ _ hqp]
        simp only [St.mk.injEq, true_and]
        omega

/-- an accepted list of items and any permutation of it produce the same state (repaired version) -/
theorem runFixed_perm {l1 l2 : List Item} (h : l1.Perm l2) :
    ∀ s, (runFixed s l1).errs = 0 → runFixed s l2 = runFixed s l1 := by
  induction h with
  | nil => intro s _; rfl
  | cons a _ ih => intro s hs; exact ih (stepFixed s a) hs
  | swap a b l =>
    intro s hs
    have h0 : (stepFixed (stepFixed s b) a).errs = 0 :=
      Nat.le_zero.mp (hs ▸ errs_le_runFixed (stepFixed (stepFixed s b) a) l)
    show runFixed (stepFixed (stepFixed s a) b) l = runFixed (stepFixed (stepFixed s b) a) l
    rw [swap_fixed s b a h0]
  | trans _ _ ih1 ih2 =>
    intro s hs
    have e1 := ih1 s hs
    rw [ih2 s (e1 ▸ hs), e1]

/-! ## The diagnostics of the two versions agree -/

/-- what the diagnostics depend on -/
def shape (l : List (String × Option Ty)) : List (String × Bool) := l.map fun x => (x.1, x.2.isSome)

theorem shape_cost {l l' : List (String × Option Ty)} (h : shape l = shape l') (p : String) :
    cost l p = cost l' p := by
  induction l generalizing l' with
  | nil => cases l' with
    | nil => rfl
    | cons y r => simp [shape] at h
  | cons x rest ih =>
    cases l' with
    | nil => simp [shape] at h
    | cons y r =>
      obtain ⟨n, v⟩ := x
      obtain ⟨m, w⟩ := y
      simp only [shape, List.map_cons, List.cons.injEq, Prod.mk.injEq] at h
      obtain ⟨⟨hn, hv⟩, hr⟩ := h
      subst hn
      simp [cost, hv, ih hr]

theorem shape_upd {l l' : List (String × Option Ty)} (h : shape l = shape l') (p : String) (t t' : Ty) :
    shape (upd l p t) = shape (upd l' p t') := by
  induction l generalizing l' with
  | nil => cases l' with
    | nil => rfl
    | cons y r => simp [shape] at h
  | cons x rest ih =>
    cases l' with
    | nil => simp [shape] at h
    | cons y r =>
      obtain ⟨n, v⟩ := x
      obtain ⟨m, w⟩ := y
      simp only [shape, List.map_cons, List.cons.injEq, Prod.mk.injEq] at h
      obtain ⟨⟨hn, hv⟩, hr⟩ := h
      subst hn
      by_cases hp : n = p
      · simpa [upd, hp, shape] using hr
      · have := ih hr
        simp only [shape] at this
        simp [upd, hp, shape, hv, this]

theorem runFound_errs_aux (items : List Item) :
    ∀ s s' : St, s.ltParams = s'.ltParams → s.ltSet = s'.ltSet → s.errs = s'.errs →
      shape s.types = shape s'.types → (runFound s items).errs = (runFixed s' items).errs := by
  induction items with
  | nil => intro s s' _ _ he _; exact he
  | cons a l ih =>
    intro s s' h1 h2 h3 h4
    show (runFound (stepFound s a) l).errs = (runFixed (stepFixed s' a) l).errs
    cases a with
    | lifetime v =>
      apply ih
      · cases v <;> simp [stepFound, stepFixed, stepLifetime, h1]
      · cases v <;> simp [stepFound, stepFixed, stepLifetime]
      · cases v <;> simp [stepFound, stepFixed, stepLifetime, h1, h2, h3]
      · cases v <;> simp [stepFound, stepFixed, stepLifetime, h4]
    | type p t =>
      apply ih
      · simp [stepFound, stepFixed, stepType_eq, h1]
      · simp [stepFound, stepFixed, stepType_eq, h2]
      · simp [stepFound, stepFixed, stepType_eq, h3, shape_cost h4]
      · simp only [stepFound, stepFixed, stepType_eq]
        exact shape_upd h4 _ _ _

/-- both versions emit the same number of diagnostics, for every list of items and every start state -/
theorem runFound_errs (s : St) (items : List Item) : (runFound s items).errs = (runFixed s items).errs :=
  runFound_errs_aux items s s rfl rfl rfl rfl

/-- acceptance does not depend on the order (either version) -/
theorem errs_perm (rename : Bool) (s : St) (items items' : List Item) (h : items.Perm items') :
    ((items.foldl (fun s i => match i with | .lifetime v => stepLifetime s v | .type p t => stepType rename s p t) s).errs = 0 ↔
     (items'.foldl (fun s i => match i with | .lifetime v => stepLifetime s v | .type p t => stepType rename s p t) s).errs = 0) := by
  have key : ((runFixed s items).errs = 0 ↔ (runFixed s items').errs = 0) :=
    ⟨fun h0 => by rw [runFixed_perm h s h0]; exact h0,
     fun h0 => by rw [runFixed_perm h.symm s h0]; exact h0⟩
  cases rename
  · exact key
  · show (runFound s items).errs = 0 ↔ (runFound s items').errs = 0
    rw [runFound_errs, runFound_errs]
    exact key

/-- **The repaired rule is order-independent**: for an accepted list of items (no diagnostics), every
permutation is accepted too and produces the same source lifetime and the same generics. -/
theorem fixed_perm (ltParams tyParams : List String) (items items' : List Item) (h : items.Perm items')
    (hok : (runFixed (init ltParams tyParams) items).errs = 0) :
    (runFixed (init ltParams tyParams) items').errs = 0 ∧
    (runFixed (init ltParams tyParams) items').sl = (runFixed (init ltParams tyParams) items).sl ∧
    genericsFixed (runFixed (init ltParams tyParams) items') = genericsFixed (runFixed (init ltParams tyParams) items) := by
  rw [runFixed_perm h _ hok]
  exact ⟨hok, rfl, rfl⟩

/-! ## `lifetime` first: the repaired version agrees with the code as found -/

/-- the state of the code as found that corresponds to a state of the repaired version: the stored types
have been renamed already -/
def ren (s : St) : St := { s with types := s.types.map fun x => (x.1, x.2.map (fixTy s.sl)) }

theorem upd_map (sl : SrcLt) (l : List (String × Option Ty)) (p : String) (t : Ty) :
    upd (l.map fun x => (x.1, x.2.map (fixTy sl))) p (fixTy sl t) =
      (upd l p t).map fun x => (x.1, x.2.map (fixTy sl)) := by
  induction l with
  | nil => rfl
  | cons x rest ih =>
    obtain ⟨n, v⟩ := x
    by_cases hp : n = p
    · simp [upd, hp]
    · simp only [List.map_cons] at ih ⊢
      simp [upd, hp, ih]

theorem cost_map (sl : SrcLt) (l : List (String × Option Ty)) (p : String) :
    cost (l.map fun x => (x.1, x.2.map (fixTy sl))) p = cost l p := by
  induction l with
  | nil => rfl
  | cons x rest ih =>
    obtain ⟨n, v⟩ := x
    by_cases hp : n = p
    · simp [cost, hp]
    · simp [cost, hp, ih]

theorem stepType_ren (s : St) (p : String) (t : Ty) :
    stepType true (ren s) p t = ren (stepType false s p t) := by
  simp [stepType_eq, ren, upd_map, cost_map]

theorem runFound_ren (tys : List Item) (hty : ∀ i ∈ tys, ∃ p t, i = .type p t) :
    ∀ s, runFound (ren s) tys = ren (runFixed s tys) := by
  induction tys with
  | nil => intro s; rfl
  | cons a l ih =>
    intro s
    obtain ⟨p, t, rfl⟩ := hty a (List.mem_cons_self ..)
    show runFound (stepType true (ren s) p t) l = ren (runFixed (stepType false s p t) l)
    rw [stepType_ren]
    exact ih (fun i hi => hty i (List.mem_cons_of_mem _ hi)) _

theorem run_lifetimes (lt : List Item) (hlt : ∀ i ∈ lt, ∃ v, i = .lifetime v) :
    ∀ s, runFound s lt = runFixed s lt ∧ (runFixed s lt).types = s.types := by
  induction lt with
  | nil => intro s; exact ⟨rfl, rfl⟩
  | cons a l ih =>
    intro s
    obtain ⟨v, rfl⟩ := hlt a (List.mem_cons_self ..)
    have := ih (fun i hi => hlt i (List.mem_cons_of_mem _ hi)) (stepLifetime s v)
    refine ⟨this.1, this.2.trans ?_⟩
    cases v <;> rfl

theorem map_fix_of_none (sl : SrcLt) (l : List (String × Option Ty)) (h : ∀ x ∈ l, x.2 = none) :
    (l.map fun x => (x.1, x.2.map (fixTy sl))) = l := by
  induction l with
  | nil => rfl
  | cons x rest ih =>
    obtain ⟨n, v⟩ := x
    have hv : v = none := h (n, v) (List.mem_cons_self ..)
    subst hv
    simp [ih (fun y hy => h y (List.mem_cons_of_mem _ hy))]

theorem ren_of_none (s : St) (h : ∀ x ∈ s.types, x.2 = none) : ren s = s := by
  obtain ⟨lp, sl, ls, types, errs⟩ := s
  simp only [ren, St.mk.injEq, true_and, and_true]
  exact map_fix_of_none sl types h

theorem genericsFound_ren (s : St) : genericsFound (ren s) = genericsFixed s := by
  simp [genericsFound, genericsFixed, ren]

/-- in the conventional order (`lifetime` first, or no `lifetime` item at all) the repaired rule produces
what the code as found produced -/
theorem fixed_eq_found_lifetime_first (ltParams tyParams : List String) (lt : List Item) (tys : List Item)
    (hlt : ∀ i ∈ lt, ∃ v, i = .lifetime v) (hty : ∀ i ∈ tys, ∃ p t, i = .type p t) :
    genericsFixed (runFixed (init ltParams tyParams) (lt ++ tys)) = genericsFound (runFound (init ltParams tyParams) (lt ++ tys)) ∧
    (runFixed (init ltParams tyParams) (lt ++ tys)).errs = (runFound (init ltParams tyParams) (lt ++ tys)).errs := by
  refine ⟨?_, (runFound_errs _ _).symm⟩
  obtain ⟨h1, h2⟩ := run_lifetimes lt hlt (init ltParams tyParams)
  have h3 : ren (runFixed (init ltParams tyParams) lt) = runFixed (init ltParams tyParams) lt := by
    apply ren_of_none
    rw [h2]
    intro x hx
    simp only [init, List.mem_map] at hx
    obtain ⟨a, _, rfl⟩ := hx
    rfl
  have e1 : runFound (init ltParams tyParams) (lt ++ tys) = runFound (runFound (init ltParams tyParams) lt) tys := by
    simp [runFound, List.foldl_append]
  have e2 : runFixed (init ltParams tyParams) (lt ++ tys) = runFixed (runFixed (init ltParams tyParams) lt) tys := by
    simp [runFixed, List.foldl_append]
  rw [e1, e2, h1, ← h3, runFound_ren tys hty, genericsFound_ren, h3]

end Logos.TypeItems
