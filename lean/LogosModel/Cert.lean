import LogosModel.Walk
import LogosModel.Spec
/-!
# The certificate relating a graph to a definition

`C` is a set of pairs (graph state, derivative vector), given as a predicate.  `Valid G prios D C` says that `C` contains
`(root, D)`, is closed under the graph's byte edges, and that every pair satisfies the local
simulation conditions `Local`.  `Sound.lean` proves that then the walk equals the reference scan on
every input.
-/
namespace Logos

structure Local (G : Graph) (prios : List Nat) (C : Nat → Vec → Prop) (s : Nat) (Δ : Vec) : Prop where
  early_ok : ∀ l, (G.get s).early = some l → win prios Δ = some l
  pend_byte : ∀ l, win prios Δ = some l → (G.get s).early ≠ some l →
      ∀ b, b < 256 → ∃ t, (G.get s).next b = some t ∧ (G.get t).accept = some l
  pend_eoi : ∀ l, win prios Δ = some l → (G.get s).early ≠ some l →
      ∃ t, (G.get s).eoi = some t ∧ (G.get t).accept = some l
  edge : ∀ b, b < 256 → ∀ t, (G.get s).next b = some t →
      (∀ l, (G.get t).accept = some l → win prios Δ = some l) ∧
      (viableV (derivV b Δ) = true ∨ (G.get t).accept.isSome = true) ∧
      C t (derivV b Δ)
  noedge : ∀ b, b < 256 → (G.get s).next b = none → viableV (derivV b Δ) = false
  eoi_ok : ∀ t, (G.get s).eoi = some t → ∀ l, (G.get t).accept = some l → win prios Δ = some l

structure WF (g : Graph) : Prop where
  size : 0 < g.states.size
  rootNoRec : (g.get g.root).early = none ∧ (g.get g.root).accept = none
  /-- no state reached from the root by one byte has a late accept (it would be an empty match) -/
  rootKid : ∀ b, b < 256 → ∀ t, (g.get g.root).next b = some t → (g.get t).accept = none
  eoiT : ∀ s t, (g.get s).eoi = some t →
      (g.get t).eoi = none ∧ (g.get t).early = none ∧ (g.get t).accept.isSome = true ∧
      (g.get t).normal = []

structure Valid (G : Graph) (prios : List Nat) (D : Vec) (C : Nat → Vec → Prop) : Prop where
  wf : WF G
  root : C G.root D
  noEmpty : win prios D = none
  loc : ∀ s Δ, C s Δ → Local G prios C s Δ

end Logos
